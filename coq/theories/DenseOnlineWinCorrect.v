(* DenseOnlineWinCorrect.v — the dense-time ONLINE bounded once / historically (model DenseOnlineWin.v) compute
   the tick semantics of once[b,e] / historically[b,e] on the known part [0, last stamp] of an input that starts
   at 0, whatever the sequence of batches in which the input is fed. *)
From Coq Require Import List Bool Arith ZArith Lia.
From RV Require Import Val Syntax Rho ListFacts OfflineCorrect Online Dense DenseSem DenseFacts DenseMerge DenseMergeCorrect
  DenseEval DenseEvalCorrect DenseWin DenseWinCorrect DenseOnlineMerge DenseOnlineMergeCorrect DenseOnlineWin.
Import ListNotations.
Local Open Scope Z_scope.

(* ================================================================== *)
(* the stack read from the bottom                                     *)
(* ================================================================== *)
Section Chains.
Context {VS : Val}.

(* l (first piece = lowest) cuts [lo, hi) into non-empty pieces that carry the values of F *)
Fixpoint bseg (l : list piece) (lo hi : Z) (F : Z -> V) : Prop :=
  match l with
  | [] => lo = hi
  | p :: l' => ps p = lo /\ exists m, pe p = T m /\ lo < m /\ (forall t, lo <= t -> t < m -> F t = pv p) /\ bseg l' m hi F
  end.

Lemma bseg_le : forall l lo hi F, bseg l lo hi F -> lo <= hi.
Proof.
  induction l as [|p l IH]; intros lo hi F H; cbn [bseg] in H; [lia|].
  destruct H as (_ & m & _ & Hlt & _ & H). pose proof (IH m hi F H). lia.
Qed.

Lemma bseg_snoc : forall l p lo hi F,
  bseg (l ++ [p]) lo hi F <->
  exists m, bseg l lo m F /\ ps p = m /\ pe p = T hi /\ m < hi /\ (forall t, m <= t -> t < hi -> F t = pv p).
Proof.
  induction l as [|q l IH]; intros p lo hi F; cbn [app bseg].
  - split.
    + intros (H1 & m & H2 & H3 & H4 & H5). subst m. exists lo. repeat split; assumption.
    + intros (m & H1 & H2 & H3 & H4 & H5). subst m. split; [exact H2|]. exists hi. repeat split; try assumption.
  - split.
    + intros (H1 & m & H2 & H3 & H4 & H5). apply IH in H5 as (m' & K1 & K2 & K3 & K4 & K5).
      exists m'. split; [|repeat split; assumption]. split; [exact H1|]. exists m. repeat split; assumption.
    + intros (m' & (H1 & m & H2 & H3 & H4 & H5) & K2 & K3 & K4 & K5). split; [exact H1|]. exists m.
      split; [exact H2|]. split; [exact H3|]. split; [exact H4|]. apply IH. exists m'. repeat split; assumption.
Qed.

Lemma bseg_ext : forall l lo hi F G, (forall t, lo <= t -> t < hi -> F t = G t) -> bseg l lo hi F -> bseg l lo hi G.
Proof.
  induction l as [|p l IH]; intros lo hi F G E H; cbn [bseg] in *; [exact H|].
  destruct H as (H1 & m & H2 & H3 & H4 & H5). pose proof (bseg_le _ _ _ _ H5) as Hle.
  split; [exact H1|]. exists m. split; [exact H2|]. split; [exact H3|]. split.
  - intros t Ht Htm. rewrite <- E by lia. apply H4; assumption.
  - apply (IH m hi F G); [|exact H5]. intros t Ht Hth. apply E; lia.
Qed.

Lemma stk_bseg : forall r lo hi F, stk r lo (T hi) F <-> bseg (rev r) lo hi F.
Proof.
  induction r as [|q r IH]; intros lo hi F; cbn [stk rev bseg].
  - split; [intros H; injection H as H; lia|intros H; f_equal; lia].
  - rewrite bseg_snoc. split.
    + intros (H1 & H2 & H3 & H4 & H5). cbn [tlt] in H2. apply Z.ltb_lt in H2. exists (ps q).
      split; [apply IH; exact H5|]. split; [reflexivity|]. split; [exact H1|]. split; [exact H2|].
      intros t Ht Hth. apply H4; [exact Ht|]. cbn [tlt]. apply Z.ltb_lt. exact Hth.
    + intros (m & K1 & K2 & K3 & K4 & K5). subst m. split; [exact K3|]. split; [cbn [tlt]; apply Z.ltb_lt; exact K4|].
      split; [apply (bseg_le _ _ _ _ K1)|]. split; [|apply IH; exact K1].
      intros t Ht Hth. cbn [tlt] in Hth. apply Z.ltb_lt in Hth. apply K5; assumption.
Qed.

(* the state between two updates: finite pieces up to the top one, which ends at X, may be empty, and carries the
   value that F keeps for ever *)
Definition wchain (l : list piece) (lo X : Z) (F : Z -> V) : Prop :=
  exists l0 p, l = l0 ++ [p] /\ bseg l0 lo (ps p) F /\ pe p = T X /\ ps p <= X /\ (forall t, ps p <= t -> F t = pv p).

Lemma wchain_stk l lo X F : wchain l lo X F ->
  exists q r, rev l = q :: r /\ pe q = T X /\ ps q <= X /\ stk ((ps q, TInf, pv q) :: r) lo TInf F.
Proof.
  intros (l0 & p & -> & H1 & H2 & H3 & H4). exists p, (rev l0). rewrite rev_app_distr. split; [reflexivity|].
  split; [exact H2|]. split; [exact H3|]. cbn [stk ps pe pv fst snd]. split; [reflexivity|]. split; [reflexivity|].
  split; [apply (bseg_le _ _ _ _ H1)|]. split; [intros t Ht _; apply H4; exact Ht|].
  apply stk_bseg. rewrite rev_involutive. exact H1.
Qed.

Lemma stk_wchain s v r lo X F : stk ((s, TInf, v) :: r) lo TInf F -> s <= X -> wchain (rev ((s, T X, v) :: r)) lo X F.
Proof.
  cbn [stk ps pe pv fst snd]. intros (_ & _ & H3 & H4 & H5) HX. exists (rev r), (s, T X, v). cbn [rev ps pe pv fst snd].
  split; [reflexivity|]. split; [apply stk_bseg; exact H5|]. split; [reflexivity|]. split; [exact HX|].
  intros t Ht. apply H4; [exact Ht|reflexivity].
Qed.

(* ---------------- the end of the top piece ---------------- *)
Definition set_end (x : tz) (out : list piece) : list piece :=
  match out with q :: r => (ps q, x, pv q) :: r | [] => [] end.

Lemma pop_end_indep lt : forall out s x y v, pop_dominated lt out (s, x, v) = pop_dominated lt out (s, y, v).
Proof.
  induction out as [|a r IH]; intros s x y v; [reflexivity|]. cbn [pop_dominated ps pv fst snd].
  destruct (lt (pv a) v && (s <? ps a)); [apply IH|reflexivity].
Qed.

(* pushing a piece that ends at X >= the current end = pushing the same piece without end, then cutting it at X *)
Lemma push_set_end out lo h F s v X :
  stk out lo (T h) F -> out <> [] -> lo <= s -> h <= X ->
  push_piece ltb out (s, T X, v) = option_map (set_end (T X)) (push_piece ltb out (s, TInf, v)).
Proof.
  intros S Hne Hlo HX.
  destruct (pop_spec out lo h F (s, TInf, v) S Hne Hlo) as (a & r' & z & E & S' & Hz & _ & _ & _).
  unfold push_piece. destruct out as [|o0 o']; [congruence|].
  rewrite (pop_end_indep ltb (o0 :: o') s (T X) TInf v), E.
  cbn [stk] in S'. destruct S' as (A1 & A2 & _). cbn [tlt] in A2. apply Z.ltb_lt in A2.
  cbn [ps pe pv fst snd]. rewrite A1. unfold intersects. cbn [tlt].
  assert (E1 : (X <? ps a) = false) by (apply Z.ltb_ge; lia). rewrite E1. cbn [negb andb].
  destruct (negb (z <? s)); cbn [negb]; [|reflexivity].
  destruct (negb (ltb (pv a) v)); reflexivity.
Qed.

(* the start of the top piece after a push *)
Lemma push_top_start out lo h F bb out' :
  stk out lo (T h) F -> out <> [] -> lo <= ps bb -> push_piece ltb out bb = Some out' ->
  exists q r, out' = q :: r /\ ps q <= Z.max (ps bb) h.
Proof.
  intros S Hne Hlo E.
  destruct (pop_spec out lo h F bb S Hne Hlo) as (a & r' & z & Ep & S' & Hz & _ & _ & _).
  unfold push_piece in E. destruct out as [|o0 o']; [congruence|]. rewrite Ep in E.
  cbn [stk] in S'. destruct S' as (A1 & _). rewrite A1 in E.
  destruct (negb (intersects (ps a) (T z) (ps bb) (pe bb))).
  - injection E as <-. exists bb, (a :: r'). split; [reflexivity|lia].
  - destruct (negb (ltb (pv a) (pv bb))).
    + injection E as <-. do 2 eexists. split; [reflexivity|]. cbn [ps fst]. lia.
    + injection E as <-. do 2 eexists. split; [reflexivity|]. lia.
Qed.

Lemma set_end_stk s v r lo F h G :
  stk ((s, TInf, v) :: r) lo TInf F -> s < h -> (forall t, lo <= t -> t < h -> F t = G t) ->
  stk ((s, T h, v) :: r) lo (T h) G.
Proof.
  cbn [stk ps pe pv fst snd]. intros (_ & _ & H3 & H4 & H5) Hs E.
  split; [reflexivity|]. split; [cbn [tlt]; apply Z.ltb_lt; exact Hs|]. split; [exact H3|]. split.
  - intros t Ht Hth. cbn [tlt] in Hth. apply Z.ltb_lt in Hth. rewrite <- E by lia. apply H4; [exact Ht|reflexivity].
  - apply (stk_ext r lo (T s) F G); [|exact H5]. intros t Ht Hts. cbn [tlt] in Hts. apply Z.ltb_lt in Hts. apply E; lia.
Qed.

Lemma env_app (l1 l2 : list piece) t : env (l1 ++ l2) t = vmax (env l1 t) (env l2 t).
Proof. unfold env. rewrite filter_app, map_app, maxl_app. reflexivity. Qed.

Lemma env_cons (p : piece) l t : env (p :: l) t = vmax (env [p] t) (env l t).
Proof. apply (env_app [p] l t). Qed.

End Chains.

(* ================================================================== *)
(* the pieces of the samples and one run of the while loop            *)
(* ================================================================== *)
Section Pieces.
Context {VS : Val}.
Variables (b e : Z).
Hypothesis Hb : 0 <= b.
Hypothesis Hbe : b <= e.

(* the pieces of a sample list, the last one ending at X *)
Fixpoint pp (s : dsig) (X : tz) : list piece :=
  match s with
  | [] => []
  | (t, v) :: r => (t + b, match r with (t', _) :: _ => T (t' + e) | [] => X end, v) :: pp r X
  end.

Lemma pp_past : forall s, pp s TInf = past_pieces s b e.
Proof. induction s as [|[t v] r IH]; [reflexivity|]. cbn [pp past_pieces]. rewrite IH. reflexivity. Qed.

Lemma pp_win : forall s, s <> [] -> win_pieces s b e = pp s (T (lastT s + e)).
Proof.
  induction s as [|[t v] r IH]; intros Hne; [congruence|]. destruct r as [|[t' v'] r'].
  - reflexivity.
  - rewrite lastT_cons. cbn [win_pieces pp]. f_equal. apply IH. discriminate.
Qed.

Lemma pp_app : forall A s X, s <> [] -> pp (A ++ s) X = pp A (T (start s + e)) ++ pp s X.
Proof.
  induction A as [|[t v] A IH]; intros s X Hne; [reflexivity|]. cbn [app pp]. rewrite (IH s X Hne). f_equal.
  destruct A as [|[t' v'] A']; [|reflexivity]. cbn [app]. destruct s as [|[t' v'] s']; [congruence|reflexivity].
Qed.

Lemma pp_nonempty s X : s <> [] -> pp s X <> [].
Proof. destruct s as [|[t v] r]; [congruence|discriminate]. Qed.

Lemma pp_starts : forall s X, dsorted s -> forall p, In p (pp s X) -> ps p <= lastT s + b.
Proof.
  induction s as [|[t v] r IH]; intros X Hs p Hin; [destruct Hin|]. cbn [pp] in Hin. destruct Hin as [<-|Hin].
  - cbn [ps fst]. pose proof (dsorted_le_last _ Hs t v (or_introl eq_refl)). lia.
  - destruct r as [|[t' v'] r']; [destruct Hin|]. rewrite lastT_cons. apply (IH X (dsorted_tl _ _ Hs) p Hin).
Qed.

Lemma pp_ends : forall s X, dsorted s -> lastT s + e <= X -> forall p, In p (pp s (T X)) -> tlt (T X) (pe p) = false.
Proof.
  induction s as [|[t v] r IH]; intros X Hs HX p Hin; [destruct Hin|]. cbn [pp] in Hin. destruct r as [|[t' v'] r'].
  - destruct Hin as [<-|[]]. cbn. apply Z.ltb_irrefl.
  - rewrite lastT_cons in HX. destruct Hin as [<-|Hin].
    + cbn [pe fst snd tlt]. apply Z.ltb_ge.
      pose proof (dsorted_le_last _ (dsorted_tl _ _ Hs) t' v' (or_introl eq_refl)). lia.
    + apply (IH X (dsorted_tl _ _ Hs) HX p Hin).
Qed.

Lemma env_pp_cut : forall s X t, t < X -> env (pp s (T X)) t = env (pp s TInf) t.
Proof.
  induction s as [|[t1 v1] r IH]; intros X t Ht; [reflexivity|]. cbn [pp].
  rewrite (env_cons _ (pp r (T X)) t), (env_cons _ (pp r TInf) t), (IH X t Ht). f_equal.
  destruct r as [|[t2 v2] r']; [|reflexivity]. unfold env, covers. cbn [filter ps pe fst snd tlt].
  assert (E : (t <? X) = true) by (apply Z.ltb_lt; exact Ht). rewrite E. destruct (t1 + b <=? t); reflexivity.
Qed.

Lemma push_all_cons lt out p l : push_all lt out (p :: l) = obind (push_piece lt out p) (fun o => push_all lt o l).
Proof.
  unfold push_all. cbn [fold_left obind]. destruct (push_piece lt out p) as [o|]; [reflexivity|].
  cbn [obind]. induction l as [|x l IH]; [reflexivity|]. cbn [fold_left obind]. exact IH.
Qed.

(* the while loop on a non-empty stack: the pieces of the batch, the last one ending at (last stamp) + e, leave the
   stack that the same pieces with an endless last one leave, cut at (last stamp) + e *)
Lemma push_run : forall sample done out lo h,
  dsorted sample -> sample <> [] ->
  stk out lo (T h) (env done) -> out <> [] ->
  (forall p, In p done -> tlt (T h) (pe p) = false) ->
  (forall p, In p done -> ps p <= start sample + b) -> lo <= start sample + b ->
  start sample + b <= h -> h <= start sample + e ->
  exists out', push_all ltb out (pp sample (T (lastT sample + e))) = Some (set_end (T (lastT sample + e)) out') /\
     (exists q r, out' = q :: r /\ ps q <= lastT sample + e) /\ stk out' lo TInf (env (done ++ pp sample TInf)).
Proof.
  induction sample as [|[t1 v1] r IH]; intros done out lo h Hs Hne S Hno Hends Hst Hlo H1 H2; [congruence|].
  cbn [start] in *. destruct r as [|[t2 v2] r'].
  - (* the last sample of the batch *)
    unfold lastT. cbn [last fst pp].
    destruct (push_all_spec [(t1 + b, TInf, v1)] done out lo h S Hno Hends (t1 + b) Hst Hlo) as (out' & E & Hno' & S' & _).
    { cbn [lseq ps pe fst snd]. split; [lia|]. split; [lia|]. split; reflexivity. }
    cbn [last] in S'. specialize (S' ltac:(discriminate)).
    rewrite push_all_cons in E. unfold push_all in E at 1. cbn [fold_left] in E.
    exists out'. split; [|split; [|exact S']].
    + rewrite push_all_cons. rewrite (push_set_end out lo h (env done) (t1 + b) v1 (t1 + e) S Hno Hlo H2).
      destruct (push_piece ltb out (t1 + b, TInf, v1)) as [o|]; cbn [obind option_map] in *; [|discriminate].
      injection E as ->. reflexivity.
    + destruct (push_piece ltb out (t1 + b, TInf, v1)) as [o|] eqn:Ep; cbn [obind] in E; [|discriminate]. injection E as ->.
      destruct (push_top_start out lo h (env done) (t1 + b, TInf, v1) out' S Hno Hlo Ep) as (q & r0 & -> & Hq).
      exists q, r0. split; [reflexivity|]. cbn [ps fst] in Hq. lia.
  - (* a sample followed by another one: the same piece in both runs *)
    cbn [dsorted] in Hs. destruct Hs as [Hlt Hs]. rewrite lastT_cons.
    change (pp ((t1, v1) :: (t2, v2) :: r') ?X) with ((t1 + b, T (t2 + e), v1) :: pp ((t2, v2) :: r') X).
    destruct (push_all_spec [(t1 + b, T (t2 + e), v1)] done out lo h S Hno Hends (t1 + b) Hst Hlo) as (out1 & E & Hno1 & S1 & _).
    { cbn [lseq ps pe fst snd]. split; [lia|]. split; [lia|]. split; [cbn [tlt]; apply Z.ltb_lt; lia|exact I]. }
    cbn [last] in S1. specialize (S1 ltac:(discriminate)).
    rewrite push_all_cons in E. unfold push_all in E at 1. cbn [fold_left] in E.
    destruct (IH (done ++ [(t1 + b, T (t2 + e), v1)]) out1 lo (t2 + e) Hs ltac:(discriminate) S1 Hno1) as (out' & E' & Hno' & S').
    + intros p Hin. apply in_app_or in Hin as [Hin|[<-|[]]].
      * pose proof (Hends p Hin) as He. clear - He H2 Hlt. destruct (pe p); cbn [tlt] in *; [|discriminate].
        apply Z.ltb_ge. apply Z.ltb_ge in He. lia.
      * cbn. apply Z.ltb_irrefl.
    + cbn [start]. intros p Hin. apply in_app_or in Hin as [Hin|[<-|[]]]; [pose proof (Hst p Hin); lia|cbn; lia].
    + cbn [start]. lia.
    + cbn [start]. lia.
    + cbn [start]. lia.
    + exists out'. split; [|split; [exact Hno'|]].
      * rewrite push_all_cons. destruct (push_piece ltb out (t1 + b, T (t2 + e), v1)) as [o|]; cbn [obind] in *; [|discriminate].
        injection E as ->. exact E'.
      * rewrite <- app_assoc in S'. exact S'.
Qed.

(* the first run when begin = 0: the first piece goes onto the empty stack *)
Lemma push_run_nil sample :
  dsorted sample -> sample <> [] ->
  exists out', push_all ltb [] (pp sample (T (lastT sample + e))) = Some (set_end (T (lastT sample + e)) out') /\
     (exists q r, out' = q :: r /\ ps q <= lastT sample + e) /\ stk out' (start sample + b) TInf (env (pp sample TInf)).
Proof.
  intros Hs Hne. destruct sample as [|[t1 v1] r]; [congruence|]. cbn [start]. destruct r as [|[t2 v2] r'].
  - unfold lastT. cbn [last fst pp]. exists [(t1 + b, TInf, v1)]. split; [reflexivity|].
    split; [do 2 eexists; split; [reflexivity|cbn [ps fst]; lia]|].
    cbn [stk ps pe pv fst snd]. split; [reflexivity|]. split; [reflexivity|]. split; [lia|]. split; [|reflexivity].
    intros t Ht _. unfold env, covers. cbn [filter ps pe fst snd tlt]. rewrite andb_true_r.
    destruct (Z.leb_spec (t1 + b) t); [|lia]. cbn. apply vmax_bot_r.
  - cbn [dsorted] in Hs. destruct Hs as [Hlt Hs]. rewrite lastT_cons.
    change (pp ((t1, v1) :: (t2, v2) :: r') ?X) with ((t1 + b, T (t2 + e), v1) :: pp ((t2, v2) :: r') X).
    destruct (push_run ((t2, v2) :: r') [(t1 + b, T (t2 + e), v1)] [(t1 + b, T (t2 + e), v1)] (t1 + b) (t2 + e) Hs ltac:(discriminate))
      as (out' & E' & Hno' & S').
    + cbn [stk ps pe pv fst snd]. split; [reflexivity|]. split; [cbn [tlt]; apply Z.ltb_lt; lia|]. split; [lia|]. split; [|reflexivity].
      intros t Ht Hlt'. unfold env, covers. cbn [filter ps pe fst snd]. rewrite Hlt'.
      destruct (Z.leb_spec (t1 + b) t); [|lia]. cbn. apply vmax_bot_r.
    + discriminate.
    + intros p [<-|[]]. cbn. apply Z.ltb_irrefl.
    + cbn [start]. intros p [<-|[]]. cbn. lia.
    + cbn [start]. lia.
    + cbn [start]. lia.
    + cbn [start]. lia.
    + exists out'. split; [|split; [exact Hno'|exact S']]. rewrite push_all_cons. cbn [push_piece obind]. exact E'.
Qed.

End Pieces.

(* ================================================================== *)
(* the final enumeration of out                                       *)
(* ================================================================== *)
Section Scan.
Context {VS : Val}.

Lemma scan_future z : forall l pv0,
  (forall p, In p l -> z < ps p /\ exists m, pe p = T m /\ ps p <= m) -> scan (RFin z) l pv0 = ([], None, l).
Proof.
  induction l as [|p l IH]; intros pv0 H; [reflexivity|]. cbn [scan].
  rewrite (IH (Some (pv p))) by (intros q Hq; apply H; right; exact Hq).
  destruct (H p (or_introl eq_refl)) as (H1 & m & H2 & H3). rewrite H2. cbn [rs_geb rs_in].
  assert (E1 : (m <=? z) = false) by (apply Z.leb_gt; lia).
  assert (E2 : (ps p <=? z) = false) by (apply Z.leb_gt; lia).
  rewrite E1, E2. reflexivity.
Qed.

Lemma bseg_future z : forall l lo hi F, bseg l lo hi F -> z < lo ->
  forall p, In p l -> z < ps p /\ exists m, pe p = T m /\ ps p <= m.
Proof.
  induction l as [|q l IH]; intros lo hi F H Hz p Hin; [destruct Hin|]. cbn [bseg] in H.
  destruct H as (H1 & m & H2 & H3 & _ & H5). destruct Hin as [<-|Hin].
  - split; [lia|]. exists m. split; [exact H2|lia].
  - apply (IH m hi F H5 ltac:(lia) p Hin).
Qed.

Lemma den_opt_single a (v : V) t : a <= t -> den_opt [(a, v)] t = Some v.
Proof. intros H. cbn [den_opt]. destruct (Z.leb_spec a t); [reflexivity|lia]. Qed.

(* the enumeration of a chain from lo <= z: the samples returned denote F on [lo, z] (given the value pv0 that the
   preceding piece left in the local variable prev), last is the sample at z, and the new self.prev is the chain from z *)
Lemma scan_spec z X F p :
  pe p = T X -> ps p <= X -> z < X -> (forall t, ps p <= t -> F t = pv p) ->
  forall l0 lo pv0, bseg l0 lo (ps p) F -> lo <= z ->
  exists res np, scan (RFin z) (l0 ++ [p]) pv0 = (res, Some (z, F z), np) /\ wchain np z X F /\
    dsorted res /\ (forall a v, In (a, v) res -> lo <= a <= z) /\
    (forall t, lo <= t <= z -> den_opt res t = Some (F t) \/ (den_opt res t = None /\ pv0 = Some (F t))).
Proof.
  intros Hpe HpX HzX Htop. induction l0 as [|p0 l0 IH]; intros lo pv0 B Hlo.
  - (* the top piece *)
    cbn [bseg] in B. subst lo. cbn [app scan]. rewrite Hpe. cbn [rs_geb rs_in tlt]. rewrite orb_true_r.
    assert (E1 : (X <=? z) = false) by (apply Z.leb_gt; lia).
    assert (E2 : (ps p <=? z) = true) by (apply Z.leb_le; lia).
    assert (E3 : (z <? X) = true) by (apply Z.ltb_lt; lia).
    rewrite E1, E2, E3. cbn [andb app]. rewrite (Htop z Hlo).
    exists [(ps p, pv p)], [(z, T X, pv p)]. split; [reflexivity|]. split.
    + exists [], (z, T X, pv p). cbn [app bseg ps pe pv fst snd]. split; [reflexivity|]. split; [reflexivity|].
      split; [reflexivity|]. split; [lia|]. intros t Ht. apply Htop. lia.
    + split; [cbn [dsorted]; auto|]. split.
      * intros a v [E|[]]. injection E as <- <-. lia.
      * intros t Ht. left. rewrite den_opt_single by lia. rewrite Htop by lia. reflexivity.
  - cbn [bseg] in B. destruct B as (B1 & m & B2 & B3 & B4 & B5). subst lo.
    pose proof (bseg_le _ _ _ _ B5) as Hmp.
    cbn [app scan]. rewrite B2. cbn [rs_geb rs_in tlt].
    assert (Enl : match l0 ++ [p] with [] => true | _ :: _ => false end = false) by (destruct l0; reflexivity).
    rewrite Enl, orb_false_r.
    set (emit := match pv0 with Some p1 => negb (veq (pv p0) p1) | None => true end).
    assert (Hemit : emit = false -> pv0 = Some (pv p0)).
    { unfold emit. destruct pv0 as [p1|]; [|discriminate]. intros Hn. apply negb_false_iff in Hn.
      apply veq_true in Hn. rewrite Hn. reflexivity. }
    destruct (Z.leb_spec m z) as [Hmz|Hmz].
    + (* a piece that is entirely known *)
      destruct (IH m (Some (pv p0)) B5 Hmz) as (res' & np & E & W & Ds & Hin & Hden). rewrite E.
      exists ((if emit then [(ps p0, pv p0)] else []) ++ res'), np. split; [reflexivity|]. split; [exact W|].
      assert (Hlb : lb (ps p0 + 1) res') by (intros a v Ha; pose proof (Hin a v Ha); lia).
      split; [destruct emit; cbn [app]; [apply dsorted_cons_lb; assumption|exact Ds]|]. split.
      * intros a v Ha. apply in_app_or in Ha as [Ha|Ha]; [|pose proof (Hin a v Ha); lia].
        destruct emit; [|destruct Ha]. destruct Ha as [Ea|[]]. injection Ea as <- <-. lia.
      * intros t Ht. destruct (Z.lt_ge_cases t m) as [Htm|Htm].
        -- assert (En : den_opt res' t = None) by (apply den_opt_before; intros a v Ha; pose proof (Hin a v Ha); lia).
           rewrite (B4 t) by lia. destruct emit eqn:Ee; cbn [app].
           ++ left. rewrite den_opt_cons, En. destruct (Z.leb_spec (ps p0) t); [reflexivity|lia].
           ++ right. split; [exact En|apply Hemit; reflexivity].
        -- destruct (Hden t ltac:(lia)) as [Hd|[Hd Hv]].
           ++ left. destruct emit; cbn [app]; [|exact Hd]. rewrite den_opt_cons, Hd.
              destruct (Z.leb_spec (ps p0) t); [reflexivity|lia].
           ++ injection Hv as Hv. destruct emit eqn:Ee; cbn [app].
              ** left. rewrite den_opt_cons, Hd, Hv. destruct (Z.leb_spec (ps p0) t); [reflexivity|lia].
              ** right. split; [exact Hd|]. rewrite <- Hv. apply Hemit. reflexivity.
    + (* the piece that contains z: what is above it is not known yet *)
      rewrite (scan_future z (l0 ++ [p]) (Some (pv p0))).
      2:{ intros q Hq. apply in_app_or in Hq as [Hq|[<-|[]]].
          - apply (bseg_future z l0 m (ps p) F B5 Hmz q Hq).
          - split; [lia|]. exists X. split; [exact Hpe|exact HpX]. }
      assert (E2 : (ps p0 <=? z) = true) by (apply Z.leb_le; lia).
      assert (E3 : (z <? m) = true) by (apply Z.ltb_lt; lia).
      rewrite E2, E3. cbn [andb]. rewrite (B4 z) by lia.
      exists ((if emit then [(ps p0, pv p0)] else []) ++ []), ((z, T m, pv p0) :: l0 ++ [p]). split; [reflexivity|]. split.
      * exists ((z, T m, pv p0) :: l0), p. split; [reflexivity|]. split; [|split; [exact Hpe|split; [exact HpX|exact Htop]]].
        cbn [bseg ps pe pv fst snd]. split; [reflexivity|]. exists m. split; [reflexivity|]. split; [lia|]. split; [|exact B5].
        intros t Ht Htm. apply B4; lia.
      * rewrite app_nil_r. split; [destruct emit; cbn [dsorted]; auto|]. split.
        -- intros a v Ha. destruct emit; [|destruct Ha]. destruct Ha as [Ea|[]]. injection Ea as <- <-. lia.
        -- intros t Ht. rewrite (B4 t) by lia. destruct emit eqn:Ee.
           ++ left. apply den_opt_single. lia.
           ++ right. split; [reflexivity|apply Hemit; reflexivity].
Qed.

End Scan.

(* ================================================================== *)
(* one update() of OnceTimedOperation(b, e), 0 <= b <= e, 0 < e       *)
(* ================================================================== *)
Section OnceUpdate.
Context {VS : Val}.
Variables (b e : Z).
Hypothesis Hb : 0 <= b.
Hypothesis Hbe : b <= e.
Hypothesis He : 0 < e.

(* the padding piece [0, b) *)
Definition padl : list piece := if 0 <? b then [(0, T (0 + b), bot)] else [].
(* what the samples A say about once[b,e], the last value being held for ever *)
Definition FA (A : dsig) (t : Z) : V := env (padl ++ pp b e A TInf) t.
(* once[b,e] at tick t of a signal that starts at 0 *)
Definition once_spec (s : dsig) (t : Z) : V := if t - b <? 0 then bot else zmax (den s) (Z.max (t - e) 0) (t - b).

Lemma env_padl t : env padl t = bot.
Proof.
  unfold padl. destruct (0 <? b); [|reflexivity]. unfold env. cbn [filter]. destruct (covers _ t); [|reflexivity].
  cbn. apply vmax_bot_l.
Qed.

Lemma FA_spec A t : dsorted A -> A <> [] -> start A = 0 -> FA A t = once_spec A t.
Proof.
  intros Hs Hne H0. unfold FA, once_spec. rewrite env_app, env_padl, vmax_bot_l, pp_past, (env_window b e Hbe A Hs Hne t), H0.
  reflexivity.
Qed.

Lemma once_spec_prefix A x t : dsorted (A ++ x) -> A <> [] -> t <= lastT A + b -> once_spec (A ++ x) t = once_spec A t.
Proof.
  intros Hs Hne Ht. unfold once_spec. destruct (t - b <? 0); [reflexivity|]. apply zmax_ext. intros u Hu.
  unfold den. rewrite (den_app_prefix A x u Hs Hne) by lia. reflexivity.
Qed.

Lemma FA_prefix A x t : dsorted (A ++ x) -> A <> [] -> start A = 0 -> t <= lastT A + b -> FA (A ++ x) t = FA A t.
Proof.
  intros Hs Hne H0 Ht. rewrite (FA_spec (A ++ x)), (FA_spec A); try assumption.
  - apply once_spec_prefix; assumption.
  - apply (dsorted_app_l _ _ Hs).
  - destruct A; [congruence|discriminate].
  - rewrite start_app by exact Hne. exact H0.
Qed.

(* ---------------- the invariant between two updates ---------------- *)
(* A: the samples received so far, O: the concatenation of the lists returned so far *)
Definition Inv (A : dsig) (st : wstate) (O : dsig) : Prop :=
  w_begin st = b /\ w_end st = e /\
  ((A = [] /\ w_prev st = [] /\ w_started st = false /\ O = []) \/
   (A <> [] /\ w_started st = true /\ w_rs st = RFin (lastT A) /\
    wchain (w_prev st) (lastT A) (lastT A + e) (FA A) /\
    wsorted O /\ (forall a v, In (a, v) O -> 0 <= a <= lastT A) /\
    (forall t, 0 <= t <= lastT A -> den_opt O t = Some (FA A t)))).

Lemma inv_init rs0 : Inv [] (win_init rs0 b e) [].
Proof. split; [reflexivity|]. split; [reflexivity|]. left. repeat split; reflexivity. Qed.

Lemma add_last_eq res last : add_last res last = oadd_last Z Z.ltb res last.
Proof. reflexivity. Qed.

Lemma new_rs_last r (s : dsig) : s <> [] -> new_rs r s = RFin (lastT s).
Proof.
  intros Hne. destruct (exists_last Hne) as (l & [t v] & ->). unfold new_rs, lastT.
  rewrite rev_app_distr, last_last. reflexivity.
Qed.

Lemma drop_repeat_batch A st O bn c :
  Inv A st O -> dsorted (A ++ bn) -> batch_of A bn c -> drop_repeat st c = bn.
Proof.
  intros (_ & _ & [(-> & _ & Es & _)|(Hne & Es & Er & _)]) Hs Hc; unfold drop_repeat; rewrite Es.
  - destruct Hc as [|v NA]; [|congruence]. destruct bn as [|[t0 v0] r]; reflexivity.
  - rewrite Er. destruct Hc as [|v NA].
    + destruct bn as [|[t0 v0] r]; [reflexivity|].
      pose proof (dsorted_app_lt A ((t0, v0) :: r) Hs Hne ltac:(discriminate)) as Hlt. cbn [start] in Hlt.
      cbn [andb rs_eqb]. destruct (Z.eqb_spec t0 (lastT A)); [lia|reflexivity].
    + cbn [andb rs_eqb]. rewrite Z.eqb_refl. reflexivity.
Qed.

(* win_update in one piece *)
Lemma once_update_eq st c sample out res last np :
  drop_repeat st c = sample ->
  push_all ltb (add_pad bot (w_started st) (extend_last (rev (w_prev st)) sample (w_end st)) sample (w_begin st))
               (win_pieces sample (w_begin st) (w_end st)) = Some out ->
  scan (new_rs (w_rs st) sample) (rev out) None = (res, last, np) ->
  once_timed_update st c =
    Some ({| w_prev := np; w_rs := new_rs (w_rs st) sample;
             w_started := w_started st || match sample with [] => false | _ => true end;
             w_begin := w_begin st; w_end := w_end st |}, add_last res last).
Proof. intros E1 E2 E3. unfold once_timed_update, win_update. rewrite E1, E2, E3. reflexivity. Qed.

(* the enumeration and the appended last sample *)
Lemma scan_finish l lo z X F : wchain l lo X F -> lo <= z -> z < X ->
  exists res np, scan (RFin z) l None = (res, Some (z, F z), np) /\ wchain np z X F /\
    dsorted (add_last res (Some (z, F z))) /\
    (forall a v, In (a, v) (add_last res (Some (z, F z))) -> lo <= a <= z) /\
    (forall t, lo <= t <= z -> den_opt (add_last res (Some (z, F z))) t = Some (F t)).
Proof.
  intros (l0 & p & -> & W1 & W2 & W3 & W4) Hlo Hz.
  destruct (scan_spec z X F p W2 W3 Hz W4 l0 lo None W1 Hlo) as (res & np & E & W & Ds & Hin & Hden).
  exists res, np. split; [exact E|]. split; [exact W|].
  assert (Hd : forall t, lo <= t <= z -> den_opt res t = Some (F t)).
  { intros t Ht. destruct (Hden t Ht) as [Hd|[_ Hd]]; [exact Hd|discriminate]. }
  rewrite add_last_eq.
  destruct (oadd_last_spec res z (F z) Ds) as (K1 & K2 & K3 & _).
  - intros a w Ha. apply (Hin a w Ha).
  - intros w Ha. pose proof (den_at_stamp res Ds z w Ha) as E1. rewrite (Hd z ltac:(lia)) in E1. congruence.
  - split; [exact K1|]. split.
    + intros a v Ha. apply K3 in Ha. apply in_app_or in Ha as [Ha|[Ea|[]]]; [apply (Hin a v Ha)|]. injection Ea as <- <-. lia.
    + intros t Ht. rewrite K2, den_snoc by (intros a w Ha; apply (Hin a w Ha)).
      destruct (Z.leb_spec z t); [f_equal; f_equal; lia|]. apply Hd. lia.
Qed.

(* the outputs so far and the new one *)
Lemma out_app O o lo z (G F : Z -> V) :
  0 <= lo -> lo <= z ->
  wsorted O -> (forall a v, In (a, v) O -> 0 <= a <= lo) -> (forall t, 0 <= t -> t < lo -> den_opt O t = Some (G t)) ->
  (forall t, 0 <= t -> t < lo -> G t = F t) ->
  dsorted o -> (forall a v, In (a, v) o -> lo <= a <= z) -> (forall t, lo <= t <= z -> den_opt o t = Some (F t)) ->
  wsorted (O ++ o) /\ (forall a v, In (a, v) (O ++ o) -> 0 <= a <= z) /\
  (forall t, 0 <= t <= z -> den_opt (O ++ o) t = Some (F t)).
Proof.
  intros H0 Hlz WO HinO HdO HGF Do Hino Hdo.
  assert (W : wsorted (O ++ o)).
  { apply wsorted_app; [exact WO|apply dsorted_wsorted; exact Do|]. intros a v a' v' Ha Ha'.
    pose proof (HinO a v Ha). pose proof (Hino a' v' Ha'). lia. }
  split; [exact W|]. split.
  - intros a v Ha. apply in_app_or in Ha as [Ha|Ha]; [pose proof (HinO a v Ha)|pose proof (Hino a v Ha)]; lia.
  - intros t Ht. rewrite (den_app_ws O o t W). destruct (Z.lt_ge_cases t lo) as [Hl|Hg].
    + rewrite (den_opt_before o t) by (intros a v Ha; pose proof (Hino a v Ha); lia).
      rewrite HdO by lia. rewrite HGF by lia. reflexivity.
    + rewrite Hdo by lia. reflexivity.
Qed.

Lemma lastT_nonneg A : dsorted A -> A <> [] -> start A = 0 -> 0 <= lastT A.
Proof.
  intros Hs Hne H0. destruct A as [|[t v] r]; [congruence|]. cbn [start] in H0. subst t.
  apply (dsorted_le_last _ Hs 0 v). left. reflexivity.
Qed.

(* ---------------- the while loop of one update ---------------- *)
Lemma extend_last_ne out (bn : dsig) : bn <> [] -> extend_last out bn e = set_end (T (start bn + e)) out.
Proof. destruct bn as [|[t0 v0] r]; [congruence|]. intros _. destruct out; reflexivity. Qed.

Lemma add_pad_ne started out (bn : dsig) : bn <> [] ->
  add_pad bot started out bn b = if (start bn =? 0) && (0 <? b) && negb started then (0, T (start bn + b), bot) :: out else out.
Proof. destruct bn as [|[t0 v0] r]; [congruence|]. intros _. reflexivity. Qed.

Lemma top_form (q : piece) r lo F : stk (q :: r) lo TInf F -> stk ((ps q, TInf, pv q) :: r) lo TInf F.
Proof. intros S. pose proof S as S0. cbn [stk] in S0. destruct S0 as (Eq & _). destruct q as [[s x] v]. cbn [pe ps pv fst snd] in *. subst x. exact S. Qed.

(* the first samples *)
Lemma push_first (bn : dsig) : dsorted bn -> bn <> [] -> start bn = 0 ->
  exists s v r,
    push_all ltb (add_pad bot false (extend_last (rev []) bn e) bn b) (win_pieces bn b e) = Some ((s, T (lastT bn + e), v) :: r) /\
    s <= lastT bn + e /\ stk ((s, TInf, v) :: r) 0 TInf (FA bn).
Proof.
  intros Hsb Nbn H0. rewrite (pp_win b e bn Nbn), (extend_last_ne _ bn Nbn), (add_pad_ne _ _ bn Nbn), H0.
  cbn [rev set_end Z.eqb negb andb]. rewrite andb_true_r. unfold FA, padl. destruct (Z.ltb_spec 0 b) as [Hpos|Hzero].
  - destruct (push_run b e Hbe bn [(0, T (0 + b), bot)] [(0, T (0 + b), bot)] 0 (0 + b) Hsb Nbn)
      as (out' & E' & (q & r & -> & Hq) & S').
    + cbn [stk ps pe pv fst snd]. split; [reflexivity|]. split; [cbn [tlt]; apply Z.ltb_lt; lia|]. split; [lia|].
      split; [|reflexivity]. intros t Ht Hlt. unfold env, covers. cbn [filter ps pe fst snd]. rewrite Hlt.
      destruct (Z.leb_spec 0 t); [|lia]. cbn. apply vmax_bot_r.
    + discriminate.
    + intros p [<-|[]]. cbn. apply Z.ltb_irrefl.
    + rewrite H0. intros p [<-|[]]. cbn. lia.
    + lia.
    + lia.
    + lia.
    + apply top_form in S'. exists (ps q), (pv q), r.
      split; [exact E'|]. split; [exact Hq|exact S'].
  - destruct (push_run_nil b e Hbe bn Hsb Nbn) as (out' & E' & (q & r & -> & Hq) & S').
    apply top_form in S'. exists (ps q), (pv q), r.
    split; [exact E'|]. split; [exact Hq|]. rewrite H0 in S'. replace (0 + b) with 0 in S' by lia. exact S'.
Qed.

(* later samples *)
Lemma push_later A prev (bn : dsig) :
  dsorted (A ++ bn) -> A <> [] -> bn <> [] -> start A = 0 -> wchain prev (lastT A) (lastT A + e) (FA A) ->
  exists s v r,
    push_all ltb (add_pad bot true (extend_last (rev prev) bn e) bn b) (win_pieces bn b e) = Some ((s, T (lastT bn + e), v) :: r) /\
    s <= lastT bn + e /\ stk ((s, TInf, v) :: r) (lastT A) TInf (FA (A ++ bn)).
Proof.
  intros Hs Hne Nbn H0 W.
  assert (HsA : dsorted A) by apply (dsorted_app_l _ _ Hs).
  assert (Hsb : dsorted bn) by (apply (dsorted_app_r A); exact Hs).
  pose proof (lastT_nonneg A HsA Hne H0) as Hz.
  pose proof (dsorted_app_lt A bn Hs Hne Nbn) as Hlt.
  rewrite (pp_win b e bn Nbn), (extend_last_ne _ bn Nbn), (add_pad_ne _ _ bn Nbn). cbn [negb]. rewrite andb_false_r.
  destruct (wchain_stk _ _ _ _ W) as (q & r & Er & Eq & Hq & S). rewrite Er. cbn [set_end].
  set (h := start bn + e).
  set (done := padl ++ pp b e A (T h)).
  assert (S0 : stk ((ps q, T h, pv q) :: r) (lastT A) (T h) (env done)).
  { apply (set_end_stk _ _ _ _ (FA A)); [exact S|unfold h; lia|]. intros t Ht Hth. unfold FA, done.
    rewrite !env_app. f_equal. symmetry. apply env_pp_cut. exact Hth. }
  destruct (push_run b e Hbe bn done ((ps q, T h, pv q) :: r) (lastT A) h Hsb Nbn S0) as (out' & E' & (q' & r' & -> & Hq') & S').
  - discriminate.
  - intros p Hin. apply in_app_or in Hin as [Hin|Hin].
    + unfold padl in Hin. destruct (0 <? b); [|destruct Hin]. destruct Hin as [<-|[]]. cbn. apply Z.ltb_ge. unfold h. lia.
    + apply (pp_ends b e A h HsA); [unfold h; lia|exact Hin].
  - intros p Hin. apply in_app_or in Hin as [Hin|Hin].
    + unfold padl in Hin. destruct (0 <? b); [|destruct Hin]. destruct Hin as [<-|[]]. cbn. lia.
    + pose proof (pp_starts b e A (T h) HsA p Hin). lia.
  - lia.
  - unfold h. lia.
  - unfold h. lia.
  - apply top_form in S'. exists (ps q'), (pv q'), r'.
    split; [exact E'|]. split; [exact Hq'|]. unfold FA. rewrite (pp_app b e A bn TInf Nbn).
    unfold done, h in S'. rewrite <- app_assoc in S'. exact S'.
Qed.

(* ---------------- one update ---------------- *)
Lemma once_update_step A st O bn c :
  Inv A st O -> dsorted (A ++ bn) -> start (A ++ bn) = 0 -> batch_of A bn c ->
  exists st' o, once_timed_update st c = Some (st', o) /\ Inv (A ++ bn) st' (O ++ o).
Proof.
  intros I Hs H0 Hc. pose proof (drop_repeat_batch A st O bn c I Hs Hc) as Ed.
  destruct I as (Eb & Ee & I).
  assert (Hcase : bn = [] \/ bn <> []) by (destruct bn; [left; reflexivity|right; discriminate]).
  destruct Hcase as [->|Nbn].
  - (* nothing new *)
    rewrite app_nil_r in *. destruct I as [(-> & Ep & Es & ->)|(Hne & Es & Er & W & WO & HinO & HdO)].
    + eexists. exists []. split.
      * apply (once_update_eq st c [] [] [] None []); [exact Ed| |reflexivity]. rewrite Ep. reflexivity.
      * split; [exact Eb|]. split; [exact Ee|]. left. cbn [w_prev w_started]. rewrite Es. repeat split; reflexivity.
    + pose proof (lastT_nonneg A Hs Hne H0) as Hz.
      destruct (scan_finish (w_prev st) (lastT A) (lastT A) (lastT A + e) (FA A) W ltac:(lia) ltac:(lia))
        as (res & np & E & W' & Do & Hino & Hdo).
      eexists. eexists. split.
      * apply (once_update_eq st c [] (rev (w_prev st)) res (Some (lastT A, FA A (lastT A))) np); [exact Ed|reflexivity|].
        rewrite rev_involutive. cbn [new_rs rev]. rewrite Er. exact E.
      * split; [exact Eb|]. split; [exact Ee|]. right. cbn [w_prev w_started w_rs new_rs rev]. rewrite Es, Er.
        split; [exact Hne|]. split; [reflexivity|]. split; [reflexivity|]. split; [exact W'|].
        apply (out_app O _ (lastT A) (lastT A) (FA A) (FA A)); try assumption; try lia; try reflexivity.
        intros t Ht1 Ht2. apply HdO. lia.
  - (* new samples *)
    set (z' := lastT bn).
    assert (Ez' : lastT (A ++ bn) = z') by (apply lastT_app; exact Nbn).
    assert (Hsb : dsorted bn) by (apply (dsorted_app_r A); exact Hs).
    assert (Enr : new_rs (w_rs st) bn = RFin z') by (apply new_rs_last; exact Nbn).
    assert (Hpush : exists lo s v r,
      push_all ltb (add_pad bot (w_started st) (extend_last (rev (w_prev st)) bn (w_end st)) bn (w_begin st))
                   (win_pieces bn (w_begin st) (w_end st)) = Some ((s, T (z' + e), v) :: r) /\
      s <= z' + e /\ stk ((s, TInf, v) :: r) lo TInf (FA (A ++ bn)) /\ 0 <= lo /\ lo <= z' /\
      wsorted O /\ (forall a w, In (a, w) O -> 0 <= a <= lo) /\
      (forall t, 0 <= t -> t < lo -> den_opt O t = Some (FA A t)) /\
      (forall t, 0 <= t -> t < lo -> FA A t = FA (A ++ bn) t)).
    { rewrite Eb, Ee. destruct I as [(-> & Ep & Es & ->)|(Hne & Es & Er & W & WO & HinO & HdO)].
      - cbn [app] in *. rewrite Ep, Es. destruct (push_first bn Hsb Nbn H0) as (s & v & r & E & Hsz & S).
        exists 0, s, v, r. split; [exact E|]. split; [exact Hsz|]. split; [exact S|]. split; [lia|].
        split; [apply (lastT_nonneg bn Hsb Nbn H0)|]. split; [exact I|]. split; [intros a w []|].
        split; intros t Ht1 Ht2; lia.
      - rewrite Es. rewrite start_app in H0 by exact Hne.
        destruct (push_later A (w_prev st) bn Hs Hne Nbn H0 W) as (s & v & r & E & Hsz & S).
        pose proof (dsorted_app_lt A bn Hs Hne Nbn) as Hlt.
        pose proof (dsorted_le_last bn Hsb) as Hle.
        assert (Hsz' : start bn <= z').
        { destruct bn as [|[t0 v0] r0]; [congruence|]. apply (Hle t0 v0). left. reflexivity. }
        exists (lastT A), s, v, r. split; [exact E|]. split; [exact Hsz|]. split; [exact S|].
        split; [apply (lastT_nonneg A (dsorted_app_l _ _ Hs) Hne H0)|]. split; [lia|]. split; [exact WO|]. split; [exact HinO|].
        split; [intros t Ht1 Ht2; apply HdO; lia|]. intros t Ht1 Ht2. symmetry. apply FA_prefix; try assumption. lia. }
    destruct Hpush as (lo & s & v & r & Ep & Hsz & S & Hlo0 & Hloz & WO & HinO & HdO & HFF).
    pose proof (stk_wchain s v r lo (z' + e) _ S Hsz) as W.
    destruct (scan_finish _ lo z' (z' + e) _ W Hloz ltac:(lia)) as (res & np & E & W' & Do & Hino & Hdo).
    eexists. eexists. split.
    + apply (once_update_eq st c bn _ res (Some (z', FA (A ++ bn) z')) np Ed Ep). rewrite Enr. exact E.
    + split; [exact Eb|]. split; [exact Ee|]. right. cbn [w_prev w_started w_rs]. rewrite Enr, Ez'.
      split; [destruct A; [exact Nbn|discriminate]|].
      split; [destruct bn; [congruence|apply orb_true_r]|]. split; [reflexivity|]. split; [exact W'|].
      apply (out_app O _ lo z' (FA A) (FA (A ++ bn))); assumption.
Qed.

End OnceUpdate.

(* ================================================================== *)
(* a sequence of updates: once[b,e], 0 <= b <= e, 0 < e               *)
(* ================================================================== *)
Section OnceRun.
Context {VS : Val}.
Variables (b e : Z).
Hypothesis Hb : 0 <= b.
Hypothesis Hbe : b <= e.
Hypothesis He : 0 < e.

(* feeding the batches bs after A has been sent delivers exactly s; a batch carries the new samples, possibly
   preceded by a sample at the last stamp already sent (batch_of, DenseOnlineMergeCorrect.v) *)
Fixpoint feeds1 (A : dsig) (bs : list dsig) (s : dsig) : Prop :=
  match bs with
  | [] => A = s
  | c :: bs' => exists bn, batch_of A bn c /\ feeds1 (A ++ bn) bs' s
  end.

Lemma feeds1_prefix : forall bs A s, feeds1 A bs s -> exists q, s = A ++ q.
Proof.
  induction bs as [|c bs IH]; intros A s H.
  - cbn [feeds1] in H. subst s. exists []. rewrite app_nil_r. reflexivity.
  - destruct H as (bn & _ & H). destruct (IH _ _ H) as [q ->]. exists (bn ++ q). rewrite app_assoc. reflexivity.
Qed.

Lemma feeds1_concat : forall bs A, feeds1 A bs (A ++ concat bs).
Proof.
  induction bs as [|c bs IH]; intros A.
  - cbn [concat feeds1]. rewrite app_nil_r. reflexivity.
  - cbn [concat feeds1]. exists c. split; [constructor|]. rewrite app_assoc. apply IH.
Qed.

Lemma once_run_inv s : dsorted s -> start s = 0 -> forall bs A st O,
  Inv b e A st O -> feeds1 A bs s ->
  exists st' outs, once_timed_run st bs = Some (st', outs) /\ Inv b e s st' (O ++ concat outs).
Proof.
  intros Hs H0. induction bs as [|c bs IH]; intros A st O I H.
  - cbn [feeds1] in H. subst s. exists st, []. split; [reflexivity|]. cbn [concat]. rewrite app_nil_r. exact I.
  - destruct H as (bn & Hc & H). destruct (feeds1_prefix _ _ _ H) as [q Eq].
    assert (SA : dsorted (A ++ bn)) by (apply (dsorted_app_l _ q); rewrite <- Eq; exact Hs).
    assert (H0' : start (A ++ bn) = 0).
    { destruct (A ++ bn) as [|x l] eqn:El; [reflexivity|]. rewrite Eq in H0. rewrite start_app in H0 by discriminate. exact H0. }
    destruct (once_update_step b e Hb Hbe He A st O bn c I SA H0' Hc) as (st1 & o & E & I1).
    destruct (IH _ _ _ I1 H) as (st2 & outs & Er & I2).
    exists st2, (o :: outs). split.
    + unfold once_timed_run in *. cbn [win_run]. unfold once_timed_update in E. rewrite E, Er. reflexivity.
    + cbn [concat]. rewrite app_assoc. exact I2.
Qed.

(* The input s (strictly increasing stamps, first stamp 0) is fed in any sequence of batches, a batch possibly
   repeating the last sample already sent: no exception; the concatenation of the returned lists has non-decreasing
   stamps, all in [0, last stamp of s], and denotes once[b,e] of s at every tick of [0, last stamp of s]. *)
Theorem once_run_from rs0 s bs :
  dsorted s -> s <> [] -> start s = 0 -> feeds1 [] bs s ->
  exists st outs,
    once_timed_run (win_init rs0 b e) bs = Some (st, outs) /\
    wsorted (concat outs) /\
    (forall a v, In (a, v) (concat outs) -> 0 <= a <= lastT s) /\
    (forall t, 0 <= t <= lastT s -> den_opt (concat outs) t = Some (once_spec b e s t)).
Proof.
  intros Hs Hne H0 H.
  destruct (once_run_inv s Hs H0 bs [] (win_init rs0 b e) [] (inv_init b e rs0) H) as (st & outs & E & I).
  cbn [app] in I. exists st, outs. split; [exact E|].
  destruct I as (_ & _ & [(-> & _)|(_ & _ & _ & _ & WO & HinO & HdO)]); [congruence|].
  split; [exact WO|]. split; [exact HinO|]. intros t Ht. rewrite (HdO t Ht). f_equal. apply FA_spec; assumption.
Qed.

End OnceRun.

(* ================================================================== *)
(* historically[b,e] by duality                                       *)
(* ================================================================== *)
Section HistDual.
Context {VS : Val}.

Definition negs (x : Z * V) : Z * V := (fst x, neg (snd x)).
Definition negst (st : wstate) : wstate :=
  {| w_prev := map negp (w_prev st); w_rs := w_rs st; w_started := w_started st; w_begin := w_begin st; w_end := w_end st |}.

Lemma dmap_negs (s : dsig) : dmap neg s = map negs s.
Proof. reflexivity. Qed.

Lemma drop_repeat_neg st c : drop_repeat (negst st) (dmap neg c) = dmap neg (drop_repeat st c).
Proof.
  unfold drop_repeat. destruct c as [|[t0 v0] r]; [reflexivity|]. cbn [dmap map fst snd negst w_started w_rs].
  destruct (w_started st && rs_eqb t0 (w_rs st)); reflexivity.
Qed.

Lemma new_rs_neg r (s : dsig) : new_rs r (dmap neg s) = new_rs r s.
Proof.
  unfold new_rs, dmap. rewrite <- map_rev. destruct (rev s) as [|[tn vn] l]; reflexivity.
Qed.

Lemma extend_last_neg out (s : dsig) e : extend_last (map negp out) (dmap neg s) e = map negp (extend_last out s e).
Proof. destruct s as [|[t0 v0] r]; [reflexivity|]. destruct out as [|q o]; reflexivity. Qed.

Lemma add_pad_neg started out (s : dsig) b : add_pad bot started (map negp out) (dmap neg s) b = map negp (add_pad top started out s b).
Proof.
  destruct s as [|[t0 v0] r]; [reflexivity|]. cbn [dmap map fst snd add_pad].
  destruct ((t0 =? 0) && (0 <? b) && negb started); [|reflexivity]. cbn [map]. unfold negp at 2. cbn [ps pe pv fst snd].
  rewrite neg_top. reflexivity.
Qed.

Lemma win_pieces_neg : forall (s : dsig) b e, win_pieces (dmap neg s) b e = map negp (win_pieces s b e).
Proof.
  induction s as [|[t v] r IH]; intros b e; [reflexivity|]. cbn [dmap map win_pieces fst snd]. fold (dmap neg r). rewrite IH.
  f_equal. unfold negp. cbn. destruct r as [|[t' v'] r']; reflexivity.
Qed.

Lemma scan_neg rs : forall l pv0,
  scan rs (map negp l) (option_map neg pv0) =
  let '(res, last, np) := scan rs l pv0 in (dmap neg res, option_map negs last, map negp np).
Proof.
  induction l as [|p l IH]; intros pv0; [reflexivity|]. cbn [map scan].
  change (pv (negp p)) with (neg (pv p)). change (ps (negp p)) with (ps p). change (pe (negp p)) with (pe p).
  change (Some (neg (pv p))) with (option_map neg (Some (pv p))). rewrite IH.
  destruct (scan rs l (Some (pv p))) as [[res' last'] np'].
  assert (Enl : match map negp l with [] => true | _ :: _ => false end = match l with [] => true | _ :: _ => false end)
    by (destruct l; reflexivity).
  rewrite Enl.
  assert (Eem : match option_map neg pv0 with Some p1 => negb (veq (neg (pv p)) p1) | None => true end
              = match pv0 with Some p1 => negb (veq (pv p) p1) | None => true end).
  { destruct pv0 as [p1|]; [|reflexivity]. cbn [option_map]. rewrite veq_neg. reflexivity. }
  rewrite Eem.
  set (emit := (match pv0 with Some p1 => negb (veq (pv p) p1) | None => true end) || match l with [] => true | _ :: _ => false end).
  assert (Eres : (if emit then [(ps p, neg (pv p))] else []) ++ dmap neg res' = dmap neg ((if emit then [(ps p, pv p)] else []) ++ res')).
  { destruct emit; reflexivity. }
  destruct (rs_geb rs (pe p)).
  - rewrite Eres. destruct last'; reflexivity.
  - destruct (rs_in rs (ps p) (pe p)); [|reflexivity].
    destruct rs as [|z|]; try (rewrite Eres; destruct last'; reflexivity).
    destruct (rs_geb (RFin z) (T (ps p))); rewrite Eres; destruct last'; reflexivity.
Qed.

Lemma add_last_neg res last : add_last (dmap neg res) (option_map negs last) = dmap neg (add_last res last).
Proof.
  unfold add_last. destruct last as [la|]; [|reflexivity]. cbn [option_map]. unfold dmap at 1. rewrite <- map_rev.
  destruct (rev res) as [|[tr wr] l]; [reflexivity|]. cbn [map fst snd negs].
  destruct (tr <? fst la); [|reflexivity]. unfold dmap. rewrite map_app. reflexivity.
Qed.

Theorem hist_once_update st c :
  once_timed_update (negst st) (dmap neg c) =
  option_map (fun r => (negst (fst r), dmap neg (snd r))) (hist_timed_update st c).
Proof.
  unfold once_timed_update, hist_timed_update, win_update. change (fun x y : V => ltb y x) with gtb.
  rewrite drop_repeat_neg. cbn [negst w_prev w_rs w_started w_begin w_end].
  rewrite new_rs_neg, <- map_rev, extend_last_neg, add_pad_neg, win_pieces_neg, push_all_neg.
  destruct (push_all gtb _ _) as [out|]; cbn [option_map]; [|reflexivity].
  rewrite <- map_rev. change None with (option_map neg None) at 1. rewrite scan_neg.
  destruct (scan _ (rev out) None) as [[res last] np]. cbn [option_map fst snd negst w_prev w_rs w_started w_begin w_end].
  rewrite add_last_neg. f_equal. f_equal. f_equal. destruct (drop_repeat st c); reflexivity.
Qed.

Lemma hist_once_run : forall bs st,
  once_timed_run (negst st) (map (dmap neg) bs) =
  option_map (fun r => (negst (fst r), map (dmap neg) (snd r))) (hist_timed_run st bs).
Proof.
  induction bs as [|c bs IH]; intros st; [reflexivity|].
  unfold once_timed_run, hist_timed_run in *. cbn [map win_run].
  pose proof (hist_once_update st c) as E. unfold once_timed_update, hist_timed_update in E. rewrite E.
  destruct (win_update (fun x y : V => ltb y x) top st c) as [[st' o]|]; cbn [option_map fst snd]; [|reflexivity].
  rewrite IH. destruct (win_run (fun x y : V => ltb y x) top st' bs) as [[st'' os]|]; reflexivity.
Qed.

Lemma lastT_dmap g (s : dsig) : lastT (dmap g s) = lastT s.
Proof.
  unfold lastT. induction s as [|[t v] r IH]; [reflexivity|]. destruct r as [|[t' v'] r']; [reflexivity|]. exact IH.
Qed.
Lemma start_dmap g (s : dsig) : start (dmap g s) = start s.
Proof. destruct s as [|[t v] r]; reflexivity. Qed.
Lemma dmap_app g (a c : dsig) : dmap g (a ++ c) = dmap g a ++ dmap g c.
Proof. apply map_app. Qed.

Lemma batch_of_dmap g A bn c : batch_of A bn c -> batch_of (dmap g A) (dmap g bn) (dmap g c).
Proof.
  intros [|v NA]; [constructor|]. cbn [dmap map fst snd]. rewrite <- (lastT_dmap g A). apply bo_repeat.
  destruct A; [congruence|discriminate].
Qed.

Lemma feeds1_dmap g : forall bs A s, feeds1 A bs s -> feeds1 (dmap g A) (map (dmap g) bs) (dmap g s).
Proof.
  induction bs as [|c bs IH]; intros A s H.
  - cbn [feeds1] in *. subst s. reflexivity.
  - destruct H as (bn & Hc & H). cbn [map feeds1]. exists (dmap g bn). split; [apply batch_of_dmap; exact Hc|].
    rewrite <- dmap_app. apply IH. exact H.
Qed.

Lemma wsorted_dmap g : forall s : dsig, wsorted (dmap g s) -> wsorted s.
Proof.
  induction s as [|[a v] r IH]; intros H; [exact I|]. cbn [dmap map fst snd wsorted] in *. destruct H as [H1 H2].
  split; [|apply IH; exact H2]. destruct r as [|[a' v'] r']; [exact I|exact H1].
Qed.

Lemma concat_dmap g (outs : list dsig) : concat (map (dmap g) outs) = dmap g (concat outs).
Proof. unfold dmap. symmetry. apply concat_map. Qed.

Definition hist_spec (b e : Z) (s : dsig) (t : Z) : V := if t - b <? 0 then top else zmin (den s) (Z.max (t - e) 0) (t - b).

Lemma once_spec_neg b e (s : dsig) t : dsorted s -> s <> [] -> start s = 0 ->
  neg (once_spec b e (dmap neg s) t) = hist_spec b e s t.
Proof.
  intros Hs Hne H0. unfold once_spec, hist_spec. destruct (t - b <? 0); [apply neg_bot|]. rewrite neg_zmax. apply zmin_ext.
  intros u Hu. unfold den. rewrite den_opt_dmap. destruct (den_opt s u) eqn:E; cbn [option_map]; [apply neg_invol|].
  exfalso. apply (proj2 (den_opt_start s Hs Hne u)); [lia|exact E].
Qed.

(* what is proved of OnceTimedOperation on the negated input carries over to HistoricallyTimedOperation *)
Lemma hist_of_once rs0 b e s bs :
  dsorted s -> s <> [] -> start s = 0 ->
  (exists st1 outs1,
    once_timed_run (win_init rs0 b e) (map (dmap neg) bs) = Some (st1, outs1) /\
    wsorted (concat outs1) /\
    (forall a v, In (a, v) (concat outs1) -> 0 <= a <= lastT (dmap neg s)) /\
    (forall t, 0 <= t <= lastT (dmap neg s) -> den_opt (concat outs1) t = Some (once_spec b e (dmap neg s) t))) ->
  exists st outs,
    hist_timed_run (win_init rs0 b e) bs = Some (st, outs) /\
    wsorted (concat outs) /\
    (forall a v, In (a, v) (concat outs) -> 0 <= a <= lastT s) /\
    (forall t, 0 <= t <= lastT s -> den_opt (concat outs) t = Some (hist_spec b e s t)).
Proof.
  intros Hs Hne H0 (st1 & outs1 & E & WO & HinO & HdO).
  change (win_init rs0 b e) with (negst (win_init rs0 b e)) in E. rewrite hist_once_run in E.
  destruct (hist_timed_run (win_init rs0 b e) bs) as [[st outs]|]; cbn [option_map fst snd] in E; [|discriminate].
  injection E as _ <-. rewrite concat_dmap in *. rewrite lastT_dmap in *.
  exists st, outs. split; [reflexivity|]. split; [apply (wsorted_dmap neg); exact WO|]. split.
  - intros a v Ha. apply (HinO a (neg v)). unfold dmap. apply (in_map (fun p => (fst p, neg (snd p))) _ (a, v) Ha).
  - intros t Ht. specialize (HdO t Ht). rewrite den_opt_dmap in HdO.
    destruct (den_opt (concat outs) t) as [x|]; cbn [option_map] in HdO; [|discriminate].
    injection HdO as HdO. rewrite <- (once_spec_neg b e s t Hs Hne H0), <- HdO, neg_invol. reflexivity.
Qed.

End HistDual.

(* ================================================================== *)
(* the bounds [0,0]: every piece of a batch is known at once          *)
(* ================================================================== *)
Section Zero.
Context {VS : Val}.

Lemma zmax_single (f : Z -> V) t : zmax f t t = f t.
Proof.
  apply eq_by_ub. intros X. rewrite zmax_ub. split; [intros H; apply H; lia|].
  intros H u Hu. replace u with t by lia. exact H.
Qed.

Lemma once_spec_00 (s : dsig) t : 0 <= t -> once_spec 0 0 s t = den s t.
Proof.
  intros Ht. unfold once_spec. rewrite !Z.sub_0_r. destruct (Z.ltb_spec t 0); [lia|].
  replace (Z.max t 0) with t by lia. apply zmax_single.
Qed.

(* the enumeration of a chain that ends at X <= z: everything is returned, nothing is kept *)
Lemma scan_known z X F p :
  pe p = T X -> ps p <= X -> X <= z -> (forall t, ps p <= t -> F t = pv p) ->
  forall l0 lo pv0, bseg l0 lo (ps p) F ->
  exists res, scan (RFin z) (l0 ++ [p]) pv0 = (res, Some (ps p, pv p), []) /\
    dsorted res /\ (forall a v, In (a, v) res -> lo <= a <= ps p) /\
    (forall t, lo <= t -> den_opt res t = Some (F t) \/ (den_opt res t = None /\ pv0 = Some (F t))).
Proof.
  intros Hpe HpX HXz Htop. induction l0 as [|p0 l0 IH]; intros lo pv0 B.
  - cbn [bseg] in B. subst lo. cbn [app scan]. rewrite Hpe. cbn [rs_geb]. rewrite orb_true_r.
    assert (E1 : (X <=? z) = true) by (apply Z.leb_le; lia). rewrite E1. cbn [app].
    exists [(ps p, pv p)]. split; [reflexivity|]. split; [cbn [dsorted]; auto|]. split.
    + intros a v [E|[]]. injection E as <- <-. lia.
    + intros t Ht. left. rewrite den_opt_single by lia. rewrite Htop by lia. reflexivity.
  - cbn [bseg] in B. destruct B as (B1 & m & B2 & B3 & B4 & B5). subst lo.
    pose proof (bseg_le _ _ _ _ B5) as Hmp.
    cbn [app scan]. rewrite B2. cbn [rs_geb].
    assert (Enl : match l0 ++ [p] with [] => true | _ :: _ => false end = false) by (destruct l0; reflexivity).
    rewrite Enl, orb_false_r.
    set (emit := match pv0 with Some p1 => negb (veq (pv p0) p1) | None => true end).
    assert (Hemit : emit = false -> pv0 = Some (pv p0)).
    { unfold emit. destruct pv0 as [p1|]; [|discriminate]. intros Hn. apply negb_false_iff in Hn.
      apply veq_true in Hn. rewrite Hn. reflexivity. }
    assert (E1 : (m <=? z) = true) by (apply Z.leb_le; lia). rewrite E1.
    destruct (IH m (Some (pv p0)) B5) as (res' & E & Ds & Hin & Hden). rewrite E.
    exists ((if emit then [(ps p0, pv p0)] else []) ++ res'). split; [reflexivity|].
    assert (Hlb : lb (ps p0 + 1) res') by (intros a v Ha; pose proof (Hin a v Ha); lia).
    split; [destruct emit; cbn [app]; [apply dsorted_cons_lb; assumption|exact Ds]|]. split.
    + intros a v Ha. apply in_app_or in Ha as [Ha|Ha]; [|pose proof (Hin a v Ha); lia].
      destruct emit; [|destruct Ha]. destruct Ha as [Ea|[]]. injection Ea as <- <-. lia.
    + intros t Ht. destruct (Z.lt_ge_cases t m) as [Htm|Htm].
      * assert (En : den_opt res' t = None) by (apply den_opt_before; intros a v Ha; pose proof (Hin a v Ha); lia).
        rewrite (B4 t) by lia. destruct emit eqn:Ee; cbn [app].
        -- left. rewrite den_opt_cons, En. destruct (Z.leb_spec (ps p0) t); [reflexivity|lia].
        -- right. split; [exact En|apply Hemit; reflexivity].
      * destruct (Hden t ltac:(lia)) as [Hd|[Hd Hv]].
        -- left. destruct emit; cbn [app]; [|exact Hd]. rewrite den_opt_cons, Hd.
           destruct (Z.leb_spec (ps p0) t); [reflexivity|lia].
        -- injection Hv as Hv. destruct emit eqn:Ee; cbn [app].
           ++ left. rewrite den_opt_cons, Hd, Hv. destruct (Z.leb_spec (ps p0) t); [reflexivity|lia].
           ++ right. split; [exact Hd|]. rewrite <- Hv. apply Hemit. reflexivity.
Qed.

Lemma scan_known_finish l lo z X F : wchain l lo X F -> X <= z ->
  exists res la, scan (RFin z) l None = (res, Some la, []) /\
    dsorted (add_last res (Some la)) /\
    (forall a v, In (a, v) (add_last res (Some la)) -> lo <= a <= X) /\
    (forall t, lo <= t -> den_opt (add_last res (Some la)) t = Some (F t)).
Proof.
  intros (l0 & p & -> & W1 & W2 & W3 & W4) HXz.
  destruct (scan_known z X F p W2 W3 HXz W4 l0 lo None W1) as (res & E & Ds & Hin & Hden).
  exists res, (ps p, pv p). split; [exact E|].
  pose proof (bseg_le _ _ _ _ W1) as Hlp.
  assert (Hd : forall t, lo <= t -> den_opt res t = Some (F t)).
  { intros t Ht. destruct (Hden t Ht) as [Hd|[_ Hd]]; [exact Hd|discriminate]. }
  rewrite add_last_eq.
  destruct (oadd_last_spec res (ps p) (pv p) Ds) as (K1 & K2 & K3 & _).
  - intros a w Ha. apply (Hin a w Ha).
  - intros w Ha. pose proof (den_at_stamp res Ds (ps p) w Ha) as E1. rewrite (Hd (ps p) Hlp), (W4 (ps p)) in E1 by lia. congruence.
  - split; [exact K1|]. split.
    + intros a v Ha. apply K3 in Ha. apply in_app_or in Ha as [Ha|[Ea|[]]]; [pose proof (Hin a v Ha); lia|]. injection Ea as <- <-. lia.
    + intros t Ht. rewrite K2, den_snoc by (intros a w Ha; apply (Hin a w Ha)).
      destruct (Z.leb_spec (ps p) t); [rewrite W4 by lia; reflexivity|]. apply Hd. exact Ht.
Qed.

Definition Inv0 (A : dsig) (st : wstate) (O : dsig) : Prop :=
  w_begin st = 0 /\ w_end st = 0 /\ w_prev st = [] /\
  ((A = [] /\ w_started st = false /\ O = []) \/
   (A <> [] /\ w_started st = true /\ w_rs st = RFin (lastT A) /\
    wsorted O /\ (forall a v, In (a, v) O -> 0 <= a <= lastT A) /\
    (forall t, 0 <= t -> den_opt O t = Some (den A t)))).

Lemma inv0_init rs0 : Inv0 [] (win_init rs0 0 0) [].
Proof. split; [reflexivity|]. split; [reflexivity|]. split; [reflexivity|]. left. repeat split; reflexivity. Qed.

Lemma drop_repeat_batch0 A st O bn c :
  Inv0 A st O -> dsorted (A ++ bn) -> batch_of A bn c -> drop_repeat st c = bn.
Proof.
  intros (_ & _ & _ & [(-> & Es & _)|(Hne & Es & Er & _)]) Hs Hc; unfold drop_repeat; rewrite Es.
  - destruct Hc as [|v NA]; [|congruence]. destruct bn as [|[t0 v0] r]; reflexivity.
  - rewrite Er. destruct Hc as [|v NA].
    + destruct bn as [|[t0 v0] r]; [reflexivity|].
      pose proof (dsorted_app_lt A ((t0, v0) :: r) Hs Hne ltac:(discriminate)) as Hlt. cbn [start] in Hlt.
      cbn [andb rs_eqb]. destruct (Z.eqb_spec t0 (lastT A)); [lia|reflexivity].
    + cbn [andb rs_eqb]. rewrite Z.eqb_refl. reflexivity.
Qed.

Lemma once_update_step0 A st O bn c :
  Inv0 A st O -> dsorted (A ++ bn) -> start (A ++ bn) = 0 -> batch_of A bn c ->
  exists st' o, once_timed_update st c = Some (st', o) /\ Inv0 (A ++ bn) st' (O ++ o).
Proof.
  intros I Hs H0 Hc. pose proof (drop_repeat_batch0 A st O bn c I Hs Hc) as Ed.
  destruct I as (Eb & Ee & Ep & I).
  assert (Hcase : bn = [] \/ bn <> []) by (destruct bn; [left; reflexivity|right; discriminate]).
  destruct Hcase as [->|Nbn].
  - rewrite !app_nil_r. eexists. exists []. split.
    + apply (once_update_eq st c [] [] [] None []); [exact Ed| |reflexivity]. rewrite Ep. reflexivity.
    + rewrite app_nil_r. split; [exact Eb|]. split; [exact Ee|]. split; [reflexivity|]. cbn [w_started w_rs new_rs rev].
      rewrite orb_false_r. exact I.
  - set (z' := lastT bn).
    assert (Ez' : lastT (A ++ bn) = z') by (apply lastT_app; exact Nbn).
    assert (Hsb : dsorted bn) by (apply (dsorted_app_r A); exact Hs).
    assert (Enr : new_rs (w_rs st) bn = RFin z') by (apply new_rs_last; exact Nbn).
    assert (Hsz' : start bn <= z').
    { destruct bn as [|[t0 v0] r0]; [congruence|]. apply (dsorted_le_last _ Hsb t0 v0). left. reflexivity. }
    assert (Hsb0 : 0 <= start bn /\ (A <> [] -> lastT A < start bn /\ 0 <= lastT A)).
    { destruct A as [|x A'].
      - cbn [app] in H0. split; [lia|congruence].
      - pose proof (dsorted_app_lt (x :: A') bn Hs ltac:(discriminate) Nbn) as Hlt.
        rewrite start_app in H0 by discriminate.
        pose proof (lastT_nonneg (x :: A') (dsorted_app_l _ _ Hs) ltac:(discriminate) H0). split; [lia|]. intros _. lia. }
    destruct Hsb0 as [Hsb0 HA].
    destruct (push_run_nil 0 0 ltac:(lia) bn Hsb Nbn) as (out' & E' & (q & r & -> & Hq) & S').
    apply top_form in S'. cbn [set_end] in E'. rewrite !Z.add_0_r in *.
    pose proof (stk_wchain (ps q) (pv q) r (start bn) z' _ S' Hq) as W.
    destruct (scan_known_finish _ (start bn) z' z' _ W ltac:(lia)) as (res & la & E & Do & Hino & Hdo).
    assert (HF : forall t, start bn <= t -> env (pp 0 0 bn TInf) t = den (A ++ bn) t).
    { intros t Ht. rewrite pp_past, (env_window 0 0 ltac:(lia) bn Hsb Nbn t), !Z.sub_0_r.
      destruct (Z.ltb_spec t (start bn)); [lia|]. replace (Z.max t (start bn)) with t by lia. rewrite zmax_single.
      unfold den. rewrite (den_suffix (A ++ bn) bn Hs (ex_intro _ A eq_refl) Nbn t Ht). reflexivity. }
    eexists. eexists. split.
    + apply (once_update_eq st c bn ((ps q, T z', pv q) :: r) res (Some la) []); [exact Ed| |rewrite Enr; exact E].
      rewrite Ep, Eb, Ee, (pp_win 0 0 bn Nbn), (extend_last_ne 0 _ bn Nbn), (add_pad_ne 0 _ _ bn Nbn).
      cbn [rev set_end]. rewrite andb_false_r. cbn [andb]. rewrite !Z.add_0_r. exact E'.
    + split; [exact Eb|]. split; [exact Ee|]. split; [reflexivity|]. right. cbn [w_started w_rs]. rewrite Enr, Ez'.
      split; [destruct A; [exact Nbn|discriminate]|].
      split; [destruct bn; [congruence|apply orb_true_r]|]. split; [reflexivity|].
      assert (WO : wsorted O /\ (forall a v, In (a, v) O -> 0 <= a < start bn) /\
                   (forall t, 0 <= t -> t < start bn -> den_opt O t = Some (den (A ++ bn) t))).
      { destruct I as [(-> & _ & ->)|(Hne & _ & _ & WO & HinO & HdO)].
        - split; [exact I|]. split; [intros a v []|]. cbn [app] in H0. intros t Ht1 Ht2. lia.
        - destruct (HA Hne) as [Hlt Hz]. split; [exact WO|]. split; [intros a v Ha; pose proof (HinO a v Ha); lia|].
          intros t Ht1 Ht2. rewrite (HdO t Ht1). unfold den. rewrite (den_app_ws A bn t (dsorted_wsorted _ Hs)).
          rewrite (den_opt_before bn t); [reflexivity|]. intros a v Ha.
          destruct bn as [|[t0 v0] r0]; [destruct Ha|]. cbn [start] in *. destruct Ha as [Ea|Ha].
          + injection Ea as <- _. lia.
          + pose proof (dsorted_lb _ _ _ Hsb a v Ha). lia. }
      destruct WO as (WO & HinO & HdO).
      assert (W2 : wsorted (O ++ add_last res (Some la))).
      { apply wsorted_app; [exact WO|apply dsorted_wsorted; exact Do|]. intros a v a' v' Ha Ha'.
        pose proof (HinO a v Ha). pose proof (Hino a' v' Ha'). lia. }
      split; [exact W2|]. split.
      * intros a v Ha. apply in_app_or in Ha as [Ha|Ha]; [pose proof (HinO a v Ha)|pose proof (Hino a v Ha)]; lia.
      * intros t Ht. rewrite (den_app_ws O _ t W2). destruct (Z.lt_ge_cases t (start bn)) as [Hl|Hg].
        -- rewrite (den_opt_before _ t) by (intros a v Ha; pose proof (Hino a v Ha); lia). apply HdO; lia.
        -- rewrite (Hdo t Hg), (HF t Hg). reflexivity.
Qed.

Lemma once_run_inv0 s : dsorted s -> start s = 0 -> forall bs A st O,
  Inv0 A st O -> feeds1 A bs s ->
  exists st' outs, once_timed_run st bs = Some (st', outs) /\ Inv0 s st' (O ++ concat outs).
Proof.
  intros Hs H0. induction bs as [|c bs IH]; intros A st O I H.
  - cbn [feeds1] in H. subst s. exists st, []. split; [reflexivity|]. cbn [concat]. rewrite app_nil_r. exact I.
  - destruct H as (bn & Hc & H). destruct (feeds1_prefix _ _ _ H) as [q Eq].
    assert (SA : dsorted (A ++ bn)) by (apply (dsorted_app_l _ q); rewrite <- Eq; exact Hs).
    assert (H0' : start (A ++ bn) = 0).
    { destruct (A ++ bn) as [|x l] eqn:El; [reflexivity|]. rewrite Eq in H0. rewrite start_app in H0 by discriminate. exact H0. }
    destruct (once_update_step0 A st O bn c I SA H0' Hc) as (st1 & o & E & I1).
    destruct (IH _ _ _ I1 H) as (st2 & outs & Er & I2).
    exists st2, (o :: outs). split.
    + unfold once_timed_run in *. cbn [win_run]. unfold once_timed_update in E. rewrite E, Er. reflexivity.
    + cbn [concat]. rewrite app_assoc. exact I2.
Qed.

Theorem once_run_from0 rs0 s bs :
  dsorted s -> s <> [] -> start s = 0 -> feeds1 [] bs s ->
  exists st outs,
    once_timed_run (win_init rs0 0 0) bs = Some (st, outs) /\
    wsorted (concat outs) /\
    (forall a v, In (a, v) (concat outs) -> 0 <= a <= lastT s) /\
    (forall t, 0 <= t <= lastT s -> den_opt (concat outs) t = Some (once_spec 0 0 s t)).
Proof.
  intros Hs Hne H0 H.
  destruct (once_run_inv0 s Hs H0 bs [] (win_init rs0 0 0) [] (inv0_init rs0) H) as (st & outs & E & I).
  cbn [app] in I. exists st, outs. split; [exact E|].
  destruct I as (_ & _ & _ & [(-> & _)|(_ & _ & _ & WO & HinO & HdO)]); [congruence|].
  split; [exact WO|]. split; [exact HinO|]. intros t Ht. rewrite once_spec_00 by lia. apply HdO. lia.
Qed.

End Zero.

(* ================================================================== *)
(* the theorems                                                       *)
(* ================================================================== *)
Section Main.
Context {VS : Val}.

Lemma once_run_any rs0 b e s bs :
  0 <= b -> b <= e -> dsorted s -> s <> [] -> start s = 0 -> feeds1 [] bs s ->
  exists st outs,
    once_timed_run (win_init rs0 b e) bs = Some (st, outs) /\
    wsorted (concat outs) /\
    (forall a v, In (a, v) (concat outs) -> 0 <= a <= lastT s) /\
    (forall t, 0 <= t <= lastT s -> den_opt (concat outs) t = Some (once_spec b e s t)).
Proof.
  intros Hb Hbe Hs Hne H0 H. destruct (Z.eq_dec e 0) as [->|Hn].
  - assert (b = 0) by lia. subst b. apply once_run_from0; assumption.
  - apply once_run_from; try assumption. lia.
Qed.

(* OnceTimedOperation(b, e), 0 <= b <= e.  The input s has strictly increasing stamps and starts at 0; it is fed in ANY
   sequence of batches bs (feeds1: each batch carries the next samples, possibly preceded by a repetition of the last
   sample already sent, with any value).  Then no update raises an exception, the concatenation of the returned lists
   has non-decreasing stamps, all of them in [0, last stamp of s], and at every tick t of [0, last stamp of s] it
   denotes  once_spec b e s t = -inf if t < b, else max of s over [max 0 (t-e), t-b]. *)
Theorem once_timed_online_correct b e s bs :
  0 <= b -> b <= e -> dsorted s -> s <> [] -> start s = 0 -> feeds1 [] bs s ->
  exists st outs,
    once_timed_run (owin_init b e) bs = Some (st, outs) /\
    wsorted (concat outs) /\
    (forall a v, In (a, v) (concat outs) -> 0 <= a <= lastT s) /\
    (forall t, 0 <= t <= lastT s -> den_opt (concat outs) t = Some (once_spec b e s t)).
Proof. apply once_run_any. Qed.

(* HistoricallyTimedOperation(b, e): the same with  hist_spec b e s t = +inf if t < b, else min of s over [max 0 (t-e), t-b] *)
Theorem hist_timed_online_correct b e s bs :
  0 <= b -> b <= e -> dsorted s -> s <> [] -> start s = 0 -> feeds1 [] bs s ->
  exists st outs,
    hist_timed_run (hwin_init b e) bs = Some (st, outs) /\
    wsorted (concat outs) /\
    (forall a v, In (a, v) (concat outs) -> 0 <= a <= lastT s) /\
    (forall t, 0 <= t <= lastT s -> den_opt (concat outs) t = Some (hist_spec b e s t)).
Proof.
  intros Hb Hbe Hs Hne H0 H. apply hist_of_once; try assumption.
  apply once_run_any; try assumption.
  - apply dsorted_dmap. exact Hs.
  - destruct s; [congruence|discriminate].
  - rewrite start_dmap. exact H0.
  - apply (feeds1_dmap neg bs [] s H).
Qed.

(* plain cuts of s are a special case of feeds1 *)
Lemma feeds1_cuts (bs : list dsig) : feeds1 [] bs (concat bs).
Proof. apply (feeds1_concat bs []). Qed.

(* two chunkings never disagree *)
Corollary once_timed_online_chunking b e s bs bs' :
  0 <= b -> b <= e -> dsorted s -> s <> [] -> start s = 0 -> feeds1 [] bs s -> feeds1 [] bs' s ->
  exists st outs st' outs',
    once_timed_run (owin_init b e) bs = Some (st, outs) /\ once_timed_run (owin_init b e) bs' = Some (st', outs') /\
    forall t, 0 <= t <= lastT s -> den_opt (concat outs) t = den_opt (concat outs') t.
Proof.
  intros Hb Hbe Hs Hne H0 H H'.
  destruct (once_timed_online_correct b e s bs Hb Hbe Hs Hne H0 H) as (st & outs & E & _ & _ & Hv).
  destruct (once_timed_online_correct b e s bs' Hb Hbe Hs Hne H0 H') as (st' & outs' & E' & _ & _ & Hv').
  exists st, outs, st', outs'. split; [exact E|]. split; [exact E'|]. intros t Ht. rewrite (Hv t Ht), (Hv' t Ht). reflexivity.
Qed.

Corollary hist_timed_online_chunking b e s bs bs' :
  0 <= b -> b <= e -> dsorted s -> s <> [] -> start s = 0 -> feeds1 [] bs s -> feeds1 [] bs' s ->
  exists st outs st' outs',
    hist_timed_run (hwin_init b e) bs = Some (st, outs) /\ hist_timed_run (hwin_init b e) bs' = Some (st', outs') /\
    forall t, 0 <= t <= lastT s -> den_opt (concat outs) t = den_opt (concat outs') t.
Proof.
  intros Hb Hbe Hs Hne H0 H H'.
  destruct (hist_timed_online_correct b e s bs Hb Hbe Hs Hne H0 H) as (st & outs & E & _ & _ & Hv).
  destruct (hist_timed_online_correct b e s bs' Hb Hbe Hs Hne H0 H') as (st' & outs' & E' & _ & _ & Hv').
  exists st, outs, st', outs'. split; [exact E|]. split; [exact E'|]. intros t Ht. rewrite (Hv t Ht), (Hv' t Ht). reflexivity.
Qed.

(* ---------------- in terms of the tick semantics rhoZ of DenseSem.v ---------------- *)
Variable AR : Arith VS.
Variable pk : formula -> formula -> pkind.

Lemma once_spec_rhoZ tend (nb ne : nat) (s : dsig) t :
  start s = 0 -> once_spec (zb nb) (zb ne) s t = rhoZ AR pk [s] tend (OnceT nb ne (Var 0)) t.
Proof. intros H0. cbn [rhoZ dstart nth]. rewrite H0. reflexivity. Qed.
Lemma hist_spec_rhoZ tend (nb ne : nat) (s : dsig) t :
  start s = 0 -> hist_spec (zb nb) (zb ne) s t = rhoZ AR pk [s] tend (HistT nb ne (Var 0)) t.
Proof. intros H0. cbn [rhoZ dstart nth]. rewrite H0. reflexivity. Qed.

Theorem once_timed_online_rhoZ tend (nb ne : nat) s bs :
  (nb <= ne)%nat -> dsorted s -> s <> [] -> start s = 0 -> feeds1 [] bs s ->
  exists st outs,
    once_timed_run (owin_init (zb nb) (zb ne)) bs = Some (st, outs) /\
    wsorted (concat outs) /\
    (forall a v, In (a, v) (concat outs) -> 0 <= a <= lastT s) /\
    (forall t, 0 <= t <= lastT s -> den_opt (concat outs) t = Some (rhoZ AR pk [s] tend (OnceT nb ne (Var 0)) t)).
Proof.
  intros Hle Hs Hne H0 H.
  destruct (once_timed_online_correct (zb nb) (zb ne) s bs ltac:(unfold zb; lia) ltac:(unfold zb; lia) Hs Hne H0 H)
    as (st & outs & E & W & Hin & Hv).
  exists st, outs. split; [exact E|]. split; [exact W|]. split; [exact Hin|].
  intros t Ht. rewrite (Hv t Ht), (once_spec_rhoZ tend nb ne s t H0). reflexivity.
Qed.

Theorem hist_timed_online_rhoZ tend (nb ne : nat) s bs :
  (nb <= ne)%nat -> dsorted s -> s <> [] -> start s = 0 -> feeds1 [] bs s ->
  exists st outs,
    hist_timed_run (hwin_init (zb nb) (zb ne)) bs = Some (st, outs) /\
    wsorted (concat outs) /\
    (forall a v, In (a, v) (concat outs) -> 0 <= a <= lastT s) /\
    (forall t, 0 <= t <= lastT s -> den_opt (concat outs) t = Some (rhoZ AR pk [s] tend (HistT nb ne (Var 0)) t)).
Proof.
  intros Hle Hs Hne H0 H.
  destruct (hist_timed_online_correct (zb nb) (zb ne) s bs ltac:(unfold zb; lia) ltac:(unfold zb; lia) Hs Hne H0 H)
    as (st & outs & E & W & Hin & Hv).
  exists st, outs. split; [exact E|]. split; [exact W|]. split; [exact Hin|].
  intros t Ht. rewrite (Hv t Ht), (hist_spec_rhoZ tend nb ne s t H0). reflexivity.
Qed.

End Main.
