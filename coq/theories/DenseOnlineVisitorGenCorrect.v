(* DenseOnlineVisitorGenCorrect.v — HAND-written: the visitors of DenseOnlineVisitorGen.v (GENERATED from the Python text of the dense-time
   online interpreter by tools/py2coq_denseonlinevisitor.py) against the hand model DenseOnlineMon.v / DenseOnlineReset.v.
   The generated visitors run every operation class on the stamps tz = Z + {+inf} (what the Python objects do: a constant is the signal
   [[0, c], [inf, c]]); the hand model keeps, per node, EITHER the tz instance of the operation (an operand is closed: SBinE, SWinE, ..) OR
   its Z instance behind unlift / lift (SBinZ, SWinZ, ..).  [DRel a o h]: the object o that the generated dictionary holds under the name
   of node a is of the class the hand model assumes for a and its fields abstract (DenseOnlineGenCorrect.v) to the tz-instance state h.
   Proved here, per node class (denseonlinevisitor_gen_refines):
   (1) construction: the same rejections as DenseOnlineReset.supported (= Support.supported DenseOn) and, on supported trees where
       time_unit_transformer answers, success; the clause of a supported class visits the children left to right, then stores ONE fresh
       object related to op_init_e (sem a) — op_init with the tz instance chosen; it IS op_init (sem a) when the operands are closed;
   (2) update: dgop_update0/1/2 on a related object = the hand model's const_update / ustep / bstep on the tz-instance state (exceptions
       included), and the relation is kept.
   NOT proved: the whole-run equation gen_drun = mon_run (needs (i) names injective -> formula-keyed dictionary, as in
   OnlineVisitorGenCorrect.v, and (ii) the transfer tz instance on lifted batches = lifted Z instance for nodes with open operands). *)
From Coq Require Import List Bool Arith ZArith String Lia.
From RV Require Import Val Syntax Rho Online Dense DenseMerge PyDense DenseOnlineMerge DenseOnlineFold DenseOnlineWin DenseOnlineMon Units NodeName
  OnlineNamed Support DenseOnlineReset DenseOnlineGen DenseOnlineGenCorrect DenseOnlineGenWinCorrect DenseOnlineVisitorGen.
Import ListNotations.

Section DenseVisitorCorrect.
Context {VS : Val} (AR : Arith VS).
Variable vidx : string -> string -> nat.
Variable cval : string -> V.
Variable bnd : bound -> bound -> nat * nat.
Variable tut : bound -> bound -> option (Z * Z).
Definition dpk0 : formula -> formula -> pkind := fun _ _ => PStd.    (* StlDenseTimeOnlineAstVisitor builds the standard PredicateOperation *)
Notation sem := (OnlineNamed.sem vidx cval bnd).
Notation dgop := (@dgop VS).
Notation gen_dconstruct := (gen_dconstruct tut cval).

(* op_init of DenseOnlineMon.v with the tz instance of every operation (what op_init answers when the operands are closed) *)
Definition op_init_e (p : formula) : opst :=
  match p with
  | A2 _ _ _ | And _ _ | Or _ _ | Implies _ _ | Iff _ _ | Xor _ _ => SBinE ostate0
  | Pred _ _ _ => SPredE pred_init
  | Since _ _ => SSinE since_init
  | OnceT b e _ => SWinE (owin_init_e (zb b) (zb e))
  | HistT b e _ => SWinE (hwin_init_e (zb b) (zb e))
  | SinceT b e _ _ => SStE (st_init (hwin_init_e 0 (zb b)) (owin_init_e (zb b) (zb e)))
  | _ => op_init p
  end.
Definition operands_closed (p : formula) : bool :=
  match p with
  | A2 _ f g | Pred _ f g | And f g | Or f g | Implies f g | Iff f g | Xor f g | Since f g | SinceT _ _ f g => closed f || closed g
  | OnceT _ _ f | HistT _ _ f => closed f
  | _ => true
  end.
Lemma op_init_e_closed p : operands_closed p = true -> op_init_e p = op_init p.
Proof. destruct p; cbn [operands_closed op_init_e op_init]; intros H; rewrite ?H; reflexivity. Qed.

Definition DRel (a : node) (o : dgop) (h : opst) : Prop :=
  match a, o with
  | NVar _ _, Op_VariableOperation => h = SNone
  | NConst _, Op_ConstantOperation s => h = SConst (Constant_abs s)
  | NUn u_not _, Op_NotOperation _ | NUn u_abs _, Op_AbsOperation _ | NUn u_sqrt _, Op_SqrtOperation _ | NUn u_exp _, Op_ExpOperation _
  | NUn u_ln _, Op_LnOperation _ | NUn u_negate _, Op_NegateOperation _ => h = SNone
  | NUn u_once _, Op_OnceOperation s => h = SFold {| fprev := Once_prev s |}
  | NUn u_hist _, Op_HistoricallyOperation s => h = SFold {| fprev := Historically_prev s |}
  | NTUn t_once _ _ _, Op_OnceTimedOperation s => h = SWinE (OnceTimed_abs s) /\ PO_e s
  | NTUn t_hist _ _ _, Op_HistoricallyTimedOperation s => h = SWinE (HistoricallyTimed_abs s) /\ PH_e s
  | NFn2 f_pow _ _, Op_PowOperation s => h = SBinE (Pow_abs tz s)
  | NFn2 f_log _ _, Op_LogOperation s => h = SBinE (Log_abs tz s)
  | NBin b_and _ _, Op_AndOperation s => h = SBinE (And_abs tz s)
  | NBin b_or _ _, Op_OrOperation s => h = SBinE (Or_abs tz s)
  | NBin b_implies _ _, Op_ImpliesOperation s => h = SBinE (Implies_abs tz s)
  | NBin b_iff _ _, Op_IffOperation s => h = SBinE (Iff_abs tz s)
  | NBin b_xor _ _, Op_XorOperation s => h = SBinE (Xor_abs tz s)
  | NBin b_add _ _, Op_AdditionOperation s => h = SBinE (Addition_abs tz s)
  | NBin b_sub _ _, Op_SubtractionOperation s => h = SBinE (Subtraction_abs tz s)
  | NBin b_div _ _, Op_DivisionOperation s => h = SBinE (Division_abs tz s)
  | NBin b_mul _ _, Op_MultiplicationOperation s =>
      exists lo, h = SBinE {| lbuf := Multiplication_sample_left_buf s; rbuf := Multiplication_sample_right_buf s; lout := lo |}
  | NBin (b_pred c) _ _, Op_PredicateOperation s => h = SPredE (Predicate_abs tz s) /\ Predicate_comparison_op s = c
  | NBin b_since _ _, Op_SinceOperation s => h = SSinE (Since_abs tz s)
  | NTBin tb_since _ _ _ _, Op_SinceTimedOperation s => h = SStE (SinceTimed_abs_e s) /\ SinceTimed_wf s
  | _, _ => False
  end.

(* the node class itself is one the dense-time online monitor implements *)
Definition un_dense (o : un) : bool :=
  match o with u_not | u_once | u_hist | u_abs | u_sqrt | u_exp | u_ln | u_negate => true | _ => false end.
Definition tun_dense (o : tun) : bool := match o with t_once | t_hist => true | _ => false end.
Definition bin_dense (o : bin) : bool := match o with b_until => false | _ => true end.
Definition tbin_dense (o : tbin) : bool := match o with tb_since => true | _ => false end.
Definition top_dense (a : node) : bool :=
  match a with
  | NUn o _ => un_dense o | NTUn o _ _ _ => tun_dense o | NBin o _ _ => bin_dense o | NTBin o _ _ _ _ => tbin_dense o | _ => true
  end.
Definition is_un (a : node) : bool := match a with NUn _ _ | NTUn _ _ _ _ => true | _ => false end.
Definition is_bi (a : node) : bool := match a with NFn2 _ _ _ | NBin _ _ _ | NTBin _ _ _ _ _ => true | _ => false end.
(* time_unit_transformer on the bounds of the node returns what the hand model's bnd holds *)
Definition tut_ok (a : node) : Prop :=
  match a with
  | NTUn _ b e _ | NTBin _ b e _ _ => tut b e = Some (zb (fst (bnd b e)), zb (snd (bnd b e)))
  | _ => True
  end.
(* ... and answers on every timed node of the tree *)
Fixpoint tut_total (a : node) : bool :=
  match a with
  | NVar _ _ | NConst _ => true
  | NUn _ c => tut_total c
  | NTUn _ b e c => (match tut b e with Some _ => true | None => false end) && tut_total c
  | NFn2 _ c1 c2 | NBin _ c1 c2 => tut_total c1 && tut_total c2
  | NTBin _ b e c1 c2 => (match tut b e with Some _ => true | None => false end) && tut_total c1 && tut_total c2
  end.

(* ---------------- the construction visitor ---------------- *)
Lemma supported_dense_on (p : formula) : DenseOnlineReset.supported p = Support.supported DenseOn p.
Proof.
  unfold Support.supported.
  induction p; cbn [DenseOnlineReset.supported past_only no_sample_ops]; try reflexivity;
    rewrite ?IHp, ?IHp1, ?IHp2;
    repeat match goal with |- context [past_only ?q] => destruct (past_only q) end;
    repeat match goal with |- context [no_sample_ops ?q] => destruct (no_sample_ops q) end; reflexivity.
Qed.

Lemma gen_dconstruct_rejects x : DenseOnlineReset.supported (sem x) = false -> forall gd, gen_dconstruct x gd = None.
Proof.
  induction x as [v f|t|u c IH|u b e c IH|u c1 IH1 c2 IH2|u c1 IH1 c2 IH2|u b e c1 IH1 c2 IH2]; intros Hp gd; try discriminate Hp.
  - destruct u; cbn [OnlineNamed.sem un_formula DenseOnlineReset.supported] in Hp; cbn [DenseOnlineVisitorGen.gen_dconstruct]; try reflexivity; rewrite (IH Hp gd); reflexivity.
  - destruct u; cbn [OnlineNamed.sem tun_formula DenseOnlineReset.supported] in Hp; cbn [DenseOnlineVisitorGen.gen_dconstruct]; try reflexivity; rewrite (IH Hp gd); reflexivity.
  - destruct u; cbn [OnlineNamed.sem fn2_formula DenseOnlineReset.supported] in Hp; cbn [DenseOnlineVisitorGen.gen_dconstruct]; apply andb_false_iff in Hp; destruct Hp as [Hp|Hp];
      first [rewrite (IH1 Hp gd); reflexivity | destruct (gen_dconstruct c1 gd); [rewrite (IH2 Hp)|]; reflexivity].
  - destruct u; cbn [OnlineNamed.sem bin_formula DenseOnlineReset.supported] in Hp; cbn [DenseOnlineVisitorGen.gen_dconstruct]; try reflexivity; apply andb_false_iff in Hp; destruct Hp as [Hp|Hp];
      first [rewrite (IH1 Hp gd); reflexivity | destruct (gen_dconstruct c1 gd); [rewrite (IH2 Hp)|]; reflexivity].
  - destruct u; cbn [OnlineNamed.sem tbin_formula DenseOnlineReset.supported] in Hp; cbn [DenseOnlineVisitorGen.gen_dconstruct]; try reflexivity; apply andb_false_iff in Hp; destruct Hp as [Hp|Hp];
      first [rewrite (IH1 Hp gd); reflexivity | destruct (gen_dconstruct c1 gd); [rewrite (IH2 Hp)|]; reflexivity].
Qed.

Lemma gen_dconstruct_accepts x : DenseOnlineReset.supported (sem x) = true -> tut_total x = true -> forall gd, exists gd', gen_dconstruct x gd = Some gd'.
Proof.
  induction x as [v f|t|u c IH|u b e c IH|u c1 IH1 c2 IH2|u c1 IH1 c2 IH2|u b e c1 IH1 c2 IH2]; intros Hp Ht gd;
    cbn [tut_total] in Ht; repeat (apply andb_true_iff in Ht; let H := fresh "Ht" in destruct Ht as [Ht H]).
  - eexists; reflexivity.
  - eexists; reflexivity.
  - destruct u; cbn [OnlineNamed.sem un_formula DenseOnlineReset.supported] in Hp; try discriminate Hp;
      destruct (IH Hp Ht gd) as [g1 E1]; cbn [DenseOnlineVisitorGen.gen_dconstruct]; rewrite E1; eexists; reflexivity.
  - destruct (tut b e) as [[zb0 ze0]|] eqn:Et; [|discriminate Ht].
    destruct u; cbn [OnlineNamed.sem tun_formula DenseOnlineReset.supported] in Hp; try discriminate Hp;
      destruct (IH Hp Ht0 gd) as [g1 E1]; cbn [DenseOnlineVisitorGen.gen_dconstruct]; rewrite E1, Et; eexists; reflexivity.
  - destruct u; cbn [OnlineNamed.sem fn2_formula DenseOnlineReset.supported] in Hp; apply andb_true_iff in Hp; destruct Hp as [Hp1 Hp2];
      destruct (IH1 Hp1 Ht gd) as [g1 E1]; destruct (IH2 Hp2 Ht0 g1) as [g2 E2]; cbn [DenseOnlineVisitorGen.gen_dconstruct]; rewrite E1, E2; eexists; reflexivity.
  - destruct u; cbn [OnlineNamed.sem bin_formula DenseOnlineReset.supported] in Hp; try discriminate Hp; apply andb_true_iff in Hp; destruct Hp as [Hp1 Hp2];
      destruct (IH1 Hp1 Ht gd) as [g1 E1]; destruct (IH2 Hp2 Ht0 g1) as [g2 E2]; cbn [DenseOnlineVisitorGen.gen_dconstruct]; rewrite E1, E2; eexists; reflexivity.
  - destruct (tut b e) as [[zb0 ze0]|] eqn:Et; [|discriminate Ht].
    destruct u; cbn [OnlineNamed.sem tbin_formula DenseOnlineReset.supported] in Hp; try discriminate Hp; apply andb_true_iff in Hp; destruct Hp as [Hp1 Hp2];
      destruct (IH1 Hp1 Ht1 gd) as [g1 E1]; destruct (IH2 Hp2 Ht0 g1) as [g2 E2]; cbn [DenseOnlineVisitorGen.gen_dconstruct]; rewrite E1, E2, Et; eexists; reflexivity.
Qed.

(* a leaf: one fresh object under the name of the node (a constant too: ConstantOperation(node.val)) *)
Lemma gen_dconstruct_leaf_var v f gd :
  gen_dconstruct (NVar v f) gd = Some (sd_set gd (nname (NVar v f)) Op_VariableOperation) /\
  DRel (NVar v f) Op_VariableOperation (op_init_e (sem (NVar v f))).
Proof. split; reflexivity. Qed.
Lemma gen_dconstruct_leaf_const t gd :
  gen_dconstruct (NConst t) gd = Some (sd_set gd (nname (NConst t)) (Op_ConstantOperation (Constant_init tz (cval t)))) /\
  DRel (NConst t) (Op_ConstantOperation (Constant_init tz (cval t))) (op_init_e (sem (NConst t))).
Proof. split; reflexivity. Qed.

Ltac init_goal :=
  first [ reflexivity
        | exists None; reflexivity
        | split; reflexivity
        | split; [f_equal; apply OnceTimed_init_abs | apply (proj1 (proj2 (dense_online_gen_bounded_refines VS AR)))]
        | split; [f_equal; apply HistoricallyTimed_init_abs | apply (proj1 (proj2 (proj2 (proj2 (proj2 (dense_online_gen_bounded_refines VS AR))))))]
        | split; [f_equal; apply SinceTimed_init_abs | apply SinceTimed_init_wf] ].

(* a supported unary node: the child first, then one object of the class of the node, related to op_init_e *)
Lemma gen_dconstruct_un a c gd gd1 : (exists u, a = NUn u c) \/ (exists u b e, a = NTUn u b e c) ->
  top_dense a = true -> tut_ok a -> gen_dconstruct c gd = Some gd1 ->
  exists o, gen_dconstruct a gd = Some (sd_set gd1 (nname a) o) /\ DRel a o (op_init_e (sem a)).
Proof.
  intros [[u ->]|[u [b [e ->]]]] Hp Ht Hc; destruct u; try discriminate Hp; cbn [DenseOnlineVisitorGen.gen_dconstruct]; rewrite Hc;
    cbn [tut_ok] in Ht; rewrite ?Ht; eexists; (split; [reflexivity|]);
    cbn [DRel OnlineNamed.sem un_formula tun_formula op_init_e op_init]; init_goal.
Qed.

Lemma gen_dconstruct_bi a c1 c2 gd gd1 gd2 :
  (exists u, a = NFn2 u c1 c2) \/ (exists u, a = NBin u c1 c2) \/ (exists u b e, a = NTBin u b e c1 c2) ->
  top_dense a = true -> tut_ok a -> gen_dconstruct c1 gd = Some gd1 -> gen_dconstruct c2 gd1 = Some gd2 ->
  exists o, gen_dconstruct a gd = Some (sd_set gd2 (nname a) o) /\ DRel a o (op_init_e (sem a)).
Proof.
  intros [[u ->]|[[u ->]|[u [b [e ->]]]]] Hp Ht Hc1 Hc2; destruct u; try discriminate Hp; cbn [DenseOnlineVisitorGen.gen_dconstruct]; rewrite Hc1, Hc2;
    cbn [tut_ok] in Ht; rewrite ?Ht; eexists; (split; [reflexivity|]);
    cbn [DRel OnlineNamed.sem fn2_formula bin_formula tbin_formula op_init_e op_init]; init_goal.
Qed.

(* ---------------- operator.update(..) on the stored objects ---------------- *)
(* hres: what the hand model answers on the tz-instance state; gres: what the generated dispatch answers on a related object *)
Definition upd_spec (a : node) (hres : option (opst * esig)) (gres : option (dgop * esig)) : Prop :=
  match hres with
  | None => gres = None
  | Some (h', r) => exists o', gres = Some (o', r) /\ DRel a o' h'
  end.

(* the operand of a point-wise / unbounded unary node is closed: ustep then runs the tz instance (the bounded ones dispatch on the state) *)
Definition child_closed (a : node) : bool := match a with NUn _ c => closed (sem c) | _ => true end.
(* the generated NegateOperation computes Val.neg (Python's unary minus), the hand model's fn1 Neg is the abstract a1 AR Neg *)
Definition neg_is_neg : Prop := forall v : V, a1 AR Neg v = neg v.

Lemma unary_update_ext (f g : V -> option V) (st : ustate) (x : esig) : (forall v, f v = g v) -> unary_update tz f st x = unary_update tz g st x.
Proof.
  intros E. unfold unary_update. assert (L : unary_loop tz f x = unary_loop tz g x).
  { induction x as [|[t v] r IH]; cbn [unary_loop]; [reflexivity|]. rewrite E, IH. reflexivity. }
  rewrite L. reflexivity.
Qed.

(* the constant: DenseTimeOnlineUpdateVisitor.visitConstant calls update() without a sample *)
Lemma dgop_update0_refines t o s : DRel (NConst t) o (SConst s) ->
  upd_spec (NConst t) (option_map (fun r => (SConst (fst r), snd r)) (const_update s tt)) (dgop_update0 AR o).
Proof.
  destruct o; cbn [DRel]; try contradiction. intros H. injection H as ->.
  cbn [dgop_update0]. rewrite (gen_Constant_update_ok AR).
  destruct (const_update (Constant_abs s0) tt) as [[s' r]|]; cbn [option_map upd_spec fst snd]; [|reflexivity].
  eexists; split; [reflexivity|]. cbn [DRel]. destruct s'; reflexivity.
Qed.

Ltac fin_spec := cbn [option_map upd_spec fst snd]; first [ reflexivity | eexists; split; [reflexivity|]; cbn [DRel]; try reflexivity ].

Lemma dgop_update1_refines a o h x : neg_is_neg -> is_un a = true -> top_dense a = true -> child_closed a = true -> DRel a o h ->
  upd_spec a (ustep AR (sem a) h x) (dgop_update1 AR o x).
Proof.
  intros HN Hun Hp Hc HR.
  destruct a as [v f|t|u c|u b e c|u c1 c2|u c1 c2|u b e c1 c2]; try discriminate Hun; clear Hun;
    destruct u; try discriminate Hp; destruct o; cbn [DRel] in HR; try contradiction; cbn [child_closed] in Hc;
    cbn [ustep OnlineNamed.sem un_formula tun_formula dgop_update1 fn1]; try (subst h; rewrite Hc; unfold unary_upd_e, once_upd_e, hist_upd_e).
  - rewrite gen_Not_update_ok. destruct (unary_update tz not_fn tt x) as [[u0 r]|]; fin_spec.
  - rewrite gen_Once_update_ok. destruct (once_update tz _ x) as [[u0 r]|]; fin_spec. destruct u0; reflexivity.
  - rewrite gen_Historically_update_ok. destruct (hist_update tz _ x) as [[u0 r]|]; fin_spec. destruct u0; reflexivity.
  - rewrite gen_Abs_update_ok. destruct s. destruct (unary_update tz _ tt x) as [[[] r]|]; fin_spec.
  - rewrite gen_Sqrt_update_ok. destruct s. destruct (unary_update tz _ tt x) as [[[] r]|]; fin_spec.
  - rewrite gen_Exp_update_ok. destruct s. destruct (unary_update tz _ tt x) as [[[] r]|]; fin_spec.
  - rewrite gen_Ln_update_ok. destruct s. destruct (unary_update tz _ tt x) as [[[] r]|]; fin_spec.
  - rewrite gen_Negate_update_ok. destruct s.
    rewrite (unary_update_ext (total_fn AR Neg) not_fn tt x) by (intros v; unfold total_fn, not_fn; rewrite HN; reflexivity).
    destruct (unary_update tz _ tt x) as [[[] r]|]; fin_spec.
  - destruct HR as [-> HP]. rewrite <- (gen_OnceTimed_update_ok AR s x HP).
    destruct (gen_OnceTimed_update AR tz tlt teq tadd (T 0) s x) as [[s' r]|] eqn:E; fin_spec.
    split; [reflexivity|]. exact (proj1 (proj2 (proj2 (dense_online_gen_bounded_refines VS AR))) _ _ _ _ HP E).
  - destruct HR as [-> HP]. rewrite <- (gen_HistoricallyTimed_update_ok AR s x HP).
    destruct (gen_HistoricallyTimed_update AR tz tlt teq tadd (T 0) s x) as [[s' r]|] eqn:E; fin_spec.
    split; [reflexivity|]. exact (proj1 (proj2 (proj2 (proj2 (proj2 (proj2 (dense_online_gen_bounded_refines VS AR)))))) _ _ _ _ HP E).
Qed.

Ltac bin_sim L G s x y :=
  unfold bin_update_e; rewrite <- (L AR tz tlt teq s x y); destruct (G AR tz tlt teq s x y) as [[s' r]|]; fin_spec.

Lemma dgop_update2_refines a o h x y : is_bi a = true -> top_dense a = true -> DRel a o h ->
  upd_spec a (bstep AR dpk0 (sem a) h x y) (dgop_update2 AR o x y).
Proof.
  intros Hbi Hp HR.
  destruct a as [v f|t|u c|u b e c|u c1 c2|u c1 c2|u b e c1 c2]; try discriminate Hbi; clear Hbi;
    destruct u; try discriminate Hp; destruct o; cbn [DRel] in HR; try contradiction;
    cbn [bstep OnlineNamed.sem fn2_formula bin_formula tbin_formula dgop_update2 DenseOnlineMon.fn2]; try subst h.
  - bin_sim (@gen_Pow_sim VS) (@gen_Pow_update VS) s x y.
  - bin_sim (@gen_Log_sim VS) (@gen_Log_update VS) s x y.
  - bin_sim (@gen_And_sim VS) (@gen_And_update VS) s x y.
  - bin_sim (@gen_Or_sim VS) (@gen_Or_update VS) s x y.
  - bin_sim (@gen_Implies_sim VS) (@gen_Implies_update VS) s x y.
  - bin_sim (@gen_Iff_sim VS) (@gen_Iff_update VS) s x y.
  - bin_sim (@gen_Xor_sim VS) (@gen_Xor_update VS) s x y.
  - unfold since_upd_e. rewrite gen_Since_update_ok. unfold esig, psig, psample.
    match goal with |- context [since_update tz tlt ?st ?p] => destruct (since_update tz tlt st p) as [[st' r]|] end; fin_spec. destruct st'; reflexivity.
  - bin_sim (@gen_Addition_sim VS) (@gen_Addition_update VS) s x y.
  - bin_sim (@gen_Subtraction_sim VS) (@gen_Subtraction_update VS) s x y.
  - destruct HR as [lo ->]. rewrite (gen_Multiplication_update_ok AR tz tlt teq s x y lo).
    destruct (mul_update_g tz tlt teq (a2 AR Mul) _ x y) as [[st' r]|]; fin_spec. exists (lout st'). destruct st'; reflexivity.
  - bin_sim (@gen_Division_sim VS) (@gen_Division_update VS) s x y.
  - destruct HR as [-> Hc]. subst c. unfold dpk0, pred_update_ia. rewrite <- (gen_Predicate_update_ok AR tz tlt teq s x y).
    destruct (gen_Predicate_update AR tz tlt teq s x y) as [[s' r]|] eqn:E; fin_spec.
    split; [reflexivity|]. exact (gen_Predicate_update_op AR tz tlt teq _ _ _ _ _ E).
  - destruct HR as [-> HW]. unfold since_timed_E. rewrite <- (gen_SinceTimed_update_ok_e AR s x y HW).
    destruct (gen_SinceTimed_update AR tz tlt teq tadd (T 0) s x y) as [[s' r]|] eqn:E; fin_spec.
    split; [reflexivity|]. exact (gen_SinceTimed_update_wf AR _ _ _ _ _ HW E).
Qed.
End DenseVisitorCorrect.

(* the statements together, for every value domain and arithmetic: the generated visitors use, at every node class, the operation class
   and the update method that the hand model DenseOnlineMon.v assumes there (on its tz instance), and reject the node classes
   that DenseOnlineReset.supported / Support.supported DenseOn exclude *)
Definition denseonlinevisitor_gen_statement : Prop :=
  forall (VS : Val) (AR : Arith VS) (vidx : string -> string -> nat) (cval : string -> V) (bnd : bound -> bound -> nat * nat)
         (tut : bound -> bound -> option (Z * Z)),
    let sem := OnlineNamed.sem vidx cval bnd in
    (* construction: the rejections *)
    (forall p : formula, DenseOnlineReset.supported p = Support.supported DenseOn p) /\
    (forall x, Support.supported DenseOn (sem x) = false -> forall gd, gen_dconstruct tut cval x gd = None) /\
    (forall x, Support.supported DenseOn (sem x) = true -> tut_total tut x = true -> forall gd, exists gd', gen_dconstruct tut cval x gd = Some gd') /\
    (* construction: the object stored for a supported node *)
    (forall v f gd, gen_dconstruct tut cval (NVar v f) gd = Some (sd_set gd (nname (NVar v f)) Op_VariableOperation) /\
                    DRel (NVar v f) Op_VariableOperation (op_init_e (sem (NVar v f)))) /\
    (forall t gd, gen_dconstruct tut cval (NConst t) gd = Some (sd_set gd (nname (NConst t)) (Op_ConstantOperation (Constant_init tz (cval t)))) /\
                  DRel (NConst t) (Op_ConstantOperation (Constant_init tz (cval t))) (op_init_e (sem (NConst t)))) /\
    (forall a c gd gd1, (exists u, a = NUn u c) \/ (exists u b e, a = NTUn u b e c) ->
       top_dense a = true -> tut_ok bnd tut a -> gen_dconstruct tut cval c gd = Some gd1 ->
       exists o, gen_dconstruct tut cval a gd = Some (sd_set gd1 (nname a) o) /\ DRel a o (op_init_e (sem a))) /\
    (forall a c1 c2 gd gd1 gd2, (exists u, a = NFn2 u c1 c2) \/ (exists u, a = NBin u c1 c2) \/ (exists u b e, a = NTBin u b e c1 c2) ->
       top_dense a = true -> tut_ok bnd tut a -> gen_dconstruct tut cval c1 gd = Some gd1 -> gen_dconstruct tut cval c2 gd1 = Some gd2 ->
       exists o, gen_dconstruct tut cval a gd = Some (sd_set gd2 (nname a) o) /\ DRel a o (op_init_e (sem a))) /\
    (forall p, operands_closed p = true -> op_init_e p = op_init p) /\
    (* update of a related object: constant, unary, binary *)
    (forall t o s, DRel (NConst t) o (SConst s) ->
       upd_spec (NConst t) (option_map (fun r => (SConst (fst r), snd r)) (const_update s tt)) (dgop_update0 AR o)) /\
    (forall a o h x, neg_is_neg AR -> is_un a = true -> top_dense a = true -> child_closed vidx cval bnd a = true -> DRel a o h ->
       upd_spec a (ustep AR (sem a) h x) (dgop_update1 AR o x)) /\
    (forall a o h x y, is_bi a = true -> top_dense a = true -> DRel a o h ->
       upd_spec a (bstep AR dpk0 (sem a) h x y) (dgop_update2 AR o x y)).

Theorem denseonlinevisitor_gen_refines : denseonlinevisitor_gen_statement.
Proof.
  intros VS AR vidx cval bnd tut sem. unfold sem.
  split; [apply supported_dense_on|].
  split; [intros x H; apply (@gen_dconstruct_rejects VS vidx cval bnd tut x); rewrite supported_dense_on; exact H|].
  split; [intros x H Ht; apply (@gen_dconstruct_accepts VS vidx cval bnd tut x); [rewrite supported_dense_on; exact H|exact Ht]|].
  split; [intros; apply gen_dconstruct_leaf_var|]. split; [intros; apply gen_dconstruct_leaf_const|].
  split; [intros; eapply gen_dconstruct_un; eassumption|]. split; [intros; eapply gen_dconstruct_bi; eassumption|].
  split; [apply op_init_e_closed|].
  split; [intros; apply dgop_update0_refines; assumption|].
  split; [intros; apply dgop_update1_refines; assumption|intros; apply dgop_update2_refines; assumption].
Qed.
Print Assumptions denseonlinevisitor_gen_refines.

(* non-vacuity: once[1,2](x) >= 3 on the generated visitors, two updates; the second occurrence of a shared constant is memoised *)

(* ---------------- the update visitor, clause by clause ----------------
   The generated gen_dupdate has, at every node class, the shape of DenseOnlineMon.visit (visit_un / visit_bi, keyed by the node NAME
   instead of the formula): the memo test first (a variable is never looked up: its batch is read again), then the children left to
   right threading dictionary and memo, the object under the name of the node stepped ONCE with the children's lists in this order,
   written back, the result memoised under the name. *)
Section UpdateShape.
Context {VS : Val} (AR : Arith VS).
Variable vobj : string -> string -> option esig.
Notation dgop := (@dgop VS).
Notation R := (option (sdict dgop * sdict esig * esig)).

Definition d_reuse (k : string) (gd : sdict dgop) (gm : sdict esig) : R :=
  match sd_get gm k with Some r => Some (gd, gm, r) | None => None end.
Definition d_un_tail (k : string) (gd1 : sdict dgop) (gm1 : sdict esig) (v1 : esig) : R :=
  match sd_get gd1 k with
  | None => None
  | Some o => match dgop_update1 AR o v1 with None => None | Some (o', r) => Some (sd_set gd1 k o', sd_set gm1 k r, r) end
  end.
Definition d_bi_tail (k : string) (gd2 : sdict dgop) (gm2 : sdict esig) (v1 v2 : esig) : R :=
  match sd_get gd2 k with
  | None => None
  | Some o => match dgop_update2 AR o v1 v2 with None => None | Some (o', r) => Some (sd_set gd2 k o', sd_set gm2 k r, r) end
  end.
Definition d_const_tail (k : string) (gd : sdict dgop) (gm : sdict esig) : R :=
  match sd_get gd k with
  | None => None
  | Some o => match dgop_update0 AR o with None => None | Some (o', r) => Some (sd_set gd k o', sd_set gm k r, r) end
  end.

Lemma gen_dupdate_var v f gd gm :
  gen_dupdate AR vobj (NVar v f) gd gm = match vobj v f with Some r => Some (gd, sd_set gm (nname (NVar v f)) r, r) | None => None end.
Proof. reflexivity. Qed.
Lemma gen_dupdate_const t gd gm :
  gen_dupdate AR vobj (NConst t) gd gm =
  if sd_mem gm (nname (NConst t))
  then match sd_get gm (nname (NConst t)) with Some r => Some (gd, sd_set gm (nname (NConst t)) r, r) | None => None end
  else d_const_tail (nname (NConst t)) gd gm.
Proof.
  cbn [gen_dupdate]. unfold d_const_tail. destruct (sd_mem gm (nname (NConst t))).
  - destruct (sd_get gm (nname (NConst t))); reflexivity.
  - destruct (sd_get gd (nname (NConst t))) as [o|]; [|reflexivity]. destruct (dgop_update0 AR o) as [[o' r]|]; reflexivity.
Qed.
Lemma gen_dupdate_un a c gd gm : (exists u, a = NUn u c) \/ (exists u b e, a = NTUn u b e c) ->
  gen_dupdate AR vobj a gd gm =
  if sd_mem gm (nname a) then d_reuse (nname a) gd gm
  else match gen_dupdate AR vobj c gd gm with None => None | Some (gd1, gm1, v1) => d_un_tail (nname a) gd1 gm1 v1 end.
Proof. intros [[u ->]|[u [b [e ->]]]]; reflexivity. Qed.
Lemma gen_dupdate_bi a c1 c2 gd gm :
  (exists u, a = NFn2 u c1 c2) \/ (exists u, a = NBin u c1 c2) \/ (exists u b e, a = NTBin u b e c1 c2) ->
  gen_dupdate AR vobj a gd gm =
  if sd_mem gm (nname a) then d_reuse (nname a) gd gm
  else match gen_dupdate AR vobj c1 gd gm with
       | None => None
       | Some (gd1, gm1, v1) =>
           match gen_dupdate AR vobj c2 gd1 gm1 with None => None | Some (gd2, gm2, v2) => d_bi_tail (nname a) gd2 gm2 v1 v2 end
       end.
Proof. intros [[u ->]|[[u ->]|[u [b [e ->]]]]]; reflexivity. Qed.
End UpdateShape.

Definition denseonlinevisitor_gen_update_statement : Prop :=
  forall (VS : Val) (AR : Arith VS) (vobj : string -> string -> option esig),
    (forall v f gd gm, gen_dupdate AR vobj (NVar v f) gd gm
                       = match vobj v f with Some r => Some (gd, sd_set gm (nname (NVar v f)) r, r) | None => None end) /\
    (forall t gd gm, gen_dupdate AR vobj (NConst t) gd gm =
       if sd_mem gm (nname (NConst t))
       then match sd_get gm (nname (NConst t)) with Some r => Some (gd, sd_set gm (nname (NConst t)) r, r) | None => None end
       else d_const_tail AR (nname (NConst t)) gd gm) /\
    (forall a c gd gm, (exists u, a = NUn u c) \/ (exists u b e, a = NTUn u b e c) ->
       gen_dupdate AR vobj a gd gm =
       if sd_mem gm (nname a) then d_reuse (nname a) gd gm
       else match gen_dupdate AR vobj c gd gm with None => None | Some (gd1, gm1, v1) => d_un_tail AR (nname a) gd1 gm1 v1 end) /\
    (forall a c1 c2 gd gm, (exists u, a = NFn2 u c1 c2) \/ (exists u, a = NBin u c1 c2) \/ (exists u b e, a = NTBin u b e c1 c2) ->
       gen_dupdate AR vobj a gd gm =
       if sd_mem gm (nname a) then d_reuse (nname a) gd gm
       else match gen_dupdate AR vobj c1 gd gm with
            | None => None
            | Some (gd1, gm1, v1) =>
                match gen_dupdate AR vobj c2 gd1 gm1 with None => None | Some (gd2, gm2, v2) => d_bi_tail AR (nname a) gd2 gm2 v1 v2 end
            end).
Theorem denseonlinevisitor_gen_update_shape : denseonlinevisitor_gen_update_statement.
Proof.
  intros VS AR vobj. split; [intros; apply gen_dupdate_var|]. split; [intros; apply gen_dupdate_const|].
  split; [intros; apply gen_dupdate_un; assumption|intros; apply gen_dupdate_bi; assumption].
Qed.
Print Assumptions denseonlinevisitor_gen_update_shape.
