(* PyDense.v — the run-time library of tools/py2coq_denseonline.py, on top of PySem.v: the Python primitives that the
   dense-time ONLINE operation classes (rtamt/semantics/{stl,arithmetic}/dense_time/online/*_operation.py) use beyond those
   of the offline visitor.  Conventions (the ones of the hand models DenseOnlineMerge.v / DenseOnlineFold.v):
   * a sample [t, v] is a pair (t, v) : T * V, generic in the type T of the stamps: the code only moves stamps around and
     compares them, [tltb] is <, [teqb] is == ;  a list of samples is a list of pairs;
   * an attribute or variable that holds either [] or one sample (self.last_output, last, self.last) is an option;
   * None is a raised exception (IndexError of l[i], [][0], l.pop(0), del l[i] ; ValueError of math.log / math.sqrt).
   The translator only composes these and the primitives of PySem.v. *)
From Coq Require Import List Bool Arith ZArith Lia.
From RV Require Import Val Syntax Rho Online IA Dense PySem.
Import ListNotations.

Section PyDense.
Context {VS : Val} (AR : Arith VS).
Variable T : Type.
Variable tltb : T -> T -> bool.

Definition psample : Type := (T * V)%type.
Definition psig : Type := list psample.

(* `if l:` on a list, `if o:` on []-or-sample *)
Definition py_truthy {A : Type} (l : list A) : bool := match l with [] => false | _ => true end.
Definition os_truthy (o : option psample) : bool := match o with Some _ => true | None => false end.
(* o[k] where o is [] or [t, v]: the sample when there is one, IndexError otherwise *)
Definition os_get (o : option psample) : option psample := o.

(* l.pop(0) as a statement ; del l[i] *)
Definition py_pop0 {A : Type} (l : list A) : option (list A) := match l with [] => None | _ :: r => Some r end.
Definition py_del {A : Type} (l : list A) (i : Z) : option (list A) :=
  let n := py_len l in
  let j := if (i <? 0)%Z then (i + n)%Z else i in
  if (0 <=? j)%Z && (j <? n)%Z then Some (firstn (Z.to_nat j) l ++ skipn (S (Z.to_nat j)) l) else None.

(* max(a, b) / min(a, b) on stamps: the first argument unless the second is strictly better *)
Definition ts_max (a b : T) : T := if tltb a b then b else a.
Definition ts_min (a b : T) : T := if tltb b a then b else a.

(* math.log(x): ValueError unless 0 < x ; math.sqrt(x): ValueError when x < 0 *)
Definition py_ln (x : V) : option V := if ltb (azero AR) x then Some (a1 AR Ln x) else None.
Definition py_sqrt (x : V) : option V := if ltb x (azero AR) then None else Some (a1 AR Sqrt x).

(* while cond: body.  The translator supplies the fuel (the total length of the lists the condition measures);
   running out of fuel while the condition still holds is None: such a run is outside the model. *)
Fixpoint py_while {St : Type} (fuel : nat) (cond : St -> bool) (body : St -> option St) (s : St) : option St :=
  if cond s then
    match fuel with
    | O => None
    | S n => match body s with Some s' => py_while n cond body s' | None => None end
    end
  else Some s.

End PyDense.

Arguments psample {VS} T.
Arguments psig {VS} T.
Arguments os_truthy {VS T} o.
Arguments os_get {VS T} o.
Arguments ts_max {T} tltb a b.
Arguments ts_min {T} tltb a b.

(* ---------------- the bounded operations (once_timed / historically_timed) ---------------- *)
Section PyDenseWin.
Context {VS : Val}.
Variable T : Type.
Variables tltb teqb : T -> T -> bool.

(* self.residual_start / self.max: -float("inf") or float("inf") before the first sample, then the stamp of a sample.
   T holds the stamps samples carry (never -inf); XNeg is below and XPos is above or equal to every stamp:
   the comparisons below are Python's on floats, with == between XPos and a stamp never asked for by the code. *)
Inductive xstamp := XNeg | XFin (t : T) | XPos.
Definition xs_ltb (a b : xstamp) : bool :=
  match a, b with
  | XFin x, XFin y => tltb x y
  | XNeg, XNeg | XPos, _ => false
  | XNeg, _ | XFin _, XPos => true
  | XFin _, XNeg => false
  end.
Definition xs_eqb (a b : xstamp) : bool :=
  match a, b with XFin x, XFin y => teqb x y | XNeg, XNeg | XPos, XPos => true | _, _ => false end.
(* a sample / piece whose stamp is read from residual_start: -inf / +inf is not a stamp of the model *)
Definition xs_get (a : xstamp) : option T := match a with XFin t => Some t | _ => None end.

(* a piece (lo, hi, v): a 3-tuple; p[0], p[1], p[2] *)
Definition ppiece : Type := (T * T * V)%type.
Definition pp_lo (p : ppiece) : T := fst (fst p).
Definition pp_hi (p : ppiece) : T := snd (fst p).
Definition pp_v (p : ppiece) : V := snd p.

(* x != prev where prev is float("nan") (None) or a value: nan differs from everything *)
Definition nv_neq (x : V) (prev : option V) : bool := match prev with Some p => negb (veq x p) | None => true end.

(* reading, as a value, a variable that holds float("nan") (None) or a value: nan is not a value of the model *)
Definition nv_get (x : option V) : option V := x.

(* Semantics.A == Semantics.B (members of an Enum: identity) *)
Definition sem_eqb (a b : semantics) : bool :=
  match a, b with
  | Standard, Standard | OutputRobustness, OutputRobustness | InputRobustness, InputRobustness
  | OutputVacuity, OutputVacuity | InputVacuity, InputVacuity => true
  | _, _ => false
  end.

(* enumerate(l) *)
Definition py_enumerate {A : Type} (l : list A) : list (Z * A) := combine (map Z.of_nat (seq 0 (length l))) l.

(* intersect.intersects(x1, x2, y1, y2) (hand model, pinned by digest): x1 <= y2 and y1 <= x2 *)
Definition py_intersects (x1 x2 y1 y2 : T) : bool := (tltb x1 y2 || teqb x1 y2) && (tltb y1 x2 || teqb y1 x2).
End PyDenseWin.

Arguments xstamp T : clear implicits.
Arguments XNeg {T}.
Arguments XFin {T} t.
Arguments XPos {T}.
Arguments xs_ltb {T} tltb a b.
Arguments xs_eqb {T} teqb a b.
Arguments xs_get {T} a.
Arguments ppiece {VS} T.
Arguments pp_lo {VS T} p.
Arguments pp_hi {VS T} p.
Arguments pp_v {VS T} p.
Arguments py_intersects {T} tltb teqb x1 x2 y1 y2.
Arguments nv_get {VS} x.
