(* PyDense.v — the run-time library of tools/py2coq_denseonline.py, on top of PySem.v: the Python primitives that the
   dense-time ONLINE operation classes (rtamt/semantics/{stl,arithmetic}/dense_time/online/*_operation.py) use beyond those
   of the offline visitor.  Conventions (the ones of the hand models DenseOnlineMerge.v / DenseOnlineFold.v):
   * a sample [t, v] is a pair (t, v) : T * V, generic in the type T of the stamps: the code only moves stamps around and
     compares them, [tltb] is <, [teqb] is == ;  a list of samples is a list of pairs;
   * an attribute or variable that holds either [] or one sample (self.last_output, last, self.last) is an option;
   * None is a raised exception (IndexError of l[i], [][0], l.pop(0), del l[i] ; ValueError of math.log / math.sqrt).
   The translator only composes these and the primitives of PySem.v. *)
From Coq Require Import List Bool Arith ZArith Lia.
From RV Require Import Val Syntax Rho Online Dense PySem.
Import ListNotations.

Section PyDense.
Context {VS : Val} (AR : Arith VS).
Variable T : Type.
Variable tltb : T -> T -> bool.

Definition psample : Type := (T * V)%type.
Definition psig : Type := list psample.

(* `if l:` on a list, `if o:` on []-or-sample *)
Definition py_truthy {A : Type} (l : list A) : bool := match l with [] => false | _ => true end.
Definition os_truthy (o : option psample) : bool := match o with Some _ => true | None => false end.
(* o[k] where o is [] or [t, v]: the sample when there is one, IndexError otherwise *)
Definition os_get (o : option psample) : option psample := o.

(* l.pop(0) as a statement ; del l[i] *)
Definition py_pop0 {A : Type} (l : list A) : option (list A) := match l with [] => None | _ :: r => Some r end.
Definition py_del {A : Type} (l : list A) (i : Z) : option (list A) :=
  let n := py_len l in
  let j := if (i <? 0)%Z then (i + n)%Z else i in
  if (0 <=? j)%Z && (j <? n)%Z then Some (firstn (Z.to_nat j) l ++ skipn (S (Z.to_nat j)) l) else None.

(* max(a, b) / min(a, b) on stamps: the first argument unless the second is strictly better *)
Definition ts_max (a b : T) : T := if tltb a b then b else a.
Definition ts_min (a b : T) : T := if tltb b a then b else a.

(* math.log(x): ValueError unless 0 < x ; math.sqrt(x): ValueError when x < 0 *)
Definition py_ln (x : V) : option V := if ltb (azero AR) x then Some (a1 AR Ln x) else None.
Definition py_sqrt (x : V) : option V := if ltb x (azero AR) then None else Some (a1 AR Sqrt x).

(* while cond: body.  The translator supplies the fuel (the total length of the lists the condition measures);
   running out of fuel while the condition still holds is None: such a run is outside the model. *)
Fixpoint py_while {St : Type} (fuel : nat) (cond : St -> bool) (body : St -> option St) (s : St) : option St :=
  if cond s then
    match fuel with
    | O => None
    | S n => match body s with Some s' => py_while n cond body s' | None => None end
    end
  else Some s.

End PyDense.

Arguments psample {VS} T.
Arguments psig {VS} T.
Arguments os_truthy {VS T} o.
Arguments os_get {VS T} o.
Arguments ts_max {T} tltb a b.
Arguments ts_min {T} tltb a b.
