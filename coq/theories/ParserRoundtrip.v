(* ParserRoundtrip.v — C15: a fully parenthesised rendering of any AST parses
   back to that AST (so parentheses alone determine the grouping; redundant
   parentheses never change the result). *)
From Coq Require Import List Bool Arith Ascii String Lia.
From RV Require Import Lexer PrecTable Parser.
Import ListNotations.

Definition tok_un (o : unop) : token :=
  match o with
  | UNeg => TSym SMinus | UNot => TKw KNot | UAlways => TKw KAlways | UEv => TKw KEventually | UHist => TKw KHist
  | UOnce => TKw KOnce | UPrev => TKw KPrev | UNext => TKw KNext | USPrev => TKw KSPrev | USNext => TKw KSNext
  end.
Definition tok_cmp (c : cmpk) : token :=
  match c with KLeq => TSym SLeq | KGeq => TSym SGeq | KLt => TSym SLt | KGt => TSym SGt | KEq => TSym SEqEq | KNeq => TSym SNeq end.
Definition tok_bin (o : binop) : token :=
  match o with
  | BMul => TSym STimes | BDiv => TSym SDivide | BAdd => TSym SPlus | BSub => TSym SMinus | BCmp c => tok_cmp c
  | BUntil => TKw KUntil | BUnless => TKw KUnless | BSince => TKw KSince | BAnd => TKw KAnd | BOr => TKw KOr
  | BImplies => TKw KImplies | BIff => TKw KIff | BXor => TKw KXor
  end.
Definition tok_f1 (f : fun1) : token :=
  match f with FAbs => TKw KAbs | FSqrt => TKw KSqrt | FExp => TKw KExp | FLn => TKw KLn | FRise => TKw KRise | FFall => TKw KFall end.
Definition tok_f2 (f : fun2) : token := match f with FPow => TKw KPow | FLog => TKw KLog end.

Definition un_ivok (o : unop) : bool := match o with UAlways | UEv | UHist | UOnce => true | _ => false end.
Definition bin_ivok (o : binop) : bool := match o with BUntil | BUnless | BSince => true | _ => false end.

Definition utoks (u : option kw) : list token := match u with Some k => [TKw k] | None => [] end.
Definition itoks (t : itime) : list token :=
  match t with ILit s u => TInt s :: utoks u | IId s u => TId s :: utoks u end.
Definition ivtoks (iv : option interval) : list token :=
  match iv with
  | None => []
  | Some (a, b) => TSym SLBrack :: itoks a ++ TSym SComma :: itoks b ++ [TSym SRBrack]
  end.

Fixpoint full (e : sexpr) : list token :=
  match e with
  | EId s => [TId s]
  | ELit s => [TInt s]
  | EUn o iv a => tok_un o :: ivtoks iv ++ TSym SLParen :: full a ++ [TSym SRParen]
  | EFun1 f a => tok_f1 f :: TSym SLParen :: full a ++ [TSym SRParen]
  | EFun2 f a b => tok_f2 f :: TSym SLParen :: full a ++ TSym SComma :: full b ++ [TSym SRParen]
  | EBin o iv a b => TSym SLParen :: full a ++ TSym SRParen :: tok_bin o :: ivtoks iv ++ TSym SLParen :: full b ++ [TSym SRParen]
  end.

Definition it_ok (t : itime) : bool :=
  match t with ILit _ (Some k) | IId _ (Some k) => is_unit k | _ => true end.
Definition iv_ok (allowed : bool) (iv : option interval) : bool :=
  match iv with None => true | Some (a, b) => allowed && it_ok a && it_ok b end.
Fixpoint wf (e : sexpr) : bool :=
  match e with
  | EId _ | ELit _ => true
  | EUn o iv a => iv_ok (un_ivok o) iv && wf a
  | EFun1 _ a => wf a
  | EFun2 _ a b => wf a && wf b
  | EBin o iv a b => iv_ok (bin_ivok o) iv && wf a && wf b
  end.

Fixpoint need (e : sexpr) : nat :=
  match e with
  | EId _ | ELit _ => 1
  | EUn _ _ a => S (S (need a))
  | EFun1 _ a => S (need a)
  | EFun2 _ a b => S (Nat.max (need a) (need b))
  | EBin _ _ a b => S (S (Nat.max (need a) (need b)))
  end.

Definition stopper (rest : list token) : Prop :=
  match rest with [] => True | t :: _ => binop_of t = None end.

Lemma unop_of_tok o : exists lvl, unop_of (tok_un o) = Some (o, lvl, un_ivok o).
Proof. destruct o; simpl; eexists; reflexivity. Qed.
Lemma binop_of_tok o : exists lvl rl, binop_of (tok_bin o) = Some (o, lvl, rl, bin_ivok o).
Proof. destruct o; simpl; try (destruct c; simpl); do 2 eexists; reflexivity. Qed.

Lemma parse_itime_itoks t rest : it_ok t = true ->
  (match rest with TKw k :: _ => is_unit k = false | _ => True end) ->
  parse_itime (itoks t ++ rest) = Some (t, rest).
Proof.
  intros Hok Hr. destruct t as [s u|s u]; destruct u as [k|]; simpl in *.
  - rewrite Hok. reflexivity.
  - destruct rest as [|t r]; [reflexivity|]. destruct t; try reflexivity. rewrite Hr. reflexivity.
  - rewrite Hok. reflexivity.
  - destruct rest as [|t r]; [reflexivity|]. destruct t; try reflexivity. rewrite Hr. reflexivity.
Qed.

Lemma opt_interval_ivtoks ok iv rest : iv_ok ok iv = true ->
  (match rest with TSym SLBrack :: _ => False | _ => True end) ->
  opt_interval true ok (ivtoks iv ++ rest) = Some (iv, rest).
Proof.
  intros Hok Hr. destruct iv as [[a b]|]; simpl in *.
  - apply andb_prop in Hok as [Hok Hb]. apply andb_prop in Hok as [-> Ha]. simpl.
    unfold parse_interval. rewrite <- app_assoc. simpl.
    rewrite (parse_itime_itoks a) by (try exact Ha; exact I).
    rewrite <- app_assoc. simpl. rewrite (parse_itime_itoks b) by (try exact Hb; exact I). reflexivity.
  - unfold opt_interval. destruct rest as [|t r]; [reflexivity|]. destruct t; try reflexivity. destruct s; try reflexivity. contradiction.
Qed.

Lemma loop_stop pe p g lft rest : stopper rest -> parse_loop true pe p (S g) lft rest = Some (lft, rest).
Proof. intros H. simpl. destruct rest as [|t r]; [reflexivity|]. simpl in H. rewrite H. reflexivity. Qed.

Lemma parse_expr_S stl f p ts :
  parse_expr stl (S f) p ts =
  match parse_primary stl (parse_expr stl f) ts with
  | None => None
  | Some (e0, r0) => parse_loop stl (parse_expr stl f) p (S (List.length r0)) e0 r0
  end.
Proof. reflexivity. Qed.

Definition claim (e : sexpr) : Prop :=
  forall fuel rest, need e <= fuel -> stopper rest -> parse_expr true fuel 0 (full e ++ rest) = Some (e, rest).

(* a parenthesised operand is parsed as a unit at any level *)
Lemma paren_operand e : claim e -> forall fuel lvl rest, need e <= fuel -> stopper rest ->
  parse_expr true (S fuel) lvl (TSym SLParen :: full e ++ TSym SRParen :: rest) = Some (e, rest).
Proof.
  intros C fuel lvl rest Hf Hs. rewrite parse_expr_S. cbn [parse_primary].
  rewrite (C fuel (TSym SRParen :: rest) Hf) by reflexivity.
  apply loop_stop. exact Hs.
Qed.

Ltac napp := repeat first [rewrite <- app_assoc | progress cbn [app]].

Theorem full_roundtrip e : wf e = true -> claim e.
Proof.
  induction e; intros Hw fuel rest Hf Hs; simpl in Hw, Hf.
  - (* EId *) destruct fuel as [|f]; [lia|]. rewrite parse_expr_S. cbn [full app parse_primary]. apply loop_stop. exact Hs.
  - destruct fuel as [|f]; [lia|]. rewrite parse_expr_S. cbn [full app parse_primary]. apply loop_stop. exact Hs.
  - (* EUn *) apply andb_prop in Hw as [Hiv Hw]. destruct fuel as [|f]; [lia|]. destruct f as [|f]; [lia|].
    destruct (unop_of_tok o) as [lvl Hu].
    rewrite parse_expr_S. cbn [full].
    replace ((tok_un o :: ivtoks iv ++ TSym SLParen :: full e ++ [TSym SRParen]) ++ rest)
       with (tok_un o :: ivtoks iv ++ (TSym SLParen :: full e ++ TSym SRParen :: rest)) by (napp; reflexivity).
    (* the token of a prefix operator is neither '(' nor an atom nor a function name *)
    assert (Hf1 : fun1_of (tok_un o) = None) by (destruct o; reflexivity).
    assert (Hf2 : fun2_of (tok_un o) = None) by (destruct o; reflexivity).
    assert (E : parse_primary true (parse_expr true (S f)) (tok_un o :: ivtoks iv ++ TSym SLParen :: full e ++ TSym SRParen :: rest)
                = Some (EUn o iv e, rest)).
    { unfold parse_primary.
      assert (Hrest : opt_interval true (un_ivok o) (ivtoks iv ++ TSym SLParen :: full e ++ TSym SRParen :: rest)
                      = Some (iv, TSym SLParen :: full e ++ TSym SRParen :: rest)) by (apply opt_interval_ivtoks; [exact Hiv|exact I]).
      assert (Hop : parse_expr true (S f) lvl (TSym SLParen :: full e ++ TSym SRParen :: rest) = Some (e, rest))
        by (apply paren_operand; [apply IHe; exact Hw|lia|exact Hs]).
      destruct o; simpl in Hu; injection Hu as <-; cbn [tok_un fun1_of fun2_of unop_of un_ivok] in *; rewrite Hrest, Hop; reflexivity. }
    rewrite E. apply loop_stop. exact Hs.
  - (* EFun1 *) destruct fuel as [|fu]; [lia|].
    rewrite parse_expr_S. cbn [full].
    replace ((tok_f1 f :: TSym SLParen :: full e ++ [TSym SRParen]) ++ rest)
       with (tok_f1 f :: TSym SLParen :: full e ++ TSym SRParen :: rest) by (napp; reflexivity).
    assert (E : parse_primary true (parse_expr true fu) (tok_f1 f :: TSym SLParen :: full e ++ TSym SRParen :: rest) = Some (EFun1 f e, rest)).
    { assert (Hin : parse_expr true fu 0 (full e ++ TSym SRParen :: rest) = Some (e, TSym SRParen :: rest))
        by (apply IHe; [exact Hw|lia|reflexivity]).
      destruct f; cbn [parse_primary tok_f1 fun1_of]; rewrite Hin; reflexivity. }
    rewrite E. apply loop_stop. exact Hs.
  - (* EFun2 *) apply andb_prop in Hw as [Hw1 Hw2]. destruct fuel as [|fu]; [lia|].
    rewrite parse_expr_S. cbn [full].
    replace ((tok_f2 f :: TSym SLParen :: full e1 ++ TSym SComma :: full e2 ++ [TSym SRParen]) ++ rest)
       with (tok_f2 f :: TSym SLParen :: full e1 ++ TSym SComma :: full e2 ++ TSym SRParen :: rest)
       by (napp; reflexivity).
    assert (E : parse_primary true (parse_expr true fu) (tok_f2 f :: TSym SLParen :: full e1 ++ TSym SComma :: full e2 ++ TSym SRParen :: rest)
                = Some (EFun2 f e1 e2, rest)).
    { assert (H1 : parse_expr true fu 0 (full e1 ++ TSym SComma :: full e2 ++ TSym SRParen :: rest) = Some (e1, TSym SComma :: full e2 ++ TSym SRParen :: rest))
        by (apply IHe1; [exact Hw1|lia|reflexivity]).
      assert (H2 : parse_expr true fu 0 (full e2 ++ TSym SRParen :: rest) = Some (e2, TSym SRParen :: rest))
        by (apply IHe2; [exact Hw2|lia|reflexivity]).
      destruct f; cbn [parse_primary tok_f2 fun1_of fun2_of]; rewrite H1, H2; reflexivity. }
    rewrite E. apply loop_stop. exact Hs.
  - (* EBin *) apply andb_prop in Hw as [Hw Hw2]. apply andb_prop in Hw as [Hiv Hw1].
    destruct fuel as [|f]; [lia|]. destruct f as [|f]; [lia|].
    destruct (binop_of_tok o) as (lvl & rl & Hb).
    rewrite parse_expr_S. cbn [full].
    replace ((TSym SLParen :: full e1 ++ TSym SRParen :: tok_bin o :: ivtoks iv ++ TSym SLParen :: full e2 ++ [TSym SRParen]) ++ rest)
       with (TSym SLParen :: full e1 ++ TSym SRParen :: (tok_bin o :: ivtoks iv ++ (TSym SLParen :: full e2 ++ TSym SRParen :: rest)))
       by (napp; reflexivity).
    assert (H1 : parse_expr true (S f) 0 (full e1 ++ TSym SRParen :: tok_bin o :: ivtoks iv ++ TSym SLParen :: full e2 ++ TSym SRParen :: rest)
                 = Some (e1, TSym SRParen :: tok_bin o :: ivtoks iv ++ TSym SLParen :: full e2 ++ TSym SRParen :: rest))
      by (apply IHe1; [exact Hw1|lia|reflexivity]).
    unfold parse_primary. rewrite H1.
    (* the loop: one binary operator, then the stopper *)
    cbn [parse_loop]. rewrite Hb. cbn [Nat.leb].
    rewrite opt_interval_ivtoks by (try exact Hiv; exact I).
    rewrite (paren_operand e2 (IHe2 Hw2) f rl rest) by (try lia; exact Hs).
    destruct (List.length (ivtoks iv ++ TSym SLParen :: full e2 ++ TSym SRParen :: rest)) eqn:El.
    + exfalso. rewrite app_length in El. simpl in El. lia.
    + apply loop_stop. exact Hs.
Qed.
