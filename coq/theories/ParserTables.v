(* ParserTables.v — finite facts about the lexer/parser decided by computation:
   how every pair of operators groups (against the generated precedence
   table), keyword aliases, plus the visitor checks. *)
From Coq Require Import List Bool Arith Ascii String Lia QArith.
From RV Require Import Lexer PrecTable Parser Elab Offline.
Import ListNotations.
Local Open Scope string_scope.

Definition token_eq_dec : forall a b : token, {a = b} + {a <> b}.
Proof. decide equality; try apply string_dec; decide equality. Defined.
Definition sexpr_eq_dec : forall a b : sexpr, {a = b} + {a <> b}.
Proof.
  decide equality; try apply string_dec;
  try (decide equality; try apply string_dec; decide equality; try apply string_dec; decide equality; try apply string_dec;
       decide equality; try apply string_dec; decide equality).
Defined.
Definition res_eqb (x y : option (sexpr * list token)) : bool :=
  match x, y with
  | Some (a, r), Some (b, r') => (if sexpr_eq_dec a b then true else false) && (if list_eq_dec token_eq_dec r r' then true else false)
  | None, None => true
  | _, _ => false
  end.

Definition bin_tokens : list token :=
  [TSym STimes; TSym SDivide; TSym SPlus; TSym SMinus; TSym SLeq; TSym SGeq; TSym SLt; TSym SGt; TSym SEqEq; TSym SNeq;
   TKw KUntil; TKw KUnless; TKw KSince; TKw KAnd; TKw KOr; TKw KImplies; TKw KIff; TKw KXor].
Definition pre_tokens : list token :=
  [TSym SMinus; TKw KNot; TKw KAlways; TKw KEventually; TKw KHist; TKw KOnce; TKw KPrev; TKw KNext; TKw KSPrev; TKw KSNext].

Definition A := EId "a". Definition B := EId "b". Definition C := EId "c".

(* a o1 b o2 c : o2 goes into the right operand of o1 iff its level is strictly higher; otherwise left-associative *)
Definition check_bin_bin (t1 t2 : token) : bool :=
  match binop_of t1, binop_of t2 with
  | Some (o1, l1, _, _), Some (o2, l2, _, _) =>
      res_eqb (parse_expr true 10 0 [TId "a"; t1; TId "b"; t2; TId "c"])
              (Some (if (l1 <? l2)%nat then EBin o1 None A (EBin o2 None B C) else EBin o2 None (EBin o1 None A B) C, []))
  | _, _ => false
  end.

(* u a o b : the binary operator is absorbed by the prefix operator iff its level is >= the operand level of u *)
Definition check_pre_bin (t1 t2 : token) : bool :=
  match unop_of t1, binop_of t2 with
  | Some (u, ol, _), Some (o, l, _, _) =>
      res_eqb (parse_expr true 10 0 [t1; TId "a"; t2; TId "b"])
              (Some (if (ol <=? l)%nat then EUn u None (EBin o None A B) else EBin o None (EUn u None A) B, []))
  | _, _ => false
  end.

(* a o u b : a prefix operator is always a complete right operand *)
Definition check_bin_pre (t1 t2 : token) : bool :=
  match binop_of t1, unop_of t2 with
  | Some (o, _, _, _), Some (u, _, _) =>
      res_eqb (parse_expr true 10 0 [TId "a"; t1; t2; TId "b"]) (Some (EBin o None A (EUn u None B), []))
  | _, _ => false
  end.

Definition all_pairs {X Y} (f : X -> Y -> bool) (l1 : list X) (l2 : list Y) : bool :=
  forallb (fun x => forallb (f x) l2) l1.

Theorem grouping_bin_bin : all_pairs check_bin_bin bin_tokens bin_tokens = true.
Proof. vm_compute. reflexivity. Qed.
Theorem grouping_pre_bin : all_pairs check_pre_bin pre_tokens bin_tokens = true.
Proof. vm_compute. reflexivity. Qed.
Theorem grouping_bin_pre : all_pairs check_bin_pre bin_tokens pre_tokens = true.
Proof. vm_compute. reflexivity. Qed.

(* what the three order facts of the table are (re-checked on every regeneration) *)
Theorem table_left_assoc :
  forallb (fun t => match binop_of t with Some (_, l, rl, _) => (rl =? S l)%nat | None => false end) bin_tokens = true.
Proof. vm_compute. reflexivity. Qed.

(* ---- keyword aliases: every alias lexes to the token of the long name ---- *)
Definition alias_pairs : list (string * string) :=
  [("G", "always"); ("F", "eventually"); ("U", "until"); ("W", "unless"); ("S", "since"); ("O", "once"); ("H", "historically");
   ("X", "next"); ("Y", "prev"); ("sX", "s_next"); ("sY", "s_prev"); ("!", "not"); ("&", "and"); ("|", "or"); ("->", "implies"); ("<->", "iff")].
Definition lex_eqb (a b : string) : bool :=
  match lex_string a, lex_string b with
  | Some x, Some y => if list_eq_dec token_eq_dec x y then true else false
  | _, _ => false
  end.
Theorem aliases_same_token : forallb (fun p => lex_eqb (fst p) (snd p)) alias_pairs = true.
Proof. vm_compute. reflexivity. Qed.

(* the two interval separators *)
Theorem separators_same : forall a b r,
  parse_interval (TSym SLBrack :: TInt a :: TSym SColon :: TInt b :: TSym SRBrack :: r) =
  parse_interval (TSym SLBrack :: TInt a :: TSym SComma :: TInt b :: TSym SRBrack :: r).
Proof. reflexivity. Qed.

(* ---- no silently skipped characters ---- *)
Definition starts_something (c : ascii) (r : chars) : bool :=
  is_space c || is_id_start c || is_digit c ||
  (Ascii.eqb c "." && match r with d :: _ => is_digit d | [] => false end) ||
  match first_sym sym_table (c :: r) with Some _ => true | None => false end.

Theorem lex_rejects_illegal : forall fuel c r, starts_something c r = false -> lex (S fuel) (c :: r) = None.
Proof.
  intros fuel c r H. unfold starts_something in H.
  apply orb_false_elim in H as [H H5]. apply orb_false_elim in H as [H H4]. apply orb_false_elim in H as [H H3].
  apply orb_false_elim in H as [H1 H2].
  cbn [lex]. rewrite H1, H2, H3, H4.
  assert (Hs : Ascii.eqb c "/" = false).
  { destruct (Ascii.eqb c "/") eqn:E; [|reflexivity]. apply Ascii.eqb_eq in E. subst c.
    destruct (first_sym sym_table ("/"%char :: r)) eqn:F; [discriminate|]. vm_compute in F. discriminate. }
  rewrite Hs. cbn [andb]. destruct (first_sym sym_table (c :: r)); [discriminate|reflexivity].
Qed.

(* ---- visitor checks: every interval of an accepted formula has 0 <= begin <= end and declared constants ---- *)
Fixpoint intervals (e : sexpr) : list interval :=
  match e with
  | EId _ | ELit _ => []
  | EUn _ iv a => (match iv with Some i => [i] | None => [] end) ++ intervals a
  | EFun1 _ a => intervals a
  | EFun2 _ a b => intervals a ++ intervals b
  | EBin _ iv a b => (match iv with Some i => [i] | None => [] end) ++ intervals a ++ intervals b
  end.

Theorem dump_checks_intervals env e out : dump env e = Some out ->
  forall iv, In iv (intervals e) -> check_interval env iv <> None.
Proof.
  revert out. induction e; intros out Hd iv' Hin; simpl in Hin; try contradiction.
  - (* EUn *) destruct iv as [i|]; simpl in Hd, Hin.
    + revert Hd. destruct (check_interval env i) as [[b' e']|] eqn:Ec; [|discriminate].
      destruct (dump env e) eqn:Ed; [|discriminate]. intros _.
      destruct Hin as [<-|Hin]; [rewrite Ec; discriminate|]. eapply IHe; [reflexivity|exact Hin].
    + revert Hd. destruct (dump env e) eqn:Ed; [|discriminate]. intros _. eapply IHe; [reflexivity|exact Hin].
  - simpl in Hd. revert Hd. destruct (dump env e) eqn:Ed; [|discriminate]. intros _. eapply IHe; [reflexivity|exact Hin].
  - simpl in Hd. revert Hd. destruct (dump env e1) eqn:E1; [|discriminate]. destruct (dump env e2) eqn:E2; [|discriminate]. intros _.
    apply in_app_or in Hin as [Hin|Hin]; [eapply IHe1|eapply IHe2]; try reflexivity; exact Hin.
  - (* EBin *)
    assert (H1 : dump env e1 <> None /\ dump env e2 <> None /\ match iv with Some i => check_interval env i <> None | None => True end).
    { revert Hd. destruct o; destruct iv as [i|]; simpl;
      try (destruct (check_interval env i) as [[bb ee]|]; [|discriminate]);
      destruct (dump env e1); try discriminate; destruct (dump env e2); try discriminate;
      intros _; repeat split; discriminate. }
    destruct H1 as (D1 & D2 & D3).
    destruct (dump env e1) eqn:E1; [|congruence]. destruct (dump env e2) eqn:E2; [|congruence].
    apply in_app_or in Hin as [Hin|Hin].
    + destruct iv as [i|]; simpl in Hin; [destruct Hin as [<-|[]]; exact D3|contradiction].
    + apply in_app_or in Hin as [Hin|Hin]; [eapply IHe1|eapply IHe2]; try reflexivity; exact Hin.
Qed.

(* parse() fails only cleanly: the outcome is a value or the RTAMTException class *)
Theorem parse_outcome_clean stl cs du text : parse_outcome stl cs du text <> Crash.
Proof. unfold parse_outcome. destruct (parse_text stl text); [destruct (dump_forest _ _)|]; discriminate. Qed.

(* 'unless' is sugar: p unless[a,b] q is built as always[0,b] p or p until[a,b] q; p unless q as always p or p until q *)
Theorem unless_sugar_untimed env a b s :
  dump env (EBin BUnless None a b) = Some s ->
  dump env (EBin BOr None (EUn UAlways None a) (EBin BUntil None a b)) = Some s.
Proof.
  simpl. destruct (dump env a) as [x|]; [|discriminate]. destruct (dump env b) as [y|]; [|discriminate].
  intros H. injection H as <-. reflexivity.
Qed.

(* the timed form: always[0 u_b, end] p  or  p until[begin, end] q, with the units of the written interval *)
Theorem unless_sugar_timed env iv a b s bb ee :
  check_interval env iv = Some (bb, ee) ->
  dump env (EBin BUnless (Some iv) a b) = Some s ->
  exists x y, dump env a = Some x /\ dump env b = Some y /\
    s = d_bin "or" (d_unt "always" ("0 " ++ unit_text (match fst iv with ILit _ u | IId _ u => u end)) ee x) (d_bint "until" bb ee x y) /\
    dump env (EBin BUntil (Some iv) a b) = Some (d_bint "until" bb ee x y).
Proof.
  intros Hc. simpl. rewrite Hc. destruct (dump env a) as [x|]; [|discriminate]. destruct (dump env b) as [y|]; [|discriminate].
  intros H. injection H as <-. exists x, y. repeat split.
Qed.
