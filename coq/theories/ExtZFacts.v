(* ExtZFacts.v — the executable instance satisfies the sign laws used by C07
   (so that theorem is not vacuous). *)
From Coq Require Import ZArith List Bool Lia.
From RV Require Import Val Syntax Rho ExtZ Sat.
Local Open Scope Z_scope.

Lemma ExtZ_sign_laws : SignLaws ExtZArith.
Proof.
  constructor.
  - reflexivity.
  - intros l r0 H. destruct l as [|a|], r0 as [|b|]; unfold ltb in *; simpl in *; try (discriminate H); try reflexivity.
    apply negb_true_iff in H. apply Z.leb_gt in H. apply negb_true_iff. apply Z.leb_gt. lia.
  - intros l r0 H. destruct l as [|a|], r0 as [|b|]; unfold ltb in *; simpl in *; try (discriminate H); try reflexivity.
    apply negb_true_iff in H. apply Z.leb_gt in H. apply negb_true_iff. apply Z.leb_gt. lia.
  - intros [|a|]; simpl; try reflexivity. apply Z.leb_le. lia.
  - intros l r0 H. destruct l as [|a|], r0 as [|b|]; unfold ltb, veqb in *; simpl in *; try (discriminate H); try reflexivity.
    apply negb_true_iff in H. apply Z.leb_gt in H.
    destruct (a <=? b) eqn:E1; destruct (b <=? a) eqn:E2; try reflexivity.
    apply Z.leb_le in E1. apply Z.leb_le in E2. lia.
Qed.
