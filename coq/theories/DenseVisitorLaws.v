(* DenseVisitorLaws.v — semantic equalities and stability under extension transferred to the lists the dense-time
   offline visitor builds (DenseVisitor.deval), through deval_correct. *)
From Coq Require Import List Bool Arith ZArith Lia.
From RV Require Import Val Syntax Rho ListFacts OfflineCorrect Online Dense DenseSem DenseFacts DenseLaws DenseMerge DenseMergeCorrect DenseEval DenseEvalCorrect DenseWin DenseVisitor DenseEvalMain.
Import ListNotations.
Local Open Scope Z_scope.

Section VisitorLaws.
Context {VS : Val} (AR : Arith VS).
Let pk : formula -> formula -> pkind := fun _ _ => PStd.
Hypothesis SubNeg : forall l r, neg (a2 AR Sub l r) = a2 AR Sub r l.

Definition wfW (W : list dsig) (tend : Z) : Prop :=
  (forall s, In s W -> dsorted s /\ s <> [] /\ ub tend s) /\ (forall s, In s W -> start s = 0).

(* two formulas with the same tick semantics from time 0 on: the visitor builds lists that denote the same signal *)
Theorem visitor_transfer (W : list dsig) (tend : Z) (p q : formula) : 0 <= tend -> wfW W tend ->
  dfrag p = true -> wf_bounds p = true -> (nvars p <= length W)%nat ->
  dfrag q = true -> wf_bounds q = true -> (nvars q <= length W)%nat ->
  (forall t, 0 <= t -> rhoZ AR pk W tend p t = rhoZ AR pk W tend q t) ->
  exists s1 s2, deval AR p W = Some s1 /\ deval AR q W = Some s2 /\ forall t, den_opt s1 t = den_opt s2 t.
Proof.
  intros Ht [HW H0] Fp Bp Np Fq Bq Nq Heq.
  destruct (deval_correct AR SubNeg W tend Ht HW p Fp Bp (or_intror H0) Np) as (s1 & E1 & G1).
  destruct (deval_correct AR SubNeg W tend Ht HW q Fq Bq (or_intror H0) Nq) as (s2 & E2 & G2).
  rewrite (dstart0 W p H0 Np) in G1. rewrite (dstart0 W q H0 Nq) in G2.
  exists s1, s2. split; [exact E1|]. split; [exact E2|]. intros t.
  destruct G1 as (_ & _ & _ & D1), G2 as (_ & _ & _ & D2). rewrite D1, D2. destruct (Z.ltb_spec t 0); [reflexivity|]. f_equal. apply Heq. lia.
Qed.

(* stability under extension: what the visitor returns for the longer signals agrees with what it returned for the
   shorter ones wherever the look-ahead of the formula stays inside the shorter signals *)
Theorem visitor_extend (W1 W2 : list dsig) (tend1 tend2 e1 : Z) (p : formula) :
  0 <= tend1 -> 0 <= tend2 -> wfW W1 tend1 -> wfW W2 tend2 -> length W1 = length W2 ->
  (forall x t, t <= e1 -> den (nth x W2 []) t = den (nth x W1 []) t) ->
  dfrag p = true -> dbounded p = true -> wf_bounds p = true -> (nvars p <= length W1)%nat ->
  exists s1 s2, deval AR p W1 = Some s1 /\ deval AR p W2 = Some s2 /\
    forall t, t + dhor p <= e1 -> den_opt s2 t = den_opt s1 t.
Proof.
  intros Ht1 Ht2 [HW1 H01] [HW2 H02] Hlen Hagree Fp Dp Bp Np.
  destruct (deval_correct AR SubNeg W1 tend1 Ht1 HW1 p Fp Bp (or_intror H01) Np) as (s1 & E1 & G1).
  destruct (deval_correct AR SubNeg W2 tend2 Ht2 HW2 p Fp Bp (or_intror H02) ltac:(lia)) as (s2 & E2 & G2).
  rewrite (dstart0 W1 p H01 Np) in G1. rewrite (dstart0 W2 p H02 ltac:(lia)) in G2.
  exists s1, s2. split; [exact E1|]. split; [exact E2|]. intros t Hte.
  destruct G1 as (_ & _ & _ & D1), G2 as (_ & _ & _ & D2). rewrite D1, D2. destruct (Z.ltb_spec t 0); [reflexivity|]. f_equal.
  apply (rhoZ_extend AR pk W1 W2 tend1 tend2 e1 p); [|exact Hagree|exact Dp|exact Hte].
  intros x. destruct (Nat.lt_ge_cases x (length W1)) as [Hx|Hx].
  - rewrite (H01 (nth x W1 [])) by (apply nth_In; exact Hx). rewrite (H02 (nth x W2 [])) by (apply nth_In; lia). reflexivity.
  - rewrite !nth_overflow by lia. reflexivity.
Qed.

(* the dense-time laws of C18 as a relation between the two sides *)
Inductive dense_law : formula -> formula -> Prop :=
| L_not_evt a b p : dense_law (Not (EvT a b p)) (AlwT a b (Not p))
| L_not_alwt a b p : dense_law (Not (AlwT a b p)) (EvT a b (Not p))
| L_not_oncet a b p : dense_law (Not (OnceT a b p)) (HistT a b (Not p))
| L_not_once p : dense_law (Not (Once p)) (Hist (Not p))
| L_implies p q : dense_law (Implies p q) (Or (Not p) q)
| L_evt_evt a b c d p : dense_law (EvT a b (EvT c d p)) (EvT (a + c) (b + d) p)
| L_oncet_oncet a b c d p : dense_law (OnceT a b (OnceT c d p)) (OnceT (a + c) (b + d) p).

Lemma dense_law_sem W tend l r : dense_law l r -> wf_bounds l = true -> forall t, rhoZ AR pk W tend l t = rhoZ AR pk W tend r t.
Proof.
  intros H Hb t. destruct H.
  - apply dlaw_not_evt.
  - apply dlaw_not_alwt.
  - apply dlaw_not_oncet.
  - apply dlaw_not_once.
  - apply dlaw_implies.
  - cbn [wf_bounds] in Hb. repeat match goal with H : _ && _ = true |- _ => apply andb_prop in H; destruct H end.
    apply dlaw_evt_evt; apply Nat.leb_le; assumption.
  - cbn [wf_bounds] in Hb. repeat match goal with H : _ && _ = true |- _ => apply andb_prop in H; destruct H end.
    apply dlaw_oncet_oncet; apply Nat.leb_le; assumption.
Qed.

Lemma dense_law_side l r : dense_law l r -> dfrag l = true -> wf_bounds l = true ->
  dfrag r = true /\ wf_bounds r = true /\ nvars r = nvars l.
Proof.
  intros H Hf Hb. destruct H; cbn [dfrag wf_bounds nvars] in *;
  repeat match goal with H : _ && _ = true |- _ => apply andb_prop in H; destruct H end;
  repeat split; try assumption; try reflexivity;
  try (apply andb_true_intro; split; try assumption);
  try (apply Nat.leb_le; repeat match goal with H : (_ <=? _)%nat = true |- _ => apply Nat.leb_le in H end; lia).
Qed.

Theorem visitor_laws (W : list dsig) (tend : Z) (l r : formula) : 0 <= tend -> wfW W tend -> dense_law l r ->
  dfrag l = true -> wf_bounds l = true -> (nvars l <= length W)%nat ->
  exists s1 s2, deval AR l W = Some s1 /\ deval AR r W = Some s2 /\ forall t, den_opt s1 t = den_opt s2 t.
Proof.
  intros Ht HW HL Hf Hb Hn. destruct (dense_law_side l r HL Hf Hb) as (Fr & Br & Nr).
  apply (visitor_transfer W tend l r Ht HW Hf Hb Hn Fr Br ltac:(lia)). intros t _. apply dense_law_sem; assumption.
Qed.

End VisitorLaws.
