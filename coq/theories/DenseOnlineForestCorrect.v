(* DenseOnlineForestCorrect.v — several assertions in the dense-time ONLINE monitor (model DenseOnlineForest.v):
   sharing the operator dictionary and the per-update memo between the assertions is not observable.

   PART 1  [trunS]: the tree-shaped composition [trun] of DenseOnlineMonCorrect.v with the final state of the operation
           kept; how it grows by one update ([snoc_pre], [snoc_var], [snoc_const], [snoc_un], [snoc_bi]).
   PART 2  one update of the forest against [trunS], in BOTH directions ([visit_spec], [forest_visit_spec],
           [forest_step_spec]): from canonical states, a visit that returns leaves canonical states and the canonical
           outputs in the memo; a visit that raises means that the tree run of the visited formula raises.
   PART 3  runs ([forest_run_spec]) and the theorems, for EVERY forest (no fragment, any predicate kinds):
             [forest_run_tree]        forest_run F = Some: every assertion's outputs are those of its tree run
             [forest_run_none]        forest_run F = None: the tree run of some assertion raises
             [mon_run_iff_tree]       the single-formula monitor: mon_run p = Some (_, outs) <-> trun p = Some outs
                                      (the converse of DenseOnlineMonCorrect.mon_run_tree)
             [forest_get_standalone]  get_value(assertion j) after every update = what the stand-alone monitor of
                                      formula j returns at that update (C12), and the same for every sub-formula
             [forest_raises_iff]      the forest raises iff the stand-alone monitor of some assertion raises
             [forest_out_last]        update() returns what the monitor of the LAST assertion returns
             [forest_inlined]         when every assertion is a sub-formula of the last one (every sub-specification is
                                      used), forest and inlined specification agree exactly, exceptions included (C09)
   PART 4  the proved fragment ([cl p = COpen] of DenseOnlineMonMore.v): [forest_online_correct]. *)
From Coq Require Import List Bool Arith ZArith Lia.
From RV Require Import Val Syntax Rho Online Dense DenseSem DenseMerge DenseMergeCorrect DenseOnlineMerge DenseOnlineMergeCorrect
  DenseOnlineFold DenseOnlineFoldCorrect DenseOnlineMon DenseOnlineMonCorrect DenseOnlineMonMore DenseIA DenseOnlineForest.
Import ListNotations.

(* ================================================================== *)
(* sequences of updates                                                *)
(* ================================================================== *)
Section RunMore.
Variables St B O O2 : Type.
Variable upd : St -> B -> option (St * O).

Lemma run_g_snoc (st : St) (bs : list B) (b : B) :
  run_g upd st (bs ++ [b]) =
  match run_g upd st bs with
  | None => None
  | Some (s, os) => match upd s b with Some (s', o) => Some (s', os ++ [o]) | None => None end
  end.
Proof.
  rewrite run_g_app. destruct (run_g upd st bs) as [[s os]|]; [|reflexivity]. cbn [run_g].
  destruct (upd s b) as [[s' o]|]; reflexivity.
Qed.

Variable g : O -> O2.
Variable upd2 : St -> B -> option (St * O2).
Hypothesis Hupd : forall st b, upd2 st b = match upd st b with Some (s, o) => Some (s, g o) | None => None end.

Lemma run_g_map : forall (bs : list B) (st : St),
  run_g upd2 st bs = match run_g upd st bs with Some (s, os) => Some (s, map g os) | None => None end.
Proof.
  induction bs as [|b bs IH]; intros st; cbn [run_g]; [reflexivity|].
  rewrite Hupd. destruct (upd st b) as [[s o]|]; [|reflexivity]. rewrite IH.
  destruct (run_g upd s bs) as [[s2 os]|]; reflexivity.
Qed.

End RunMore.

Lemma combine_app {A B} : forall (l1 l1' : list A) (l2 l2' : list B), length l1 = length l2 -> length l1' = length l2' ->
  combine (l1 ++ l1') (l2 ++ l2') = combine l1 l2 ++ combine l1' l2'.
Proof.
  induction l1 as [|a l1 IH]; intros l1' [|b l2] l2' H1 H2; cbn [length] in H1; try discriminate; [reflexivity|].
  cbn [app combine]. f_equal. apply IH; [lia|exact H2].
Qed.

(* ================================================================== *)
(* PART 1: the tree run with its final state                           *)
(* ================================================================== *)
Section TS.
Context {VS : Val} (AR : Arith VS).
Variable pk : formula -> formula -> pkind.

Notation ustep := (ustep AR).
Notation bstep := (bstep AR pk).
Notation bstep2 := (bstep2 AR pk).
Notation visit := (visit AR pk).
Notation trun := (trun AR pk).

Fixpoint trunS (envs : list (list dsig)) (p : formula) : option (opst * list esig) :=
  match p with
  | Var x => Some (SNone, map (fun env => lift (nth x env [])) envs)
  | Const _ => run_g cstep (op_init p) (map (fun _ => tt) envs)
  | A1 _ f | Not f | Once f | Hist f | OnceT _ _ f | HistT _ _ f =>
      match trunS envs f with
      | Some (_, xs) => run_g (ustep p) (op_init p) xs
      | None => None
      end
  | A2 _ f g | Pred _ f g | And f g | Or f g | Implies f g | Iff f g | Xor f g | Since f g | SinceT _ _ f g =>
      match trunS envs f, trunS envs g with
      | Some (_, xs), Some (_, ys) => run_g (bstep2 p) (op_init p) (combine xs ys)
      | _, _ => None
      end
  | _ => None
  end.

Lemma trunS_shape envs p :
  trunS envs p =
  match shape p with
  | HVar x => Some (SNone, map (fun env => lift (nth x env [])) envs)
  | HConst => run_g cstep (op_init p) (map (fun _ => tt) envs)
  | HUn f => match trunS envs f with Some (_, xs) => run_g (ustep p) (op_init p) xs | None => None end
  | HBi f g => match trunS envs f, trunS envs g with
               | Some (_, xs), Some (_, ys) => run_g (bstep2 p) (op_init p) (combine xs ys)
               | _, _ => None
               end
  | HUnsup => None
  end.
Proof. destruct p; reflexivity. Qed.

Lemma trunS_trun envs : forall sz p, (size p <= sz)%nat -> option_map snd (trunS envs p) = trun envs p.
Proof.
  induction sz as [|sz IH]; intros p Hsz.
  { destruct p; cbn [size] in Hsz; lia. }
  rewrite trunS_shape, trun_shape. destruct (shape p) eqn:Sh; try reflexivity.
  - pose proof (shape_un_size _ _ Sh) as Hs. rewrite <- (IH f ltac:(lia)).
    destruct (trunS envs f) as [[sf xs]|]; reflexivity.
  - pose proof (shape_bi_size _ _ _ Sh) as [Hs1 Hs2]. rewrite <- (IH f ltac:(lia)), <- (IH g ltac:(lia)).
    destruct (trunS envs f) as [[sf xs]|]; [|reflexivity]. destruct (trunS envs g) as [[sg ys]|]; reflexivity.
Qed.

Lemma trunS_trun_some envs p s os : trunS envs p = Some (s, os) -> trun envs p = Some os.
Proof. intros H. rewrite <- (trunS_trun envs (size p) p (le_n _)), H. reflexivity. Qed.
Lemma trunS_trun_none envs p : trunS envs p = None <-> trun envs p = None.
Proof.
  rewrite <- (trunS_trun envs (size p) p (le_n _)). destruct (trunS envs p) as [[s os]|]; cbn [option_map]; split; congruence.
Qed.
Lemma trun_trunS_some envs p os : trun envs p = Some os -> exists s, trunS envs p = Some (s, os).
Proof.
  rewrite <- (trunS_trun envs (size p) p (le_n _)). destruct (trunS envs p) as [[s os']|]; cbn [option_map snd]; [|discriminate].
  intros H. injection H as <-. exists s. reflexivity.
Qed.

Lemma trunS_length envs p s os : trunS envs p = Some (s, os) -> length os = length envs.
Proof. intros H. apply (trun_length AR pk envs p os). apply (trunS_trun_some envs p s os H). Qed.

(* ---- one more update ---- *)
Variable envs : list (list dsig).
Variable env : list dsig.

(* the state and the outputs before the update [env]: before the first update every operation is fresh, also those
   the visitor rejects (set_ast raises when the first update visits them) *)
Definition pre (a : formula) : option (opst * list esig) :=
  match envs with
  | [] => Some (op_init a, [])
  | _ => trunS envs a
  end.

Lemma app_one_inv {A} (l : list A) : length l = 1%nat -> exists x, l = [] ++ [x].
Proof. destruct l as [|x [|y l]]; cbn [length]; intros H; try lia. exists x. reflexivity. Qed.

Lemma snoc_inv : forall sz p s' os', (size p <= sz)%nat -> trunS (envs ++ [env]) p = Some (s', os') ->
  exists s os o, trunS envs p = Some (s, os) /\ os' = os ++ [o].
Proof.
  induction sz as [|sz IH]; intros p s' os' Hsz H.
  { destruct p; cbn [size] in Hsz; lia. }
  rewrite trunS_shape in H. rewrite trunS_shape. destruct (shape p) eqn:Sh.
  - injection H as <- <-. rewrite map_app. cbn [map]. eexists _, _, _. split; reflexivity.
  - rewrite map_app in H. cbn [map] in H. rewrite run_g_snoc in H.
    destruct (run_g cstep (op_init p) (map (fun _ => tt) envs)) as [[s os]|]; [|discriminate].
    destruct (cstep s tt) as [[s1 o]|]; [|discriminate]. injection H as <- <-. eexists _, _, _. split; reflexivity.
  - pose proof (shape_un_size _ _ Sh) as Hs.
    destruct (trunS (envs ++ [env]) f) as [[sf' xs']|] eqn:Ef; [|discriminate].
    destruct (IH f sf' xs' ltac:(lia) Ef) as (sf & xs & x & Ef0 & ->). rewrite Ef0.
    rewrite run_g_snoc in H. destruct (run_g (ustep p) (op_init p) xs) as [[s os]|]; [|discriminate].
    destruct (ustep p s x) as [[s1 o]|]; [|discriminate]. injection H as <- <-. eexists _, _, _. split; reflexivity.
  - pose proof (shape_bi_size _ _ _ Sh) as [Hs1 Hs2].
    destruct (trunS (envs ++ [env]) f) as [[sf' xs']|] eqn:Ef; [|discriminate].
    destruct (trunS (envs ++ [env]) g) as [[sg' ys']|] eqn:Eg; [|discriminate].
    destruct (IH f sf' xs' ltac:(lia) Ef) as (sf & xs & x & Ef0 & ->).
    destruct (IH g sg' ys' ltac:(lia) Eg) as (sg & ys & y & Eg0 & ->). rewrite Ef0, Eg0.
    assert (Hl : length xs = length ys) by (rewrite (trunS_length _ _ _ _ Ef0), (trunS_length _ _ _ _ Eg0); reflexivity).
    rewrite (combine_app xs [x] ys [y] Hl eq_refl) in H. cbn [combine] in H. rewrite run_g_snoc in H.
    destruct (run_g (bstep2 p) (op_init p) (combine xs ys)) as [[s os]|]; [|discriminate].
    destruct (bstep2 p s (x, y)) as [[s1 o]|]; [|discriminate]. injection H as <- <-. eexists _, _, _. split; reflexivity.
  - discriminate.
Qed.

Lemma snoc_none p : trunS envs p = None -> trunS (envs ++ [env]) p = None.
Proof.
  intros H. destruct (trunS (envs ++ [env]) p) as [[s' os']|] eqn:E; [|reflexivity].
  destruct (snoc_inv (size p) p s' os' (le_n _) E) as (s & os & o & E0 & _). congruence.
Qed.

(* an operand's outputs after the update, cut before the last one *)
Lemma snoc_kid f sf' xs x : trunS (envs ++ [env]) f = Some (sf', xs ++ [x]) ->
  length xs = length envs /\ (envs <> [] -> exists sf, trunS envs f = Some (sf, xs)).
Proof.
  intros E. pose proof (trunS_length _ _ _ _ E) as Hl. rewrite !app_length in Hl. cbn [length] in Hl.
  split; [lia|]. intros _. destruct (snoc_inv (size f) f sf' _ (le_n _) E) as (sf & xs0 & x0 & E0 & Eq).
  apply app_inj_tail in Eq as [-> _]. exists sf. exact E0.
Qed.

Lemma snoc_pre p s' os' : trunS (envs ++ [env]) p = Some (s', os') -> exists s os o, pre p = Some (s, os) /\ os' = os ++ [o].
Proof.
  intros E. unfold pre. destruct envs as [|e0 l] eqn:EE.
  - pose proof (trunS_length _ _ _ _ E) as Hl. cbn [app length] in Hl. destruct (app_one_inv os' Hl) as (o & ->).
    eexists _, _, _. split; reflexivity.
  - rewrite <- EE in *. apply (snoc_inv (size p) p s' os' (le_n _) E).
Qed.

Lemma snoc_var p x : shape p = HVar x ->
  exists os, pre p = Some (SNone, os) /\ trunS (envs ++ [env]) p = Some (SNone, os ++ [lift (nth x env [])]).
Proof.
  intros Sh. rewrite trunS_shape, Sh, map_app. cbn [map]. unfold pre. destruct envs as [|e0 l] eqn:EE.
  - exists []. split; [|reflexivity]. destruct p; cbn [shape] in Sh; try discriminate. reflexivity.
  - rewrite <- EE. eexists. split; [|reflexivity]. rewrite trunS_shape, Sh. reflexivity.
Qed.

Lemma snoc_const p : shape p = HConst ->
  trunS (envs ++ [env]) p =
  match pre p with
  | Some (s, os) => match cstep s tt with Some (s', o) => Some (s', os ++ [o]) | None => None end
  | None => None
  end.
Proof.
  intros Sh. rewrite trunS_shape, Sh, map_app. cbn [map]. rewrite run_g_snoc. unfold pre. destruct envs as [|e0 l] eqn:EE.
  - reflexivity.
  - rewrite <- EE. rewrite trunS_shape, Sh. reflexivity.
Qed.

Lemma snoc_un p f sf' xs x : shape p = HUn f -> trunS (envs ++ [env]) f = Some (sf', xs ++ [x]) ->
  trunS (envs ++ [env]) p =
  match pre p with
  | Some (s, os) => match ustep p s x with Some (s', o) => Some (s', os ++ [o]) | None => None end
  | None => None
  end.
Proof.
  intros Sh Ef. destruct (snoc_kid f sf' xs x Ef) as [Hl Hf]. rewrite trunS_shape, Sh, Ef, run_g_snoc. unfold pre.
  destruct envs as [|e0 l] eqn:EE.
  - destruct xs; [reflexivity|discriminate].
  - rewrite <- EE in *. destruct (Hf ltac:(rewrite EE; discriminate)) as (sf & Ef0).
    rewrite (trunS_shape envs p), Sh, Ef0. reflexivity.
Qed.

Lemma snoc_bi p f g sf' sg' xs ys x y : shape p = HBi f g ->
  trunS (envs ++ [env]) f = Some (sf', xs ++ [x]) -> trunS (envs ++ [env]) g = Some (sg', ys ++ [y]) ->
  trunS (envs ++ [env]) p =
  match pre p with
  | Some (s, os) => match bstep p s x y with Some (s', o) => Some (s', os ++ [o]) | None => None end
  | None => None
  end.
Proof.
  intros Sh Ef Eg. destruct (snoc_kid f sf' xs x Ef) as [Hl1 Hf]. destruct (snoc_kid g sg' ys y Eg) as [Hl2 Hg].
  rewrite trunS_shape, Sh, Ef, Eg. rewrite (combine_app xs [x] ys [y] ltac:(lia) eq_refl). cbn [combine].
  rewrite run_g_snoc. unfold pre. destruct envs as [|e0 l] eqn:EE.
  - destruct xs; [|discriminate]. destruct ys; [|discriminate]. reflexivity.
  - rewrite <- EE in *. destruct (Hf ltac:(rewrite EE; discriminate)) as (sf & Ef0).
    destruct (Hg ltac:(rewrite EE; discriminate)) as (sg & Eg0).
    rewrite (trunS_shape envs p), Sh, Ef0, Eg0. reflexivity.
Qed.

Lemma pre_snoc a : match envs ++ [env] with [] => Some (op_init a, []) | _ => trunS (envs ++ [env]) a end = trunS (envs ++ [env]) a.
Proof. destruct envs; reflexivity. Qed.

(* ================================================================== *)
(* PART 2: one update of the forest                                    *)
(* ================================================================== *)
Variable F : list formula.

(* the nodes the update visitor reaches from the assertions *)
Definition D (a : formula) : Prop := exists r, In r F /\ In a (subs r).

Lemma D_root r : In r F -> D r.
Proof. intros H. exists r. split; [exact H|apply in_subs_self]. Qed.
Lemma D_un p f : D p -> shape p = HUn f -> D f.
Proof. intros (r & Hr & Hp) E. exists r. split; [exact Hr|]. apply (proj1 (subs_closed (size r) r p (le_n _) Hp) f E). Qed.
Lemma D_bi p f g : D p -> shape p = HBi f g -> D f /\ D g.
Proof.
  intros (r & Hr & Hp) E. destruct (proj2 (subs_closed (size r) r p (le_n _) Hp) f g E) as [H1 H2].
  split; exists r; (split; [exact Hr|assumption]).
Qed.

(* inside the update [env]: a node that is not in the memo has the state and the outputs of the updates [envs]; a node
   in the memo has been stepped, its tree run over [envs ++ [env]] is defined, ends in the state the dictionary holds
   and returned the list the memo holds *)
Definition Inv (d : dict) (m : memo) : Prop :=
  (forall a, D a -> match lookup m a with
                    | None => exists os, pre a = Some (d a, os)
                    | Some v => exists os, trunS (envs ++ [env]) a = Some (d a, os ++ [v])
                    end) /\
  (forall a v, lookup m a = Some v -> forall b, In b (subs a) -> lookup m b <> None).

Definition post (p : formula) (m : memo) (res : option (dict * memo * esig)) : Prop :=
  match res with
  | None => trunS (envs ++ [env]) p = None
  | Some (d', m', v) =>
      Inv d' m' /\ lookup m' p = Some v /\ (forall b u, lookup m b = Some u -> lookup m' b = Some u) /\
      (forall b, In b (subs p) -> lookup m' b <> None)
  end.

Lemma post_hit p d m e : Inv d m -> lookup m p = Some e -> post p m (Some (d, m, e)).
Proof.
  intros [HI MC] L. unfold post. split; [split; assumption|]. split; [exact L|]. split; [auto|].
  intros b Hb. apply (MC p e L b Hb).
Qed.

Lemma post_node p d0 m0 s' o os :
  Inv d0 m0 -> lookup m0 p = None -> trunS (envs ++ [env]) p = Some (s', os ++ [o]) ->
  (forall b, In b (subs p) -> b = p \/ lookup m0 b <> None) ->
  forall m, (forall b u, lookup m b = Some u -> lookup m0 b = Some u) ->
  post p m (Some (upd d0 p s', (p, o) :: m0, o)).
Proof.
  intros [HI MC] L E Hsub m Hmono. unfold post.
  assert (Hgrow : forall b, lookup m0 b <> None -> lookup ((p, o) :: m0) b <> None).
  { intros b Hb. destruct (formula_eq_dec b p) as [->|Hne]; [rewrite lookup_cons_eq; discriminate|].
    rewrite lookup_cons_ne by assumption. exact Hb. }
  assert (Hsubp : forall b, In b (subs p) -> lookup ((p, o) :: m0) b <> None).
  { intros b Hb. destruct (Hsub b Hb) as [->|Hn]; [rewrite lookup_cons_eq; discriminate|apply Hgrow; exact Hn]. }
  split; [split|split; [|split]].
  - intros a Ha. destruct (formula_eq_dec a p) as [->|Hne].
    + rewrite lookup_cons_eq, upd_eq. exists os. exact E.
    + rewrite lookup_cons_ne, upd_ne by assumption. apply HI. exact Ha.
  - intros a v La b Hb. destruct (formula_eq_dec a p) as [->|Hne].
    + apply Hsubp. exact Hb.
    + rewrite lookup_cons_ne in La by assumption. apply Hgrow. apply (MC a v La b Hb).
  - apply lookup_cons_eq.
  - intros b u Hb. apply Hmono in Hb. destruct (formula_eq_dec b p) as [->|Hne]; [congruence|].
    rewrite lookup_cons_ne by assumption. exact Hb.
  - exact Hsubp.
Qed.

(* DenseTimeOnlineUpdateVisitor.visit on one node, both outcomes *)
Lemma visit_spec : forall sz p d m, (size p <= sz)%nat -> D p -> Inv d m -> post p m (visit env p d m).
Proof.
  induction sz as [|sz IH]; intros p d m Hsz HD HI.
  { destruct p; cbn [size] in Hsz; lia. }
  rewrite visit_shape. destruct (shape p) eqn:Sh.
  - (* variable: never looked up, always recorded *)
    destruct (snoc_var p x Sh) as (os & Epre & E). cbv zeta. set (out := lift (nth x env [])) in *.
    destruct HI as [HI MC]. unfold post.
    assert (Hsubs : subs p = [p]) by (rewrite subs_shape, Sh; reflexivity).
    assert (Hd : d p = SNone /\ forall u, lookup m p = Some u -> u = out).
    { pose proof (HI p HD) as H. destruct (lookup m p) as [v|].
      - destruct H as (os' & H). rewrite E in H. injection H as H1 H2. apply app_inj_tail in H2 as [_ H2].
        split; [congruence|]. intros u Hu. congruence.
      - destruct H as (os' & H). rewrite Epre in H. split; [congruence|]. intros u Hu. discriminate. }
    destruct Hd as [Hd Hu].
    split; [split|split; [|split]].
    + intros a Ha. destruct (formula_eq_dec a p) as [->|Hne].
      * rewrite lookup_cons_eq. exists os. rewrite Hd. exact E.
      * rewrite lookup_cons_ne by assumption. apply HI. exact Ha.
    + intros a v La b Hb. destruct (formula_eq_dec a p) as [->|Hne].
      * rewrite Hsubs in Hb. destruct Hb as [<-|[]]. rewrite lookup_cons_eq. discriminate.
      * rewrite lookup_cons_ne in La by assumption. pose proof (MC a v La b Hb) as Hn.
        destruct (formula_eq_dec b p) as [->|Hne2]; [rewrite lookup_cons_eq; discriminate|].
        rewrite lookup_cons_ne by assumption. exact Hn.
    + apply lookup_cons_eq.
    + intros b u Hb. destruct (formula_eq_dec b p) as [->|Hne].
      * rewrite lookup_cons_eq. rewrite (Hu u Hb). reflexivity.
      * rewrite lookup_cons_ne by assumption. exact Hb.
    + intros b Hb. rewrite Hsubs in Hb. destruct Hb as [<-|[]]. rewrite lookup_cons_eq. discriminate.
  - (* constant *)
    destruct (lookup m p) eqn:L.
    { apply (post_hit p d m e HI L). }
    pose proof (proj1 HI p HD) as Hp. rewrite L in Hp. destruct Hp as (os & Hp).
    pose proof (snoc_const p Sh) as E. rewrite Hp in E. unfold visit_const.
    destruct (cstep (d p) tt) as [[s' o]|].
    + apply (post_node p d m s' o os HI L E); [|auto].
      intros b Hb. rewrite subs_shape, Sh in Hb. destruct Hb as [<-|[]]. left. reflexivity.
    + exact E.
  - (* unary *)
    destruct (lookup m p) eqn:L.
    { apply (post_hit p d m e HI L). }
    pose proof (shape_un_size _ _ Sh) as Hs. pose proof (D_un _ _ HD Sh) as HDf.
    pose proof (IH f d m ltac:(lia) HDf HI) as IHf.
    pose proof (visit_keys AR pk env (size f) f d m p) as K.
    unfold visit_un. destruct (visit env f d m) as [[[d1 m1] x]|].
    2:{ unfold post in *. rewrite trunS_shape, Sh, IHf. reflexivity. }
    destruct IHf as (HI1 & Lf & Hmono & Hsub). cbn [memo_of fst snd] in K.
    assert (L1 : lookup m1 p = None).
    { destruct (lookup m1 p) eqn:L1; [|reflexivity]. exfalso.
      destruct (K e ltac:(lia) eq_refl) as [K1|K1]; [congruence|lia]. }
    pose proof (proj1 HI1 f HDf) as Hf. rewrite Lf in Hf. destruct Hf as (xs & Ef).
    pose proof (proj1 HI1 p HD) as Hp. rewrite L1 in Hp. destruct Hp as (os & Hp).
    pose proof (snoc_un p f _ xs x Sh Ef) as E. rewrite Hp in E.
    destruct (ustep p (d1 p) x) as [[s' o]|].
    + apply (post_node p d1 m1 s' o os HI1 L1 E); [|exact Hmono].
      intros b Hb. rewrite subs_shape, Sh in Hb. destruct Hb as [<-|Hb]; [left; reflexivity|right; apply Hsub; exact Hb].
    + exact E.
  - (* binary *)
    destruct (lookup m p) eqn:L.
    { apply (post_hit p d m e HI L). }
    pose proof (shape_bi_size _ _ _ Sh) as [Hs1 Hs2]. destruct (D_bi _ _ _ HD Sh) as [HD1 HD2].
    pose proof (IH f d m ltac:(lia) HD1 HI) as IHf.
    pose proof (visit_keys AR pk env (size f) f d m p) as K1.
    unfold visit_bi. destruct (visit env f d m) as [[[d1 m1] x]|].
    2:{ unfold post in *. rewrite trunS_shape, Sh, IHf. reflexivity. }
    destruct IHf as (HI1 & Lf & Hmono1 & Hsub1). cbn [memo_of fst snd] in K1.
    pose proof (IH g d1 m1 ltac:(lia) HD2 HI1) as IHg.
    pose proof (visit_keys AR pk env (size g) g d1 m1 p) as K2.
    destruct (visit env g d1 m1) as [[[d2 m2] y]|].
    2:{ unfold post in *. rewrite trunS_shape, Sh, IHg. destruct (trunS (envs ++ [env]) f) as [[sf xs]|]; reflexivity. }
    destruct IHg as (HI2 & Lg & Hmono2 & Hsub2). cbn [memo_of fst snd] in K2.
    assert (L2 : lookup m2 p = None).
    { destruct (lookup m2 p) eqn:L2; [|reflexivity]. exfalso.
      destruct (K2 e ltac:(lia) eq_refl) as [K|K]; [|lia]. destruct (K1 e ltac:(lia) K) as [K'|K']; [congruence|lia]. }
    pose proof (proj1 HI2 f HD1) as Hf. rewrite (Hmono2 _ _ Lf) in Hf. destruct Hf as (xs & Ef).
    pose proof (proj1 HI2 g HD2) as Hg. rewrite Lg in Hg. destruct Hg as (ys & Eg).
    pose proof (proj1 HI2 p HD) as Hp. rewrite L2 in Hp. destruct Hp as (os & Hp).
    pose proof (snoc_bi p f g _ _ xs ys x y Sh Ef Eg) as E. rewrite Hp in E.
    destruct (bstep p (d2 p) x y) as [[s' o]|].
    + apply (post_node p d2 m2 s' o os HI2 L2 E).
      * intros b Hb. rewrite subs_shape, Sh in Hb. destruct Hb as [<-|Hb]; [left; reflexivity|right].
        apply in_app_or in Hb as [Hb|Hb]; [|apply Hsub2; exact Hb].
        pose proof (Hsub1 b Hb) as Hn. destruct (lookup m1 b) eqn:Eb; [|congruence]. rewrite (Hmono2 _ _ Eb). discriminate.
      * intros b u Hb. apply Hmono2, Hmono1, Hb.
    + exact E.
  - (* a node the online visitor rejects *)
    assert (E : trunS (envs ++ [env]) p = None) by (rewrite trunS_shape, Sh; reflexivity).
    destruct (lookup m p) eqn:L; [|exact E]. exfalso.
    pose proof (proj1 HI p HD) as Hp. rewrite L in Hp. destruct Hp as (os & Hp). congruence.
Qed.

(* visitAst *)
Lemma forest_visit_spec : forall F' d m, (forall p, In p F' -> D p) -> Inv d m ->
  match forest_visit AR pk env F' d m with
  | Some (d', m', vs) =>
      Inv d' m' /\ Forall2 (fun p v => lookup m' p = Some v) F' vs /\
      (forall b u, lookup m b = Some u -> lookup m' b = Some u) /\
      (forall p b, In p F' -> In b (subs p) -> lookup m' b <> None)
  | None => exists p, In p F' /\ trunS (envs ++ [env]) p = None
  end.
Proof.
  induction F' as [|p F' IH]; intros d m HF HI; cbn [forest_visit].
  - split; [exact HI|]. split; [constructor|]. split; [auto|]. intros p b [].
  - pose proof (visit_spec (size p) p d m (le_n _) (HF p (or_introl eq_refl)) HI) as Hp.
    destruct (visit env p d m) as [[[d1 m1] v]|].
    2:{ exists p. split; [left; reflexivity|exact Hp]. }
    destruct Hp as (HI1 & Lp & Hmono1 & Hsub1).
    specialize (IH d1 m1 (fun q Hq => HF q (or_intror Hq)) HI1).
    destruct (forest_visit AR pk env F' d1 m1) as [[[d2 m2] vs]|].
    2:{ destruct IH as (q & Hq & Eq). exists q. split; [right; exact Hq|exact Eq]. }
    destruct IH as (HI2 & HF2 & Hmono2 & Hsub2).
    split; [exact HI2|]. split; [constructor; [apply Hmono2; exact Lp|exact HF2]|]. split; [intros b u Hb; apply Hmono2, Hmono1, Hb|].
    intros q b [<-|Hq] Hb; [|apply (Hsub2 q b Hq Hb)].
    pose proof (Hsub1 b Hb) as Hn. destruct (lookup m1 b) eqn:Eb; [|congruence]. rewrite (Hmono2 _ _ Eb). discriminate.
Qed.

(* between two updates *)
Definition Ready (d : dict) : Prop := forall a, D a -> exists os, pre a = Some (d a, os).

Lemma forest_step_spec d : Ready d ->
  match forest_step AR pk F d env with
  | Some (d', (m', vs)) =>
      (forall a, D a -> exists os v, trunS (envs ++ [env]) a = Some (d' a, os ++ [v]) /\ lookup m' a = Some v) /\
      Forall2 (fun p v => lookup m' p = Some v) F vs
  | None => exists p, In p F /\ trunS (envs ++ [env]) p = None
  end.
Proof.
  intros HR.
  assert (HI : Inv d []).
  { split; [intros a Ha; cbn [lookup]; apply HR; exact Ha|]. intros a v L. discriminate. }
  pose proof (forest_visit_spec F d [] D_root HI) as H. unfold forest_step.
  destruct (forest_visit AR pk env F d []) as [[[d' m'] vs]|]; [|exact H].
  destruct H as ([HI' _] & HF2 & _ & Hsub). split; [|exact HF2].
  intros a (r & Hr & Ha). pose proof (Hsub r a Hr Ha) as Hn. pose proof (HI' a (ex_intro _ r (conj Hr Ha))) as H.
  destruct (lookup m' a) as [v|]; [|congruence]. destruct H as (os & H). exists os, v. split; [exact H|reflexivity].
Qed.

End TS.

(* ================================================================== *)
(* PART 3: runs; the theorems for every forest                         *)
(* ================================================================== *)
Lemma map_some_inj {A} : forall l1 l2 : list A, map Some l1 = map Some l2 -> l1 = l2.
Proof.
  induction l1 as [|a l1 IH]; intros [|b l2] H; cbn [map] in H; try discriminate; [reflexivity|].
  injection H as -> H. f_equal. apply IH. exact H.
Qed.

Lemma Forall2_nth_error {A B} (R : A -> B -> Prop) (dB : B) : forall l1 l2 j a,
  Forall2 R l1 l2 -> nth_error l1 j = Some a -> R a (nth j l2 dB).
Proof.
  intros l1 l2 j a H. revert j. induction H as [|x y l1 l2 Hxy H IH]; intros [|j] E; cbn [nth_error] in E; try discriminate.
  - injection E as <-. exact Hxy.
  - cbn [nth]. apply IH. exact E.
Qed.

Lemma nth_error_last {A} (d : A) : forall l : list A, l <> [] -> nth_error l (length l - 1) = Some (last l d).
Proof.
  induction l as [|a l IH]; intros H; [congruence|]. destruct l as [|b l]; [reflexivity|].
  replace (length (a :: b :: l) - 1)%nat with (S (length (b :: l) - 1)) by (cbn [length]; lia).
  specialize (IH ltac:(discriminate)). exact IH.
Qed.

Lemma nth_last {A} (d : A) : forall l : list A, nth (length l - 1) l d = last l d.
Proof.
  induction l as [|a l IH]; [reflexivity|]. destruct l as [|b l]; [reflexivity|].
  replace (length (a :: b :: l) - 1)%nat with (S (length (b :: l) - 1)) by (cbn [length]; lia).
  exact IH.
Qed.

Section Runs.
Context {VS : Val} (AR : Arith VS).
Variable pk : formula -> formula -> pkind.
Variable F : list formula.

Notation trun := (trun AR pk).
Notation trunS := (trunS AR pk).
Notation forest_run := (forest_run AR pk).
Notation forest_run_out := (forest_run_out AR pk).
Notation mon_run := (mon_run AR pk).

Lemma pre_app envs env a : pre AR pk (envs ++ [env]) a = trunS (envs ++ [env]) a.
Proof. unfold pre. destruct envs; reflexivity. Qed.
Lemma pre_nonempty envs a : envs <> [] -> pre AR pk envs a = trunS envs a.
Proof. unfold pre. destruct envs; [congruence|reflexivity]. Qed.

(* every run of the forest, both outcomes: the states are the final states of the tree runs, the memos hold their outputs *)
Theorem forest_run_spec : forall envs,
  match forest_run F (forest_init F) envs with
  | Some (d, rs) =>
      (forall a, D F a -> exists os, pre AR pk envs a = Some (d a, os) /\ map (fun r => lookup (fst r) a) rs = map Some os) /\
      Forall (fun r => Forall2 (fun p v => lookup (fst r) p = Some v) F (snd r)) rs
  | None => exists p, In p F /\ trunS envs p = None
  end.
Proof.
  induction envs as [|env envs IH] using rev_ind.
  - unfold DenseOnlineForest.forest_run. cbn [run_g]. split; [|constructor].
    intros a _. exists []. split; reflexivity.
  - unfold DenseOnlineForest.forest_run in *. rewrite run_g_snoc.
    destruct (run_g (forest_step AR pk F) (forest_init F) envs) as [[d rs]|].
    2:{ destruct IH as (p & Hp & E). exists p. split; [exact Hp|apply snoc_none; exact E]. }
    destruct IH as [IH1 IH2].
    assert (HR : Ready AR pk envs F d).
    { intros a Ha. destruct (IH1 a Ha) as (os & E & _). exists os. exact E. }
    pose proof (forest_step_spec AR pk envs env F d HR) as H.
    destruct (forest_step AR pk F d env) as [[d' [m' vs]]|]; [|exact H].
    destruct H as [H1 H2]. split.
    + intros a Ha. destruct (H1 a Ha) as (os & v & E & L). exists (os ++ [v]). rewrite pre_app. split; [exact E|].
      rewrite !map_app. cbn [map fst]. rewrite L. f_equal.
      destruct (IH1 a Ha) as (os0 & E0 & R0). destruct (snoc_pre AR pk envs env a _ _ E) as (s1 & os1 & o1 & E1 & Eq).
      apply app_inj_tail in Eq as [-> _]. rewrite E0 in E1. injection E1 as _ <-. exact R0.
    + apply Forall_app. split; [exact IH2|]. constructor; [exact H2|constructor].
Qed.

Lemma forest_run_nil d : forest_run F d [] = Some (d, []).
Proof. reflexivity. Qed.

(* forest_run F = Some: no tree run raises, and every reachable node's memo entries are its tree-run outputs *)
Theorem forest_run_tree envs d rs : envs <> [] -> forest_run F (forest_init F) envs = Some (d, rs) ->
  (forall a, D F a -> exists os, trun envs a = Some os /\ map (fun r => forest_get_sub a r) rs = map Some os) /\
  (forall j p, nth_error F j = Some p -> trun envs p = Some (map (forest_get j) rs)).
Proof.
  intros Hne E. pose proof (forest_run_spec envs) as H. rewrite E in H. destruct H as [H1 H2].
  assert (A : forall a, D F a -> exists os, trun envs a = Some os /\ map (fun r => forest_get_sub a r) rs = map Some os).
  { intros a Ha. destruct (H1 a Ha) as (os & Ep & R). rewrite pre_nonempty in Ep by exact Hne.
    exists os. split; [apply (trunS_trun_some AR pk envs a _ _ Ep)|exact R]. }
  split; [exact A|]. intros j p Hj.
  destruct (A p (D_root F p (nth_error_In _ _ Hj))) as (os & Et & R). rewrite Et. f_equal. apply map_some_inj.
  rewrite <- R, map_map. apply map_ext_in. intros r Hr. rewrite Forall_forall in H2. specialize (H2 r Hr).
  unfold forest_get, forest_get_sub. apply (Forall2_nth_error _ [] _ _ j p H2 Hj).
Qed.

(* forest_run F = None: the tree run of some assertion raises *)
Theorem forest_run_none envs : forest_run F (forest_init F) envs = None -> exists p, In p F /\ trun envs p = None.
Proof.
  intros E. pose proof (forest_run_spec envs) as H. rewrite E in H. destruct H as (p & Hp & Ep).
  exists p. split; [exact Hp|apply (trunS_trun_none AR pk); exact Ep].
Qed.

Lemma forest_visit_length env : forall F' d m d' m' vs,
  forest_visit AR pk env F' d m = Some (d', m', vs) -> length vs = length F'.
Proof.
  induction F' as [|p F' IH]; intros d m d' m' vs H; cbn [forest_visit] in H.
  - injection H as _ _ <-. reflexivity.
  - destruct (visit AR pk env p d m) as [[[d1 m1] v]|]; [|discriminate].
    destruct (forest_visit AR pk env F' d1 m1) as [[[d2 m2] vs2]|] eqn:E; [|discriminate].
    injection H as _ _ <-. cbn [length]. f_equal. apply (IH _ _ _ _ _ E).
Qed.

Lemma forest_run_lengths : forall envs d d' rs, forest_run F d envs = Some (d', rs) ->
  Forall (fun r => length (snd r) = length F) rs.
Proof.
  unfold DenseOnlineForest.forest_run. induction envs as [|env envs IH]; intros d d' rs H; cbn [run_g] in H.
  - injection H as _ <-. constructor.
  - destruct (forest_step AR pk F d env) as [[d1 r]|] eqn:E1; [|discriminate].
    destruct (run_g (forest_step AR pk F) d1 envs) as [[d2 rs2]|] eqn:E2; [|discriminate]. injection H as _ <-.
    constructor; [|apply (IH _ _ _ E2)]. unfold forest_step in E1.
    destruct (forest_visit AR pk env F d []) as [[[dd mm] vs]|] eqn:Ev; [|discriminate]. injection E1 as _ <-.
    apply (forest_visit_length _ _ _ _ _ _ _ Ev).
Qed.

(* what update() returns is the result of the last assertion *)
Lemma forest_out_run : F <> [] -> forall envs d,
  forest_run_out F d envs =
  match forest_run F d envs with Some (d', rs) => Some (d', map (fun r => last (snd r) []) rs) | None => None end.
Proof.
  intros Hne envs d. unfold DenseOnlineForest.forest_run_out, DenseOnlineForest.forest_run. apply run_g_map.
  intros st b. unfold forest_update, forest_step.
  destruct (forest_visit AR pk b F st []) as [[[d' m'] vs]|] eqn:E; [|reflexivity].
  pose proof (forest_visit_length _ _ _ _ _ _ _ E) as Hl. destruct vs as [|v vs]; [|reflexivity].
  destruct F; [congruence|discriminate].
Qed.

(* an empty forest (parse() never builds one): rob[len(rob) - 1] raises IndexError *)
Lemma forest_out_empty d env envs : DenseOnlineForest.forest_run_out AR pk [] d (env :: envs) = None.
Proof. reflexivity. Qed.

End Runs.

Section Single.
Context {VS : Val} (AR : Arith VS).
Variable pk : formula -> formula -> pkind.

Notation trun := (trun AR pk).
Notation forest_run := (forest_run AR pk).
Notation forest_run_out := (forest_run_out AR pk).
Notation mon_run := (mon_run AR pk).

(* the monitor of one formula is the forest of one assertion *)
Lemma mon_run_forest p : forall envs d,
  mon_run p d envs = match forest_run [p] d envs with Some (d', rs) => Some (d', map (forest_get 0) rs) | None => None end.
Proof.
  intros envs d. unfold DenseOnlineMon.mon_run, DenseOnlineForest.forest_run. apply run_g_map.
  intros st b. unfold mon_update, forest_step. cbn [forest_visit].
  destruct (visit AR pk b p st []) as [[[d1 m1] v]|]; reflexivity.
Qed.

(* the converse of DenseOnlineMonCorrect.mon_run_tree: the monitor returns exactly what the tree-shaped composition
   returns, and raises exactly when it raises (from the first update on) *)
Theorem mon_run_iff_tree p envs : envs <> [] -> option_map snd (mon_run p (mon_init p) envs) = trun envs p.
Proof.
  intros Hne. rewrite mon_run_forest. change (mon_init p) with (forest_init [p]).
  destruct (forest_run [p] (forest_init [p]) envs) as [[d rs]|] eqn:E.
  - destruct (forest_run_tree AR pk [p] envs d rs Hne E) as [_ H]. rewrite (H 0%nat p eq_refl). reflexivity.
  - destruct (forest_run_none AR pk [p] envs E) as (q & [<-|[]] & Eq). rewrite Eq. reflexivity.
Qed.

Lemma mon_run_nil p d : mon_run p d [] = Some (d, []).
Proof. reflexivity. Qed.

Variable F : list formula.

(* C12: after every update, get_value(name of assertion j) is what the stand-alone monitor of formula j returns at that update *)
Theorem forest_get_standalone envs d rs j p :
  forest_run F (forest_init F) envs = Some (d, rs) -> nth_error F j = Some p ->
  exists dj, mon_run p (mon_init p) envs = Some (dj, map (forest_get j) rs).
Proof.
  intros E Hj. destruct envs as [|env envs].
  - unfold DenseOnlineForest.forest_run in E. cbn [run_g] in E. injection E as _ <-. exists (mon_init p). reflexivity.
  - destruct (forest_run_tree AR pk F (env :: envs) d rs ltac:(discriminate) E) as [_ H].
    apply (mon_run_tree AR pk p (env :: envs) _ (H j p Hj)).
Qed.

(* the same for get_value(printed text of a sub-formula of an assertion) *)
Theorem forest_get_sub_standalone envs d rs r a :
  forest_run F (forest_init F) envs = Some (d, rs) -> In r F -> In a (subs r) ->
  exists da os, mon_run a (mon_init a) envs = Some (da, os) /\ map (forest_get_sub a) rs = map Some os.
Proof.
  intros E Hr Ha. destruct envs as [|env envs].
  - unfold DenseOnlineForest.forest_run in E. cbn [run_g] in E. injection E as _ <-. exists (mon_init a), []. split; reflexivity.
  - destruct (forest_run_tree AR pk F (env :: envs) d rs ltac:(discriminate) E) as [H _].
    destruct (H a (ex_intro _ r (conj Hr Ha))) as (os & Et & R).
    destruct (mon_run_tree AR pk a (env :: envs) _ Et) as (da & Em). exists da, os. split; [exact Em|exact R].
Qed.

(* an update of the forest raises iff an update of the stand-alone monitor of some assertion raises *)
Theorem forest_raises_iff envs :
  forest_run F (forest_init F) envs = None <-> exists p, In p F /\ mon_run p (mon_init p) envs = None.
Proof.
  split.
  - intros E. destruct envs as [|env envs]; [discriminate|].
    destruct (forest_run_none AR pk F _ E) as (p & Hp & Et). exists p. split; [exact Hp|].
    pose proof (mon_run_iff_tree p (env :: envs) ltac:(discriminate)) as H. rewrite Et in H.
    destruct (mon_run p (mon_init p) (env :: envs)); [discriminate|reflexivity].
  - intros (p & Hp & Em). destruct envs as [|env envs]; [discriminate|].
    destruct (forest_run F (forest_init F) (env :: envs)) as [[d rs]|] eqn:E; [|reflexivity]. exfalso.
    destruct (In_nth_error _ _ Hp) as (j & Hj).
    destruct (forest_get_standalone _ d rs j p E Hj) as (dj & Em'). congruence.
Qed.

(* update() returns what the monitor of the last assertion returns *)
Theorem forest_out_last envs d outs : F <> [] ->
  forest_run_out F (forest_init F) envs = Some (d, outs) ->
  exists d', mon_run (last F (Const bot)) (mon_init (last F (Const bot))) envs = Some (d', outs).
Proof.
  intros Hne E. rewrite (forest_out_run AR pk F Hne) in E.
  destruct (forest_run F (forest_init F) envs) as [[d1 rs]|] eqn:Er; [|discriminate]. injection E as _ <-.
  destruct (forest_get_standalone envs d1 rs (length F - 1) (last F (Const bot)) Er (nth_error_last _ F Hne)) as (dj & Em).
  exists dj. rewrite Em. f_equal. f_equal. apply map_ext_in. intros r Hr.
  pose proof (forest_run_lengths AR pk F envs _ _ _ Er) as Hl. rewrite Forall_forall in Hl. specialize (Hl r Hr).
  unfold forest_get. rewrite <- Hl. apply nth_last.
Qed.

(* C09: when every assertion is a sub-formula of the last one (every sub-specification is used, directly or not, by
   the main assertion), the specification with sub-specifications and the inlined one return the same lists at every
   update and raise in the same runs *)
Theorem forest_inlined envs : F <> [] -> (forall p, In p F -> In p (subs (last F (Const bot)))) ->
  option_map snd (forest_run_out F (forest_init F) envs) =
  option_map snd (mon_run (last F (Const bot)) (mon_init (last F (Const bot))) envs).
Proof.
  intros Hne Hused. destruct (forest_run_out F (forest_init F) envs) as [[d outs]|] eqn:E.
  - destruct (forest_out_last envs d outs Hne E) as (d' & Em). rewrite Em. reflexivity.
  - rewrite (forest_out_run AR pk F Hne) in E.
    destruct (forest_run F (forest_init F) envs) as [[d1 rs]|] eqn:Er; [discriminate|].
    destruct envs as [|env envs]; [discriminate|].
    destruct (forest_run_none AR pk F _ Er) as (p & Hp & Et).
    rewrite (mon_run_iff_tree _ (env :: envs) ltac:(discriminate)).
    destruct (trun (env :: envs) (last F (Const bot))) as [os|] eqn:El; [|reflexivity]. exfalso.
    apply (trun_subs AR pk (env :: envs) (size (last F (Const bot))) _ p (le_n _) (Hused p Hp)); [congruence|exact Et].
Qed.

(* sub-specifications nobody uses are still evaluated: without the hypothesis of [forest_inlined] only this direction holds *)
Corollary forest_inlined_ok envs d outs : F <> [] ->
  forest_run_out F (forest_init F) envs = Some (d, outs) ->
  option_map snd (mon_run (last F (Const bot)) (mon_init (last F (Const bot))) envs) = Some outs.
Proof. intros Hne E. destruct (forest_out_last envs d outs Hne E) as (d' & Em). rewrite Em. reflexivity. Qed.

End Single.

(* ================================================================== *)
(* PART 4: the proved fragment                                         *)
(* ================================================================== *)
Section Frag.
Context {VS : Val} (AR : Arith VS).
Variable pk : formula -> formula -> pkind.                                     (* any predicate kinds: STL and IA-STL monitors *)
Hypothesis HDL : (forall f g, pk f g = PStd) \/ DiffLaws AR.
Hypothesis SubNeg : forall l r, neg (a2 AR Sub l r) = a2 AR Sub r l.
Local Open Scope Z_scope.

Variable F : list formula.
Variable W : list dsig.
Variable tend : Z.
Variable envs : list (list dsig).
Hypothesis Hfeed : forall x, feedsI [] (map (fun env => nth x env []) envs) (nth x W []).
Hypothesis HWs : forall x, dsorted (nth x W []).
Hypothesis HW0 : forall x, nth x W [] <> [] -> start (nth x W []) = 0.

(* assertions in the fragment (with or without variable) whose sqrt / ln never receive a value on which they raise:
   no update of the forest raises, and every assertion's results are those of its stand-alone monitor *)
Theorem forest_online_noraise :
  (forall p, In p F -> frag2 p = true /\ safe AR pk W tend p) ->
  exists d rs,
    forest_run AR pk F (forest_init F) envs = Some (d, rs) /\ length rs = length envs /\
    forall j p, nth_error F j = Some p ->
      exists dj, mon_run AR pk p (mon_init p) envs = Some (dj, map (forest_get j) rs).
Proof.
  intros HF. destruct (forest_run AR pk F (forest_init F) envs) as [[d rs]|] eqn:E.
  - exists d, rs. split; [reflexivity|]. split; [apply (run_g_length _ _ _ _ _ _ _ _ E)|].
    intros j p Hj. apply (forest_get_standalone AR pk F envs d rs j p E Hj).
  - exfalso. apply (forest_raises_iff AR pk F envs) in E. destruct E as (p & Hp & Em). destruct (HF p Hp) as [Hc Hs].
    unfold frag2 in Hc. destruct (cl p) eqn:Ec; [discriminate| |].
    + destruct (mon_online_correct_pk AR pk HDL SubNeg p W tend envs Ec Hfeed HWs HW0 Hs) as (d & outs & S & Er & _). congruence.
    + destruct (mon_online_closed AR pk HDL SubNeg p W tend envs Ec Hfeed HWs HW0 Hs) as (d & ys & Er & _). congruence.
Qed.

(* assertions with a variable: the results recorded for assertion j, update after update, are finite-stamped lists
   that denote rhoZ of formula j from 0 to the last stamp returned (all conclusions of mon_online_correct_pk) *)
Theorem forest_online_correct :
  (forall p, In p F -> cl p = COpen /\ safe AR pk W tend p) ->
  exists d rs,
    forest_run AR pk F (forest_init F) envs = Some (d, rs) /\ length rs = length envs /\
    forall j p, nth_error F j = Some p ->
      exists dj outs S,
        mon_run_fin AR pk p (mon_init p) envs = Some (dj, outs) /\
        map (forest_get j) rs = map lift outs /\
        feedsI [] outs S /\ dsorted S /\ wsorted (concat outs) /\
        (forall a v, In (a, v) (concat outs) -> 0 <= a <= lastT (concat outs)) /\
        (forall t, concat outs <> [] -> 0 <= t <= lastT (concat outs) ->
                   den_opt (concat outs) t = Some (rhoZ AR pk W tend p t)) /\
        (forall x, In x (fvars p) -> lastT (concat outs) <= lastT (nth x W [])) /\
        (pg p = true -> exists x, In x (fvars p) /\ lastT (concat outs) = lastT (nth x W [])).
Proof.
  intros HF.
  destruct forest_online_noraise as (d & rs & E & Hl & H).
  { intros p Hp. destruct (HF p Hp) as [Hc Hs]. split; [unfold frag2; rewrite Hc; reflexivity|exact Hs]. }
  exists d, rs. split; [exact E|]. split; [exact Hl|]. intros j p Hj. destruct (H j p Hj) as (dj & Em).
  destruct (HF p (nth_error_In _ _ Hj)) as [Hc Hs].
  destruct (mon_online_correct_pk AR pk HDL SubNeg p W tend envs Hc Hfeed HWs HW0 Hs)
    as (d' & outs & S & Er & Ef & _ & A1 & A2 & A3 & A4 & A5 & A6 & A7).
  rewrite Em in Er. injection Er as _ Eo. exists d', outs, S.
  split; [exact Ef|]. split; [exact Eo|]. repeat (split; [assumption|]). assumption.
Qed.

(* the value update() returns is the result of the last assertion *)
Corollary forest_online_out :
  F <> [] -> (forall p, In p F -> frag2 p = true /\ safe AR pk W tend p) ->
  exists d d' outs,
    forest_run_out AR pk F (forest_init F) envs = Some (d, outs) /\
    mon_run AR pk (last F (Const bot)) (mon_init (last F (Const bot))) envs = Some (d', outs).
Proof.
  intros Hne HF. destruct (forest_online_noraise HF) as (d & rs & E & _ & _).
  pose proof (forest_out_run AR pk F Hne envs (forest_init F)) as Ho. rewrite E in Ho.
  destruct (forest_out_last AR pk F envs _ _ Hne Ho) as (d' & Em). eexists _, _, _. split; [exact Ho|exact Em].
Qed.

End Frag.
