(* UnitsGenCorrect.v — the definitions that tools/py2coq_units.py GENERATES from the Python text (UnitsGen.v) compute the hand models
   on which C08 and C13 are stated:
     gen_U, gen_ast_U                       = uval                                    (Units.v)
     gen_time_unit_transformer              = to_samples_z (same value or same rejection class: RTAMTException / any other exception)  (UnitsLift.v)
     gen_dense_time_unit_transformer        = to_dense  (an int by value, a float by the reduced rational it rounds)                     (UnitsLift.v)
     gen_check_pastified_bounds             = the conversion of every stored interval, first failure first
     gen_online_update_counter              = jstep ; its fold over the stamps from a fresh monitor = jrun                                (Jitter.v)
     gen_offline_evaluate_counter           = joff ; gen_online_reset_counter = jreset ; gen_init = jinit
   The period that the counter uses is [jperiod]: sampling_period * U[unit of the period] / ast.U[ast.unit] (the period in time-stamp
   units), the scaling of the gap is self.normalize (1 after __init__; nothing in rtamt assigns it again). *)
From Coq Require Import ZArith QArith Qreduction List Bool Lia.
From RV Require Import Offline Units UnitsLift UnitsLiftCorrect PySem PySemFacts PyUnits UnitsGen Jitter.
Import ListNotations.

Lemma Qred_gcd q : Z.gcd (Qnum (Qred q)) (Zpos (Qden (Qred q))) = 1%Z.
Proof.
  destruct q as [a b]. unfold Qred.
  pose proof (Z.ggcd_gcd a (Zpos b)) as Hg. pose proof (Z.ggcd_correct_divisors a (Zpos b)) as Hd.
  destruct (Z.ggcd a (Zpos b)) as [g [aa bb]]. simpl in *. destruct Hd as [Ha Hb].
  assert (Hg0 : (0 <= g)%Z) by (rewrite Hg; apply Z.gcd_nonneg).
  pose proof (Pos2Z.is_pos b) as Hbp.
  assert (Hgp : (0 < g)%Z) by (destruct (Z.eq_dec g 0) as [E0|E0]; [subst g; lia|lia]).
  assert (Hbb : (0 < bb)%Z) by nia.
  rewrite Z2Pos.id by exact Hbb.
  pose proof (Z.gcd_mul_mono_l_nonneg aa bb g Hg0) as Hm. rewrite <- Ha, <- Hb, <- Hg in Hm.
  assert (Hn : (0 <= Z.gcd aa bb)%Z) by apply Z.gcd_nonneg. nia.
Qed.

Lemma Qred_inject_Z z : Qred (inject_Z z) = inject_Z z.
Proof.
  unfold Qred, inject_Z.
  pose proof (Z.ggcd_gcd z 1) as Hg. pose proof (Z.ggcd_correct_divisors z 1) as Hd.
  destruct (Z.ggcd z 1) as [g [aa bb]]. simpl in *. destruct Hd as [Ha Hb].
  rewrite Z.gcd_1_r in Hg. subst g. rewrite Z.mul_1_l in Ha, Hb. subst aa bb. reflexivity.
Qed.

Lemma frac_mod_is_int q : Z.gtb (py_numerator q mod py_denominator q) 0 = negb (is_int q).
Proof.
  unfold py_numerator, py_denominator, is_int. pose proof (Qred_gcd q) as G.
  destruct (Qred q) as [n d]. cbn [Qnum Qden] in *.
  destruct (Pos.eqb d 1) eqn:Ed; cbn [negb].
  - apply Pos.eqb_eq in Ed. subst d. rewrite Z.mod_1_r. reflexivity.
  - apply Pos.eqb_neq in Ed. pose proof (Z.mod_pos_bound n (Zpos d) ltac:(lia)) as Hb.
    destruct (Z.eq_dec (n mod Zpos d) 0) as [E|E].
    + exfalso. apply Z.mod_divide in E; [|lia].
      assert (Hdd : (Zpos d | Z.gcd n (Zpos d))%Z) by (apply Z.gcd_greatest; [exact E|apply Z.divide_refl]).
      rewrite G in Hdd. apply Z.divide_1_r_nonneg in Hdd; lia.
    + apply Z.gtb_lt. lia.
Qed.

Lemma int_of_frac_is_int q : is_int q = true -> py_int_of_frac q = Qnum (Qred q).
Proof.
  unfold py_int_of_frac, py_numerator, py_denominator, is_int. intros H. apply Pos.eqb_eq in H. rewrite H. apply Z.quot_1_r.
Qed.

Local Open Scope units_scope.

Lemma gen_U_uval u : gen_U u = uval u.
Proof. destruct u; reflexivity. Qed.
Lemma gen_ast_U_uval u : gen_ast_U u = uval u.
Proof. destruct u; reflexivity. Qed.

Lemma unit_len_eq0 o : Z.eqb (py_unit_len o) 0 = match o with None => true | Some _ => false end.
Proof. destruct o as [[]|]; reflexivity. Qed.
Lemma unit_len_gt0 o : Z.gtb (py_unit_len o) 0 = match o with None => false | Some _ => true end.
Proof. destruct o as [[]|]; reflexivity. Qed.

Lemma py_mod_frac q : py_mod (py_numerator q) (py_denominator q) = Ret (py_numerator q mod py_denominator q)%Z.
Proof. unfold py_mod, py_denominator. reflexivity. Qed.

Theorem gen_time_unit_transformer_refines s i :
  to_outcome (gen_time_unit_transformer s i) =
  to_samples_z (ast_unit (dti_ast s)) (sampling_period s) (sampling_period_unit s) i.
Proof.
  unfold gen_time_unit_transformer, to_samples_z, begin_ns, end_ns, resolve, ns, period_q.
  rewrite !unit_len_eq0, !unit_len_gt0.
  destruct (ibu i) as [bu|]; destruct (ieu i) as [eu|]; cbn [ubind py_dict_get py_fraction_str fst snd];
    change gen_ast_U with uval; unfold py_qdiv;
    (destruct (Qeq_bool (sampling_period s * inject_Z (uval (sampling_period_unit s))) 0); [reflexivity|]);
    cbn [ubind]; rewrite !py_mod_frac; cbn [ubind]; rewrite !frac_mod_is_int;
    match goal with |- context [is_int ?b] => destruct (is_int b) eqn:Eb end; cbn [negb ubind to_outcome]; try reflexivity;
    match goal with |- context [negb (is_int ?e)] => destruct (is_int e) eqn:Ee end; cbn [negb ubind to_outcome]; try reflexivity;
    rewrite !(int_of_frac_is_int _ Eb), !(int_of_frac_is_int _ Ee), ?Z.geb_leb; change py_maxsize with maxsize;
    match goal with |- context [(maxsize <=? ?e)%Z] => destruct (maxsize <=? e)%Z end; reflexivity.
Qed.

Definition res_map {A B} (f : A -> B) (r : res A) : res B := match r with Ret a => Ret (f a) | Raise e => Raise e end.
Definition nn_val (r : pynum * pynum) : Q * Q := (num_val (fst r), num_val (snd r)).

Lemma uval_nonzero u : Qeq_bool (inject_Z (uval u)) 0 = false.
Proof. destruct u; reflexivity. Qed.

Lemma float_overflow_red q : py_float_overflow q = dense_overflow (Qred q).
Proof.
  unfold py_float_overflow, dense_overflow, float_overflow.
  f_equal; apply Qle_bool_ext; try reflexivity; symmetry; apply Qred_correct.
Qed.

Lemma py_float_red q : py_float q = if dense_overflow (Qred q) then Raise OverflowError else Ret q.
Proof. unfold py_float. rewrite float_overflow_red. reflexivity. Qed.

Lemma whole_red q : Qeq_bool q (inject_Z (py_int_of_frac q)) = true -> inject_Z (py_int_of_frac q) = Qred q.
Proof.
  intros H. apply Qeq_bool_eq in H. rewrite (Qred_complete _ _ H). symmetry. apply Qred_inject_Z.
Qed.

Theorem gen_dense_time_unit_transformer_refines s i :
  to_outcome (res_map nn_val (gen_dense_time_unit_transformer s i)) = to_dense (ast_unit (dnti_ast s)) i.
Proof.
  unfold gen_dense_time_unit_transformer, to_dense, to_default, begin_ns, end_ns, resolve, ns.
  rewrite !unit_len_eq0, !unit_len_gt0.
  destruct (ibu i) as [bu|]; destruct (ieu i) as [eu|]; cbn [ubind py_dict_get fst snd];
    change gen_ast_U with uval; unfold py_qdiv; rewrite !uval_nonzero; cbn [ubind];
    rewrite !py_float_red;
    (match goal with |- context [dense_overflow (Qred ?b)] => destruct (dense_overflow (Qred b)) end; cbn [ubind py_catch pyexc_eqb res_map to_outcome andb]; [reflexivity|]);
    match goal with |- context [Qeq_bool ?b (inject_Z (py_int_of_frac ?b))] => destruct (Qeq_bool b (inject_Z (py_int_of_frac b))) eqn:Wb end; cbn [ubind];
    (match goal with |- context [dense_overflow (Qred ?e)] => destruct (dense_overflow (Qred e)) end; cbn [ubind py_catch pyexc_eqb res_map to_outcome andb]; [reflexivity|]);
    (match goal with |- context [Qeq_bool ?e (inject_Z (py_int_of_frac ?e))] => destruct (Qeq_bool e (inject_Z (py_int_of_frac e))) eqn:We end; cbn [ubind py_catch res_map to_outcome]);
    unfold nn_val; cbn [fst snd num_val]; rewrite ?(whole_red _ Wb), ?(whole_red _ We); reflexivity.
Qed.

(* which of the two bounds stay Python ints: exactly the whole numbers of default units *)
Definition is_nint (x : pynum) : bool := match x with NInt _ => true | NFloat _ => false end.
Lemma whole_is_int q : Qeq_bool q (inject_Z (py_int_of_frac q)) = is_int q.
Proof.
  destruct (is_int q) eqn:E.
  - apply Qeq_bool_iff. rewrite (int_of_frac_is_int _ E). apply is_int_spec. exact E.
  - destruct (Qeq_bool q (inject_Z (py_int_of_frac q))) eqn:W; [|reflexivity].
    apply whole_red in W. unfold is_int in E. rewrite <- W in E. discriminate.
Qed.

Theorem gen_dense_time_unit_transformer_tags s i b e :
  gen_dense_time_unit_transformer s i = Ret (b, e) ->
  is_nint b = is_int (fst (to_default (ast_unit (dnti_ast s)) i)) /\
  is_nint e = is_int (snd (to_default (ast_unit (dnti_ast s)) i)).
Proof.
  unfold gen_dense_time_unit_transformer, to_default, begin_ns, end_ns, resolve, ns.
  rewrite !unit_len_eq0, !unit_len_gt0.
  destruct (ibu i) as [bu|]; destruct (ieu i) as [eu|]; cbn [ubind py_dict_get fst snd];
    change gen_ast_U with uval; unfold py_qdiv; rewrite !uval_nonzero; cbn [ubind];
    rewrite !py_float_red;
    (match goal with |- context [dense_overflow (Qred ?b)] => destruct (dense_overflow (Qred b)) end; cbn [ubind py_catch pyexc_eqb andb]; [discriminate|]);
    match goal with |- context [Qeq_bool ?b (inject_Z (py_int_of_frac ?b))] => rewrite (whole_is_int b); destruct (is_int b) end; cbn [ubind];
    (match goal with |- context [dense_overflow (Qred ?e)] => destruct (dense_overflow (Qred e)) end; cbn [ubind py_catch pyexc_eqb andb]; [discriminate|]);
    (match goal with |- context [Qeq_bool ?e (inject_Z (py_int_of_frac ?e))] => rewrite (whole_is_int e); destruct (is_int e) end; cbn [ubind py_catch]);
    intros H; injection H as <- <-; split; reflexivity.
Qed.

(* ---------- the sampling-violation counter ---------- *)
(* the period in time-stamp (default) units, as update_sampling_violation_counter computes it *)
Definition jperiod (s : dti) : Q :=
  sampling_period s * inject_Z (uval (sampling_period_unit s)) / inject_Z (uval (ast_unit (dti_ast s))).
Definition jabs (s : dti) : jstate :=
  {| jcnt := Z.to_nat (update_counter s); jprev := previous_time s; jviol := Z.to_nat (sampling_violation_counter s) |}.
(* the attributes the counter only reads *)
Definition same_settings (s s' : dti) : Prop :=
  sampling_period s' = sampling_period s /\ sampling_period_unit s' = sampling_period_unit s /\
  sampling_tolerance s' = sampling_tolerance s /\ normalize s' = normalize s /\ dti_ast s' = dti_ast s.
Lemma same_settings_refl s : same_settings s s.
Proof. repeat split. Qed.
Lemma same_settings_trans s1 s2 s3 : same_settings s1 s2 -> same_settings s2 s3 -> same_settings s1 s3.
Proof. unfold same_settings. intros (A1 & A2 & A3 & A4 & A5) (B1 & B2 & B3 & B4 & B5). repeat split; congruence. Qed.
Lemma jperiod_same s s' : same_settings s s' -> jperiod s' = jperiod s.
Proof. unfold jperiod. intros (A1 & A2 & A3 & A4 & A5). rewrite A1, A2, A5. reflexivity. Qed.

Lemma gen_gap_spec s a b : gen_gap s a b = Ret ((b - a) * normalize s).
Proof. reflexivity. Qed.

Lemma gen_svc_spec s d :
  gen_update_sampling_violation_counter s d =
  Ret (if bad (jperiod s) (sampling_tolerance s) d
       then set_sampling_violation_counter_ s (sampling_violation_counter s + 1) else s).
Proof.
  unfold gen_update_sampling_violation_counter, jperiod. cbn [ubind py_dict_get py_fraction_str].
  change gen_U with uval. change gen_ast_U with uval. unfold py_qdiv. rewrite uval_nonzero. cbn [ubind].
  change py_qltb with qltb. unfold bad.
  match goal with |- context [if ?c then _ else _] => destruct c end; reflexivity.
Qed.

(* one update() of the online monitor is one step of the hand model *)
Theorem gen_online_update_counter_refines s t :
  (0 <= update_counter s)%Z -> (0 <= sampling_violation_counter s)%Z ->
  exists s', gen_online_update_counter s t = Ret s' /\
             jabs s' = jstep (jperiod s) (sampling_tolerance s) (normalize s) (jabs s) t /\
             same_settings s s' /\ (0 <= update_counter s')%Z /\ (0 <= sampling_violation_counter s')%Z.
Proof.
  intros Hc Hv. unfold gen_online_update_counter. rewrite gen_gap_spec. cbn [ubind]. rewrite gen_svc_spec. cbn [ubind].
  unfold jstep, jabs. cbn [jcnt jprev jviol].
  assert (Ec : (0 <? Z.to_nat (update_counter s))%nat = (update_counter s >? 0)%Z).
  { destruct (update_counter s >? 0)%Z eqn:E.
    - apply Z.gtb_lt in E. apply Nat.ltb_lt. lia.
    - apply Nat.ltb_ge. assert (~ (0 < update_counter s)%Z) by (intros H; apply Z.gtb_lt in H; congruence). lia. }
  rewrite Ec. destruct (update_counter s >? 0)%Z; cbn [andb].
  - destruct (bad (jperiod s) (sampling_tolerance s) ((t - previous_time s) * normalize s)); eexists; (split; [reflexivity|]);
      cbn; (split; [f_equal; lia|]); (split; [repeat split|]); lia.
  - eexists. split; [reflexivity|]. cbn. split; [f_equal; lia|]. split; [repeat split|]. lia.
Qed.

(* the stamps of successive update() calls *)
Definition gen_online_run (s : dti) (ts : list Q) : res dti := ufor ts (fun t s => gen_online_update_counter s t) s.

Theorem gen_online_run_refines ts : forall s,
  (0 <= update_counter s)%Z -> (0 <= sampling_violation_counter s)%Z ->
  exists s', gen_online_run s ts = Ret s' /\
             jabs s' = fold_left (jstep (jperiod s) (sampling_tolerance s) (normalize s)) ts (jabs s) /\ same_settings s s'.
Proof.
  unfold gen_online_run. induction ts as [|t ts IH]; intros s Hc Hv.
  - exists s. repeat split.
  - destruct (gen_online_update_counter_refines s t Hc Hv) as (s1 & E1 & A1 & S1 & C1 & V1).
    destruct (IH s1 C1 V1) as (s2 & E2 & A2 & S2).
    exists s2. cbn [ufor]. rewrite E1. cbn [ubind]. split; [exact E2|]. split.
    + cbn [fold_left]. rewrite <- A1. rewrite A2. rewrite (jperiod_same _ _ S1). destruct S1 as (_ & _ & T & N & _). rewrite T, N. reflexivity.
    + eapply same_settings_trans; eassumption.
Qed.

(* from a fresh (or reset) monitor: the hand model jrun *)
Corollary gen_online_run_jrun s ts :
  update_counter s = 0%Z -> previous_time s = 0 -> sampling_violation_counter s = 0%Z ->
  exists s', gen_online_run s ts = Ret s' /\ jabs s' = jrun (jperiod s) (sampling_tolerance s) (normalize s) ts.
Proof.
  intros Hc Hp Hv. destruct (gen_online_run_refines ts s ltac:(lia) ltac:(lia)) as (s' & E & A & _).
  exists s'. split; [exact E|]. rewrite A. unfold jrun, jabs, jinit. rewrite Hc, Hp, Hv. reflexivity.
Qed.

Lemma gen_init_spec a : exists s, gen_init (dti_blank a) = Ret s /\ jabs s = jinit /\ normalize s = 1 /\
  sampling_period s = 1 /\ sampling_period_unit s = US /\ sampling_tolerance s = 1 # 10 /\ dti_ast s = a.
Proof. eexists. split; [reflexivity|]. repeat split. Qed.

Lemma gen_online_reset_counter_spec s : exists s', gen_online_reset_counter s = Ret s' /\ jabs s' = jreset (jabs s) /\ same_settings s s'.
Proof. eexists. split; [reflexivity|]. repeat split. Qed.

Lemma gen_set_sampling_period_spec s p u tol :
  gen_set_sampling_period s p u tol =
  if qltb tol 0 || qltb 1 tol then Raise PyException
  else Ret (set_sampling_tolerance_ (set_sampling_period_unit_ (set_sampling_period_ s p) u) tol).
Proof.
  unfold gen_set_sampling_period. change py_qltb with qltb.
  change (0 # 1) with 0. change (1 # 1) with 1. destruct (qltb tol 0 || qltb 1 tol); reflexivity.
Qed.

(* ---------- the offline loop: for i in range(len(ts) - 1): f(ts[i], ts[i+1]) is a recursion over consecutive pairs ---------- *)
Fixpoint upairs {A St} (f : A -> A -> St -> res St) (l : list A) (s : St) : res St :=
  match l with
  | a :: ((b :: _) as rest) => ubind (f a b s) (upairs f rest)
  | _ => Ret s
  end.

Lemma py_index_middle {A} (pre : list A) x r : py_index (pre ++ x :: r) (Z.of_nat (length pre)) = Ret x.
Proof.
  unfold py_index. rewrite (py_get_nat _ _ x) by (rewrite app_length; cbn; lia). rewrite nth_middle. reflexivity.
Qed.

Lemma ufor_pairs_shift {A St} (f : A -> A -> St -> res St) (ts : list A) : forall (pre : list A) (s : St),
  ufor (map Z.of_nat (seq (length pre) (length ts - 1)))
       (fun i s => ubind (py_index (pre ++ ts) i) (fun a => ubind (py_index (pre ++ ts) (Z.add i 1)) (fun b => f a b s))) s
  = upairs f ts s.
Proof.
  induction ts as [|a ts IH]; intros pre s; [reflexivity|].
  destruct ts as [|b r]; [reflexivity|].
  replace (length (a :: b :: r) - 1)%nat with (S (length (b :: r) - 1))%nat by (cbn; lia).
  cbn [seq map ufor upairs]. rewrite py_index_middle. cbn [ubind].
  replace (Z.of_nat (length pre) + 1)%Z with (Z.of_nat (length (pre ++ [a]))) by (rewrite app_length; cbn; lia).
  replace (pre ++ a :: b :: r) with ((pre ++ [a]) ++ b :: r) by (rewrite <- app_assoc; reflexivity).
  rewrite py_index_middle. cbn [ubind]. destruct (f a b s) as [s1|e]; [|reflexivity]. cbn [ubind].
  specialize (IH (pre ++ [a]) s1). rewrite app_length in IH. cbn [length] in IH.
  replace (length pre + 1)%nat with (S (length pre)) in IH by lia. exact IH.
Qed.

Lemma ufor_pairs {A St} (f : A -> A -> St -> res St) (ts : list A) (s : St) :
  ufor (py_range 0 (Z.sub (py_len ts) 1))
       (fun i s => ubind (py_index ts i) (fun a => ubind (py_index ts (Z.add i 1)) (fun b => f a b s))) s
  = upairs f ts s.
Proof.
  destruct ts as [|a r]; [reflexivity|].
  replace (py_len (a :: r) - 1)%Z with (Z.of_nat (length (a :: r) - 1)) by (unfold py_len; cbn [length]; lia).
  rewrite py_range_0. exact (ufor_pairs_shift f (a :: r) [] s).
Qed.

Theorem gen_offline_evaluate_counter_refines s ts :
  exists s', gen_offline_evaluate_counter s ts = Ret s' /\
             sampling_violation_counter s' = Z.of_nat (joff (jperiod s) (sampling_tolerance s) (normalize s) ts) /\
             same_settings s s' /\ update_counter s' = update_counter s /\ previous_time s' = previous_time s.
Proof.
  unfold gen_offline_evaluate_counter.
  set (s0 := set_sampling_violation_counter_ s 0).
  set (f := fun (a b : Q) (s : dti) => ubind (gen_gap s a b) (fun d => ubind (gen_update_sampling_violation_counter s d) (fun s => Ret s))).
  assert (L : forall l s1, same_settings s s1 ->
            exists s', upairs f l s1 = Ret s' /\
              sampling_violation_counter s' = (sampling_violation_counter s1 + Z.of_nat (joff (jperiod s) (sampling_tolerance s) (normalize s) l))%Z /\
              same_settings s s' /\ update_counter s' = update_counter s1 /\ previous_time s' = previous_time s1).
  { induction l as [|a l IH]; intros s1 S1.
    - exists s1. cbn. repeat split; try apply S1. lia.
    - destruct l as [|b r].
      + exists s1. cbn. repeat split; try apply S1. lia.
      + cbn [upairs]. unfold f at 1. rewrite gen_gap_spec. cbn [ubind]. rewrite gen_svc_spec. cbn [ubind].
        rewrite (jperiod_same _ _ S1). destruct S1 as (P1 & P2 & P3 & P4 & P5). rewrite P3, P4.
        change (joff (jperiod s) (sampling_tolerance s) (normalize s) (a :: b :: r))
          with ((if bad (jperiod s) (sampling_tolerance s) ((b - a) * normalize s) then 1 else 0) + joff (jperiod s) (sampling_tolerance s) (normalize s) (b :: r))%nat.
        destruct (bad (jperiod s) (sampling_tolerance s) ((b - a) * normalize s)).
        * destruct (IH (set_sampling_violation_counter_ s1 (sampling_violation_counter s1 + 1)) ltac:(repeat split; assumption)) as (s' & E & V & S' & C & T).
          exists s'. split; [exact E|]. split; [rewrite V; cbn; lia|]. split; [exact S'|]. split; [exact C|exact T].
        * destruct (IH s1 ltac:(repeat split; assumption)) as (s' & E & V & S' & C & T).
          exists s'. split; [exact E|]. split; [rewrite V; cbn; lia|]. split; [exact S'|]. split; [exact C|exact T]. }
  destruct (L ts s0 ltac:(repeat split)) as (s' & E & V & S' & C & T).
  exists s'. split.
  - cbn zeta. transitivity (ubind (upairs f ts s0) (fun s => Ret s)); [|rewrite E; reflexivity].
    f_equal. rewrite <- (ufor_pairs f ts s0). reflexivity.
  - split; [rewrite V; cbn; lia|]. split; [exact S'|]. split; [exact C|exact T].
Qed.

(* ---------- check_pastified_bounds: every stored interval is converted once more, the first failure is the result ---------- *)
Fixpoint check_all (h : interval -> outcome (Z * Z)) (l : list interval) : outcome unit :=
  match l with [] => Ok tt | i :: r => rbind (h i) (fun _ => check_all h r) end.

Theorem gen_check_pastified_bounds_refines s :
  to_outcome (gen_check_pastified_bounds s) =
  rmap (fun _ => s) (check_all (to_samples_z (ast_unit (dti_ast s)) (sampling_period s) (sampling_period_unit s)) (ast_pastified_intervals (dti_ast s))).
Proof.
  unfold gen_check_pastified_bounds.
  generalize (ast_pastified_intervals (dti_ast s)) as l. induction l as [|i l IH]; [reflexivity|].
  cbn [ufor check_all]. pose proof (gen_time_unit_transformer_refines s i) as H.
  destruct (gen_time_unit_transformer s i) as [be|e]; cbn [ubind to_outcome] in *; rewrite <- H.
  - cbn [rbind rmap]. exact IH.
  - destruct e; reflexivity.
Qed.

(* ---------- what Props/C08.v and Props/C13.v quote ---------- *)
Theorem units_gen_refines :
  (forall u, gen_U u = uval u) /\ (forall u, gen_ast_U u = uval u) /\
  (forall s i, to_outcome (gen_time_unit_transformer s i) =
               to_samples_z (ast_unit (dti_ast s)) (sampling_period s) (sampling_period_unit s) i) /\
  (forall s i, to_outcome (res_map nn_val (gen_dense_time_unit_transformer s i)) = to_dense (ast_unit (dnti_ast s)) i) /\
  (forall s i b e, gen_dense_time_unit_transformer s i = Ret (b, e) ->
     is_nint b = is_int (fst (to_default (ast_unit (dnti_ast s)) i)) /\ is_nint e = is_int (snd (to_default (ast_unit (dnti_ast s)) i))) /\
  (forall s, to_outcome (gen_check_pastified_bounds s) =
             rmap (fun _ => s) (check_all (to_samples_z (ast_unit (dti_ast s)) (sampling_period s) (sampling_period_unit s))
                                          (ast_pastified_intervals (dti_ast s)))).
Proof.
  split; [exact gen_U_uval|]. split; [exact gen_ast_U_uval|]. split; [exact gen_time_unit_transformer_refines|].
  split; [exact gen_dense_time_unit_transformer_refines|]. split; [exact gen_dense_time_unit_transformer_tags|exact gen_check_pastified_bounds_refines].
Qed.
Print Assumptions units_gen_refines.

Theorem counter_gen_refines :
  (* one update() *)
  (forall s t, (0 <= update_counter s)%Z -> (0 <= sampling_violation_counter s)%Z ->
     exists s', gen_online_update_counter s t = Ret s' /\
                jabs s' = jstep (jperiod s) (sampling_tolerance s) (normalize s) (jabs s) t /\
                same_settings s s' /\ (0 <= update_counter s')%Z /\ (0 <= sampling_violation_counter s')%Z) /\
  (* the updates of a fresh or reset monitor *)
  (forall s ts, update_counter s = 0%Z -> previous_time s = 0 -> sampling_violation_counter s = 0%Z ->
     exists s', gen_online_run s ts = Ret s' /\ jabs s' = jrun (jperiod s) (sampling_tolerance s) (normalize s) ts) /\
  (* evaluate() *)
  (forall s ts, exists s', gen_offline_evaluate_counter s ts = Ret s' /\
     sampling_violation_counter s' = Z.of_nat (joff (jperiod s) (sampling_tolerance s) (normalize s) ts) /\
     same_settings s s' /\ update_counter s' = update_counter s /\ previous_time s' = previous_time s) /\
  (* reset(), __init__, set_sampling_period *)
  (forall s, exists s', gen_online_reset_counter s = Ret s' /\ jabs s' = jreset (jabs s) /\ same_settings s s') /\
  (forall a, exists s, gen_init (dti_blank a) = Ret s /\ jabs s = jinit /\ normalize s = 1 /\
     sampling_period s = 1 /\ sampling_period_unit s = US /\ sampling_tolerance s = 1 # 10 /\ dti_ast s = a) /\
  (forall s p u tol, gen_set_sampling_period s p u tol =
     if qltb tol 0 || qltb 1 tol then Raise PyException
     else Ret (set_sampling_tolerance_ (set_sampling_period_unit_ (set_sampling_period_ s p) u) tol)).
Proof.
  split; [exact gen_online_update_counter_refines|]. split; [exact gen_online_run_jrun|].
  split; [exact gen_offline_evaluate_counter_refines|]. split; [exact gen_online_reset_counter_spec|].
  split; [exact gen_init_spec|exact gen_set_sampling_period_spec].
Qed.
Print Assumptions counter_gen_refines.

(* non-vacuity on the generated text: once[500ms, 1.5] with default unit s and a period of 500000 us is (1, 3); 501 ms is rejected;
   a period of 0 is a ZeroDivisionError; dense time keeps 1.5 s as the float 3/2 and 2000 ms as the int 2; four stamps, one bad gap *)
Example units_gen_nonvacuous :
  let a := {| ast_unit := US; ast_pastified_intervals := [] |} in
  let s p := {| sampling_period := p; sampling_period_unit := UUS; sampling_tolerance := 1 # 10; update_counter := 0; previous_time := 0;
                sampling_violation_counter := 0; normalize := 1; dti_ast := a |} in
  gen_time_unit_transformer (s 500000) {| ib := 500; ie := 3 # 2; ibu := Some UMS; ieu := None |} = Raise RTAMTException /\
  gen_time_unit_transformer (s 500000) {| ib := 1 # 2; ie := 3 # 2; ibu := None; ieu := None |} = Ret (1, 3)%Z /\
  gen_time_unit_transformer (s 500000) {| ib := 501; ie := 1500; ibu := Some UMS; ieu := None |} = Raise RTAMTException /\
  gen_time_unit_transformer (s 0) {| ib := 1; ie := 2; ibu := None; ieu := None |} = Raise ZeroDivisionError /\
  (exists x, gen_dense_time_unit_transformer {| dnti_ast := a |} {| ib := 3 # 2; ie := 2000; ibu := Some US; ieu := Some UMS |} = Ret (NFloat x, NInt 2) /\ Qred x = 3 # 2) /\
  (exists s', gen_online_run (s 500000) [0; 1 # 2; 5 # 4; 7 # 4] = Ret s' /\ sampling_violation_counter s' = 1%Z) /\
  (exists s', gen_offline_evaluate_counter (s 500000) [0; 1 # 2; 5 # 4; 7 # 4] = Ret s' /\ sampling_violation_counter s' = 1%Z).
Proof.
  cbv zeta. repeat split; try (vm_compute; reflexivity); eexists; split; vm_compute; reflexivity.
Qed.
