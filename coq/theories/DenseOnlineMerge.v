(* DenseOnlineMerge.v — implementation layer of dense-time ONLINE evaluation:
   a line-by-line transcription of
     rtamt/semantics/stl/dense_time/online/intersection.py  (intersection, _append)
     rtamt/semantics/stl/dense_time/online/and_operation.py (state, update)
   The transcription is generic in the type of time stamps (a type T with the two
   comparisons the code uses, < and ==); it is instantiated with Z (finite stamps,
   [oisect], [bin_update]) and with [tz] of DenseMerge.v (stamps with +inf, as in the
   constants [[0,c],[inf,c]]: [oisect_e], [bin_update_e]).

   Conventions of the transcription
   * a Python list of samples [[t,v],...] is a list of pairs; [last = []] is [None];
   * in_samples_i are the lists l1, l2; prev_in_sample_i is always their head
     (it is set to in_samples_i[1] exactly when in_samples_i.pop(0) is executed);
   * [None] is the RTAMTException 'Unexpected case in the intersection'.  The two tail
     loops have no final [else]: if no branch applied Python would spin for ever; the model
     answers [None] there as well (unreachable when < and == come from a total order);
   * loops run on fuel; every iteration pops one sample, so [length s1 + length s2 + 2]
     iterations are never exhausted (proved in DenseOnlineMergeCorrect.v for sorted inputs). *)
From Coq Require Import List Bool Arith ZArith Lia.
From RV Require Import Val Syntax Rho Online Dense DenseMerge.
Import ListNotations.
Local Open Scope Z_scope.

Section OnlineMergeG.
Context {VS : Val}.
Variable T : Type.
Variables tltb teqb : T -> T -> bool.     (* a < b, a == b on time stamps *)

Definition gsig := list (T * V).
Definition gsample := (T * V)%type.

(* _append(in_list, item): drop an item that repeats the previous value *)
Definition oappend (out : gsig) (item : gsample) : gsig :=
  match rev out with
  | [] => [item]
  | (_, pv) :: _ => if veq pv (snd item) then out else out ++ [item]
  end.

(* loop state: in_samples_1, in_samples_2, out_samples, last *)
Definition mstate := (gsig * gsig * gsig * option gsample)%type.

(* one iteration of the main while loop; l1 = (p1,v1)::(c1,w1)::r1, l2 = (p2,v2)::(c2,w2)::r2 *)
Definition ostep (f : V -> V -> V)
    (p1 : T) (v1 : V) (c1 : T) (w1 : V) (r1 : gsig)
    (p2 : T) (v2 : V) (c2 : T) (w2 : V) (r2 : gsig)
    (out : gsig) (last : option gsample) : option mstate :=
  let l1 := (p1, v1) :: (c1, w1) :: r1 in let l1' := (c1, w1) :: r1 in
  let l2 := (p2, v2) :: (c2, w2) :: r2 in let l2' := (c2, w2) :: r2 in
  (* 1: precedes *)
  if tltb c1 p2 then Some (l1', l2, out, None)
  (* 2: meets *)
  else if tltb p1 c1 && teqb c1 p2 && tltb p2 c2 then Some (l1', l2, out, Some (p2, f w1 v2))
  (* 3: overlaps *)
  else if tltb p1 p2 && tltb p2 c1 && tltb c1 c2 then
    Some (l1', l2, oappend out (p2, f v1 v2), Some (c1, f w1 v2))
  (* 4: finished by *)
  else if tltb p1 p2 && tltb p2 c1 && teqb c1 c2 then
    Some (l1', l2, oappend out (p2, f v1 v2), Some (c2, f w1 w2))
  (* 5: finishes *)
  else if tltb p2 p1 && tltb p1 c1 && teqb c1 c2 then
    Some (l1', l2, oappend out (p1, f v1 v2), Some (c2, f w1 w2))
  (* 6: contains *)
  else if tltb p1 p2 && tltb p2 c2 && tltb c2 c1 then
    Some (l1, l2', oappend out (p2, f v1 v2), Some (c2, f v1 w2))
  (* 7: started by *)
  else if teqb p1 p2 && tltb p2 c2 && tltb c2 c1 then
    Some (l1, l2', oappend out (p2, f v1 v2), Some (c2, f v1 w2))
  (* 8: equal *)
  else if teqb p1 p2 && tltb p2 c2 && teqb c2 c1 then
    Some (l1', l2, oappend out (p2, f v1 v2), Some (c2, f w1 w2))
  (* 9: starts *)
  else if teqb p1 p2 && tltb p2 c1 && tltb c1 c2 then
    Some (l1', l2, oappend out (p1, f v1 v2), Some (c1, f w1 v2))
  (* 10: during *)
  else if tltb p2 p1 && tltb p1 c1 && tltb c1 c2 then
    Some (l1', l2, oappend out (p1, f v1 v2), Some (c1, f w1 v2))
  (* 11: met by *)
  else if tltb p2 c2 && teqb c2 p1 && tltb p1 c1 then Some (l1, l2', out, Some (c2, f v1 w2))
  (* 12: overlapped by *)
  else if tltb p2 p1 && tltb p1 c2 && tltb c2 c1 then
    Some (l1, l2', oappend out (p1, f v1 v2), Some (c2, f v1 w2))
  (* 13: preceded by -- [last] is NOT reset here (it is in case 1) *)
  else if tltb c2 p1 then Some (l1, l2', out, last)
  else None.

(* while in_samples_1[1:] and in_samples_2[1:] *)
Fixpoint omain (fuel : nat) (f : V -> V -> V) (l1 l2 out : gsig) (last : option gsample) : option mstate :=
  match fuel with
  | O => Some (l1, l2, out, last)
  | S fuel' =>
    match l1, l2 with
    | (p1, v1) :: (c1, w1) :: r1, (p2, v2) :: (c2, w2) :: r2 =>
        match ostep f p1 v1 c1 w1 r1 p2 v2 c2 w2 r2 out last with
        | Some (l1', l2', out', last') => omain fuel' f l1' l2' out' last'
        | None => None
        end
    | _, _ => Some (l1, l2, out, last)
    end
  end.

(* if len(in_samples_1) > 1: while in_samples_1[1:]  (prev_in_sample_2 = (p2,v2) is fixed) *)
Fixpoint otail1 (fuel : nat) (f : V -> V -> V) (l1 : gsig) (p2 : T) (v2 : V) (out : gsig) (last : option gsample)
  : option (gsig * option gsample) :=
  match fuel with
  | O => Some (out, last)
  | S fuel' =>
    match l1 with
    | (p1, v1) :: (((c1, w1) :: _) as l1') =>
        if tltb p2 p1 then Some (out, last)                                   (* break *)
        else if teqb p1 p2 then Some (out, Some (p2, f v1 v2))               (* break *)
        else if tltb p1 p2 && tltb p2 c1 then
          let la := (p2, f v1 v2) in otail1 fuel' f l1' p2 v2 (oappend out la) (Some la)
        else if tltb p1 p2 && teqb p2 c1 then
          let la := (p2, f w1 v2) in otail1 fuel' f l1' p2 v2 (oappend out la) (Some la)
        else if tltb c1 p2 then otail1 fuel' f l1' p2 v2 out None
        else None
    | _ => Some (out, last)
    end
  end.

(* elif len(in_samples_2) > 1: while in_samples_2[1:]  (prev_in_sample_1 = (p1,v1) is fixed) *)
Fixpoint otail2 (fuel : nat) (f : V -> V -> V) (p1 : T) (v1 : V) (l2 : gsig) (out : gsig) (last : option gsample)
  : option (gsig * option gsample) :=
  match fuel with
  | O => Some (out, last)
  | S fuel' =>
    match l2 with
    | (p2, v2) :: (((c2, w2) :: _) as l2') =>
        if tltb p1 p2 then Some (out, last)
        else if teqb p2 p1 then Some (out, Some (p1, f v1 v2))
        else if tltb p2 p1 && tltb p1 c2 then
          let la := (p1, f v1 v2) in otail2 fuel' f p1 v1 l2' (oappend out la) (Some la)
        else if tltb p2 p1 && teqb p1 c2 then
          let la := (p1, f v1 w2) in otail2 fuel' f p1 v1 l2' (oappend out la) (Some la)
        else if tltb c2 p1 then otail2 fuel' f p1 v1 l2' out None
        else None
    | _ => Some (out, last)
    end
  end.

Definition oresult := (gsig * option gsample * gsig * gsig)%type.   (* out_samples, last, remainder_1, remainder_2 *)

(* after the main loop: remainder_samples_i = in_samples_i.copy(), then one of the two tail loops *)
Definition ofinish (f : V -> V -> V) (st : mstate) : option oresult :=
  let '(l1, l2, out, last) := st in
  match l1, l2 with
  | _ :: _ :: _, (p2', v2') :: _ =>
      option_map (fun ol => (fst ol, snd ol, l1, l2)) (otail1 (length l1) f l1 p2' v2' out last)
  | (p1', v1') :: _, _ :: _ :: _ =>
      option_map (fun ol => (fst ol, snd ol, l1, l2)) (otail2 (length l2) f p1' v1' l2 out last)
  | _, _ => Some (out, last, l1, l2)
  end.

Definition oisect_g (f : V -> V -> V) (s1 s2 : gsig) : option oresult :=
  match s1, s2 with
  | [], _ | _, [] => Some ([], None, s1, s2)
  | (p1, v1) :: _, (p2, v2) :: _ =>
      let last0 := if teqb p1 p2 then Some (p1, f v1 v2) else None in
      match omain (length s1 + length s2 + 2) f s1 s2 [] last0 with
      | None => None
      | Some st => ofinish f st
      end
  end.

(* ---------------- and_operation.py ---------------- *)
Record ostate := { lbuf : gsig; rbuf : gsig; lout : option gsample }.
Definition ostate0 : ostate := {| lbuf := []; rbuf := []; lout := None |}.

(* buf + batch, or buf + batch[1:] when the batch starts at the last buffered time stamp *)
Definition obuf_add (buf batch : gsig) : gsig :=
  match rev buf, batch with
  | (tb, _) :: _, (t0, _) :: rest => if teqb tb t0 then buf ++ rest else buf ++ batch
  | _, _ => buf ++ batch
  end.

(* if last: append it to result when result is empty or last[0] > result[-1][0] *)
Definition oadd_last (res : gsig) (last : option gsample) : gsig :=
  match last with
  | None => res
  | Some la =>
      match rev res with
      | [] => [la]
      | (tr, _) :: _ => if tltb tr (fst la) then res ++ [la] else res
      end
  end.

(* drop a first result sample that is identical to last_output *)
Definition odrop_first (lo : option gsample) (res : gsig) : gsig :=
  match lo, res with
  | Some (to, vo), (t0, v0) :: rest => if teqb to t0 && veq vo v0 then rest else res
  | _, _ => res
  end.

Definition bin_update_g (f : V -> V -> V) (st : ostate) (b1 b2 : gsig) : option (ostate * gsig) :=
  let l := obuf_add (lbuf st) b1 in
  let r := obuf_add (rbuf st) b2 in
  match oisect_g f l r with
  | None => None
  | Some (res, last, l', r') =>
      let res1 := oadd_last res last in
      let res2 := odrop_first (lout st) res1 in
      let lo := match rev res2 with [] => lout st | x :: _ => Some x end in
      Some ({| lbuf := l'; rbuf := r'; lout := lo |}, res2)
  end.

(* a sequence of updates; the outputs of the successive calls *)
Fixpoint bin_run_g (f : V -> V -> V) (st : ostate) (bs : list (gsig * gsig)) : option (ostate * list gsig) :=
  match bs with
  | [] => Some (st, [])
  | (b1, b2) :: bs' =>
      match bin_update_g f st b1 b2 with
      | None => None
      | Some (st', o) =>
          match bin_run_g f st' bs' with
          | None => None
          | Some (st'', os) => Some (st'', o :: os)
          end
      end
  end.

End OnlineMergeG.

Arguments lbuf {VS T} _.
Arguments rbuf {VS T} _.
Arguments lout {VS T} _.
Arguments ostate0 {VS T}.

Section OnlineMerge.
Context {VS : Val}.

(* finite integer time stamps *)
Definition oisect (f : V -> V -> V) (s1 s2 : dsig) : option (dsig * option (Z * V) * dsig * dsig) :=
  oisect_g Z Z.ltb Z.eqb f s1 s2.
Definition state := @ostate VS Z.
Definition bin_update (f : V -> V -> V) (st : state) (b1 b2 : dsig) : option (state * dsig) :=
  bin_update_g Z Z.ltb Z.eqb f st b1 b2.
Definition bin_run (f : V -> V -> V) (st : state) (bs : list (dsig * dsig)) : option (state * list dsig) :=
  bin_run_g Z Z.ltb Z.eqb f st bs.

(* time stamps with +inf *)
Definition oisect_e (f : V -> V -> V) (s1 s2 : esig) := oisect_g tz tlt teq f s1 s2.
Definition bin_update_e (f : V -> V -> V) (st : @ostate VS tz) (b1 b2 : esig) := bin_update_g tz tlt teq f st b1 b2.
Definition bin_run_e (f : V -> V -> V) (st : @ostate VS tz) (bs : list (esig * esig)) := bin_run_g tz tlt teq f st bs.

End OnlineMerge.
