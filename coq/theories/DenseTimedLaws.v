(* DenseTimedLaws.v — the decompositions that since_timed_operation / until_timed_operation rely on, at tick level:
     f since[b,e] g  =  once[b,e] g  and  historically[0,b] (f since g)
     f until[b,e] g  =  eventually[b,e] g  and  always[0,b] (f until g)
   for every bounded total order (proved through "X <= ..." characterisations, i.e. the Boolean argument). *)
From Coq Require Import List Bool Arith ZArith Lia.
From RV Require Import Val Syntax Rho ListFacts OfflineCorrect Dense DenseSem DenseFacts.
Import ListNotations.
Local Open Scope Z_scope.

Section TimedLaws.
Context {VS : Val}.

Lemma maxl_attained : forall l : list V, l <> [] -> In (maxl l) l.
Proof.
  induction l as [|x r IH]; intros H; [congruence|]. rewrite maxl_cons. destruct r as [|y r'].
  - cbn. left. symmetry. apply vmax_bot_r.
  - specialize (IH ltac:(discriminate)). unfold vmax. destruct (leb x (maxl (y :: r'))); [right; exact IH|left; reflexivity].
Qed.

Lemma zmax_attained (f : Z -> V) lo hi : lo <= hi -> exists u, lo <= u <= hi /\ zmax f lo hi = f u.
Proof.
  intros H. unfold zmax.
  assert (Hne : map f (zrange lo hi) <> []).
  { assert (Hin : In lo (zrange lo hi)) by (apply in_zrange; lia). destruct (zrange lo hi); [destruct Hin|discriminate]. }
  pose proof (maxl_attained _ Hne) as Hin. apply in_map_iff in Hin as (u & E & Hu). apply in_zrange in Hu. exists u. split; [exact Hu|symmetry; exact E].
Qed.

Lemma zmax_ge (f : Z -> V) lo hi u : lo <= u <= hi -> leb (f u) (zmax f lo hi) = true.
Proof. intros H. apply (proj1 (zmax_ub f lo hi (zmax f lo hi)) (leb_refl _) u H). Qed.

Lemma zmax_lb_iff (f : Z -> V) lo hi X : lo <= hi ->
  (leb X (zmax f lo hi) = true <-> exists u, lo <= u <= hi /\ leb X (f u) = true).
Proof.
  intros H. split.
  - intros HX. destruct (zmax_attained f lo hi H) as (u & Hu & E). exists u. split; [exact Hu|]. rewrite <- E. exact HX.
  - intros (u & Hu & HX). apply (leb_trans _ (f u)); [exact HX|apply zmax_ge; exact Hu].
Qed.

(* ---------------- since ---------------- *)
Variables (F G : Z -> V).

Definition SinceU (u : Z) : V := zmax (fun t' => vmin (G t') (zmin F t' u)) 0 u.

Theorem since_decomp (b e t : Z) : 0 <= b -> b <= e -> 0 <= t - b ->
  zmax (fun t' => vmin (G t') (zmin F t' t)) (Z.max (t - e) 0) (t - b) =
  vmin (zmax G (Z.max (t - e) 0) (t - b)) (zmin SinceU (t - b) t).
Proof.
  intros Hb Hbe Ht. set (lo := Z.max (t - e) 0). set (hi := t - b). assert (Hlh : lo <= hi) by lia. assert (Hhi : 0 <= hi) by lia.
  apply eq_by_lb. intros X. rewrite vmin_glb, zmin_lb, !zmax_lb_iff by lia. split.
  - intros (t' & Ht' & HX). apply vmin_glb in HX as [HG HF]. split; [exists t'; split; assumption|].
    intros u Hu. unfold SinceU. apply zmax_lb_iff; [lia|]. exists t'. split; [lia|]. apply vmin_glb. split; [exact HG|].
    apply zmin_lb. intros w Hw. apply (proj1 (zmin_lb F t' t X) HF). lia.
  - intros [(ts & Hts & HGs) HS].
    assert (HFt : forall w, hi <= w <= t -> leb X (F w) = true).
    { intros w Hw. specialize (HS w Hw). unfold SinceU in HS. apply zmax_lb_iff in HS; [|lia]. destruct HS as (t' & Ht' & HX).
      apply vmin_glb in HX as [_ HF]. apply (proj1 (zmin_lb F t' w X) HF). lia. }
    pose proof (HS hi ltac:(lia)) as H1. unfold SinceU in H1. apply zmax_lb_iff in H1; [|lia]. destruct H1 as (t1 & Ht1 & HX1).
    apply vmin_glb in HX1 as [HG1 HF1]. pose proof (proj1 (zmin_lb F t1 hi X) HF1) as HF1'.
    destruct (Z.le_gt_cases lo t1) as [Hc|Hc].
    + exists t1. split; [lia|]. apply vmin_glb. split; [exact HG1|]. apply zmin_lb. intros w Hw.
      destruct (Z.le_gt_cases w hi); [apply HF1'; lia|apply HFt; lia].
    + exists ts. split; [exact Hts|]. apply vmin_glb. split; [exact HGs|]. apply zmin_lb. intros w Hw.
      destruct (Z.le_gt_cases w hi); [apply HF1'; lia|apply HFt; lia].
Qed.

(* ---------------- until ---------------- *)
Variable tend : Z.
Hypothesis Hconst : forall u, tend <= u -> F u = F tend /\ G u = G tend.

Definition UntilU (u : Z) : V := zmax (fun t' => vmin (G t') (zmin F u t')) u (Z.max u tend).

Theorem until_decomp (b e t : Z) : 0 <= b -> b <= e ->
  zmax (fun t' => vmin (G t') (zmin F t t')) (t + b) (t + e) =
  vmin (zmax G (t + b) (t + e)) (zmin UntilU t (t + b)).
Proof.
  intros Hb Hbe. apply eq_by_lb. intros X. rewrite vmin_glb, zmin_lb, !zmax_lb_iff by lia. split.
  - intros (t' & Ht' & HX). apply vmin_glb in HX as [HG HF]. pose proof (proj1 (zmin_lb F t t' X) HF) as HF'.
    split; [exists t'; split; assumption|].
    intros u Hu. unfold UntilU. apply zmax_lb_iff; [lia|]. destruct (Z.le_gt_cases t' (Z.max u tend)) as [Hc|Hc].
    + exists t'. split; [lia|]. apply vmin_glb. split; [exact HG|]. apply zmin_lb. intros w Hw. apply HF'. lia.
    + exists (Z.max u tend). split; [lia|]. apply vmin_glb. split.
      * destruct (Hconst t' ltac:(lia)) as [_ E1]. destruct (Hconst (Z.max u tend) ltac:(lia)) as [_ E2]. rewrite E2, <- E1. exact HG.
      * apply zmin_lb. intros w Hw. apply HF'. lia.
  - intros [(ts & Hts & HGs) HU].
    assert (HFt : forall w, t <= w <= t + b -> leb X (F w) = true).
    { intros w Hw. specialize (HU w Hw). unfold UntilU in HU. apply zmax_lb_iff in HU; [|lia]. destruct HU as (t' & Ht' & HX).
      apply vmin_glb in HX as [_ HF]. apply (proj1 (zmin_lb F w t' X) HF). lia. }
    pose proof (HU (t + b) ltac:(lia)) as H1. unfold UntilU in H1. apply zmax_lb_iff in H1; [|lia]. destruct H1 as (t1 & Ht1 & HX1).
    apply vmin_glb in HX1 as [HG1 HF1]. pose proof (proj1 (zmin_lb F (t + b) t1 X) HF1) as HF1'.
    destruct (Z.le_gt_cases t1 (t + e)) as [Hc|Hc].
    + exists t1. split; [lia|]. apply vmin_glb. split; [exact HG1|]. apply zmin_lb. intros w Hw.
      destruct (Z.le_gt_cases w (t + b)); [apply HFt; lia|apply HF1'; lia].
    + exists ts. split; [exact Hts|]. apply vmin_glb. split; [exact HGs|]. apply zmin_lb. intros w Hw.
      destruct (Z.le_gt_cases w (t + b)); [apply HFt; lia|apply HF1'; lia].
Qed.

End TimedLaws.
