(* ElabGenCorrect.v — the parser visitors as re-generated from the Python text (ElabGen.v, tools/py2coq_parservisitor.py) compute the
   hand models: gen_visit_stl / gen_visit_ltl = ParserDecl.visit_dump (the state ParserDecl.visit threads + the node Elab.dump prints),
   gen_visitInterval = Elab.check_interval, on the contexts the grammar can produce (PyParse.shape_ok) inside the literal fragment of
   Elab.v (PyParse.lits_ok), for a default unit that is a unit.  Re-checked against the regenerated text on every build. *)
From Coq Require Import List Bool Arith ZArith QArith Ascii String Lia.
From RV Require Import Lexer PrecTable Parser Elab Offline ParserCorrect ParserDecl ParserDeclCorrect PyParse ElabGen.
Import ListNotations.
Local Open Scope string_scope.

(* ---- the run-time library against the primitives of the hand model ---- *)
Lemma lookup_assoc : forall l x, lookup l x = assoc l x.
Proof. induction l as [|[k v] r IH]; intros x; simpl; [reflexivity|]. destruct (String.eqb k x); [reflexivity|apply IH]. Qed.

Lemma py_in_kmem x l : py_in x l = kmem x l.
Proof. unfold py_in, kmem. rewrite lookup_assoc. reflexivity. Qed.

Lemma digits_val_nonneg : forall l acc, (0 <= acc)%Z -> (0 <= digits_val acc l)%Z.
Proof.
  induction l as [|c r IH]; intros acc H; cbn [digits_val]; [exact H|]. apply IH. pose proof (Zle_0_nat (nat_of_ascii c - 48)). unfold digit_val. lia.
Qed.

Lemma final_nonneg mant k : (0 <= mant)%Z ->
  Qle_bool 0 (if (0 <=? k)%Z then inject_Z (mant * 10 ^ k) else (mant # Z.to_pos (10 ^ (- k)))) = true.
Proof.
  intros H. apply Qle_bool_iff. destruct (0 <=? k)%Z eqn:E; unfold Qle; simpl.
  - apply Z.leb_le in E. assert (0 <= 10 ^ k)%Z by (apply Z.pow_nonneg; lia). nia.
  - lia.
Qed.

Lemma lit_to_q_nonneg s q : lit_to_q s = Some q -> Qle_bool 0 q = true.
Proof.
  unfold lit_to_q.
  destruct (span is_digit (to_chars s)) as [ip r].
  match goal with |- context [match ?p with (_, _) => _ end] => destruct p as [fp r1] end.
  destruct (ip ++ fp)%list eqn:E; [discriminate|]. rewrite <- E.
  match goal with |- context [match ?p with Some _ => _ | None => None end] => destruct p as [e|] end; [|discriminate].
  intros H. injection H as <-. apply final_nonneg. apply digits_val_nonneg. lia.
Qed.

Lemma is_unit_cases k : is_unit k = true -> k = KS \/ k = KMs \/ k = KUs \/ k = KNs.
Proof. destruct k; try discriminate; auto. Qed.

Definition unit_str (u : option kw) : string := match u with Some k => kw_unit_text k | None => "" end.

Lemma truthy_unit u : unit_ok u = true -> py_truthy (unit_str u) = match u with Some _ => true | None => false end.
Proof. destruct u as [k|]; [|reflexivity]. simpl. intros H. destruct (is_unit_cases k H) as [->|[->|[->| ->]]]; reflexivity. Qed.

Lemma show_unit u : unit_ok u = true -> unit_show (unit_str u) = unit_text u.
Proof. destruct u as [k|]; [|reflexivity]. simpl. intros H. destruct (is_unit_cases k H) as [->|[->|[->| ->]]]; reflexivity. Qed.

Lemma U_get k : is_unit k = true -> exists p, py_getitem py_U (kw_unit_text k) = Ok p /\ n_val p = inject_Z (unit_ns k).
Proof. intros H. destruct (is_unit_cases k H) as [->|[->|[->| ->]]]; eexists; split; reflexivity. Qed.

Lemma remove_plain s : lit_plain s = true -> py_remove_char "_" s = s.
Proof. unfold lit_plain. apply String.eqb_eq. Qed.

Section Correct.
Variable orc : oracle.
Variable du : kw.
Hypothesis Hdu : is_unit du = true.       (* the setter of `unit` accepts s, ms, us, ns only *)

(* ---- visitIntervalTimeLiteral / visitConstantTimeLiteral ---- *)
Lemma gen_intervalTime_spec st t : it_lit_ok t = true ->
  gen_visit_intervalTime st t =
  match itime_text (penv_of du st) t with
  | Some (s, u) => match lit_to_q s with Some q => Ok ({| n_text := s; n_val := q |}, unit_str u) | None => Rtamt end
  | None => Rtamt
  end.
Proof.
  destruct t as [s u|s u]; simpl; intros Hl.
  - unfold gen_visitIntervalTimeLiteral. rewrite (remove_plain _ Hl). unfold py_time_bound.
    destruct (lit_to_q s); simpl; [destruct u; reflexivity|reflexivity].
  - unfold gen_visitConstantTimeLiteral. rewrite py_in_kmem. unfold kmem, py_getitem. rewrite lookup_assoc.
    destruct (assoc (d_consts st) s) as [v|]; simpl; [|reflexivity]. unfold py_time_bound.
    destruct (lit_to_q v); simpl; [destruct u; reflexivity|reflexivity].
Qed.

Lemma itime_text_unit env t s u : itime_text env t = Some (s, u) -> u = it_unit t.
Proof. destruct t as [s' u'|s' u']; simpl; [|destruct (assoc (consts env) s')]; intros H; inversion H; reflexivity. Qed.

(* ---- visitInterval = Elab.check_interval ---- *)
Lemma gen_interval_spec st i : iv_shape_ok (Some i) = true -> iv_lits_ok (Some i) = true ->
  match check_interval (penv_of du st) i with
  | Some (b, e) => exists I, gen_visitInterval du st i = Ok I /\ iv_b I = b /\ iv_e I = e /\
                             unit_show (i_begin_unit I) = unit_text (it_unit (fst i))
  | None => gen_visitInterval du st i = Rtamt
  end.
Proof.
  destruct i as [a b]. simpl. intros Hs Hl. apply andb_prop in Hs as [Hua Hub]. apply andb_prop in Hl as [Hla Hlb].
  unfold gen_visitInterval, check_interval. cbn [fst snd].
  rewrite (gen_intervalTime_spec st a Hla), (gen_intervalTime_spec st b Hlb).
  destruct (itime_text (penv_of du st) a) as [[sa ua]|] eqn:Ea; [|reflexivity].
  apply itime_text_unit in Ea. subst ua.
  destruct (itime_text (penv_of du st) b) as [[sb ub]|] eqn:Eb.
  2:{ destruct (lit_to_q sa); reflexivity. }
  apply itime_text_unit in Eb. subst ub.
  set (ua := it_unit a) in *. set (ub := it_unit b) in *.
  assert (Hres : exists ra rb, is_unit ra = true /\ is_unit rb = true /\
            (match ua, ub with
             | None, Some e => (e, e) | None, None => (du, du)
             | Some x, None => (x, x) | Some x, Some y => (x, y) end) = (ra, rb) /\
            (if py_truthy (unit_str ua) then unit_str ua else if py_truthy (unit_str ub) then unit_str ub else kw_unit_text du) = kw_unit_text ra /\
            (if py_truthy (unit_str ub) then unit_str ub else kw_unit_text ra) = kw_unit_text rb).
  { rewrite (truthy_unit ua Hua), (truthy_unit ub Hub).
    destruct ua as [x|], ub as [y|]; simpl in Hua, Hub; simpl; eexists; eexists; repeat split; assumption. }
  destruct Hres as (ra & rb & Hra & Hrb & Eres & Ebu & Eeu). rewrite Eres.
  destruct (lit_to_q sa) as [qa|] eqn:Qa; [|reflexivity]. simpl bind.
  destruct (lit_to_q sb) as [qb|] eqn:Qb; [|reflexivity]. simpl bind. cbn [fst snd].
  rewrite Ebu, Eeu.
  unfold py_lt. cbn [n_val py_int]. change (inject_Z 0) with 0%Q. rewrite (lit_to_q_nonneg _ _ Qa). cbn [negb].
  destruct (U_get ra Hra) as (pa & Ga & Va). destruct (U_get rb Hrb) as (pb & Gb & Vb).
  rewrite Ga, Gb. simpl bind. unfold py_gt, py_mul. cbn [n_val]. rewrite Va, Vb.
  destruct (Qle_bool (qa * inject_Z (unit_ns ra)) (qb * inject_Z (unit_ns rb))); cbn [negb]; [|reflexivity].
  eexists. split; [reflexivity|]. unfold iv_b, iv_e, mk_Interval. cbn [i_begin i_end i_begin_unit i_end_unit n_text fst].
  rewrite (show_unit ua Hua), (show_unit ub Hub). repeat split.
Qed.

(* ---- the two-pass hand model (visit, then dump) composes like the one-pass visitor ---- *)
Lemma penv_same st st' : same_env st st' -> penv_of du st' = penv_of du st.
Proof. intros [H1 H2]. unfold penv_of. rewrite H1, H2. reflexivity. Qed.

Lemma visit_dump_total : forall e st st1, lits_ok e = true -> visit orc du st e = Ok st1 -> dump (penv_of du st1) e <> None.
Proof.
  induction e as [s|s|o iv a IH|f a IH|f a IHa b IHb|o iv a IHa b IHb]; intros st st1 Hl Hv; simpl in Hl, Hv.
  - simpl. destruct (assoc _ s); [discriminate|]. destruct (assoc _ s); discriminate.
  - simpl. destruct (lit_to_q s); [discriminate|discriminate].
  - apply andb_prop in Hl as [_ Hl]. destruct (visit orc du st a) as [st2| |] eqn:Va; try discriminate. simpl in Hv.
    destruct iv as [i|]; simpl in Hv.
    + destruct (check_interval (penv_of du st2) i) as [[b e]|] eqn:Ec; [|discriminate]. injection Hv as <-.
      specialize (IH _ _ Hl Va). simpl. rewrite Ec. destruct (dump _ a); [discriminate|congruence].
    + injection Hv as <-. specialize (IH _ _ Hl Va). simpl. destruct (dump _ a); [discriminate|congruence].
  - specialize (IH _ _ Hl Hv). simpl. destruct (dump _ a); [discriminate|congruence].
  - apply andb_prop in Hl as [Hla Hlb]. destruct (visit orc du st a) as [st2| |] eqn:Va; try discriminate. simpl in Hv.
    specialize (IHa _ _ Hla Va). specialize (IHb _ _ Hlb Hv). apply visit_env in Hv. rewrite <- (penv_same _ _ Hv) in IHa.
    simpl. destruct (dump _ a); [|congruence]. destruct (dump _ b); [discriminate|congruence].
  - apply andb_prop in Hl as [Hl Hlb]. apply andb_prop in Hl as [_ Hla].
    destruct (visit orc du st a) as [st2| |] eqn:Va; try discriminate. simpl in Hv.
    destruct (visit orc du st2 b) as [st3| |] eqn:Vb; try discriminate. simpl in Hv.
    specialize (IHa _ _ Hla Va). specialize (IHb _ _ Hlb Vb). apply visit_env in Vb. rewrite <- (penv_same _ _ Vb) in IHa.
    destruct iv as [i|]; simpl in Hv.
    + destruct (check_interval (penv_of du st3) i) as [[bb ee]|] eqn:Ec; [|discriminate]. injection Hv as <-.
      destruct o; simpl; rewrite Ec; destruct (dump _ a); try congruence; destruct (dump _ b); try congruence; discriminate.
    + injection Hv as <-. destruct o; simpl; destruct (dump _ a); try congruence; destruct (dump _ b); try congruence; discriminate.
Qed.

Definition timed1 (st1 : dstate) (l : string) (iv : option interval) (x : string) : outcome (dstate * string) :=
  match iv with
  | None => Ok (st1, d_un l x)
  | Some i => match check_interval (penv_of du st1) i with Some (b, e) => Ok (st1, d_unt l b e x) | None => Rtamt end
  end.

Lemma vd_un o iv a st : lits_ok a = true ->
  visit_dump orc du st (EUn o iv a) = bind (visit_dump orc du st a) (fun r => timed1 (fst r) (un_text o) iv (snd r)).
Proof.
  intros Hl. unfold visit_dump. simpl visit. destruct (visit orc du st a) as [st1| |] eqn:Va; simpl; try reflexivity.
  pose proof (visit_dump_total _ _ _ Hl Va) as Hd. destruct (dump (penv_of du st1) a) as [x|] eqn:Da; [|congruence]. simpl.
  unfold timed1. destruct iv as [i|]; simpl.
  - destruct (check_interval (penv_of du st1) i) as [[b e]|] eqn:Ec; simpl; rewrite ?Ec, ?Da; reflexivity.
  - rewrite Da. reflexivity.
Qed.

Lemma vd_fun1 f a st : lits_ok a = true ->
  visit_dump orc du st (EFun1 f a) = bind (visit_dump orc du st a) (fun r => Ok (fst r, d_un (f1_text f) (snd r))).
Proof.
  intros Hl. unfold visit_dump. simpl visit. destruct (visit orc du st a) as [st1| |] eqn:Va; simpl; try reflexivity.
  pose proof (visit_dump_total _ _ _ Hl Va) as Hd. destruct (dump (penv_of du st1) a) as [x|] eqn:Da; [|congruence]. reflexivity.
Qed.

(* the node of a binary alternative, from the nodes of its operands *)
Definition node2 (st2 : dstate) (o : binop) (iv : option interval) (x y : string) : outcome (dstate * string) :=
  match o, iv with
  | BUnless, None => Ok (st2, d_bin "or" (d_un "always" x) (d_bin "until" x y))
  | BUnless, Some i =>
      match check_interval (penv_of du st2) i with
      | Some (bb, ee) => Ok (st2, d_bin "or" (d_unt "always" ("0 " ++ unit_text (it_unit (fst i))) ee x) (d_bint "until" bb ee x y))
      | None => Rtamt
      end
  | _, None => Ok (st2, d_bin (bin_text o) x y)
  | _, Some i => match check_interval (penv_of du st2) i with Some (bb, ee) => Ok (st2, d_bint (bin_text o) bb ee x y) | None => Rtamt end
  end.

Lemma vd_two st a b (F : dstate -> outcome dstate) (G : penv -> string -> string -> option string) e :
  lits_ok a = true -> lits_ok b = true ->
  (forall st0, visit orc du st0 e = bind (visit orc du st0 a) (fun st1 => bind (visit orc du st1 b) F)) ->
  (forall st2 st3, F st2 = Ok st3 -> st3 = st2) ->
  (forall env, dump env e = match dump env a, dump env b with Some x, Some y => G env x y | _, _ => None end) ->
  visit_dump orc du st e =
  bind (visit_dump orc du st a) (fun r1 => bind (visit_dump orc du (fst r1) b) (fun r2 =>
    bind (F (fst r2)) (fun st3 => match G (penv_of du st3) (snd r1) (snd r2) with Some d => Ok (st3, d) | None => Rtamt end))).
Proof.
  intros Hla Hlb Hv HF Hd. unfold visit_dump. rewrite Hv.
  destruct (visit orc du st a) as [st1| |] eqn:Va; simpl; try reflexivity.
  pose proof (visit_dump_total _ _ _ Hla Va) as Ta. destruct (dump (penv_of du st1) a) as [x|] eqn:Da; [|congruence]. simpl.
  destruct (visit orc du st1 b) as [st2| |] eqn:Vb; simpl; try reflexivity.
  pose proof (visit_dump_total _ _ _ Hlb Vb) as Tb. destruct (dump (penv_of du st2) b) as [y|] eqn:Db; [|congruence]. simpl.
  destruct (F st2) as [st3| |] eqn:EF; simpl; try reflexivity. apply HF in EF. subst st3.
  rewrite Hd, Db. apply visit_env in Vb. rewrite (penv_same _ _ Vb), Da. reflexivity.
Qed.

Lemma vd_fun2 f a b st : lits_ok a = true -> lits_ok b = true ->
  visit_dump orc du st (EFun2 f a b) =
  bind (visit_dump orc du st a) (fun r1 => bind (visit_dump orc du (fst r1) b) (fun r2 => Ok (fst r2, d_bin (f2_text f) (snd r1) (snd r2)))).
Proof.
  intros Hla Hlb.
  rewrite (vd_two st a b (fun s => Ok s) (fun _ x y => Some (d_bin (f2_text f) x y)) (EFun2 f a b) Hla Hlb); try reflexivity.
  - intros st0. simpl. destruct (visit orc du st0 a) as [s1| |]; simpl; try reflexivity. destruct (visit orc du s1 b); reflexivity.
  - intros st2 st3 H. injection H as <-. reflexivity.
Qed.

Lemma vd_bin o iv a b st : lits_ok a = true -> lits_ok b = true ->
  visit_dump orc du st (EBin o iv a b) =
  bind (visit_dump orc du st a) (fun r1 => bind (visit_dump orc du (fst r1) b) (fun r2 => node2 (fst r2) o iv (snd r1) (snd r2))).
Proof.
  intros Hla Hlb.
  rewrite (vd_two st a b (fun s => visit_interval du s iv)
             (fun env x y => match o, iv with
                             | BUnless, None => Some (d_bin "or" (d_un "always" x) (d_bin "until" x y))
                             | BUnless, Some i => match check_interval env i with
                                                  | Some (bb, ee) => Some (d_bin "or" (d_unt "always" ("0 " ++ unit_text (it_unit (fst i))) ee x) (d_bint "until" bb ee x y))
                                                  | None => None end
                             | _, None => Some (d_bin (bin_text o) x y)
                             | _, Some i => match check_interval env i with Some (bb, ee) => Some (d_bint (bin_text o) bb ee x y) | None => None end
                             end) (EBin o iv a b) Hla Hlb).
  - destruct (visit_dump orc du st a) as [[st1 x]| |]; simpl; try reflexivity.
    destruct (visit_dump orc du st1 b) as [[st2 y]| |]; simpl; try reflexivity.
    unfold node2. destruct iv as [i|]; simpl.
    + destruct (check_interval (penv_of du st2) i) as [[bb ee]|] eqn:Ec; simpl; destruct o; rewrite ?Ec; reflexivity.
    + destruct o; reflexivity.
  - reflexivity.
  - intros st2 st3 H. apply visit_interval_env in H. exact H.
  - intros env. destruct o, iv as [i|]; simpl; try destruct (check_interval env i) as [[bb ee]|];
      destruct (dump env a); try reflexivity; destruct (dump env b); try reflexivity; destruct i as [[? ?|? ?] ?]; reflexivity.
Qed.

(* ---- visitExprId ---- *)
Lemma gen_id_refines (gv : bool) st s :
  (if py_in s (d_consts st)
   then bind (py_getitem (d_consts st) s) (fun x1_ => Ok (st, mk_Constant (py_float x1_)))
   else if py_in s (d_subs st)
        then bind (py_getitem (d_subs st) s) (fun x2_ => Ok (st, x2_))
        else bind (py_resolve_var orc st s) (fun r_ => Ok (fst r_, snd r_))) = visit_dump orc du st (EId s).
Proof.
  rewrite !py_in_kmem. unfold visit_dump, py_getitem, kmem. cbn [visit]. unfold visit_id, kmem. rewrite !lookup_assoc.
  destruct (assoc (d_consts st) s) as [v|] eqn:Ec; simpl; [rewrite Ec; reflexivity|].
  destruct (assoc (d_subs st) s) as [d|] eqn:Es; simpl; [rewrite Ec, Es; reflexivity|].
  unfold py_resolve_var. destruct (head_tail s) as [h t].
  destruct (assoc (d_types st) h) as [ty|].
  - destruct (create_var orc st ty) as [i| |]; simpl; try reflexivity.
    destruct (check_use i t) as [u| |]; simpl; try reflexivity. rewrite Ec, Es. reflexivity.
  - destruct (String.eqb t ""); simpl; [|reflexivity].
    unfold penv_of. cbn [dump consts subspecs]. rewrite ?Ec, ?Es. reflexivity.
Qed.

Ltac iv_step st1 i Hs Hl :=
  let HI := fresh "HI" in let HU := fresh "HU" in let I := fresh "I" in
  pose proof (gen_interval_spec st1 i Hs Hl) as HI; unfold timed1, node2; simpl;
  destruct (check_interval (penv_of du st1) i) as [[? ?]|];
  [destruct HI as (I & -> & <- & <- & HU)|rewrite HI]; simpl; try reflexivity.

(* ---- the generated STL visitor = the hand model ---- *)
Theorem gen_visit_stl_refines : forall e st, shape_ok true e = true -> lits_ok e = true ->
  gen_visit_stl orc du st e = visit_dump orc du st e.
Proof.
  induction e as [s|s|o iv a IH|f a IH|f a IHa b IHb|o iv a IHa b IHb]; intros st Hs Hl; simpl in Hs, Hl.
  - simpl. rewrite <- (gen_id_refines true). reflexivity.
  - simpl. unfold py_visitExprLiteral, visit_dump. simpl. destruct (lit_to_q s); [reflexivity|discriminate].
  - apply andb_prop in Hs as [Hsi Hsa]. apply andb_prop in Hl as [Hli Hla]. rewrite (vd_un o iv a st Hla).
    destruct o; simpl in Hsi; try (destruct iv as [i|]; [discriminate|]);
      simpl; rewrite (IH st Hsa Hla); destruct (visit_dump orc du st a) as [[st1 x]| |]; simpl; try reflexivity;
      (destruct iv as [i|]; [iv_step st1 i Hsi Hli|reflexivity]).
  - rewrite (vd_fun1 f a st Hl). destruct f; simpl; rewrite (IH st Hs Hl); destruct (visit_dump orc du st a) as [[st1 x]| |]; reflexivity.
  - apply andb_prop in Hs as [Hsa Hsb]. apply andb_prop in Hl as [Hla Hlb]. rewrite (vd_fun2 f a b st Hla Hlb).
    destruct f; simpl; rewrite (IHa st Hsa Hla); destruct (visit_dump orc du st a) as [[st1 x]| |]; simpl; try reflexivity;
      rewrite (IHb st1 Hsb Hlb); destruct (visit_dump orc du st1 b) as [[st2 y]| |]; reflexivity.
  - apply andb_prop in Hs as [Hs Hsb]. apply andb_prop in Hs as [Hsi Hsa].
    apply andb_prop in Hl as [Hl Hlb]. apply andb_prop in Hl as [Hli Hla]. rewrite (vd_bin o iv a b st Hla Hlb).
    destruct o as [| | | |c| | | | | | | |]; simpl in Hsi; try (destruct iv as [i|]; [discriminate|]);
      simpl; rewrite (IHa st Hsa Hla); destruct (visit_dump orc du st a) as [[st1 x]| |]; simpl; try reflexivity;
      rewrite (IHb st1 Hsb Hlb); destruct (visit_dump orc du st1 b) as [[st2 y]| |]; simpl; try reflexivity;
      try (destruct c; reflexivity);
      (destruct iv as [i|]; [iv_step st2 i Hsi Hli|reflexivity]).
    (* timed unless: Interval(0, interval.end, interval.begin_unit, interval.end_unit) *)
    unfold mk_Disjunction, mk_TimedAlways, mk_TimedUntil, iv_b, iv_e, mk_Interval. cbn [i_begin i_end i_begin_unit i_end_unit].
    rewrite HU. reflexivity.
Qed.

(* ---- the generated LTL visitor (no intervals anywhere) ---- *)
Theorem gen_visit_ltl_refines : forall e st, shape_ok false e = true -> lits_ok e = true ->
  gen_visit_ltl orc st e = visit_dump orc du st e.
Proof.
  induction e as [s|s|o iv a IH|f a IH|f a IHa b IHb|o iv a IHa b IHb]; intros st Hs Hl; simpl in Hs, Hl.
  - simpl. rewrite <- (gen_id_refines true). reflexivity.
  - simpl. unfold py_visitExprLiteral, visit_dump. simpl. destruct (lit_to_q s); [reflexivity|discriminate].
  - apply andb_prop in Hs as [Hsi Hsa]. apply andb_prop in Hl as [Hli Hla]. rewrite (vd_un o iv a st Hla).
    destruct iv as [i|]; [discriminate|].
    destruct o; simpl; rewrite (IH st Hsa Hla); destruct (visit_dump orc du st a) as [[st1 x]| |]; reflexivity.
  - rewrite (vd_fun1 f a st Hl). destruct f; simpl; rewrite (IH st Hs Hl); destruct (visit_dump orc du st a) as [[st1 x]| |]; reflexivity.
  - apply andb_prop in Hs as [Hsa Hsb]. apply andb_prop in Hl as [Hla Hlb]. rewrite (vd_fun2 f a b st Hla Hlb).
    destruct f; simpl; rewrite (IHa st Hsa Hla); destruct (visit_dump orc du st a) as [[st1 x]| |]; simpl; try reflexivity;
      rewrite (IHb st1 Hsb Hlb); destruct (visit_dump orc du st1 b) as [[st2 y]| |]; reflexivity.
  - apply andb_prop in Hs as [Hs Hsb]. apply andb_prop in Hs as [Hsi Hsa].
    apply andb_prop in Hl as [Hl Hlb]. apply andb_prop in Hl as [Hli Hla]. rewrite (vd_bin o iv a b st Hla Hlb).
    destruct iv as [i|]; [discriminate|].
    destruct o as [| | | |c| | | | | | | |];
      simpl; rewrite (IHa st Hsa Hla); destruct (visit_dump orc du st a) as [[st1 x]| |]; simpl; try reflexivity;
      rewrite (IHb st1 Hsb Hlb); destruct (visit_dump orc du st1 b) as [[st2 y]| |]; simpl; try reflexivity;
      try (destruct c; reflexivity).
Qed.

End Correct.

(* the sugar, as the generated visitExprUnless builds it: from the nodes x, y of the operands,
   (or (always x) (until x y))   /   (or (always_t 0 u_b end x) (until_t begin end x y))   with the bounds check_interval accepts *)
Theorem gen_unless_refines orc du (Hdu : is_unit du = true) iv a b st :
  shape_ok true (EBin BUnless iv a b) = true -> lits_ok (EBin BUnless iv a b) = true ->
  gen_visit_stl orc du st (EBin BUnless iv a b) =
  bind (visit_dump orc du st a) (fun r1 => bind (visit_dump orc du (fst r1) b) (fun r2 =>
    match iv with
    | None => Ok (fst r2, d_bin "or" (d_un "always" (snd r1)) (d_bin "until" (snd r1) (snd r2)))
    | Some i =>
        match check_interval (penv_of du (fst r2)) i with
        | Some (bb, ee) => Ok (fst r2, d_bin "or" (d_unt "always" ("0 " ++ unit_text (it_unit (fst i))) ee (snd r1)) (d_bint "until" bb ee (snd r1) (snd r2)))
        | None => Rtamt
        end
    end)).
Proof.
  intros Hs Hl. rewrite (gen_visit_stl_refines orc du Hdu _ st Hs Hl). simpl in Hl.
  apply andb_prop in Hl as [Hl Hlb]. apply andb_prop in Hl as [_ Hla]. rewrite (vd_bin orc du BUnless iv a b st Hla Hlb).
  unfold node2. destruct iv; reflexivity.
Qed.

(* what the model parser returns is a context the grammar can produce *)
Lemma derives_shape_ok stl e ts : Derives stl e ts -> shape_ok stl e = true.
Proof.
  assert (Hit : forall t u, ItDerives t u -> unit_ok (it_unit t) = true) by (intros t u H; destruct H; simpl; auto).
  assert (Hiv : forall ok iv u, IvDerives stl ok iv u -> (if ok then iv_shape_ok iv else no_iv iv) = true /\ (stl = false -> no_iv iv = true)).
  { intros ok iv u H. destruct H as [ok|x y u1 sep u2 Hstl H1 H2 _].
    - split; [destruct ok; reflexivity|reflexivity].
    - split; [simpl; rewrite (Hit _ _ H1), (Hit _ _ H2); reflexivity|intros E; congruence]. }
  induction 1 as [s|s|s|e ts _ IH|t fn e ts _ _ IH|t fn e1 ts1 e2 ts2 _ _ IH1 _ IH2|t o lvl ivok iv ivts e ts Ho Hi _ IH|t o lvl rl ivok iv ivts e1 ts1 e2 ts2 Ho Hi _ IH1 _ IH2];
    simpl; try reflexivity; try assumption.
  - rewrite IH1, IH2. reflexivity.
  - rewrite IH, andb_true_r. destruct (Hiv _ _ _ Hi) as [H1 H2].
    assert (ivok = un_timed o) by (destruct t as [k|s0|s0|s0|s0]; try discriminate; [destruct k|destruct s0]; try discriminate; simpl in Ho; inversion Ho; reflexivity).
    subst ivok. destruct stl; simpl; [exact H1|]. destruct (un_timed o); auto.
  - rewrite IH1, IH2, !andb_true_r. destruct (Hiv _ _ _ Hi) as [H1 H2].
    assert (ivok = bin_timed o) by (destruct t as [k|s0|s0|s0|s0]; try discriminate; [destruct k|destruct s0]; try discriminate; simpl in Ho; inversion Ho; reflexivity).
    subst ivok. destruct stl; simpl; [exact H1|]. destruct (bin_timed o); auto.
Qed.
