(* ParserDeclCorrect.v — the grammar of the WHOLE rule 'specification' as a derivation relation, soundness of
   ParserDecl.parse_file w.r.t. it (exactly the token list: no trailing garbage), constants are declared before
   they are used, and the outcome classes of the elaboration (never 'another exception' under a benign oracle). *)
From Coq Require Import List Bool Arith Ascii String Lia.
From RV Require Import Lexer PrecTable Parser Elab Offline ParserCorrect ParserTables ParserDecl.
Import ListNotations.

(* ================================================================== *)
(*  1. The grammar                                                     *)
(* ================================================================== *)
Section Grammar.
Variable stl : bool.

(* domainType *)
Inductive DtypeDerives : dtype -> token -> Prop :=
| DtFloat : DtypeDerives DFloat (TKw KFloat)
| DtInt : DtypeDerives DInt (TKw KInt)
| DtLong : DtypeDerives DLong (TKw KLong)
| DtComplex : DtypeDerives DComplex (TKw KComplex)
| DtName s : DtypeDerives (DName s) (TId s).

(* ioType? *)
Inductive IoDerives : option bool -> list token -> Prop :=
| IoNone : IoDerives None []
| IoIn : IoDerives (Some true) [TKw KInput]
| IoOut : IoDerives (Some false) [TKw KOutput].

(* literal : IntegerLiteral | RealLiteral *)
Inductive LitDerives : string -> token -> Prop :=
| LInt s : LitDerives s (TInt s)
| LReal s : LitDerives s (TReal s).

(* declaration | annotation *)
Inductive ItemDerives : item -> list token -> Prop :=
| DVar io ty n iots tyt : IoDerives io iots -> DtypeDerives ty tyt ->
    ItemDerives (IVar io ty n None) (iots ++ [tyt; TId n])
| DVarLit io ty n iots tyt l lt : IoDerives io iots -> DtypeDerives ty tyt -> LitDerives l lt ->
    ItemDerives (IVar io ty n (Some (VLit l))) (iots ++ [tyt; TId n; TSym SEq; lt])
| DVarExpr io ty n iots tyt e body : IoDerives io iots -> DtypeDerives ty tyt -> Derives stl e body ->
    ItemDerives (IVar io ty n (Some (VExpr e))) (iots ++ tyt :: TId n :: TSym SEq :: body)
| DConst ty n tyt l lt : DtypeDerives ty tyt -> LitDerives l lt ->
    ItemDerives (IConst ty n l) [TKw KConst; tyt; TId n; TSym SEq; lt]
| DTopic v t :
    ItemDerives (ITopic v t) [TSym SAt; TKw KTopic; TSym SLParen; TId v; TSym SComma; TId t; TSym SRParen].

(* assertion : (Identifier EQUAL)? expression SEMICOLON *)
Inductive AssertDerives : assertion -> list token -> Prop :=
| DAnon e body : Derives stl e body -> AssertDerives (None, e) (body ++ [TSym SSemi])
| DNamed n e body : Derives stl e body -> AssertDerives (Some n, e) (TId n :: TSym SEq :: body ++ [TSym SSemi]).

(* modimport : From Identifier Import Identifier *)
Inductive ImportDerives : string * string -> list token -> Prop :=
| DImport m n : ImportDerives (m, n) [TKw KFrom; TId m; TKw KImport; TId n].

(* ( spec )? *)
Inductive HeaderDerives : option string -> list token -> Prop :=
| HNone : HeaderDerives None []
| HSome n : HeaderDerives (Some n) [TKw KSpecification; TId n].

(* X* : the concatenation of the derivations of the elements *)
Inductive SeqDerives {A : Type} (D : A -> list token -> Prop) : list A -> list token -> Prop :=
| SNil : SeqDerives D [] []
| SCons a l u v : D a u -> SeqDerives D l v -> SeqDerives D (a :: l) (u ++ v).

(* specification_file : ( spec )? ( modimport )* ( declaration | annotation )* ( assertion )+ EOF *)
Inductive FileDerives : file -> list token -> Prop :=
| FDer nm imps its A h i b a :
    HeaderDerives nm h -> SeqDerives ImportDerives imps i -> SeqDerives ItemDerives its b ->
    SeqDerives AssertDerives A a -> A <> [] ->
    FileDerives {| f_name := nm; f_imports := imps; f_items := its; f_asserts := A |} (h ++ i ++ b ++ a).

(* ================================================================== *)
(*  2. Soundness of the parser                                         *)
(* ================================================================== *)

Lemma parse_dtype_sound ts ty r : parse_dtype ts = Some (ty, r) -> exists t, ts = t :: r /\ DtypeDerives ty t.
Proof.
  unfold parse_dtype. destruct ts as [|t ts']; [discriminate|].
  destruct t as [k|s|s|s|s]; try discriminate.
  - destruct k; try discriminate; intros H; injection H as <- <-; eexists; split; try reflexivity; constructor.
  - intros H; injection H as <- <-. eexists; split; [reflexivity|constructor].
Qed.

Lemma parse_typed_name_sound io0 ts io ty n r : parse_typed_name io0 ts = Some (io, ty, n, r) ->
  io = io0 /\ exists tyt, ts = tyt :: TId n :: r /\ DtypeDerives ty tyt.
Proof.
  unfold parse_typed_name. destruct (parse_dtype ts) as [[ty0 r0]|] eqn:E; [|discriminate].
  destruct r0 as [|t r0]; [discriminate|]. destruct t; try discriminate.
  intros H; injection H as <- <- <- <-. split; [reflexivity|].
  destruct (parse_dtype_sound _ _ _ E) as (tyt & -> & D). exists tyt. split; [reflexivity|exact D].
Qed.

Lemma parse_varhead_sound ts io ty n r : parse_varhead ts = Some (io, ty, n, r) ->
  exists iots tyt, ts = iots ++ tyt :: TId n :: r /\ IoDerives io iots /\ DtypeDerives ty tyt.
Proof.
  unfold parse_varhead.
  assert (Hdef : parse_typed_name None ts = Some (io, ty, n, r) ->
                 exists iots tyt, ts = iots ++ tyt :: TId n :: r /\ IoDerives io iots /\ DtypeDerives ty tyt).
  { intros H. destruct (parse_typed_name_sound _ _ _ _ _ _ H) as (-> & tyt & -> & D).
    exists [], tyt. repeat split; [constructor|exact D]. }
  destruct ts as [|t ts']; [exact Hdef|]. destruct t as [k|s|s|s|s]; try exact Hdef.
  destruct k; try exact Hdef; intros H; destruct (parse_typed_name_sound _ _ _ _ _ _ H) as (-> & tyt & -> & D).
  - exists [TKw KInput], tyt. repeat split; [constructor|exact D].
  - exists [TKw KOutput], tyt. repeat split; [constructor|exact D].
Qed.

Lemma parse_topic_sound r it r' : parse_topic r = Some (it, r') ->
  exists used, TSym SAt :: r = used ++ r' /\ ItemDerives it used.
Proof.
  unfold parse_topic.
  destruct r as [|t1 r]; [discriminate|]. destruct t1 as [k1| | | |]; try discriminate. destruct k1; try discriminate.
  destruct r as [|t2 r]; [discriminate|]. destruct t2 as [|s2| | |]; try discriminate. destruct s2; try discriminate.
  destruct r as [|t3 r]; [discriminate|]. destruct t3 as [| |v| |]; try discriminate.
  destruct r as [|t4 r]; [discriminate|]. destruct t4 as [|s4| | |]; try discriminate. destruct s4; try discriminate.
  destruct r as [|t5 r]; [discriminate|]. destruct t5 as [| |t| |]; try discriminate.
  destruct r as [|t6 r]; [discriminate|]. destruct t6 as [|s6| | |]; try discriminate. destruct s6; try discriminate.
  intros H; injection H as <- <-.
  exists [TSym SAt; TKw KTopic; TSym SLParen; TId v; TSym SComma; TId t; TSym SRParen]. split; [reflexivity|constructor].
Qed.

Lemma parse_const_sound r it r' : parse_const r = Some (it, r') ->
  exists used, TKw KConst :: r = used ++ r' /\ ItemDerives it used.
Proof.
  unfold parse_const. destruct (parse_dtype r) as [[ty r0]|] eqn:E; [|discriminate].
  destruct (parse_dtype_sound _ _ _ E) as (tyt & -> & D).
  destruct r0 as [|t1 r0]; [discriminate|]. destruct t1 as [| |n| |]; try discriminate.
  destruct r0 as [|t2 r0]; [discriminate|]. destruct t2 as [|s2| | |]; try discriminate. destruct s2; try discriminate.
  destruct r0 as [|t3 r0]; [discriminate|].
  destruct t3 as [| | |l|l]; try discriminate; intros H; injection H as <- <-.
  - exists [TKw KConst; tyt; TId n; TSym SEq; TInt l]. split; [reflexivity|constructor; [exact D|constructor]].
  - exists [TKw KConst; tyt; TId n; TSym SEq; TReal l]. split; [reflexivity|constructor; [exact D|constructor]].
Qed.

(* every candidate initialiser is a literal or a derivable expression, and says which tokens it consumed *)
Lemma init_cands_sound ts vi r : In (vi, r) (init_cands stl ts) ->
  (exists l lt, vi = VLit l /\ ts = lt :: r /\ LitDerives l lt) \/
  (exists e body, vi = VExpr e /\ ts = body ++ r /\ Derives stl e body).
Proof.
  unfold init_cands. rewrite !in_app_iff. intros [H|[H|H]].
  - left. destruct ts as [|t ts']; [destruct H|].
    destruct t as [| | |l|l]; try (destruct H; fail);
      (destruct H as [H|[]]; injection H as <- <-; eexists _, _; repeat split; constructor).
  - right. destruct (parse_expr stl (S (List.length ts)) 0 ts) as [[e r0]|] eqn:E; [|destruct H].
    destruct H as [H|[]]. injection H as <- <-.
    destruct (parse_expr_sound stl _ _ _ _ _ E) as (u & Hu & Du). exists e, u. repeat split; assumption.
  - right. apply in_flat_map in H. destruct H as (i & _ & H). unfold cut_at in H.
    destruct (parse_expr stl (S (List.length ts)) 0 (firstn i ts)) as [[e r0]|] eqn:E; [|destruct H].
    destruct r0; [|destruct H]. destruct H as [H|[]]. injection H as <- <-.
    destruct (parse_expr_sound stl _ _ _ _ _ E) as (u & Hu & Du). rewrite app_nil_r in Hu.
    exists e, (firstn i ts). repeat split; [symmetry; apply firstn_skipn|rewrite Hu; exact Du].
Qed.

(* assertions, with the name tied to the identifier in front of '=' *)
Lemma parse_assertion_derives ts a r : parse_assertion stl ts = Some (a, r) ->
  exists used, ts = used ++ r /\ AssertDerives a used.
Proof.
  unfold parse_assertion.
  assert (Hplain : forall ts0, match parse_expr stl (S (List.length ts)) 0 ts0 with
                      | Some (e, TSym SSemi :: r') => Some ((@None string, e), r')
                      | _ => None end = Some (a, r) ->
          exists used, ts0 = used ++ r /\ AssertDerives a used).
  { intros ts0 H. destruct (parse_expr stl (S (List.length ts)) 0 ts0) as [[e r0]|] eqn:E; [|discriminate].
    destruct r0 as [|c r0]; [discriminate|]. destruct c; try discriminate. destruct s; try discriminate.
    injection H as <- <-. destruct (parse_expr_sound stl _ _ _ _ _ E) as (u & Hu & Du).
    exists (u ++ [TSym SSemi]). split; [rewrite Hu, <- app_assoc; reflexivity|constructor; exact Du]. }
  assert (Hnamed : forall nm ts0, match parse_expr stl (S (List.length ts)) 0 ts0 with
                      | Some (e, TSym SSemi :: r') => Some ((Some nm, e), r')
                      | _ => None end = Some (a, r) ->
          exists used, TId nm :: TSym SEq :: ts0 = used ++ r /\ AssertDerives a used).
  { intros nm ts0 H. destruct (parse_expr stl (S (List.length ts)) 0 ts0) as [[e r0]|] eqn:E; [|discriminate].
    destruct r0 as [|c r0]; [discriminate|]. destruct c; try discriminate. destruct s; try discriminate.
    injection H as <- <-. destruct (parse_expr_sound stl _ _ _ _ _ E) as (u & Hu & Du).
    exists (TId nm :: TSym SEq :: u ++ [TSym SSemi]). split; [cbn [app]; rewrite Hu, <- app_assoc; reflexivity|constructor; exact Du]. }
  destruct ts as [|t1 ts1]; [apply Hplain|].
  destruct t1 as [k|sy|nm|i|rl]; try apply Hplain.
  destruct ts1 as [|t2 ts2]; [apply Hplain|].
  destruct t2 as [k2|sy2|nm2|i2|rl2]; try apply Hplain.
  destruct sy2; try apply Hplain. apply Hnamed.
Qed.

Lemma parse_asserts_sound : forall fuel ts A, parse_asserts stl fuel ts = Some A ->
  SeqDerives AssertDerives A ts /\ A <> [].
Proof.
  induction fuel as [|f IH]; intros ts A H; [discriminate H|].
  cbn [parse_asserts] in H.
  destruct (parse_assertion stl ts) as [[a r]|] eqn:E; [|discriminate H].
  destruct (ambiguous_minus stl _); [discriminate H|].
  destruct (parse_assertion_derives _ _ _ E) as (u & Hu & Du).
  destruct r as [|t r'].
  - injection H as <-. split; [|discriminate]. rewrite Hu. apply SCons; [exact Du|constructor].
  - destruct (parse_asserts stl f (t :: r')) as [A'|] eqn:E'; [|discriminate H].
    injection H as <-. destruct (IH _ _ E') as (D' & _). split; [|discriminate].
    rewrite Hu. apply SCons; assumption.
Qed.

Lemma in_with_item it l its ats : In (its, ats) (with_item it l) ->
  exists its', its = it :: its' /\ In (its', ats) l.
Proof.
  unfold with_item. intros H. apply in_map_iff in H. destruct H as ([its' ats'] & Heq & Hin).
  cbn [fst snd] in Heq. injection Heq as <- <-. exists its'. split; [reflexivity|exact Hin].
Qed.

(* every derivation the body parser lists is one: the items derive the tokens in front of the assertions *)
Lemma parse_body_sound : forall fuel ts its ats, In (its, ats) (parse_body stl fuel ts) ->
  exists b, ts = b ++ ats /\ SeqDerives ItemDerives its b.
Proof.
  induction fuel as [|f IH]; intros ts its ats H; [destruct H|].
  cbn [parse_body] in H.
  assert (Hdef : In (its, ats)
      (match parse_varhead ts with
       | Some (io, ty, n, r) =>
           match r with
           | TSym SEq :: r1 => flat_map (fun c => with_item (IVar io ty n (Some (fst c))) (parse_body stl f (snd c))) (init_cands stl r1)
           | _ => with_item (IVar io ty n None) (parse_body stl f r)
           end
       | None => match parse_spec stl ts with Some _ => [([], ts)] | None => [] end
       end) -> exists b, ts = b ++ ats /\ SeqDerives ItemDerives its b).
  { clear H. destruct (parse_varhead ts) as [[[[io ty] n] r]|] eqn:EH.
    - destruct (parse_varhead_sound _ _ _ _ _ EH) as (iots & tyt & Hts & Dio & Dty).
      assert (Hnoinit : In (its, ats) (with_item (IVar io ty n None) (parse_body stl f r)) ->
                        exists b, ts = b ++ ats /\ SeqDerives ItemDerives its b).
      { intros H. destruct (in_with_item _ _ _ _ H) as (its' & -> & Hin).
        destruct (IH _ _ _ Hin) as (b & Hb & Db).
        exists ((iots ++ [tyt; TId n]) ++ b). split.
        - rewrite Hts, Hb, <- !app_assoc. reflexivity.
        - apply SCons; [constructor; assumption|exact Db]. }
      destruct r as [|t r1]; [exact Hnoinit|]. destruct t as [|sy| | |]; try exact Hnoinit.
      destruct sy; try exact Hnoinit.
      intros H. apply in_flat_map in H. destruct H as ([vi r2] & Hc & H). cbn [fst snd] in H.
      destruct (in_with_item _ _ _ _ H) as (its' & -> & Hin).
      destruct (IH _ _ _ Hin) as (b & Hb & Db).
      destruct (init_cands_sound _ _ _ Hc) as [(l & lt & -> & Hr1 & Dl)|(e & body & -> & Hr1 & De)].
      + exists ((iots ++ [tyt; TId n; TSym SEq; lt]) ++ b). split.
        * rewrite Hts, Hr1, Hb, <- !app_assoc. reflexivity.
        * apply SCons; [constructor; assumption|exact Db].
      + exists ((iots ++ tyt :: TId n :: TSym SEq :: body) ++ b). split.
        * rewrite Hts, Hr1, Hb, <- !app_assoc. cbn [app]. rewrite <- ?app_assoc. reflexivity.
        * apply SCons; [constructor; assumption|exact Db].
    - destruct (parse_spec stl ts); intros H; [|destruct H].
      destruct H as [H|[]]. injection H as <- <-. exists []. split; [reflexivity|constructor]. }
  destruct ts as [|t ts']; [exact (Hdef H)|].
  destruct t as [k|sy|s|s|s]; try exact (Hdef H).
  - destruct k; try exact (Hdef H).
    destruct (parse_const ts') as [[it r']|] eqn:EC; [|destruct H].
    destruct (in_with_item _ _ _ _ H) as (its' & -> & Hin).
    destruct (IH _ _ _ Hin) as (b & Hb & Db).
    destruct (parse_const_sound _ _ _ EC) as (u & Hu & Du).
    exists (u ++ b). split; [rewrite Hu, Hb, app_assoc; reflexivity|apply SCons; assumption].
  - destruct sy; try exact (Hdef H).
    destruct (parse_topic ts') as [[it r']|] eqn:ET; [|destruct H].
    destruct (in_with_item _ _ _ _ H) as (its' & -> & Hin).
    destruct (IH _ _ _ Hin) as (b & Hb & Db).
    destruct (parse_topic_sound _ _ _ ET) as (u & Hu & Du).
    exists (u ++ b). split; [rewrite Hu, Hb, app_assoc; reflexivity|apply SCons; assumption].
Qed.

Lemma parse_header_sound ts nm r : parse_header ts = Some (nm, r) -> exists h, ts = h ++ r /\ HeaderDerives nm h.
Proof.
  unfold parse_header.
  assert (Hdef : Some (@None string, ts) = Some (nm, r) -> exists h, ts = h ++ r /\ HeaderDerives nm h).
  { intros H; injection H as <- <-. exists []. split; [reflexivity|constructor]. }
  destruct ts as [|t ts']; [exact Hdef|]. destruct t as [k| | | |]; try exact Hdef.
  destruct k; try exact Hdef.
  destruct ts' as [|t2 ts'']; [discriminate|]. destruct t2 as [| |n| |]; try discriminate.
  intros H; injection H as <- <-. exists [TKw KSpecification; TId n]. split; [reflexivity|constructor].
Qed.

Lemma parse_imports_sound : forall n ts, List.length ts <= n -> forall imps r, parse_imports ts = Some (imps, r) ->
  exists i, ts = i ++ r /\ SeqDerives ImportDerives imps i.
Proof.
  induction n as [|n IH]; intros ts Hlen imps r.
  - destruct ts; [|cbn [List.length] in Hlen; lia]. cbn [parse_imports]. intros H; injection H as <- <-.
    exists []. split; [reflexivity|constructor].
  - assert (Hdef : Some (@nil (string * string), ts) = Some (imps, r) -> exists i, ts = i ++ r /\ SeqDerives ImportDerives imps i).
    { intros H; injection H as <- <-. exists []. split; [reflexivity|constructor]. }
    destruct ts as [|t ts']; [exact Hdef|]. cbn [parse_imports].
    destruct t as [k| | | |]; try exact Hdef. destruct k; try exact Hdef.
    destruct ts' as [|t1 ts1]; [discriminate|]. destruct t1 as [| |m| |]; try discriminate.
    destruct ts1 as [|t2 ts2]; [discriminate|]. destruct t2 as [k2| | | |]; try discriminate. destruct k2; try discriminate.
    destruct ts2 as [|t3 ts3]; [discriminate|]. destruct t3 as [| |nm| |]; try discriminate.
    destruct (parse_imports ts3) as [[l r'']|] eqn:E; [|discriminate].
    intros H; injection H as <- <-.
    assert (Hl : List.length ts3 <= n) by (cbn [List.length] in Hlen; lia).
    destruct (IH _ Hl _ _ E) as (i & Hi & Di).
    exists ([TKw KFrom; TId m; TKw KImport; TId nm] ++ i). split; [rewrite Hi; reflexivity|].
    apply SCons; [constructor|exact Di].
Qed.

(* Step 3 (a): everything parse_file accepts is derivable from the rule 'specification', and the derivation
   spells EXACTLY the token list: header, imports, items and assertions consume every token *)
Theorem parse_file_sound ts f : parse_file stl ts = Some f -> FileDerives f ts.
Proof.
  unfold parse_file.
  destruct (parse_header ts) as [[nm r0]|] eqn:EH; [|discriminate].
  destruct (parse_imports r0) as [[imps r1]|] eqn:EI; [|discriminate].
  destruct (parse_body stl (S (List.length r1)) r1) as [|[its ats] [|]] eqn:EB; try discriminate.
  destruct (parse_asserts stl (S (List.length ats)) ats) as [A|] eqn:EA; [|discriminate].
  intros H; injection H as <-.
  destruct (parse_header_sound _ _ _ EH) as (h & -> & Dh).
  destruct (parse_imports_sound _ _ (le_n _) _ _ EI) as (i & -> & Di).
  assert (Hin : In (its, ats) (parse_body stl (S (List.length r1)) r1)) by (rewrite EB; left; reflexivity).
  destruct (parse_body_sound _ _ _ _ Hin) as (b & -> & Db).
  destruct (parse_asserts_sound _ _ _ EA) as (Da & Hne).
  constructor; assumption.
Qed.

(* the derivation covers the whole input: the four parts concatenate to it, nothing is left over *)
Corollary parse_file_no_trailing ts f : parse_file stl ts = Some f ->
  exists h i b a, ts = h ++ i ++ b ++ a /\ HeaderDerives (f_name f) h /\ SeqDerives ImportDerives (f_imports f) i /\
    SeqDerives ItemDerives (f_items f) b /\ SeqDerives AssertDerives (f_asserts f) a /\ f_asserts f <> [].
Proof.
  intros H. destruct (parse_file_sound _ _ H). exists h, i, b, a. cbn [f_name f_imports f_items f_asserts]. repeat split; assumption.
Qed.

(* on a text without header, imports and items the new parser accepts only what the existing Parser.parse_spec accepts,
   with the same ASTs (it is stricter: it also models the 'Ambiguity ERROR' of the listener on captured '-') *)
Lemma parse_asserts_refines : forall fuel ts A, parse_asserts stl fuel ts = Some A -> parse_assertions stl fuel ts = Some A.
Proof.
  induction fuel as [|f IH]; intros ts A H; [discriminate H|].
  cbn [parse_asserts] in H. cbn [parse_assertions].
  destruct (parse_assertion stl ts) as [[a r]|]; [|discriminate H].
  destruct (ambiguous_minus stl _); [discriminate H|].
  destruct r as [|t r']; [exact H|].
  destruct (parse_asserts stl f (t :: r')) as [A'|] eqn:E; [|discriminate H].
  rewrite (IH _ _ E). exact H.
Qed.

Theorem parse_file_refines_parse_spec ts f : parse_file stl ts = Some f ->
  f_name f = None -> f_imports f = [] -> f_items f = [] -> parse_spec stl ts = Some (f_asserts f).
Proof.
  intros H Hn Hi Hb. pose proof (parse_file_sound _ _ H) as D. revert H. unfold parse_file.
  destruct (parse_header ts) as [[nm r0]|] eqn:EH; [|discriminate].
  destruct (parse_imports r0) as [[imps r1]|] eqn:EI; [|discriminate].
  destruct (parse_body stl (S (List.length r1)) r1) as [|[its ats] [|]] eqn:EB; try discriminate.
  destruct (parse_asserts stl (S (List.length ats)) ats) as [A|] eqn:EA; [|discriminate].
  intros H; injection H as <-. cbn [f_name f_imports f_items f_asserts] in *. subst nm imps its.
  destruct (parse_header_sound _ _ _ EH) as (h & -> & Dh). inversion Dh; subst.
  destruct (parse_imports_sound _ _ (le_n _) _ _ EI) as (i & -> & Di). inversion Di; subst.
  assert (Hin : In ([], ats) (parse_body stl (S (List.length r1)) r1)) by (rewrite EB; left; reflexivity).
  destruct (parse_body_sound _ _ _ _ Hin) as (b & -> & Db). inversion Db; subst.
  cbn [app]. unfold parse_spec. apply parse_asserts_refines. exact EA.
Qed.

End Grammar.

(* ================================================================== *)
(*  3. Constants are declared before they are used                     *)
(* ================================================================== *)

(* the names a text declares as constants *)
Fixpoint const_decls (its : list item) : list string :=
  match its with
  | [] => []
  | IConst _ n _ :: r => n :: const_decls r
  | _ :: r => const_decls r
  end.

(* the identifiers used as interval bounds *)
Definition itime_ids (t : itime) : list string := match t with IId s _ => [s] | ILit _ _ => [] end.
Definition bound_ids (e : sexpr) : list string :=
  flat_map (fun iv : interval => itime_ids (fst iv) ++ itime_ids (snd iv)) (intervals e).

Lemma assoc_upd : forall l k v x, assoc (upd l k v) x = if String.eqb k x then Some v else assoc l x.
Proof.
  induction l as [|[k' v'] r IH]; intros k v x; cbn [upd assoc]; [reflexivity|].
  destruct (String.eqb k' k) eqn:Ek.
  - apply String.eqb_eq in Ek. subst k'. cbn [assoc]. destruct (String.eqb k x); reflexivity.
  - cbn [assoc]. rewrite IH. destruct (String.eqb k' x) eqn:Ex; [|reflexivity].
    apply String.eqb_eq in Ex. subst x. rewrite String.eqb_sym, Ek. reflexivity.
Qed.

Lemma bind_ok {A B : Type} (x : outcome A) (f : A -> outcome B) b :
  bind x f = Ok b -> exists a, x = Ok a /\ f a = Ok b.
Proof. destruct x; cbn [bind]; try discriminate. intros H. eexists; split; [reflexivity|exact H]. Qed.

Lemma bind_crash {A B : Type} (x : outcome A) (f : A -> outcome B) :
  bind x f = Crash -> x = Crash \/ exists a, x = Ok a /\ f a = Crash.
Proof. destruct x; cbn [bind]; try discriminate; [|left; reflexivity]. intros H. right. eexists; split; [reflexivity|exact H]. Qed.

Lemma check_interval_ids env iv : check_interval env iv <> None ->
  forall c, In c (itime_ids (fst iv) ++ itime_ids (snd iv)) -> assoc (consts env) c <> None.
Proof.
  destruct iv as [a b]. unfold check_interval. cbn [fst snd]. intros H c Hc.
  apply in_app_iff in Hc. destruct Hc as [Hc|Hc].
  - destruct a as [s u|s u]; cbn [itime_ids] in Hc; [destruct Hc|]. destruct Hc as [<-|[]].
    cbn [itime_text] in H. destruct (assoc (consts env) s); [discriminate|]. exfalso. apply H. reflexivity.
  - destruct b as [s u|s u]; cbn [itime_ids] in Hc; [destruct Hc|]. destruct Hc as [<-|[]].
    destruct (itime_text env a) as [[sa ua]|]; [|exfalso; apply H; reflexivity].
    cbn [itime_text] in H. destruct (assoc (consts env) s); [discriminate|]. exfalso. apply H. reflexivity.
Qed.

Section ElabFacts.
Variable orc : oracle.
Variable du : kw.

(* what a step leaves alone: the constants and the sub-specifications (hence the environment of Elab.dump) *)
Definition same_env (st st' : dstate) : Prop := d_consts st' = d_consts st /\ d_subs st' = d_subs st.

Lemma same_env_refl st : same_env st st. Proof. split; reflexivity. Qed.
Lemma same_env_trans a b c : same_env a b -> same_env b c -> same_env a c.
Proof. intros [H1 H2] [H3 H4]. split; congruence. Qed.

Lemma declare_var_env st n ty st' : declare_var orc st n ty = Ok st' -> same_env st st'.
Proof.
  unfold declare_var. destruct (create_var orc _ ty); try discriminate.
  intros H; injection H as <-. split; reflexivity.
Qed.

Lemma visit_id_env st s st' : visit_id orc st s = Ok st' -> same_env st st'.
Proof.
  unfold visit_id. destruct (kmem s (d_consts st)); [intros H; injection H as <-; apply same_env_refl|].
  destruct (kmem s (d_subs st)); [intros H; injection H as <-; apply same_env_refl|].
  destruct (head_tail s) as [h t]. destruct (assoc (d_types st) h) as [ty|].
  - destruct (create_var orc st ty) as [i| |]; try discriminate. destruct (check_use i t); try discriminate.
    intros H; injection H as <-; apply same_env_refl.
  - destruct (String.eqb t ""); [|discriminate]. apply declare_var_env.
Qed.

Lemma visit_interval_env st iv st' : visit_interval du st iv = Ok st' -> st' = st.
Proof.
  unfold visit_interval. destruct iv as [i|]; [|intros H; injection H as <-; reflexivity].
  destruct (check_interval _ i); [|discriminate]. intros H; injection H as <-; reflexivity.
Qed.

Lemma visit_env : forall e st st', visit orc du st e = Ok st' -> same_env st st'.
Proof.
  induction e as [s|s|o iv a IHa|f a IHa|f a IHa b IHb|o iv a IHa b IHb]; intros st st' H; cbn [visit] in H.
  - eapply visit_id_env; exact H.
  - injection H as <-. apply same_env_refl.
  - apply bind_ok in H. destruct H as (st1 & H1 & H2). apply visit_interval_env in H2. subst st'. eapply IHa; exact H1.
  - eapply IHa; exact H.
  - apply bind_ok in H. destruct H as (st1 & H1 & H2). eapply same_env_trans; [eapply IHa; exact H1|eapply IHb; exact H2].
  - apply bind_ok in H. destruct H as (st1 & H1 & H2). apply bind_ok in H2. destruct H2 as (st2 & H2 & H3).
    apply visit_interval_env in H3. subst st'. eapply same_env_trans; [eapply IHa; exact H1|eapply IHb; exact H2].
Qed.

Lemma visit_dump_env st e st' d : visit_dump orc du st e = Ok (st', d) ->
  same_env st st' /\ dump (penv_of du st') e = Some d.
Proof.
  unfold visit_dump. intros H. apply bind_ok in H. destruct H as (st1 & H1 & H2).
  destruct (dump (penv_of du st1) e) as [d'|] eqn:Ed; [|discriminate]. injection H2 as <- <-.
  split; [eapply visit_env; exact H1|exact Ed].
Qed.

(* an expression the visitor accepts uses as interval bounds only identifiers that are constants at that moment *)
Lemma visit_dump_bounds st e st' d : visit_dump orc du st e = Ok (st', d) ->
  forall c, In c (bound_ids e) -> kmem c (d_consts st) = true.
Proof.
  intros H c Hc. destruct (visit_dump_env _ _ _ _ H) as ([Hcs _] & Hd).
  unfold bound_ids in Hc. apply in_flat_map in Hc. destruct Hc as (iv & Hiv & Hc).
  pose proof (dump_checks_intervals _ _ _ Hd iv Hiv) as Hck.
  pose proof (check_interval_ids _ _ Hck c Hc) as Hne. cbn [penv_of consts] in Hne.
  unfold kmem. rewrite <- Hcs. destruct (assoc (d_consts st') c); [reflexivity|exfalso; apply Hne; reflexivity].
Qed.

(* where the entries of the table of constants come from *)
Definition declared_in (its : list item) (c v : string) : Prop := exists ty lit, In (IConst ty c lit) its /\ v = norm_lit lit.

Lemma elab_item_consts st it st' : elab_item orc du st it = Ok st' ->
  forall c v, assoc (d_consts st') c = Some v -> assoc (d_consts st) c = Some v \/ declared_in [it] c v.
Proof.
  destruct it as [io ty n init|ty n lit|v0 t]; cbn [elab_item]; intros H c v Hc.
  - apply bind_ok in H. destruct H as (st1 & H1 & H2). destruct (declare_var_env _ _ _ _ H1) as [E1 _].
    left. rewrite <- E1.
    assert (Hgen : forall st2, d_consts st2 = d_consts st1 ->
              match init with
              | Some (VExpr e) => bind (visit_dump orc du st2 e) (fun r => Ok (fst r))
              | _ => Ok st2
              end = Ok st' -> assoc (d_consts st1) c = Some v).
    { intros st2 Hio H3. rewrite <- Hio. destruct init as [[l|e]|].
      - injection H3 as <-. exact Hc.
      - apply bind_ok in H3. destruct H3 as ([st3 d] & H3 & H4). cbn [fst] in H4. injection H4 as <-.
        destruct (visit_dump_env _ _ _ _ H3) as ([E2 _] & _). rewrite <- E2. exact Hc.
      - injection H3 as <-. exact Hc. }
    destruct io as [[|]|]; (eapply Hgen; [|exact H2]); reflexivity.
  - destruct (smem n (d_vars st)); [discriminate|]. injection H as <-. cbn [d_consts] in Hc.
    rewrite assoc_upd in Hc. destruct (String.eqb n c) eqn:En.
    + apply String.eqb_eq in En. subst c. injection Hc as <-. right. exists ty, lit. split; [left; reflexivity|reflexivity].
    + left. exact Hc.
  - left. destruct (negb (smem v0 (d_vars st))); [injection H as <-; exact Hc|].
    destruct (kmem v0 (d_consts st)); injection H as <-; exact Hc.
Qed.

Lemma elab_items_consts : forall its st st', elab_items orc du st its = Ok st' ->
  forall c v, assoc (d_consts st') c = Some v -> assoc (d_consts st) c = Some v \/ declared_in its c v.
Proof.
  induction its as [|it r IH]; intros st st' H c v Hc; cbn [elab_items] in H.
  - injection H as <-. left. exact Hc.
  - apply bind_ok in H. destruct H as (st1 & H1 & H2).
    destruct (IH _ _ H2 c v Hc) as [Hl|(ty & lit & Hin & Hv)].
    + destruct (elab_item_consts _ _ _ H1 c v Hl) as [Hl'|(ty & lit & Hin & Hv)]; [left; exact Hl'|].
      right. exists ty, lit. split; [|exact Hv]. destruct Hin as [<-|[]]. left. reflexivity.
    + right. exists ty, lit. split; [right; exact Hin|exact Hv].
Qed.

Lemma declared_in_decls its c v : declared_in its c v -> In c (const_decls its).
Proof.
  intros (ty & lit & Hin & _). induction its as [|it r IH]; [destruct Hin|].
  destruct Hin as [->|Hin]; [left; reflexivity|].
  destruct it; cbn [const_decls]; try (apply IH; exact Hin). right. apply IH; exact Hin.
Qed.

Lemma kmem_assoc l c : kmem c l = true -> exists v, assoc l c = Some v.
Proof. unfold kmem. destruct (assoc l c) as [v|]; [eexists; reflexivity|discriminate]. Qed.

Lemma elab_items_app : forall pre post st st', elab_items orc du st (pre ++ post) = Ok st' ->
  exists st1, elab_items orc du st pre = Ok st1 /\ elab_items orc du st1 post = Ok st'.
Proof.
  induction pre as [|it r IH]; intros post st st' H.
  - exists st. split; [reflexivity|exact H].
  - cbn [app elab_items] in H. apply bind_ok in H. destruct H as (s1 & H1 & H2).
    destruct (IH _ _ _ H2) as (s2 & H3 & H4). exists s2. split; [|exact H4].
    cbn [elab_items]. rewrite H1. exact H3.
Qed.

(* Step 3 (b), initialisers: an identifier used as an interval bound in the initialiser of a declaration is a constant
   that was there before the text, or one an EARLIER item of the text declares *)
Theorem init_bounds_declared_before st pre io ty n e post st' :
  elab_items orc du st (pre ++ IVar io ty n (Some (VExpr e)) :: post) = Ok st' ->
  forall c, In c (bound_ids e) -> kmem c (d_consts st) = true \/ In c (const_decls pre).
Proof.
  intros H c Hc. destruct (elab_items_app _ _ _ _ H) as (s1 & Hpre & Hrest).
  cbn [elab_items] in Hrest. apply bind_ok in Hrest. destruct Hrest as (s2 & Hit & _).
  cbn [elab_item] in Hit. apply bind_ok in Hit. destruct Hit as (s3 & Hdecl & Hinit).
  apply bind_ok in Hinit. destruct Hinit as ([s4 d] & Hvd & _).
  pose proof (visit_dump_bounds _ _ _ _ Hvd c Hc) as Hk.
  assert (Hk1 : kmem c (d_consts s1) = true).
  { destruct (declare_var_env _ _ _ _ Hdecl) as [E _]. rewrite <- E.
    destruct io as [[|]|]; exact Hk. }
  destruct (kmem_assoc _ _ Hk1) as (v & Hv).
  destruct (elab_items_consts _ _ _ Hpre c v Hv) as [Hl|Hd].
  - left. unfold kmem. rewrite Hl. reflexivity.
  - right. eapply declared_in_decls; exact Hd.
Qed.

(* the same for any identifier the visitor resolves as a constant VALUE while it elaborates the item after 'pre':
   the table it looks the identifier up in holds only what 'pre' declared *)
Theorem const_values_declared_before st pre post st' :
  elab_items orc du st (pre ++ post) = Ok st' ->
  exists s1, elab_items orc du st pre = Ok s1 /\
    forall c v, assoc (d_consts s1) c = Some v -> assoc (d_consts st) c = Some v \/ declared_in pre c v.
Proof.
  intros H. destruct (elab_items_app _ _ _ _ H) as (s1 & Hpre & _). exists s1. split; [exact Hpre|].
  intros c v Hc. eapply elab_items_consts; eassumption.
Qed.

Lemma elab_assert_env st a st' : elab_assert orc du st a = Ok st' -> d_consts st' = d_consts st.
Proof.
  destruct a as [nm e]. cbn [elab_assert]. intros H. apply bind_ok in H. destruct H as ([st1 d] & H1 & H2).
  destruct (visit_dump_env _ _ _ _ H1) as ([E _] & _).
  destruct (head_tail _) as [h t]. destruct (assoc (d_types st1) h) as [ty|].
  - apply bind_ok in H2. destruct H2 as (i & _ & H2). apply bind_ok in H2. destruct H2 as (u & _ & H2).
    injection H2 as <-. exact E.
  - destruct (String.eqb t ""); [|discriminate]. injection H2 as <-. exact E.
Qed.

Lemma elab_asserts_bounds : forall A st st', elab_asserts orc du st A = Ok st' ->
  forall a c, In a A -> In c (bound_ids (snd a)) -> kmem c (d_consts st) = true.
Proof.
  induction A as [|a0 r IH]; intros st st' H a c Ha Hc; [destruct Ha|].
  cbn [elab_asserts] in H. apply bind_ok in H. destruct H as (s1 & H1 & H2).
  destruct Ha as [<-|Ha].
  - destruct a0 as [nm e]. cbn [elab_assert] in H1. apply bind_ok in H1. destruct H1 as ([s2 d] & Hvd & _).
    eapply visit_dump_bounds; [exact Hvd|exact Hc].
  - rewrite <- (elab_assert_env _ _ _ H1). eapply IH; eassumption.
Qed.

Lemma elab_imports_consts : forall l st st', elab_imports orc st l = Ok st' -> d_consts st' = d_consts st.
Proof.
  induction l as [|[m n] r IH]; intros st st' H; cbn [elab_imports] in H; [injection H as <-; reflexivity|].
  apply bind_ok in H. destruct H as (s1 & H1 & H2). rewrite (IH _ _ H2).
  cbn [elab_import] in H1. destruct (lookup orc m) as [mi|]; [|discriminate].
  destruct (m_import_escapes mi); [discriminate|]. injection H1 as <-. reflexivity.
Qed.

(* Step 3 (b), assertions: in an accepted text every identifier used as an interval bound of an assertion is the name
   of a constant declaration of the text (which precedes all assertions), and the table of constants holds exactly
   entries that come from constant declarations, with the normalised text of the literal *)
Lemma elab_file_inv f st : elab_file orc du f = Ok st ->
  exists st0, elab_file_from orc du (dstate0) f = Ok st0 /\ st = finalize_free st0.
Proof.
  unfold elab_file. destruct (elab_file_from orc du dstate0 f) as [st0| |]; intros H; try discriminate H.
  injection H as <-. exists st0. split; reflexivity.
Qed.
Lemma assert_bounds_declared_from f st : elab_file_from orc du dstate0 f = Ok st ->
  (forall a c, In a (f_asserts f) -> In c (bound_ids (snd a)) -> In c (const_decls (f_items f))) /\
  (forall c v, assoc (d_consts st) c = Some v -> declared_in (f_items f) c v).
Proof.
  unfold elab_file_from. intros H.
  apply bind_ok in H. destruct H as (s1 & H1 & H). apply bind_ok in H. destruct H as (s2 & H2 & H3).
  pose proof (elab_imports_consts _ _ _ H1) as E1. cbn [with_name dstate0 d_consts] in E1.
  assert (Hprov : forall c v, assoc (d_consts s2) c = Some v -> declared_in (f_items f) c v).
  { intros c v Hc. destruct (elab_items_consts _ _ _ H2 c v Hc) as [Hl|Hd]; [|exact Hd].
    rewrite E1 in Hl. discriminate Hl. }
  split.
  - intros a c Ha Hc. pose proof (elab_asserts_bounds _ _ _ H3 a c Ha Hc) as Hk.
    destruct (kmem_assoc _ _ Hk) as (v & Hv). eapply declared_in_decls. apply Hprov. exact Hv.
  - intros c v Hc. apply Hprov.
    assert (Hpres : forall A s s', elab_asserts orc du s A = Ok s' -> d_consts s' = d_consts s).
    { induction A as [|a0 r IH]; intros s s' HA; cbn [elab_asserts] in HA; [injection HA as <-; reflexivity|].
      apply bind_ok in HA. destruct HA as (s3 & HA1 & HA2). rewrite (IH _ _ HA2). eapply elab_assert_env; exact HA1. }
    rewrite <- (Hpres _ _ _ H3). exact Hc.
Qed.

Theorem assert_bounds_declared f st : elab_file orc du f = Ok st ->
  (forall a c, In a (f_asserts f) -> In c (bound_ids (snd a)) -> In c (const_decls (f_items f))) /\
  (forall c v, assoc (d_consts st) c = Some v -> declared_in (f_items f) c v).
Proof.
  intros H. destruct (elab_file_inv _ _ H) as (st0 & H0 & ->). exact (assert_bounds_declared_from _ _ H0).
Qed.

(* -- the converse: every constant declaration of an accepted text is in the table, with the normalised literal -- *)

Definition consts_in_vars (st : dstate) : Prop := forall c, kmem c (d_consts st) = true -> smem c (d_vars st) = true.

Lemma smem_sadd_keep c x l : smem c l = true -> smem c (sadd x l) = true.
Proof.
  unfold sadd. destruct (smem x l); [auto|]. unfold smem. rewrite existsb_app. intros ->. reflexivity.
Qed.
Lemma smem_sadd_new x l : smem x (sadd x l) = true.
Proof.
  unfold sadd. destruct (smem x l) eqn:E; [exact E|]. unfold smem. rewrite existsb_app. cbn [existsb].
  rewrite String.eqb_refl. rewrite orb_true_r. reflexivity.
Qed.

Lemma declare_var_vars st n ty st' : declare_var orc st n ty = Ok st' ->
  forall c, smem c (d_vars st) = true -> smem c (d_vars st') = true.
Proof.
  unfold declare_var. destruct (create_var orc _ ty); try discriminate.
  intros H; injection H as <-. cbn [d_vars]. intros c. apply smem_sadd_keep.
Qed.

Lemma visit_vars : forall e st st', visit orc du st e = Ok st' ->
  forall c, smem c (d_vars st) = true -> smem c (d_vars st') = true.
Proof.
  assert (Hid : forall st s st', visit_id orc st s = Ok st' -> forall c, smem c (d_vars st) = true -> smem c (d_vars st') = true).
  { intros st s st'. unfold visit_id. destruct (kmem s (d_consts st)); [intros H; injection H as <-; auto|].
    destruct (kmem s (d_subs st)); [intros H; injection H as <-; auto|].
    destruct (head_tail s) as [h t]. destruct (assoc (d_types st) h) as [ty|].
    - destruct (create_var orc st ty) as [i| |]; try discriminate. destruct (check_use i t); try discriminate.
      intros H; injection H as <-; auto.
    - destruct (String.eqb t ""); [|discriminate]. apply declare_var_vars. }
  induction e as [s|s|o iv a IHa|f a IHa|f a IHa b IHb|o iv a IHa b IHb]; intros st st' H c Hc; cbn [visit] in H.
  - eapply Hid; eassumption.
  - injection H as <-. exact Hc.
  - apply bind_ok in H. destruct H as (st1 & H1 & H2). apply visit_interval_env in H2. subst st'. eapply IHa; eassumption.
  - eapply IHa; eassumption.
  - apply bind_ok in H. destruct H as (st1 & H1 & H2). eapply IHb; [exact H2|]. eapply IHa; eassumption.
  - apply bind_ok in H. destruct H as (st1 & H1 & H2). apply bind_ok in H2. destruct H2 as (st2 & H2 & H3).
    apply visit_interval_env in H3. subst st'. eapply IHb; [exact H2|]. eapply IHa; eassumption.
Qed.

(* one item keeps the invariant and every entry of the table; a constant declaration adds its own *)
Lemma elab_item_keeps st it st' : elab_item orc du st it = Ok st' -> consts_in_vars st ->
  consts_in_vars st' /\
  (forall c v, assoc (d_consts st) c = Some v -> assoc (d_consts st') c = Some v) /\
  (forall ty c lit, it = IConst ty c lit -> assoc (d_consts st') c = Some (norm_lit lit)).
Proof.
  intros H Hinv. destruct it as [io ty n init|ty n lit|v0 t]; cbn [elab_item] in H.
  - assert (Hcv : d_consts st' = d_consts st /\ forall c, smem c (d_vars st) = true -> smem c (d_vars st') = true).
    { apply bind_ok in H. destruct H as (st1 & H1 & H2). destruct (declare_var_env _ _ _ _ H1) as [E1 _].
      pose proof (declare_var_vars _ _ _ _ H1) as V1.
      assert (Hgen : forall st2, d_consts st2 = d_consts st1 -> d_vars st2 = d_vars st1 ->
                match init with
                | Some (VExpr e) => bind (visit_dump orc du st2 e) (fun r => Ok (fst r))
                | _ => Ok st2
                end = Ok st' -> d_consts st' = d_consts st /\ forall c, smem c (d_vars st) = true -> smem c (d_vars st') = true).
      { intros st2 Hc2 Hv2 H3. destruct init as [[l|e]|].
        - injection H3 as <-. split; [congruence|]. intros c Hc. rewrite Hv2. auto.
        - apply bind_ok in H3. destruct H3 as ([st3 d] & H3 & H4). cbn [fst] in H4. injection H4 as <-.
          destruct (visit_dump_env _ _ _ _ H3) as ([E2 _] & _). split; [congruence|]. intros c Hc.
          unfold visit_dump in H3. apply bind_ok in H3. destruct H3 as (s4 & H3 & H5).
          destruct (dump _ e); [|discriminate]. injection H5 as <- _.
          eapply visit_vars; [exact H3|]. rewrite Hv2. auto.
        - injection H3 as <-. split; [congruence|]. intros c Hc. rewrite Hv2. auto. }
      destruct io as [[|]|]; (eapply Hgen; [| |exact H2]); reflexivity. }
    destruct Hcv as [Ec Hv]. split; [|split].
    + intros c Hc. rewrite Ec in Hc. auto.
    + intros c v Hc. rewrite Ec. exact Hc.
    + intros ty0 c lit Heq. discriminate Heq.
  - destruct (smem n (d_vars st)) eqn:En; [discriminate|]. injection H as <-. unfold consts_in_vars. cbn [d_consts d_vars]. split; [|split].
    + intros c Hc. unfold kmem in Hc. rewrite assoc_upd in Hc. destruct (String.eqb n c) eqn:Enc.
      * apply String.eqb_eq in Enc. subst c. apply smem_sadd_new.
      * apply smem_sadd_keep. apply Hinv. exact Hc.
    + intros c v Hc. rewrite assoc_upd. destruct (String.eqb n c) eqn:Enc; [|exact Hc].
      apply String.eqb_eq in Enc. subst c. exfalso.
      assert (Hk : kmem n (d_consts st) = true) by (unfold kmem; rewrite Hc; reflexivity).
      rewrite (Hinv _ Hk) in En. discriminate En.
    + intros ty0 c lit0 Heq. injection Heq as _ <- <-. rewrite assoc_upd, String.eqb_refl. reflexivity.
  - assert (Hsame : d_consts st' = d_consts st /\ d_vars st' = d_vars st).
    { destruct (negb (smem v0 (d_vars st))); [injection H as <-; split; reflexivity|].
      destruct (kmem v0 (d_consts st)); injection H as <-; split; reflexivity. }
    destruct Hsame as [Ec Ev]. split; [|split].
    + intros c Hc. rewrite Ec in Hc. rewrite Ev. auto.
    + intros c v Hc. rewrite Ec. exact Hc.
    + intros ty0 c lit Heq. discriminate Heq.
Qed.

Lemma elab_items_table : forall its st st', elab_items orc du st its = Ok st' -> consts_in_vars st ->
  consts_in_vars st' /\
  (forall c v, assoc (d_consts st) c = Some v -> assoc (d_consts st') c = Some v) /\
  (forall ty c lit, In (IConst ty c lit) its -> assoc (d_consts st') c = Some (norm_lit lit)).
Proof.
  induction its as [|it r IH]; intros st st' H Hinv; cbn [elab_items] in H.
  - injection H as <-. split; [exact Hinv|split; [auto|intros ty c lit []]].
  - apply bind_ok in H. destruct H as (s1 & H1 & H2).
    destruct (elab_item_keeps _ _ _ H1 Hinv) as (I1 & K1 & N1).
    destruct (IH _ _ H2 I1) as (I2 & K2 & N2). split; [exact I2|split].
    + intros c v Hc. apply K2. apply K1. exact Hc.
    + intros ty c lit [->|Hin]; [apply K2; eapply N1; reflexivity|eapply N2; exact Hin].
Qed.

(* the table of constants of an accepted text IS the list of its constant declarations *)
Theorem const_table_exact f st : elab_file orc du f = Ok st ->
  forall c v, assoc (d_consts st) c = Some v <-> declared_in (f_items f) c v.
Proof.
  intros H c v. split; [apply (proj2 (assert_bounds_declared _ _ H))|].
  intros (ty & lit & Hin & ->).
  destruct (elab_file_inv _ _ H) as (st0 & H0 & ->). clear H. rename H0 into H. cbn [finalize_free d_consts].
  unfold elab_file_from in H.
  apply bind_ok in H. destruct H as (s1 & H1 & H). apply bind_ok in H. destruct H as (s2 & H2 & H3).
  pose proof (elab_imports_consts _ _ _ H1) as E1. cbn [with_name dstate0 d_consts] in E1.
  assert (I1 : consts_in_vars s1) by (intros c0 Hc0; unfold kmem in Hc0; rewrite E1 in Hc0; discriminate Hc0).
  destruct (elab_items_table _ _ _ H2 I1) as (_ & _ & N2).
  assert (Hpres : forall A s s', elab_asserts orc du s A = Ok s' -> d_consts s' = d_consts s).
  { induction A as [|a0 r IH]; intros s s' HA; cbn [elab_asserts] in HA; [injection HA as <-; reflexivity|].
    apply bind_ok in HA. destruct HA as (s3 & HA1 & HA2). rewrite (IH _ _ HA2). eapply elab_assert_env; exact HA1. }
  rewrite (Hpres _ _ _ H3). eapply N2; exact Hin.
Qed.

(* ================================================================== *)
(*  4. Outcome classes                                                 *)
(* ================================================================== *)

Hypothesis benign : orc_benign orc = true.

Lemma lookup_forallb {A : Type} (P : string * A -> bool) : forall l k v,
  forallb P l = true -> lookup l k = Some v -> exists k', P (k', v) = true.
Proof.
  induction l as [|[k0 v0] r IH]; intros k v Hall Hl; cbn [lookup] in Hl; [discriminate|].
  cbn [forallb] in Hall. apply andb_true_iff in Hall. destruct Hall as [H0 Hr].
  destruct (String.eqb k0 k); [injection Hl as <-; exists k0; exact H0|eapply IH; eassumption].
Qed.

Lemma all_in_not_raise names tail : all_in names tail <> FRaise.
Proof. unfold all_in. destruct (forallb _ _); discriminate. Qed.

(* the instances never answer with an escaping exception, and creating one never escapes *)
Lemma create_var_benign st ty : create_var orc st ty <> Crash /\
  forall i, create_var orc st ty = Ok i -> forall t, i_field i t <> FRaise.
Proof.
  unfold create_var.
  destruct (String.eqb ty "float"); [split; [discriminate|intros i H; injection H as <-; apply all_in_not_raise]|].
  destruct (String.eqb ty "int"); [split; [discriminate|intros i H; injection H as <-; apply all_in_not_raise]|].
  destruct (String.eqb ty "complex"); [split; [discriminate|intros i H; injection H as <-; apply all_in_not_raise]|].
  destruct (assoc (d_mods st) ty) as [m|]; [|split; [discriminate|discriminate]].
  destruct (lookup orc m) as [mi|] eqn:Em; [|split; [discriminate|discriminate]].
  destruct (lookup (m_types mi) ty) as [ti|] eqn:Et; [|split; [discriminate|discriminate]].
  destruct (lookup_forallb _ _ _ _ benign Em) as (k1 & Hm). cbn [snd] in Hm.
  unfold mod_benign in Hm. apply andb_true_iff in Hm. destruct Hm as [_ Hm].
  destruct (lookup_forallb _ _ _ _ Hm Et) as (k2 & Ht). cbn [snd] in Ht.
  unfold ty_benign in Ht. apply andb_true_iff in Ht. destruct Ht as [Hc Hf].
  apply negb_true_iff in Hc. rewrite Hc. split; [discriminate|].
  intros i H; injection H as <-. intros t. cbn [i_field].
  destruct (lookup (ty_fields ti) t) as [r|] eqn:Ef; [|discriminate].
  destruct (lookup_forallb _ _ _ _ Hf Ef) as (k3 & Hr). cbn [snd] in Hr. destruct r; [discriminate|discriminate|discriminate Hr].
Qed.

Lemma check_use_benign i t : (forall t', i_field i t' <> FRaise) -> check_use i t <> Crash.
Proof.
  intros Hi. unfold check_use. destruct (String.eqb t ""); [destruct (i_numeric i); discriminate|].
  specialize (Hi t). destruct (i_field i t); [discriminate|discriminate|congruence].
Qed.

Lemma declare_var_benign st n ty : declare_var orc st n ty <> Crash.
Proof.
  unfold declare_var. match goal with |- context [create_var orc ?s ty] => destruct (create_var_benign s ty) as [Hc _]; destruct (create_var orc s ty) end;
  [discriminate|discriminate|congruence].
Qed.

Lemma visit_id_benign st s : visit_id orc st s <> Crash.
Proof.
  unfold visit_id. destruct (kmem s (d_consts st)); [discriminate|]. destruct (kmem s (d_subs st)); [discriminate|].
  destruct (head_tail s) as [h t]. destruct (assoc (d_types st) h) as [ty|].
  - destruct (create_var_benign st ty) as [Hc Hf]. destruct (create_var orc st ty) as [i| |]; [|discriminate|congruence].
    pose proof (check_use_benign i t (Hf i eq_refl)) as Hu. destruct (check_use i t); [discriminate|discriminate|congruence].
  - destruct (String.eqb t ""); [apply declare_var_benign|discriminate].
Qed.

Lemma visit_interval_benign st iv : visit_interval du st iv <> Crash.
Proof. unfold visit_interval. destruct iv as [i|]; [destruct (check_interval _ i)|]; discriminate. Qed.

Lemma bind_benign {A B : Type} (x : outcome A) (f : A -> outcome B) :
  x <> Crash -> (forall a, f a <> Crash) -> bind x f <> Crash.
Proof. intros Hx Hf H. apply bind_crash in H. destruct H as [H|(a & _ & H)]; [exact (Hx H)|exact (Hf a H)]. Qed.

Lemma visit_benign : forall e st, visit orc du st e <> Crash.
Proof.
  induction e as [s|s|o iv a IHa|f a IHa|f a IHa b IHb|o iv a IHa b IHb]; intros st; cbn [visit].
  - apply visit_id_benign.
  - discriminate.
  - apply bind_benign; [apply IHa|intros s1; apply visit_interval_benign].
  - apply IHa.
  - apply bind_benign; [apply IHa|intros s1; apply IHb].
  - apply bind_benign; [apply IHa|intros s1; apply bind_benign; [apply IHb|intros s2; apply visit_interval_benign]].
Qed.

Lemma visit_dump_benign st e : visit_dump orc du st e <> Crash.
Proof.
  unfold visit_dump. apply bind_benign; [apply visit_benign|]. intros s1. destruct (dump _ e); discriminate.
Qed.

Lemma elab_item_benign st it : elab_item orc du st it <> Crash.
Proof.
  destruct it as [io ty n init|ty n lit|v t]; cbn [elab_item].
  - apply bind_benign; [apply declare_var_benign|]. intros s1. destruct init as [[l|e]|]; try discriminate.
    apply bind_benign; [apply visit_dump_benign|discriminate].
  - destruct (smem n (d_vars st)); discriminate.
  - destruct (negb _); [discriminate|]. destruct (kmem v (d_consts st)); discriminate.
Qed.

Lemma elab_items_benign : forall its st, elab_items orc du st its <> Crash.
Proof.
  induction its as [|it r IH]; intros st; cbn [elab_items]; [discriminate|].
  apply bind_benign; [apply elab_item_benign|intros s1; apply IH].
Qed.

Lemma elab_assert_benign st a : elab_assert orc du st a <> Crash.
Proof.
  destruct a as [nm e]. cbn [elab_assert]. apply bind_benign; [apply visit_dump_benign|]. intros [st1 d].
  destruct (head_tail _) as [h t]. destruct (assoc (d_types st1) h) as [ty|].
  - destruct (create_var_benign st1 ty) as [Hc Hf]. destruct (create_var orc st1 ty) as [i| |]; cbn [bind]; [|discriminate|congruence].
    apply bind_benign; [apply check_use_benign; apply (Hf i eq_refl)|discriminate].
  - destruct (String.eqb t ""); discriminate.
Qed.

Lemma elab_asserts_benign : forall A st, elab_asserts orc du st A <> Crash.
Proof.
  induction A as [|a r IH]; intros st; cbn [elab_asserts]; [discriminate|].
  apply bind_benign; [apply elab_assert_benign|intros s1; apply IH].
Qed.

Lemma elab_imports_benign : forall l st, elab_imports orc st l <> Crash.
Proof.
  induction l as [|[m n] r IH]; intros st; cbn [elab_imports]; [discriminate|].
  apply bind_benign; [|intros s1; apply IH]. cbn [elab_import].
  destruct (lookup orc m) as [mi|] eqn:Em; [|discriminate].
  destruct (lookup_forallb _ _ _ _ benign Em) as (k & Hm). cbn [snd] in Hm. unfold mod_benign in Hm.
  apply andb_true_iff in Hm. destruct Hm as [Hm _]. apply negb_true_iff in Hm. rewrite Hm. discriminate.
Qed.

(* Step 3 (c): the elaboration has the three outcome classes of Offline.outcome by construction; under a benign
   oracle (no constructor of an imported class raises outside Exception, no field access on an instance raises
   anything but AttributeError, no import raises outside Exception / SystemExit) it is never 'another exception' *)
Theorem elab_file_no_crash f : elab_file orc du f <> Crash.
Proof.
  assert (H : elab_file_from orc du dstate0 f <> Crash).
  { unfold elab_file_from. apply bind_benign; [apply elab_imports_benign|]. intros s1.
    apply bind_benign; [apply elab_items_benign|intros s2; apply elab_asserts_benign]. }
  unfold elab_file. destruct (elab_file_from orc du dstate0 f); [discriminate|discriminate|exact H].
Qed.

Theorem file_outcome_clean stl text : file_outcome orc du stl text <> Crash.
Proof. unfold file_outcome. destruct (parse_file_text stl text); [apply elab_file_no_crash|discriminate]. Qed.

Corollary file_outcome_classes stl text :
  (exists st, file_outcome orc du stl text = Ok st) \/ file_outcome orc du stl text = Rtamt.
Proof.
  pose proof (file_outcome_clean stl text) as H. destruct (file_outcome orc du stl text) as [st| |];
  [left; eexists; reflexivity|right; reflexivity|congruence].
Qed.

End ElabFacts.

(* the assumption is needed: the three escapes of the implementation, reproduced by the model
   (SystemExit from a constructor, ValueError from a property, KeyboardInterrupt from an import) *)
Local Open Scope string_scope.
Definition bad_orc : oracle :=
  [("vmod", {| m_import_escapes := false; m_types :=
       [("Exit", {| ty_ctor_escapes := true; ty_numeric := false; ty_fields := [] |});
        ("Prop", {| ty_ctor_escapes := false; ty_numeric := false; ty_fields := [("ok", FNum); ("boom", FRaise)] |})] |});
   ("vkbd", {| m_import_escapes := true; m_types := [] |})].
Example escapes_without_benign :
  file_outcome bad_orc KS true "from vmod import Exit  Exit p  out = x > 1" = Crash /\
  file_outcome bad_orc KS true "from vmod import Prop  Prop p  out = p.boom > 1" = Crash /\
  file_outcome bad_orc KS true "from vkbd import T  out = x > 1" = Crash /\
  orc_benign bad_orc = false.
Proof. repeat split; vm_compute; reflexivity. Qed.

Example whole_rule_nonvacuous :
  render (file_outcome [] KS true "specification s1 input float x const int c = 0x2 float y = x + 1 @topic(x, tx) y = once[0:c] (x > c)")
  = "OK name:s1|mods:|vars:x,c,y|types:x=float,y=float|io:x=input,y=output|consts:c=2|topics:x=tx,y=rtamt/y|free:x|out:y,|asts:(once_t 0 _ 2 _ (pred gt (var x) (const 2)))"
  /\ file_outcome [] KS true "float y = 1  out = y" = Rtamt              (* '= literal' against '= expression' *)
  /\ file_outcome [] KS true "float y = x - z - w;" = Rtamt              (* two places where the initialiser may end *)
  /\ file_outcome [] KS true "float x const int x = 1 out = x" = Rtamt   (* 'Constant x already declared' *)
  /\ file_outcome [] KS true "out = once[0:c] x; const int c = 3" = Rtamt.
Proof. repeat split; vm_compute; reflexivity. Qed.

Print Assumptions parse_file_sound.
Print Assumptions init_bounds_declared_before.
Print Assumptions assert_bounds_declared.
Print Assumptions const_table_exact.
Print Assumptions file_outcome_clean.
