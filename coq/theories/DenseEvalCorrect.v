(* DenseEvalCorrect.v — the dense-time offline visitors of the untimed fragment (model DenseEval.deval)
   compute the tick semantics rhoZ: for strictly increasing input signals the returned sample list is
   strictly increasing, starts at the start of the sub-formula's domain and denotes rhoZ there. *)
From Coq Require Import List Bool Arith ZArith Lia.
From RV Require Import Val Syntax Rho ListFacts OfflineCorrect Online Dense DenseSem DenseFacts DenseMerge DenseMergeCorrect DenseEval.
Import ListNotations.
Local Open Scope Z_scope.

Section EvalCorrect.
Context {VS : Val} (AR : Arith VS).

(* ---------------- sample lists ---------------- *)
Definition lb (lo : Z) (s : dsig) : Prop := forall a v, In (a, v) s -> lo <= a.

Lemma dsorted_tail x s : dsorted (x :: s) -> dsorted s.
Proof. destruct x. cbn [dsorted]. tauto. Qed.
Lemma dsorted_lb a v s : dsorted ((a, v) :: s) -> lb (a + 1) s.
Proof.
  revert a v. induction s as [|[b w] r IH]; intros a v H a0 v0 Hin; [destruct Hin|].
  cbn [dsorted] in H. destruct H as (H1 & H2).
  destruct Hin as [E|Hin]; [injection E as <- <-; lia|].
  pose proof (IH b w H2 a0 v0 Hin). lia.
Qed.
Lemma dsorted_cons_lb a v s : lb (a + 1) s -> dsorted s -> dsorted ((a, v) :: s).
Proof.
  intros L H. cbn [dsorted]. split; [|exact H]. destruct s as [|[b w] o]; [exact I|].
  specialize (L b w (or_introl eq_refl)). lia.
Qed.
Lemma den_opt_before s t : lb (t + 1) s -> den_opt s t = None.
Proof.
  destruct s as [|[a v] r]; intros H; [reflexivity|]. cbn [den_opt].
  specialize (H a v (or_introl eq_refl)). destruct (Z.leb_spec a t); [lia|reflexivity].
Qed.
Lemma den_opt_cons a v r t : den_opt ((a, v) :: r) t = if a <=? t then (match den_opt r t with Some x => Some x | None => Some v end) else None.
Proof. reflexivity. Qed.

Lemma den_opt_in s : forall t v, den_opt s t = Some v -> exists a, In (a, v) s /\ a <= t.
Proof.
  induction s as [|[a w] r IH]; intros t v H; [discriminate|]. rewrite den_opt_cons in H.
  destruct (Z.leb_spec a t) as [Ha|Ha]; [|discriminate].
  destruct (den_opt r t) as [x|] eqn:E.
  - injection H as <-. destruct (IH t x E) as (b & Hin & Hb). exists b. split; [right; exact Hin|exact Hb].
  - injection H as <-. exists a. split; [left; reflexivity|exact Ha].
Qed.
Lemma den_at_stamp s : dsorted s -> forall a v, In (a, v) s -> den_opt s a = Some v.
Proof.
  induction s as [|[b w] r IH]; intros Hs a v Hin; [destruct Hin|]. rewrite den_opt_cons.
  destruct Hin as [E|Hin].
  - injection E as <- <-. rewrite Z.leb_refl. rewrite den_opt_before; [reflexivity|]. apply (dsorted_lb _ _ _ Hs).
  - pose proof (dsorted_lb _ _ _ Hs a v Hin). destruct (Z.leb_spec b a); [|lia].
    rewrite (IH (dsorted_tail _ _ Hs) a v Hin). reflexivity.
Qed.

(* ---------------- what the theorem says about one signal ---------------- *)
Definition good (s : dsig) (t0 : Z) (F : Z -> V) : Prop :=
  dsorted s /\ s <> [] /\ start s = t0 /\ forall t, den_opt s t = if t <? t0 then None else Some (F t).

Lemma good_den s t0 F t : good s t0 F -> t0 <= t -> den s t = F t.
Proof. intros (_ & _ & _ & H) Ht. unfold den. rewrite H. destruct (Z.ltb_spec t t0); [lia|reflexivity]. Qed.

(* point-wise maps *)
Lemma den_opt_dmap g s t : den_opt (dmap g s) t = option_map g (den_opt s t).
Proof.
  induction s as [|[a v] r IH]; [reflexivity|]. unfold dmap in *. cbn [map fst snd]. rewrite !den_opt_cons, IH.
  destruct (a <=? t); [|reflexivity]. destruct (den_opt r t); reflexivity.
Qed.
Lemma dsorted_dmap g s : dsorted s -> dsorted (dmap g s).
Proof.
  induction s as [|[a v] r IH]; intros H; [exact I|]. unfold dmap in *. cbn [map fst snd dsorted] in *.
  destruct H as [H1 H2]. split; [|apply IH; exact H2]. destruct r as [|[b w] r']; [exact I|exact H1].
Qed.
Lemma good_dmap g s t0 F : good s t0 F -> good (dmap g s) t0 (fun t => g (F t)).
Proof.
  intros (Hs & Hne & Hst & Hd). split; [apply dsorted_dmap; exact Hs|]. split; [destruct s; [congruence|discriminate]|].
  split; [destruct s as [|[a v] r]; [congruence|exact Hst]|].
  intros t. rewrite den_opt_dmap, Hd. destruct (t <? t0); reflexivity.
Qed.

(* binary operators through the merge *)
Lemma good_isect f s1 t1 F1 s2 t2 F2 : good s1 t1 F1 -> good s2 t2 F2 ->
  exists out, isect f s1 s2 = Some out /\ good out (Z.max t1 t2) (fun t => f (F1 t) (F2 t)).
Proof.
  intros (S1 & N1 & St1 & D1) (S2 & N2 & St2 & D2).
  destruct (isect_correct f s1 s2 S1 S2) as (out & E & So & Dv). exists out. split; [exact E|].
  destruct (isect_start f s1 s2 out S1 S2 N1 N2 E) as [Hne Hst].
  split; [exact So|]. split; [exact Hne|]. split; [rewrite Hst, St1, St2; reflexivity|].
  intros t. rewrite Dv, D1, D2.
  destruct (Z.ltb_spec t t1), (Z.ltb_spec t t2), (Z.ltb_spec t (Z.max t1 t2)); cbn [lift2]; try reflexivity; lia.
Qed.

(* ---------------- dropping repeated values ---------------- *)
Definition dv (prev : option V) (s : dsig) (t : Z) : option V :=
  match den_opt s t with Some v => Some v | None => prev end.

Lemma dedup_from_lb lo : forall s prev, lb lo s -> lb lo (dedup_from prev s).
Proof.
  induction s as [|[a v] r IH]; intros prev H; [exact H|]. cbn [dedup_from].
  assert (Hr : lb lo r) by (intros b w Hin; apply (H b w); right; exact Hin).
  destruct r as [|y r']; [exact H|].
  destruct (match prev with Some p => veq p v | None => false end).
  - apply IH. exact Hr.
  - intros b w [E|Hin]; [injection E as <- <-; apply (H a v); left; reflexivity|]. apply (IH (Some v) Hr b w Hin).
Qed.
Lemma dedup_from_sorted : forall s prev, dsorted s -> dsorted (dedup_from prev s).
Proof.
  induction s as [|[a v] r IH]; intros prev H; [exact I|]. cbn [dedup_from].
  destruct r as [|y r'] eqn:Er; [exact H|]. rewrite <- Er in *.
  assert (Hr : dsorted r) by (apply (dsorted_tail _ _ H)).
  destruct (match prev with Some p => veq p v | None => false end); [apply IH; exact Hr|].
  apply dsorted_cons_lb; [apply dedup_from_lb, (dsorted_lb _ _ _ H)|apply IH; exact Hr].
Qed.
Lemma veq_true x y : veq x y = true -> x = y.
Proof. unfold veq. destruct (v_eq_dec x y); [auto|discriminate]. Qed.

Lemma dedup_from_dv : forall s prev t, dsorted s -> dv prev (dedup_from prev s) t = dv prev s t.
Proof.
  induction s as [|[a v] r IH]; intros prev t H; [reflexivity|]. cbn [dedup_from].
  destruct r as [|y r'] eqn:Er; [reflexivity|]. rewrite <- Er in *.
  assert (Hr : dsorted r) by (apply (dsorted_tail _ _ H)).
  pose proof (dsorted_lb _ _ _ H) as Hlb.
  destruct (match prev with Some p => veq p v | None => false end) eqn:Ed.
  - destruct prev as [p|]; [|discriminate]. apply veq_true in Ed. subst p.
    unfold dv at 2. rewrite den_opt_cons. destruct (Z.leb_spec a t) as [Ha|Ha].
    + specialize (IH (Some v) t Hr). unfold dv in IH |- *. rewrite IH. destruct (den_opt r t); reflexivity.
    + unfold dv. rewrite den_opt_before; [reflexivity|].
      apply dedup_from_lb. intros b w Hin. specialize (Hlb b w Hin). lia.
  - unfold dv. rewrite !den_opt_cons. destruct (Z.leb_spec a t) as [Ha|Ha]; [|reflexivity].
    specialize (IH (Some v) t Hr). unfold dv in IH.
    destruct (den_opt (dedup_from (Some v) r) t), (den_opt r t); try congruence; reflexivity.
Qed.
Lemma dedup_den s t : dsorted s -> den_opt (dedup s) t = den_opt s t.
Proof.
  intros H. pose proof (dedup_from_dv s None t H) as E. unfold dv, dedup in *.
  destruct (den_opt (dedup_from None s) t), (den_opt s t); congruence.
Qed.
Lemma dedup_start s : s <> [] -> dedup s <> [] /\ start (dedup s) = start s.
Proof.
  destruct s as [|[a v] r]; [congruence|]. intros _. unfold dedup. cbn [dedup_from].
  destruct r; cbn; split; try discriminate; reflexivity.
Qed.
Lemma good_dedup s t0 F : good s t0 F -> good (dedup s) t0 F.
Proof.
  intros (Hs & Hne & Hst & Hd). destruct (dedup_start s Hne) as [N S].
  split; [apply dedup_from_sorted; exact Hs|]. split; [exact N|]. split; [congruence|].
  intros t. rewrite dedup_den by exact Hs. apply Hd.
Qed.


(* ---------------- once / historically: running max / min ---------------- *)
Definition upto (t : Z) (s : dsig) : list V := map snd (filter (fun q => fst q <=? t) s).

Lemma upto_none t s : lb (t + 1) s -> upto t s = [].
Proof.
  induction s as [|[a v] r IH]; intros H; [reflexivity|]. unfold upto in *. cbn [filter fst].
  pose proof (H a v (or_introl eq_refl)). destruct (Z.leb_spec a t); [lia|]. apply IH. intros b w Hin. apply (H b w). right. exact Hin.
Qed.
Lemma upto_cons t a v r : a <= t -> upto t ((a, v) :: r) = v :: upto t r.
Proof. intros H. unfold upto. cbn [filter fst]. destruct (Z.leb_spec a t); [reflexivity|lia]. Qed.

Lemma run_fold_stamps op : forall s acc, map fst (run_fold op acc s) = map fst s.
Proof. induction s as [|[a v] r IH]; intros acc; [reflexivity|]. cbn [run_fold map fst]. rewrite IH. reflexivity. Qed.
Lemma dsorted_stamps s s' : map fst s = map fst s' -> dsorted s -> dsorted s'.
Proof.
  revert s'. induction s as [|[a v] r IH]; intros [|[a' v'] r'] E H; try discriminate; [exact I|].
  cbn [map fst] in E. injection E as -> E. cbn [dsorted] in *. destruct H as [H1 H2]. split; [|apply IH; assumption].
  destruct r as [|[b w] o], r' as [|[b' w'] o']; try discriminate; [exact I|]. cbn [map fst] in E. injection E as -> _. exact H1.
Qed.
Lemma run_fold_shape op s acc : dsorted s -> s <> [] ->
  dsorted (run_fold op acc s) /\ run_fold op acc s <> [] /\ start (run_fold op acc s) = start s.
Proof.
  intros H N. split; [apply (dsorted_stamps s); [symmetry; apply run_fold_stamps|exact H]|].
  destruct s as [|[a v] r]; [congruence|]. cbn [run_fold]. split; [discriminate|reflexivity].
Qed.

Lemma run_fold_max_den : forall s acc t, dsorted s ->
  den_opt (run_fold vmax acc s) t = match s with [] => None | (a, _) :: _ => if a <=? t then Some (vmax acc (maxl (upto t s))) else None end.
Proof.
  induction s as [|[a v] r IH]; intros acc t H; [reflexivity|]. cbn [run_fold]. rewrite den_opt_cons.
  destruct (Z.leb_spec a t) as [Ha|Ha]; [|reflexivity].
  rewrite (upto_cons t a v r Ha), maxl_cons, (IH (vmax v acc) t (dsorted_tail _ _ H)).
  destruct r as [|[b w] o].
  - cbn [upto filter map]. rewrite maxl_nil, vmax_bot_r. f_equal. apply vmax_comm.
  - destruct (Z.leb_spec b t) as [Hb|Hb].
    + f_equal. rewrite (vmax_comm v acc), <- vmax_assoc. reflexivity.
    + rewrite upto_none; [rewrite maxl_nil, vmax_bot_r; f_equal; apply vmax_comm|].
      intros c x [E|Hin]; [injection E as <- <-; lia|]. pose proof (dsorted_lb _ _ _ (dsorted_tail _ _ H) c x Hin). lia.
Qed.
Lemma run_fold_min_den : forall s acc t, dsorted s ->
  den_opt (run_fold vmin acc s) t = match s with [] => None | (a, _) :: _ => if a <=? t then Some (vmin acc (minl (upto t s))) else None end.
Proof.
  induction s as [|[a v] r IH]; intros acc t H; [reflexivity|]. cbn [run_fold]. rewrite den_opt_cons.
  destruct (Z.leb_spec a t) as [Ha|Ha]; [|reflexivity].
  rewrite (upto_cons t a v r Ha), minl_cons, (IH (vmin v acc) t (dsorted_tail _ _ H)).
  destruct r as [|[b w] o].
  - cbn [upto filter map]. rewrite minl_nil, vmin_top_r. f_equal. apply vmin_comm.
  - destruct (Z.leb_spec b t) as [Hb|Hb].
    + f_equal. rewrite (vmin_comm v acc), <- vmin_assoc. reflexivity.
    + rewrite upto_none; [rewrite minl_nil, vmin_top_r; f_equal; apply vmin_comm|].
      intros c x [E|Hin]; [injection E as <- <-; lia|]. pose proof (dsorted_lb _ _ _ (dsorted_tail _ _ H) c x Hin). lia.
Qed.

Lemma in_upto t s v : In v (upto t s) <-> exists a, In (a, v) s /\ a <= t.
Proof.
  unfold upto. rewrite in_map_iff. split.
  - intros ([a v'] & E & Hin). cbn [snd] in E. subst v'. apply filter_In in Hin as [Hin Hc]. cbn [fst] in Hc. apply Z.leb_le in Hc. exists a. auto.
  - intros (a & Hin & Ha). exists (a, v). split; [reflexivity|]. apply filter_In. split; [exact Hin|]. cbn [fst]. apply Z.leb_le. exact Ha.
Qed.
Lemma start_lb s : dsorted s -> lb (start s) s.
Proof.
  destruct s as [|[a v] r]; intros H b w Hin; [destruct Hin|]. cbn [start].
  destruct Hin as [E|Hin]; [injection E as <- <-; lia|]. pose proof (dsorted_lb _ _ _ H b w Hin). lia.
Qed.

(* the values of the samples up to t are the values the signal takes on [start, t] *)
Lemma upto_ticks s t z : dsorted s -> s <> [] ->
  (forall v, In v (upto t s) -> leb v z = true) <-> (forall u, start s <= u <= t -> leb (den s u) z = true).
Proof.
  intros H N. split.
  - intros Hv u Hu. unfold den. destruct (den_opt s u) as [v|] eqn:E.
    + destruct (den_opt_in s u v E) as (a & Hin & Ha). apply Hv. apply in_upto. exists a. split; [exact Hin|lia].
    + exfalso. apply (proj2 (den_opt_start s H N u)); [lia|exact E].
  - intros Hu v Hv. apply in_upto in Hv as (a & Hin & Ha).
    pose proof (start_lb s H a v Hin). specialize (Hu a ltac:(lia)). unfold den in Hu. rewrite (den_at_stamp s H a v Hin) in Hu. exact Hu.
Qed.
Lemma upto_ticks_min s t z : dsorted s -> s <> [] ->
  (forall v, In v (upto t s) -> leb z v = true) <-> (forall u, start s <= u <= t -> leb z (den s u) = true).
Proof.
  intros H N. split.
  - intros Hv u Hu. unfold den. destruct (den_opt s u) as [v|] eqn:E.
    + destruct (den_opt_in s u v E) as (a & Hin & Ha). apply Hv. apply in_upto. exists a. split; [exact Hin|lia].
    + exfalso. apply (proj2 (den_opt_start s H N u)); [lia|exact E].
  - intros Hu v Hv. apply in_upto in Hv as (a & Hin & Ha).
    pose proof (start_lb s H a v Hin). specialize (Hu a ltac:(lia)). unfold den in Hu. rewrite (den_at_stamp s H a v Hin) in Hu. exact Hu.
Qed.

Lemma good_once s t0 F : good s t0 F -> good (once_op s) t0 (fun t => zmax F t0 t).
Proof.
  intros G. pose proof G as (Hs & Hne & Hst & Hd). unfold once_op. apply good_dedup.
  destruct (run_fold_shape vmax s bot Hs Hne) as (S' & N' & St').
  split; [exact S'|]. split; [exact N'|]. split; [congruence|].
  intros t. rewrite (run_fold_max_den s bot t Hs). destruct s as [|[a v] r] eqn:Es; [congruence|]. rewrite <- Es in *.
  assert (a = t0) by (rewrite Es in Hst; exact Hst). subst a.
  destruct (Z.leb_spec t0 t) as [Ht|Ht]; destruct (Z.ltb_spec t t0) as [Ht'|Ht']; try lia; [|reflexivity].
  f_equal. rewrite vmax_bot_l. transitivity (zmax (den s) t0 t).
  - apply eq_by_ub. intros z. rewrite maxl_ub, zmax_ub. rewrite <- Hst. apply upto_ticks; assumption.
  - apply zmax_ext. intros u Hu. apply (good_den s t0 F u G). lia.
Qed.
Lemma good_hist s t0 F : good s t0 F -> good (hist_op s) t0 (fun t => zmin F t0 t).
Proof.
  intros G. pose proof G as (Hs & Hne & Hst & Hd). unfold hist_op. apply good_dedup.
  destruct (run_fold_shape vmin s top Hs Hne) as (S' & N' & St').
  split; [exact S'|]. split; [exact N'|]. split; [congruence|].
  intros t. rewrite (run_fold_min_den s top t Hs). destruct s as [|[a v] r] eqn:Es; [congruence|]. rewrite <- Es in *.
  assert (a = t0) by (rewrite Es in Hst; exact Hst). subst a.
  destruct (Z.leb_spec t0 t) as [Ht|Ht]; destruct (Z.ltb_spec t t0) as [Ht'|Ht']; try lia; [|reflexivity].
  f_equal. rewrite vmin_top_l. transitivity (zmin (den s) t0 t).
  - apply eq_by_lb. intros z. rewrite minl_lb, zmin_lb. rewrite <- Hst. apply upto_ticks_min; assumption.
  - apply zmin_ext. intros u Hu. apply (good_den s t0 F u G). lia.
Qed.


(* ---------------- eventually / always: from the last sample backwards ---------------- *)
Definition after (t : Z) (s : dsig) : list V := map snd (filter (fun q => t <? fst q) s).
Definition ub (hi : Z) (s : dsig) : Prop := forall a v, In (a, v) s -> a <= hi.

Lemma after_all t s : lb (t + 1) s -> after t s = map snd s.
Proof.
  induction s as [|[a v] r IH]; intros H; [reflexivity|]. unfold after in *. cbn [filter fst map snd].
  pose proof (H a v (or_introl eq_refl)). destruct (Z.ltb_spec t a); [|lia]. cbn [map snd]. f_equal.
  apply IH. intros b w Hin. apply (H b w). right. exact Hin.
Qed.
Lemma after_skip t a v r : a <= t -> after t ((a, v) :: r) = after t r.
Proof. intros H. unfold after. cbn [filter fst]. destruct (Z.ltb_spec t a); [lia|reflexivity]. Qed.
Lemma in_after t s v : In v (after t s) <-> exists a, In (a, v) s /\ t < a.
Proof.
  unfold after. rewrite in_map_iff. split.
  - intros ([a v'] & E & Hin). cbn [snd] in E. subst v'. apply filter_In in Hin as [Hin Hc]. cbn [fst] in Hc. apply Z.ltb_lt in Hc. exists a. auto.
  - intros (a & Hin & Ha). exists (a, v). split; [reflexivity|]. apply filter_In. split; [exact Hin|]. cbn [fst]. apply Z.ltb_lt. exact Ha.
Qed.

Lemma den_tail a v r t : dsorted ((a, v) :: r) -> r <> [] -> start r <= t -> den ((a, v) :: r) t = den r t.
Proof.
  intros H N Ht. unfold den. rewrite den_opt_cons.
  pose proof (dsorted_lb _ _ _ H) as L. destruct r as [|[b w] o]; [congruence|]. cbn [start] in Ht.
  specialize (L b w (or_introl eq_refl)). destruct (Z.leb_spec a t); [|lia].
  destruct (den_opt ((b, w) :: o) t) eqn:E; [reflexivity|]. exfalso.
  apply (proj2 (den_opt_start ((b, w) :: o) (dsorted_tail _ _ H) ltac:(discriminate) t)); [cbn [start]; lia|exact E].
Qed.

Lemma rev_fold_max_spec : forall s, dsorted s -> s <> [] ->
  fst (rev_fold vmax bot s) = maxl (map snd s) /\
  dsorted (snd (rev_fold vmax bot s)) /\ snd (rev_fold vmax bot s) <> [] /\ start (snd (rev_fold vmax bot s)) = start s /\
  forall t, den_opt (snd (rev_fold vmax bot s)) t = if start s <=? t then Some (vmax (den s t) (maxl (after t s))) else None.
Proof.
  induction s as [|[a v] r IH]; intros H N; [congruence|]. cbn [rev_fold].
  destruct r as [|[b w] o] eqn:Er.
  - cbn [rev_fold]. cbn [fst snd map maxl start]. rewrite vmax_bot_r. split; [rewrite maxl_cons, maxl_nil, vmax_bot_r; reflexivity|].
    split; [cbn; auto|]. split; [discriminate|]. split; [reflexivity|].
    intros t. rewrite den_opt_cons. cbn [den_opt]. destruct (Z.leb_spec a t) as [Ha|Ha]; [|reflexivity].
    unfold den. rewrite den_opt_cons. cbn [den_opt]. destruct (Z.leb_spec a t); [|lia]. rewrite after_skip by exact Ha.
    cbn. rewrite vmax_bot_r. reflexivity.
  - rewrite <- Er in *. assert (Nr : r <> []) by (rewrite Er; discriminate).
    pose proof (dsorted_tail _ _ H) as Hr. pose proof (dsorted_lb _ _ _ H) as Lr.
    destruct (IH Hr Nr) as (Im & Is & In_ & Ist & Id). clear IH.
    destruct (rev_fold vmax bot r) as [nxt out] eqn:Erf. cbn [fst snd] in *.
    assert (Hb : start r = b) by (rewrite Er; reflexivity).
    assert (Hab : a < b) by (specialize (Lr b w); rewrite Er in Lr; specialize (Lr (or_introl eq_refl)); lia).
    set (a' := vmax v nxt).
    assert (Em : a' = maxl (map snd ((a, v) :: r))) by (unfold a'; cbn [map snd]; rewrite maxl_cons, Im; reflexivity).
    (* the value on [a, b) *)
    assert (Dlow : forall t, a <= t < b -> vmax (den ((a, v) :: r) t) (maxl (after t ((a, v) :: r))) = a').
    { intros t Ht. unfold den. rewrite den_opt_cons. destruct (Z.leb_spec a t); [|lia].
      rewrite (den_opt_before r t) by (intros c x Hin; pose proof (start_lb r Hr c x Hin); lia).
      rewrite after_skip by lia. rewrite after_all by (intros c x Hin; pose proof (start_lb r Hr c x Hin); lia).
      unfold a'. rewrite Im. reflexivity. }
    (* the value from b on *)
    assert (Dhigh : forall t, b <= t -> vmax (den ((a, v) :: r) t) (maxl (after t ((a, v) :: r))) = vmax (den r t) (maxl (after t r))).
    { intros t Ht. rewrite den_tail by (try assumption; lia). rewrite after_skip by lia. reflexivity. }
    destruct out as [|[t' v'] out'] eqn:Eo; [congruence|]. cbn [start] in Ist. assert (t' = b) by congruence. subst t'.
    pose proof (dsorted_lb _ _ _ Is) as Lo.
    destruct (veq a' v' && (1 <? Z.of_nat (length r))) eqn:Ec.
    + (* the sample at b repeats the value: it is popped *)
      apply andb_prop in Ec as [Ev _]. apply veq_true in Ev. subst v'.
      cbn [fst snd start]. split; [exact Em|].
      split; [apply dsorted_cons_lb; [intros c x Hin; specialize (Lo c x Hin); lia|apply (dsorted_tail _ _ Is)]|].
      split; [discriminate|]. split; [reflexivity|].
      intros t. rewrite den_opt_cons. destruct (Z.leb_spec a t) as [Ha|Ha]; [|reflexivity].
      destruct (Z.lt_ge_cases t b) as [Hlt|Hge].
      * rewrite den_opt_before by (intros c x Hin; specialize (Lo c x Hin); lia). rewrite Dlow by lia. reflexivity.
      * rewrite Dhigh by exact Hge. specialize (Id t). cbn [den_opt] in Id. rewrite Hb in Id.
        destruct (Z.leb_spec b t); [|lia]. exact Id.
    + cbn [fst snd start]. split; [exact Em|].
      split; [apply dsorted_cons_lb; [intros c x [E|Hin]; [injection E as <- <-; lia|specialize (Lo c x Hin); lia]|exact Is]|].
      split; [discriminate|]. split; [reflexivity|].
      intros t. rewrite den_opt_cons. destruct (Z.leb_spec a t) as [Ha|Ha]; [|reflexivity].
      destruct (Z.lt_ge_cases t b) as [Hlt|Hge].
      * rewrite den_opt_before by (intros c x [E|Hin]; [injection E as <- <-; lia|specialize (Lo c x Hin); lia]). rewrite Dlow by lia. reflexivity.
      * rewrite Dhigh by exact Hge. rewrite Hb in *. specialize (Id t). destruct (Z.leb_spec b t); [|lia]. rewrite Id. reflexivity.
Qed.

(* the greatest stamp below u determines the value *)
Lemma den_opt_greatest s : dsorted s -> forall u v, den_opt s u = Some v ->
  exists c, In (c, v) s /\ c <= u /\ forall c' v', In (c', v') s -> c' <= u -> c' <= c.
Proof.
  induction s as [|[a w] r IH]; intros H u v E; [discriminate|]. rewrite den_opt_cons in E.
  destruct (Z.leb_spec a u) as [Ha|Ha]; [|discriminate].
  pose proof (dsorted_lb _ _ _ H) as L.
  destruct (den_opt r u) as [x|] eqn:Er.
  - injection E as <-. destruct (IH (dsorted_tail _ _ H) u x Er) as (c & Hin & Hc & Hg). exists c. split; [right; exact Hin|]. split; [exact Hc|].
    intros c' v' [E'|Hin'] Hc'; [injection E' as <- <-; specialize (L c x Hin); lia|apply (Hg c' v' Hin' Hc')].
  - injection E as <-. exists a. split; [left; reflexivity|]. split; [exact Ha|].
    intros c' v' [E'|Hin'] Hc'; [injection E' as <- <-; lia|]. exfalso.
    pose proof (den_at_stamp r (dsorted_tail _ _ H) c' v' Hin') as Ec.
    assert (Hne : r <> []) by (destruct r; [destruct Hin'|discriminate]).
    apply (proj2 (den_opt_start r (dsorted_tail _ _ H) Hne u)); [pose proof (start_lb r (dsorted_tail _ _ H) c' v' Hin'); lia|exact Er].
Qed.
Lemma den_same_piece s : dsorted s -> forall t u v c, den_opt s u = Some v -> In (c, v) s -> c <= t <= u ->
  (forall c' v', In (c', v') s -> c' <= u -> c' <= c) -> den_opt s t = Some v.
Proof.
  intros H t u v c Eu Hin Ht Hg.
  assert (Hne : s <> []) by (destruct s; [destruct Hin|discriminate]).
  destruct (den_opt s t) as [x|] eqn:Et.
  - destruct (den_opt_greatest s H t x Et) as (c2 & Hin2 & Hc2 & Hg2).
    assert (c2 = c) by (pose proof (Hg2 c v Hin ltac:(lia)); pose proof (Hg c2 x Hin2 ltac:(lia)); lia). subst c2.
    pose proof (den_at_stamp s H c v Hin) as E1. pose proof (den_at_stamp s H c x Hin2) as E2. congruence.
  - exfalso. apply (proj2 (den_opt_start s H Hne t)); [pose proof (start_lb s H c v Hin); lia|exact Et].
Qed.

Lemma after_ticks s t far z : dsorted s -> s <> [] -> start s <= t -> t <= far -> ub far s ->
  (leb (den s t) z = true /\ forall v, In v (after t s) -> leb v z = true) <-> (forall u, t <= u <= far -> leb (den s u) z = true).
Proof.
  intros H N Hs Hf U. split.
  - intros [H0 Hv] u Hu. unfold den at 1. destruct (den_opt s u) as [v|] eqn:E.
    + destruct (den_opt_greatest s H u v E) as (c & Hin & Hc & Hg).
      destruct (Z.le_gt_cases c t) as [Hct|Hct].
      * pose proof (den_same_piece s H t u v c E Hin ltac:(lia) Hg) as Et. unfold den in H0. rewrite Et in H0. exact H0.
      * apply Hv. apply in_after. exists c. split; [exact Hin|lia].
    + exfalso. apply (proj2 (den_opt_start s H N u)); [lia|exact E].
  - intros Hu. split; [apply Hu; lia|]. intros v Hv. apply in_after in Hv as (c & Hin & Hc).
    specialize (Hu c ltac:(pose proof (U c v Hin); lia)). unfold den in Hu. rewrite (den_at_stamp s H c v Hin) in Hu. exact Hu.
Qed.

Lemma good_ev s t0 F far : good s t0 F -> ub far s ->
  good (ev_op s) t0 (fun t => zmax F t (Z.max t far)).
Proof.
  intros G U. pose proof G as (Hs & Hne & Hst & Hd). unfold ev_op.
  destruct (rev_fold_max_spec s Hs Hne) as (_ & S' & N' & St' & D').
  split; [exact S'|]. split; [exact N'|]. split; [congruence|].
  intros t. rewrite D', Hst. destruct (Z.leb_spec t0 t) as [Ht|Ht]; destruct (Z.ltb_spec t t0) as [Ht'|Ht']; try lia; [|reflexivity].
  f_equal. transitivity (zmax (den s) t (Z.max t far)).
  - apply eq_by_ub. intros z. rewrite vmax_lub, maxl_ub, zmax_ub. apply after_ticks; try assumption; try lia.
    intros c x Hin. pose proof (U c x Hin). lia.
  - apply zmax_ext. intros u Hu. apply (good_den s t0 F u G). lia.
Qed.

(* the dual statements for always *)
Lemma rev_fold_min_spec : forall s, dsorted s -> s <> [] ->
  fst (rev_fold vmin top s) = minl (map snd s) /\
  dsorted (snd (rev_fold vmin top s)) /\ snd (rev_fold vmin top s) <> [] /\ start (snd (rev_fold vmin top s)) = start s /\
  forall t, den_opt (snd (rev_fold vmin top s)) t = if start s <=? t then Some (vmin (den s t) (minl (after t s))) else None.
Proof.
  induction s as [|[a v] r IH]; intros H N; [congruence|]. cbn [rev_fold].
  destruct r as [|[b w] o] eqn:Er.
  - cbn [rev_fold]. cbn [fst snd map minl start]. rewrite vmin_top_r. split; [rewrite minl_cons, minl_nil, vmin_top_r; reflexivity|].
    split; [cbn; auto|]. split; [discriminate|]. split; [reflexivity|].
    intros t. rewrite den_opt_cons. cbn [den_opt]. destruct (Z.leb_spec a t) as [Ha|Ha]; [|reflexivity].
    unfold den. rewrite den_opt_cons. cbn [den_opt]. destruct (Z.leb_spec a t); [|lia]. rewrite after_skip by exact Ha.
    cbn. rewrite vmin_top_r. reflexivity.
  - rewrite <- Er in *. assert (Nr : r <> []) by (rewrite Er; discriminate).
    pose proof (dsorted_tail _ _ H) as Hr. pose proof (dsorted_lb _ _ _ H) as Lr.
    destruct (IH Hr Nr) as (Im & Is & In_ & Ist & Id). clear IH.
    destruct (rev_fold vmin top r) as [nxt out] eqn:Erf. cbn [fst snd] in *.
    assert (Hb : start r = b) by (rewrite Er; reflexivity).
    assert (Hab : a < b) by (specialize (Lr b w); rewrite Er in Lr; specialize (Lr (or_introl eq_refl)); lia).
    set (a' := vmin v nxt).
    assert (Em : a' = minl (map snd ((a, v) :: r))) by (unfold a'; cbn [map snd]; rewrite minl_cons, Im; reflexivity).
    (* the value on [a, b) *)
    assert (Dlow : forall t, a <= t < b -> vmin (den ((a, v) :: r) t) (minl (after t ((a, v) :: r))) = a').
    { intros t Ht. unfold den. rewrite den_opt_cons. destruct (Z.leb_spec a t); [|lia].
      rewrite (den_opt_before r t) by (intros c x Hin; pose proof (start_lb r Hr c x Hin); lia).
      rewrite after_skip by lia. rewrite after_all by (intros c x Hin; pose proof (start_lb r Hr c x Hin); lia).
      unfold a'. rewrite Im. reflexivity. }
    (* the value from b on *)
    assert (Dhigh : forall t, b <= t -> vmin (den ((a, v) :: r) t) (minl (after t ((a, v) :: r))) = vmin (den r t) (minl (after t r))).
    { intros t Ht. rewrite den_tail by (try assumption; lia). rewrite after_skip by lia. reflexivity. }
    destruct out as [|[t' v'] out'] eqn:Eo; [congruence|]. cbn [start] in Ist. assert (t' = b) by congruence. subst t'.
    pose proof (dsorted_lb _ _ _ Is) as Lo.
    destruct (veq a' v' && (1 <? Z.of_nat (length r))) eqn:Ec.
    + (* the sample at b repeats the value: it is popped *)
      apply andb_prop in Ec as [Ev _]. apply veq_true in Ev. subst v'.
      cbn [fst snd start]. split; [exact Em|].
      split; [apply dsorted_cons_lb; [intros c x Hin; specialize (Lo c x Hin); lia|apply (dsorted_tail _ _ Is)]|].
      split; [discriminate|]. split; [reflexivity|].
      intros t. rewrite den_opt_cons. destruct (Z.leb_spec a t) as [Ha|Ha]; [|reflexivity].
      destruct (Z.lt_ge_cases t b) as [Hlt|Hge].
      * rewrite den_opt_before by (intros c x Hin; specialize (Lo c x Hin); lia). rewrite Dlow by lia. reflexivity.
      * rewrite Dhigh by exact Hge. specialize (Id t). cbn [den_opt] in Id. rewrite Hb in Id.
        destruct (Z.leb_spec b t); [|lia]. exact Id.
    + cbn [fst snd start]. split; [exact Em|].
      split; [apply dsorted_cons_lb; [intros c x [E|Hin]; [injection E as <- <-; lia|specialize (Lo c x Hin); lia]|exact Is]|].
      split; [discriminate|]. split; [reflexivity|].
      intros t. rewrite den_opt_cons. destruct (Z.leb_spec a t) as [Ha|Ha]; [|reflexivity].
      destruct (Z.lt_ge_cases t b) as [Hlt|Hge].
      * rewrite den_opt_before by (intros c x [E|Hin]; [injection E as <- <-; lia|specialize (Lo c x Hin); lia]). rewrite Dlow by lia. reflexivity.
      * rewrite Dhigh by exact Hge. rewrite Hb in *. specialize (Id t). destruct (Z.leb_spec b t); [|lia]. rewrite Id. reflexivity.
Qed.

Lemma after_ticks_min s t far z : dsorted s -> s <> [] -> start s <= t -> t <= far -> ub far s ->
  (leb z (den s t) = true /\ forall v, In v (after t s) -> leb z v = true) <-> (forall u, t <= u <= far -> leb z (den s u) = true).
Proof.
  intros H N Hs Hf U. split.
  - intros [H0 Hv] u Hu. unfold den at 1. destruct (den_opt s u) as [v|] eqn:E.
    + destruct (den_opt_greatest s H u v E) as (c & Hin & Hc & Hg).
      destruct (Z.le_gt_cases c t) as [Hct|Hct].
      * pose proof (den_same_piece s H t u v c E Hin ltac:(lia) Hg) as Et. unfold den in H0. rewrite Et in H0. exact H0.
      * apply Hv. apply in_after. exists c. split; [exact Hin|lia].
    + exfalso. apply (proj2 (den_opt_start s H N u)); [lia|exact E].
  - intros Hu. split; [apply Hu; lia|]. intros v Hv. apply in_after in Hv as (c & Hin & Hc).
    specialize (Hu c ltac:(pose proof (U c v Hin); lia)). unfold den in Hu. rewrite (den_at_stamp s H c v Hin) in Hu. exact Hu.
Qed.

Lemma good_alw s t0 F far : good s t0 F -> ub far s ->
  good (alw_op s) t0 (fun t => zmin F t (Z.max t far)).
Proof.
  intros G U. pose proof G as (Hs & Hne & Hst & Hd). unfold alw_op.
  destruct (rev_fold_min_spec s Hs Hne) as (_ & S' & N' & St' & D').
  split; [exact S'|]. split; [exact N'|]. split; [congruence|].
  intros t. rewrite D', Hst. destruct (Z.leb_spec t0 t) as [Ht|Ht]; destruct (Z.ltb_spec t t0) as [Ht'|Ht']; try lia; [|reflexivity].
  f_equal. transitivity (zmin (den s) t (Z.max t far)).
  - apply eq_by_lb. intros z. rewrite vmin_glb, minl_lb, zmin_lb. apply after_ticks_min; try assumption; try lia.
    intros c x Hin. pose proof (U c x Hin). lia.
  - apply zmin_ext. intros u Hu. apply (good_den s t0 F u G). lia.
Qed.


(* ---------------- windows whose far end lies where the signal no longer changes ---------------- *)
Lemma zmax_tail_const (F : Z -> V) t A B : t <= A <= B -> (forall u, A <= u <= B -> F u = F A) -> zmax F t B = zmax F t A.
Proof.
  intros H Hc. apply eq_by_ub. intros z. rewrite !zmax_ub. split.
  - intros Hz u Hu. apply Hz. lia.
  - intros Hz u Hu. destruct (Z.le_gt_cases u A); [apply Hz; lia|]. rewrite Hc by lia. apply Hz. lia.
Qed.
Lemma zmin_tail_const (F : Z -> V) t A B : t <= A <= B -> (forall u, A <= u <= B -> F u = F A) -> zmin F t B = zmin F t A.
Proof.
  intros H Hc. apply eq_by_lb. intros z. rewrite !zmin_lb. split.
  - intros Hz u Hu. apply Hz. lia.
  - intros Hz u Hu. destruct (Z.le_gt_cases u A); [apply Hz; lia|]. rewrite Hc by lia. apply Hz. lia.
Qed.
Lemma zmax_far (F : Z -> V) t A B : t <= A -> t <= B -> (forall u, A <= u -> F u = F A) -> (forall u, B <= u -> F u = F B) -> zmax F t A = zmax F t B.
Proof.
  intros HA HB CA CB. rewrite <- (zmax_tail_const F t A (Z.max A B)) by (try lia; intros u Hu; apply CA; lia).
  rewrite <- (zmax_tail_const F t B (Z.max A B)) by (try lia; intros u Hu; apply CB; lia). reflexivity.
Qed.
Lemma zmin_far (F : Z -> V) t A B : t <= A -> t <= B -> (forall u, A <= u -> F u = F A) -> (forall u, B <= u -> F u = F B) -> zmin F t A = zmin F t B.
Proof.
  intros HA HB CA CB. rewrite <- (zmin_tail_const F t A (Z.max A B)) by (try lia; intros u Hu; apply CA; lia).
  rewrite <- (zmin_tail_const F t B (Z.max A B)) by (try lia; intros u Hu; apply CB; lia). reflexivity.
Qed.
Lemma zmax_one (F : Z -> V) t : zmax F t t = F t.
Proof. apply eq_by_ub. intros z. rewrite zmax_ub. split; [intros H; apply H; lia|intros H u Hu; replace u with t by lia; exact H]. Qed.
Lemma zmin_one (F : Z -> V) t : zmin F t t = F t.
Proof. apply eq_by_lb. intros z. rewrite zmin_lb. split; [intros H; apply H; lia|intros H u Hu; replace u with t by lia; exact H]. Qed.

Lemma den_const_after s hi : ub hi s -> forall u, hi <= u -> den_opt s u = den_opt s hi.
Proof.
  induction s as [|[a v] r IH]; intros U u Hu; [reflexivity|]. rewrite !den_opt_cons.
  pose proof (U a v (or_introl eq_refl)). destruct (Z.leb_spec a u); [|lia]. destruct (Z.leb_spec a hi); [|lia].
  rewrite (IH (fun b w Hin => U b w (or_intror Hin)) u Hu). reflexivity.
Qed.
Fixpoint maxstamp (s : dsig) : Z := match s with [] => 0 | (a, _) :: r => Z.max a (maxstamp r) end.
Lemma ub_maxstamp s : ub (maxstamp s) s.
Proof.
  induction s as [|[a v] r IH]; intros b w Hin; [destruct Hin|]. cbn [maxstamp].
  destruct Hin as [E|Hin]; [injection E as <- <-; lia|]. specialize (IH b w Hin). lia.
Qed.

Lemma good_self s : dsorted s -> s <> [] -> good s (start s) (den s).
Proof.
  intros H N. split; [exact H|]. split; [exact N|]. split; [reflexivity|].
  intros t. destruct (Z.ltb_spec t (start s)) as [Ht|Ht].
  - destruct (den_opt s t) eqn:E; [|reflexivity]. exfalso. assert (den_opt s t <> None) by congruence.
    apply (proj1 (den_opt_start s H N t)) in H0. lia.
  - unfold den. destruct (den_opt s t) eqn:E; [reflexivity|]. exfalso. apply (proj2 (den_opt_start s H N t)); [lia|exact E].
Qed.
Lemma good_ext s t0 F G : good s t0 F -> (forall t, t0 <= t -> F t = G t) -> good s t0 G.
Proof.
  intros (H1 & H2 & H3 & H4) E. split; [exact H1|]. split; [exact H2|]. split; [exact H3|].
  intros t. rewrite H4. destruct (Z.ltb_spec t t0); [reflexivity|]. f_equal. apply E. lia.
Qed.
Lemma good_const_after s t0 F : good s t0 F -> forall u, Z.max t0 (maxstamp s) <= u -> F u = F (Z.max t0 (maxstamp s)).
Proof.
  intros G u Hu. rewrite <- (good_den s t0 F u G) by lia. rewrite <- (good_den s t0 F (Z.max t0 (maxstamp s)) G) by lia.
  unfold den. rewrite (den_const_after s (Z.max t0 (maxstamp s))) by (try lia; intros b w Hin; pose proof (ub_maxstamp s b w Hin); lia). reflexivity.
Qed.


End EvalCorrect.
