(* PyDenseOff.v — the run-time library of tools/py2coq_denseoffline.py beyond PySem.v / PyDense.v: the Python primitives that the
   dense-time OFFLINE visitor (rtamt/semantics/stl/dense_time/offline/ast_visitor.py) uses.  Conventions (those of the hand models
   DenseEval.v / DenseWin.v): time stamps are ticks (Z); a signal is the list of its samples with finite stamps; `tz` is a stamp or
   float('inf') (the end of the last piece); float('nan') is the None of `option V`: it is equal to nothing, itself included.
   None of an option-valued primitive is a raised exception, except py_fin / py_notnan, where it says that the run leaves the model
   (a stamp +inf stored as the start of a piece or as the stamp of a sample; a NaN stored as the value of a sample). *)
From Coq Require Import List Bool Arith ZArith Lia.
From RV Require Import Val Syntax Rho Online Dense DenseMerge PySem.
Import ListNotations.
Local Open Scope Z_scope.

(* enumerate(l) *)
Fixpoint py_enum_from {A : Type} (k : Z) (l : list A) : list (Z * A) :=
  match l with
  | [] => []
  | x :: r => (k, x) :: py_enum_from (k + 1) r
  end.
Definition py_enumerate {A : Type} (l : list A) : list (Z * A) := py_enum_from 0 l.

Section PyDenseOff.
Context {VS : Val}.

(* o == v, a == b where o, a, b may be float('nan') (None) *)
Definition ov_eq (o : option V) (v : V) : bool := match o with Some p => veq p v | None => false end.
Definition ov_eq2 (a b : option V) : bool := match a, b with Some x, Some y => veq x y | _, _ => false end.
(* a possibly-NaN value stored as the value of a sample: NaN is outside the model *)
Definition py_notnan (o : option V) : option V := o.
(* a possibly-infinite stamp stored as the start of a piece: +inf is outside the model *)
Definition py_fin (t : tz) : option Z := match t with T z => Some z | TInf => None end.

End PyDenseOff.
