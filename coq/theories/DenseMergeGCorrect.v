(* DenseMergeGCorrect.v — correctness of the merge with an arbitrary result type (DenseMergeG.isect_g):
   the same loop invariant as DenseMergeCorrect, the output side stated for any type B with a sound equality test. *)
From Coq Require Import List Bool Arith ZArith Lia ZifyBool.
From RV Require Import Val Syntax Rho Online Dense DenseMerge DenseMergeCorrect DenseMergeG.
Import ListNotations.
Local Open Scope Z_scope.

Section Poly.
Variable A : Type.
Variable a0 : A.

Fixpoint pe (l : list (tz * A)) (t : Z) : option A :=
  match l with
  | [] => None
  | (a, v) :: r => if tle_z a t then match pe r t with Some w => Some w | None => Some v end else None
  end.
Fixpoint psorted (l : list (tz * A)) : Prop :=
  match l with
  | [] => True
  | (a, _) :: r => match r with [] => True | (b, _) :: _ => tlt a b = true end /\ psorted r
  end.
Definition pall_before (out : list (tz * A)) (m : tz) : Prop := forall a v, In (a, v) out -> tlt a m = true.

(* sample lists with finite stamps *)
Fixpoint pden (s : list (Z * A)) (t : Z) : option A :=
  match s with
  | [] => None
  | (ti, vi) :: r => if ti <=? t then match pden r t with Some v => Some v | None => Some vi end else None
  end.
Fixpoint pdsorted (s : list (Z * A)) : Prop :=
  match s with
  | [] => True
  | (a, _) :: r => match r with [] => True | (b, _) :: _ => a < b end /\ pdsorted r
  end.
Definition pstart (s : list (Z * A)) : Z := match s with (t, _) :: _ => t | [] => 0 end.

Lemma pe_cons_some a v r t w : tle_z a t = true -> pe r t = Some w -> pe ((a, v) :: r) t = Some w.
Proof. intros H1 H2. cbn [pe]. rewrite H1, H2. reflexivity. Qed.
Lemma pe_app_after out a v t : tle_z a t = false -> pe (out ++ [(a, v)]) t = pe out t.
Proof.
  intros H. induction out as [|[b w] out IH]; cbn [app pe].
  - rewrite H. reflexivity.
  - rewrite IH. reflexivity.
Qed.
Lemma pe_all_le out t : out <> [] -> (forall a v, In (a, v) out -> tle_z a t = true) -> pe out t = Some (snd (last out (TInf, a0))).
Proof.
  induction out as [|[b w] out IH]; intros Hne H; [congruence|].
  destruct out as [|x out'].
  - cbn. rewrite (H b w (or_introl eq_refl)). reflexivity.
  - assert (E : pe (x :: out') t = Some (snd (last (x :: out') (TInf, a0)))).
    { apply IH; [discriminate|]. intros a v Hin. apply (H a v). right. exact Hin. }
    change (last ((b, w) :: x :: out') (TInf, a0)) with (last (x :: out') (TInf, a0)).
    apply pe_cons_some; [apply (H b w); left; reflexivity|exact E].
Qed.
Lemma pall_before_weaken out m m' : pall_before out m -> (forall a, tlt a m = true -> tlt a m' = true) -> pall_before out m'.
Proof. intros Hb H a w Hin. apply H. apply (Hb a w Hin). Qed.
Lemma psorted_snoc out m v : psorted out -> pall_before out m -> psorted (out ++ [(m, v)]).
Proof.
  induction out as [|[a w] r IH]; intros Hs Hb; [cbn; auto|].
  destruct Hs as [Hh Hs]. cbn [app psorted]. split.
  - destruct r as [|[b w'] r']; cbn [app]; [apply (Hb a w); left; reflexivity|exact Hh].
  - apply IH; [exact Hs|]. intros a' w' Hin. apply (Hb a' w'). right. exact Hin.
Qed.
End Poly.
Arguments pe {A}. Arguments psorted {A}. Arguments pall_before {A}. Arguments pden {A}. Arguments pdsorted {A}. Arguments pstart {A}.

Ltac tz_crush :=
  unfold tmax; cbn [tlt teq tle_z]; intros;
  repeat (match goal with
          | |- context [if ?b then _ else _] => destruct b eqn:?
          | H : context [if ?b then _ else _] |- _ => destruct b eqn:?
          end; cbn [tlt teq tle_z] in * );
  try discriminate; try reflexivity; try lia.

Section MergeGCorrect.
Context {VS : Val}.
Variable B : Type.
Variable beq : B -> B -> bool.
Variable b0 : B.
Hypothesis beq_true : forall x y, beq x y = true -> x = y.

Definition lift2g (f : V -> V -> B) (a b : option V) : option B :=
  match a, b with Some x, Some y => Some (f x y) | _, _ => None end.

Lemma pe_append out m v t :
  pall_before out m ->
  pe (append_g B beq out (m, v)) t = if tle_z m t then Some v else pe out t.
Proof.
  intros Hb. unfold append_g.
  assert (Hle : tle_z m t = true -> forall a w, In (a, w) out -> tle_z a t = true).
  { intros Hm a w Hin. eapply tle_z_lt; [apply (Hb a w Hin)|exact Hm]. }
  destruct (rev out) as [|[pa pv] l] eqn:E.
  - assert (out = []) by (apply (f_equal (@rev _)) in E; rewrite rev_involutive in E; exact E). subst out.
    cbn. destruct (tle_z m t); reflexivity.
  - assert (Ho : out = rev l ++ [(pa, pv)]).
    { apply (f_equal (@rev _)) in E. rewrite rev_involutive in E. exact E. }
    cbn [snd]. destruct (beq pv v) eqn:Eb.
    + apply beq_true in Eb. destruct (tle_z m t) eqn:Hm; [|reflexivity].
      rewrite (pe_all_le B b0); [|rewrite Ho; destruct (rev l); discriminate|apply Hle; reflexivity].
      rewrite Ho, last_last. cbn. congruence.
    + destruct (tle_z m t) eqn:Hm.
      * rewrite (pe_all_le B b0).
        -- rewrite last_last. reflexivity.
        -- destruct out; discriminate.
        -- intros a w Hin. apply in_app_or in Hin as [Hin|[Hin|[]]]; [apply (Hle eq_refl a w Hin)|congruence].
      * apply pe_app_after. exact Hm.
Qed.
Lemma pall_before_append out m m' v : pall_before out m -> tlt m m' = true -> pall_before (append_g B beq out (m, v)) m'.
Proof.
  intros Hb Hm a w Hin. unfold append_g in Hin.
  assert (Hout : forall a w, In (a, w) out -> tlt a m' = true).
  { intros a' w' H'. eapply tlt_trans; [apply (Hb a' w' H')|exact Hm]. }
  destruct (rev out) as [|[pa pv] l].
  - destruct Hin as [Hin|[]]. congruence.
  - destruct (beq pv (snd (m, v))); [apply (Hout a w Hin)|].
    apply in_app_or in Hin as [Hin|[Hin|[]]]; [apply (Hout a w Hin)|congruence].
Qed.
Lemma psorted_append out m v : psorted out -> pall_before out m -> psorted (append_g B beq out (m, v)).
Proof.
  intros Hs Hb. unfold append_g. destruct (rev out) as [|[pa pv] l] eqn:E; [cbn; auto|].
  destruct (beq pv (snd (m, v))); [exact Hs|]. apply psorted_snoc; assumption.
Qed.


Section Loop.
Variable f : V -> V -> B.
Variables E1 E2 : esig.

Definition Invg (l1 l2 : esig) (out : list (tz * B)) : Prop :=
  esorted l1 /\ esorted l2 /\ ends_inf l1 /\ ends_inf l2 /\
  (forall t, tle_z (hd_time l1) t = true -> eden E1 t = eden l1 t) /\
  (forall t, tle_z (hd_time l2) t = true -> eden E2 t = eden l2 t) /\
  (forall t, tle_z (hd_time l1) t && tle_z (hd_time l2) t = false -> pe out t = lift2g f (eden E1 t) (eden E2 t)) /\
  pall_before out (tmax (hd_time l1) (hd_time l2)).

Definition Postg (out : list (tz * B)) : Prop :=
  (forall t, pe out t = lift2g f (eden E1 t) (eden E2 t)) /\ pall_before out TInf.

Lemma invg_done1 a v l2 out : Invg [(a, v)] l2 out -> Postg out.
Proof.
  intros (_ & _ & Hi & _ & _ & _ & Ha & Hb). cbn in Hi. subst a. split.
  - intros t. apply Ha. reflexivity.
  - cbn [hd_time] in Hb. unfold tmax in Hb. cbn [tlt] in Hb. exact Hb.
Qed.
Lemma invg_done2 l1 a v out : Invg l1 [(a, v)] out -> Postg out.
Proof.
  intros (_ & _ & _ & Hi & _ & _ & Ha & Hb). cbn in Hi. subst a. split.
  - intros t. apply Ha. cbn [hd_time tle_z]. apply andb_false_r.
  - cbn [hd_time] in Hb. unfold tmax in Hb. destruct (hd_time l1); cbn [tlt] in Hb; exact Hb.
Qed.
Lemma invg_nil1 l2 out : ~ Invg [] l2 out.
Proof. intros (_ & _ & Hi & _). exact Hi. Qed.
Lemma invg_nil2 l1 out : ~ Invg l1 [] out.
Proof. intros (_ & _ & _ & Hi & _). exact Hi. Qed.

Lemma invg_pop1 p1 v1 c1 w1 r1 l2 out :
  Invg ((p1, v1) :: (c1, w1) :: r1) l2 out -> tlt (hd_time l2) c1 = false ->
  Invg ((c1, w1) :: r1) l2 out.
Proof.
  intros (S1 & S2 & I1 & I2 & D1 & D2 & Ha & Hb) Hc.
  destruct S1 as [L1 S1]. cbn [hd_time] in *.
  split; [exact S1|]. split; [exact S2|]. split; [exact I1|]. split; [exact I2|].
  split; [|split; [exact D2|split]].
  - intros t Ht. rewrite D1 by (eapply tle_z_lt; eauto). apply eden_tail; assumption.
  - intros t Ht. apply Ha. destruct (tle_z (hd_time l2) t) eqn:E2'; [|apply andb_false_r].
    cbn [hd_time] in Ht. rewrite (tle_z_trans _ _ _ Hc E2') in Ht. discriminate.
  - eapply pall_before_weaken; [exact Hb|]. intros a. apply tlt_tmax_mono1. exact L1.
Qed.

Lemma invg_pop2 l1 p2 v2 c2 w2 r2 out :
  Invg l1 ((p2, v2) :: (c2, w2) :: r2) out -> tlt (hd_time l1) c2 = false ->
  Invg l1 ((c2, w2) :: r2) out.
Proof.
  intros (S1 & S2 & I1 & I2 & D1 & D2 & Ha & Hb) Hc.
  destruct S2 as [L2 S2]. cbn [hd_time] in *.
  split; [exact S1|]. split; [exact S2|]. split; [exact I1|]. split; [exact I2|].
  split; [exact D1|split; [|split]].
  - intros t Ht. rewrite D2 by (eapply tle_z_lt; eauto). apply eden_tail; assumption.
  - intros t Ht. apply Ha. destruct (tle_z (hd_time l1) t) eqn:E1'; [|reflexivity].
    cbn [hd_time] in Ht. rewrite (tle_z_trans _ _ _ Hc E1') in Ht. discriminate.
  - eapply pall_before_weaken; [exact Hb|]. intros a. apply tlt_tmax_mono2. exact L2.
Qed.

Lemma invg_emit1 p1 v1 c1 w1 r1 p2 v2 c2 w2 r2 out :
  Invg ((p1, v1) :: (c1, w1) :: r1) ((p2, v2) :: (c2, w2) :: r2) out ->
  tlt p2 c1 = true -> tlt c2 c1 = false ->
  Invg ((c1, w1) :: r1) ((p2, v2) :: (c2, w2) :: r2) (append_g B beq out (tmax p1 p2, f v1 v2)).
Proof.
  intros (S1 & S2 & I1 & I2 & D1 & D2 & Ha & Hb) Ho Hc.
  destruct S1 as [L1 S1]. cbn [hd_time] in *.
  split; [exact S1|]. split; [exact S2|]. split; [exact I1|]. split; [exact I2|].
  split; [|split; [exact D2|split]].
  - intros t Ht. rewrite D1 by (eapply tle_z_lt; eauto). apply eden_tail; assumption.
  - intros t Ht. rewrite (pe_append _ _ _ _ Hb), tle_z_tmax.
    destruct (tle_z p1 t) eqn:T1, (tle_z p2 t) eqn:T2; cbn [andb];
      try (apply Ha; rewrite T1, T2; reflexivity).
    cbn [hd_time] in Ht. rewrite ?T2, ?andb_true_r in Ht.
    rewrite (D1 t T1), (D2 t T2), (eden_head _ _ _ _ _ _ T1 Ht).
    rewrite eden_head; [reflexivity|exact T2|].
    destruct (tle_z c2 t) eqn:T3; [|reflexivity]. rewrite (tle_z_trans _ _ _ Hc T3) in Ht. discriminate.
  - apply pall_before_append; [exact Hb|]. apply tlt_emit1; assumption.
Qed.

Lemma invg_emit2 p1 v1 c1 w1 r1 p2 v2 c2 w2 r2 out :
  Invg ((p1, v1) :: (c1, w1) :: r1) ((p2, v2) :: (c2, w2) :: r2) out ->
  tlt p1 c2 = true -> tlt c2 c1 = true ->
  Invg ((p1, v1) :: (c1, w1) :: r1) ((c2, w2) :: r2) (append_g B beq out (tmax p1 p2, f v1 v2)).
Proof.
  intros (S1 & S2 & I1 & I2 & D1 & D2 & Ha & Hb) Ho Hc.
  destruct S2 as [L2 S2]. cbn [hd_time] in *.
  split; [exact S1|]. split; [exact S2|]. split; [exact I1|]. split; [exact I2|].
  split; [exact D1|split; [|split]].
  - intros t Ht. rewrite D2 by (eapply tle_z_lt; eauto). apply eden_tail; assumption.
  - intros t Ht. rewrite (pe_append _ _ _ _ Hb), tle_z_tmax.
    destruct (tle_z p1 t) eqn:T1, (tle_z p2 t) eqn:T2; cbn [andb];
      try (apply Ha; rewrite T1, T2; reflexivity).
    cbn [hd_time] in Ht. rewrite ?T1 in Ht. cbn [andb] in Ht.
    rewrite (D1 t T1), (D2 t T2), (eden_head _ _ _ _ _ _ T2 Ht).
    rewrite eden_head; [reflexivity|exact T1|].
    destruct (tle_z c1 t) eqn:T3; [|reflexivity]. rewrite (tle_z_lt _ _ _ Hc T3) in Ht. discriminate.
  - apply pall_before_append; [exact Hb|]. apply tlt_emit2; assumption.
Qed.

Lemma isect_loop_g_correct : forall fuel l1 l2 out,
  (length l1 + length l2 <= S fuel)%nat -> Invg l1 l2 out -> psorted out ->
  exists out', isect_loop_g B beq fuel f l1 l2 out = Some out' /\ Postg out' /\ psorted out'.
Proof.
  induction fuel as [|fuel IH]; intros l1 l2 out Hlen HI Hso.
  - destruct l1 as [|x1 l1]; [destruct (invg_nil1 _ _ HI)|]. destruct l2 as [|x2 l2]; [destruct (invg_nil2 _ _ HI)|].
    cbn [length] in Hlen. lia.
  - destruct l1 as [|[p1 v1] l1]; [destruct (invg_nil1 _ _ HI)|]. destruct l2 as [|[p2 v2] l2]; [destruct (invg_nil2 _ _ HI)|].
    destruct l1 as [|[c1 w1] r1]; [exists out; split; [reflexivity|split; [eapply invg_done1; exact HI|exact Hso]]|].
    destruct l2 as [|[c2 w2] r2]; [exists out; split; [reflexivity|split; [eapply invg_done2; exact HI|exact Hso]]|].
    cbn [isect_loop_g].
    pose proof HI as (S1 & S2 & _). destruct S1 as [L1 _]. destruct S2 as [L2 _].
    pose proof (decide_spec p1 c1 p2 c2 L1 L2) as Hd.
    destruct (decide p1 c1 p2 c2) as [| |b|b|]; cbn [decide_ok] in Hd.
    + apply IH; [cbn [length] in *; lia| |exact Hso]. eapply invg_pop1; [exact HI|exact Hd].
    + apply IH; [cbn [length] in *; lia| |exact Hso]. eapply invg_pop2; [exact HI|exact Hd].
    + destruct Hd as (Ho1 & Ho2 & Hc & ->). pose proof HI as (_ & _ & _ & _ & _ & _ & _ & Hb).
      apply IH; [cbn [length] in *; lia| |apply psorted_append; assumption]. apply invg_emit1; assumption.
    + destruct Hd as (Ho1 & Ho2 & Hc & ->). pose proof HI as (_ & _ & _ & _ & _ & _ & _ & Hb).
      apply IH; [cbn [length] in *; lia| |apply psorted_append; assumption]. apply invg_emit2; assumption.
    + destruct Hd.
Qed.

End Loop.

Lemma finite_g_den out : pall_before out TInf -> forall t, pden (finite_g B out) t = pe out t.
Proof.
  induction out as [|[a v] r IH]; intros Hb t; [reflexivity|].
  assert (Ha : tlt a TInf = true) by (apply (Hb a v); left; reflexivity).
  destruct a as [z|]; [|discriminate].
  unfold finite_g. cbn [flat_map fst snd app]. fold (finite_g B r).
  cbn [pden pe tle_z]. rewrite IH; [reflexivity|]. intros a' v' Hin. apply (Hb a' v'). right. exact Hin.
Qed.
Lemma finite_g_sorted out : pall_before out TInf -> psorted out -> pdsorted (finite_g B out).
Proof.
  induction out as [|[a v] r IH]; intros Hb Hs; [cbn; auto|].
  assert (Ha : tlt a TInf = true) by (apply (Hb a v); left; reflexivity).
  destruct a as [z|]; [|discriminate].
  assert (Hr : pall_before r TInf) by (intros a' v' Hin; apply (Hb a' v'); right; exact Hin).
  destruct Hs as [Hh Hs].
  unfold finite_g. cbn [flat_map fst snd app]. fold (finite_g B r). cbn [pdsorted]. split; [|apply IH; assumption].
  destruct r as [|[b w] r']; [cbn; auto|].
  assert (Hbt : tlt b TInf = true) by (apply (Hr b w); left; reflexivity).
  destruct b as [zb|]; [|discriminate]. unfold finite_g. cbn [flat_map fst snd app]. cbn [tlt] in Hh. lia.
Qed.

Theorem isect_g_correct (f : V -> V -> B) s1 s2 :
  dsorted s1 -> dsorted s2 ->
  exists out, isect_g B beq f s1 s2 = Some out /\ pdsorted out /\
              forall t, pden out t = lift2g f (den_opt s1 t) (den_opt s2 t).
Proof.
  intros H1 H2. unfold isect_g.
  destruct s1 as [|x1 r1]; [exists []; split; [reflexivity|split; [cbn; auto|reflexivity]]|].
  destruct s2 as [|x2 r2].
  { exists []. split; [reflexivity|split; [cbn; auto|]]. intros t. change (den_opt [] t) with (@None V). destruct (den_opt (x1 :: r1) t); reflexivity. }
  set (s1 := x1 :: r1) in *. set (s2 := x2 :: r2) in *.
  rewrite !extend_eq by discriminate.
  set (e1 := map inj s1 ++ _). set (e2 := map inj s2 ++ _).
  destruct (isect_loop_g_correct f e1 e2 (length s1 + length s2 + 2) e1 e2 []) as (out & Hrun & [Hval Hfin] & Hsort).
  - unfold e1, e2. rewrite !app_length, !map_length. cbn [length]. lia.
  - unfold Invg. split; [apply esorted_inj; exact H1|]. split; [apply esorted_inj; exact H2|].
    split; [apply ends_inf_inj|]. split; [apply ends_inf_inj|].
    split; [reflexivity|]. split; [reflexivity|]. split.
    + intros t Ht. cbn [eden pe]. unfold e1, e2, s1, s2 in *. destruct x1 as [t1 v1], x2 as [t2 v2].
      cbn [map app inj fst snd hd_time tle_z eden] in *.
      destruct (t1 <=? t); cbn [andb] in Ht; [|reflexivity]. rewrite Ht.
      match goal with |- None = lift2g f ?a None => destruct a; reflexivity end.
    + intros a v [].
  - cbn; auto.
  - rewrite Hrun. cbn [option_map]. exists (finite_g B out). split; [reflexivity|].
    split; [apply finite_g_sorted; assumption|].
    intros t. rewrite finite_g_den by exact Hfin. rewrite Hval. unfold e1, e2. rewrite !eden_inj. reflexivity.
Qed.



(* the result starts where the common domain starts *)
Lemma pden_start (s : list (Z * B)) : pdsorted s -> s <> [] -> forall t, pden s t <> None <-> pstart s <= t.
Proof.
  intros Hs Hne t. destruct s as [|[t1 v1] r]; [congruence|]. cbn [pden pstart].
  destruct (Z.leb_spec t1 t) as [H|H].
  - split; [intros _; exact H|intros _]. destruct (pden r t); discriminate.
  - split; [congruence|lia].
Qed.
Lemma isect_g_start (f : V -> V -> B) s1 s2 out :
  dsorted s1 -> dsorted s2 -> s1 <> [] -> s2 <> [] -> isect_g B beq f s1 s2 = Some out ->
  out <> [] /\ pstart out = Z.max (start s1) (start s2).
Proof.
  intros H1 H2 N1 N2 E.
  destruct (isect_g_correct f s1 s2 H1 H2) as (out' & E' & Hs & Hv). rewrite E in E'. injection E' as <-.
  assert (Hdef : forall t, pden out t <> None <-> Z.max (start s1) (start s2) <= t).
  { intros t. rewrite Hv. pose proof (den_opt_start s1 H1 N1 t) as D1. pose proof (den_opt_start s2 H2 N2 t) as D2.
    destruct (den_opt s1 t), (den_opt s2 t); cbn [lift2g]; split; intros H; try congruence.
    - apply Z.max_lub; [apply D1|apply D2]; discriminate.
    - exfalso. apply (proj2 D2); [lia|reflexivity].
    - exfalso. apply (proj2 D1); [lia|reflexivity].
    - exfalso. apply (proj2 D1); [lia|reflexivity]. }
  assert (Hne : out <> []).
  { intros ->. apply (proj2 (Hdef (Z.max (start s1) (start s2)))); [lia|reflexivity]. }
  split; [exact Hne|].
  pose proof (pden_start out Hs Hne) as D.
  assert (A1 : pstart out <= Z.max (start s1) (start s2)) by (apply D, Hdef; lia).
  assert (B1 : Z.max (start s1) (start s2) <= pstart out) by (apply Hdef, D; lia).
  lia.
Qed.

End MergeGCorrect.
