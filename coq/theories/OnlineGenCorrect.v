(* OnlineGenCorrect.v — HAND-written: every operation class of OnlineGen.v (GENERATED from the Python text of
   rtamt/semantics/{stl,iastl}/discrete_time/online/*_operation.py by tools/py2coq_online.py) refines the hand model of
   Online.v (op_init / ustep / bstep / op_reset), so that online_correct (C02) applies to what the code says now.
   A simulation relation R between the generated record (Python ints are Z, deques are lists with dq_append/dq_get,
   raising methods return option) and Online.opstate carries the differences of representation. *)
From Coq Require Import List Bool Arith ZArith Lia.
From RV Require Import Val Syntax Rho Offline ListFacts IA Online OnlineGen.
Import ListNotations.

(* ---------- lists, ranges, folds ---------- *)
Lemma zrange_nat a b : zrange (Z.of_nat a) (Z.of_nat b) = map Z.of_nat (seq a (b - a)).
Proof.
  unfold zrange. replace (Z.to_nat (Z.of_nat b - Z.of_nat a)) with (b - a) by lia.
  replace (seq a (b - a)) with (seq (a + 0) (b - a)) by (f_equal; lia).
  generalize 0 as lo. induction (b - a) as [|k IH]; intros lo; simpl; [reflexivity|].
  f_equal; [lia|]. rewrite IH. f_equal. f_equal. lia.
Qed.

Lemma fold_left_map_ {A B C} (f : A -> B -> A) (h : C -> B) l a :
  fold_left f (map h l) a = fold_left (fun a x => f a (h x)) l a.
Proof. revert a. induction l as [|x l IH]; intros a; simpl; [reflexivity|apply IH]. Qed.

Lemma fold_left_ext_in {A B} (f g : A -> B -> A) l a :
  (forall a i, In i l -> f a i = g a i) -> fold_left f l a = fold_left g l a.
Proof.
  revert a. induction l as [|x l IH]; intros a H; simpl; [reflexivity|].
  rewrite H by (left; reflexivity). apply IH. intros a' i Hi. apply H. right. exact Hi.
Qed.

(* a fold that preserves an invariant under which the two bodies agree *)
Lemma fold_left_inv {A B} (P : A -> Prop) (f g : A -> B -> A) l a :
  (forall a i, P a -> f a i = g a i /\ P (g a i)) -> P a -> fold_left f l a = fold_left g l a /\ P (fold_left g l a).
Proof.
  intros H. revert a. induction l as [|x l IH]; intros a Pa; simpl; [split; [reflexivity|exact Pa]|].
  destruct (H a x Pa) as [E Pg]. rewrite E. apply IH. exact Pg.
Qed.

(* a loop whose body cannot fail on the indices it runs over *)
Lemma for_range_nat {A} (body : A -> Z -> option A) (g : A -> nat -> A) lo hi a :
  (forall a i, lo <= i < lo + (hi - lo) -> body a (Z.of_nat i) = Some (g a i)) ->
  for_range (Z.of_nat lo) (Z.of_nat hi) body a = Some (fold_left g (seq lo (hi - lo)) a).
Proof.
  intros H. unfold for_range. rewrite zrange_nat, fold_left_map_.
  assert (G : forall l a, (forall i, In i l -> lo <= i < lo + (hi - lo)) ->
             fold_left (fun acc x => bind acc (fun a0 => body a0 (Z.of_nat x))) l (Some a) = Some (fold_left g l a)).
  { induction l as [|x l IH]; intros a0 Hl; simpl; [reflexivity|].
    rewrite H by (apply Hl; left; reflexivity). apply IH. intros i Hi. apply Hl. right. exact Hi. }
  apply G. intros i Hi. apply in_seq in Hi. exact Hi.
Qed.

Lemma for_range_p_nat {A} (body : A -> Z -> A) lo hi a :
  for_range_p (Z.of_nat lo) (Z.of_nat hi) body a = fold_left (fun a i => body a (Z.of_nat i)) (seq lo (hi - lo)) a.
Proof. unfold for_range_p. rewrite zrange_nat, fold_left_map_. reflexivity. Qed.

Lemma fold_left_pair {A B C} (f : A -> C -> A) (g : B -> C -> B) l a b :
  fold_left (fun (p : A * B) i => let '(x, y) := p in (f x i, g y i)) l (a, b) = (fold_left f l a, fold_left g l b).
Proof. revert a b. induction l as [|x l IH]; intros a b; simpl; [reflexivity|apply IH]. Qed.

(* the third component of a triple accumulator whose first two components are overwritten in every iteration *)
Lemma fold_left_third {A B C D} (F : A * B * C -> D -> A * B * C) (G : C -> D -> C) l a b c :
  (forall a b c i, In i l -> snd (F (a, b, c) i) = G c i) ->
  snd (fold_left F l (a, b, c)) = fold_left G l c.
Proof.
  revert a b c. induction l as [|x l IH]; intros a b c H; simpl; [reflexivity|].
  destruct (F (a, b, c) x) as [[a' b'] c'] eqn:E.
  assert (E' : c' = G c x). { rewrite <- (H a b c x) by (left; reflexivity). rewrite E. reflexivity. }
  subst c'. apply IH. intros a0 b0 c0 i Hi. apply H. right. exact Hi.
Qed.

Section GenCorrect.
Context {VS : Val} (AR : Arith VS).

(* ---------- deques ---------- *)
Lemma dq_get_nat (d : list V) i dflt : i < length d -> dq_get d (Z.of_nat i) = Some (nth i d dflt).
Proof.
  intros H. unfold dq_get. replace (0 <=? Z.of_nat i)%Z with true by (symmetry; apply Z.leb_le; lia).
  rewrite Nat2Z.id. apply nth_error_nth'. exact H.
Qed.

(* append to a full deque = Online.push *)
Lemma dq_append_full m (d : list V) x : length d = S m -> dq_append (Z.of_nat (S m)) d x = push d x.
Proof.
  intros H. unfold dq_append, push. rewrite app_length. simpl length.
  replace (length d + 1 - Z.to_nat (Z.of_nat (S m))) with 1 by lia.
  destruct d as [|y d]; [discriminate|]. reflexivity.
Qed.
Lemma push_length (d : list V) x : d <> [] -> length (push d x) = length d.
Proof. intros H. destruct d as [|y d]; [congruence|]. unfold push. simpl. rewrite app_length. simpl. lia. Qed.

(* append to a deque that is not full yet *)
Lemma dq_append_room m (d : list V) x : length d < Z.to_nat m -> dq_append m d x = d ++ [x].
Proof.
  intros H. unfold dq_append. rewrite app_length. simpl.
  replace (length d + 1 - Z.to_nat m) with 0 by lia. reflexivity.
Qed.

Lemma repeat_snoc (x : V) k : repeat x k ++ [x] = repeat x (S k).
Proof. simpl. rewrite repeat_cons. reflexivity. Qed.

(* reset() on the empty deques of __init__: end+1 appends of the pad *)
Lemma fill_empty (pad : V) m k j (l : list nat) : length l = k -> j + k <= Z.to_nat m ->
  fold_left (fun b _ => dq_append m b pad) l (repeat pad j) = repeat pad (j + k).
Proof.
  revert j k. induction l as [|x l IH]; intros j k Hl Hk; simpl in *.
  - subst k. f_equal. lia.
  - destruct k as [|k]; [discriminate|]. rewrite (dq_append_room m (repeat pad j) pad) by (rewrite (repeat_length pad j); lia).
    rewrite repeat_snoc. rewrite (IH (S j) k) by lia. f_equal. lia.
Qed.

(* reset() on full deques: Online.push_n, which ends in the initial buffer *)
Lemma push_n_repeat (pad : V) e : forall (d : list V), length d = S e -> push_n pad (S e) d = repeat pad (S e).
Proof.
  intros d Hd. unfold push_n.
  assert (G : forall (l : list nat) (d : list V) j, length d = S e -> S e <= j + length l ->
            (forall i, S e - j <= i -> i < S e -> nth i d pad = pad) ->
            fold_left (fun b _ => push b pad) l d = repeat pad (S e)).
  { induction l as [|x l IH]; intros d0 j Hd0 Hj Hpad.
    - cbn [fold_left]. cbn [length] in Hj.
      apply (nth_ext _ _ pad pad); [rewrite repeat_length; exact Hd0|].
      intros i Hi. rewrite nth_repeat_any by lia. apply Hpad; lia.
    - cbn [fold_left]. cbn [length] in Hj. apply (IH (push d0 pad) (S j)).
      + rewrite push_length; [exact Hd0|]. intros ->. discriminate.
      + lia.
      + intros i Hi1 Hi2. unfold push. destruct d0 as [|y d0]; [discriminate|].
        cbn [tl]. cbn [length] in Hd0.
        destruct (Nat.eq_dec i (length d0)) as [->|Hne].
        * rewrite app_nth2 by lia. rewrite Nat.sub_diag. reflexivity.
        * rewrite app_nth1 by lia. apply (Hpad (S i)); lia. }
  apply (G (seq 0 (S e)) d 0); [exact Hd|rewrite seq_length; lia|].
  intros i H1 H2. lia.
Qed.

Lemma reset_full (pad : V) e (d : list V) : length d = S e ->
  fold_left (fun b (_ : nat) => dq_append (Z.of_nat (S e)) b pad) (seq 0 (S e)) d = push_n pad (S e) d.
Proof.
  intros Hd. unfold push_n.
  apply (fold_left_inv (fun b : list V => length b = S e)); [|exact Hd].
  intros b i Hb. split; [apply dq_append_full; exact Hb|].
  rewrite push_length; [exact Hb|]. intros ->. discriminate.
Qed.

(* ---------- the simulation statements ---------- *)
Variable pk : formula -> formula -> pkind.

(* a class with update(sample) against ustep at node p; init may fail (option), update may fail, reset is pure *)
Definition sim_un {S : Type} (R : S -> opstate -> Prop) (init : option S) (upd : S -> V -> option (S * V)) (rst : S -> S)
  (p : formula) : Prop :=
  (exists s0, init = Some s0 /\ R s0 (op_init p)) /\
  (forall s h x, R s h -> exists s', upd s x = Some (s', snd (ustep AR p h x)) /\ R s' (fst (ustep AR p h x))) /\
  (forall s h, R s h -> R (rst s) (op_reset p h) /\ init = Some (rst s)).
Definition sim_bi {S : Type} (R : S -> opstate -> Prop) (init : option S) (upd : S -> V -> V -> option (S * V)) (rst : S -> S)
  (p : formula) : Prop :=
  (exists s0, init = Some s0 /\ R s0 (op_init p)) /\
  (forall s h x y, R s h -> exists s', upd s x y = Some (s', snd (bstep AR pk p h x y)) /\ R s' (fst (bstep AR pk p h x y))) /\
  (forall s h, R s h -> R (rst s) (op_reset p h) /\ init = Some (rst s)).
Definition pure1 {S : Type} (f : S -> V -> S * V) : S -> V -> option (S * V) := fun s x => Some (f s x).
Definition pure2 {S : Type} (f : S -> V -> V -> S * V) : S -> V -> V -> option (S * V) := fun s x y => Some (f s x y).

(* ---------- stateless classes ---------- *)
Definition R_none {S : Type} (s : S) (h : opstate) : Prop := h = StNone.

Lemma Not_sim f : sim_un R_none (Some NotOperation_init) (pure1 NotOperation_update) NotOperation_reset (Not f).
Proof. repeat split; try (eexists; split; reflexivity); try (destruct s; reflexivity). Qed.
Lemma And_sim f g : sim_bi R_none (Some AndOperation_init) (pure2 AndOperation_update) AndOperation_reset (And f g).
Proof. repeat split; try (eexists; split; reflexivity); try (destruct s; reflexivity). Qed.
Lemma Or_sim f g : sim_bi R_none (Some OrOperation_init) (pure2 OrOperation_update) OrOperation_reset (Or f g).
Proof. repeat split; try (eexists; split; reflexivity); try (destruct s; reflexivity). Qed.
Lemma Implies_sim f g : sim_bi R_none (Some ImpliesOperation_init) (pure2 ImpliesOperation_update) ImpliesOperation_reset (Implies f g).
Proof. repeat split; try (eexists; split; reflexivity); try (destruct s; reflexivity). Qed.
Lemma Iff_sim f g : sim_bi R_none (Some IffOperation_init) (pure2 (IffOperation_update AR)) IffOperation_reset (Iff f g).
Proof. repeat split; try (eexists; split; reflexivity); try (destruct s; reflexivity). Qed.
Lemma Xor_sim f g : sim_bi R_none (Some XorOperation_init) (pure2 (XorOperation_update AR)) XorOperation_reset (Xor f g).
Proof. repeat split; try (eexists; split; reflexivity); try (destruct s; reflexivity). Qed.

(* ---------- one-sample classes: the field is the St1 value ---------- *)
Ltac scalar R := split; [|split];
  [ eexists; split; [reflexivity|unfold R; cbn; rewrite ?neg_top; reflexivity]
  | intros [v] h; intros; match goal with H : R _ h |- _ => unfold R in H; cbn in H; subst h end; eexists; split; reflexivity
  | intros [v] h Hh; unfold R in Hh; cbn in Hh; subst h; split; unfold R; cbn; rewrite ?neg_top; reflexivity ].

Definition R_rise (s : RiseOperation_state) h := h = St1 (RiseOperation_prev s).
Lemma Rise_sim f : sim_un R_rise (Some RiseOperation_init) (pure1 RiseOperation_update) RiseOperation_reset (Rise f).
Proof. scalar R_rise. Qed.
Definition R_fall (s : FallOperation_state) h := h = St1 (FallOperation_prev s).
Lemma Fall_sim f : sim_un R_fall (Some FallOperation_init) (pure1 FallOperation_update) FallOperation_reset (Fall f).
Proof. scalar R_fall. Qed.
Definition R_prev (s : PreviousOperation_state) h := h = St1 (PreviousOperation_prev s).
Lemma Previous_sim f : sim_un R_prev (Some PreviousOperation_init) (pure1 PreviousOperation_update) PreviousOperation_reset (Prev f).
Proof. scalar R_prev. Qed.
Definition R_sprev (s : StrongPreviousOperation_state) h := h = St1 (StrongPreviousOperation_prev s).
Lemma StrongPrevious_sim f :
  sim_un R_sprev (Some StrongPreviousOperation_init) (pure1 StrongPreviousOperation_update) StrongPreviousOperation_reset (SPrev f).
Proof. scalar R_sprev. Qed.
Definition R_once (s : OnceOperation_state) h := h = St1 (OnceOperation_prev_out s).
Lemma Once_sim f : sim_un R_once (Some OnceOperation_init) (pure1 OnceOperation_update) OnceOperation_reset (Once f).
Proof. scalar R_once. Qed.
Definition R_hist (s : HistoricallyOperation_state) h := h = St1 (HistoricallyOperation_prev_out s).
Lemma Historically_sim f :
  sim_un R_hist (Some HistoricallyOperation_init) (pure1 HistoricallyOperation_update) HistoricallyOperation_reset (Hist f).
Proof. scalar R_hist. Qed.
Definition R_since (s : SinceOperation_state) h := h = St1 (SinceOperation_prev_out s).
Lemma Since_sim f g : sim_bi R_since (Some SinceOperation_init) (pure2 SinceOperation_update) SinceOperation_reset (Since f g).
Proof. scalar R_since. Qed.

(* AlwaysOperation / EventuallyOperation are never constructed by the online visitors (visitAlways / visitEventually raise):
   as code they are HistoricallyOperation / OnceOperation *)
Definition R_alw (s : AlwaysOperation_state) h := h = St1 (AlwaysOperation_prev_out s).
Lemma Always_sim f : sim_un R_alw (Some AlwaysOperation_init) (pure1 AlwaysOperation_update) AlwaysOperation_reset (Hist f).
Proof. scalar R_alw. Qed.
Definition R_ev (s : EventuallyOperation_state) h := h = St1 (EventuallyOperation_prev_out s).
Lemma Eventually_sim f : sim_un R_ev (Some EventuallyOperation_init) (pure1 EventuallyOperation_update) EventuallyOperation_reset (Once f).
Proof. scalar R_ev. Qed.

(* ---------- predicates ---------- *)
Lemma Predicate_update_eq c x y :
  PredicateOperation_update AR (PredicateOperation_mk c) x y = Some (PredicateOperation_mk c, pred_std AR c x y).
Proof. destruct c; reflexivity. Qed.
Lemma Predicate_sat_eq c (x y : V) :
  PredicateOperation_sat (PredicateOperation_mk c) x y = Some (PredicateOperation_mk c, pred_sat c x y).
Proof. destruct c; reflexivity. Qed.

Definition R_pred c (s : PredicateOperation_state) (h : opstate) := h = StNone /\ s = PredicateOperation_mk c.
Lemma Predicate_sim c f g : pk f g = PStd ->
  sim_bi (R_pred c) (Some (PredicateOperation_init c)) (PredicateOperation_update AR) PredicateOperation_reset (Pred c f g).
Proof.
  intros Hk. split; [|split].
  - eexists; split; [reflexivity|]. split; reflexivity.
  - intros s h x y [-> ->]. rewrite Predicate_update_eq. eexists; split; [|split; reflexivity].
    cbn. rewrite Hk. reflexivity.
  - intros s h [-> ->]. repeat split.
Qed.

(* the kind of predicate an IA PredicateOperation computes, from its fields *)
Definition gen_pk (sem : semantics) (iv ov : list nat) : pkind :=
  match sem with
  | Standard => PStd
  | OutputRobustness => if is_nil ov then PBool else PStd
  | InputRobustness => if is_nil iv then PBool else PStd
  | OutputVacuity => if is_nil ov then PVac else PStd
  | InputVacuity => if is_nil iv then PVac else PStd
  end.
(* ... is what IA.pk_impl says when the fields are the node's in_vars / out_vars *)
Lemma gen_pk_impl (io : nat -> bool) sem f g :
  gen_pk sem (in_vars_impl io f ++ in_vars_impl io g) (out_vars_impl io f ++ out_vars_impl io g) = pk_impl io sem f g.
Proof. destruct sem; reflexivity. Qed.

Lemma IAPredicate_update_eq c sem iv ov x y :
  IAPredicateOperation_update AR (IAPredicateOperation_mk c sem iv ov) x y
  = Some (IAPredicateOperation_mk c sem iv ov, pred_val AR (gen_pk sem iv ov) c x y).
Proof.
  unfold IAPredicateOperation_update, IAPredicateOperation_sat. cbn -[PredicateOperation_update PredicateOperation_sat].
  rewrite Predicate_update_eq. cbn -[PredicateOperation_update PredicateOperation_sat].
  rewrite Predicate_sat_eq. cbn -[PredicateOperation_update PredicateOperation_sat pred_std pred_sat].
  destruct sem, iv, ov; cbn -[pred_std pred_sat]; try reflexivity;
  destruct (pred_sat c x y); cbn -[pred_std]; rewrite ?neg_top; reflexivity.
Qed.

Definition R_iapred c sem iv ov (s : IAPredicateOperation_state) (h : opstate) :=
  h = StNone /\ s = IAPredicateOperation_mk c sem iv ov.
Lemma IAPredicate_sim c sem iv ov f g : pk f g = gen_pk sem iv ov ->
  sim_bi (R_iapred c sem iv ov) (Some (IAPredicateOperation_init c sem iv ov)) (IAPredicateOperation_update AR)
         IAPredicateOperation_reset (Pred c f g).
Proof.
  intros Hk. split; [|split].
  - eexists; split; [reflexivity|]. split; reflexivity.
  - intros s h x y [-> ->]. rewrite IAPredicate_update_eq. eexists; split; [|split; reflexivity].
    cbn -[pred_val]. rewrite Hk. reflexivity.
  - intros s h [-> ->]. repeat split.
Qed.

(* ---------- ConstantOperation / VariableOperation (the update visitor reads node.val / the input directly) ---------- *)
Lemma Constant_ok (c : V) :
  ConstantOperation_update (ConstantOperation_init c) = (ConstantOperation_init c, c) /\
  ConstantOperation_reset (ConstantOperation_init c) = ConstantOperation_init c.
Proof. split; reflexivity. Qed.
Lemma Variable_ok (s : VariableOperation_state) :
  VariableOperation_update s = (s, VariableOperation_sample s) /\ VariableOperation_reset s = s /\
  VariableOperation_sample VariableOperation_init = None.
Proof. destruct s. repeat split. Qed.

(* ---------- timed classes: deques of length end+1 ---------- *)
Lemma dq_new_nat e : dq_new (Z.of_nat (S e)) = Some [].
Proof. unfold dq_new. replace (Z.of_nat (S e) <? 0)%Z with false by (symmetry; apply Z.ltb_ge; lia). reflexivity. Qed.
Lemma Zsucc_nat e : (Z.of_nat e + 1)%Z = Z.of_nat (S e).
Proof. lia. Qed.
Lemma Zwin_nat b e : b <= e -> (Z.of_nat e - Z.of_nat b + 1)%Z = Z.of_nat (S (e - b)).
Proof. lia. Qed.
Lemma fill_init (pad : V) e : fold_left (fun d (_ : nat) => dq_append (Z.of_nat (S e)) d pad) (seq 0 (S e)) [] = repeat pad (S e).
Proof. apply (fill_empty pad (Z.of_nat (S e)) (S e) 0); [apply seq_length|lia]. Qed.

Ltac znat := rewrite ?Zsucc_nat in *; change 0%Z with (Z.of_nat 0) in *.

(* OnceTimedOperation *)
Definition R_oncet b e (s : OnceTimedOperation_state) (h : opstate) :=
  OnceTimedOperation_begin s = Z.of_nat b /\ OnceTimedOperation_end s = Z.of_nat e /\
  length (OnceTimedOperation_buffer s) = S e /\ h = StBuf (OnceTimedOperation_buffer s).
Lemma OnceTimed_reset_eq bg e buf :
  OnceTimedOperation_reset (OnceTimedOperation_mk bg (Z.of_nat e) buf)
  = OnceTimedOperation_mk bg (Z.of_nat e) (fold_left (fun d (_ : nat) => dq_append (Z.of_nat (S e)) d (neg top)) (seq 0 (S e)) buf).
Proof. unfold OnceTimedOperation_reset. cbn. znat. rewrite for_range_p_nat, Nat.sub_0_r. reflexivity. Qed.
Lemma OnceTimed_init_eq b e :
  OnceTimedOperation_init (Z.of_nat b) (Z.of_nat e) = Some (OnceTimedOperation_mk (Z.of_nat b) (Z.of_nat e) (repeat bot (S e))).
Proof.
  unfold OnceTimedOperation_init. rewrite Zsucc_nat, dq_new_nat. cbn [bind]. rewrite OnceTimed_reset_eq. cbv zeta.
  cbn [OnceTimedOperation_begin OnceTimedOperation_end OnceTimedOperation_buffer]. rewrite fill_init, neg_top. reflexivity.
Qed.
Lemma OnceTimed_sim b e f : b <= e ->
  sim_un (R_oncet b e) (OnceTimedOperation_init (Z.of_nat b) (Z.of_nat e)) OnceTimedOperation_update OnceTimedOperation_reset (OnceT b e f).
Proof.
  intros Hbe. rewrite OnceTimed_init_eq. split; [|split].
  - eexists; split; [reflexivity|]. repeat split. exact (repeat_length _ _).
  - intros [bg en buf] h x (Hb & He & Hl & ->). cbn in Hb, He, Hl. subst bg en.
    unfold OnceTimedOperation_update. cbn [OnceTimedOperation_begin OnceTimedOperation_end OnceTimedOperation_buffer].
    rewrite (Zwin_nat b e Hbe). znat. rewrite (dq_append_full e buf x Hl).
    assert (Hp : length (push buf x) = S e). { rewrite push_length; [exact Hl|]. intros ->. discriminate. }
    rewrite (for_range_nat _ (fun acc i => vmax acc (nth i (push buf x) bot))).
    + cbn [bind]. eexists; split.
      * cbn [ustep snd]. unfold win_max. rewrite neg_top, Nat.sub_0_r. reflexivity.
      * repeat split. exact Hp.
    + intros a i Hi. rewrite (dq_get_nat _ _ bot) by lia. reflexivity.
  - intros [bg en buf] h (Hb & He & Hl & ->). cbn in Hb, He, Hl. subst bg en. rewrite OnceTimed_reset_eq.
    rewrite neg_top, (reset_full bot e buf Hl). unfold R_oncet. cbn [op_reset OnceTimedOperation_begin OnceTimedOperation_end OnceTimedOperation_buffer].
    rewrite push_n_repeat by exact Hl.
    split; [repeat split; exact (repeat_length _ _)|reflexivity].
Qed.

(* HistoricallyTimedOperation *)
Definition R_histt b e (s : HistoricallyTimedOperation_state) (h : opstate) :=
  HistoricallyTimedOperation_begin s = Z.of_nat b /\ HistoricallyTimedOperation_end s = Z.of_nat e /\
  length (HistoricallyTimedOperation_buffer s) = S e /\ h = StBuf (HistoricallyTimedOperation_buffer s).
Lemma HistoricallyTimed_reset_eq bg e buf :
  HistoricallyTimedOperation_reset (HistoricallyTimedOperation_mk bg (Z.of_nat e) buf)
  = HistoricallyTimedOperation_mk bg (Z.of_nat e) (fold_left (fun d (_ : nat) => dq_append (Z.of_nat (S e)) d top) (seq 0 (S e)) buf).
Proof. unfold HistoricallyTimedOperation_reset. cbn. znat. rewrite for_range_p_nat, Nat.sub_0_r. reflexivity. Qed.
Lemma HistoricallyTimed_init_eq b e :
  HistoricallyTimedOperation_init (Z.of_nat b) (Z.of_nat e)
  = Some (HistoricallyTimedOperation_mk (Z.of_nat b) (Z.of_nat e) (repeat top (S e))).
Proof.
  unfold HistoricallyTimedOperation_init. rewrite Zsucc_nat, dq_new_nat. cbn [bind]. rewrite HistoricallyTimed_reset_eq. cbv zeta.
  cbn [HistoricallyTimedOperation_begin HistoricallyTimedOperation_end HistoricallyTimedOperation_buffer]. rewrite fill_init. reflexivity.
Qed.
Lemma HistoricallyTimed_sim b e f : b <= e ->
  sim_un (R_histt b e) (HistoricallyTimedOperation_init (Z.of_nat b) (Z.of_nat e)) HistoricallyTimedOperation_update
         HistoricallyTimedOperation_reset (HistT b e f).
Proof.
  intros Hbe. rewrite HistoricallyTimed_init_eq. split; [|split].
  - eexists; split; [reflexivity|]. repeat split. exact (repeat_length _ _).
  - intros [bg en buf] h x (Hb & He & Hl & ->). cbn in Hb, He, Hl. subst bg en.
    unfold HistoricallyTimedOperation_update.
    cbn [HistoricallyTimedOperation_begin HistoricallyTimedOperation_end HistoricallyTimedOperation_buffer].
    rewrite (Zwin_nat b e Hbe). znat. rewrite (dq_append_full e buf x Hl).
    assert (Hp : length (push buf x) = S e). { rewrite push_length; [exact Hl|]. intros ->. discriminate. }
    rewrite (for_range_nat _ (fun acc i => vmin acc (nth i (push buf x) top))).
    + cbn [bind]. eexists; split.
      * cbn [ustep snd]. unfold win_min. rewrite Nat.sub_0_r. reflexivity.
      * repeat split. exact Hp.
    + intros a i Hi. rewrite (dq_get_nat _ _ top) by lia. reflexivity.
  - intros [bg en buf] h (Hb & He & Hl & ->). cbn in Hb, He, Hl. subst bg en. rewrite HistoricallyTimed_reset_eq.
    rewrite (reset_full top e buf Hl). unfold R_histt. cbn [op_reset HistoricallyTimedOperation_begin HistoricallyTimedOperation_end HistoricallyTimedOperation_buffer].
    rewrite push_n_repeat by exact Hl.
    split; [repeat split; exact (repeat_length _ _)|reflexivity].
Qed.

(* SinceTimedOperation *)
Definition R_sincet b e (s : SinceTimedOperation_state) (h : opstate) :=
  SinceTimedOperation_begin s = Z.of_nat b /\ SinceTimedOperation_end s = Z.of_nat e /\
  length (SinceTimedOperation_buffer_sample_left s) = S e /\ length (SinceTimedOperation_buffer_sample_right s) = S e /\
  h = StBuf2 (SinceTimedOperation_buffer_sample_left s) (SinceTimedOperation_buffer_sample_right s).
Lemma SinceTimedOperation_reset_eq bg e bl br :
  SinceTimedOperation_reset (SinceTimedOperation_mk bg (Z.of_nat e) bl br)
  = SinceTimedOperation_mk bg (Z.of_nat e)
      (fold_left (fun d (_ : nat) => dq_append (Z.of_nat (S e)) d top) (seq 0 (S e)) bl)
      (fold_left (fun d (_ : nat) => dq_append (Z.of_nat (S e)) d (neg top)) (seq 0 (S e)) br).
Proof.
  unfold SinceTimedOperation_reset. cbn [SinceTimedOperation_begin SinceTimedOperation_end SinceTimedOperation_buffer_sample_left SinceTimedOperation_buffer_sample_right]. znat. rewrite for_range_p_nat, Nat.sub_0_r.
  rewrite (fold_left_ext_in _ (fun (p : list V * list V) (i : nat) => let '(x, y) := p in
             (dq_append (Z.of_nat (S e)) x top, dq_append (Z.of_nat (S e)) y (neg top)))).
  - rewrite (fold_left_pair (fun d (_ : nat) => dq_append (Z.of_nat (S e)) d top)
                            (fun d (_ : nat) => dq_append (Z.of_nat (S e)) d (neg top))). reflexivity.
  - intros [x y] i _. reflexivity.
Qed.
Lemma SinceTimedOperation_init_eq b e :
  SinceTimedOperation_init (Z.of_nat b) (Z.of_nat e)
  = Some (SinceTimedOperation_mk (Z.of_nat b) (Z.of_nat e) (repeat top (S e)) (repeat bot (S e))).
Proof.
  unfold SinceTimedOperation_init. rewrite Zsucc_nat, dq_new_nat. cbn [bind]. rewrite SinceTimedOperation_reset_eq. cbv zeta.
  cbn [SinceTimedOperation_begin SinceTimedOperation_end SinceTimedOperation_buffer_sample_left SinceTimedOperation_buffer_sample_right]. rewrite !fill_init, neg_top. reflexivity.
Qed.
Lemma SinceTimed_sim b e f g : b <= e ->
  sim_bi (R_sincet b e) (SinceTimedOperation_init (Z.of_nat b) (Z.of_nat e)) SinceTimedOperation_update SinceTimedOperation_reset (SinceT b e f g).
Proof.
  intros Hbe. rewrite SinceTimedOperation_init_eq. split; [|split].
  - eexists; split; [reflexivity|]. unfold R_sincet. cbn [op_init SinceTimedOperation_begin SinceTimedOperation_end SinceTimedOperation_buffer_sample_left SinceTimedOperation_buffer_sample_right].
    repeat split; exact (repeat_length _ _).
  - intros [bg en bl br] h x y (Hb & He & Hl & Hr & ->). cbn [SinceTimedOperation_begin SinceTimedOperation_end SinceTimedOperation_buffer_sample_left SinceTimedOperation_buffer_sample_right] in *. subst bg en.
    unfold SinceTimedOperation_update. cbn [SinceTimedOperation_begin SinceTimedOperation_end SinceTimedOperation_buffer_sample_left SinceTimedOperation_buffer_sample_right].
    rewrite (Zwin_nat b e Hbe). znat. rewrite (dq_append_full e bl x Hl), (dq_append_full e br y Hr).
    set (bl' := push bl x). set (br' := push br y).
    assert (Hl' : length bl' = S e). { unfold bl'. rewrite push_length; [exact Hl|]. intros ->. discriminate. }
    assert (Hr' : length br' = S e). { unfold br'. rewrite push_length; [exact Hr|]. intros ->. discriminate. }
    rewrite (for_range_nat _ (fun (a : V * V * V) j => let '(_, _, out) := a in
       let c := fold_left (fun c k => vmin c (nth k bl' bot)) (seq (S j) (e - j)) top in
       (c, nth j br' bot, vmax out (vmin c (nth j br' bot))))).
    + cbn [bind]. rewrite neg_top.
      match goal with |- context [fold_left ?F ?l (x, y, bot)] =>
        assert (E : snd (fold_left F l (x, y, bot)) = since_window b e bl' br');
        [|destruct (fold_left F l (x, y, bot)) as [[a1 a2] a3]] end.
      * unfold since_window. rewrite ?Nat.sub_0_r. apply fold_left_third. intros a0 b0 c0 i _. reflexivity.
      * cbn [snd] in E. subst a3. eexists; split; [reflexivity|].
        unfold R_sincet. cbn [bstep fst SinceTimedOperation_begin SinceTimedOperation_end SinceTimedOperation_buffer_sample_left SinceTimedOperation_buffer_sample_right]. repeat split; assumption.
    + intros [[sl sr] out] i Hi. cbv beta iota. rewrite (dq_get_nat br' i bot) by lia. cbn [bind]. rewrite ?Zsucc_nat.
      rewrite (for_range_nat _ (fun c k => vmin c (nth k bl' bot))).
      * cbn [bind]. rewrite ?Nat.sub_0_r. replace (S e - S i) with (e - i) by lia. reflexivity.
      * intros c k Hk. rewrite (dq_get_nat bl' k bot) by lia. reflexivity.
  - intros [bg en bl br] h (Hb & He & Hl & Hr & ->). cbn [SinceTimedOperation_begin SinceTimedOperation_end SinceTimedOperation_buffer_sample_left SinceTimedOperation_buffer_sample_right] in *. subst bg en. rewrite SinceTimedOperation_reset_eq.
    rewrite neg_top, (reset_full top e bl Hl), (reset_full bot e br Hr). unfold R_sincet.
    cbn [op_reset SinceTimedOperation_begin SinceTimedOperation_end SinceTimedOperation_buffer_sample_left SinceTimedOperation_buffer_sample_right]. rewrite !push_n_repeat by assumption.
    split; [repeat split; exact (repeat_length _ _)|reflexivity].
Qed.

(* PrecedesTimedOperation *)
Definition R_precedes b e (s : PrecedesTimedOperation_state) (h : opstate) :=
  PrecedesTimedOperation_begin s = Z.of_nat b /\ PrecedesTimedOperation_end s = Z.of_nat e /\
  length (PrecedesTimedOperation_buffer_0 s) = S e /\ length (PrecedesTimedOperation_buffer_1 s) = S e /\
  h = StBuf2 (PrecedesTimedOperation_buffer_0 s) (PrecedesTimedOperation_buffer_1 s).
Lemma PrecedesTimedOperation_reset_eq bg e bl br :
  PrecedesTimedOperation_reset (PrecedesTimedOperation_mk bg (Z.of_nat e) bl br)
  = PrecedesTimedOperation_mk bg (Z.of_nat e)
      (fold_left (fun d (_ : nat) => dq_append (Z.of_nat (S e)) d top) (seq 0 (S e)) bl)
      (fold_left (fun d (_ : nat) => dq_append (Z.of_nat (S e)) d (neg top)) (seq 0 (S e)) br).
Proof.
  unfold PrecedesTimedOperation_reset. cbn [PrecedesTimedOperation_begin PrecedesTimedOperation_end PrecedesTimedOperation_buffer_0 PrecedesTimedOperation_buffer_1]. znat. rewrite for_range_p_nat, Nat.sub_0_r.
  rewrite (fold_left_ext_in _ (fun (p : list V * list V) (i : nat) => let '(x, y) := p in
             (dq_append (Z.of_nat (S e)) x top, dq_append (Z.of_nat (S e)) y (neg top)))).
  - rewrite (fold_left_pair (fun d (_ : nat) => dq_append (Z.of_nat (S e)) d top)
                            (fun d (_ : nat) => dq_append (Z.of_nat (S e)) d (neg top))). reflexivity.
  - intros [x y] i _. reflexivity.
Qed.
Lemma PrecedesTimedOperation_init_eq b e :
  PrecedesTimedOperation_init (Z.of_nat b) (Z.of_nat e)
  = Some (PrecedesTimedOperation_mk (Z.of_nat b) (Z.of_nat e) (repeat top (S e)) (repeat bot (S e))).
Proof.
  unfold PrecedesTimedOperation_init. rewrite Zsucc_nat, dq_new_nat. cbn [bind]. rewrite PrecedesTimedOperation_reset_eq. cbv zeta.
  cbn [PrecedesTimedOperation_begin PrecedesTimedOperation_end PrecedesTimedOperation_buffer_0 PrecedesTimedOperation_buffer_1]. rewrite !fill_init, neg_top. reflexivity.
Qed.
Lemma PrecedesTimed_sim b e f g :
  sim_bi (R_precedes b e) (PrecedesTimedOperation_init (Z.of_nat b) (Z.of_nat e)) PrecedesTimedOperation_update PrecedesTimedOperation_reset (Precedes b e f g).
Proof.
  rewrite PrecedesTimedOperation_init_eq. split; [|split].
  - eexists; split; [reflexivity|]. unfold R_precedes. cbn [op_init PrecedesTimedOperation_begin PrecedesTimedOperation_end PrecedesTimedOperation_buffer_0 PrecedesTimedOperation_buffer_1].
    repeat split; exact (repeat_length _ _).
  - intros [bg en bl br] h x y (Hb & He & Hl & Hr & ->). cbn [PrecedesTimedOperation_begin PrecedesTimedOperation_end PrecedesTimedOperation_buffer_0 PrecedesTimedOperation_buffer_1] in *. subst bg en.
    unfold PrecedesTimedOperation_update. cbn [PrecedesTimedOperation_begin PrecedesTimedOperation_end PrecedesTimedOperation_buffer_0 PrecedesTimedOperation_buffer_1].
    znat. rewrite (dq_append_full e bl x Hl), (dq_append_full e br y Hr).
    set (bl' := push bl x). set (br' := push br y).
    assert (Hl' : length bl' = S e). { unfold bl'. rewrite push_length; [exact Hl|]. intros ->. discriminate. }
    assert (Hr' : length br' = S e). { unfold br'. rewrite push_length; [exact Hr|]. intros ->. discriminate. }
    rewrite (for_range_nat _ (fun (a : V * V * V) j => let '(_, _, out) := a in
       let c := fold_left (fun c k => vmin c (nth k bl' bot)) (seq 0 j) top in
       (c, nth j br' bot, vmax out (vmin c (nth j br' bot))))).
    + cbn [bind]. rewrite neg_top.
      match goal with |- context [fold_left ?F ?l (x, y, bot)] =>
        assert (E : snd (fold_left F l (x, y, bot)) = precedes_window b e bl' br');
        [|destruct (fold_left F l (x, y, bot)) as [[a1 a2] a3]] end.
      * unfold precedes_window. rewrite ?Nat.sub_0_r. apply fold_left_third. intros a0 b0 c0 i _. reflexivity.
      * cbn [snd] in E. subst a3. eexists; split; [reflexivity|].
        unfold R_precedes. cbn [bstep fst PrecedesTimedOperation_begin PrecedesTimedOperation_end PrecedesTimedOperation_buffer_0 PrecedesTimedOperation_buffer_1]. repeat split; assumption.
    + intros [[sl sr] out] i Hi. cbv beta iota. rewrite (dq_get_nat br' i bot) by lia. cbn [bind]. rewrite ?Zsucc_nat.
      rewrite (for_range_nat _ (fun c k => vmin c (nth k bl' bot))).
      * cbn [bind]. rewrite ?Nat.sub_0_r. replace (S e - S i) with (e - i) by lia. reflexivity.
      * intros c k Hk. rewrite (dq_get_nat bl' k bot) by lia. reflexivity.
  - intros [bg en bl br] h (Hb & He & Hl & Hr & ->). cbn [PrecedesTimedOperation_begin PrecedesTimedOperation_end PrecedesTimedOperation_buffer_0 PrecedesTimedOperation_buffer_1] in *. subst bg en. rewrite PrecedesTimedOperation_reset_eq.
    rewrite neg_top, (reset_full top e bl Hl), (reset_full bot e br Hr). unfold R_precedes.
    cbn [op_reset PrecedesTimedOperation_begin PrecedesTimedOperation_end PrecedesTimedOperation_buffer_0 PrecedesTimedOperation_buffer_1]. rewrite !push_n_repeat by assumption.
    split; [repeat split; exact (repeat_length _ _)|reflexivity].
Qed.

(* ---------- the top statement: what the online visitors construct for a node refines the hand model at that node ----------
   (which class is constructed for which node is StlDiscreteTimeOnlineAstVisitor.visitX, transcribed by hand here;
   arithmetic nodes use rtamt/semantics/arithmetic/**, which is outside the translated set; future nodes raise in the visitor) *)
Definition gen_refines (p : formula) : Prop :=
  match p with
  | Var _ => forall s, VariableOperation_update s = (s, VariableOperation_sample s) /\ VariableOperation_reset s = s
  | Const c => ConstantOperation_update (ConstantOperation_init c) = (ConstantOperation_init c, c) /\
               ConstantOperation_reset (ConstantOperation_init c) = ConstantOperation_init c
  | Pred c f g =>
      (pk f g = PStd ->
       sim_bi (R_pred c) (Some (PredicateOperation_init c)) (PredicateOperation_update AR) PredicateOperation_reset p) /\
      (forall sem iv ov, pk f g = gen_pk sem iv ov ->
       sim_bi (R_iapred c sem iv ov) (Some (IAPredicateOperation_init c sem iv ov)) (IAPredicateOperation_update AR)
              IAPredicateOperation_reset p)
  | Not _ => sim_un R_none (Some NotOperation_init) (pure1 NotOperation_update) NotOperation_reset p
  | And _ _ => sim_bi R_none (Some AndOperation_init) (pure2 AndOperation_update) AndOperation_reset p
  | Or _ _ => sim_bi R_none (Some OrOperation_init) (pure2 OrOperation_update) OrOperation_reset p
  | Implies _ _ => sim_bi R_none (Some ImpliesOperation_init) (pure2 ImpliesOperation_update) ImpliesOperation_reset p
  | Iff _ _ => sim_bi R_none (Some IffOperation_init) (pure2 (IffOperation_update AR)) IffOperation_reset p
  | Xor _ _ => sim_bi R_none (Some XorOperation_init) (pure2 (XorOperation_update AR)) XorOperation_reset p
  | Rise _ => sim_un R_rise (Some RiseOperation_init) (pure1 RiseOperation_update) RiseOperation_reset p
  | Fall _ => sim_un R_fall (Some FallOperation_init) (pure1 FallOperation_update) FallOperation_reset p
  | Prev _ => sim_un R_prev (Some PreviousOperation_init) (pure1 PreviousOperation_update) PreviousOperation_reset p
  | SPrev _ => sim_un R_sprev (Some StrongPreviousOperation_init) (pure1 StrongPreviousOperation_update)
                      StrongPreviousOperation_reset p
  | Once _ => sim_un R_once (Some OnceOperation_init) (pure1 OnceOperation_update) OnceOperation_reset p /\
              sim_un R_ev (Some EventuallyOperation_init) (pure1 EventuallyOperation_update) EventuallyOperation_reset p
  | Hist _ => sim_un R_hist (Some HistoricallyOperation_init) (pure1 HistoricallyOperation_update) HistoricallyOperation_reset p /\
              sim_un R_alw (Some AlwaysOperation_init) (pure1 AlwaysOperation_update) AlwaysOperation_reset p
  | Since _ _ => sim_bi R_since (Some SinceOperation_init) (pure2 SinceOperation_update) SinceOperation_reset p
  | OnceT b e _ => b <= e ->
      sim_un (R_oncet b e) (OnceTimedOperation_init (Z.of_nat b) (Z.of_nat e)) OnceTimedOperation_update OnceTimedOperation_reset p
  | HistT b e _ => b <= e ->
      sim_un (R_histt b e) (HistoricallyTimedOperation_init (Z.of_nat b) (Z.of_nat e)) HistoricallyTimedOperation_update
             HistoricallyTimedOperation_reset p
  | SinceT b e _ _ => b <= e ->
      sim_bi (R_sincet b e) (SinceTimedOperation_init (Z.of_nat b) (Z.of_nat e)) SinceTimedOperation_update
             SinceTimedOperation_reset p
  | Precedes b e _ _ =>
      sim_bi (R_precedes b e) (PrecedesTimedOperation_init (Z.of_nat b) (Z.of_nat e)) PrecedesTimedOperation_update
             PrecedesTimedOperation_reset p
  | A1 _ _ | A2 _ _ _ | Next _ | SNext _ | Ev _ | Alw _ | Until _ _ | EvT _ _ _ | AlwT _ _ _ | UntilT _ _ _ _ => True
  end.

Theorem online_gen_refines_at (p : formula) : gen_refines p.
Proof.
  destruct p; cbn [gen_refines]; try exact I.
  - intros s. destruct (Variable_ok s) as (H1 & H2 & _). split; assumption.
  - apply Constant_ok.
  - split; [apply Predicate_sim|intros sem iv ov; apply IAPredicate_sim].
  - apply Not_sim.
  - apply And_sim.
  - apply Or_sim.
  - apply Implies_sim.
  - apply Iff_sim.
  - apply Xor_sim.
  - apply Rise_sim.
  - apply Fall_sim.
  - apply Previous_sim.
  - apply StrongPrevious_sim.
  - split; [apply Once_sim|apply Eventually_sim].
  - split; [apply Historically_sim|apply Always_sim].
  - apply Since_sim.
  - apply OnceTimed_sim.
  - apply HistoricallyTimed_sim.
  - apply SinceTimed_sim.
  - apply PrecedesTimed_sim.
Qed.

(* the hand model deviates from the code outside wf_bounds (begin > end: Python's range is empty, the hand window is not);
   the parser rejects such intervals, and online_correct assumes wf_bounds *)
Lemma OnceTimed_begin_gt_end (x : V) :
  OnceTimedOperation_update (OnceTimedOperation_mk 1 0 [bot]) x = Some (OnceTimedOperation_mk 1 0 [x], bot) /\
  ustep AR (OnceT 1 0 (Var 0)) (StBuf [bot]) x = (StBuf [x], x).
Proof.
  split.
  - unfold OnceTimedOperation_update. cbn. rewrite neg_top. reflexivity.
  - cbn. unfold win_max. cbn. rewrite vmax_bot_l. reflexivity.
Qed.

End GenCorrect.

(* every generated operation class refines the hand model of Online.v, for every value domain, arithmetic and predicate kind *)
Theorem online_gen_refines :
  forall (VS : Val) (AR : Arith VS) (pk : formula -> formula -> pkind) (p : formula), gen_refines AR pk p.
Proof. intros. apply online_gen_refines_at. Qed.
Print Assumptions online_gen_refines.
