(* DenseOnlineResetCorrect.v — C10 for the dense-time ONLINE monitor (model DenseOnlineReset.v over DenseOnlineMon.v).

   reset() rebuilds the operator dictionary (set_ast) instead of resetting the operations in place, so:
   * [set_ast_spec]       on a formula without unsupported node, set_ast returns a dictionary that holds the constructor
                          state [op_init a] (= [mon_init p a]) for every node a the update visitor reaches, [SUnsup] elsewhere;
                          on a formula with an unsupported node it raises ([set_ast_unsupported]), and so does every update
                          ([update_unsupported]);
   * [visit_local], [mon_run_local]   the update visitor reads and writes the dictionary only at the nodes of the formula:
                          two dictionaries that agree there give the same lists (and again agreeing dictionaries);
   * [dense_reset_state]  the statement asked for: whatever state [st] the monitor reached, [mon_reset p st] is the
                          initial dictionary on the nodes of p (pointwise: [dict] is a function type, no extensionality axiom);
   * [dense_reset_like_fresh], [dense_reset_first], [dense_reset_twice]  the outputs on any continuation are those of
                          [mon_init p] (the "fresh" monitor of every theorem of DenseOnlineMonCorrect / DenseOnlineMonMore);
   * [run_reset_after_fresh]  the same for the API-level runs [run_reset_after] / [run_fresh] of the model;
   * [fresh_is_init]      the fresh monitor of the API (set_ast at the first update) and [mon_init p] return the same lists;
   * [op_reset_id], [reset_visit_id], [inherited_reset_is_no_reset]  the reset() methods of the operation classes and the
                          reset visitor change nothing: the inherited reset would be no reset at all;
   * [inherited_reset_refuted]  ... and a monitor that is not reset is observably different from a fresh one. *)
From Coq Require Import List Bool Arith ZArith Lia.
From RV Require Import Val Syntax Rho Online Dense DenseMerge DenseEval DenseWin DenseOnlineMerge DenseOnlineFold DenseOnlineWin
  DenseOnlineMon DenseOnlineMonCorrect DenseOnlineReset.
From RV Require ExtZ.
Import ListNotations.
Local Open Scope Z_scope.

Section ResetCorrect.
Context {VS : Val} (AR : Arith VS).
Variable pk : formula -> formula -> pkind.

Notation visit := (visit AR pk).
Notation mon_update := (mon_update AR pk).
Notation mon_run := (mon_run AR pk).

(* ================================================================== *)
(* the reset() methods and the reset visitor                           *)
(* ================================================================== *)
Lemma op_reset_id (st : opst) : op_reset st = st.
Proof. destruct st; reflexivity. Qed.

Lemma reset_visit_shape p d :
  reset_visit p d =
  match shape p with
  | HUn f => let d1 := reset_visit f d in upd d1 p (op_reset (d1 p))
  | HBi f g => let d1 := reset_visit f d in let d2 := reset_visit g d1 in upd d2 p (op_reset (d2 p))
  | _ => d
  end.
Proof. destruct p; reflexivity. Qed.

Lemma upd_same (d : dict) p a : upd d p (d p) a = d a.
Proof.
  destruct (formula_eq_dec a p) as [->|Hne]; [apply upd_eq|apply upd_ne; exact Hne].
Qed.

Lemma reset_visit_id : forall sz p d a, (size p <= sz)%nat -> reset_visit p d a = d a.
Proof.
  induction sz as [|sz IH]; intros p d a Hsz.
  { destruct p; cbn [size] in Hsz; lia. }
  rewrite reset_visit_shape. destruct (shape p) eqn:Sh; try reflexivity.
  - pose proof (shape_un_size _ _ Sh) as Hs. cbv zeta. rewrite op_reset_id, upd_same. apply IH. lia.
  - pose proof (shape_bi_size _ _ _ Sh) as [Hs1 Hs2]. cbv zeta. rewrite op_reset_id, upd_same.
    rewrite IH by lia. apply IH. lia.
Qed.

(* ================================================================== *)
(* set_ast                                                             *)
(* ================================================================== *)
Lemma build_shape p d :
  build p d =
  match shape p with
  | HVar _ | HConst => Some (upd d p (op_init p))
  | HUn f => match build f d with Some d1 => Some (upd d1 p (op_init p)) | None => None end
  | HBi f g => match build f d with
               | Some d1 => match build g d1 with Some d2 => Some (upd d2 p (op_init p)) | None => None end
               | None => None
               end
  | HUnsup => None
  end.
Proof. destruct p; reflexivity. Qed.

Lemma supported_shape p :
  supported p =
  match shape p with
  | HVar _ | HConst => true
  | HUn f => supported f
  | HBi f g => supported f && supported g
  | HUnsup => false
  end.
Proof. destruct p; reflexivity. Qed.

Lemma build_some_iff : forall sz p d, (size p <= sz)%nat ->
  (supported p = true -> exists d', build p d = Some d') /\ (supported p = false -> build p d = None).
Proof.
  induction sz as [|sz IH]; intros p d Hsz.
  { destruct p; cbn [size] in Hsz; lia. }
  rewrite build_shape, supported_shape. destruct (shape p) eqn:Sh.
  - split; [intros _; eexists; reflexivity|discriminate].
  - split; [intros _; eexists; reflexivity|discriminate].
  - pose proof (shape_un_size _ _ Sh) as Hs. destruct (IH f d ltac:(lia)) as [H1 H2]. split.
    + intros Hf. destruct (H1 Hf) as [d1 E]. rewrite E. eexists; reflexivity.
    + intros Hf. rewrite (H2 Hf). reflexivity.
  - pose proof (shape_bi_size _ _ _ Sh) as [Hs1 Hs2]. destruct (IH f d ltac:(lia)) as [H1 H2]. split.
    + intros Hfg. apply andb_true_iff in Hfg as [Hf Hg]. destruct (H1 Hf) as [d1 E]. rewrite E.
      destruct (IH g d1 ltac:(lia)) as [G1 _]. destruct (G1 Hg) as [d2 E2]. rewrite E2. eexists; reflexivity.
    + intros Hfg. apply andb_false_iff in Hfg as [Hf|Hg]; [rewrite (H2 Hf); reflexivity|].
      destruct (build f d) as [d1|]; [|reflexivity].
      destruct (IH g d1 ltac:(lia)) as [_ G2]. rewrite (G2 Hg). reflexivity.
  - split; [discriminate|reflexivity].
Qed.

(* what the construction visit of p does to a dictionary *)
Lemma build_spec : forall sz p d d', (size p <= sz)%nat -> build p d = Some d' ->
  (forall a, In a (subs p) -> d' a = op_init a) /\
  (forall a, ~ In a (subs p) -> d' a = d a) /\
  (forall a, d a = op_init a -> d' a = op_init a).
Proof.
  induction sz as [|sz IH]; intros p d d' Hsz E.
  { destruct p; cbn [size] in Hsz; lia. }
  rewrite build_shape in E. rewrite subs_shape.
  assert (Leaf : forall d0, (forall a, In a [p] -> upd d0 p (op_init p) a = op_init a) /\
                            (forall a, ~ In a [p] -> upd d0 p (op_init p) a = d0 a) /\
                            (forall a, d0 a = op_init a -> upd d0 p (op_init p) a = op_init a)).
  { intros d0. repeat split.
    - intros a [<-|[]]. apply upd_eq.
    - intros a Hn. apply upd_ne. intros ->. apply Hn. left. reflexivity.
    - intros a Ha. destruct (formula_eq_dec a p) as [->|Hne]; [apply upd_eq|rewrite upd_ne by exact Hne; exact Ha]. }
  destruct (shape p) eqn:Sh.
  - injection E as <-. apply Leaf.
  - injection E as <-. apply Leaf.
  - pose proof (shape_un_size _ _ Sh) as Hs.
    destruct (build f d) as [d1|] eqn:E1; [|discriminate]. injection E as <-.
    destruct (IH f d d1 ltac:(lia) E1) as (A1 & A2 & A3). repeat split.
    + intros a [<-|Ha]; [apply upd_eq|].
      destruct (formula_eq_dec a p) as [->|Hne]; [apply upd_eq|rewrite upd_ne by exact Hne; apply A1; exact Ha].
    + intros a Hn. rewrite upd_ne by (intros ->; apply Hn; left; reflexivity). apply A2. intros Ha. apply Hn. right. exact Ha.
    + intros a Ha. destruct (formula_eq_dec a p) as [->|Hne]; [apply upd_eq|rewrite upd_ne by exact Hne; apply A3; exact Ha].
  - pose proof (shape_bi_size _ _ _ Sh) as [Hs1 Hs2].
    destruct (build f d) as [d1|] eqn:E1; [|discriminate].
    destruct (build g d1) as [d2|] eqn:E2; [|discriminate]. injection E as <-.
    destruct (IH f d d1 ltac:(lia) E1) as (A1 & A2 & A3).
    destruct (IH g d1 d2 ltac:(lia) E2) as (B1 & B2 & B3). repeat split.
    + intros a [<-|Ha]; [apply upd_eq|].
      destruct (formula_eq_dec a p) as [->|Hne]; [apply upd_eq|rewrite upd_ne by exact Hne].
      apply in_app_or in Ha as [Ha|Ha]; [apply B3, A1; exact Ha|apply B1; exact Ha].
    + intros a Hn. rewrite upd_ne by (intros ->; apply Hn; left; reflexivity).
      rewrite B2 by (intros Ha; apply Hn; right; apply in_or_app; right; exact Ha).
      apply A2. intros Ha. apply Hn. right. apply in_or_app. left. exact Ha.
    + intros a Ha. destruct (formula_eq_dec a p) as [->|Hne]; [apply upd_eq|rewrite upd_ne by exact Hne; apply B3, A3; exact Ha].
  - discriminate.
Qed.

Theorem set_ast_supported p : supported p = true -> exists d, set_ast p = Some d.
Proof. intros H. unfold set_ast. destruct (build_some_iff (size p) p dict0 (le_n _)) as [H1 _]. exact (H1 H). Qed.

Theorem set_ast_unsupported p : supported p = false -> set_ast p = None.
Proof. intros H. unfold set_ast. destruct (build_some_iff (size p) p dict0 (le_n _)) as [_ H2]. exact (H2 H). Qed.

Theorem set_ast_spec p d : set_ast p = Some d ->
  supported p = true /\
  (forall a, In a (subs p) -> d a = mon_init p a) /\
  (forall a, ~ In a (subs p) -> d a = SUnsup).
Proof.
  intros E. split.
  - destruct (supported p) eqn:S; [reflexivity|]. rewrite (set_ast_unsupported p S) in E. discriminate.
  - destruct (build_spec (size p) p dict0 d (le_n _) E) as (A1 & A2 & _). split; [exact A1|].
    intros a Ha. rewrite (A2 a Ha). reflexivity.
Qed.

(* ================================================================== *)
(* the update visitor is local to the nodes of the formula             *)
(* ================================================================== *)
Section Local.
Variable S : formula -> Prop.

Definition agree (d d' : dict) : Prop := forall a, S a -> d a = d' a.

Lemma agree_upd d d' p s : agree d d' -> agree (upd d p s) (upd d' p s).
Proof.
  intros H a Ha. destruct (formula_eq_dec a p) as [->|Hne]; [rewrite !upd_eq; reflexivity|].
  rewrite !upd_ne by exact Hne. apply H. exact Ha.
Qed.

Definition vrel (x y : option (dict * memo * esig)) : Prop :=
  match x, y with
  | Some (d1, m1, v1), Some (d2, m2, v2) => agree d1 d2 /\ m1 = m2 /\ v1 = v2
  | None, None => True
  | _, _ => False
  end.

Lemma visit_local env : forall sz p d d' m, (size p <= sz)%nat ->
  (forall a, In a (subs p) -> S a) -> agree d d' -> vrel (visit env p d m) (visit env p d' m).
Proof.
  induction sz as [|sz IH]; intros p d d' m Hsz HS Hag.
  { destruct p; cbn [size] in Hsz; lia. }
  assert (Sp : S p) by (apply HS, in_subs_self).
  rewrite !visit_shape. rewrite subs_shape in HS. destruct (shape p) eqn:Sh.
  - cbv zeta. cbn [vrel]. auto.
  - destruct (lookup m p); [cbn [vrel]; auto|]. unfold visit_const. rewrite <- (Hag p Sp).
    destruct (cstep (d p) tt) as [[s' out]|]; cbn [vrel]; [|exact I].
    split; [apply agree_upd; exact Hag|auto].
  - destruct (lookup m p); [cbn [vrel]; auto|].
    pose proof (shape_un_size _ _ Sh) as Hs. unfold visit_un.
    assert (HSf : forall a, In a (subs f) -> S a) by (intros a Ha; apply HS; right; exact Ha).
    pose proof (IH f d d' m ltac:(lia) HSf Hag) as R.
    destruct (visit env f d m) as [[[d1 m1] v1]|]; destruct (visit env f d' m) as [[[d1' m1'] v1']|]; cbn [vrel] in R;
      try contradiction; [|exact I].
    destruct R as (Hag1 & <- & <-). rewrite <- (Hag1 p Sp).
    destruct (ustep AR p (d1 p) v1) as [[s' out]|]; cbn [vrel]; [|exact I].
    split; [apply agree_upd; exact Hag1|auto].
  - destruct (lookup m p); [cbn [vrel]; auto|].
    pose proof (shape_bi_size _ _ _ Sh) as [Hs1 Hs2]. unfold visit_bi.
    assert (HSf : forall a, In a (subs f) -> S a) by (intros a Ha; apply HS; right; apply in_or_app; left; exact Ha).
    assert (HSg : forall a, In a (subs g) -> S a) by (intros a Ha; apply HS; right; apply in_or_app; right; exact Ha).
    pose proof (IH f d d' m ltac:(lia) HSf Hag) as R.
    destruct (visit env f d m) as [[[d1 m1] v1]|]; destruct (visit env f d' m) as [[[d1' m1'] v1']|]; cbn [vrel] in R;
      try contradiction; [|exact I].
    destruct R as (Hag1 & <- & <-).
    pose proof (IH g d1 d1' m1 ltac:(lia) HSg Hag1) as R2.
    destruct (visit env g d1 m1) as [[[d2 m2] v2]|]; destruct (visit env g d1' m1) as [[[d2' m2'] v2']|]; cbn [vrel] in R2;
      try contradiction; [|exact I].
    destruct R2 as (Hag2 & <- & <-). rewrite <- (Hag2 p Sp).
    destruct (bstep AR pk p (d2 p) v1 v2) as [[s' out]|]; cbn [vrel]; [|exact I].
    split; [apply agree_upd; exact Hag2|auto].
  - destruct (lookup m p); cbn [vrel]; auto.
Qed.

Definition rrel {O} (x y : option (dict * O)) : Prop :=
  match x, y with
  | Some (d1, o1), Some (d2, o2) => agree d1 d2 /\ o1 = o2
  | None, None => True
  | _, _ => False
  end.

Lemma mon_update_local p d d' env : (forall a, In a (subs p) -> S a) -> agree d d' ->
  rrel (mon_update p d env) (mon_update p d' env).
Proof.
  intros HS Hag. unfold DenseOnlineMon.mon_update.
  pose proof (visit_local env (size p) p d d' [] (le_n _) HS Hag) as R.
  destruct (visit env p d []) as [[[d1 m1] v1]|]; destruct (visit env p d' []) as [[[d1' m1'] v1']|]; cbn [vrel] in R;
    try contradiction; cbn [rrel]; [|exact I].
  destruct R as (H1 & _ & H3). auto.
Qed.

Lemma mon_run_local p : (forall a, In a (subs p) -> S a) -> forall envs d d', agree d d' ->
  rrel (mon_run p d envs) (mon_run p d' envs).
Proof.
  intros HS. unfold DenseOnlineMon.mon_run.
  induction envs as [|env envs IH]; intros d d' Hag; cbn [run_g].
  - cbn [rrel]. auto.
  - pose proof (mon_update_local p d d' env HS Hag) as R.
    destruct (mon_update p d env) as [[d1 o1]|]; destruct (mon_update p d' env) as [[d1' o1']|]; cbn [rrel] in R;
      try contradiction; [|exact I].
    destruct R as (Hag1 & <-). specialize (IH d1 d1' Hag1).
    destruct (run_g (mon_update p) d1 envs) as [[d2 o2]|]; destruct (run_g (mon_update p) d1' envs) as [[d2' o2']|];
      cbn [rrel] in IH |- *; try contradiction; [|exact I].
    destruct IH as (Hag2 & <-). auto.
Qed.

Lemma mon_update_fin_local p d d' env : (forall a, In a (subs p) -> S a) -> agree d d' ->
  rrel (mon_update_fin AR pk p d env) (mon_update_fin AR pk p d' env).
Proof.
  intros HS Hag. unfold mon_update_fin. pose proof (mon_update_local p d d' env HS Hag) as R.
  destruct (mon_update p d env) as [[d1 o1]|]; destruct (mon_update p d' env) as [[d1' o1']|]; cbn [rrel] in R;
    try contradiction; [|exact I].
  destruct R as (Hag1 & <-). destruct (unlift o1); cbn [rrel]; auto.
Qed.

Lemma mon_run_fin_local p : (forall a, In a (subs p) -> S a) -> forall envs d d', agree d d' ->
  rrel (mon_run_fin AR pk p d envs) (mon_run_fin AR pk p d' envs).
Proof.
  intros HS. unfold mon_run_fin.
  induction envs as [|env envs IH]; intros d d' Hag; cbn [run_g].
  - cbn [rrel]. auto.
  - pose proof (mon_update_fin_local p d d' env HS Hag) as R.
    destruct (mon_update_fin AR pk p d env) as [[d1 o1]|]; destruct (mon_update_fin AR pk p d' env) as [[d1' o1']|]; cbn [rrel] in R;
      try contradiction; [|exact I].
    destruct R as (Hag1 & <-). specialize (IH d1 d1' Hag1).
    destruct (run_g (mon_update_fin AR pk p) d1 envs) as [[d2 o2]|]; destruct (run_g (mon_update_fin AR pk p) d1' envs) as [[d2' o2']|];
      cbn [rrel] in IH |- *; try contradiction; [|exact I].
    destruct IH as (Hag2 & <-). auto.
Qed.

Lemma rrel_outputs {O} (x y : option (dict * O)) : rrel x y -> option_map snd x = option_map snd y.
Proof.
  destruct x as [[d1 o1]|]; destruct y as [[d2 o2]|]; cbn [rrel option_map snd]; try contradiction; [|reflexivity].
  intros [_ <-]. reflexivity.
Qed.

End Local.

(* two dictionaries that agree on the nodes of p are not distinguishable by updates of p *)
Theorem mon_run_same_outputs p d d' envs : (forall a, In a (subs p) -> d a = d' a) ->
  option_map snd (mon_run p d envs) = option_map snd (mon_run p d' envs).
Proof.
  intros H. apply (rrel_outputs (fun a => In a (subs p))).
  apply mon_run_local; [auto|exact H].
Qed.

Theorem mon_run_fin_same_outputs p d d' envs : (forall a, In a (subs p) -> d a = d' a) ->
  option_map snd (mon_run_fin AR pk p d envs) = option_map snd (mon_run_fin AR pk p d' envs).
Proof.
  intros H. apply (rrel_outputs (fun a => In a (subs p))).
  apply mon_run_fin_local; [auto|exact H].
Qed.

(* ================================================================== *)
(* an unsupported node: reset() raises, and so does every update()     *)
(* ================================================================== *)
Definition memo_ok (m : memo) : Prop := forall a v, lookup m a = Some v -> supported a = true.

Lemma memo_ok_cons m a v : memo_ok m -> supported a = true -> memo_ok ((a, v) :: m).
Proof.
  intros Hm Ha b w. destruct (formula_eq_dec b a) as [->|Hne]; [intros _; exact Ha|].
  rewrite lookup_cons_ne by exact Hne. apply Hm.
Qed.

Lemma visit_some_supported env : forall sz p d m d1 m1 v, (size p <= sz)%nat -> memo_ok m ->
  visit env p d m = Some (d1, m1, v) -> supported p = true /\ memo_ok m1.
Proof.
  induction sz as [|sz IH]; intros p d m d1 m1 v Hsz Hm E.
  { destruct p; cbn [size] in Hsz; lia. }
  rewrite visit_shape in E. rewrite supported_shape.
  assert (Hit : forall w, lookup m p = Some w -> Some (d, m, w) = Some (d1, m1, v) -> supported p = true /\ memo_ok m1).
  { intros w Hl H. injection H as _ <- _. split; [apply (Hm p w Hl)|exact Hm]. }
  destruct (shape p) eqn:Sh.
  - cbv zeta in E. injection E as _ <- _. split; [reflexivity|]. apply memo_ok_cons; [exact Hm|].
    rewrite supported_shape, Sh. reflexivity.
  - destruct (lookup m p) as [w|] eqn:Hl.
    { injection E as _ <- _. split; [reflexivity|exact Hm]. }
    unfold visit_const in E. destruct (cstep (d p) tt) as [[s' out]|]; [|discriminate]. injection E as _ <- _.
    split; [reflexivity|]. apply memo_ok_cons; [exact Hm|]. rewrite supported_shape, Sh. reflexivity.
  - destruct (lookup m p) as [w|] eqn:Hl.
    { destruct (Hit w eq_refl E) as [H1 H2]. rewrite supported_shape, Sh in H1. auto. }
    pose proof (shape_un_size _ _ Sh) as Hs. unfold visit_un in E.
    destruct (visit env f d m) as [[[d2 m2] v2]|] eqn:Ef; [|discriminate].
    destruct (IH f d m d2 m2 v2 ltac:(lia) Hm Ef) as [Sf Hm2].
    destruct (ustep AR p (d2 p) v2) as [[s' out]|]; [|discriminate]. injection E as _ <- _.
    split; [exact Sf|]. apply memo_ok_cons; [exact Hm2|]. rewrite supported_shape, Sh. exact Sf.
  - destruct (lookup m p) as [w|] eqn:Hl.
    { destruct (Hit w eq_refl E) as [H1 H2]. rewrite supported_shape, Sh in H1. auto. }
    pose proof (shape_bi_size _ _ _ Sh) as [Hs1 Hs2]. unfold visit_bi in E.
    destruct (visit env f d m) as [[[d2 m2] v2]|] eqn:Ef; [|discriminate].
    destruct (IH f d m d2 m2 v2 ltac:(lia) Hm Ef) as [Sf Hm2].
    destruct (visit env g d2 m2) as [[[d3 m3] v3]|] eqn:Eg; [|discriminate].
    destruct (IH g d2 m2 d3 m3 v3 ltac:(lia) Hm2 Eg) as [Sg Hm3].
    destruct (bstep AR pk p (d3 p) v2 v3) as [[s' out]|]; [|discriminate]. injection E as _ <- _.
    assert (Sfg : supported f && supported g = true) by (rewrite Sf, Sg; reflexivity).
    split; [exact Sfg|]. apply memo_ok_cons; [exact Hm3|]. rewrite supported_shape, Sh. exact Sfg.
  - destruct (lookup m p) as [w|] eqn:Hl; [|discriminate].
    destruct (Hit w eq_refl E) as [H1 H2]. rewrite supported_shape, Sh in H1. discriminate.
Qed.

Theorem update_supported p d env r : mon_update p d env = Some r -> supported p = true.
Proof.
  unfold DenseOnlineMon.mon_update. destruct (visit env p d []) as [[[d1 m1] v1]|] eqn:E; [|discriminate]. intros _.
  apply (visit_some_supported env (size p) p d [] d1 m1 v1 (le_n _)); [|exact E].
  intros a v H. discriminate.
Qed.

Theorem update_unsupported p d env : supported p = false -> mon_update p d env = None.
Proof.
  intros H. destruct (mon_update p d env) as [r|] eqn:E; [|reflexivity].
  rewrite (update_supported p d env r E) in H. discriminate.
Qed.

Lemma mon_run_supported p d env envs r : mon_run p d (env :: envs) = Some r -> supported p = true.
Proof.
  unfold DenseOnlineMon.mon_run. cbn [run_g]. destruct (mon_update p d env) as [[d1 o1]|] eqn:E; [|discriminate].
  intros _. apply (update_supported p d env _ E).
Qed.

(* ================================================================== *)
(* C10, dense time                                                     *)
(* ================================================================== *)
(* reset() forgets the dictionary *)
Lemma mon_reset_const p st st' : mon_reset p st = mon_reset p st'.
Proof. reflexivity. Qed.

Theorem reset_unsupported p st : supported p = false ->
  mon_reset p st = None /\ mon_fresh p = None /\ forall d env, mon_update p d env = None.
Proof.
  intros H. split; [exact (set_ast_unsupported p H)|]. split; [exact (set_ast_unsupported p H)|].
  intros d env. apply update_unsupported. exact H.
Qed.

(* every state reached from the initial one (and any other dictionary): after reset() every operation the update visitor
   reaches is in its constructor state *)
Theorem dense_reset_state p envs st outs :
  supported p = true ->
  mon_run p (mon_init p) envs = Some (st, outs) ->
  exists d, mon_reset p st = Some d /\ forall a, In a (subs p) -> d a = mon_init p a.
Proof.
  intros Hs _. destruct (set_ast_supported p Hs) as [d E]. exists d. split; [exact E|].
  destruct (set_ast_spec p d E) as (_ & H & _). exact H.
Qed.

(* ... so the lists returned on any continuation are those of a fresh monitor *)
Theorem dense_reset_like_fresh p hist st outs post :
  hist <> [] \/ supported p = true ->
  mon_run p (mon_init p) hist = Some (st, outs) ->
  exists d, mon_reset p st = Some d /\
            option_map snd (mon_run p d post) = option_map snd (mon_run p (mon_init p) post).
Proof.
  intros Hs E.
  assert (Hsup : supported p = true).
  { destruct Hs as [Hne|Hs]; [|exact Hs]. destruct hist as [|env hist]; [congruence|].
    apply (mon_run_supported p _ env hist _ E). }
  destruct (dense_reset_state p hist st outs Hsup E) as (d & E1 & H). exists d. split; [exact E1|].
  apply mon_run_same_outputs. exact H.
Qed.

(* both together: the text of C10_dense_reset *)
Theorem dense_reset_main p hist st outs post :
  hist <> [] \/ supported p = true ->
  mon_run p (mon_init p) hist = Some (st, outs) ->
  exists d, mon_reset p st = Some d /\
            (forall a, In a (subs p) -> d a = mon_init p a) /\
            option_map snd (mon_run p d post) = option_map snd (mon_run p (mon_init p) post).
Proof.
  intros Hs E.
  assert (Hsup : supported p = true).
  { destruct Hs as [Hne|Hs]; [|exact Hs]. destruct hist as [|env hist]; [congruence|].
    apply (mon_run_supported p _ env hist _ E). }
  destruct (dense_reset_state p hist st outs Hsup E) as (d & E1 & H). exists d. split; [exact E1|]. split; [exact H|].
  apply mon_run_same_outputs. exact H.
Qed.

(* the same for [mon_run_fin] (the runs the correctness theorems of DenseOnlineMonCorrect / DenseOnlineMonMore speak about):
   every theorem about the outputs of a monitor started in [mon_init p] holds for the continuation of a reset monitor *)
Theorem dense_reset_like_fresh_fin p hist st outs post :
  hist <> [] \/ supported p = true ->
  mon_run p (mon_init p) hist = Some (st, outs) ->
  exists d, mon_reset p st = Some d /\
            option_map snd (mon_run_fin AR pk p d post) = option_map snd (mon_run_fin AR pk p (mon_init p) post).
Proof.
  intros Hs E. destruct (dense_reset_main p hist st outs post Hs E) as (d & E1 & H & _).
  exists d. split; [exact E1|]. apply mon_run_fin_same_outputs. exact H.
Qed.

(* ... for instance C05: on the fragment [frag] of DenseOnlineMonCorrect.v (standard predicates), the reset monitor computes the tick
   semantics rhoZ of the CONTINUATION's signals W (the history has no influence), whatever the batches in which they are fed *)
Theorem dense_reset_correct :
  (forall f g : formula, pk f g = PStd) -> (forall l r : V, neg (a2 AR Sub l r) = a2 AR Sub r l) ->
  forall p hist st outs (W : list dsig) (tend : Z) (post : list (list dsig)),
  hist <> [] \/ supported p = true ->
  mon_run p (mon_init p) hist = Some (st, outs) ->
  frag p = true ->
  (forall x, feedsI [] (map (fun env => nth x env []) post) (nth x W [])) ->
  (forall x, DenseMergeCorrect.dsorted (nth x W [])) ->
  (forall x, nth x W [] <> [] -> start (nth x W []) = 0) ->
  exists d outs',
    mon_reset p st = Some d /\
    option_map snd (mon_run_fin AR pk p d post) = Some outs' /\
    length outs' = length post /\
    (forall t, concat outs' <> [] -> 0 <= t <= DenseOnlineMergeCorrect.lastT (concat outs') ->
               den_opt (concat outs') t = Some (DenseSem.rhoZ AR pk W tend p t)) /\
    (forall x, In x (fvars p) -> DenseOnlineMergeCorrect.lastT (concat outs') <= DenseOnlineMergeCorrect.lastT (nth x W [])).
Proof.
  intros Hstd SubNeg p hist st outs W tend post Hs E Hf Hfeed HWs HW0.
  destruct (dense_reset_like_fresh_fin p hist st outs post Hs E) as (d & E1 & H).
  destruct (mon_online_correct AR pk Hstd SubNeg p W tend post Hf Hfeed HWs HW0)
    as (d' & outs' & S & _ & Efin & Hl & _ & _ & _ & _ & Hden & Hlast).
  exists d, outs'. split; [exact E1|]. rewrite H, Efin. split; [reflexivity|]. split; [exact Hl|]. split; [exact Hden|exact Hlast].
Qed.

(* reset() before the first update *)
Theorem dense_reset_first p post :
  supported p = true ->
  exists d, mon_reset p (mon_init p) = Some d /\
            option_map snd (mon_run p d post) = option_map snd (mon_run p (mon_init p) post).
Proof.
  intros Hs. apply (dense_reset_like_fresh p [] (mon_init p) [] post); [right; exact Hs|reflexivity].
Qed.

(* a reset in the middle of the history, and one more at its end *)
Theorem dense_reset_twice p hist1 hist2 st1 outs1 d1 st2 outs2 post :
  hist1 <> [] \/ supported p = true ->
  mon_run p (mon_init p) hist1 = Some (st1, outs1) -> mon_reset p st1 = Some d1 ->
  mon_run p d1 hist2 = Some (st2, outs2) ->
  exists d, mon_reset p st2 = Some d /\
            option_map snd (mon_run p d post) = option_map snd (mon_run p (mon_init p) post).
Proof.
  intros Hs E1 R1 E2. destruct (dense_reset_like_fresh p hist1 st1 outs1 post Hs E1) as (d & R & H).
  exists d. split; [exact R|exact H].
Qed.

(* the monitor of the API at its first update (set_ast) and the initial state of DenseOnlineMon.v *)
Theorem fresh_is_init p post :
  match mon_fresh p with
  | Some d0 => option_map snd (mon_run p d0 post) = option_map snd (mon_run p (mon_init p) post)
  | None => supported p = false /\ (post <> [] -> mon_run p (mon_init p) post = None)
  end.
Proof.
  unfold mon_fresh. destruct (set_ast p) as [d0|] eqn:E.
  - destruct (set_ast_spec p d0 E) as (_ & H & _). apply mon_run_same_outputs. exact H.
  - assert (Hs : supported p = false).
    { destruct (supported p) eqn:S; [|reflexivity]. destruct (set_ast_supported p S) as [d E']. congruence. }
    split; [exact Hs|]. intros Hne. destruct post as [|env post]; [congruence|].
    destruct (mon_run p (mon_init p) (env :: post)) as [r|] eqn:R; [|reflexivity].
    rewrite (mon_run_supported p _ env post r R) in Hs. discriminate.
Qed.

(* API level: history, reset(), continuation = fresh object, continuation — provided the history raised nowhere *)
Theorem run_reset_after_fresh p hist post d0 r :
  mon_fresh p = Some d0 -> mon_run p d0 hist = Some r ->
  run_reset_after AR pk p hist post = run_fresh AR pk p post.
Proof.
  intros E0 E1. unfold run_reset_after, run_fresh. rewrite E0, E1. destruct r as [d1 o1].
  unfold mon_reset. unfold mon_fresh in E0. rewrite E0. reflexivity.
Qed.

(* when the first update of a fresh object raises because of an unsupported operator, so does reset() *)
Theorem run_reset_after_unsupported p hist post :
  supported p = false -> run_reset_after AR pk p hist post = None /\ run_fresh AR pk p post = None.
Proof.
  intros H. unfold run_reset_after, run_fresh, mon_fresh. rewrite (set_ast_unsupported p H). auto.
Qed.

(* any sequence of update() and reset() calls that ends with reset() + continuation: the continuation's lists are those of a
   fresh object *)
Lemma run_segs_last p d0 post : set_ast p = Some d0 -> forall segs d outs, segs <> [] ->
  run_segs AR pk mon_reset p d (segs ++ [post]) = Some outs ->
  exists pre d3 o, outs = pre ++ [o] /\ mon_run p d0 post = Some (d3, o).
Proof.
  intros E0. induction segs as [|s segs IH]; intros d outs Hne E; [congruence|].
  cbn [app run_segs] in E. destruct (mon_run p d s) as [[d1 o1]|]; [|discriminate].
  destruct segs as [|s2 segs].
  - cbn [app] in E. change (mon_reset p d1) with (set_ast p) in E. rewrite E0 in E. cbn [run_segs] in E.
    destruct (mon_run p d0 post) as [[d3 o]|]; [|discriminate]. cbn [option_map] in E. injection E as <-.
    exists [o1], d3, o. split; reflexivity.
  - cbn [app] in E. change (mon_reset p d1) with (set_ast p) in E. rewrite E0 in E.
    destruct (run_segs AR pk mon_reset p d0 (s2 :: segs ++ [post])) as [outs'|] eqn:E'; [|discriminate].
    cbn [option_map] in E. injection E as <-.
    destruct (IH d0 outs' ltac:(discriminate) E') as (pre & d3 & o & -> & R).
    exists (o1 :: pre), d3, o. split; [reflexivity|exact R].
Qed.

Theorem run_api_last p segs post outs :
  segs <> [] -> run_api AR pk p (segs ++ [post]) = Some outs ->
  exists pre o, outs = pre ++ [o] /\ run_fresh AR pk p post = Some o.
Proof.
  intros Hne E. unfold run_api, run_fresh, mon_fresh in *. destruct (set_ast p) as [d0|] eqn:E0; [|discriminate].
  destruct (run_segs_last p d0 post E0 segs d0 outs Hne E) as (pre & d3 & o & -> & R).
  exists pre, o. rewrite R. split; reflexivity.
Qed.

(* the inherited reset (reset visitor + reset() methods) is no reset: the monitor goes on as if nothing had happened *)
Theorem inherited_reset_is_no_reset p d post :
  option_map snd (mon_run p (mon_reset_inherited p d) post) = option_map snd (mon_run p d post).
Proof.
  apply mon_run_same_outputs. intros a _. apply (reset_visit_id (size p)). apply le_n.
Qed.

End ResetCorrect.

(* ================================================================== *)
(* witnesses                                                           *)
(* ================================================================== *)
Section Witness.
Import ExtZ.
Let pk0 : @formula ExtZVal -> @formula ExtZVal -> pkind := fun _ _ => PStd.
Let F := @Fin.

(* once(x >= 1) and (x <= 3 since[2,4] x >= 0): history x = 0:2 2:0 6:5, continuation x = 0:0 2:4 | 6:1 *)
Let p1 : @formula ExtZVal :=
  And (Once (Pred CGeq (Var 0) (Const (F 1)))) (SinceT 2 4 (Pred CLeq (Var 0) (Const (F 3))) (Pred CGeq (Var 0) (Const (F 0)))).
Let hist1 : list (list (list (Z * extz))) := [[[(0, F 2); (2, F 0)]]; [[(6, F 5)]]].
Let post1 : list (list (list (Z * extz))) := [[[(0, F 0); (2, F 4)]]; [[(6, F 1)]]].

(* the theorem is not vacuous: the run exists, the reset monitor answers like the fresh one, the monitor that was not reset
   does not *)
Example dense_reset_nonvacuous :
  run_reset_after ExtZArith pk0 p1 hist1 post1 = run_fresh ExtZArith pk0 p1 post1 /\
  run_fresh ExtZArith pk0 p1 post1 <> None /\
  run_fresh ExtZArith pk0 p1 post1 = option_map snd (mon_run ExtZArith pk0 p1 (mon_init p1) post1).
Proof. split; [vm_compute; reflexivity|]. split; vm_compute; [discriminate|reflexivity]. Qed.

(* the reset() methods of the operation classes do not restore the constructor state: with the inherited reset the
   property fails (once x: history x = 0:5, continuation x = 0:1 — the stale maximum 5 is returned instead of 1) *)
Example inherited_reset_refuted :
  let p : @formula ExtZVal := Once (Var 0) in
  let hist := [[[(0, F 5)]]] in
  let post := [[[(0, F 1)]]] in
  run_reset_inherited_after ExtZArith pk0 p hist post = Some [[(T 0, F 5)]] /\
  run_fresh ExtZArith pk0 p post = Some [[(T 0, F 1)]].
Proof. cbv zeta. split; vm_compute; reflexivity. Qed.

End Witness.

Print Assumptions dense_reset_state.
Print Assumptions dense_reset_like_fresh.
Print Assumptions dense_reset_main.
Print Assumptions dense_reset_like_fresh_fin.
Print Assumptions dense_reset_correct.
Print Assumptions dense_reset_first.
Print Assumptions dense_reset_twice.
Print Assumptions fresh_is_init.
Print Assumptions run_reset_after_fresh.
Print Assumptions run_api_last.
Print Assumptions reset_unsupported.
Print Assumptions inherited_reset_is_no_reset.
Print Assumptions inherited_reset_refuted.
Print Assumptions dense_reset_nonvacuous.
