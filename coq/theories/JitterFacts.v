(* JitterFacts.v — consequences of the specification count_bad that "counts exactly" implies and a user relies on:
   the counter is a sum over gaps (appending a time-stamp adds the verdict of the new gap and nothing else, so the
   counter is monotone along a run and never jumps by more than one), it never exceeds the number of gaps, it is 0
   exactly when every gap is within tolerance, and it does not depend on where the run starts (translation of the
   time-stamps). *)
From Coq Require Import ZArith QArith List Bool Lia Lqa.
From RV Require Import Jitter.
Import ListNotations.
Local Open Scope Q_scope.

(* the gaps of a list of time-stamps *)
Fixpoint gaps (ts : list Q) : list Q :=
  match ts with
  | a :: ((b :: _) as rest) => (b - a) :: gaps rest
  | _ => []
  end.

Lemma gaps_length ts : length (gaps ts) = (length ts - 1)%nat.
Proof.
  induction ts as [|a ts IH]; [reflexivity|]. destruct ts as [|b ts]; [reflexivity|].
  change (gaps (a :: b :: ts)) with ((b - a) :: gaps (b :: ts)). cbn [length] in *. lia.
Qed.

Lemma count_bad_gaps P tol ts :
  count_bad P tol ts = length (filter (out_of_tol P tol) (gaps ts)).
Proof.
  induction ts as [|a ts IH]; [reflexivity|]. destruct ts as [|b ts]; [reflexivity|].
  change (count_bad P tol (a :: b :: ts)) with ((if out_of_tol P tol (b - a) then 1 else 0) + count_bad P tol (b :: ts))%nat.
  change (gaps (a :: b :: ts)) with ((b - a) :: gaps (b :: ts)). cbn [filter].
  rewrite IH. destruct (out_of_tol P tol (b - a)); reflexivity.
Qed.

Lemma filter_length_le {A} (f : A -> bool) l : (length (filter f l) <= length l)%nat.
Proof. induction l as [|x l IH]; cbn; [lia|]. destruct (f x); cbn; lia. Qed.

Lemma count_bad_le P tol ts : (count_bad P tol ts <= length ts - 1)%nat.
Proof. rewrite count_bad_gaps, <- gaps_length. apply filter_length_le. Qed.

(* appending one time-stamp: the verdict of the new gap is added, nothing else changes *)
Lemma count_bad_snoc P tol ts a t :
  count_bad P tol ((ts ++ [a]) ++ [t]) =
  (count_bad P tol (ts ++ [a]) + (if out_of_tol P tol (t - a) then 1 else 0))%nat.
Proof.
  induction ts as [|x ts IH].
  - cbn. lia.
  - destruct ts as [|y ts].
    + cbn. lia.
    + change (((x :: y :: ts) ++ [a]) ++ [t]) with (x :: y :: ((ts ++ [a]) ++ [t])).
      change ((x :: y :: ts) ++ [a]) with (x :: y :: (ts ++ [a])).
      change (count_bad P tol (x :: y :: (ts ++ [a]) ++ [t])) with
        ((if out_of_tol P tol (y - x) then 1 else 0) + count_bad P tol (((y :: ts) ++ [a]) ++ [t]))%nat.
      change (count_bad P tol (x :: y :: ts ++ [a])) with
        ((if out_of_tol P tol (y - x) then 1 else 0) + count_bad P tol ((y :: ts) ++ [a]))%nat.
      rewrite IH. lia.
Qed.

Lemma count_bad_single P tol t : count_bad P tol [t] = 0%nat.
Proof. reflexivity. Qed.

(* monotone along a run, by at most one per update *)
Lemma count_bad_prefix_step P tol ts t :
  (count_bad P tol ts <= count_bad P tol (ts ++ [t]) <= S (count_bad P tol ts))%nat.
Proof.
  destruct ts as [|x ts]; [cbn; lia|].
  destruct (@exists_last _ (x :: ts) ltac:(discriminate)) as [ts' [a E]].
  rewrite E, count_bad_snoc. destruct (out_of_tol P tol (t - a)); lia.
Qed.

Lemma count_bad_prefix_mono P tol ts us :
  (count_bad P tol ts <= count_bad P tol (ts ++ us))%nat.
Proof.
  revert ts. induction us as [|u us IH]; intros ts; [rewrite app_nil_r; lia|].
  replace (ts ++ u :: us) with ((ts ++ [u]) ++ us) by (rewrite <- app_assoc; reflexivity).
  specialize (IH (ts ++ [u])). pose proof (count_bad_prefix_step P tol ts u). lia.
Qed.

(* zero exactly when every gap is within tolerance *)
Lemma count_bad_zero_iff P tol ts :
  count_bad P tol ts = 0%nat <-> forall g, In g (gaps ts) -> out_of_tol P tol g = false.
Proof.
  rewrite count_bad_gaps. induction (gaps ts) as [|g l IH]; cbn.
  - split; [intros _ g []|reflexivity].
  - destruct (out_of_tol P tol g) eqn:E; cbn.
    + split; [discriminate|]. intros H. specialize (H g (or_introl eq_refl)). congruence.
    + rewrite IH. split.
      * intros H g' [<-|Hin]; [exact E|apply H; exact Hin].
      * intros H g' Hin. apply H. right. exact Hin.
Qed.

(* it does not matter where the run starts: translating every time-stamp by c leaves the counter unchanged
   (stated on gaps up to ==, which out_of_tol respects) *)
Lemma out_of_tol_ext P tol g g' : g == g' -> out_of_tol P tol g = out_of_tol P tol g'.
Proof. intros E. unfold out_of_tol. f_equal; apply qltb_ext; try reflexivity; try exact E. Qed.

Definition shift (c : Q) (ts : list Q) : list Q := map (fun t => t + c) ts.

Lemma count_bad_shift P tol c ts :
  count_bad P tol (shift c ts) = count_bad P tol ts.
Proof.
  induction ts as [|a ts IH]; [reflexivity|]. destruct ts as [|b ts]; [reflexivity|].
  change (shift c (a :: b :: ts)) with ((a + c) :: shift c (b :: ts)).
  change (shift c (b :: ts)) with ((b + c) :: shift c ts) at 1.
  change (count_bad P tol ((a + c) :: (b + c) :: shift c ts)) with
    ((if out_of_tol P tol ((b + c) - (a + c)) then 1 else 0) + count_bad P tol (shift c (b :: ts)))%nat.
  change (count_bad P tol (a :: b :: ts)) with ((if out_of_tol P tol (b - a) then 1 else 0) + count_bad P tol (b :: ts))%nat.
  rewrite IH. rewrite (out_of_tol_ext P tol ((b + c) - (a + c)) (b - a)) by ring. reflexivity.
Qed.

(* the online counter, through jitter_online *)
Lemma jrun_step_increment p tol norm ts a t : 0 < norm ->
  jviol (jrun p tol norm ((ts ++ [a]) ++ [t])) =
  (jviol (jrun p tol norm (ts ++ [a])) + (if out_of_tol (p / norm) tol (t - a) then 1 else 0))%nat.
Proof. intros Hn. rewrite !jitter_online by exact Hn. apply count_bad_snoc. Qed.

Lemma jrun_bounded p tol norm ts : 0 < norm -> (jviol (jrun p tol norm ts) <= length ts - 1)%nat.
Proof. intros Hn. rewrite jitter_online by exact Hn. apply count_bad_le. Qed.

Lemma jrun_mono p tol norm ts us : 0 < norm ->
  (jviol (jrun p tol norm ts) <= jviol (jrun p tol norm (ts ++ us)))%nat.
Proof. intros Hn. rewrite !jitter_online by exact Hn. apply count_bad_prefix_mono. Qed.
