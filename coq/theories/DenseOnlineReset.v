(* DenseOnlineReset.v — reset() of the dense-time ONLINE monitor (property C10, dense time): implementation layer.

   What the code is (rtamt as it is in the repository):

   (a) rtamt/spec/abstract_specification.py, AbstractOnlineSpecification
         def update(self, *args):  if self.set_ast_flag != True: self.online_interpreter.set_ast(self.ast); self.set_ast_flag = True
                                   ... return self.online_interpreter.update(dataset)
         def reset(self):          if self.set_ast_flag != True: self.online_interpreter.set_ast(self.ast); self.set_ast_flag = True
                                   self.online_interpreter.reset()
   (b) rtamt/semantics/abstract_dense_time_online_interpreter.py, AbstractDenseTimeOnlineInterpreter (OVERRIDES the reset of
       AbstractOnlineInterpreter; the dense interpreter has no [resetVisitor] attribute at all)
         def reset(self):
             self.set_ast(self.ast)                                   # "start again from fresh ones"
             for var in self.ast.free_vars: self.ast.var_object_dict[var] = self.ast.create_var_from_name(var)
   (c) rtamt/semantics/abstract_online_interpreter.py
         def set_ast(self, ast):  self.ast = ast; self.online_operator_dict = dict(); self.visitAst(self.ast)
       with the visitor of rtamt/semantics/stl/dense_time/online/ast_visitor.py (and the four IA subclasses of
       iastl/dense_time/online/ast_visitor.py, which only replace the class of the predicate operation):
         def visitX(self, node):  self.visitChildren(node); self.online_operator_dict[node.name] = XOperation(...)
         def visitEventually / Always / Until / Rise / Fall / Previous / Next / Strong* / TimedPrecedes / TimedAlways /
             TimedEventually / TimedUntil:  raise RTAMTException(...)          (before any child is visited)
   (d) the reset() METHOD of every operation class under stl/dense_time/online, arithmetic/dense_time/online and
       iastl/dense_time/online (27 classes; the IA predicate inherits the STL one; ConstantOperation and VariableOperation
       inherit the abstract one, which raises NotImplementedError) is
         def reset(self): pass
       It assigns NO field.  It is reachable only through AbstractOnlineResetVisitor (visitUnary/visitBinary: children first,
       then operator.reset(); visitLeaf: pass), which the dense interpreter never instantiates.

   The model follows that text: [op_reset]/[reset_visit] are (d) — dead code, kept to state what it would do;
   [build]/[set_ast] are (c); [mon_reset] is (a)+(b); [mon_fresh] is the first update() of a constructed and parsed
   specification (a).  Conventions of DenseOnlineMon.v: a node is keyed by the formula; [None] is a Python exception.
   [dict0] is the empty Python dict: DenseOnlineMon.visit answers [None] on the state [SUnsup] for every node that looks its
   operation up, which is the KeyError of a missing key.

   Not in the state of DenseOnlineMon (so not in this model): ast.var_object_dict (the model receives every batch explicitly;
   after reset() the code puts back create_var_from_name(var), the value the parser's declare_var stored), ast.results
   (overwritten with None by the construction visitor, as at the first set_ast), ast.inputs (NOT cleared by reset(): only
   get_value() of a declared variable that no formula reads looks at it), updateVisitor.visited (emptied by every update). *)
From Coq Require Import List Bool Arith ZArith Lia.
From RV Require Import Val Syntax Rho Online Dense DenseMerge DenseEval DenseWin DenseOnlineMerge DenseOnlineFold DenseOnlineWin
  DenseOnlineMon.
Import ListNotations.
Local Open Scope Z_scope.

Section ResetModel.
Context {VS : Val} (AR : Arith VS).
Variable pk : formula -> formula -> pkind.

(* ================================================================== *)
(* (d) the reset() methods of the operation classes                    *)
(* ================================================================== *)
(* one line per state shape: the classes that own such a state, and the fields their [def reset(self): pass] leaves as they are *)
Definition op_reset (st : opst) : opst :=
  match st with
  | SNone => SNone          (* Not, Abs, Sqrt, Exp, Ln, Negate: no field.  Variable: no reset() of its own (never called: visitLeaf) *)
  | SUnsup => SUnsup        (* no operation object *)
  | SConst s => SConst s    (* ConstantOperation: no reset() of its own (never called); is_first_sample kept *)
  | SFold s => SFold s      (* Once, Historically: prev kept *)
  | SBinZ s => SBinZ s      (* And, Or, Implies, Iff, Xor, Addition, Subtraction, Multiplication, Division, Pow, Log: *)
  | SBinE s => SBinE s      (*   sample_left_buf, sample_right_buf, last_output kept *)
  | SSinZ s => SSinZ s      (* Since: sample_left_buf, sample_right_buf, prev, last kept *)
  | SSinE s => SSinE s
  | SWinZ s => SWinZ s      (* OnceTimed, HistoricallyTimed: prev, residual_start, started kept *)
  | SWinE s => SWinE s
  | SPredZ s => SPredZ s    (* Predicate (STL and IA): sub (a SubtractionOperation, not reset either), subtraction_output kept *)
  | SPredE s => SPredE s
  | SStZ s => SStZ s        (* SinceTimed: both buffers and the four inner operations (since, hist, once, andop) kept *)
  | SStE s => SStE s
  end.

(* AbstractOnlineResetVisitor.visit(node, online_operator_dict); [None]: KeyError for a node set_ast did not reach *)
Fixpoint reset_visit (p : formula) (d : dict) : dict :=
  match p with
  | Var _ | Const _ => d                                                          (* visitLeaf: pass *)
  | A1 _ f | Not f | Once f | Hist f | OnceT _ _ f | HistT _ _ f =>
      let d1 := reset_visit f d in upd d1 p (op_reset (d1 p))
  | A2 _ f g | Pred _ f g | And f g | Or f g | Implies f g | Iff f g | Xor f g | Since f g | SinceT _ _ f g =>
      let d1 := reset_visit f d in let d2 := reset_visit g d1 in upd d2 p (op_reset (d2 p))
  | _ => d                                                                        (* no operation: set_ast raised before *)
  end.

(* ================================================================== *)
(* (c) set_ast: the construction visitor                               *)
(* ================================================================== *)
Definition dict0 : dict := fun _ => SUnsup.                                       (* self.online_operator_dict = dict() *)

(* StlDenseTimeOnlineAstVisitor.visit(node): children left to right, then the fresh operation of the node ([op_init] of
   DenseOnlineMon.v is the table "which class, with which constructor arguments") *)
Fixpoint build (p : formula) (d : dict) : option dict :=
  match p with
  | Var _ | Const _ => Some (upd d p (op_init p))
  | A1 _ f | Not f | Once f | Hist f | OnceT _ _ f | HistT _ _ f =>
      match build f d with
      | Some d1 => Some (upd d1 p (op_init p))
      | None => None
      end
  | A2 _ f g | Pred _ f g | And f g | Or f g | Implies f g | Iff f g | Xor f g | Since f g | SinceT _ _ f g =>
      match build f d with
      | Some d1 =>
          match build g d1 with
          | Some d2 => Some (upd d2 p (op_init p))
          | None => None
          end
      | None => None
      end
  | _ => None                                                                     (* raise RTAMTException('... not implemented ...') *)
  end.

Definition set_ast (p : formula) : option dict := build p dict0.

(* no node the construction visitor raises on *)
Fixpoint supported (p : formula) : bool :=
  match p with
  | Var _ | Const _ => true
  | A1 _ f | Not f | Once f | Hist f | OnceT _ _ f | HistT _ _ f => supported f
  | A2 _ f g | Pred _ f g | And f g | Or f g | Implies f g | Iff f g | Xor f g | Since f g | SinceT _ _ f g =>
      supported f && supported g
  | _ => false
  end.

(* ================================================================== *)
(* (a)+(b) reset() and the fresh monitor                               *)
(* ================================================================== *)
(* spec.reset() on a monitor whose operator dictionary is [d] (whether or not set_ast ran before: if it did not, it runs twice):
   the dictionary is thrown away *)
Definition mon_reset (p : formula) (d : dict) : option dict := set_ast p.

(* a constructed and parsed specification at its first update(): set_ast_flag is not set *)
Definition mon_fresh (p : formula) : option dict := set_ast p.

(* what the reset would be if the interpreter used the inherited AbstractOnlineInterpreter.reset (reset visitor + the
   reset() methods) instead of overriding it *)
Definition mon_reset_inherited (p : formula) (d : dict) : dict := reset_visit p d.

(* history, reset(), continuation: the lists returned by the updates after the reset *)
Definition run_reset_after (p : formula) (hist post : list (list dsig)) : option (list esig) :=
  match mon_fresh p with
  | None => None
  | Some d0 =>
      match mon_run AR pk p d0 hist with
      | None => None
      | Some (d1, _) =>
          match mon_reset p d1 with
          | None => None
          | Some d2 => option_map snd (mon_run AR pk p d2 post)
          end
      end
  end.
(* the same with the inherited reset *)
Definition run_reset_inherited_after (p : formula) (hist post : list (list dsig)) : option (list esig) :=
  match mon_fresh p with
  | None => None
  | Some d0 =>
      match mon_run AR pk p d0 hist with
      | None => None
      | Some (d1, _) => option_map snd (mon_run AR pk p (mon_reset_inherited p d1) post)
      end
  end.
Definition run_fresh (p : formula) (post : list (list dsig)) : option (list esig) :=
  match mon_fresh p with
  | None => None
  | Some d0 => option_map snd (mon_run AR pk p d0 post)
  end.

(* any sequence of calls of the API on one object: update()s grouped in segments, one reset() between two consecutive segments
   (an empty first segment: reset() before the first update; an empty inner segment: two reset()s in a row).
   [rs] is the reset in use.  The lists returned by the updates, segment by segment. *)
Fixpoint run_segs (rs : formula -> dict -> option dict) (p : formula) (d : dict) (segs : list (list (list dsig)))
  : option (list (list esig)) :=
  match segs with
  | [] => Some []
  | s :: rest =>
      match mon_run AR pk p d s with
      | None => None
      | Some (d1, o) =>
          match rest with
          | [] => Some [o]
          | _ :: _ =>
              match rs p d1 with
              | None => None
              | Some d2 => option_map (cons o) (run_segs rs p d2 rest)
              end
          end
      end
  end.
Definition run_api (p : formula) (segs : list (list (list dsig))) : option (list (list esig)) :=
  match mon_fresh p with
  | None => None
  | Some d0 => run_segs mon_reset p d0 segs
  end.
Definition run_api_inherited (p : formula) (segs : list (list (list dsig))) : option (list (list esig)) :=
  match mon_fresh p with
  | None => None
  | Some d0 => run_segs (fun p d => Some (mon_reset_inherited p d)) p d0 segs
  end.

End ResetModel.
