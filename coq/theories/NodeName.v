(* NodeName.v — the names of rtamt's syntax nodes (rtamt/syntax/node/**: every
   class builds self.name from the names of its children), the key under which
   the online monitors keep the one operation object of a node
   (online_operator_dict[node.name], visited[node.name]).

   [node] is the tree the parser visitor / the pastifier builds, with the leaves
   and the intervals as they are held by the Python objects (the models of the
   monitors work on [Syntax.formula], where the leaves are indices / values and
   the bounds are sample counts: [erase] below).  One keyword table per family of
   classes, one arm of [nname] per shape of concatenation.  Model only; the
   proofs are in NodeNameCorrect.v. *)
From Coq Require Import List Bool Arith NArith ZArith QArith Ascii String DecimalString.
From RV Require Import Val Syntax Lexer Offline Units.
Import ListNotations.
Local Open Scope string_scope.

(* ---- the classes ---- *)
(* UnaryNode classes whose name is  kw + '(' + child.name + ')' *)
Inductive un :=
| u_not        (* ltl/neg.py             'not('          *)
| u_once       (* ltl/once.py            'once('         *)
| u_hist       (* ltl/historically.py    'historically(' *)
| u_ev         (* ltl/eventually.py      'eventually('   *)
| u_alw        (* ltl/always.py          'always('       *)
| u_prev       (* ltl/previous.py        'previous('     *)
| u_sprev      (* ltl/strong_previous.py 's_previous('   *)
| u_next       (* ltl/next.py            'next('         *)
| u_snext      (* ltl/strong_next.py     's_next('       *)
| u_rise       (* ltl/rise.py            'rise('         *)
| u_fall       (* ltl/fall.py            'fall('         *)
| u_abs        (* arithmetic/abs.py      'abs('          *)
| u_sqrt       (* arithmetic/sqrt.py     'sqrt('         *)
| u_exp        (* arithmetic/exp.py      'exp('          *)
| u_ln         (* arithmetic/ln.py       'ln('           *)
| u_negate.    (* arithmetic/negate.py   '-('            *)

(* stl/timed_*.py, unary:  kw + '[' + begin + begin_unit + ',' + end + end_unit + '](' + child.name + ')' *)
Inductive tun := t_once | t_hist | t_ev | t_alw.

(* arithmetic/pow.py, log.py:  kw + '(' + child1.name + ',' + child2.name + ')' *)
Inductive fn2 := f_pow | f_log.

(* BinaryNode classes whose name is  '(' + child1.name + ')' + kw + '(' + child2.name + ')' *)
Inductive bin :=
| b_and | b_or | b_implies | b_iff | b_xor | b_since | b_until
| b_add | b_sub | b_mul | b_div
| b_pred (c : cmp).    (* ltl/predicate.py: kw = str(self.operator), enumerations/comp_op.py *)

(* stl/timed_since.py, timed_until.py, timed_precedes.py:
   '(' + child1.name + ')' + kw + '[' + ... + '](' + child2.name + ')' *)
Inductive tbin := tb_since | tb_until | tb_precedes.

(* one end of an Interval: a Fraction (or the int 0 / a horizon the pastifier computed) and the unit text
   ('' 's' 'ms' 'us' 'ns').  str(Fraction) is  numerator  or  numerator/denominator  (denominator 1 is not printed);
   a bound is never negative (visitInterval rejects begin < 0 and end < begin; the pastifier adds horizons > 0). *)
Record bound := { bnum : N; bden : positive; bunit : option tunit }.

Inductive node :=
| NVar (var field : string)        (* ltl/variable.py: field '' (or None) when the identifier has no '.' *)
| NConst (t : string)              (* ltl/constant.py: t = str(val), val a float *)
| NUn (o : un) (c : node)
| NTUn (o : tun) (b e : bound) (c : node)
| NFn2 (o : fn2) (c1 c2 : node)
| NBin (o : bin) (c1 c2 : node)
| NTBin (o : tbin) (b e : bound) (c1 c2 : node).

(* ---- the texts ---- *)
Definition un_kw (o : un) : string :=
  match o with
  | u_not => "not" | u_once => "once" | u_hist => "historically" | u_ev => "eventually" | u_alw => "always"
  | u_prev => "previous" | u_sprev => "s_previous" | u_next => "next" | u_snext => "s_next"
  | u_rise => "rise" | u_fall => "fall"
  | u_abs => "abs" | u_sqrt => "sqrt" | u_exp => "exp" | u_ln => "ln" | u_negate => "-"
  end.
Definition tun_kw (o : tun) : string :=
  match o with t_once => "once" | t_hist => "historically" | t_ev => "eventually" | t_alw => "always" end.
Definition fn2_kw (o : fn2) : string := match o with f_pow => "pow" | f_log => "log" end.
(* StlComparisonOperator.__str__ *)
Definition cmp_kw (c : cmp) : string :=
  match c with CLt => "<" | CLeq => "<=" | CEq => "==" | CNeq => "!=" | CGt => ">" | CGeq => ">=" end.
Definition bin_kw (o : bin) : string :=
  match o with
  | b_and => "and" | b_or => "or" | b_implies => "->" | b_iff => "<->" | b_xor => "xor"
  | b_since => "since" | b_until => "until"
  | b_add => "+" | b_sub => "-" | b_mul => "*" | b_div => "/"
  | b_pred c => cmp_kw c
  end.
Definition tbin_kw (o : tbin) : string :=
  match o with tb_since => "since" | tb_until => "until" | tb_precedes => "precedes" end.

(* str(int) *)
Definition dec (n : N) : string := NilEmpty.string_of_uint (N.to_uint n).
(* str(Fraction) *)
Definition frac_text (n : N) (d : positive) : string :=
  if Pos.eqb d 1 then dec n else dec n ++ "/" ++ dec (Npos d).
Definition unit_text (u : option tunit) : string :=
  match u with None => "" | Some US => "s" | Some UMS => "ms" | Some UUS => "us" | Some UNS => "ns" end.
(* str(self.begin) + str(self.begin_unit) *)
Definition bound_text (b : bound) : string := frac_text (bnum b) (bden b) ++ unit_text (bunit b).
Definition itv_text (b e : bound) : string := bound_text b ++ "," ++ bound_text e.

Definition is_empty (s : string) : bool := match s with EmptyString => true | _ => false end.

(* Constant.__init__: self.name = str(val); if self.name in ('inf', 'nan'): self.name = '+' + self.name *)
Definition const_name (t : string) : string :=
  if String.eqb t "inf" || String.eqb t "nan" then "+" ++ t else t.

(* Variable.__init__: if not self.field: self.name = self.var  else: self.name = self.var + '.' + self.field *)
Definition var_name (v f : string) : string := if is_empty f then v else v ++ "." ++ f.

Fixpoint nname (n : node) : string :=
  match n with
  | NVar v f => var_name v f
  | NConst t => const_name t
  | NUn o c => un_kw o ++ "(" ++ nname c ++ ")"
  | NTUn o b e c => tun_kw o ++ "[" ++ itv_text b e ++ "](" ++ nname c ++ ")"
  | NFn2 o c1 c2 => fn2_kw o ++ "(" ++ nname c1 ++ "," ++ nname c2 ++ ")"
  | NBin o c1 c2 => "(" ++ nname c1 ++ ")" ++ bin_kw o ++ "(" ++ nname c2 ++ ")"
  | NTBin o b e c1 c2 => "(" ++ nname c1 ++ ")" ++ tbin_kw o ++ "[" ++ itv_text b e ++ "](" ++ nname c2 ++ ")"
  end.

(* every node of a tree, the root first (the order in which the visitors reach them) *)
Fixpoint subnodes (n : node) : list node :=
  n :: match n with
       | NVar _ _ | NConst _ => []
       | NUn _ c | NTUn _ _ _ c => subnodes c
       | NFn2 _ c1 c2 | NBin _ c1 c2 | NTBin _ _ _ c1 c2 => subnodes c1 ++ subnodes c2
       end.

(* ---- what the leaves look like ---- *)
(* the characters that delimit names inside names *)
Definition special (c : ascii) : bool :=
  (Ascii.eqb c "(" || Ascii.eqb c ")" || Ascii.eqb c "[" || Ascii.eqb c ",")%char.
Definition plain (l : chars) : bool := forallb (fun c => negb (special c)) l.

(* the head of an identifier (what precedes its first '.'): IdentifierStart IdentifierPart*, no '.' *)
Definition var_ok (v : string) : bool :=
  match to_chars v with
  | c :: r => is_id_start c && forallb (fun a => is_id_part a && negb (Ascii.eqb a ".")) r
  | [] => false
  end.
(* the rest of the identifier after that dot *)
Definition field_ok (f : string) : bool := forallb is_id_part (to_chars f).

(* str(float): digits, '.', 'e', a sign, or the words inf / nan; it begins with a digit or '-' unless it is one of the two words *)
Definition is_float_char (c : ascii) : bool :=
  (is_digit c || Ascii.eqb c "." || Ascii.eqb c "e" || Ascii.eqb c "+" || Ascii.eqb c "-"
   || Ascii.eqb c "i" || Ascii.eqb c "n" || Ascii.eqb c "f" || Ascii.eqb c "a")%char.
Definition const_ok (t : string) : bool :=
  forallb is_float_char (to_chars t) &&
  (String.eqb t "inf" || String.eqb t "nan" ||
   match to_chars t with c :: _ => is_digit c || Ascii.eqb c "-" | [] => false end).

Fixpoint nwf (n : node) : bool :=
  match n with
  | NVar v f => var_ok v && field_ok f
  | NConst t => const_ok t
  | NUn _ c | NTUn _ _ _ c => nwf c
  | NFn2 _ c1 c2 | NBin _ c1 c2 | NTBin _ _ _ c1 c2 => nwf c1 && nwf c2
  end.

(* visitExprId: id_tokens = id.split('.'); id_head = id_tokens[0]; id_tokens.pop(0); id_tail = '.'.join(id_tokens);
   Variable(id_head, id_tail, var_io) *)
Fixpoint split_dot (l : chars) : chars * chars :=
  match l with
  | [] => ([], [])
  | c :: r => if Ascii.eqb c "." then ([], r) else let '(a, b) := split_dot r in (c :: a, b)
  end.
Definition var_of_ident (s : string) : node :=
  let '(h, t) := split_dot (to_chars s) in NVar (of_chars h) (of_chars t).

(* an Identifier token of LtlLexer.g4 *)
Definition ident_ok (s : string) : bool :=
  match to_chars s with c :: r => is_id_start c && forallb is_id_part r | [] => false end.

(* ---- from the nodes to the formulas of the monitors' models ---- *)
Section Erase.
Context {VS : Val}.
Variable vidx : string -> string -> nat.    (* the column of a variable / field in the data set *)
Variable cval : string -> V.                (* float(text) *)
Variable du : tunit.                        (* ast.unit *)
Variable p : Z.                             (* the sampling period and its unit *)
Variable pu : tunit.

Definition un_formula (o : un) (f : formula) : formula :=
  match o with
  | u_not => Not f | u_once => Once f | u_hist => Hist f | u_ev => Ev f | u_alw => Alw f
  | u_prev => Prev f | u_sprev => SPrev f | u_next => Next f | u_snext => SNext f
  | u_rise => Rise f | u_fall => Fall f
  | u_abs => A1 Abs f | u_sqrt => A1 Sqrt f | u_exp => A1 Exp f | u_ln => A1 Ln f | u_negate => A1 Neg f
  end.
Definition tun_formula (o : tun) (b e : nat) (f : formula) : formula :=
  match o with t_once => OnceT b e f | t_hist => HistT b e f | t_ev => EvT b e f | t_alw => AlwT b e f end.
Definition fn2_formula (o : fn2) (f g : formula) : formula :=
  match o with f_pow => A2 Pow f g | f_log => A2 Log f g end.
Definition bin_formula (o : bin) (f g : formula) : formula :=
  match o with
  | b_and => And f g | b_or => Or f g | b_implies => Implies f g | b_iff => Iff f g | b_xor => Xor f g
  | b_since => Since f g | b_until => Until f g
  | b_add => A2 Add f g | b_sub => A2 Sub f g | b_mul => A2 Mul f g | b_div => A2 Div f g
  | b_pred c => Pred c f g
  end.
Definition tbin_formula (o : tbin) (b e : nat) (f g : formula) : formula :=
  match o with tb_since => SinceT b e f g | tb_until => UntilT b e f g | tb_precedes => Precedes b e f g end.

Definition bound_q (b : bound) : Q := Z.of_N (bnum b) # bden b.
Definition itv_of (b e : bound) : interval :=
  {| ib := bound_q b; ie := bound_q e; ibu := bunit b; ieu := bunit e |}.

(* None: time_unit_transformer raises (a bound is not a multiple of the sampling period) *)
Fixpoint erase (n : node) : option formula :=
  match n with
  | NVar v f => Some (Var (vidx v f))
  | NConst t => Some (Const (cval t))
  | NUn o c => option_map (un_formula o) (erase c)
  | NTUn o b e c =>
      match to_samples du p pu (itv_of b e), erase c with
      | Ok (b', e'), Some f => Some (tun_formula o b' e' f)
      | _, _ => None
      end
  | NFn2 o c1 c2 =>
      match erase c1, erase c2 with Some f, Some g => Some (fn2_formula o f g) | _, _ => None end
  | NBin o c1 c2 =>
      match erase c1, erase c2 with Some f, Some g => Some (bin_formula o f g) | _, _ => None end
  | NTBin o b e c1 c2 =>
      match to_samples du p pu (itv_of b e), erase c1, erase c2 with
      | Ok (b', e'), Some f, Some g => Some (tbin_formula o b' e' f g)
      | _, _, _ => None
      end
  end.
End Erase.

(* ---- entry point for the correspondence check: the names of all nodes of a tree and whether its leaves are
   of the assumed form ---- *)
Definition run_nnames (n : node) : bool * list string := (nwf n, map nname (subnodes n)).
(* an identifier of the specification text: is it an Identifier token, and the variable node visitExprId makes of it *)
Definition run_ident (s : string) : bool * (string * string) :=
  (ident_ok s, match var_of_ident s with NVar v f => (v, f) | _ => (EmptyString, EmptyString) end).
