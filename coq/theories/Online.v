(* Online.v — implementation layer of the discrete-time online monitor:
   every stateful *_operation.py as init/step/reset, the operator dictionary
   keyed by the printed node name (here: by the formula, see DESIGN on name
   injectivity), the update visitor with its per-update memo (repaired D7),
   the reset visitor. *)
From Coq Require Import List Bool Arith Lia.
From RV Require Import Val Syntax Rho Offline.
Import ListNotations.

Section Online.
Context {VS : Val} (AR : Arith VS).
Variable pk : formula -> formula -> pkind.

Inductive opstate := StNone | St1 (v : V) | StBuf (l : list V) | StBuf2 (l r : list V).

(* the constructors *)
Definition op_init (p : formula) : opstate :=
  match p with
  | Rise _ | SPrev _ | Once _ | Since _ _ => St1 bot
  | Fall _ | Prev _ | Hist _ => St1 top
  | OnceT _ e _ => StBuf (repeat bot (S e))
  | HistT _ e _ => StBuf (repeat top (S e))
  | SinceT _ e _ _ | Precedes _ e _ _ => StBuf2 (repeat top (S e)) (repeat bot (S e))
  | _ => StNone
  end.

(* reset(): self.__init__() for the scalar operations; the deque operations
   append end+1 pads to their (maxlen = end+1) buffers *)
Definition push_n (pad : V) (k : nat) (buf : list V) : list V :=
  fold_left (fun b _ => push b pad) (seq 0 k) buf.
Definition op_reset (p : formula) (st : opstate) : opstate :=
  match p, st with
  | OnceT _ e _, StBuf l => StBuf (push_n bot (S e) l)
  | HistT _ e _, StBuf l => StBuf (push_n top (S e) l)
  | SinceT _ e _ _, StBuf2 l r | Precedes _ e _ _, StBuf2 l r =>
      StBuf2 (push_n top (S e) l) (push_n bot (S e) r)
  | _, _ => op_init p
  end.

Definition win_max (b e : nat) (buf : list V) : V :=
  fold_left (fun acc i => vmax acc (nth i buf bot)) (seq 0 (S (e - b))) bot.
Definition win_min (b e : nat) (buf : list V) : V :=
  fold_left (fun acc i => vmin acc (nth i buf top)) (seq 0 (S (e - b))) top.

(* PrecedesTimedOperation.update after the two appends: Offline.precedes_window, the same double loop
   as the one of the offline visitTimedPrecedes *)

(* update(sample) of the unary operations *)
Definition ustep (p : formula) (st : opstate) (x : V) : opstate * V :=
  match p, st with
  | A1 o _, _ => (StNone, a1 AR o x)
  | Not _, _ => (StNone, neg x)
  | Rise _, St1 prev => (St1 x, vmin (neg prev) x)
  | Fall _, St1 prev => (St1 x, vmin prev (neg x))
  | Prev _, St1 prev | SPrev _, St1 prev => (St1 x, prev)
  | Once _, St1 po => let o := vmax x po in (St1 o, o)
  | Hist _, St1 po => let o := vmin x po in (St1 o, o)
  | OnceT b e _, StBuf buf => let buf' := push buf x in (StBuf buf', win_max b e buf')
  | HistT b e _, StBuf buf => let buf' := push buf x in (StBuf buf', win_min b e buf')
  | _, _ => (st, bot)
  end.

(* update(left, right) of the binary operations *)
Definition bstep (p : formula) (st : opstate) (x y : V) : opstate * V :=
  match p, st with
  | A2 o _ _, _ => (StNone, a2 AR o x y)
  | Pred c f g, _ => (StNone, pred_val AR (pk f g) c x y)
  | And _ _, _ => (StNone, vmin x y)
  | Or _ _, _ => (StNone, vmax x y)
  | Implies _ _, _ => (StNone, vmax (neg x) y)
  | Iff _ _, _ => (StNone, neg (a1 AR Abs (a2 AR Sub x y)))
  | Xor _ _, _ => (StNone, a1 AR Abs (a2 AR Sub x y))
  | Since _ _, St1 po => let o := vmax (vmin x po) y in (St1 o, o)
  | SinceT b e _ _, StBuf2 bl br =>
      let bl' := push bl x in let br' := push br y in
      (StBuf2 bl' br', since_window b e bl' br')
  | Precedes b e _ _, StBuf2 bl br =>
      let bl' := push bl x in let br' := push br y in
      (StBuf2 bl' br', precedes_window b e bl' br')
  | _, _ => (st, bot)
  end.

(* ---- dictionary keyed by formula, memo of the current update ---- *)
Definition v_eq_dec (x y : V) : {x = y} + {x <> y}.
Proof.
  destruct (leb x y) eqn:E1; [destruct (leb y x) eqn:E2|].
  - left. apply leb_antisym; assumption.
  - right. intros ->. rewrite leb_refl in E2. discriminate.
  - right. intros ->. rewrite leb_refl in E1. discriminate.
Defined.
Definition formula_eq_dec (a b : formula) : {a = b} + {a <> b}.
Proof.
  decide equality; try apply Nat.eq_dec; try apply v_eq_dec;
  try (decide equality).
Defined.
Definition feqb (a b : formula) : bool := if formula_eq_dec a b then true else false.

Definition dict := formula -> opstate.
Definition memo := list (formula * V).
Fixpoint lookup (m : memo) (a : formula) : option V :=
  match m with
  | [] => None
  | (b, v) :: m' => if feqb a b then Some v else lookup m' a
  end.
Definition upd (d : dict) (a : formula) (s : opstate) : dict :=
  fun b => if feqb b a then s else d b.

Definition dict_init : dict := op_init.

Definition visit_un (p : formula) (r : dict * memo * V) : dict * memo * V :=
  let '(d1, m1, v) := r in
  let '(s', out) := ustep p (d1 p) v in
  (upd d1 p s', (p, out) :: m1, out).
Definition visit_bi (p : formula) (vf vg : dict -> memo -> dict * memo * V) (d : dict) (m : memo)
  : dict * memo * V :=
  let '(d1, m1, v1) := vf d m in
  let '(d2, m2, v2) := vg d1 m1 in
  let '(s', out) := bstep p (d2 p) v1 v2 in
  (upd d2 p s', (p, out) :: m2, out).

(* AbstractOnlineUpdateVisitor.visit with the per-update memo; env = the
   current input values.  Unsupported (future) nodes never reach this point
   (set_ast raises), they return bot here. *)
Fixpoint visit (env : nat -> V) (p : formula) (d : dict) (m : memo) {struct p} : dict * memo * V :=
  match p with
  | Var x => (d, m, env x)
  | Const c => (d, m, c)
  | _ =>
    match lookup m p with
    | Some v => (d, m, v)
    | None =>
      match p with
      | A1 _ f | Not f | Rise f | Fall f | Prev f | SPrev f | Once f | Hist f
      | OnceT _ _ f | HistT _ _ f => visit_un p (visit env f d m)
      | A2 _ f g | Pred _ f g | And f g | Or f g | Implies f g | Iff f g | Xor f g
      | Since f g | SinceT _ _ f g | Precedes _ _ f g => visit_bi p (visit env f) (visit env g) d m
      | _ => (d, m, bot)
      end
    end
  end.

(* visitAst: every spec of the forest in order, one memo per update; the
   result of update() is the value of the last spec *)
Fixpoint visit_forest (env : nat -> V) (F : list formula) (d : dict) (m : memo) : dict * list V :=
  match F with
  | [] => (d, [])
  | p :: F' =>
      let '(d1, m1, v) := visit env p d m in
      let '(d2, vs) := visit_forest env F' d1 m1 in
      (d2, v :: vs)
  end.

Definition mon_step (F : list formula) (d : dict) (env : nat -> V) : dict * V :=
  let '(d', vs) := visit_forest env F d [] in (d', last vs bot).

(* feeding rows 0..k-1 of a column-wise trace *)
Definition row (w : trace) (k : nat) : nat -> V := fun x => sig w x k.
Fixpoint mon_run (F : list formula) (d : dict) (w : trace) (k0 len : nat) : dict * list V :=
  match len with
  | 0 => (d, [])
  | S len' =>
      let '(d1, v) := mon_step F d (row w k0) in
      let '(d2, vs) := mon_run F d1 w (S k0) len' in
      (d2, v :: vs)
  end.

(* all specs' values of every update: what ast.results holds for the roots, i.e.
   what get_value(name) returns for every assertion / sub-specification name *)
Fixpoint mon_run_all (F : list formula) (d : dict) (w : trace) (k0 len : nat) : dict * list (list V) :=
  match len with
  | 0 => (d, [])
  | S len' =>
      let '(d1, vs) := visit_forest (row w k0) F d [] in
      let '(d2, vss) := mon_run_all F d1 w (S k0) len' in
      (d2, vs :: vss)
  end.

(* the reset visitor: visits children, then resets the node's operation *)
Fixpoint reset_visit (p : formula) (d : dict) {struct p} : dict :=
  match p with
  | Var _ | Const _ => d
  | A1 _ f | Not f | Rise f | Fall f | Prev f | SPrev f | Once f | Hist f
  | OnceT _ _ f | HistT _ _ f => let d1 := reset_visit f d in upd d1 p (op_reset p (d1 p))
  | A2 _ f g | Pred _ f g | And f g | Or f g | Implies f g | Iff f g | Xor f g
  | Since f g | SinceT _ _ f g | Precedes _ _ f g =>
      let d1 := reset_visit f d in let d2 := reset_visit g d1 in upd d2 p (op_reset p (d2 p))
  | _ => d
  end.
Definition mon_reset (F : list formula) (d : dict) : dict := fold_left (fun d p => reset_visit p d) F d.

(* supported online: no future operator anywhere in the forest *)
Definition on_supported (F : list formula) : bool := forallb past_only F.

End Online.
