(* PySem.v — the run-time library of tools/py2coq_offline.py: the Python
   primitives that rtamt/semantics/stl/discrete_time/offline/ast_visitor.py
   uses, as total Gallina functions.  Python ints are Z, lists are lists,
   a raised exception (IndexError, ValueError of min/max of an empty sequence,
   ValueError of deque(maxlen<0), `raise`) is None.  The translator only
   composes these; what a primitive means is decided here and nowhere else. *)
From Coq Require Import List Bool Arith ZArith Lia.
From RV Require Import Val Syntax.
Import ListNotations.

(* exceptions: the option monad *)
Notation "x <- e ;; k" := (match e with Some x => k | None => None end)
  (at level 61, e at next level, right associativity, only parsing).
Notation "' p <- e ;; k" := (match e with Some p => k | None => None end)
  (at level 61, p pattern, e at next level, right associativity, only parsing).

Definition cmp_eqb (a b : cmp) : bool :=
  match a, b with
  | CLeq, CLeq | CLt, CLt | CGeq, CGeq | CGt, CGt | CEq, CEq | CNeq, CNeq => true
  | _, _ => false
  end.

Section PySem.
Context {A B S : Type}.

(* len(l) *)
Definition py_len (l : list A) : Z := Z.of_nat (length l).

(* range(lo, hi) and range(lo, hi, step), step a non-zero literal *)
Definition py_range (lo hi : Z) : list Z :=
  map (fun k => (lo + Z.of_nat k)%Z) (seq 0 (Z.to_nat (hi - lo))).
Definition py_range3 (lo hi step : Z) : list Z :=
  if (0 <? step)%Z then
    map (fun k => (lo + step * Z.of_nat k)%Z) (seq 0 (Z.to_nat ((hi - lo + step - 1) / step)))
  else if (step <? 0)%Z then
    map (fun k => (lo + step * Z.of_nat k)%Z) (seq 0 (Z.to_nat ((lo - hi - step - 1) / (- step))))
  else [].

(* l[i]: negative indices count from the end, out of range raises *)
Definition py_get (l : list A) (i : Z) : option A :=
  let n := py_len l in
  let j := if (i <? 0)%Z then (i + n)%Z else i in
  if (0 <=? j)%Z && (j <? n)%Z then nth_error l (Z.to_nat j) else None.

(* l[lo:hi] with optional bounds: negative bounds count from the end, then both are clipped *)
Definition py_clip (n x : Z) : Z := if (x <? 0)%Z then Z.max 0 (x + n) else Z.min x n.
Definition py_slice (l : list A) (lo hi : option Z) : list A :=
  let n := py_len l in
  let a := match lo with Some x => py_clip n x | None => 0%Z end in
  let b := match hi with Some x => py_clip n x | None => n end in
  firstn (Z.to_nat (b - a)) (skipn (Z.to_nat a) l).

(* l * k *)
Definition py_repeat (l : list A) (k : Z) : list A := concat (repeat l (Z.to_nat k)).

(* for x in l: s = body x s   (an exception in the body leaves the loop) *)
Fixpoint py_for (l : list A) (body : A -> S -> option S) (s : S) : option S :=
  match l with
  | [] => Some s
  | x :: xs => s' <- body x s ;; py_for xs body s'
  end.

(* [f(x) for x in l] where f may raise *)
Fixpoint py_mapM (f : A -> option B) (l : list A) : option (list B) :=
  match l with
  | [] => Some []
  | x :: xs => y <- f x ;; ys <- py_mapM f xs ;; Some (y :: ys)
  end.

(* collections.deque(maxlen=m): the items and the bound; append drops the leftmost item of a full deque *)
Definition deque : Type := (list A * Z)%type.
Definition dq_new (m : Z) : option deque := if (m <? 0)%Z then None else Some ([], m).
Definition dq_append (d : deque) (x : A) : deque :=
  let (l, m) := d in
  if (m =? 0)%Z then d
  else if (py_len l <? m)%Z then (l ++ [x], m) else (tl l ++ [x], m).
Definition dq_get (d : deque) (i : Z) : option A := py_get (fst d) i.
End PySem.

Section PyVal.
Context {VS : Val}.
(* min(a, b) / max(a, b) of two floats, min(l) / max(l) of a list (empty: ValueError) *)
Definition py_min2 (a b : V) : V := vmin a b.
Definition py_max2 (a b : V) : V := vmax a b.
Definition py_min_list (l : list V) : option V :=
  match l with [] => None | x :: xs => Some (fold_left vmin xs x) end.
Definition py_max_list (l : list V) : option V :=
  match l with [] => None | x :: xs => Some (fold_left vmax xs x) end.
End PyVal.
