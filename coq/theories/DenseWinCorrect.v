(* DenseWinCorrect.v — the stack of pieces kept by once_timed_operation / historically_timed_operation is the
   upper (lower) envelope of the pieces pushed so far; with the pieces of a step signal this envelope is the
   maximum (minimum) of the operand over the window [t - end, t - begin]. *)
From Coq Require Import List Bool Arith ZArith Lia.
From RV Require Import Val Syntax Rho ListFacts OfflineCorrect Online Dense DenseSem DenseFacts DenseMerge DenseMergeCorrect DenseEval DenseEvalCorrect DenseWin.
Import ListNotations.
Local Open Scope Z_scope.

Section WinCorrect.
Context {VS : Val}.

Ltac tz_simp :=
  repeat match goal with
  | x : tz |- _ => destruct x
  end; cbn [tlt teq] in *; try discriminate;
  repeat match goal with
  | H : T _ = T _ |- _ => injection H as H
  | H : (_ <? _) = true |- _ => apply Z.ltb_lt in H
  | H : (_ <? _) = false |- _ => apply Z.ltb_ge in H
  | H : (_ <=? _) = true |- _ => apply Z.leb_le in H
  | H : (_ <=? _) = false |- _ => apply Z.leb_gt in H
  | |- (_ <? _) = true => apply Z.ltb_lt
  | |- (_ <? _) = false => apply Z.ltb_ge
  | |- (_ <=? _) = true => apply Z.leb_le
  | |- (_ <=? _) = false => apply Z.leb_gt
  end; subst; try lia; try reflexivity; try congruence.

(* ---------------- the envelope of a list of pieces ---------------- *)
Definition covers (p : piece) (t : Z) : bool := (ps p <=? t) && tlt (T t) (pe p).
Definition env (l : list piece) (t : Z) : V := maxl (map pv (filter (fun p => covers p t) l)).

Lemma env_ub l t X : leb (env l t) X = true <-> forall p, In p l -> covers p t = true -> leb (pv p) X = true.
Proof.
  unfold env. rewrite maxl_ub. split.
  - intros H p Hin Hc. apply H. apply in_map. apply filter_In. split; assumption.
  - intros H x Hx. apply in_map_iff in Hx as (p & <- & Hp). apply filter_In in Hp as [Hin Hc]. apply H; assumption.
Qed.
Lemma env_ge l t p : In p l -> covers p t = true -> leb (pv p) (env l t) = true.
Proof. intros Hin Hc. apply (proj1 (env_ub l t (env l t)) (leb_refl _) p Hin Hc). Qed.
Lemma env_snoc l b t : env (l ++ [b]) t = vmax (env l t) (if covers b t then pv b else bot).
Proof.
  unfold env. rewrite filter_app, map_app, maxl_app. f_equal. cbn [filter]. destruct (covers b t); cbn; [apply vmax_bot_r|reflexivity].
Qed.
Lemma env_none l t : (forall p, In p l -> covers p t = false) -> env l t = bot.
Proof.
  intros H. apply leb_antisym; [|apply bot_le]. apply env_ub. intros p Hin Hc. rewrite (H p Hin) in Hc. discriminate.
Qed.

(* ---------------- the stack ---------------- *)
(* out (top first) cuts [lo, hi) into non-empty pieces that carry the values of F *)
Fixpoint stk (out : list piece) (lo : Z) (hi : tz) (F : Z -> V) : Prop :=
  match out with
  | [] => hi = T lo
  | q :: r => pe q = hi /\ tlt (T (ps q)) hi = true /\ lo <= ps q /\
              (forall t, ps q <= t -> tlt (T t) hi = true -> F t = pv q) /\ stk r lo (T (ps q)) F
  end.

Lemma stk_ext : forall out lo hi F G, (forall t, lo <= t -> tlt (T t) hi = true -> F t = G t) -> stk out lo hi F -> stk out lo hi G.
Proof.
  induction out as [|q r IH]; intros lo hi F G E H; [exact H|]. cbn [stk] in *. destruct H as (H1 & H2 & H3 & H4 & H5).
  split; [exact H1|]. split; [exact H2|]. split; [exact H3|]. split.
  - intros t Ht Hlt. rewrite <- E by (try assumption; lia). apply H4; assumption.
  - apply (IH lo (T (ps q)) F G); [|exact H5]. intros t Ht Hlt. apply E; [exact Ht|]. clear - Hlt H2. tz_simp.
Qed.

Lemma stk_le : forall out lo hi F, stk out lo hi F -> tlt hi (T lo) = false.
Proof.
  induction out as [|q r IH]; intros lo hi F H; cbn [stk] in H.
  - subst. cbn. apply Z.ltb_irrefl.
  - destruct H as (H1 & H2 & H3 & _). clear - H2 H3. tz_simp.
Qed.

(* the popping loop *)
Lemma pop_spec : forall out lo h F b, stk out lo (T h) F -> out <> [] -> lo <= ps b ->
  exists a r' z, pop_dominated ltb out b = Some (a :: r') /\ stk (a :: r') lo (T z) F /\ z <= h /\
    (z = h \/ ps b < z) /\
    (forall t, z <= t -> t < h -> ltb (F t) (pv b) = true) /\
    (ltb (pv a) (pv b) && (ps b <? ps a)) = false.
Proof.
  induction out as [|q r IH]; intros lo h F b H Hne Hlo; [congruence|]. cbn [pop_dominated].
  destruct (ltb (pv q) (pv b) && (ps b <? ps q)) eqn:Ec.
  - apply andb_prop in Ec as [Ev Es]. apply Z.ltb_lt in Es. cbn [stk] in H. destruct H as (H1 & H2 & H3 & H4 & H5).
    destruct r as [|q' r''].
    + cbn [stk] in H5. injection H5 as H5. lia.
    + cbn in H2. apply Z.ltb_lt in H2.
      destruct (IH lo (ps q) F b H5 ltac:(discriminate) Hlo) as (a & r' & z & E & S & Hz & Hor & Hlt & Hc).
      exists a, r', z. split; [exact E|]. split; [exact S|]. split; [lia|]. split.
      * right. destruct Hor as [Hor|Hor]; [subst z; exact Es|exact Hor].
      * split; [|exact Hc]. intros t Ht Hth. destruct (Z.lt_ge_cases t (ps q)) as [Hl|Hg].
        -- apply Hlt; assumption.
        -- rewrite (H4 t Hg) by (cbn; apply Z.ltb_lt; exact Hth). exact Ev.
  - exists q, r, h. split; [reflexivity|]. split; [exact H|]. split; [lia|]. split; [left; reflexivity|].
    split; [|exact Ec]. intros t Ht Hth. lia.
Qed.

Lemma vmax_of_lt x y : ltb x y = true -> vmax x y = y.
Proof. unfold ltb, vmax. intros H. apply negb_true_iff in H. apply leb_false in H. rewrite H. reflexivity. Qed.
Lemma vmax_of_ge x y : leb y x = true -> vmax x y = x.
Proof. unfold vmax. intros H. destruct (leb x y) eqn:E; [apply leb_antisym; assumption|reflexivity]. Qed.

(* one push *)
Lemma push_spec out lo h F b :
  stk out lo (T h) F -> out <> [] -> lo <= ps b -> ps b <= h -> tlt (T h) (pe b) = true ->
  (forall t t', ps b <= t -> t <= t' -> t' < h -> leb (F t') (F t) = true) ->
  exists out', push_piece ltb out b = Some out' /\ out' <> [] /\
     stk out' lo (pe b) (fun t => if ps b <=? t then (if t <? h then vmax (F t) (pv b) else pv b) else F t).
Proof.
  intros S Hne Hlo Hbh Hhe Hmono.
  destruct (pop_spec out lo h F b S Hne Hlo) as (a & r' & z & E & S' & Hz & Hor & Hlt & Hc).
  assert (Hbz : ps b <= z) by (destruct Hor as [Hor|Hor]; [subst z; exact Hbh|lia]).
  unfold push_piece. destruct out as [|o0 o']; [congruence|]. rewrite E.
  pose proof S' as S''. cbn [stk] in S''. destruct S'' as (A1 & A2 & A3 & A4 & A5). cbn in A2. apply Z.ltb_lt in A2.
  set (G := fun t => if ps b <=? t then (if t <? h then vmax (F t) (pv b) else pv b) else F t).
  assert (Hi : intersects (ps a) (pe a) (ps b) (pe b) = true).
  { unfold intersects. rewrite A1. apply andb_true_intro. split; apply negb_true_iff.
    - destruct (pe b) as [e|]; [|reflexivity]. cbn in Hhe |- *. apply Z.ltb_lt in Hhe. apply Z.ltb_ge. lia.
    - cbn. apply Z.ltb_ge. lia. }
  rewrite Hi. cbn [negb].
  assert (Htop : forall t, z <= t -> tlt (T t) (pe b) = true -> G t = pv b).
  { intros t Ht _. unfold G. destruct (Z.leb_spec (ps b) t); [|lia]. destruct (Z.ltb_spec t h); [|reflexivity].
    apply vmax_of_lt. apply Hlt; assumption. }
  destruct (ltb (pv a) (pv b)) eqn:Ev; cbn [negb].
  - (* a is lower than b: a is cut at the start of b *)
    cbn [andb] in Hc. apply Z.ltb_ge in Hc.
    eexists. split; [reflexivity|]. split; [discriminate|].
    assert (Hb : forall t, ps b <= t -> tlt (T t) (pe b) = true -> G t = pv b).
    { intros t Ht Hte. destruct (Z.lt_ge_cases t z) as [Hl|Hg]; [|apply Htop; assumption].
      unfold G. destruct (Z.leb_spec (ps b) t); [|lia]. destruct (Z.ltb_spec t h); [|reflexivity].
      apply vmax_of_lt. rewrite (A4 t) by (try lia; cbn; apply Z.ltb_lt; lia). exact Ev. }
    assert (Hpb : tlt (T (ps b)) (pe b) = true) by (clear - Hhe Hbh; destruct (pe b); cbn in *; [apply Z.ltb_lt; apply Z.ltb_lt in Hhe; lia|reflexivity]).
    destruct (Z.ltb_spec (ps a) (ps b)) as [Hab|Hab]; cbn [app].
    + cbn [stk]. split; [reflexivity|]. split; [exact Hpb|]. split; [lia|]. split; [exact Hb|].
      cbn [ps pe pv fst snd]. split; [reflexivity|]. split; [cbn; apply Z.ltb_lt; exact Hab|]. split; [exact A3|]. split.
      * intros t Ht Htb. cbn in Htb. apply Z.ltb_lt in Htb. unfold G. destruct (Z.leb_spec (ps b) t); [lia|].
        apply A4; [exact Ht|]. cbn. apply Z.ltb_lt. lia.
      * apply (stk_ext r' lo (T (ps a)) F G); [|exact A5]. intros t Ht Hta. cbn in Hta. apply Z.ltb_lt in Hta.
        unfold G. destruct (Z.leb_spec (ps b) t); [lia|reflexivity].
    + assert (Eab : ps a = ps b) by lia. cbn [stk]. split; [reflexivity|]. split; [exact Hpb|]. split; [lia|]. split; [exact Hb|].
      rewrite <- Eab. apply (stk_ext r' lo (T (ps a)) F G); [|exact A5]. intros t Ht Hta. cbn in Hta. apply Z.ltb_lt in Hta.
      unfold G. destruct (Z.leb_spec (ps b) t); [lia|reflexivity].
  - (* a is at least b: b shows after a only *)
    rewrite A1. eexists. split; [reflexivity|]. split; [discriminate|].
    assert (Hge : leb (pv b) (pv a) = true) by (unfold ltb in Ev; apply negb_false_iff in Ev; exact Ev).
    cbn [stk ps pe pv fst snd]. split; [reflexivity|]. split.
    { clear - Hhe Hz. destruct (pe b); cbn in *; [apply Z.ltb_lt; apply Z.ltb_lt in Hhe; lia|reflexivity]. }
    split; [lia|]. split; [exact Htop|].
    apply (stk_ext (a :: r') lo (T z) F G); [|exact S']. intros t Ht Htz. cbn in Htz. apply Z.ltb_lt in Htz.
    unfold G. destruct (Z.leb_spec (ps b) t); [|reflexivity]. destruct (Z.ltb_spec t h); [|lia].
    symmetry. apply vmax_of_ge. apply (leb_trans _ (pv a)); [exact Hge|].
    rewrite <- (A4 (z - 1)) by (try lia; cbn; apply Z.ltb_lt; lia). apply Hmono; lia.
Qed.

(* ---------------- a sequence of pieces in the order the loops produce them ---------------- *)
(* starts do not decrease, ends increase, each piece starts no later than the previous one ends *)
Fixpoint lseq (h : Z) (lo : Z) (l : list piece) : Prop :=
  match l with
  | [] => True
  | q :: r => lo <= ps q /\ ps q <= h /\ tlt (T h) (pe q) = true /\
              match r with [] => True | _ => exists h', pe q = T h' /\ lseq h' (ps q) r end
  end.

Lemma lseq_starts : forall l h lo, lseq h lo l -> forall q, In q l -> lo <= ps q.
Proof.
  induction l as [|q r IH]; intros h lo H p Hin; [destruct Hin|]. cbn [lseq] in H. destruct H as (H1 & H2 & H3 & H4).
  destruct Hin as [<-|Hin]; [exact H1|]. destruct r as [|q' r']; [destruct Hin|]. destruct H4 as (h' & E & H4).
  pose proof (IH h' (ps q) H4 p Hin). lia.
Qed.

Lemma push_all_spec : forall l done out lo h,
  stk out lo (T h) (env done) -> out <> [] ->
  (forall p, In p done -> tlt (T h) (pe p) = false) ->
  forall s0, (forall p, In p done -> ps p <= s0) -> lo <= s0 -> lseq h s0 l ->
  exists out', push_all ltb out l = Some out' /\ out' <> [] /\
     match last l (0, TInf, bot) with
     | (_, hi, _) => l <> [] -> stk out' lo hi (env (done ++ l))
     end /\ (l = [] -> out' = out).
Proof.
  induction l as [|b r IH]; intros done out lo h S Hne Hends s0 Hst Hlo0 Hl.
  - exists out. split; [reflexivity|]. split; [exact Hne|]. split; [cbn; congruence|reflexivity].
  - cbn [lseq] in Hl. destruct Hl as (L1 & L2 & L3 & L4).
    assert (Hmono : forall t t', ps b <= t -> t <= t' -> t' < h -> leb (env done t') (env done t) = true).
    { intros t t' Ht Htt Hth. apply env_ub. intros p Hin Hc. apply env_ge; [exact Hin|].
      unfold covers in *. apply andb_prop in Hc as [C1 C2]. apply Z.leb_le in C1. apply andb_true_intro. split.
      - apply Z.leb_le. pose proof (Hst p Hin). lia.
      - clear - C2 Htt. destruct (pe p); cbn in *; [apply Z.ltb_lt; apply Z.ltb_lt in C2; lia|reflexivity]. }
    destruct (push_spec out lo h (env done) b S Hne ltac:(lia) L2 L3 Hmono) as (out1 & E1 & Hne1 & S1).
    assert (S1' : stk out1 lo (pe b) (env (done ++ [b]))).
    { eapply stk_ext; [|exact S1]. intros t Ht Hte. cbn beta. rewrite env_snoc. unfold covers. rewrite Hte.
      destruct (Z.leb_spec (ps b) t); cbn [andb]; [|rewrite vmax_bot_r; reflexivity].
      destruct (Z.ltb_spec t h); [reflexivity|]. rewrite env_none; [symmetry; apply vmax_bot_l|].
      intros p Hin. unfold covers. apply andb_false_iff. right. pose proof (Hends p Hin) as He.
      clear - He H0. destruct (pe p); cbn in *; [apply Z.ltb_ge; apply Z.ltb_ge in He; lia|discriminate]. }
    unfold push_all. cbn [fold_left obind]. rewrite E1. fold (push_all ltb out1 r).
    destruct r as [|b' r'].
    + exists out1. split; [reflexivity|]. split; [exact Hne1|]. split; [|discriminate]. cbn [last]. destruct b as [[bs be] bv]. intros _. exact S1'.
    + destruct L4 as (h' & Eh & L4). rewrite Eh in S1'.
      destruct (IH (done ++ [b]) out1 lo h' S1' Hne1) with (s0 := ps b) as (out' & E' & Hne' & S' & _).
      * intros p Hin. apply in_app_or in Hin as [Hin|[<-|[]]].
        -- pose proof (Hends p Hin) as He. rewrite Eh in L3. clear - He L3. destruct (pe p); cbn in *; [apply Z.ltb_ge; apply Z.ltb_ge in He; apply Z.ltb_lt in L3; lia|discriminate].
        -- rewrite Eh. cbn. apply Z.ltb_irrefl.
      * intros p Hin. apply in_app_or in Hin as [Hin|[<-|[]]]; [pose proof (Hst p Hin); lia|lia].
      * lia.
      * exact L4.
      * exists out'. split; [exact E'|]. split; [exact Hne'|]. split; [|discriminate].
        change (last (b :: b' :: r') (0, TInf, bot)) with (last (b' :: r') (0, TInf, bot)).
        destruct (last (b' :: r') (0, TInf, bot)) as [[ls le] lv]. intros _.
        rewrite <- app_assoc in S'. apply S'. discriminate.
Qed.

(* ---------------- from the final stack to the sample list ---------------- *)
Lemma den_opt_snoc : forall (s : dsig) a v t, (forall x y, In (x, y) s -> x < a) ->
  den_opt (s ++ [(a, v)]) t = if a <=? t then Some v else den_opt s t.
Proof.
  induction s as [|[x y] s' IH]; intros a v t H; cbn [app den_opt].
  - destruct (a <=? t); reflexivity.
  - rewrite IH by (intros x' y' Hin; apply (H x' y'); right; exact Hin).
    pose proof (H x y (or_introl eq_refl)). destruct (Z.leb_spec a t), (Z.leb_spec x t); try reflexivity. lia.
Qed.
Lemma dsorted_snoc : forall (s : dsig) a v, dsorted s -> (forall x y, In (x, y) s -> x < a) -> dsorted (s ++ [(a, v)]).
Proof.
  induction s as [|[x y] s' IH]; intros a v Hs H; cbn [app]; [cbn; auto|].
  cbn [dsorted] in *. destruct Hs as [H1 H2]. split; [|apply IH; [exact H2|intros x' y' Hin; apply (H x' y'); right; exact Hin]].
  destruct s' as [|[x' y'] s'']; cbn [app]; [apply (H x y); left; reflexivity|exact H1].
Qed.

Lemma stk_samples : forall out lo hi F, stk out lo hi F -> out <> [] ->
  dsorted (samples_of (rev out)) /\ samples_of (rev out) <> [] /\ start (samples_of (rev out)) = lo /\
  (forall a v, In (a, v) (samples_of (rev out)) -> tlt (T a) hi = true) /\
  forall t, tlt (T t) hi = true -> den_opt (samples_of (rev out)) t = if t <? lo then None else Some (F t).
Proof.
  induction out as [|q r IH]; intros lo hi F S Hne; [congruence|]. cbn [stk] in S. destruct S as (S1 & S2 & S3 & S4 & S5).
  cbn [rev]. unfold samples_of. rewrite map_app. cbn [map]. fold (samples_of (rev r)).
  destruct r as [|q' r'].
  - cbn [stk] in S5. injection S5 as S5. cbn [rev samples_of map app]. split; [cbn; auto|]. split; [discriminate|]. split; [cbn; lia|]. split.
    + intros a v [E|[]]. injection E as <- <-. exact S2.
    + intros t Ht. cbn [den_opt]. destruct (Z.leb_spec (ps q) t), (Z.ltb_spec t lo); try lia; try reflexivity. rewrite S4; [reflexivity|lia|exact Ht].
  - destruct (IH lo (T (ps q)) F S5 ltac:(discriminate)) as (I1 & I2 & I3 & I4 & I5).
    assert (Hlt : forall x y, In (x, y) (samples_of (rev (q' :: r'))) -> x < ps q).
    { intros x y Hin. specialize (I4 x y Hin). cbn in I4. apply Z.ltb_lt in I4. exact I4. }
    split; [apply dsorted_snoc; assumption|]. split; [destruct (samples_of (rev (q' :: r'))); discriminate|]. split.
    + destruct (samples_of (rev (q' :: r'))) as [|[x y] s'] eqn:Es; [congruence|]. cbn [app start] in *. exact I3.
    + split.
      * intros a v Hin. apply in_app_or in Hin as [Hin|[E|[]]].
        -- pose proof (Hlt a v Hin). clear - H S2. destruct hi; cbn in *; [apply Z.ltb_lt; apply Z.ltb_lt in S2; lia|reflexivity].
        -- injection E as <- <-. exact S2.
      * intros t Ht. rewrite den_opt_snoc by exact Hlt. destruct (Z.leb_spec (ps q) t).
        -- destruct (Z.ltb_spec t lo); [lia|]. rewrite S4; [reflexivity|lia|exact Ht].
        -- apply I5. cbn. apply Z.ltb_lt. lia.
Qed.

(* ---------------- the pieces of a step signal ---------------- *)
Variables (b e : Z).
Hypothesis Hb : 0 <= b.
Hypothesis Hbe : b <= e.

Lemma past_pieces_lseq : forall (s : dsig) t1 v1, dsorted ((t1, v1) :: s) ->
  forall h lo, lo <= t1 + b -> t1 + b <= h -> h < (match s with (t2, _) :: _ => t2 + e | [] => h + 1 end) ->
  lseq h lo (past_pieces ((t1, v1) :: s) b e).
Proof.
  induction s as [|[t2 v2] s' IH]; intros t1 v1 Hs h lo H1 H2 H3; cbn [past_pieces lseq ps pe fst snd].
  - split; [exact H1|]. split; [exact H2|]. split; reflexivity.
  - split; [exact H1|]. split; [exact H2|]. split; [cbn; apply Z.ltb_lt; exact H3|].
    exists (t2 + e). split; [reflexivity|]. cbn [dsorted] in Hs. destruct Hs as [Hlt Hs].
    apply (IH t2 v2 Hs); try lia. destruct s' as [|[t3 v3] s'']; [lia|]. cbn [dsorted] in Hs. lia.
Qed.

Lemma past_pieces_last : forall (s : dsig), s <> [] -> exists ls lv, last (past_pieces s b e) (0, TInf, bot) = (ls, TInf, lv).
Proof.
  induction s as [|[t v] r IH]; intros Hne; [congruence|]. destruct r as [|[t' v'] r'].
  - cbn. eauto.
  - destruct (IH ltac:(discriminate)) as (ls & lv & E). exists ls, lv. rewrite <- E. reflexivity.
Qed.

(* the pieces that cover t are the segments met by the window [t - e, t - b] *)
Lemma pieces_ub : forall (s : dsig), dsorted s -> s <> [] -> forall X t,
  (forall p, In p (past_pieces s b e) -> covers p t = true -> leb (pv p) X = true) <->
  (forall u, start s <= u -> t - e <= u <= t - b -> leb (den s u) X = true).
Proof.
  induction s as [|[t1 v1] r IH]; intros Hs Hne X t; [congruence|]. destruct r as [|[t2 v2] r'].
  - cbn [past_pieces start]. split.
    + intros H u Hu Hw. unfold den. cbn [den_opt]. destruct (Z.leb_spec t1 u); [|lia].
      apply (H (t1 + b, TInf, v1)); [left; reflexivity|]. unfold covers. cbn. rewrite andb_true_r. apply Z.leb_le. lia.
    + intros H p [<-|[]] Hc. unfold covers in Hc. cbn in Hc. rewrite andb_true_r in Hc. apply Z.leb_le in Hc.
      specialize (H (Z.max (t - e) t1) ltac:(lia) ltac:(lia)). unfold den in H. cbn [den_opt] in H.
      destruct (Z.leb_spec t1 (Z.max (t - e) t1)); [exact H|lia].
  - cbn [dsorted] in Hs. destruct Hs as [Hlt Hs]. specialize (IH Hs ltac:(discriminate) X t).
    change (past_pieces ((t1, v1) :: (t2, v2) :: r') b e) with ((t1 + b, T (t2 + e), v1) :: past_pieces ((t2, v2) :: r') b e).
    cbn [start] in *.
    assert (Hden1 : forall u, t1 <= u -> u < t2 -> den ((t1, v1) :: (t2, v2) :: r') u = v1).
    { intros u H1 H2. unfold den. cbn [den_opt]. destruct (Z.leb_spec t1 u); [|lia]. destruct (Z.leb_spec t2 u); [lia|reflexivity]. }
    assert (Hden2 : forall u, t2 <= u -> den ((t1, v1) :: (t2, v2) :: r') u = den ((t2, v2) :: r') u).
    { intros u H2. unfold den. rewrite den_opt_cons. destruct (Z.leb_spec t1 u); [|lia].
      destruct (den_opt ((t2, v2) :: r') u) eqn:E; [reflexivity|]. exfalso. cbn [den_opt] in E. destruct (Z.leb_spec t2 u); [|lia].
      destruct (den_opt r' u); discriminate. }
    split.
    + intros H u Hu Hw. destruct (Z.lt_ge_cases u t2) as [Hl|Hg].
      * rewrite Hden1 by lia. apply (H (t1 + b, T (t2 + e), v1)); [left; reflexivity|].
        unfold covers. cbn. apply andb_true_intro. split; [apply Z.leb_le|apply Z.ltb_lt]; lia.
      * rewrite Hden2 by lia. apply (proj1 IH); [|lia|exact Hw]. intros p Hin Hc. apply H; [right; exact Hin|exact Hc].
    + intros H p [<-|Hin] Hc.
      * unfold covers in Hc. cbn in Hc. apply andb_prop in Hc as [C1 C2]. apply Z.leb_le in C1. apply Z.ltb_lt in C2.
        specialize (H (Z.max (t - e) t1) ltac:(lia) ltac:(lia)). rewrite Hden1 in H by lia. exact H.
      * apply (proj2 IH); [|exact Hin|exact Hc]. intros u Hu Hw. rewrite <- Hden2 by lia. apply H; lia.
Qed.

Lemma env_window (s : dsig) : dsorted s -> s <> [] -> forall t,
  env (past_pieces s b e) t = if t - b <? start s then bot else zmax (den s) (Z.max (t - e) (start s)) (t - b).
Proof.
  intros Hs Hne t. apply eq_by_ub. intros X. rewrite env_ub, (pieces_ub s Hs Hne X t).
  destruct (Z.ltb_spec (t - b) (start s)) as [Hl|Hg].
  - split; [intros _; apply bot_le|]. intros _ u Hu Hw. lia.
  - rewrite zmax_ub. split; intros H u; [intros Hw; apply H; lia|intros Hu Hw; apply H; lia].
Qed.

(* ---------------- once[b, e] ---------------- *)
Lemma past_env_spec (s : dsig) (pad : V) : dsorted s -> s <> [] -> 0 <= start s ->
  exists out, past_env ltb pad s b e = Some out /\ out <> [] /\
    stk out (if 0 <? b then 0 else start s) TInf
        (env ((if 0 <? b then [(0, T (start s + b), pad)] else []) ++ past_pieces s b e)).
Proof.
  intros Hs Hne H0. destruct s as [|[t1 v1] r]; [congruence|]. cbn [start] in *. unfold past_env.
  destruct (past_pieces_last ((t1, v1) :: r) ltac:(discriminate)) as (ls & lv & El).
  destruct (Z.ltb_spec 0 b) as [Hpos|Hzero].
  - (* the pad [0, t1 + b) *)
    destruct (push_all_spec (past_pieces ((t1, v1) :: r) b e) [(0, T (t1 + b), pad)] [(0, T (t1 + b), pad)] 0 (t1 + b)) with (s0 := 0)
      as (out & E & Hno & S & _).
    + cbn [stk ps pe pv fst snd]. split; [reflexivity|]. split; [cbn; apply Z.ltb_lt; lia|]. split; [lia|]. split; [|reflexivity].
      intros t Ht Hlt. unfold env. cbn [filter]. unfold covers. cbn [ps pe fst snd]. rewrite Hlt. destruct (Z.leb_spec 0 t); [|lia]. cbn. apply vmax_bot_r.
    + discriminate.
    + intros p [<-|[]]. cbn. apply Z.ltb_irrefl.
    + intros p [<-|[]]. cbn. lia.
    + lia.
    + apply past_pieces_lseq; try lia; [exact Hs|]. destruct r as [|[t2 v2] r']; [lia|]. cbn [dsorted] in Hs. lia.
    + exists out. split; [exact E|]. split; [exact Hno|]. rewrite El in S. apply S. discriminate.
  - (* begin = 0: the first piece goes onto the empty stack *)
    assert (Eb : b = 0) by lia.
    change (past_pieces ((t1, v1) :: r) b e) with ((t1 + b, match r with (t', _) :: _ => T (t' + e) | [] => TInf end, v1) :: past_pieces r b e) in *.
    unfold push_all. cbn [fold_left obind push_piece]. fold (push_all ltb [(t1 + b, match r with (t', _) :: _ => T (t' + e) | [] => TInf end, v1)] (past_pieces r b e)).
    destruct r as [|[t2 v2] r'].
    + cbn [past_pieces push_all fold_left app]. eexists. split; [reflexivity|]. split; [discriminate|].
      cbn [stk ps pe pv fst snd]. split; [reflexivity|]. split; [reflexivity|]. split; [lia|]. split; [|f_equal; lia].
      intros t Ht _. unfold env. cbn [filter]. unfold covers. cbn [ps pe fst snd tlt]. rewrite andb_true_r. destruct (Z.leb_spec (t1 + b) t); [|lia]. cbn. apply vmax_bot_r.
    + cbn [dsorted] in Hs. destruct Hs as [Hlt Hs].
      destruct (push_all_spec (past_pieces ((t2, v2) :: r') b e) [(t1 + b, T (t2 + e), v1)] [(t1 + b, T (t2 + e), v1)] t1 (t2 + e)) with (s0 := t1 + b)
        as (out & E & Hno & S & _).
      * cbn [stk ps pe pv fst snd]. split; [reflexivity|]. split; [cbn; apply Z.ltb_lt; lia|]. split; [lia|]. split; [|f_equal; lia].
        intros t Ht Hlt'. unfold env. cbn [filter]. unfold covers. cbn [ps pe fst snd]. rewrite Hlt'. destruct (Z.leb_spec (t1 + b) t); [|lia]. cbn. apply vmax_bot_r.
      * discriminate.
      * intros p [<-|[]]. cbn. apply Z.ltb_irrefl.
      * intros p [<-|[]]. cbn. lia.
      * lia.
      * apply past_pieces_lseq; try lia; [exact Hs|]. destruct r' as [|[t3 v3] r'']; [lia|]. cbn [dsorted] in Hs. lia.
      * exists out. split; [exact E|]. split; [exact Hno|].
        change (last ((t1 + b, T (t2 + e), v1) :: past_pieces ((t2, v2) :: r') b e) (0, TInf, bot)) with (last (past_pieces ((t2, v2) :: r') b e) (0, TInf, bot)) in El.
        rewrite El in S. cbn [app]. apply S. discriminate.
Qed.

Theorem good_once_timed (s : dsig) t0 F : good s t0 F -> (b = 0 \/ t0 = 0) -> 0 <= t0 ->
  exists out, once_timed_op s b e = Some out /\
    good out t0 (fun t => if t - b <? t0 then bot else zmax F (Z.max (t - e) t0) (t - b)).
Proof.
  intros G Hor H0. pose proof G as (Hs & Hne & Hst & Hd).
  destruct (past_env_spec s bot Hs Hne ltac:(lia)) as (out & E & Hno & S).
  unfold once_timed_op. rewrite E. cbn [option_map]. eexists. split; [reflexivity|]. apply good_dedup.
  destruct (stk_samples out _ _ _ S Hno) as (R1 & R2 & R3 & _ & R5).
  assert (Elo : (if 0 <? b then 0 else start s) = t0) by (destruct (Z.ltb_spec 0 b); lia).
  rewrite Elo in *.
  split; [exact R1|]. split; [exact R2|]. split; [exact R3|]. intros t. rewrite (R5 t eq_refl).
  destruct (Z.ltb_spec t t0); [reflexivity|]. f_equal.
  transitivity (env (past_pieces s b e) t).
  - destruct (0 <? b); [|reflexivity]. change ([(0, T (start s + b), bot)] ++ past_pieces s b e) with ((0, T (start s + b), bot) :: past_pieces s b e).
    unfold env. cbn [filter]. destruct (covers (0, T (start s + b), bot) t); [|reflexivity]. cbn [map maxl fold_right]. apply vmax_bot_l.
  - rewrite (env_window s Hs Hne t), Hst. destruct (Z.ltb_spec (t - b) t0); [reflexivity|].
    apply zmax_ext. intros u Hu. apply (good_den s t0 F u G). lia.
Qed.


End WinCorrect.

(* ---------------- historically[b, e] by duality ---------------- *)
Section WinDual.
Context {VS : Val}.

Definition negp (p : piece) : piece := (ps p, pe p, neg (pv p)).
Definition gtb (x y : V) : bool := ltb y x.

Lemma negp_invol p : negp (negp p) = p.
Proof. destruct p as [[a c] v]. unfold negp. cbn. rewrite neg_invol. reflexivity. Qed.
Lemma map_negp_invol l : map negp (map negp l) = l.
Proof. rewrite map_map. rewrite <- (map_id l) at 2. apply map_ext. apply negp_invol. Qed.
Lemma ltb_neg x y : ltb (neg x) (neg y) = ltb y x.
Proof. unfold ltb. rewrite neg_anti_iff. reflexivity. Qed.

Lemma pop_neg : forall out b, pop_dominated ltb (map negp out) (negp b) = option_map (map negp) (pop_dominated gtb out b).
Proof.
  induction out as [|a r IH]; intros b; [reflexivity|]. cbn [map pop_dominated].
  change (pv (negp a)) with (neg (pv a)). change (pv (negp b)) with (neg (pv b)). change (ps (negp a)) with (ps a). change (ps (negp b)) with (ps b).
  unfold gtb at 1. rewrite ltb_neg. destruct (ltb (pv b) (pv a) && (ps b <? ps a)); [apply IH|reflexivity].
Qed.

Lemma push_neg out b : push_piece ltb (map negp out) (negp b) = option_map (map negp) (push_piece gtb out b).
Proof.
  unfold push_piece. destruct out as [|o0 o']; [reflexivity|]. change (map negp (o0 :: o')) with (map negp (o0 :: o')).
  cbn [map]. change (negp o0 :: map negp o') with (map negp (o0 :: o')). rewrite pop_neg.
  destruct (pop_dominated gtb (o0 :: o') b) as [[|a r]|]; cbn [option_map map]; try reflexivity.
  change (pv (negp a)) with (neg (pv a)). change (pv (negp b)) with (neg (pv b)). change (ps (negp a)) with (ps a). change (ps (negp b)) with (ps b).
  change (pe (negp a)) with (pe a). change (pe (negp b)) with (pe b).
  destruct (intersects (ps a) (pe a) (ps b) (pe b)); cbn [negb]; [|reflexivity].
  unfold gtb. rewrite ltb_neg. destruct (ltb (pv b) (pv a)); cbn [negb].
  - cbn [option_map map]. f_equal. f_equal. rewrite map_app. f_equal. destruct (ps a <? ps b); reflexivity.
  - destruct (pe a); reflexivity.
Qed.

Lemma push_all_neg : forall l out, push_all ltb (map negp out) (map negp l) = option_map (map negp) (push_all gtb out l).
Proof.
  induction l as [|b r IH]; intros out; [reflexivity|]. unfold push_all. cbn [map fold_left obind]. rewrite push_neg.
  destruct (push_piece gtb out b) as [out1|]; cbn [option_map].
  - apply IH.
  - clear. induction r as [|x r IH]; [reflexivity|]. cbn [map fold_left obind]. exact IH.
Qed.

Lemma past_pieces_neg : forall (s : dsig) b e, past_pieces (dmap neg s) b e = map negp (past_pieces s b e).
Proof.
  induction s as [|[t v] r IH]; intros b e; [reflexivity|]. cbn [dmap map past_pieces fst snd]. fold (dmap neg r). rewrite IH.
  f_equal. unfold negp. cbn. destruct r as [|[t' v'] r']; reflexivity.
Qed.

Lemma past_env_neg (s : dsig) b e : past_env gtb top s b e = option_map (map negp) (past_env ltb bot (dmap neg s) b e).
Proof.
  unfold past_env. rewrite past_pieces_neg.
  assert (Ei : (match dmap neg s with (t1, _) :: _ => if 0 <? b then [(0, T (t1 + b), bot)] else [] | [] => [] end)
             = map negp (match s with (t1, _) :: _ => if 0 <? b then [(0, T (t1 + b), top)] else [] | [] => [] end)).
  { destruct s as [|[t1 v1] r]; [reflexivity|]. cbn [dmap map fst]. destruct (0 <? b); [|reflexivity]. cbn [map]. unfold negp. cbn. rewrite neg_top. reflexivity. }
  rewrite Ei, push_all_neg. destruct (push_all gtb _ _); cbn [option_map]; [rewrite map_negp_invol|]; reflexivity.
Qed.

Lemma veq_neg x y : veq (neg x) (neg y) = veq x y.
Proof.
  unfold veq. destruct (v_eq_dec x y) as [->|N]; [destruct (v_eq_dec (neg y) (neg y)); congruence|].
  destruct (v_eq_dec (neg x) (neg y)) as [E|]; [|reflexivity]. exfalso. apply N. rewrite <- (neg_invol x), E. apply neg_invol.
Qed.
Lemma dedup_from_neg : forall (s : dsig) prev, dedup_from (option_map neg prev) (dmap neg s) = dmap neg (dedup_from prev s).
Proof.
  induction s as [|[t v] r IH]; intros prev; [reflexivity|]. cbn [dmap map dedup_from fst snd]. fold (dmap neg r).
  destruct r as [|[t' v'] r']; [reflexivity|]. cbn [dmap map]. fold (dmap neg r').
  change ((t', neg v') :: dmap neg r') with (dmap neg ((t', v') :: r')).
  assert (Ec : (match option_map neg prev with Some p => veq p (neg v) | None => false end) = (match prev with Some p => veq p v | None => false end)).
  { destruct prev; [apply veq_neg|reflexivity]. }
  rewrite Ec. destruct (match prev with Some p => veq p v | None => false end).
  - apply (IH (Some v)).
  - cbn [dmap map fst snd]. f_equal. apply (IH (Some v)).
Qed.
Lemma dedup_neg (s : dsig) : dedup (dmap neg s) = dmap neg (dedup s).
Proof. apply (dedup_from_neg s None). Qed.

Lemma samples_negp l : samples_of (map negp l) = dmap neg (samples_of l).
Proof. unfold samples_of, dmap. rewrite !map_map. reflexivity. Qed.

Theorem hist_once_dual (s : dsig) b e : hist_timed_op s b e = option_map (dmap neg) (once_timed_op (dmap neg s) b e).
Proof.
  unfold hist_timed_op, once_timed_op. change (fun x y : V => ltb y x) with gtb. rewrite past_env_neg.
  destruct (past_env ltb bot (dmap neg s) b e) as [out|]; cbn [option_map]; [|reflexivity].
  f_equal. rewrite <- map_rev, samples_negp. apply dedup_neg.
Qed.

Theorem good_hist_timed (s : dsig) b e t0 F : 0 <= b -> b <= e -> good s t0 F -> (b = 0 \/ t0 = 0) -> 0 <= t0 ->
  exists out, hist_timed_op s b e = Some out /\
    good out t0 (fun t => if t - b <? t0 then top else zmin F (Z.max (t - e) t0) (t - b)).
Proof.
  intros Hb Hbe G Hor H0.
  destruct (good_once_timed b e Hb Hbe (dmap neg s) t0 (fun t => neg (F t)) (good_dmap neg s t0 F G) Hor H0) as (out & E & Go).
  rewrite hist_once_dual, E. cbn [option_map]. eexists. split; [reflexivity|].
  eapply good_ext; [apply (good_dmap neg out _ _ Go)|]. intros t Ht. cbn beta.
  destruct (t - b <? t0); [apply neg_bot|]. rewrite neg_zmax. apply zmin_ext. intros u _. apply neg_invol.
Qed.

End WinDual.
