(* OnlineCorrect.v — the discrete-time online monitor (Online.v) returns, at
   the k-th update, the robustness rho at sample k: invariant over every
   reachable dictionary state, also with duplicated sub-formula text. *)
From Coq Require Import List Bool Arith Lia.
From RV Require Import Val Syntax Rho Offline ListFacts OfflineCorrect Online.
Import ListNotations.

Section OnlineCorrect.
Context {VS : Val} (AR : Arith VS).
Variable pk : formula -> formula -> pkind.
Variable w : trace.
Variable n : nat.

Notation r := (fun p => rho AR pk p w n).
Notation opstate := (@opstate VS).

Definition prev_or (d : V) (f : nat -> V) (k : nat) : V := match k with 0 => d | S j => f j end.

(* abstraction of every operation's state after k samples *)
Definition canon (p : formula) (k : nat) : opstate :=
  match p with
  | Rise f | SPrev f => St1 (prev_or bot (r f) k)
  | Fall f | Prev f => St1 (prev_or top (r f) k)
  | Once _ | Since _ _ => St1 (prev_or bot (r p) k)
  | Hist _ => St1 (prev_or top (r p) k)
  | OnceT _ e f => StBuf (buf bot (r f) k e)
  | HistT _ e f => StBuf (buf top (r f) k e)
  | SinceT _ e f g | Precedes _ e f g => StBuf2 (buf top (r f) k e) (buf bot (r g) k e)
  | _ => StNone
  end.

Lemma canon_0 p : canon p 0 = op_init p.
Proof. destruct p; simpl; rewrite ?buf_0; reflexivity. Qed.

(* ---- window lemmas for the deque operations ---- *)
Lemma win_max_eq b e l : win_max b e l = rmax (fun i => nth i l bot) 0 (S (e - b)).
Proof. unfold win_max, rmax. rewrite (fold_left_vmax_acc (fun i => nth i l bot)). apply vmax_bot_l. Qed.
Lemma win_min_eq b e l : win_min b e l = rmin (fun i => nth i l top) 0 (S (e - b)).
Proof. unfold win_min, rmin. rewrite (fold_left_vmin_acc (fun i => nth i l top)). apply vmin_top_l. Qed.

Lemma oncet_step rf b e k : b <= e ->
  win_max b e (buf bot rf (S k) e) = oncet_spec rf b e k.
Proof.
  intros Hbe. rewrite win_max_eq. unfold oncet_spec. apply eq_by_ub. intros z. rewrite rmax_ub.
  destruct (k <? b) eqn:E; [apply Nat.ltb_lt in E|apply Nat.ltb_ge in E].
  - split; [intros; apply bot_le|]. intros _ i Hi. rewrite nth_buf by lia.
    destruct (S k + i <? S e) eqn:E2; [apply bot_le|apply Nat.ltb_ge in E2; lia].
  - rewrite wmax_ub. split.
    + intros H j Hj. specialize (H (j + e - k)). rewrite nth_buf in H by lia.
      destruct (S k + (j + e - k) <? S e) eqn:E2; [apply Nat.ltb_lt in E2; lia|].
      replace (S k + (j + e - k) - S e) with j in H by lia. apply H. lia.
    + intros H i Hi. rewrite nth_buf by lia.
      destruct (S k + i <? S e) eqn:E2; [apply bot_le|apply Nat.ltb_ge in E2]. apply H. lia.
Qed.
Lemma histt_step rf b e k : b <= e ->
  win_min b e (buf top rf (S k) e) = histt_spec rf b e k.
Proof.
  intros Hbe. rewrite win_min_eq. unfold histt_spec. apply eq_by_lb. intros z. rewrite rmin_lb.
  destruct (k <? b) eqn:E; [apply Nat.ltb_lt in E|apply Nat.ltb_ge in E].
  - split; [intros; apply top_ge|]. intros _ i Hi. rewrite nth_buf by lia.
    destruct (S k + i <? S e) eqn:E2; [apply top_ge|apply Nat.ltb_ge in E2; lia].
  - rewrite wmin_lb. split.
    + intros H j Hj. specialize (H (j + e - k)). rewrite nth_buf in H by lia.
      destruct (S k + (j + e - k) <? S e) eqn:E2; [apply Nat.ltb_lt in E2; lia|].
      replace (S k + (j + e - k) - S e) with j in H by lia. apply H. lia.
    + intros H i Hi. rewrite nth_buf by lia.
      destruct (S k + i <? S e) eqn:E2; [apply top_ge|apply Nat.ltb_ge in E2]. apply H. lia.
Qed.

Lemma since_window_buf r1 r2 b e k :
  since_window b e (buf top r1 (S k) e) (buf bot r2 (S k) e) = sw_at r1 r2 b e k.
Proof.
  rewrite since_window_eq. unfold sw_at, sw_gen.
  apply rmax_ext. intros j Hj. f_equal.
  - apply rmin_ext. intros i Hi. apply nth_buf. lia.
  - apply nth_buf. lia.
Qed.

(* PrecedesTimedOperation.update is the window of the offline visitTimedPrecedes
   (OfflineCorrect.precedes_window_eq, precedes_window_buf) *)
Lemma precedes_step f g b e k : b <= e ->
  precedes_window b e (buf top (r f) (S k) e) (buf bot (r g) (S k) e) = r (Precedes b e f g) k.
Proof. intros Hbe. rewrite precedes_window_buf by exact Hbe. reflexivity. Qed.

Lemma since_spec_S (r1 r2 : nat -> V) j :
  since_spec r1 r2 0 (S j) = vmax (vmin (r1 (S j)) (since_spec r1 r2 0 j)) (r2 (S j)).
Proof.
  unfold since_spec. rewrite wmax_snoc by lia.
  rewrite (wmin_empty r1 (S (S j)) (S j)) by lia. rewrite vmin_top_r. f_equal.
  rewrite (wmax_ext _ (fun t' => vmin (vmin (r2 t') (wmin r1 (S t') j)) (r1 (S j))) 0 j).
  - rewrite wmax_vmin_const. apply vmin_comm.
  - intros i Hi. rewrite wmin_snoc by lia. apply vmin_assoc.
Qed.
Lemma since_spec_0 (r1 r2 : nat -> V) : since_spec r1 r2 0 0 = r2 0.
Proof. unfold since_spec. rewrite wmax_single, wmin_empty by lia. apply vmin_top_r. Qed.

Lemma rho_since f g t : r (Since f g) t = since_spec (r f) (r g) 0 t.
Proof. reflexivity. Qed.

(* ---- one step of each operation on its canonical state ---- *)
Lemma ustep_correct p f k :
  wf_bounds p = true ->
  match p with
  | A1 _ f' | Not f' | Rise f' | Fall f' | Prev f' | SPrev f' | Once f' | Hist f'
  | OnceT _ _ f' | HistT _ _ f' => f' = f
  | _ => False
  end ->
  ustep AR p (canon p k) (r f k) = (canon p (S k), r p k).
Proof.
  intros Hb Hp. destruct p; try contradiction; subst; cbn [ustep canon wf_bounds] in *;
  try reflexivity.
  - (* Once *) destruct k as [|j]; cbn [prev_or rho].
    + rewrite wmax_single, vmax_bot_r. reflexivity.
    + rewrite wmax_snoc by lia. rewrite (vmax_comm (rho AR pk f w n (S j))). reflexivity.
  - (* Hist *) destruct k as [|j]; cbn [prev_or rho].
    + rewrite wmin_single, vmin_top_r. reflexivity.
    + rewrite wmin_snoc by lia. rewrite (vmin_comm (rho AR pk f w n (S j))). reflexivity.
  - (* OnceT *) apply andb_prop in Hb as [Hb _]. apply Nat.leb_le in Hb.
    rewrite push_buf, oncet_step by assumption. reflexivity.
  - apply andb_prop in Hb as [Hb _]. apply Nat.leb_le in Hb.
    rewrite push_buf, histt_step by assumption. reflexivity.
Qed.

Lemma bstep_correct p f g k :
  wf_bounds p = true ->
  match p with
  | A2 _ f' g' | Pred _ f' g' | And f' g' | Or f' g' | Implies f' g' | Iff f' g' | Xor f' g'
  | Since f' g' | SinceT _ _ f' g' | Precedes _ _ f' g' => f' = f /\ g' = g
  | _ => False
  end ->
  bstep AR pk p (canon p k) (r f k) (r g k) = (canon p (S k), r p k).
Proof.
  intros Hb Hp. destruct p; try contradiction; destruct Hp as [-> ->]; cbn [bstep canon wf_bounds] in *;
  try reflexivity.
  - (* Since *) destruct k as [|j]; cbn [prev_or]; rewrite !rho_since.
    + rewrite since_spec_0, vmin_bot_r, vmax_bot_l. reflexivity.
    + rewrite since_spec_S. reflexivity.
  - (* SinceT *) apply andb_prop in Hb as [Hb _]. apply andb_prop in Hb as [Hb _]. apply Nat.leb_le in Hb.
    rewrite !push_buf, since_window_buf, sw_at_since by assumption. reflexivity.
  - (* Precedes *) apply andb_prop in Hb as [Hb _]. apply andb_prop in Hb as [Hb _]. apply Nat.leb_le in Hb.
    rewrite !push_buf, precedes_step by assumption. reflexivity.
Qed.

(* ---- shapes: the three ways the update visitor treats a node ---- *)
Inductive shp := SLeafV (x : nat) | SLeafC (c : V) | SUn (f : formula) | SBi (f g : formula) | SUnsup.
Definition shape (p : formula) : shp :=
  match p with
  | Var x => SLeafV x
  | Const c => SLeafC c
  | A1 _ f | Not f | Rise f | Fall f | Prev f | SPrev f | Once f | Hist f
  | OnceT _ _ f | HistT _ _ f => SUn f
  | A2 _ f g | Pred _ f g | And f g | Or f g | Implies f g | Iff f g | Xor f g
  | Since f g | SinceT _ _ f g | Precedes _ _ f g => SBi f g
  | _ => SUnsup
  end.

Fixpoint size (p : formula) : nat :=
  match p with
  | Var _ | Const _ => 1
  | A1 _ f | Not f | Rise f | Fall f | Prev f | SPrev f | Next f | SNext f
  | Once f | Hist f | Ev f | Alw f
  | OnceT _ _ f | HistT _ _ f | EvT _ _ f | AlwT _ _ f => S (size f)
  | A2 _ f g | Pred _ f g | And f g | Or f g | Implies f g | Iff f g | Xor f g
  | Since f g | Until f g
  | SinceT _ _ f g | UntilT _ _ f g | Precedes _ _ f g => S (size f + size g)
  end.

Lemma visit_shape env p d m :
  visit AR pk env p d m =
  match shape p with
  | SLeafV x => (d, m, env x)
  | SLeafC c => (d, m, c)
  | SUn f => match lookup m p with Some v => (d, m, v)
             | None => visit_un AR p (visit AR pk env f d m) end
  | SBi f g => match lookup m p with Some v => (d, m, v)
               | None => visit_bi AR pk p (visit AR pk env f) (visit AR pk env g) d m end
  | SUnsup => match lookup m p with Some v => (d, m, v) | None => (d, m, bot) end
  end.
Proof. destruct p; reflexivity. Qed.

Lemma shape_un p f : shape p = SUn f ->
  size f < size p /\ (past_only p = true -> past_only f = true) /\ (wf_bounds p = true -> wf_bounds f = true) /\
  (wf_bounds p = true -> forall k, ustep AR p (canon p k) (r f k) = (canon p (S k), r p k)).
Proof.
  intros H. repeat split.
  - destruct p; simpl in H; inversion H; subst; simpl; lia.
  - destruct p; simpl in H; inversion H; subst; simpl; auto.
  - destruct p; simpl in H; inversion H; subst; simpl; auto;
    intros Hb; apply andb_prop in Hb; tauto.
  - intros Hb k. apply ustep_correct; [exact Hb|].
    destruct p; simpl in H; inversion H; reflexivity.
Qed.

Lemma shape_bi p f g : shape p = SBi f g ->
  size f < size p /\ size g < size p /\
  (past_only p = true -> past_only f = true /\ past_only g = true) /\
  (wf_bounds p = true -> wf_bounds f = true /\ wf_bounds g = true) /\
  (wf_bounds p = true -> forall k, bstep AR pk p (canon p k) (r f k) (r g k) = (canon p (S k), r p k)).
Proof.
  intros H. repeat split.
  - destruct p; simpl in H; inversion H; subst; simpl; lia.
  - destruct p; simpl in H; inversion H; subst; simpl; lia.
  - destruct p; simpl in H; inversion H; subst; simpl in *; apply andb_prop in H0; tauto.
  - destruct p; simpl in H; inversion H; subst; simpl in *; apply andb_prop in H0; tauto.
  - destruct p; simpl in H; inversion H; subst; simpl in *; apply andb_prop in H0; try tauto;
    destruct H0 as [H0 _]; apply andb_prop in H0; tauto.
  - destruct p; simpl in H; inversion H; subst; simpl in *; apply andb_prop in H0; try tauto;
    destruct H0 as [H0 _]; apply andb_prop in H0; tauto.
  - intros Hb k. apply bstep_correct; [exact Hb|].
    destruct p; simpl in H; inversion H; split; reflexivity.
Qed.

(* ---- dictionary / memo facts ---- *)
Lemma feqb_refl a : feqb a a = true.
Proof. unfold feqb. destruct (formula_eq_dec a a); congruence. Qed.
Lemma feqb_ne a b : a <> b -> feqb a b = false.
Proof. unfold feqb. destruct (formula_eq_dec a b); congruence. Qed.
Lemma lookup_cons_eq a v (m : memo) : lookup ((a, v) :: m) a = Some v.
Proof. simpl. rewrite feqb_refl. reflexivity. Qed.
Lemma lookup_cons_ne a b v (m : memo) : a <> b -> lookup ((b, v) :: m) a = lookup m a.
Proof. intros. simpl. rewrite feqb_ne by assumption. reflexivity. Qed.
Lemma upd_eq (d : dict) a s : upd d a s a = s.
Proof. unfold upd. rewrite feqb_refl. reflexivity. Qed.
Lemma upd_ne (d : dict) a b s : b <> a -> upd d a s b = d b.
Proof. intros. unfold upd. rewrite feqb_ne by assumption. reflexivity. Qed.

Definition memo_of (x : dict * memo * V) : memo := snd (fst x).

(* a visit only adds keys that are no larger than the visited formula *)
Lemma visit_keys env : forall sz p d m x u, size p <= sz ->
  lookup (memo_of (visit AR pk env p d m)) x = Some u -> lookup m x = Some u \/ size x <= size p.
Proof.
  induction sz as [|sz IH]; intros p d m x u Hsz.
  { destruct p; simpl in Hsz; lia. }
  rewrite visit_shape. destruct (shape p) eqn:Sh; try (simpl; auto; fail).
  - destruct (lookup m p); [simpl; auto|].
    apply shape_un in Sh as (Hs & _).
    specialize (IH f d m x u). destruct (visit AR pk env f d m) as [[d1 m1] v1].
    unfold visit_un. destruct (ustep AR p (d1 p) v1) as [s' out]. unfold memo_of in *. simpl in *.
    destruct (formula_eq_dec x p) as [->|Hne]; [right; lia|].
    rewrite feqb_ne by assumption. intros H. destruct (IH ltac:(lia) H); [auto|right; lia].
  - destruct (lookup m p); [simpl; auto|].
    apply shape_bi in Sh as (Hs1 & Hs2 & _).
    unfold visit_bi.
    pose proof (IH f d m x u) as IH1. destruct (visit AR pk env f d m) as [[d1 m1] v1].
    pose proof (IH g d1 m1 x u) as IH2. destruct (visit AR pk env g d1 m1) as [[d2 m2] v2].
    destruct (bstep AR pk p (d2 p) v1 v2) as [s' out]. unfold memo_of in *. simpl in *.
    destruct (formula_eq_dec x p) as [->|Hne]; [right; lia|].
    rewrite feqb_ne by assumption. intros H.
    destruct (IH2 ltac:(lia) H) as [H2|]; [|right; lia].
    destruct (IH1 ltac:(lia) H2); [auto|right; lia].
  - destruct (lookup m p); simpl; auto.
Qed.

(* sub-formulas the update visitor can reach *)
Fixpoint subs (p : formula) : list formula :=
  p :: match p with
       | A1 _ f | Not f | Rise f | Fall f | Prev f | SPrev f | Once f | Hist f
       | OnceT _ _ f | HistT _ _ f => subs f
       | A2 _ f g | Pred _ f g | And f g | Or f g | Implies f g | Iff f g | Xor f g
       | Since f g | SinceT _ _ f g | Precedes _ _ f g => subs f ++ subs g
       | _ => []
       end.
Lemma subs_un p f : shape p = SUn f -> subs p = p :: subs f.
Proof. destruct p; simpl; intros H; inversion H; reflexivity. Qed.
Lemma subs_bi p f g : shape p = SBi f g -> subs p = p :: subs f ++ subs g.
Proof. destruct p; simpl; intros H; inversion H; reflexivity. Qed.
Lemma subs_leaf p : match shape p with SLeafV _ | SLeafC _ | SUnsup => subs p = [p] | _ => True end.
Proof. destruct p; simpl; auto. Qed.

Definition is_leaf (a : formula) : Prop :=
  match shape a with SLeafV _ | SLeafC _ => True | _ => False end.
Lemma canon_leaf a k k' : is_leaf a -> canon a k = canon a k'.
Proof. destruct a; simpl; intros H; try contradiction; reflexivity. Qed.

(* the set of formulas the monitor owns: closed under reachable children *)
Variable D : formula -> Prop.
Hypothesis D_un : forall p f, D p -> shape p = SUn f -> D f.
Hypothesis D_bi : forall p f g, D p -> shape p = SBi f g -> D f /\ D g.

(* mid-update invariant at sample k *)
Definition Inv (k : nat) (d : dict) (m : memo) : Prop :=
  (forall a, D a -> match lookup m a with
            | Some v => v = r a k /\ d a = canon a (S k)
            | None => d a = canon a k
            end) /\
  (forall a v, lookup m a = Some v -> forall b, In b (subs a) -> is_leaf b \/ lookup m b <> None).

Definition post (k : nat) (p : formula) (m : memo) (res : dict * memo * V) : Prop :=
  let '(d', m', v) := res in
  Inv k d' m' /\ v = r p k /\ (forall b u, lookup m b = Some u -> lookup m' b = Some u) /\
  (forall b, In b (subs p) -> is_leaf b \/ lookup m' b <> None).

Lemma visit_ok k : forall sz p d m, size p <= sz -> D p ->
  past_only p = true -> wf_bounds p = true -> Inv k d m ->
  post k p m (visit AR pk (row w k) p d m).
Proof.
  induction sz as [|sz IH]; intros p d m Hsz HD Hpast Hwf HI.
  { destruct p; simpl in Hsz; lia. }
  rewrite visit_shape. destruct (shape p) eqn:Sh.
  - (* variable *) pose proof (subs_leaf p) as SL. rewrite Sh in SL.
    destruct p; simpl in Sh; inversion Sh; subst. unfold post. repeat split; try apply HI; auto.
    intros b Hb. rewrite SL in Hb. destruct Hb as [<-|[]]. left. exact I.
  - pose proof (subs_leaf p) as SL. rewrite Sh in SL.
    destruct p; simpl in Sh; inversion Sh; subst. unfold post. repeat split; try apply HI; auto.
    intros b Hb. rewrite SL in Hb. destruct Hb as [<-|[]]. left. exact I.
  - (* unary *)
    destruct HI as [HI MC].
    destruct (lookup m p) eqn:L.
    { pose proof (HI p HD) as H. rewrite L in H. unfold post. repeat split; try tauto.
      intros b Hb. eapply MC; eassumption. }
    pose proof (shape_un _ _ Sh) as (Hs & Hpo & Hwb & Hstep).
    pose proof (IH f d m ltac:(lia) (D_un _ _ HD Sh) (Hpo Hpast) (Hwb Hwf) (conj HI MC)) as IHf.
    pose proof (visit_keys (row w k) (size f) f d m p) as K.
    destruct (visit AR pk (row w k) f d m) as [[d1 m1] v1]. destruct IHf as ([HI1 MC1] & Hv & Hmono & Hsub).
    assert (L1 : lookup m1 p = None).
    { destruct (lookup m1 p) eqn:L1; [|reflexivity]. exfalso.
      destruct (K v ltac:(lia) L1) as [K1|K1]; [congruence|lia]. }
    unfold visit_un. pose proof (HI1 p HD) as Hp. rewrite L1 in Hp. rewrite Hp, Hv, (Hstep Hwf).
    unfold post. cbv beta iota zeta.
    assert (Hgrow : forall b, lookup m1 b <> None -> lookup ((p, r p k) :: m1) b <> None).
    { intros b Hb. destruct (formula_eq_dec b p) as [->|Hne]; [rewrite lookup_cons_eq; discriminate|].
      rewrite lookup_cons_ne by assumption. exact Hb. }
    assert (Hsubp : forall b, In b (subs p) -> is_leaf b \/ lookup ((p, r p k) :: m1) b <> None).
    { intros b Hb. rewrite (subs_un _ _ Sh) in Hb. destruct Hb as [<-|Hb].
      - right. rewrite lookup_cons_eq. discriminate.
      - destruct (Hsub b Hb); [left; assumption|right; auto]. }
    split; [split|split; [|split]].
    + intros a Ha. destruct (formula_eq_dec a p) as [->|Hne].
      * rewrite lookup_cons_eq, upd_eq. auto.
      * rewrite lookup_cons_ne, upd_ne by assumption. apply HI1. exact Ha.
    + intros a v La b Hb. destruct (formula_eq_dec a p) as [->|Hne].
      * apply Hsubp. exact Hb.
      * rewrite lookup_cons_ne in La by assumption.
        destruct (MC1 a v La b Hb); [left; assumption|right; auto].
    + reflexivity.
    + intros b u Hb. destruct (formula_eq_dec b p) as [->|Hne]; [congruence|].
      rewrite lookup_cons_ne by assumption. auto.
    + exact Hsubp.
  - (* binary *)
    destruct HI as [HI MC].
    destruct (lookup m p) eqn:L.
    { pose proof (HI p HD) as H. rewrite L in H. unfold post. repeat split; try tauto.
      intros b Hb. eapply MC; eassumption. }
    pose proof (shape_bi _ _ _ Sh) as (Hs1 & Hs2 & Hpo & Hwb & Hstep).
    destruct (Hpo Hpast) as [Hp1 Hp2]. destruct (Hwb Hwf) as [Hw1 Hw2].
    destruct (D_bi _ _ _ HD Sh) as [HD1 HD2].
    unfold visit_bi.
    pose proof (IH f d m ltac:(lia) HD1 Hp1 Hw1 (conj HI MC)) as IHf.
    pose proof (visit_keys (row w k) (size f) f d m p) as K1.
    destruct (visit AR pk (row w k) f d m) as [[d1 m1] v1]. destruct IHf as (HI1 & Hv1 & Hmono1 & Hsub1).
    pose proof (IH g d1 m1 ltac:(lia) HD2 Hp2 Hw2 HI1) as IHg.
    pose proof (visit_keys (row w k) (size g) g d1 m1 p) as K2.
    destruct (visit AR pk (row w k) g d1 m1) as [[d2 m2] v2]. destruct IHg as ([HI2 MC2] & Hv2 & Hmono2 & Hsub2).
    assert (L2 : lookup m2 p = None).
    { destruct (lookup m2 p) eqn:L2; [|reflexivity]. exfalso.
      destruct (K2 v ltac:(lia) L2) as [K|K]; [|lia].
      destruct (K1 v ltac:(lia) K) as [K'|K']; [congruence|lia]. }
    pose proof (HI2 p HD) as Hp. rewrite L2 in Hp. rewrite Hp, Hv1, Hv2, (Hstep Hwf).
    unfold post. cbv beta iota zeta.
    assert (Hgrow : forall b, lookup m2 b <> None -> lookup ((p, r p k) :: m2) b <> None).
    { intros b Hb. destruct (formula_eq_dec b p) as [->|Hne]; [rewrite lookup_cons_eq; discriminate|].
      rewrite lookup_cons_ne by assumption. exact Hb. }
    assert (Hkeep : forall b, lookup m1 b <> None -> lookup m2 b <> None).
    { intros b Hb. destruct (lookup m1 b) eqn:E; [|congruence]. rewrite (Hmono2 _ _ E). discriminate. }
    assert (Hsubp : forall b, In b (subs p) -> is_leaf b \/ lookup ((p, r p k) :: m2) b <> None).
    { intros b Hb. rewrite (subs_bi _ _ _ Sh) in Hb. destruct Hb as [<-|Hb].
      - right. rewrite lookup_cons_eq. discriminate.
      - apply in_app_or in Hb as [Hb|Hb].
        + destruct (Hsub1 b Hb); [left; assumption|right; auto].
        + destruct (Hsub2 b Hb); [left; assumption|right; auto]. }
    split; [split|split; [|split]].
    + intros a Ha. destruct (formula_eq_dec a p) as [->|Hne].
      * rewrite lookup_cons_eq, upd_eq. auto.
      * rewrite lookup_cons_ne, upd_ne by assumption. apply HI2. exact Ha.
    + intros a v La b Hb. destruct (formula_eq_dec a p) as [->|Hne].
      * apply Hsubp. exact Hb.
      * rewrite lookup_cons_ne in La by assumption.
        destruct (MC2 a v La b Hb); [left; assumption|right; auto].
    + reflexivity.
    + intros b u Hb. destruct (formula_eq_dec b p) as [->|Hne]; [congruence|].
      rewrite lookup_cons_ne by assumption. auto.
    + exact Hsubp.
  - (* unsupported: excluded by past_only *)
    exfalso. destruct p; simpl in Sh, Hpast; try discriminate.
Qed.

(* ---- the forest: all specs of one update share the memo ---- *)
Lemma forest_ok k : forall F d m,
  (forall p, In p F -> D p /\ past_only p = true /\ wf_bounds p = true) -> Inv k d m ->
  let '(d', vs) := visit_forest AR pk (row w k) F d m in
  vs = map (fun p => r p k) F /\
  exists m', Inv k d' m' /\ (forall b u, lookup m b = Some u -> lookup m' b = Some u) /\
             (forall p b, In p F -> In b (subs p) -> is_leaf b \/ lookup m' b <> None).
Proof.
  induction F as [|p F IH]; intros d m HF HI.
  - simpl. split; [reflexivity|]. exists m. split; [exact HI|]. split; [auto|]. intros p b [].
  - simpl. destruct (HF p (or_introl eq_refl)) as (HD & Hpo & Hwb).
    pose proof (visit_ok k (size p) p d m (le_n _) HD Hpo Hwb HI) as Hv.
    destruct (visit AR pk (row w k) p d m) as [[d1 m1] v]. destruct Hv as (HI1 & Hv & Hmono & Hsub).
    specialize (IH d1 m1 (fun q Hq => HF q (or_intror Hq)) HI1).
    destruct (visit_forest AR pk (row w k) F d1 m1) as [d2 vs]. destruct IH as (Hvs & m' & HI' & Hmono' & Hsub').
    split; [rewrite Hv, Hvs; reflexivity|]. exists m'. split; [exact HI'|]. split.
    + intros b u Hb. apply Hmono', Hmono, Hb.
    + intros q b [<-|Hq] Hb.
      * destruct (Hsub b Hb) as [Hl|Hn]; [left; exact Hl|right].
        destruct (lookup m1 b) eqn:E; [|congruence]. rewrite (Hmono' _ _ E). discriminate.
      * eapply Hsub'; eassumption.
Qed.

Definition Ready (k : nat) (d : dict) : Prop := forall a, D a -> d a = canon a k.

Lemma step_ok k F d :
  F <> [] ->
  (forall p, In p F -> D p /\ past_only p = true /\ wf_bounds p = true) ->
  (forall a, D a -> exists p, In p F /\ In a (subs p)) ->
  Ready k d ->
  let '(d', v) := mon_step AR pk F d (row w k) in
  v = r (last F (Const bot)) k /\ Ready (S k) d'.
Proof.
  intros Hne HF Hcov HR. unfold mon_step.
  assert (HI : Inv k d []).
  { split; [intros a Ha; simpl; apply HR; exact Ha|]. intros a v L. discriminate. }
  pose proof (forest_ok k F d [] HF HI) as H.
  destruct (visit_forest AR pk (row w k) F d []) as [d' vs]. destruct H as (Hvs & m' & [HI' _] & _ & Hsub).
  split.
  - rewrite Hvs. apply (last_map (fun p => r p k)). exact Hne.
  - intros a Ha. destruct (Hcov a Ha) as (p & Hp & Hin).
    pose proof (HI' a Ha) as Hinv.
    destruct (Hsub p a Hp Hin) as [Hl|Hn].
    + destruct (lookup m' a); [tauto|]. rewrite Hinv. apply canon_leaf. exact Hl.
    + destruct (lookup m' a); [tauto|congruence].
Qed.

Lemma step_all_ok k F d :
  (forall p, In p F -> D p /\ past_only p = true /\ wf_bounds p = true) ->
  (forall a, D a -> exists p, In p F /\ In a (subs p)) ->
  Ready k d ->
  let '(d', vs) := visit_forest AR pk (row w k) F d [] in
  vs = map (fun p => r p k) F /\ Ready (S k) d'.
Proof.
  intros HF Hcov HR.
  assert (HI : Inv k d []).
  { split; [intros a Ha; simpl; apply HR; exact Ha|]. intros a v L. discriminate. }
  pose proof (forest_ok k F d [] HF HI) as H.
  destruct (visit_forest AR pk (row w k) F d []) as [d' vs]. destruct H as (Hvs & m' & [HI' _] & _ & Hsub).
  split; [exact Hvs|].
  intros a Ha. destruct (Hcov a Ha) as (p & Hp & Hin).
  pose proof (HI' a Ha) as Hinv.
  destruct (Hsub p a Hp Hin) as [Hl|Hn].
  - destruct (lookup m' a); [tauto|]. rewrite Hinv. apply canon_leaf. exact Hl.
  - destruct (lookup m' a); [tauto|congruence].
Qed.

End OnlineCorrect.

Section Run.
Context {VS : Val} (AR : Arith VS).
Variable pk : formula -> formula -> pkind.
Variable w : trace.
Variable n : nat.

Lemma in_subs_self (p : formula) : In p (subs p).
Proof. destruct p; simpl; auto. Qed.

Lemma subs_closed : forall sz (p a : formula), size p <= sz -> In a (subs p) ->
  (forall f, shape a = SUn f -> In f (subs p)) /\
  (forall f g, shape a = SBi f g -> In f (subs p) /\ In g (subs p)).
Proof.
  induction sz as [|sz IH]; intros p a Hsz Ha.
  { destruct p; simpl in Hsz; lia. }
  destruct (shape p) eqn:Sh.
  - pose proof (subs_leaf p) as SL. rewrite Sh in SL. rewrite SL in Ha. destruct Ha as [<-|[]].
    rewrite Sh. split; intros; discriminate.
  - pose proof (subs_leaf p) as SL. rewrite Sh in SL. rewrite SL in Ha. destruct Ha as [<-|[]].
    rewrite Sh. split; intros; discriminate.
  - pose proof (shape_un AR pk w n _ _ Sh) as (Hs & _).
    rewrite (subs_un _ _ Sh) in *. destruct Ha as [<-|Ha].
    + rewrite Sh. split; [intros f0 E; inversion E; subst; right; apply in_subs_self|intros; discriminate].
    + destruct (IH f a ltac:(lia) Ha) as [H1 H2]. split.
      * intros f0 E. right. apply H1. exact E.
      * intros f0 g0 E. destruct (H2 f0 g0 E). split; right; assumption.
  - pose proof (shape_bi AR pk w n _ _ _ Sh) as (Hs1 & Hs2 & _).
    rewrite (subs_bi _ _ _ Sh) in *. destruct Ha as [<-|Ha].
    + rewrite Sh. split; [intros; discriminate|]. intros f0 g0 E; inversion E; subst.
      split; right; apply in_or_app; [left|right]; apply in_subs_self.
    + apply in_app_or in Ha as [Ha|Ha].
      * destruct (IH f a ltac:(lia) Ha) as [H1 H2]. split.
        -- intros f0 E. right. apply in_or_app. left. apply H1. exact E.
        -- intros f0 g0 E. destruct (H2 f0 g0 E). split; right; apply in_or_app; left; assumption.
      * destruct (IH g a ltac:(lia) Ha) as [H1 H2]. split.
        -- intros f0 E. right. apply in_or_app. right. apply H1. exact E.
        -- intros f0 g0 E. destruct (H2 f0 g0 E). split; right; apply in_or_app; right; assumption.
  - pose proof (subs_leaf p) as SL. rewrite Sh in SL. rewrite SL in Ha. destruct Ha as [<-|[]].
    rewrite Sh. split; intros; discriminate.
Qed.

Definition DF (F : list formula) (a : formula) : Prop := exists p, In p F /\ In a (subs p).

Lemma DF_un F p f : DF F p -> shape p = SUn f -> DF F f.
Proof.
  intros (q & Hq & Hin) Sh. exists q. split; [exact Hq|].
  apply (subs_closed (size q) q p (le_n _) Hin). exact Sh.
Qed.
Lemma DF_bi F p f g : DF F p -> shape p = SBi f g -> DF F f /\ DF F g.
Proof.
  intros (q & Hq & Hin) Sh.
  destruct (proj2 (subs_closed (size q) q p (le_n _) Hin) f g Sh).
  split; exists q; auto.
Qed.

Theorem mon_run_correct (F : list formula) : forall len k d,
  F <> [] ->
  (forall p, In p F -> past_only p = true /\ wf_bounds p = true) ->
  Ready AR pk w n (DF F) k d ->
  let '(d', vs) := mon_run AR pk F d w k len in
  vs = map (rho AR pk (last F (Const bot)) w n) (seq k len) /\ Ready AR pk w n (DF F) (k + len) d'.
Proof.
  induction len as [|len IH]; intros k d Hne HF HR.
  - simpl. rewrite Nat.add_0_r. auto.
  - simpl.
    pose proof (step_ok AR pk w n (DF F) (DF_un F) (DF_bi F) k F d Hne) as Hs.
    assert (HF' : forall p, In p F -> DF F p /\ past_only p = true /\ wf_bounds p = true).
    { intros p Hp. split; [exists p; split; [exact Hp|apply in_subs_self]|apply HF; exact Hp]. }
    specialize (Hs HF' (fun a Ha => Ha) HR).
    destruct (mon_step AR pk F d (row w k)) as [d1 v]. destruct Hs as [Hv HR1].
    specialize (IH (S k) d1 Hne HF HR1).
    destruct (mon_run AR pk F d1 w (S k) len) as [d2 vs]. destruct IH as [Hvs HR2].
    split; [rewrite Hv, Hvs; reflexivity|]. replace (k + S len) with (S k + len) by lia. exact HR2.
Qed.

Theorem online_correct (F : list formula) (len : nat) :
  F <> [] -> (forall p, In p F -> past_only p = true /\ wf_bounds p = true) ->
  snd (mon_run AR pk F dict_init w 0 len) = tab (rho AR pk (last F (Const bot)) w n) len.
Proof.
  intros Hne HF.
  pose proof (mon_run_correct F len 0 dict_init Hne HF) as H.
  assert (HR : Ready AR pk w n (DF F) 0 dict_init).
  { intros a _. unfold dict_init. symmetry. apply canon_0. }
  specialize (H HR). destruct (mon_run AR pk F dict_init w 0 len) as [d' vs]. apply H.
Qed.

Theorem online_offline (p : formula) :
  1 <= n -> past_only p = true -> wf_bounds p = true -> wf_trace p w n ->
  snd (mon_run AR pk [p] dict_init w 0 n) = eval_off AR pk p w n.
Proof.
  intros Hn Hp Hb Hw. rewrite (eval_off_correct AR pk p w n Hn Hb Hw).
  apply (online_correct [p] n); [discriminate|]. intros x [<-|[]]. auto.
Qed.

Theorem mon_run_all_correct (F : list formula) : forall len k d,
  (forall p, In p F -> past_only p = true /\ wf_bounds p = true) ->
  Ready AR pk w n (DF F) k d ->
  let '(d', vss) := mon_run_all AR pk F d w k len in
  vss = map (fun k' => map (fun p => rho AR pk p w n k') F) (seq k len) /\ Ready AR pk w n (DF F) (k + len) d'.
Proof.
  induction len as [|len IH]; intros k d HF HR.
  - simpl. rewrite Nat.add_0_r. auto.
  - simpl.
    pose proof (step_all_ok AR pk w n (DF F) (DF_un F) (DF_bi F) k F d) as Hs.
    assert (HF' : forall p, In p F -> DF F p /\ past_only p = true /\ wf_bounds p = true).
    { intros p Hp. split; [exists p; split; [exact Hp|apply in_subs_self]|apply HF; exact Hp]. }
    specialize (Hs HF' (fun a Ha => Ha) HR).
    destruct (visit_forest AR pk (row w k) F d []) as [d1 vs]. destruct Hs as [Hv HR1].
    specialize (IH (S k) d1 HF HR1).
    destruct (mon_run_all AR pk F d1 w (S k) len) as [d2 vss]. destruct IH as [Hvss HR2].
    split; [rewrite Hv, Hvss; reflexivity|]. replace (k + S len) with (S k + len) by lia. exact HR2.
Qed.

(* get_value(name_j) after the k-th update = what a stand-alone monitor of formula j returns *)
Theorem get_value_online (F : list formula) (len : nat) :
  (forall p, In p F -> past_only p = true /\ wf_bounds p = true) ->
  snd (mon_run_all AR pk F dict_init w 0 len) =
  map (fun k => map (fun p => nth k (snd (mon_run AR pk [p] dict_init w 0 len)) bot) F) (seq 0 len).
Proof.
  intros HF.
  assert (HR0 : Ready AR pk w n (DF F) 0 dict_init) by (intros a _; unfold dict_init; symmetry; apply canon_0).
  pose proof (mon_run_all_correct F len 0 dict_init HF HR0) as H.
  destruct (mon_run_all AR pk F dict_init w 0 len) as [d' vss]. destruct H as [-> _]. simpl snd.
  apply map_ext_in. intros k Hk. apply in_seq in Hk. apply map_ext_in. intros p Hp.
  rewrite (online_correct [p] len); [|discriminate|intros x [<-|[]]; apply HF; exact Hp].
  simpl last. rewrite nth_tab by lia. reflexivity.
Qed.

End Run.
