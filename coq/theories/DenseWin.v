(* DenseWin.v — the sliding-window algorithms of the bounded dense-time offline operators
   (once_timed_operation / historically_timed_operation / eventually_timed_operation /
   always_timed_operation of rtamt/semantics/stl/dense_time/offline/ast_visitor.py).
   Every input segment [t_i, t_i+1) with value v_i becomes a piece
        [t_i + begin, t_i+1 + end)   (past)        [t_i - end, t_i+1 - begin)   (future)
   and the pieces are pushed on a stack that holds their upper (lower) envelope. *)
From Coq Require Import List Bool Arith ZArith Lia.
From RV Require Import Val Syntax Rho Online Dense DenseMerge DenseEval.
Import ListNotations.
Local Open Scope Z_scope.

Section Win.
Context {VS : Val}.

Definition piece := (Z * tz * V)%type.
Definition ps (p : piece) : Z := fst (fst p).
Definition pe (p : piece) : tz := snd (fst p).
Definition pv (p : piece) : V := snd p.

(* intersect.intersects(x1, x2, y1, y2): x1 <= y2 and y1 <= x2 *)
Definition intersects (x1 : Z) (x2 : tz) (y1 : Z) (y2 : tz) : bool := negb (tlt y2 (T x1)) && negb (tlt x2 (T y1)).

(* ---------------- past: once / historically ---------------- *)
Fixpoint past_pieces (s : dsig) (b e : Z) : list piece :=
  match s with
  | [] => []
  | (t, v) :: r => (t + b, match r with (t', _) :: _ => T (t' + e) | [] => TInf end, v) :: past_pieces r b e
  end.

(* the stack: head = out[-1].   while (a[2] < b[2]) and (b[0] < a[0]): del out[-1]; a = out[-1]
   None = IndexError on the empty list *)
Fixpoint pop_dominated (lt : V -> V -> bool) (out : list piece) (b : piece) : option (list piece) :=
  match out with
  | [] => None
  | a :: r => if lt (pv a) (pv b) && (ps b <? ps a) then pop_dominated lt r b else Some out
  end.

Definition push_piece (lt : V -> V -> bool) (out : list piece) (b : piece) : option (list piece) :=
  match out with
  | [] => Some [b]
  | _ =>
    match pop_dominated lt out b with
    | None | Some [] => None
    | Some (a :: r) =>
        if negb (intersects (ps a) (pe a) (ps b) (pe b)) then Some (b :: a :: r)
        else if negb (lt (pv a) (pv b)) then                      (* a[2] >= b[2]: b only shows after a *)
          match pe a with T ae => Some ((ae, pe b, pv b) :: a :: r) | TInf => None end
        else Some (b :: (if ps a <? ps b then [(ps a, T (ps b), pv a)] else []) ++ r)
    end
  end.

Definition push_all (lt : V -> V -> bool) (init : list piece) (l : list piece) : option (list piece) :=
  fold_left (fun acc p => obind acc (fun out => push_piece lt out p)) l (Some init).

Definition past_env (lt : V -> V -> bool) (pad : V) (s : dsig) (b e : Z) : option (list piece) :=
  let init := match s with (t1, _) :: _ => if 0 <? b then [(0, T (t1 + b), pad)] else [] | [] => [] end in
  push_all lt init (past_pieces s b e).

Definition samples_of (out : list piece) : dsig := map (fun p => (ps p, pv p)) out.

Definition once_timed_op (s : dsig) (b e : Z) : option dsig :=
  option_map (fun out => dedup (samples_of (rev out))) (past_env ltb bot s b e).
Definition hist_timed_op (s : dsig) (b e : Z) : option dsig :=
  option_map (fun out => dedup (samples_of (rev out))) (past_env (fun x y => ltb y x) top s b e).

(* ---------------- future: eventually / always ---------------- *)
Fixpoint fut_pieces (s : dsig) (b e : Z) : list piece :=
  match s with
  | [] => []
  | (t, v) :: r => (t - e, match r with (t', _) :: _ => T (t' - b) | [] => TInf end, v) :: fut_pieces r b e
  end.

(* the list itself, head = out[0].   while (a[2] < b[2]) and (b[1] > a[1]): out.pop(0); a = out[0] *)
Fixpoint pop_dominated_f (lt : V -> V -> bool) (out : list piece) (b : piece) : option (list piece) :=
  match out with
  | [] => None
  | a :: r => if lt (pv a) (pv b) && tlt (pe a) (pe b) then pop_dominated_f lt r b else Some out
  end.

Definition push_piece_f (lt : V -> V -> bool) (out : list piece) (b : piece) : option (list piece) :=
  match out with
  | [] => Some [b]
  | _ =>
    match pop_dominated_f lt out b with
    | None | Some [] => None
    | Some (a :: r) =>
        if negb (intersects (ps a) (pe a) (ps b) (pe b)) then Some (b :: a :: r)
        else if negb (lt (pv a) (pv b)) then Some ((ps b, T (ps a), pv b) :: a :: r)
        else match pe b with
             | T be => Some (b :: (if tlt (T be) (pe a) then [(be, pe a, pv a)] else []) ++ r)
             | TInf => None
             end
    end
  end.

Definition fut_env (lt : V -> V -> bool) (s : dsig) (b e : Z) : option (list piece) :=
  fold_left (fun acc p => obind acc (fun out => push_piece_f lt out p)) (rev (fut_pieces s b e)) (Some []).

(* if b[0] <= 0 and b[1] > 0: [0, v]   elif b[0] > 0: [b[0], v] *)
Definition clip0 (out : list piece) : dsig :=
  flat_map (fun p => if (ps p <=? 0) && tlt (T 0) (pe p) then [(0, pv p)] else if 0 <? ps p then [(ps p, pv p)] else []) out.

Definition ev_timed_op (s : dsig) (b e : Z) : option dsig := option_map clip0 (fut_env ltb s b e).
Definition alw_timed_op (s : dsig) (b e : Z) : option dsig := option_map clip0 (fut_env (fun x y => ltb y x) s b e).

(* ---------------- bounded since / until: the decompositions of since_timed_operation / until_timed_operation ---------------- *)
Definition since_timed_op (s1 s2 : dsig) (b e : Z) : option dsig :=
  obind (once_timed_op s2 b e) (fun o1 => obind (since_op s1 s2) (fun o2 =>
    if 0 <? b then obind (hist_timed_op o2 0 b) (fun o3 => isect vmin o1 o3) else isect vmin o1 o2)).
Definition until_timed_op (s1 s2 : dsig) (b e : Z) : option dsig :=
  obind (ev_timed_op s2 b e) (fun o1 => obind (until_op s1 s2) (fun o2 =>
    if 0 <? b then obind (alw_timed_op o2 0 b) (fun o3 => isect vmin o1 o3) else isect vmin o1 o2)).

End Win.
