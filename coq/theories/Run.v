(* Run.v — entry points specialised to the executable instance, for
   extraction and for vm_compute cross-checks. *)
From Coq Require Import ZArith List Bool Arith Lia.
From Coq Require Import QArith.
From RV Require Import Val Syntax Rho Offline Online Sat IA Pastify Jitter Units Support Lexer Parser Elab Dense DenseSem DenseMerge DenseOnlineMerge DenseOnlineFold DenseOnlineWin DenseEval DenseWin DenseVisitor DenseSat Explain ExtZ.
From RV Require DenseOnlineMon DenseOnlineForest DenseOnlineReset ParserDeclOracle ParserRoundtrip ParserMin NodeName OnlineNamed.
From Coq Require String.
Import ListNotations.

Definition zformula := @formula ExtZVal.
Definition ztrace := @trace ExtZVal.

Definition pk_std : zformula -> zformula -> pkind := fun _ _ => PStd.

(* io given as the list of input-variable flags *)
Definition io_of (l : list bool) : nat -> bool := fun x => nth x l false.
Definition pk_ia_impl (sem : semantics) (l : list bool) : zformula -> zformula -> pkind := pk_impl (io_of l) sem.
Definition pk_ia_spec (sem : semantics) (l : list bool) : zformula -> zformula -> pkind := pk_spec (io_of l) sem.

Definition dk_of (b : bool) : delay_kind := if b then DelayOnce else DelayPrev.
Definition run_pastify (stl : bool) (p : zformula) : zformula := pastify (dk_of stl) p (hor p).
Definition run_past_guard (p : zformula) : bool := wf_bounds p && bounded_future p && future_above_past p.
(* what C03 promises for the i-th update of the pastified monitor *)
Definition run_past_spec_pk (pk : zformula -> zformula -> pkind) (p : zformula) (w : ztrace) (n : nat) : list (option extz) :=
  map (fun i => if hor p <=? i then Some (rho ExtZArith pk p w (S i) (i - hor p)) else None) (seq 0 n).
Definition run_past_spec (p : zformula) (w : ztrace) (n : nat) : list (option extz) := run_past_spec_pk pk_std p w n.

Definition run_jitter (P tol : Q) (ts : list Q) : nat * (nat * nat) :=
  (jviol (jrun P tol 1 ts), (joff P tol 1 ts, count_bad P tol ts)).

Definition run_supported (k : nat) (p : zformula) : bool :=
  supported (match k with O => DiscOff | S O => DiscOn | S (S O) => DenseOff | _ => DenseOn end) p.

Definition run_supported_pastified (k : nat) (p q : zformula) : bool :=
  supported_pastified (match k with O => DiscOff | S O => DiscOn | S (S O) => DenseOff | _ => DenseOn end) p q.

Definition run_parse := parse_outcome.
Definition run_lex := lex_string.

(* C15, renderings with few parentheses: the text of an AST with the needed parentheses plus the extra pairs at the given paths;
   the texts of the minimal rendering with one needed pair removed; the canonical dump of an AST *)
Definition run_render (ex : list (list nat)) (e : sexpr) : String.string :=
  ParserMin.toks_text (ParserMin.rgen (ParserMin.ex_of ex) e 0 None).
Definition run_min_drops (e : sexpr) : list String.string := map ParserMin.toks_text (ParserMin.min_drops e).
Definition run_wf (e : sexpr) : bool := ParserRoundtrip.wf e.
Definition run_dump (du : kw) (e : sexpr) : option String.string :=
  dump {| consts := []; subspecs := []; default_unit := du |} e.

Definition run_dn (pk : zformula -> zformula -> pkind) (p : zformula) (W : list (list (Z * extz))) : list (Z * extz) :=
  compress (Dn ExtZArith pk p W).

(* dense-time exactness pass: every arithmetic node stays inside the exact float domain at every break-point *)
Fixpoint dn_exact (pk : zformula -> zformula -> pkind) (p : zformula) (W : list (list (Z * extz))) {struct p} : bool :=
  let D q := Dn ExtZArith pk q W in
  let both (o : aop2) f g :=
    let a := D f in let b := D g in
    match a, b with
    | [], _ | _, [] => true
    | _, _ => let t0 := Z.max (start a) (start b) in
              forallb (fun c => ez_ok2 o (den a c) (den b c)) (cands (times a ++ times b) [0%Z] t0)
    end in
  match p with
  | Var _ | Const _ => true
  | A1 o f => dn_exact pk f W && forallb (fun s => ez_ok1 o (snd s)) (D f)
  | A2 o f g => dn_exact pk f W && dn_exact pk g W && both o f g
  | Pred _ f g | Iff f g | Xor f g => dn_exact pk f W && dn_exact pk g W && both Sub f g
  | Not f | Rise f | Fall f | Prev f | SPrev f | Next f | SNext f | Once f | Hist f | Ev f | Alw f
  | OnceT _ _ f | HistT _ _ f | EvT _ _ f | AlwT _ _ f => dn_exact pk f W
  | And f g | Or f g | Implies f g | Since f g | Until f g
  | SinceT _ _ f g | UntilT _ _ f g | Precedes _ _ f g => dn_exact pk f W && dn_exact pk g W
  end.

(* the dense-time semantics at every tick of [t0, tend] *)
Definition run_rhoz (pk : zformula -> zformula -> pkind) (p : zformula) (W : list (list (Z * extz))) (t0 tend : Z) : list extz :=
  map (rhoZ ExtZArith pk W tend p) (zrange t0 tend).

(* the 13-case merge of intersection.py with one of a few combining functions *)
Definition run_isect (op : nat) (s1 s2 : list (Z * extz)) : option (list (Z * extz)) :=
  isect (match op with
         | O => vmin | 1%nat => vmax
         | 2%nat => a2 ExtZArith Sub | _ => a2 ExtZArith Add end) s1 s2.

(* the online merge (online/intersection.py) and the update() wrapper shared by the binary online operations
   (and / or / implies / iff / xor / addition / subtraction), over stamps with +inf *)
Definition bin_f (op : nat) : extz -> extz -> extz :=
  match op with
  | O => vmin | 1%nat => vmax
  | 2%nat => a2 ExtZArith Sub | 3%nat => a2 ExtZArith Add
  | 4%nat => fun a b => vmax (neg a) b
  | 5%nat => fun a b => neg (a1 ExtZArith Abs (a2 ExtZArith Sub a b))
  | 6%nat => fun a b => a1 ExtZArith Abs (a2 ExtZArith Sub a b)
  | 7%nat => a2 ExtZArith Mul | 8%nat => a2 ExtZArith Div
  | _ => a2 ExtZArith Pow
  end.
Definition run_oisect (op : nat) (s1 s2 : list (tz * extz)) :=
  @oisect_e ExtZVal (bin_f op) s1 s2.
Definition run_binrun (op : nat) (bs : list (list (tz * extz) * list (tz * extz))) :=
  match @bin_run_e ExtZVal (bin_f op) ostate0 bs with
  | None => None
  | Some (st, outs) => Some (outs, lbuf st, rbuf st, lout st)
  end.

(* the unary / fold online operations over stamps with +inf: kind 0 once, 1 historically, 2 not, 3 abs, 4 unary minus, 5 sqrt;
   result: outputs per call and (fold operations) self.prev *)
Definition run_onlun (kind : nat) (bs : list (list (tz * extz))) : option (list (list (tz * extz)) * option extz) :=
  match kind with
  | O => option_map (fun r => (snd r, Some (fprev (fst r)))) (run_g (@once_update ExtZVal tz) once_init bs)
  | 1%nat => option_map (fun r => (snd r, Some (fprev (fst r)))) (run_g (@hist_update ExtZVal tz) hist_init bs)
  | 2%nat => option_map (fun r => (snd r, None)) (run_g (@unary_update ExtZVal tz (@not_fn ExtZVal)) unary_init bs)
  | 3%nat => option_map (fun r => (snd r, None)) (run_g (@unary_update ExtZVal tz (total_fn ExtZArith Abs)) unary_init bs)
  | 4%nat => option_map (fun r => (snd r, None)) (run_g (@unary_update ExtZVal tz (total_fn ExtZArith Neg)) unary_init bs)
  | _ => option_map (fun r => (snd r, None)) (run_g (@unary_update ExtZVal tz (sqrt_fn ExtZArith)) unary_init bs)
  end.
(* unbounded since: outputs per call, the two buffers, self.prev, self.last *)
Definition run_onlsince (bs : list (list (tz * extz) * list (tz * extz))) :=
  match run_g (@since_update ExtZVal tz tlt) since_init bs with
  | None => None
  | Some (st, outs) => Some (outs, s_lbuf st, s_rbuf st, s_prev st, s_last st)
  end.
(* bounded once (kind 0) / historically: outputs per call, self.prev (pieces), residual_start, started *)
Definition run_onlwin (kind : nat) (a b : Z) (bs : list (list (Z * extz))) :=
  match (match kind with O => @once_timed_run ExtZVal (owin_init a b) bs | _ => @hist_timed_run ExtZVal (hwin_init a b) bs end) with
  | None => None
  | Some (st, outs) => Some (outs, w_prev st, w_rs st, w_started st)
  end.

(* the whole dense-time online monitor: one update() per element of envs (a batch per variable index); the lists the calls return *)
Definition run_onlmon (pk : zformula -> zformula -> pkind) (p : zformula) (envs : list (list (list (Z * extz)))) : option (list (list (tz * extz))) :=
  option_map snd (DenseOnlineMon.mon_run ExtZArith pk p (DenseOnlineMon.mon_init p) envs).

(* the dense-time online monitor of several assertions (the forest F, references inlined): one update() per element of envs;
   per update: what update() returns, get_value of every assertion, get_value(printed sub-formula) for every q of Q *)
Definition run_onlforest (pk : zformula -> zformula -> pkind) (F Q : list zformula) (envs : list (list (list (Z * extz))))
  : option (list (list (tz * extz)) * list (list (list (tz * extz)) * list (option (list (tz * extz))))) :=
  match DenseOnlineForest.forest_run_out ExtZArith pk F (DenseOnlineForest.forest_init F) envs,
        DenseOnlineForest.forest_run ExtZArith pk F (DenseOnlineForest.forest_init F) envs with
  | Some (_, rets), Some (_, rs) =>
      Some (rets, map (fun r => (map (fun j => DenseOnlineForest.forest_get j r) (seq 0 (length F)),
                                 map (fun q => DenseOnlineForest.forest_get_sub q r) Q)) rs)
  | _, _ => None
  end.

(* update() and reset() calls on ONE dense-time online monitor object (DenseOnlineReset.run_api): the updates come in segments,
   a reset() between two consecutive segments; mode 0: reset() as the interpreter does it (set_ast again), mode 1: the
   inherited reset (reset visitor + the reset() methods of the operations).  The lists returned, segment by segment. *)
Definition run_onlmonreset (mode : nat) (pk : zformula -> zformula -> pkind) (p : zformula)
  (segs : list (list (list (list (Z * extz))))) : option (list (list (list (tz * extz)))) :=
  match mode with
  | O => DenseOnlineReset.run_api ExtZArith pk p segs
  | _ => DenseOnlineReset.run_api_inherited ExtZArith pk p segs
  end.

(* parse() of a whole specification text: ParserDeclOracle.run_parsefile *)
Definition run_parsefile := ParserDeclOracle.run_parsefile.

(* explain() on a list of assertions: the table of intervals per input variable *)
Definition run_explain (ps : list zformula) (w : ztrace) (n : nat) : option (list (nat * list (nat * nat))) :=
  explain ExtZArith pk_std w n ps.

(* Boolean dense-time semantics at every tick of [t0, tend] *)
Definition run_satz (p : zformula) (W : list (list (Z * extz))) (t0 tend : Z) : list bool :=
  map (satZ ExtZArith W tend p) (zrange t0 tend).
Definition run_dbool (p : zformula) : bool := dbool p.

(* the model of the dense-time offline visitors (untimed fragment) *)
Definition run_deval (p : zformula) (W : list (list (Z * extz))) : option (list (Z * extz)) := deval ExtZArith p W.
(* the IA-STL dense-time offline visitors: the same visitor with the predicate kinds of the semantics *)
Definition run_deval_pk (pk : zformula -> zformula -> pkind) (p : zformula) (W : list (list (Z * extz))) : option (list (Z * extz)) := deval_pk ExtZArith pk p W.

Definition run_hor (p : zformula) : nat := hor p.
Definition run_bounded_future (p : zformula) : bool := bounded_future p.
Definition run_past_only (p : zformula) : bool := past_only p.
Definition run_is_bool (p : zformula) : bool := is_bool p.
Definition run_sat (p : zformula) (w : ztrace) (n : nat) : list bool :=
  map (sat ExtZArith p w n) (seq 0 n).

Section WithPk.
Variable pk : zformula -> zformula -> pkind.

Definition run_off (p : zformula) (w : ztrace) (n : nat) : list extz :=
  eval_off ExtZArith pk p w n.
Definition run_rho (p : zformula) (w : ztrace) (n : nat) : list extz :=
  map (rho ExtZArith pk p w n) (seq 0 n).

(* exactness ("indet") pass: every arithmetic node, at every sample, is
   applied inside the domain where Python float arithmetic is exact *)
Definition sub_ok (l r : extz) : bool := ez_ok2 Sub l r.
Fixpoint exact_at (p : zformula) (w : ztrace) (n t : nat) {struct p} : bool :=
  let R q := rho ExtZArith pk q w n t in
  match p with
  | Var _ => small (R p)
  | Const _ => true
  | A1 o f => exact_at f w n t && ez_ok1 o (R f)
  | A2 o f g => exact_at f w n t && exact_at g w n t && ez_ok2 o (R f) (R g)
  | Pred _ f g | Iff f g | Xor f g => exact_at f w n t && exact_at g w n t && sub_ok (R f) (R g)
  | Not f | Rise f | Fall f | Prev f | SPrev f | Next f | SNext f
  | Once f | Hist f | Ev f | Alw f
  | OnceT _ _ f | HistT _ _ f | EvT _ _ f | AlwT _ _ f => exact_at f w n t
  | And f g | Or f g | Implies f g | Since f g | Until f g
  | SinceT _ _ f g | UntilT _ _ f g | Precedes _ _ f g => exact_at f w n t && exact_at g w n t
  end.
Definition run_exact (p : zformula) (w : ztrace) (n : nat) : bool :=
  forallb (exact_at p w n) (seq 0 n).

(* online: outputs of update() for rows 0..n-1 from a freshly built monitor *)
Definition run_on (F : list zformula) (w : ztrace) (n : nat) : list extz :=
  snd (mon_run ExtZArith pk F (dict_init) w 0 n).
Definition run_on_supported (F : list zformula) : bool := on_supported F.
(* history of h rows, reset, then rows h..h+n-1 *)
Definition run_on_reset (F : list zformula) (w : ztrace) (h n : nat) : list extz :=
  let d := fst (mon_run ExtZArith pk F dict_init w 0 h) in
  snd (mon_run ExtZArith pk F (mon_reset F d) w h n).
End WithPk.

(* the names of all nodes of a syntax tree as rtamt prints them (NodeName.v), and whether its leaves have the assumed form *)
Definition run_nnames := NodeName.run_nnames.
Definition run_ident := NodeName.run_ident.

(* the online monitor keyed by node names (OnlineNamed.v) on a forest of syntax nodes; None: a bound is not a multiple of the
   sampling period, or a future operator (set_ast raises) *)
Fixpoint var_index (l : list (String.string * String.string)) (v f : String.string) (i : nat) : nat :=
  match l with
  | [] => i
  | (a, b) :: r => if String.eqb a v && String.eqb b f then i else var_index r v f (S i)
  end.
Definition run_nmon (vars : list (String.string * String.string)) (cv : String.string -> extz) (du : Units.tunit) (p : Z) (pu : Units.tunit)
  (F : list NodeName.node) (w : ztrace) (n : nat) : option (list extz) :=
  let vidx := fun v f => var_index vars v f 0 in
  let bnd := OnlineNamed.bnd_of du p pu in
  if forallb (fun x => match @NodeName.erase ExtZVal vidx cv du p pu x with Some g => past_only g | None => false end) F
  then Some (snd (OnlineNamed.nmon_run ExtZArith pk_std vidx cv bnd F (OnlineNamed.ndict_init vidx cv bnd F) w 0 n))
  else None.
(* ---- unit normalisation of whole formulas (UnitsLift.v): one result line per specification.
   Numbers travel as decimal texts (bounds around 2^63 periods and 2^1024 default units). ---- *)
From Coq Require Import Ascii String.
From RV Require UnitsLift.

Fixpoint ul_dec (acc : Z) (s : string) : Z :=
  match s with
  | EmptyString => acc
  | String c r => ul_dec (10 * acc + Z.of_nat (nat_of_ascii c - 48))%Z r
  end.
Definition ul_z (s : string) : Z :=
  match s with
  | String "-"%char r => (- ul_dec 0 r)%Z
  | _ => ul_dec 0 s
  end.
Definition ul_q (n d : string) : Q := Qmake (ul_z n) (Z.to_pos (ul_z d)).
Fixpoint ul_digits (fuel : nat) (z : Z) (acc : string) : string :=
  match fuel with
  | O => acc
  | S f =>
      let acc' := String (ascii_of_nat (48 + Z.to_nat (z mod 10))) acc in
      if (z <? 10)%Z then acc' else ul_digits f (z / 10)%Z acc'
  end.
Definition ul_show (z : Z) : string :=
  if (z <? 0)%Z then String "-"%char (ul_digits (S (Z.to_nat (Z.log2 (- z)))) (- z)%Z EmptyString)
  else ul_digits (S (Z.to_nat (Z.log2 z))) z EmptyString.

Definition ul_join (l : list string) : string := fold_right (fun a b => String.append " " (String.append a b)) EmptyString l.
Definition ul_code {A} (o : outcome A) (k : A -> list string) : string :=
  match o with
  | Ok a => String.append "0" (ul_join (k a))
  | Rtamt => "1"%string
  | Crash => "2"%string
  end.
Definition ul_pairs (l : list (Z * Z)) : list string := flat_map (fun be => [ul_show (fst be); ul_show (snd be)]) l.
Definition ul_qpairs (l : list (Q * Q)) : list string :=
  flat_map (fun be => [ul_show (Qnum (fst be)); ul_show (Zpos (Qden (fst be))); ul_show (Qnum (snd be)); ul_show (Zpos (Qden (snd be)))]) l.
Definition ul_nbounds (p : zformula) : list (Z * Z) :=
  map (fun be => (Z.of_nat (fst be), Z.of_nat (snd be))) (UnitsLift.bounds (UnitsLift.of_formula p)).
(* after pastify(): the operators of the pastified specification are built, then check_pastified_bounds converts the written
   bounds; not computed for specifications with bounds of ~2^63 samples (skip = true) *)
Definition ul_past (skip : bool) (st : UnitsLift.settings) (ce : UnitsLift.cenv) (u : @UnitsLift.uformula ExtZVal) : outcome (list (Z * Z)) :=
  if skip then Ok [] else UnitsLift.rmap (fun p => ul_nbounds (pastify DelayOnce p (hor p)) ++ ul_nbounds p) (UnitsLift.normalize st ce u).
Definition run_unitslift (skip : bool) (st : UnitsLift.settings) (ce : UnitsLift.cenv) (u : @UnitsLift.uformula ExtZVal) : string :=
  String.append "PARSE " (String.append (ul_code (UnitsLift.parse_bounds (UnitsLift.s_du st) ce u) (fun _ => []))
  (String.append " | DISC " (String.append (ul_code (UnitsLift.normalize_log st ce u) ul_pairs)
  (String.append " | DENSE " (String.append (ul_code (UnitsLift.normalize_dense (UnitsLift.s_du st) ce u) (fun q => ul_qpairs (UnitsLift.bounds q)))
  (String.append " | PAST " (ul_code (ul_past skip st ce u) ul_pairs))))))).
Definition run_unless (ub : UnitsLift.ubound) (f g : @UnitsLift.uformula ExtZVal) : @UnitsLift.uformula ExtZVal := UnitsLift.unless_t ub f g.
