(* DenseWinFut.v — eventually_timed_operation / always_timed_operation: the pieces [t_i - end, t_i+1 - begin) are
   pushed from the last segment backwards onto the front of a list that holds their upper (lower) envelope;
   the part before time 0 is cut off at the end. *)
From Coq Require Import List Bool Arith ZArith Lia.
From RV Require Import Val Syntax Rho ListFacts OfflineCorrect Online Dense DenseSem DenseFacts DenseMerge DenseMergeCorrect DenseEval DenseEvalCorrect DenseWin DenseWinCorrect.
Import ListNotations.
Local Open Scope Z_scope.

Section FutCorrect.
Context {VS : Val}.

(* out (earliest piece first) cuts [lo, hi) into non-empty pieces that carry the values of F *)
Fixpoint fstk (out : list piece) (lo hi : tz) (F : Z -> V) : Prop :=
  match out with
  | [] => lo = hi
  | q :: r => T (ps q) = lo /\ tlt lo (pe q) = true /\
              (forall t, ps q <= t -> tlt (T t) (pe q) = true -> F t = pv q) /\ fstk r (pe q) hi F
  end.

Lemma fstk_ext : forall out lo hi F G, (forall t, tlt (T t) lo = false -> F t = G t) -> fstk out lo hi F -> fstk out lo hi G.
Proof.
  induction out as [|q r IH]; intros lo hi F G E H; [exact H|]. cbn [fstk] in *. destruct H as (H1 & H2 & H3 & H4).
  split; [exact H1|]. split; [exact H2|]. split.
  - intros t Ht Hlt. rewrite <- E; [apply H3; assumption|]. rewrite <- H1. cbn. apply Z.ltb_ge. exact Ht.
  - apply (IH (pe q) hi F G); [|exact H4]. intros t Ht. apply E. rewrite <- H1 in *. clear - Ht H2.
    destruct (pe q); cbn in *; [apply Z.ltb_ge; apply Z.ltb_ge in Ht; apply Z.ltb_lt in H2; lia|discriminate].
Qed.

(* the popping loop: pieces that end before b ends and are lower than b *)
Lemma pop_spec_f : forall out lo F b eb, fstk out (T lo) TInf F -> pe b = T eb -> lo <= eb ->
  exists a r' z, pop_dominated_f ltb out b = Some (a :: r') /\ fstk (a :: r') (T z) TInf F /\ lo <= z /\ z <= eb /\
    (forall t, lo <= t -> t < z -> ltb (F t) (pv b) = true) /\
    (ltb (pv a) (pv b) && tlt (pe a) (T eb)) = false.
Proof.
  induction out as [|q r IH]; intros lo F b eb H Eb Hlo; [cbn in H; discriminate|]. cbn [pop_dominated_f]. rewrite Eb.
  destruct (ltb (pv q) (pv b) && tlt (pe q) (T eb)) eqn:Ec.
  - apply andb_prop in Ec as [Ev Ee]. pose proof H as H'. cbn [fstk] in H. destruct H as (H1 & H2 & H3 & H4). injection H1 as H1.
    destruct (pe q) as [m|] eqn:Em; [|cbn in Ee; discriminate]. cbn in Ee, H2. apply Z.ltb_lt in Ee. apply Z.ltb_lt in H2.
    destruct (IH m F b eb H4 Eb ltac:(lia)) as (a & r' & z & E & S & Hz1 & Hz2 & Hlt & Hc).
    exists a, r', z. split; [exact E|]. split; [exact S|]. split; [lia|]. split; [exact Hz2|]. split; [|exact Hc].
    intros t Ht Htz. destruct (Z.lt_ge_cases t m) as [Hl|Hg].
    + rewrite (H3 t) by (try lia; cbn; apply Z.ltb_lt; lia). exact Ev.
    + apply Hlt; assumption.
  - exists q, r, lo. split; [reflexivity|]. split; [exact H|]. split; [lia|]. split; [exact Hlo|]. split; [|exact Ec].
    intros t Ht Htz. lia.
Qed.

Lemma push_spec_f out lo F b eb :
  fstk out (T lo) TInf F -> pe b = T eb -> ps b < lo -> lo <= eb ->
  (forall t t', lo <= t -> t <= t' -> t' < eb -> leb (F t) (F t') = true) ->
  exists out', push_piece_f ltb out b = Some out' /\
     fstk out' (T (ps b)) TInf (fun t => if t <? eb then (if lo <=? t then vmax (F t) (pv b) else pv b) else F t).
Proof.
  intros S Eb Hsb Hle Hmono.
  destruct (pop_spec_f out lo F b eb S Eb Hle) as (a & r' & z & E & S' & Hz1 & Hz2 & Hlt & Hc).
  unfold push_piece_f. destruct out as [|o0 o']; [cbn in S; discriminate|]. rewrite E.
  pose proof S' as S''. cbn [fstk] in S''. destruct S'' as (A1 & A2 & A3 & A4). injection A1 as A1.
  set (G := fun t => if t <? eb then (if lo <=? t then vmax (F t) (pv b) else pv b) else F t).
  assert (Hi : intersects (ps a) (pe a) (ps b) (pe b) = true).
  { unfold intersects. rewrite Eb, A1. apply andb_true_intro. split; apply negb_true_iff.
    - cbn. apply Z.ltb_ge. lia.
    - clear - A2 Hsb Hz1. destruct (pe a); cbn in *; [apply Z.ltb_ge; apply Z.ltb_lt in A2; lia|reflexivity]. }
  rewrite Hi. cbn [negb].
  assert (Hlow : forall t, ps b <= t -> t < z -> G t = pv b).
  { intros t Ht Htz. unfold G. destruct (Z.ltb_spec t eb); [|lia]. destruct (Z.leb_spec lo t); [|reflexivity].
    apply vmax_of_lt. apply Hlt; assumption. }
  destruct (ltb (pv a) (pv b)) eqn:Ev; cbn [negb].
  - (* a is lower than b and ends no earlier: a is cut at the end of b *)
    cbn [andb] in Hc. rewrite Eb.
    assert (Hb : forall t, ps b <= t -> t < eb -> G t = pv b).
    { intros t Ht Hte. destruct (Z.lt_ge_cases t z) as [Hl|Hg]; [apply Hlow; assumption|].
      unfold G. destruct (Z.ltb_spec t eb); [|lia]. destruct (Z.leb_spec lo t); [|reflexivity].
      apply vmax_of_lt. rewrite (A3 t); [exact Ev|lia|]. clear - Hc Hte. destruct (pe a); cbn in *; [apply Z.ltb_lt; apply Z.ltb_ge in Hc; lia|reflexivity]. }
    assert (Hrest : fstk r' (pe a) TInf G).
    { apply (fstk_ext r' (pe a) TInf F G); [|exact A4]. intros t Ht. unfold G. destruct (Z.ltb_spec t eb); [|reflexivity].
      exfalso. clear - Hc Ht H. destruct (pe a); cbn in *; [apply Z.ltb_ge in Hc; apply Z.ltb_ge in Ht; lia|discriminate]. }
    eexists. split; [reflexivity|]. cbn [fstk]. split; [reflexivity|]. rewrite Eb. split; [cbn; apply Z.ltb_lt; lia|]. split.
    { intros t Ht Hte. cbn in Hte. apply Z.ltb_lt in Hte. apply Hb; assumption. }
    destruct (tlt (T eb) (pe a)) eqn:Et; cbn [app].
    + cbn [fstk ps pe pv fst snd]. split; [reflexivity|]. split; [exact Et|]. split; [|exact Hrest].
      intros t Ht Hta. unfold G. destruct (Z.ltb_spec t eb); [lia|]. apply A3; [lia|exact Hta].
    + assert (Ea : pe a = T eb).
      { clear - Hc Et. destruct (pe a); cbn in *; [f_equal; apply Z.ltb_ge in Hc; apply Z.ltb_ge in Et; lia|discriminate]. }
      rewrite Ea in Hrest. exact Hrest.
  - (* a is at least b: b shows before a only *)
    assert (Hge : leb (pv b) (pv a) = true) by (unfold ltb in Ev; apply negb_false_iff in Ev; exact Ev).
    eexists. split; [reflexivity|]. cbn [fstk ps pe pv fst snd]. rewrite A1. split; [reflexivity|]. split; [cbn; apply Z.ltb_lt; lia|]. split.
    { intros t Ht Htz. cbn in Htz. apply Z.ltb_lt in Htz. apply Hlow; assumption. }
    split; [reflexivity|]. split; [exact A2|]. split.
    + intros t Ht Hta. unfold G. destruct (Z.ltb_spec t eb); [|apply A3; [lia|assumption]]. destruct (Z.leb_spec lo t); [|lia].
      rewrite vmax_of_ge; [apply A3; [lia|assumption]|]. apply (leb_trans _ (pv a)); [exact Hge|]. rewrite <- (A3 t ltac:(lia) Hta). apply leb_refl.
    + apply (fstk_ext r' (pe a) TInf F G); [|exact A4]. intros t Ht. unfold G. destruct (Z.ltb_spec t eb); [|reflexivity].
      destruct (Z.leb_spec lo t).
      * apply eq_sym. apply vmax_of_ge. apply (leb_trans _ (pv a)); [exact Hge|].
        rewrite <- (A3 z) by (try lia; exact A2). apply Hmono; try lia.
        clear - Ht A2. destruct (pe a); cbn in *; [apply Z.ltb_ge in Ht; apply Z.ltb_lt in A2; lia|discriminate].
      * exfalso. clear - Ht A2 H0 Hz1 A1. destruct (pe a); cbn in *; [apply Z.ltb_ge in Ht; apply Z.ltb_lt in A2; lia|discriminate].
Qed.

(* ---------------- cutting at time 0 ---------------- *)
Lemma fstk_nil_inf : forall r hi F, fstk r TInf hi F -> r = [].
Proof. intros [|q r] hi F H; [reflexivity|]. cbn in H. destruct H as [H _]. discriminate. Qed.

Lemma clip0_spec : forall out lo F, fstk out (T lo) TInf F ->
  dsorted (clip0 out) /\ clip0 out <> [] /\ start (clip0 out) = Z.max lo 0 /\
  forall t, den_opt (clip0 out) t = if t <? Z.max lo 0 then None else Some (F t).
Proof.
  induction out as [|q r IH]; intros lo F S; [cbn in S; discriminate|]. cbn [fstk] in S. destruct S as (S1 & S2 & S3 & S4). injection S1 as S1.
  cbn [clip0 flat_map]. fold (clip0 r).
  destruct (pe q) as [m|] eqn:Em.
  - cbn in S2. apply Z.ltb_lt in S2. destruct (IH m F S4) as (I1 & I2 & I3 & I4).
    assert (Ilb : lb (Z.max m 0) (clip0 r)).
    { rewrite <- I3. apply start_lb. exact I1. }
    destruct (Z.leb_spec (ps q) 0) as [Hq|Hq]; cbn [andb tlt].
    + destruct (Z.ltb_spec 0 m) as [Hm|Hm]; cbn [app].
      * (* the piece that contains 0 *)
        split; [apply dsorted_cons_lb; [intros a v Hin; specialize (Ilb a v Hin); lia|exact I1]|]. split; [discriminate|]. split; [cbn; lia|].
        intros t. rewrite den_opt_cons, I4. replace (Z.max lo 0) with 0 by lia. replace (Z.max m 0) with m by lia.
        destruct (Z.leb_spec 0 t), (Z.ltb_spec t 0), (Z.ltb_spec t m); try lia; try reflexivity.
        f_equal. symmetry. apply S3; [lia|cbn; apply Z.ltb_lt; lia].
      * (* entirely before 0: dropped *)
        destruct (Z.ltb_spec 0 (ps q)); [lia|]. cbn [app]. replace (Z.max lo 0) with (Z.max m 0) by lia.
        split; [exact I1|]. split; [exact I2|]. split; [exact I3|exact I4].
    + destruct (Z.ltb_spec 0 (ps q)); [|lia]. cbn [app].
      split; [apply dsorted_cons_lb; [intros a v Hin; specialize (Ilb a v Hin); lia|exact I1]|]. split; [discriminate|]. split; [cbn; lia|].
      intros t. rewrite den_opt_cons, I4. replace (Z.max lo 0) with lo by lia. replace (Z.max m 0) with m by lia.
      destruct (Z.leb_spec (ps q) t), (Z.ltb_spec t lo), (Z.ltb_spec t m); try lia; try reflexivity.
      f_equal. symmetry. apply S3; [lia|cbn; apply Z.ltb_lt; lia].
  - rewrite (fstk_nil_inf r TInf F S4). cbn [clip0 flat_map tlt]. rewrite andb_true_r, app_nil_r.
    destruct (Z.leb_spec (ps q) 0) as [Hq|Hq].
    + split; [cbn; auto|]. split; [discriminate|]. split; [cbn; lia|]. intros t. cbn [den_opt]. replace (Z.max lo 0) with 0 by lia.
      destruct (Z.leb_spec 0 t), (Z.ltb_spec t 0); try lia; try reflexivity. f_equal. symmetry. apply S3; [lia|reflexivity].
    + destruct (Z.ltb_spec 0 (ps q)); [|lia]. split; [cbn; auto|]. split; [discriminate|]. split; [cbn; lia|]. intros t. cbn [den_opt].
      replace (Z.max lo 0) with lo by lia. destruct (Z.leb_spec (ps q) t), (Z.ltb_spec t lo); try lia; try reflexivity.
      f_equal. symmetry. apply S3; [lia|reflexivity].
Qed.

(* ---------------- the pieces of a step signal ---------------- *)
Variables (b e : Z).
Hypothesis Hb : 0 <= b.
Hypothesis Hbe : b <= e.

Lemma pieces_ub_f : forall (s : dsig), dsorted s -> s <> [] -> forall X t,
  (forall p, In p (fut_pieces s b e) -> covers p t = true -> leb (pv p) X = true) <->
  (forall u, start s <= u -> t + b <= u <= t + e -> leb (den s u) X = true).
Proof.
  induction s as [|[t1 v1] r IH]; intros Hs Hne X t; [congruence|]. destruct r as [|[t2 v2] r'].
  - cbn [fut_pieces start]. split.
    + intros H u Hu Hw. unfold den. cbn [den_opt]. destruct (Z.leb_spec t1 u); [|lia].
      apply (H (t1 - e, TInf, v1)); [left; reflexivity|]. unfold covers. cbn. rewrite andb_true_r. apply Z.leb_le. lia.
    + intros H p [<-|[]] Hc. unfold covers in Hc. cbn in Hc. rewrite andb_true_r in Hc. apply Z.leb_le in Hc.
      specialize (H (Z.max (t + b) t1) ltac:(lia) ltac:(lia)). unfold den in H. cbn [den_opt] in H.
      destruct (Z.leb_spec t1 (Z.max (t + b) t1)); [exact H|lia].
  - cbn [dsorted] in Hs. destruct Hs as [Hlt Hs]. specialize (IH Hs ltac:(discriminate) X t).
    change (fut_pieces ((t1, v1) :: (t2, v2) :: r') b e) with ((t1 - e, T (t2 - b), v1) :: fut_pieces ((t2, v2) :: r') b e).
    cbn [start] in *.
    assert (Hden1 : forall u, t1 <= u -> u < t2 -> den ((t1, v1) :: (t2, v2) :: r') u = v1).
    { intros u H1 H2. unfold den. cbn [den_opt]. destruct (Z.leb_spec t1 u); [|lia]. destruct (Z.leb_spec t2 u); [lia|reflexivity]. }
    assert (Hden2 : forall u, t2 <= u -> den ((t1, v1) :: (t2, v2) :: r') u = den ((t2, v2) :: r') u).
    { intros u H2. unfold den. rewrite den_opt_cons. destruct (Z.leb_spec t1 u); [|lia].
      destruct (den_opt ((t2, v2) :: r') u) eqn:E; [reflexivity|]. exfalso. cbn [den_opt] in E. destruct (Z.leb_spec t2 u); [|lia].
      destruct (den_opt r' u); discriminate. }
    split.
    + intros H u Hu Hw. destruct (Z.lt_ge_cases u t2) as [Hl|Hg].
      * rewrite Hden1 by lia. apply (H (t1 - e, T (t2 - b), v1)); [left; reflexivity|].
        unfold covers. cbn. apply andb_true_intro. split; [apply Z.leb_le|apply Z.ltb_lt]; lia.
      * rewrite Hden2 by lia. apply (proj1 IH); [|lia|exact Hw]. intros p Hin Hc. apply H; [right; exact Hin|exact Hc].
    + intros H p [<-|Hin] Hc.
      * unfold covers in Hc. cbn in Hc. apply andb_prop in Hc as [C1 C2]. apply Z.leb_le in C1. apply Z.ltb_lt in C2.
        specialize (H (Z.max (t + b) t1) ltac:(lia) ltac:(lia)). rewrite Hden1 in H by lia. exact H.
      * apply (proj2 IH); [|exact Hin|exact Hc]. intros u Hu Hw. rewrite <- Hden2 by lia. apply H; lia.
Qed.

Lemma den_before_start (s : dsig) u : dsorted s -> u < start s -> den s u = bot.
Proof.
  intros Hs Hu. unfold den. destruct s as [|[t1 v1] r]; [reflexivity|]. cbn [start] in Hu. cbn [den_opt]. destruct (Z.leb_spec t1 u); [lia|reflexivity].
Qed.

Lemma env_window_f (s : dsig) : dsorted s -> s <> [] -> forall t, env (fut_pieces s b e) t = zmax (den s) (t + b) (t + e).
Proof.
  intros Hs Hne t. apply eq_by_ub. intros X. rewrite env_ub, (pieces_ub_f s Hs Hne X t), zmax_ub. split.
  - intros H u Hw. destruct (Z.lt_ge_cases u (start s)) as [Hl|Hg]; [rewrite den_before_start by assumption; apply bot_le|apply H; lia].
  - intros H u Hu Hw. apply H. lia.
Qed.

Lemma env_cons p l t : env (p :: l) t = vmax (if covers p t then pv p else bot) (env l t).
Proof. unfold env. cbn [filter]. destruct (covers p t); cbn [map maxl fold_right]; [reflexivity|symmetry; apply vmax_bot_l]. Qed.

Lemma fut_env_cons lt t1 v1 (s' : dsig) :
  fut_env lt ((t1, v1) :: s') b e =
  obind (fut_env lt s' b e) (fun o => push_piece_f lt o (t1 - e, match s' with (t', _) :: _ => T (t' - b) | [] => TInf end, v1)).
Proof. unfold fut_env. cbn [fut_pieces rev]. rewrite fold_left_app. reflexivity. Qed.

(* every piece of a signal that starts at t2 starts no earlier than t2 - e and ends after t2 - b *)
Lemma fut_pieces_bounds : forall (s : dsig) t2 v2, dsorted ((t2, v2) :: s) ->
  forall p, In p (fut_pieces ((t2, v2) :: s) b e) -> t2 - e <= ps p /\ tlt (T (t2 - b)) (pe p) = true.
Proof.
  induction s as [|[t3 v3] s' IH]; intros t2 v2 Hs p Hin.
  - destruct Hin as [<-|[]]. cbn. split; [lia|reflexivity].
  - cbn [dsorted] in Hs. destruct Hs as [Hlt Hs].
    change (fut_pieces ((t2, v2) :: (t3, v3) :: s') b e) with ((t2 - e, T (t3 - b), v2) :: fut_pieces ((t3, v3) :: s') b e) in Hin.
    destruct Hin as [<-|Hin].
    + cbn. split; [lia|apply Z.ltb_lt; lia].
    + destruct (IH t3 v3 Hs p Hin) as [I1 I2]. split; [lia|]. clear - I2 Hlt. destruct (pe p); cbn in *; [apply Z.ltb_lt; apply Z.ltb_lt in I2; lia|reflexivity].
Qed.

Lemma fut_env_spec : forall (s : dsig), dsorted s -> s <> [] ->
  exists out, fut_env ltb s b e = Some out /\ fstk out (T (start s - e)) TInf (env (fut_pieces s b e)).
Proof.
  induction s as [|[t1 v1] r IH]; intros Hs Hne; [congruence|]. rewrite fut_env_cons. destruct r as [|[t2 v2] r'].
  - unfold fut_env. cbn [fut_pieces rev app fold_left obind push_piece_f start]. eexists. split; [reflexivity|].
    cbn [fstk ps pe pv fst snd]. split; [reflexivity|]. split; [reflexivity|]. split; [|reflexivity].
    intros t Ht _. unfold env. cbn [filter]. unfold covers. cbn [ps pe fst snd tlt]. rewrite andb_true_r. destruct (Z.leb_spec (t1 - e) t); [|lia]. cbn [map pv snd maxl fold_right]. apply vmax_bot_r.
  - cbn [dsorted] in Hs. destruct Hs as [Hlt Hs]. destruct (IH Hs ltac:(discriminate)) as (out0 & E0 & S0). rewrite E0. cbn [obind start] in *.
    set (p1 := (t1 - e, T (t2 - b), v1) : piece).
    assert (Hmono : forall t t', t2 - e <= t -> t <= t' -> t' < t2 - b ->
              leb (env (fut_pieces ((t2, v2) :: r') b e) t) (env (fut_pieces ((t2, v2) :: r') b e) t') = true).
    { intros t t' Ht Htt Hte. apply env_ub. intros p Hin Hc. apply env_ge; [exact Hin|]. destruct (fut_pieces_bounds r' t2 v2 Hs p Hin) as [D1 D2].
      unfold covers in *. apply andb_prop in Hc as [C1 C2]. apply Z.leb_le in C1. apply andb_true_intro. split; [apply Z.leb_le; lia|].
      clear - D2 Hte. destruct (pe p); cbn in *; [apply Z.ltb_lt; apply Z.ltb_lt in D2; lia|reflexivity]. }
    destruct (push_spec_f out0 (t2 - e) _ p1 (t2 - b) S0 eq_refl ltac:(cbn; lia) ltac:(lia) Hmono) as (out1 & E1 & S1).
    exists out1. split; [exact E1|].
    change (fut_pieces ((t1, v1) :: (t2, v2) :: r') b e) with (p1 :: fut_pieces ((t2, v2) :: r') b e).
    eapply fstk_ext; [|exact S1]. intros t Ht. cbn in Ht. apply Z.ltb_ge in Ht. cbn beta. rewrite env_cons. unfold covers. cbn [ps pe pv p1 fst snd tlt].
    destruct (Z.leb_spec (t1 - e) t); [|lia]. cbn [andb]. destruct (Z.ltb_spec t (t2 - b)); [|symmetry; apply vmax_bot_l].
    destruct (Z.leb_spec (t2 - e) t); [apply vmax_comm|]. rewrite env_none; [symmetry; apply vmax_bot_r|].
    intros p Hin. destruct (fut_pieces_bounds r' t2 v2 Hs p Hin) as [D1 _]. unfold covers. apply andb_false_iff. left. apply Z.leb_gt. lia.
Qed.

Theorem good_ev_timed (s : dsig) F : good s 0 F ->
  exists out, ev_timed_op s b e = Some out /\ good out 0 (fun t => zmax F (t + b) (t + e)).
Proof.
  intros G. pose proof G as (Hs & Hne & Hst & Hd).
  destruct (fut_env_spec s Hs Hne) as (out & E & S). unfold ev_timed_op. rewrite E. cbn [option_map]. eexists. split; [reflexivity|].
  destruct (clip0_spec out _ _ S) as (R1 & R2 & R3 & R4). rewrite Hst in *. replace (Z.max (0 - e) 0) with 0 in * by lia.
  split; [exact R1|]. split; [exact R2|]. split; [exact R3|]. intros t. rewrite R4. destruct (Z.ltb_spec t 0); [reflexivity|]. f_equal.
  rewrite (env_window_f s Hs Hne t). apply zmax_ext. intros u Hu. apply (good_den s 0 F u G). lia.
Qed.

End FutCorrect.

(* ---------------- always[b, e] by duality ---------------- *)
Section FutDual.
Context {VS : Val}.

Lemma pop_neg_f : forall out b, pop_dominated_f ltb (map negp out) (negp b) = option_map (map negp) (pop_dominated_f gtb out b).
Proof.
  induction out as [|a r IH]; intros b; [reflexivity|]. cbn [map pop_dominated_f].
  change (pv (negp a)) with (neg (pv a)). change (pv (negp b)) with (neg (pv b)). change (pe (negp a)) with (pe a). change (pe (negp b)) with (pe b).
  unfold gtb at 1. rewrite ltb_neg. destruct (ltb (pv b) (pv a) && tlt (pe a) (pe b)); [apply IH|reflexivity].
Qed.

Lemma push_neg_f out b : push_piece_f ltb (map negp out) (negp b) = option_map (map negp) (push_piece_f gtb out b).
Proof.
  unfold push_piece_f. destruct out as [|o0 o']; [reflexivity|].
  cbn [map]. change (negp o0 :: map negp o') with (map negp (o0 :: o')). rewrite pop_neg_f.
  destruct (pop_dominated_f gtb (o0 :: o') b) as [[|a r]|]; cbn [option_map map]; try reflexivity.
  change (pv (negp a)) with (neg (pv a)). change (pv (negp b)) with (neg (pv b)). change (ps (negp a)) with (ps a). change (ps (negp b)) with (ps b).
  change (pe (negp a)) with (pe a). change (pe (negp b)) with (pe b).
  destruct (intersects (ps a) (pe a) (ps b) (pe b)); cbn [negb]; [|reflexivity].
  unfold gtb. rewrite ltb_neg. destruct (ltb (pv b) (pv a)); cbn [negb]; [|reflexivity].
  destruct (pe b) as [be|]; [|reflexivity]. cbn [option_map map]. f_equal. f_equal. rewrite map_app. f_equal. destruct (tlt (T be) (pe a)); reflexivity.
Qed.

Lemma fold_push_neg_f : forall l out,
  fold_left (fun acc p => obind acc (fun o => push_piece_f ltb o p)) (map negp l) (Some (map negp out)) =
  option_map (map negp) (fold_left (fun acc p => obind acc (fun o => push_piece_f gtb o p)) l (Some out)).
Proof.
  induction l as [|b r IH]; intros out; [reflexivity|]. cbn [map fold_left obind]. rewrite push_neg_f.
  destruct (push_piece_f gtb out b) as [out1|]; cbn [option_map].
  - apply IH.
  - clear. induction r as [|x r IH]; [reflexivity|]. cbn [map fold_left obind]. exact IH.
Qed.

Lemma fut_pieces_neg : forall (s : dsig) b e, fut_pieces (dmap neg s) b e = map negp (fut_pieces s b e).
Proof.
  induction s as [|[t v] r IH]; intros b e; [reflexivity|]. cbn [dmap map fut_pieces fst snd]. fold (dmap neg r). rewrite IH.
  f_equal. unfold negp. cbn. destruct r as [|[t' v'] r']; reflexivity.
Qed.

Lemma fut_env_neg (s : dsig) b e : fut_env gtb s b e = option_map (map negp) (fut_env ltb (dmap neg s) b e).
Proof.
  unfold fut_env. rewrite fut_pieces_neg, <- map_rev. change (Some (@nil piece)) with (Some (map negp (@nil piece))) at 2.
  rewrite fold_push_neg_f. destruct (fold_left _ _ _); cbn [option_map]; [rewrite map_negp_invol|]; reflexivity.
Qed.

Lemma clip0_negp l : clip0 (map negp l) = dmap neg (clip0 l).
Proof.
  induction l as [|p r IH]; [reflexivity|]. cbn [map clip0 flat_map]. fold (clip0 (map negp r)). fold (clip0 r). rewrite IH.
  change (ps (negp p)) with (ps p). change (pe (negp p)) with (pe p). change (pv (negp p)) with (neg (pv p)).
  unfold dmap. rewrite map_app. f_equal. destruct ((ps p <=? 0) && tlt (T 0) (pe p)); [reflexivity|]. destruct (0 <? ps p); reflexivity.
Qed.

Theorem alw_ev_dual (s : dsig) b e : alw_timed_op s b e = option_map (dmap neg) (ev_timed_op (dmap neg s) b e).
Proof.
  unfold alw_timed_op, ev_timed_op. change (fun x y : V => ltb y x) with gtb. rewrite fut_env_neg.
  destruct (fut_env ltb (dmap neg s) b e) as [out|]; cbn [option_map]; [|reflexivity]. f_equal. apply clip0_negp.
Qed.

Theorem good_alw_timed (s : dsig) b e F : 0 <= b -> b <= e -> good s 0 F ->
  exists out, alw_timed_op s b e = Some out /\ good out 0 (fun t => zmin F (t + b) (t + e)).
Proof.
  intros Hb Hbe G.
  destruct (good_ev_timed b e Hb Hbe (dmap neg s) (fun t => neg (F t)) (good_dmap neg s 0 F G)) as (out & E & Go).
  rewrite alw_ev_dual, E. cbn [option_map]. eexists. split; [reflexivity|].
  eapply good_ext; [apply (good_dmap neg out _ _ Go)|]. intros t Ht. cbn beta.
  rewrite neg_zmax. apply zmin_ext. intros u _. apply neg_invol.
Qed.

End FutDual.
