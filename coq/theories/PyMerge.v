(* PyMerge.v — the run-time library of tools/py2coq_merge.py, on top of PySem.v / PyDense.v: what the two functions
   intersection() (rtamt/semantics/stl/dense_time/{offline,online}/intersection.py) and their helper _append() need beyond the
   primitives of the other translators.
   * The result of a translated function is a THREE-valued [res]: [Ok x] (the code returns x), [Raise] (the code raises: the
     `raise RTAMTException`, an IndexError of l[i] / l.pop(0)), [NoFuel] (a `while` loop was cut after the number of iterations the
     translator allots to it while its condition still held).  NoFuel is not an outcome of the Python code: MergeGenCorrect.v
     proves that it does not occur (for the main loops: for every input; for the two tail loops of the online function, which
     have no final `else` and would spin for ever if no branch applied: whenever < and == on stamps are trichotomous).
   * [py_while_r fuel cond body s]: while cond: body.  The body returns the new state and whether it executed `break`.
   * a sample [t, v] is a pair; a variable that holds either [] or one sample is an option (PyDense.v). *)
From Coq Require Import List Bool Arith ZArith.
From RV Require Import Val Syntax PySem PyDense.
Import ListNotations.

Inductive res (A : Type) : Type := Ok (a : A) | Raise | NoFuel.
Arguments Ok {A} a.
Arguments Raise {A}.
Arguments NoFuel {A}.

Notation "x <-r e ;; k" := (match e with Ok x => k | Raise => Raise | NoFuel => NoFuel end)
  (at level 61, e at next level, right associativity, only parsing).
Notation "' p <-r e ;; k" := (match e with Ok p => k | Raise => Raise | NoFuel => NoFuel end)
  (at level 61, p pattern, e at next level, right associativity, only parsing).

(* an exception of a primitive of PySem.v / PyDense.v *)
Definition rlift {A : Type} (o : option A) : res A := match o with Some a => Ok a | None => Raise end.
Definition rmap {A B : Type} (f : A -> B) (r : res A) : res B := match r with Ok a => Ok (f a) | Raise => Raise | NoFuel => NoFuel end.
(* forgetting why there is no result *)
Definition res_opt {A : Type} (r : res A) : option A := match r with Ok a => Some a | _ => None end.

(* while cond: body   (body s = Ok (s', true): the body ended with `break`) *)
Fixpoint py_while_r {St : Type} (fuel : nat) (cond : St -> bool) (body : St -> res (St * bool)) (s : St) : res St :=
  if cond s then
    match fuel with
    | O => NoFuel
    | S n =>
        match body s with
        | Ok (s', brk) => if brk then Ok s' else py_while_r n cond body s'
        | Raise => Raise
        | NoFuel => NoFuel
        end
    end
  else Ok s.
