(* FloatLip.v — ShiftLaws (Lipschitz.v, second half of C07) decided for the float instance, with
   up x = x + eps, dn x = x - eps (IEEE, round-to-nearest-even) for one finite eps >= 0.

   TRUE  for floats : up_mono, dn_mono, dn_le, le_up, neg_up, abs_lip           (float_shift_core, float_abs_lip)
   FALSE for floats : sub_l, sub_r as soon as the admissible constants contain 2^53 (or any constant whose
                      difference with a sample is rounded): float_sub_l_refuted, float_sub_r_refuted, hence
                      float_shift_laws_refuted.  The subtraction of a constant is 1-Lipschitz only up to rounding.
   What does hold   : (a) all of ShiftLaws when the only admissible constant is 0 (float_shift_laws_zero);
                      (b) the subtraction is monotone in each argument, so the perturbed value lies between the values
                          at the two ends of the perturbation interval (float_sub_l_weak, float_sub_r_weak):
                          (x - eps) - c <= x' - c <= (x + eps) - c   instead of   (x - c) - eps <= x' - c <= (x - c) + eps. *)
From Coq Require Import ZArith Reals Bool Lia Lra List.
From Flocq Require Import Core Plus_error IEEE754.BinarySingleNaN.
From RV Require Import Val Syntax Rho Sat Lipschitz FloatVal FloatArith FloatLaws.
Import ListNotations.

Lemma Rabs_ge_opp x : (- x <= Rabs x)%R.
Proof. rewrite <- Rabs_Ropp. apply Rle_abs. Qed.

Section Shift.
Variable eps : fv.
Hypothesis eps_fin : f_fin eps.
Hypothesis eps_nonneg : f_leb f_zero eps = true.

Notation up := (f_up eps).
Notation dn := (f_dn eps).
Notation e := (fext eps).

Lemma e_nonneg : (0 <= e)%R.
Proof. apply f_leb_true in eps_nonneg. rewrite fext_zero in eps_nonneg. exact eps_nonneg. Qed.

Lemma up_cases x : (x = f_top /\ up x = f_top) \/ (x = f_bot /\ up x = f_bot) \/ (f_fin x /\ fext (up x) = cr (fext x + e)).
Proof.
  destruct (fv_cases x) as [->|[->|F]].
  - left. split; [reflexivity|]. apply f_add_top_fin. exact eps_fin.
  - right. left. split; [reflexivity|]. apply f_add_bot_fin. exact eps_fin.
  - right. right. split; [exact F|]. apply fext_add_fin; assumption.
Qed.
Lemma dn_cases x : (x = f_top /\ dn x = f_top) \/ (x = f_bot /\ dn x = f_bot) \/ (f_fin x /\ fext (dn x) = cr (fext x - e)).
Proof.
  destruct (fv_cases x) as [->|[->|F]].
  - left. split; [reflexivity|]. apply f_sub_top_fin. exact eps_fin.
  - right. left. split; [reflexivity|]. apply f_sub_bot_fin. exact eps_fin.
  - right. right. split; [exact F|]. apply fext_sub_fin; assumption.
Qed.

(* both shifts through ext, uniformly: the infinities are fixed points *)
Lemma fext_up x : fext (up x) = if fv_eq_dec x f_top then M else if fv_eq_dec x f_bot then (- M)%R else cr (fext x + e).
Proof.
  destruct (up_cases x) as [[-> ->]|[[-> ->]|[F E]]].
  - destruct (fv_eq_dec f_top f_top) as [_|N]; [reflexivity|exfalso; apply N; reflexivity].
  - destruct (fv_eq_dec f_bot f_top) as [A|_]; [discriminate (f_equal fval A)|].
    destruct (fv_eq_dec f_bot f_bot) as [_|N]; [reflexivity|exfalso; apply N; reflexivity].
  - destruct (fv_eq_dec x f_top) as [->|_]; [discriminate F|].
    destruct (fv_eq_dec x f_bot) as [->|_]; [discriminate F|]. exact E.
Qed.

Lemma f_up_mono x y : f_leb x y = true -> f_leb (up x) (up y) = true.
Proof.
  intros H.
  destruct (up_cases x) as [[-> ->]|[[-> ->]|[Fx Ex]]]; destruct (up_cases y) as [[-> ->]|[[-> ->]|[Fy Ey]]];
    try reflexivity; try discriminate H; try apply f_leb_fin_top; try apply f_leb_bot_fin.
  - rewrite (f_leb_top_fin _ Fy) in H. discriminate H.
  - rewrite (f_leb_fin_bot _ Fx) in H. discriminate H.
  - apply f_leb_true in H. apply f_leb_true. rewrite Ex, Ey. apply cr_mono. lra.
Qed.
Lemma f_dn_mono x y : f_leb x y = true -> f_leb (dn x) (dn y) = true.
Proof.
  intros H.
  destruct (dn_cases x) as [[-> ->]|[[-> ->]|[Fx Ex]]]; destruct (dn_cases y) as [[-> ->]|[[-> ->]|[Fy Ey]]];
    try reflexivity; try discriminate H; try apply f_leb_fin_top; try apply f_leb_bot_fin.
  - rewrite (f_leb_top_fin _ Fy) in H. discriminate H.
  - rewrite (f_leb_fin_bot _ Fx) in H. discriminate H.
  - apply f_leb_true in H. apply f_leb_true. rewrite Ex, Ey. apply cr_mono. lra.
Qed.

Lemma cr_self x : f_fin x -> cr (fext x) = fext x.
Proof.
  intros F. apply cr_format; [apply fext_format; exact F|]. pose proof (fext_fin_lt x F). lra.
Qed.

Lemma f_dn_le x : f_leb (dn x) x = true.
Proof.
  destruct (dn_cases x) as [[-> ->]|[[-> ->]|[Fx Ex]]]; try reflexivity.
  apply f_leb_true. rewrite Ex. rewrite <- (cr_self x Fx) at 2. apply cr_mono. pose proof e_nonneg. lra.
Qed.
Lemma f_le_up x : f_leb x (up x) = true.
Proof.
  destruct (up_cases x) as [[-> ->]|[[-> ->]|[Fx Ex]]]; try reflexivity.
  apply f_leb_true. rewrite Ex. rewrite <- (cr_self x Fx) at 1. apply cr_mono. pose proof e_nonneg. lra.
Qed.
Lemma f_neg_up x : f_neg (up x) = dn (f_neg x).
Proof.
  destruct (up_cases x) as [[-> ->]|[[-> ->]|[Fx Ex]]].
  - rewrite f_neg_top. symmetry. apply f_sub_bot_fin. exact eps_fin.
  - rewrite f_neg_bot. symmetry. apply f_sub_top_fin. exact eps_fin.
  - apply fext_inj. rewrite fext_neg, Ex.
    destruct (dn_cases (f_neg x)) as [[A _]|[[A _]|[_ ->]]].
    + pose proof (f_neg_fin x Fx) as G. rewrite A in G. discriminate G.
    + pose proof (f_neg_fin x Fx) as G. rewrite A in G. discriminate G.
    + rewrite fext_neg, <- cr_opp. f_equal. lra.
Qed.

Lemma f_neg_dn x : up (f_neg x) = f_neg (dn x).
Proof.
  rewrite <- (@neg_invol FloatVal (up (f_neg x))). change (@neg FloatVal) with f_neg.
  rewrite f_neg_up. f_equal. f_equal. apply (@neg_invol FloatVal).
Qed.

(* abs is 1-Lipschitz even with rounding: it is exact, and rounding is monotone and odd *)
Lemma f_abs_fin v : f_fin v -> f_fin (f_abs v).
Proof. destruct v as [[s|s| |s m ex H] C]; intros F; try discriminate F; reflexivity. Qed.
Lemma f_abs_top : f_abs f_top = f_top. Proof. apply fv_eq. reflexivity. Qed.
Lemma f_abs_bot : f_abs f_bot = f_top. Proof. apply fv_eq. reflexivity. Qed.

Lemma f_abs_lip v v' : f_leb (dn v) v' = true -> f_leb v' (up v) = true ->
  f_leb (dn (f_abs v)) (f_abs v') = true /\ f_leb (f_abs v') (up (f_abs v)) = true.
Proof.
  intros H1 H2. pose proof M_pos as P.
  destruct (fv_cases v) as [->|[->|Fv]].
  - destruct (dn_cases f_top) as [[_ E]|[[A _]|[A _]]]; [|discriminate (f_equal fval A)|discriminate A].
    rewrite E in H1. assert (v' = f_top) as -> by (apply (@leb_antisym FloatVal); [apply f_leb_fin_top|exact H1]).
    rewrite f_abs_top. split; [apply f_dn_le|apply f_le_up].
  - destruct (up_cases f_bot) as [[A _]|[[_ E]|[A _]]]; [discriminate (f_equal fval A)| |discriminate A].
    rewrite E in H2. assert (v' = f_bot) as -> by (apply (@leb_antisym FloatVal); [exact H2|apply f_leb_bot_fin]).
    rewrite f_abs_bot. split; [apply f_dn_le|apply f_le_up].
  - destruct (dn_cases v) as [[A _]|[[A _]|[_ Ed]]]; [rewrite A in Fv; discriminate Fv|rewrite A in Fv; discriminate Fv|].
    destruct (up_cases v) as [[A _]|[[A _]|[_ Eu]]]; [rewrite A in Fv; discriminate Fv|rewrite A in Fv; discriminate Fv|].
    pose proof (f_abs_fin v Fv) as Fa.
    destruct (dn_cases (f_abs v)) as [[A _]|[[A _]|[_ Ead]]]; [rewrite A in Fa; discriminate Fa|rewrite A in Fa; discriminate Fa|].
    destruct (up_cases (f_abs v)) as [[A _]|[[A _]|[_ Eau]]]; [rewrite A in Fa; discriminate Fa|rewrite A in Fa; discriminate Fa|].
    apply f_leb_true in H1, H2. rewrite Ed in H1. rewrite Eu in H2.
    split; apply f_leb_true; rewrite ?Ead, ?Eau, !fext_abs.
    + destruct (Rle_or_lt 0 (fext v)) as [S|S].
      * rewrite (Rabs_pos_eq (fext v)) by exact S. eapply Rle_trans; [exact H1|apply Rle_abs].
      * rewrite (Rabs_left (fext v)) by exact S.
        replace (- fext v - e)%R with (- (fext v + e))%R by lra. rewrite cr_opp.
        eapply Rle_trans; [|apply Rabs_ge_opp]. lra.
    + apply Rabs_le. split.
      * assert (G : (cr (fext v - e) >= - cr (Rabs (fext v) + e))%R).
        { rewrite <- cr_opp. apply Rle_ge. apply cr_mono. pose proof (Rabs_ge_opp (fext v)). lra. }
        lra.
      * eapply Rle_trans; [exact H2|]. apply cr_mono. pose proof (Rle_abs (fext v)). lra.
Qed.

Variables (u_exp u_ln : fv -> fv) (u_pow u_log : fv -> fv -> fv).
Notation FA := (FloatArith u_exp u_ln u_pow u_log).

(* the five order fields and the abs field of ShiftLaws hold for every finite eps >= 0 *)
Theorem float_shift_core :
  (forall x y, f_leb x y = true -> f_leb (up x) (up y) = true) /\
  (forall x y, f_leb x y = true -> f_leb (dn x) (dn y) = true) /\
  (forall x, f_leb (dn x) x = true) /\
  (forall x, f_leb x (up x) = true) /\
  (forall x, f_neg (up x) = dn (f_neg x)) /\
  (forall v v', f_leb (dn v) v' = true -> f_leb v' (up v) = true ->
      f_leb (dn (f_abs v)) (f_abs v') = true /\ f_leb (f_abs v') (up (f_abs v)) = true).
Proof.
  repeat split; [apply f_up_mono|apply f_dn_mono|apply f_dn_le|apply f_le_up|apply f_neg_up| |]; intros; apply f_abs_lip; assumption.
Qed.

(* (a) with 0 as the only admissible constant everything holds: x - 0 = x and 0 - x = -x exactly *)
Lemma f_sub_zero_r x : f_sub x f_zero = x.
Proof.
  destruct x as [[[|]|s| |s m ex H] C]; try discriminate C; apply fv_eq; reflexivity.
Qed.
Lemma f_sub_zero_l x : f_sub f_zero x = f_neg x.
Proof.
  destruct x as [[[|]|s| |s m ex H] C]; try discriminate C; apply fv_eq; reflexivity.
Qed.

Theorem float_shift_laws_zero : ShiftLaws FA up dn (fun c => c = f_zero).
Proof.
  constructor.
  - exact f_up_mono.
  - exact f_dn_mono.
  - exact f_dn_le.
  - exact f_le_up.
  - exact f_neg_up.
  - intros x x' c -> H1 H2. change (a2 FA Sub) with f_sub. rewrite !f_sub_zero_r. split; assumption.
  - intros x x' c -> H1 H2. change (a2 FA Sub) with f_sub. rewrite !f_sub_zero_l. split.
    + rewrite <- f_neg_up. apply (@neg_anti FloatVal). exact H2.
    + rewrite f_neg_dn. apply (@neg_anti FloatVal). exact H1.
  - exact f_abs_lip.
Qed.

(* (b) the subtraction is monotone in its first and antitone in its second argument (rounding is monotone) *)
End Shift.

Lemma f_sub_mono_l c x y : f_fin c -> f_leb x y = true -> f_leb (f_sub x c) (f_sub y c) = true.
Proof.
  intros Fc H.
  destruct (fv_cases x) as [->|[->|Fx]]; destruct (fv_cases y) as [->|[->|Fy]];
    rewrite ?(f_sub_top_fin _ Fc), ?(f_sub_bot_fin _ Fc); try reflexivity; try discriminate H;
    try apply f_leb_fin_top; try apply f_leb_bot_fin.
  - rewrite (f_leb_top_fin _ Fy) in H. discriminate H.
  - rewrite (f_leb_fin_bot _ Fx) in H. discriminate H.
  - apply f_leb_true in H. apply f_leb_true. rewrite !fext_sub_fin by assumption. apply cr_mono. lra.
Qed.
Lemma f_sub_anti_r c x y : f_fin c -> f_leb x y = true -> f_leb (f_sub c y) (f_sub c x) = true.
Proof.
  intros Fc H. rewrite <- (f_sub_neg y c), <- (f_sub_neg x c). apply (@neg_anti FloatVal).
  apply f_sub_mono_l; assumption.
Qed.

Theorem float_sub_l_weak eps x x' c : f_fin c -> f_leb (f_dn eps x) x' = true -> f_leb x' (f_up eps x) = true ->
  f_leb (f_sub (f_dn eps x) c) (f_sub x' c) = true /\ f_leb (f_sub x' c) (f_sub (f_up eps x) c) = true.
Proof. intros Fc H1 H2. split; apply f_sub_mono_l; assumption. Qed.
Theorem float_sub_r_weak eps x x' c : f_fin c -> f_leb (f_dn eps x) x' = true -> f_leb x' (f_up eps x) = true ->
  f_leb (f_sub c (f_up eps x)) (f_sub c x') = true /\ f_leb (f_sub c x') (f_sub c (f_dn eps x)) = true.
Proof. intros Fc H1 H2. split; apply f_sub_anti_r; assumption. Qed.

(* (c) the VERDICT of one non-strict predicate against any finite constant is robust although the Lipschitz bound is not:
   if 0 < (x - c) - eps (all IEEE) and x' >= x - eps then x' >= c; if 0 < (c - x) - eps and x' <= x + eps then x' <= c.
   (For strict predicates this fails: C07_robust_float_refuted in Props/FloatInstance.v.) *)
Lemma cr_self' x : f_fin x -> cr (fext x) = fext x.
Proof. intros F. apply cr_format; [apply fext_format; exact F|]. pose proof (fext_fin_lt x F). lra. Qed.

Theorem float_geq_verdict eps x x' c : f_fin eps -> f_fin c ->
  f_leb (f_dn eps x) x' = true -> @ltb FloatVal f_zero (f_dn eps (f_sub x c)) = true -> f_leb c x' = true.
Proof.
  intros Fe Fc H1 H. unfold ltb, f_dn in H. change (@Val.leb FloatVal) with f_leb in H.
  rewrite f_sub_le_zero in H. apply negb_true_iff in H. apply f_leb_false in H.
  destruct (fv_cases x) as [->|[->|Fx]].
  - unfold f_dn in H1. rewrite (f_sub_top_fin _ Fe) in H1.
    assert (x' = f_top) as -> by (apply (@leb_antisym FloatVal); [apply f_leb_fin_top|exact H1]). apply f_leb_fin_top.
  - rewrite (f_sub_bot_fin _ Fc), fext_bot in H. pose proof (fext_fin_lt eps Fe). lra.
  - rewrite (fext_sub_fin _ _ Fx Fc) in H.
    assert (G : (fext eps < fext x - fext c)%R).
    { destruct (Rle_or_lt (fext x - fext c) (fext eps)) as [L|L]; [|exact L]. exfalso.
      apply cr_mono in L. rewrite (cr_self' eps Fe) in L. lra. }
    apply f_leb_true in H1. apply f_leb_true. unfold f_dn in H1. rewrite (fext_sub_fin _ _ Fx Fe) in H1.
    eapply Rle_trans; [|exact H1]. rewrite <- (cr_self' c Fc). apply cr_mono. lra.
Qed.
Theorem float_leq_verdict eps x x' c : f_fin eps -> f_fin c ->
  f_leb x' (f_up eps x) = true -> @ltb FloatVal f_zero (f_dn eps (f_sub c x)) = true -> f_leb x' c = true.
Proof.
  intros Fe Fc H1 H. unfold ltb, f_dn in H. change (@Val.leb FloatVal) with f_leb in H.
  rewrite f_sub_le_zero in H. apply negb_true_iff in H. apply f_leb_false in H.
  destruct (fv_cases x) as [->|[->|Fx]].
  - rewrite (f_sub_fin_top _ Fc), fext_bot in H. pose proof (fext_fin_lt eps Fe). lra.
  - unfold f_up in H1. rewrite (f_add_bot_fin _ Fe) in H1.
    assert (x' = f_bot) as -> by (apply (@leb_antisym FloatVal); [exact H1|apply f_leb_bot_fin]). apply f_leb_bot_fin.
  - rewrite (fext_sub_fin _ _ Fc Fx) in H.
    assert (G : (fext eps < fext c - fext x)%R).
    { destruct (Rle_or_lt (fext c - fext x) (fext eps)) as [L|L]; [|exact L]. exfalso.
      apply cr_mono in L. rewrite (cr_self' eps Fe) in L. lra. }
    apply f_leb_true in H1. apply f_leb_true. unfold f_up in H1. rewrite (fext_add_fin _ _ Fx Fe) in H1.
    eapply Rle_trans; [exact H1|]. rewrite <- (cr_self' c Fc). apply cr_mono. lra.
Qed.

(* ---- the two subtraction fields are FALSE for floats: binary64 witnesses, checked by computation ---- *)
Definition fl (s : bool) (m : positive) (ex : Z) : fv := mk (of_datum (DFin s m ex)).
Definition fdat (a : fv) : fdatum := datum_of (fval a).
Definition fl_0 : fv := f_zero.
Definition fl_1 : fv := fl false 4503599627370496 (-52).        (* 1.0 *)
Definition fl_2 : fv := fl false 4503599627370496 (-51).        (* 2.0 *)
Definition fl_m2p53 : fv := fl true 4503599627370496 1.         (* -2^53 = -9007199254740992.0 *)
Definition fl_2p53 : fv := fl false 4503599627370496 1.         (* 2^53 *)
Definition fl_2p53p2 : fv := fl false 4503599627370497 1.       (* 2^53 + 2 *)

(* eps = 1, x = 1, x' = 2 = x + eps, c = -2^53:  x - c = 2^53 + 1 rounds (ties-to-even) DOWN to 2^53, (x - c) + eps rounds to 2^53 again,
   but x' - c = 2^53 + 2 is exact: the perturbed difference exceeds "difference + eps". *)
Example float_sub_l_refuted :
  f_fin fl_m2p53 /\ f_fin fl_1 /\ f_leb f_zero fl_1 = true /\
  f_leb (f_dn fl_1 fl_1) fl_2 = true /\ f_leb fl_2 (f_up fl_1 fl_1) = true /\
  fdat (f_sub fl_1 fl_m2p53) = fdat fl_2p53 /\ fdat (f_up fl_1 (f_sub fl_1 fl_m2p53)) = fdat fl_2p53 /\ fdat (f_sub fl_2 fl_m2p53) = fdat fl_2p53p2 /\
  f_leb (f_sub fl_2 fl_m2p53) (f_up fl_1 (f_sub fl_1 fl_m2p53)) = false.
Proof. repeat split; vm_compute; reflexivity. Qed.

(* eps = 1, x = 1, x' = 0 = x - eps, c = 2^53 + 2:  c - x = 2^53 + 1 rounds to 2^53, (c - x) + eps = 2^53 + 1 rounds to 2^53,
   but c - x' = 2^53 + 2. *)
Example float_sub_r_refuted :
  f_fin fl_2p53p2 /\
  f_leb (f_dn fl_1 fl_1) fl_0 = true /\ f_leb fl_0 (f_up fl_1 fl_1) = true /\
  f_leb (f_sub fl_2p53p2 fl_0) (f_up fl_1 (f_sub fl_2p53p2 fl_1)) = false.
Proof. repeat split; vm_compute; reflexivity. Qed.

Theorem float_shift_laws_refuted (u_exp u_ln : fv -> fv) (u_pow u_log : fv -> fv -> fv) :
  ~ ShiftLaws (FloatArith u_exp u_ln u_pow u_log) (f_up fl_1) (f_dn fl_1) f_fin.
Proof.
  intros SH.
  destruct float_sub_l_refuted as [Fc [_ [_ [H1 [H2 [_ [_ [_ N]]]]]]]].
  destruct (sub_l _ _ _ _ SH fl_1 fl_2 fl_m2p53 Fc H1 H2) as [_ G].
  change (a2 (FloatArith u_exp u_ln u_pow u_log) Sub) with f_sub in G.
  change (@Val.leb FloatVal) with f_leb in G. rewrite N in G. discriminate G.
Qed.
