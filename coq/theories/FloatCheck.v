(* FloatCheck.v — executable comparison of the float instance with values observed on CPython (harness/float_check.py
   generates build/float_cases/cases_*.v, which evaluate [bad_cases] with vm_compute; the expected output is []).
   Two levels: raw (Flocq's IEEE operation against Python's result, sign of zero and NaN included) and carrier
   (FloatArith on the canonical representatives against the normalised Python result, and the ok-domain). *)
From Coq Require Import ZArith List Bool.
From Flocq Require Import Core IEEE754.BinarySingleNaN.
From RV Require Import Val FloatVal FloatArith.
Import ListNotations.

Definition datum_eqb (a b : fdatum) : bool :=
  match a, b with
  | DNan, DNan => true
  | DInf s, DInf s' => Bool.eqb s s'
  | DZero s, DZero s' => Bool.eqb s s'
  | DFin s m e, DFin s' m' e' => Bool.eqb s s' && Pos.eqb m m' && Z.eqb e e'
  | _, _ => false
  end.

Definition datum_norm (d : fdatum) : fdatum := match d with DZero _ => DZero false | DNan => DZero false | _ => d end.
Definition is_dnan (d : fdatum) : bool := match d with DNan => true | _ => false end.

(* one observation: operands, x <= y, -x, x + y, x - y, x * y, x / y (DNan when Python raised), "x / y raised",
   abs x, sqrt x (DNan when Python raised), "sqrt raised" *)
Record obs := { ox : fdatum; oy : fdatum; o_le : bool; o_neg : fdatum; o_add : fdatum; o_sub : fdatum; o_mul : fdatum;
                o_div : fdatum; o_div_raised : bool; o_abs : fdatum; o_sqrt : fdatum; o_sqrt_raised : bool; o_do_sqrt : bool }.

Definition idf (a : fv) : fv := a.
Definition cstf (a b : fv) : fv := a.
Definition FAc : Arith FloatVal := FloatArith idf idf cstf cstf.

(* carrier level for one binary operation: inside the ok-domain the representative of Python's result; outside it +0 when
   the IEEE result is NaN, and no comparison where Python raises (x / 0: the model keeps the IEEE value, a placeholder) *)
Definition chk2 (o : aop2) (x y : bf) (expect : fdatum) (raised : bool) : bool :=
  let ok := b_ok2 o x y in
  Bool.eqb ok (negb (is_dnan expect) && negb raised) &&
  (if ok then datum_eqb (datum_of (fval (a2 FAc o (mk x) (mk y)))) (datum_norm expect)
   else if raised then true else datum_eqb (datum_of (fval (a2 FAc o (mk x) (mk y)))) (DZero false)).
Definition chk1 (o : aop1) (x : bf) (expect : fdatum) (raised : bool) : bool :=
  let ok := b_ok1 o x in
  Bool.eqb ok (negb (is_dnan expect) && negb raised) &&
  (if ok then datum_eqb (datum_of (fval (a1 FAc o (mk x)))) (datum_norm expect)
   else datum_eqb (datum_of (fval (a1 FAc o (mk x)))) (DZero false)).

Definition check_obs (c : obs) : bool :=
  let x := of_datum (ox c) in let y := of_datum (oy c) in
  (* the operands are valid, canonical IEEE data and survive the round trip *)
  datum_eqb (datum_of x) (ox c) && datum_eqb (datum_of y) (oy c) &&
  (* raw level *)
  Bool.eqb (Bleb x y) (o_le c) &&
  datum_eqb (datum_of (Bopp x)) (o_neg c) &&
  datum_eqb (datum_of (Bplus mode_NE x y)) (o_add c) &&
  datum_eqb (datum_of (Bminus mode_NE x y)) (o_sub c) &&
  datum_eqb (datum_of (Bmult mode_NE x y)) (o_mul c) &&
  (if o_div_raised c then is_zero y else datum_eqb (datum_of (Bdiv mode_NE x y)) (o_div c)) &&
  datum_eqb (datum_of (Babs x)) (o_abs c) &&
  (if o_do_sqrt c then if o_sqrt_raised c then is_nan (Bsqrt mode_NE x) else datum_eqb (datum_of (Bsqrt mode_NE x)) (o_sqrt c) else true) &&
  (* carrier level *)
  Bool.eqb (@Val.leb FloatVal (mk x) (mk y)) (o_le c) &&
  datum_eqb (datum_of (fval (@neg FloatVal (mk x)))) (datum_norm (o_neg c)) &&
  chk2 Add x y (o_add c) false && chk2 Sub x y (o_sub c) false && chk2 Mul x y (o_mul c) false &&
  chk2 Div x y (o_div c) (o_div_raised c) &&
  chk1 Abs x (o_abs c) false && chk1 Neg x (o_neg c) false &&
  (if o_do_sqrt c then chk1 Sqrt x (o_sqrt c) (o_sqrt_raised c) else true).

Fixpoint bad_from (i : nat) (l : list obs) : list nat :=
  match l with
  | [] => []
  | c :: r => if check_obs c then bad_from (S i) r else i :: bad_from (S i) r
  end.
Definition bad_cases (l : list obs) : list nat := bad_from 0 l.
