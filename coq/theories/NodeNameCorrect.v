(* NodeNameCorrect.v — rtamt's node names are unambiguous: two syntax nodes with
   the same name are the same node (class by class, leaf by leaf, bound by
   bound), hence denote the same formula of the monitors' models.  The online
   monitors key their operation objects by node.name; the Coq models key them
   by the formula: this file discharges the assumption that connects the two.

   Structure: (1) a run of characters of one kind that is followed by a
   character of another kind is determined by the text ([run_unique]);
   (2) generic bracketed terms [gt] (leaf / kw(..) / kw[..](..) / kw(..,..) /
   (..)kw(..) / (..)kw[..](..)) print unambiguously ([gch_inj]: the
   generalisation "name ++ rest, where rest starts with ')' or ','");
   (3) every node class is an instance ([to_gt], injective because the keyword
   tables and the leaf / interval texts are). *)
From Coq Require Import List Bool Arith NArith ZArith QArith Ascii String DecimalString DecimalN Decimal Lia.
From RV Require Import Val Syntax Lexer Offline Units NodeName.
Import ListNotations.
Local Open Scope char_scope.

(* ------------------------------------------------------------------ strings as lists of characters *)
Lemma to_chars_app (a b : string) : to_chars (a ++ b)%string = to_chars a ++ to_chars b.
Proof. induction a as [|c a IH]; simpl; [reflexivity|rewrite IH; reflexivity]. Qed.

Lemma to_chars_inj (a b : string) : to_chars a = to_chars b -> a = b.
Proof.
  revert b. induction a as [|c a IH]; intros [|d b] H; simpl in H; try discriminate; [reflexivity|].
  injection H as -> H. f_equal. apply IH. exact H.
Qed.

Lemma to_of_chars (l : chars) : to_chars (of_chars l) = l.
Proof. induction l as [|c l IH]; simpl; [reflexivity|rewrite IH; reflexivity]. Qed.

(* ------------------------------------------------------------------ runs *)
(* r is empty or starts with a character outside P *)
Definition ends (P : ascii -> bool) (r : chars) : Prop :=
  match r with [] => True | c :: _ => P c = false end.

Lemma run_unique (P : ascii -> bool) (a1 a2 r1 r2 : chars) :
  forallb P a1 = true -> forallb P a2 = true -> ends P r1 -> ends P r2 ->
  a1 ++ r1 = a2 ++ r2 -> a1 = a2 /\ r1 = r2.
Proof.
  revert a2. induction a1 as [|c a1 IH]; intros [|d a2] H1 H2 E1 E2 H; simpl in *.
  - split; [reflexivity|exact H].
  - subst r1. simpl in E1. apply andb_prop in H2. destruct H2 as [H2 _]. congruence.
  - subst r2. simpl in E2. apply andb_prop in H1. destruct H1 as [H1 _]. congruence.
  - injection H as -> H. apply andb_prop in H1. destruct H1 as [_ H1]. apply andb_prop in H2. destruct H2 as [_ H2].
    destruct (IH a2 H1 H2 E1 E2 H) as [-> ->]. split; reflexivity.
Qed.

Lemma forallb_app_true {A} (f : A -> bool) (l1 l2 : list A) :
  forallb f l1 = true -> forallb f l2 = true -> forallb f (l1 ++ l2) = true.
Proof. intros H1 H2. rewrite forallb_app, H1, H2. reflexivity. Qed.

Lemma forallb_impl {A} (f g : A -> bool) (l : list A) :
  (forall x, f x = true -> g x = true) -> forallb f l = true -> forallb g l = true.
Proof.
  intros Hfg. induction l as [|x l IH]; simpl; [reflexivity|]. intros H. apply andb_prop in H. destruct H as [Hx Hl].
  rewrite (Hfg x Hx), (IH Hl). reflexivity.
Qed.

(* ------------------------------------------------------------------ generic bracketed terms *)
Inductive gt :=
| GLeaf (s : chars)
| GPre1 (k : chars) (iv : option chars) (c : gt)
| GPre2 (k : chars) (c1 c2 : gt)
| GIn (k : chars) (iv : option chars) (c1 c2 : gt).

(* what follows a keyword: '(' or '[' interval '](' *)
Definition iv_ch (iv : option chars) (r : chars) : chars :=
  match iv with None => "(" :: r | Some t => "[" :: t ++ "]" :: "(" :: r end.

(* the text of g followed by r *)
Fixpoint gch (g : gt) (r : chars) : chars :=
  match g with
  | GLeaf s => s ++ r
  | GPre1 k iv c => k ++ iv_ch iv (gch c (")" :: r))
  | GPre2 k c1 c2 => k ++ "(" :: gch c1 ("," :: gch c2 (")" :: r))
  | GIn k iv c1 c2 => "(" :: gch c1 (")" :: k ++ iv_ch iv (gch c2 (")" :: r)))
  end.

Definition notp (c : ascii) : bool := negb (special c).
Definition nobr (c : ascii) : bool := negb (Ascii.eqb c "]").
Definition iv_ok (iv : option chars) : bool := match iv with None => true | Some t => forallb nobr t end.
Definition nonnil (k : chars) : bool := match k with [] => false | _ => true end.

Fixpoint gwf (g : gt) : bool :=
  match g with
  | GLeaf s => forallb notp s
  | GPre1 k iv c => forallb notp k && nonnil k && iv_ok iv && gwf c
  | GPre2 k c1 c2 => forallb notp k && nonnil k && gwf c1 && gwf c2
  | GIn k iv c1 c2 => forallb notp k && iv_ok iv && gwf c1 && gwf c2
  end.

(* what may follow a name inside a name (or nothing, at the top) *)
Definition stop (r : chars) : Prop :=
  match r with [] => True | c :: _ => c = ")" \/ c = "," end.

Lemma stop_rp x : stop (")" :: x).
Proof. left. reflexivity. Qed.
Lemma stop_cm x : stop ("," :: x).
Proof. right. reflexivity. Qed.

Lemma stop_ends r : stop r -> ends notp r.
Proof. destruct r as [|c r]; simpl; [trivial|]. intros [->| ->]; reflexivity. Qed.

Lemma iv_ch_ends iv r : ends notp (iv_ch iv r).
Proof. destruct iv; reflexivity. Qed.

Lemma iv_ch_not_stop iv r : ~ stop (iv_ch iv r).
Proof. destruct iv; simpl; intros [H|H]; discriminate. Qed.

Lemma iv_ch_inj iv1 iv2 r1 r2 :
  iv_ok iv1 = true -> iv_ok iv2 = true -> iv_ch iv1 r1 = iv_ch iv2 r2 -> iv1 = iv2 /\ r1 = r2.
Proof.
  destruct iv1 as [t1|], iv2 as [t2|]; simpl; intros H1 H2 H; try discriminate.
  - injection H as H.
    destruct (run_unique nobr t1 t2 ("]" :: "(" :: r1) ("]" :: "(" :: r2) H1 H2 eq_refl eq_refl H) as [-> H'].
    injection H' as ->. split; reflexivity.
  - injection H as ->. split; reflexivity.
Qed.

(* keyword then bracket: both are determined *)
Lemma kw_iv_inj k1 k2 iv1 iv2 r1 r2 :
  forallb notp k1 = true -> forallb notp k2 = true -> iv_ok iv1 = true -> iv_ok iv2 = true ->
  k1 ++ iv_ch iv1 r1 = k2 ++ iv_ch iv2 r2 -> k1 = k2 /\ iv1 = iv2 /\ r1 = r2.
Proof.
  intros Hk1 Hk2 Hi1 Hi2 H.
  destruct (run_unique notp k1 k2 _ _ Hk1 Hk2 (iv_ch_ends iv1 r1) (iv_ch_ends iv2 r2) H) as [-> H'].
  destruct (iv_ch_inj _ _ _ _ Hi1 Hi2 H') as [-> ->]. repeat split.
Qed.

Ltac split_andb :=
  repeat match goal with
  | H : _ && _ = true |- _ => apply andb_prop in H; destruct H
  end.

(* a leaf followed by a stop is never the beginning of "kw(" / "kw[" / "(" *)
Lemma leaf_vs_open s r k iv x :
  forallb notp s = true -> forallb notp k = true -> stop r -> s ++ r = k ++ iv_ch iv x -> False.
Proof.
  intros Hs Hk Hr H.
  destruct (run_unique notp s k _ _ Hs Hk (stop_ends r Hr) (iv_ch_ends iv x) H) as [_ H'].
  subst r. exact (iv_ch_not_stop iv x Hr).
Qed.

Lemma nonnil_vs_paren k x y : forallb notp k = true -> nonnil k = true -> k ++ x = "(" :: y -> False.
Proof.
  destruct k as [|c k]; simpl; intros Hk Hn H; [discriminate|]. injection H as -> _.
  apply andb_prop in Hk. destruct Hk as [Hk _]. discriminate.
Qed.

Theorem gch_inj : forall g1 g2 r1 r2,
  gwf g1 = true -> gwf g2 = true -> stop r1 -> stop r2 ->
  gch g1 r1 = gch g2 r2 -> g1 = g2 /\ r1 = r2.
Proof.
  induction g1 as [s1|k1 iv1 c1 IHc|k1 c1 IHc1 d1 IHd1|k1 iv1 c1 IHc1 d1 IHd1];
    intros [s2|k2 iv2 c2|k2 c2 d2|k2 iv2 c2 d2] r1 r2 W1 W2 S1 S2 H; simpl in W1, W2, H; split_andb.
  - (* leaf / leaf *)
    destruct (run_unique notp s1 s2 r1 r2 W1 W2 (stop_ends _ S1) (stop_ends _ S2) H) as [-> ->]. split; reflexivity.
  - exfalso. apply (leaf_vs_open s1 r1 k2 iv2 _ ltac:(assumption) ltac:(assumption) S1 H).
  - exfalso. apply (leaf_vs_open s1 r1 k2 None _ ltac:(assumption) ltac:(assumption) S1 H).
  - exfalso. apply (leaf_vs_open s1 r1 [] None _ ltac:(assumption) eq_refl S1 H).
  - exfalso. symmetry in H. apply (leaf_vs_open s2 r2 k1 iv1 _ ltac:(assumption) ltac:(assumption) S2 H).
  - (* pre1 / pre1 *)
    destruct (kw_iv_inj k1 k2 iv1 iv2 _ _ ltac:(assumption) ltac:(assumption) ltac:(assumption) ltac:(assumption) H) as [-> [-> H']].
    destruct (IHc c2 (")" :: r1) (")" :: r2) ltac:(assumption) ltac:(assumption) (stop_rp _) (stop_rp _) H') as [-> E].
    injection E as ->. split; reflexivity.
  - (* pre1 / pre2 *)
    exfalso. destruct (kw_iv_inj k1 k2 iv1 None _ _ ltac:(assumption) ltac:(assumption) ltac:(assumption) eq_refl H) as [_ [_ H']].
    destruct (IHc c2 (")" :: r1) ("," :: gch d2 (")" :: r2)) ltac:(assumption) ltac:(assumption) (stop_rp _) (stop_cm _) H') as [_ E].
    discriminate.
  - exfalso. apply (nonnil_vs_paren k1 _ _ ltac:(assumption) ltac:(assumption) H).
  - exfalso. symmetry in H. apply (leaf_vs_open s2 r2 k1 None _ ltac:(assumption) ltac:(assumption) S2 H).
  - (* pre2 / pre1 *)
    exfalso. symmetry in H.
    destruct (kw_iv_inj k2 k1 iv2 None _ _ ltac:(assumption) ltac:(assumption) ltac:(assumption) eq_refl H) as [_ [_ H']].
    symmetry in H'.
    destruct (IHc1 c2 ("," :: gch d1 (")" :: r1)) (")" :: r2) ltac:(assumption) ltac:(assumption) (stop_cm _) (stop_rp _) H') as [_ E].
    discriminate.
  - (* pre2 / pre2 *)
    destruct (kw_iv_inj k1 k2 None None _ _ ltac:(assumption) ltac:(assumption) eq_refl eq_refl H) as [-> [_ H']].
    destruct (IHc1 c2 _ _ ltac:(assumption) ltac:(assumption) (stop_cm _) (stop_cm _) H') as [-> E].
    injection E as E.
    destruct (IHd1 d2 _ _ ltac:(assumption) ltac:(assumption) (stop_rp _) (stop_rp _) E) as [-> E'].
    injection E' as ->. split; reflexivity.
  - exfalso. apply (nonnil_vs_paren k1 _ _ ltac:(assumption) ltac:(assumption) H).
  - exfalso. symmetry in H. apply (leaf_vs_open s2 r2 [] None _ ltac:(assumption) eq_refl S2 H).
  - exfalso. symmetry in H. apply (nonnil_vs_paren k2 _ _ ltac:(assumption) ltac:(assumption) H).
  - exfalso. symmetry in H. apply (nonnil_vs_paren k2 _ _ ltac:(assumption) ltac:(assumption) H).
  - (* in / in *)
    injection H as H.
    destruct (IHc1 c2 _ _ ltac:(assumption) ltac:(assumption) (stop_rp _) (stop_rp _) H) as [-> E].
    injection E as E.
    destruct (kw_iv_inj k1 k2 iv1 iv2 _ _ ltac:(assumption) ltac:(assumption) ltac:(assumption) ltac:(assumption) E) as [-> [-> E']].
    destruct (IHd1 d2 _ _ ltac:(assumption) ltac:(assumption) (stop_rp _) (stop_rp _) E') as [-> E''].
    injection E'' as ->. split; reflexivity.
Qed.

Lemma gch_app g : forall r, gch g r = gch g [] ++ r.
Proof.
  induction g as [s|k iv c IH|k c1 IH1 c2 IH2|k iv c1 IH1 c2 IH2]; intros r; simpl.
  - rewrite app_nil_r. reflexivity.
  - rewrite (IH (")" :: r)), (IH [")"]). destruct iv as [t|]; simpl;
      repeat (rewrite <- ?app_assoc; simpl); reflexivity.
  - rewrite (IH2 (")" :: r)), (IH2 [")"]), (IH1 ("," :: _)), (IH1 ("," :: gch c2 [] ++ [")"])).
    repeat (rewrite <- ?app_assoc; simpl). reflexivity.
  - rewrite (IH2 (")" :: r)), (IH2 [")"]), (IH1 (")" :: _)), (IH1 (")" :: k ++ iv_ch iv (gch c2 [] ++ [")"]))).
    destruct iv as [t|]; simpl; repeat (rewrite <- ?app_assoc; simpl); reflexivity.
Qed.

(* ------------------------------------------------------------------ character classes *)
Ltac by_cases_on_ascii := intros [[] [] [] [] [] [] [] []]; vm_compute; try congruence; try tauto.

Lemma id_part_notp : forall c, is_id_part c = true -> notp c = true.
Proof. by_cases_on_ascii. Qed.
Lemma id_part_nobr : forall c, is_id_part c = true -> nobr c = true.
Proof. by_cases_on_ascii. Qed.
Lemma id_start_part : forall c, is_id_start c = true -> is_id_part c = true.
Proof. intros c H. unfold is_id_part. rewrite H. reflexivity. Qed.
Lemma id_start_first : forall c, is_id_start c = true -> is_digit c = false /\ c <> "-" /\ c <> "+" /\ c <> ".".
Proof. intros [[] [] [] [] [] [] [] []]; vm_compute; intros H; try discriminate H; repeat split; discriminate. Qed.
Lemma float_char_notp : forall c, is_float_char c = true -> notp c = true.
Proof. by_cases_on_ascii. Qed.
Lemma digit_notp : forall c, is_digit c = true -> notp c = true.
Proof. by_cases_on_ascii. Qed.

Definition notdot (c : ascii) : bool := negb (Ascii.eqb c ".").
Definition notcomma (c : ascii) : bool := negb (Ascii.eqb c ",").
(* the characters of an interval text *)
Definition is_itv_char (c : ascii) : bool :=
  is_digit c || Ascii.eqb c "/" || Ascii.eqb c "s" || Ascii.eqb c "m" || Ascii.eqb c "u" || Ascii.eqb c "n".
Lemma itv_char_nobr : forall c, is_itv_char c = true -> nobr c = true.
Proof. by_cases_on_ascii. Qed.
Lemma itv_char_notcomma : forall c, is_itv_char c = true -> notcomma c = true.
Proof. by_cases_on_ascii. Qed.
Lemma digit_itv : forall c, is_digit c = true -> is_itv_char c = true.
Proof. intros c H. unfold is_itv_char. rewrite H. reflexivity. Qed.

(* ------------------------------------------------------------------ decimal numerals *)
Lemma string_of_uint_digits (d : uint) : forallb is_digit (to_chars (NilEmpty.string_of_uint d)) = true.
Proof. induction d; simpl; try reflexivity; exact IHd. Qed.

Lemma dec_digits n : forallb is_digit (to_chars (dec n)) = true.
Proof. apply string_of_uint_digits. Qed.

Lemma dec_inj n m : dec n = dec m -> n = m.
Proof.
  unfold dec. intros H.
  assert (E : Some (N.to_uint n) = Some (N.to_uint m)).
  { rewrite <- (NilEmpty.usu (N.to_uint n)), <- (NilEmpty.usu (N.to_uint m)), H. reflexivity. }
  injection E as E. rewrite <- (Unsigned.of_to n), <- (Unsigned.of_to m), E. reflexivity.
Qed.

(* ------------------------------------------------------------------ intervals *)
Definition unit_chars (u : option tunit) : chars := to_chars (unit_text u).

Lemma unit_chars_inj u1 u2 : unit_chars u1 = unit_chars u2 -> u1 = u2.
Proof. destruct u1 as [[]|], u2 as [[]|]; simpl; intros H; try discriminate; reflexivity. Qed.
Lemma unit_ends_digit u r : ends is_digit r -> ends is_digit (unit_chars u ++ r).
Proof. destruct u as [[]|]; simpl; trivial. Qed.
Lemma unit_itv u : forallb is_itv_char (unit_chars u) = true.
Proof. destruct u as [[]|]; reflexivity. Qed.

(* the part of a bound text after the numerator *)
Definition den_unit (d : positive) (u : option tunit) : chars :=
  (if Pos.eqb d 1 then [] else "/" :: to_chars (dec (Npos d))) ++ unit_chars u.

Lemma bound_chars b : to_chars (bound_text b) = to_chars (dec (bnum b)) ++ den_unit (bden b) (bunit b).
Proof.
  unfold bound_text, frac_text, den_unit, unit_chars. destruct (Pos.eqb (bden b) 1).
  - rewrite to_chars_app. reflexivity.
  - rewrite !to_chars_app. simpl. rewrite <- app_assoc. reflexivity.
Qed.

Lemma den_unit_ends d u : ends is_digit (den_unit d u).
Proof. unfold den_unit. destruct (Pos.eqb d 1); simpl; [|reflexivity]. rewrite <- (app_nil_r (unit_chars u)). apply unit_ends_digit. exact I. Qed.

Lemma den_unit_inj d1 u1 d2 u2 : den_unit d1 u1 = den_unit d2 u2 -> d1 = d2 /\ u1 = u2.
Proof.
  unfold den_unit. destruct (Pos.eqb d1 1) eqn:E1, (Pos.eqb d2 1) eqn:E2; simpl; intros H.
  - apply Pos.eqb_eq in E1, E2. subst. split; [reflexivity|apply unit_chars_inj; exact H].
  - exfalso. destruct u1 as [[]|]; discriminate.
  - exfalso. destruct u2 as [[]|]; discriminate.
  - injection H as H.
    assert (Hu : forall u, ends is_digit (unit_chars u)).
    { intros u. rewrite <- (app_nil_r (unit_chars u)). apply unit_ends_digit. exact I. }
    destruct (run_unique is_digit _ _ _ _ (dec_digits (Npos d1)) (dec_digits (Npos d2)) (Hu u1) (Hu u2) H) as [Hd Hu'].
    apply to_chars_inj, dec_inj in Hd. injection Hd as ->. split; [reflexivity|apply unit_chars_inj; exact Hu'].
Qed.

Lemma bound_text_inj b1 b2 : bound_text b1 = bound_text b2 -> b1 = b2.
Proof.
  intros H. apply (f_equal to_chars) in H. rewrite !bound_chars in H.
  destruct (run_unique is_digit _ _ _ _ (dec_digits _) (dec_digits _) (den_unit_ends _ _) (den_unit_ends _ _) H) as [Hn Hr].
  apply to_chars_inj, dec_inj in Hn. apply den_unit_inj in Hr. destruct Hr as [Hd Hu].
  destruct b1, b2; simpl in *; subst; reflexivity.
Qed.

Lemma bound_itv_chars b : forallb is_itv_char (to_chars (bound_text b)) = true.
Proof.
  rewrite bound_chars. apply forallb_app_true.
  - apply (forallb_impl is_digit); [exact digit_itv|apply dec_digits].
  - unfold den_unit. apply forallb_app_true; [|apply unit_itv].
    destruct (Pos.eqb (bden b) 1); [reflexivity|]. simpl. apply (forallb_impl is_digit); [exact digit_itv|apply dec_digits].
Qed.

Lemma itv_chars b e : to_chars (itv_text b e) = to_chars (bound_text b) ++ "," :: to_chars (bound_text e).
Proof. unfold itv_text. rewrite !to_chars_app. reflexivity. Qed.

Lemma itv_text_inj b1 e1 b2 e2 : to_chars (itv_text b1 e1) = to_chars (itv_text b2 e2) -> b1 = b2 /\ e1 = e2.
Proof.
  rewrite !itv_chars. intros H.
  destruct (run_unique notcomma _ _ ("," :: to_chars (bound_text e1)) ("," :: to_chars (bound_text e2))
              (forallb_impl _ _ _ itv_char_notcomma (bound_itv_chars b1))
              (forallb_impl _ _ _ itv_char_notcomma (bound_itv_chars b2)) eq_refl eq_refl H) as [Hb He].
  injection He as He. apply to_chars_inj in Hb, He. split; apply bound_text_inj; assumption.
Qed.

Lemma itv_text_nobr b e : forallb nobr (to_chars (itv_text b e)) = true.
Proof.
  rewrite itv_chars. apply forallb_app_true; [|simpl];
    apply (forallb_impl is_itv_char); try exact itv_char_nobr; apply bound_itv_chars.
Qed.

(* ------------------------------------------------------------------ keyword tables *)
Lemma un_kw_inj o1 o2 : un_kw o1 = un_kw o2 -> o1 = o2.
Proof. destruct o1, o2; simpl; intros H; try reflexivity; discriminate H. Qed.
Lemma tun_kw_inj o1 o2 : tun_kw o1 = tun_kw o2 -> o1 = o2.
Proof. destruct o1, o2; simpl; intros H; try reflexivity; discriminate H. Qed.
Lemma fn2_kw_inj o1 o2 : fn2_kw o1 = fn2_kw o2 -> o1 = o2.
Proof. destruct o1, o2; simpl; intros H; try reflexivity; discriminate H. Qed.
Lemma tbin_kw_inj o1 o2 : tbin_kw o1 = tbin_kw o2 -> o1 = o2.
Proof. destruct o1, o2; simpl; intros H; try reflexivity; discriminate H. Qed.
Lemma bin_kw_inj o1 o2 : bin_kw o1 = bin_kw o2 -> o1 = o2.
Proof.
  destruct o1 as [| | | | | | | | | | |[]], o2 as [| | | | | | | | | | |[]]; simpl; intros H; try reflexivity; discriminate H.
Qed.

Lemma un_kw_ok o : forallb notp (to_chars (un_kw o)) = true /\ nonnil (to_chars (un_kw o)) = true.
Proof. destruct o; split; reflexivity. Qed.
Lemma tun_kw_ok o : forallb notp (to_chars (tun_kw o)) = true /\ nonnil (to_chars (tun_kw o)) = true.
Proof. destruct o; split; reflexivity. Qed.
Lemma fn2_kw_ok o : forallb notp (to_chars (fn2_kw o)) = true /\ nonnil (to_chars (fn2_kw o)) = true.
Proof. destruct o; split; reflexivity. Qed.
Lemma bin_kw_ok o : forallb notp (to_chars (bin_kw o)) = true.
Proof. destruct o as [| | | | | | | | | | |[]]; reflexivity. Qed.
Lemma tbin_kw_ok o : forallb notp (to_chars (tbin_kw o)) = true.
Proof. destruct o; reflexivity. Qed.

(* ------------------------------------------------------------------ leaves *)
Definition field_part (f : string) : chars := if is_empty f then [] else "." :: to_chars f.

Lemma var_name_chars v f : to_chars (var_name v f) = to_chars v ++ field_part f.
Proof.
  unfold var_name, field_part. destruct (is_empty f).
  - rewrite app_nil_r. reflexivity.
  - rewrite !to_chars_app. reflexivity.
Qed.

Lemma var_ok_chars v : var_ok v = true ->
  exists c r, to_chars v = c :: r /\ is_id_start c = true /\ forallb is_id_part (c :: r) = true /\ forallb notdot (c :: r) = true.
Proof.
  unfold var_ok. destruct (to_chars v) as [|c r]; [discriminate|]. intros H. apply andb_prop in H. destruct H as [Hc Hr].
  exists c, r. split; [reflexivity|]. split; [exact Hc|]. split; simpl.
  - rewrite (id_start_part c Hc). simpl. revert Hr. apply forallb_impl. intros a Ha. apply andb_prop in Ha. tauto.
  - destruct (id_start_first c Hc) as [_ [_ [_ Hd]]]. unfold notdot at 1.
    destruct (Ascii.eqb_spec c "."); [contradiction|]. simpl. revert Hr. apply forallb_impl. intros a Ha. apply andb_prop in Ha.
    unfold notdot. tauto.
Qed.

Lemma var_name_inj v1 f1 v2 f2 :
  var_ok v1 = true -> var_ok v2 = true -> var_name v1 f1 = var_name v2 f2 -> v1 = v2 /\ f1 = f2.
Proof.
  intros W1 W2 H. apply (f_equal to_chars) in H. rewrite !var_name_chars in H.
  destruct (var_ok_chars v1 W1) as [c1 [r1 [E1 [_ [_ D1]]]]]. destruct (var_ok_chars v2 W2) as [c2 [r2 [E2 [_ [_ D2]]]]].
  rewrite E1, E2 in H.
  assert (Hf : forall f, ends notdot (field_part f)). { intros f. unfold field_part. destruct (is_empty f); reflexivity. }
  destruct (run_unique notdot _ _ _ _ D1 D2 (Hf f1) (Hf f2) H) as [Hv Hfp].
  split.
  - apply to_chars_inj. rewrite E1, E2. exact Hv.
  - unfold field_part in Hfp. destruct f1 as [|a f1], f2 as [|b f2]; simpl in Hfp; try discriminate; [reflexivity|].
    injection Hfp as -> Hfp. apply to_chars_inj in Hfp. subst. reflexivity.
Qed.

Lemma var_name_plain v f : var_ok v = true -> field_ok f = true -> forallb notp (to_chars (var_name v f)) = true.
Proof.
  intros Wv Wf. rewrite var_name_chars. destruct (var_ok_chars v Wv) as [c [r [E [_ [P _]]]]]. rewrite E.
  apply forallb_app_true.
  - revert P. apply forallb_impl. exact id_part_notp.
  - unfold field_part. destruct (is_empty f); [reflexivity|]. simpl. revert Wf. unfold field_ok. apply forallb_impl. exact id_part_notp.
Qed.

Lemma const_name_plain t : const_ok t = true -> forallb notp (to_chars (const_name t)) = true.
Proof.
  unfold const_ok, const_name. intros H. apply andb_prop in H. destruct H as [H _].
  assert (P : forallb notp (to_chars t) = true). { revert H. apply forallb_impl. exact float_char_notp. }
  destruct (String.eqb t "inf" || String.eqb t "nan"); [|exact P]. rewrite to_chars_app. simpl. exact P.
Qed.

(* the first character of a constant's name is '+', '-' or a digit *)
Lemma const_name_first t : const_ok t = true ->
  exists c r, to_chars (const_name t) = c :: r /\ (is_digit c = true \/ c = "-" \/ c = "+").
Proof.
  unfold const_ok, const_name. intros H. apply andb_prop in H. destruct H as [_ H].
  destruct (String.eqb t "inf" || String.eqb t "nan") eqn:E.
  - exists "+", (to_chars t). split; [rewrite to_chars_app; reflexivity|tauto].
  - simpl in H. destruct (to_chars t) as [|c r]; [discriminate|]. exists c, r. split; [reflexivity|].
    apply orb_prop in H. destruct H as [H|H]; [left; exact H|]. right. left. apply Ascii.eqb_eq. exact H.
Qed.

Lemma const_name_inj t1 t2 : const_ok t1 = true -> const_ok t2 = true -> const_name t1 = const_name t2 -> t1 = t2.
Proof.
  intros W1 W2 H.
  assert (K : forall t t', const_ok t' = true -> (String.eqb t "inf" || String.eqb t "nan") = true ->
               (String.eqb t' "inf" || String.eqb t' "nan") = false -> ("+" ++ t)%string = t' -> False).
  { intros t t' W' _ E' Heq. unfold const_ok in W'. apply andb_prop in W'. destruct W' as [_ W']. rewrite E' in W'. simpl in W'.
    subst t'. simpl in W'. discriminate. }
  unfold const_name in H.
  destruct (String.eqb t1 "inf" || String.eqb t1 "nan") eqn:E1, (String.eqb t2 "inf" || String.eqb t2 "nan") eqn:E2.
  - injection H as H. exact H.
  - exfalso. exact (K t1 t2 W2 E1 E2 H).
  - exfalso. symmetry in H. exact (K t2 t1 W1 E2 E1 H).
  - exact H.
Qed.

Lemma var_vs_const v f t : var_ok v = true -> const_ok t = true -> var_name v f = const_name t -> False.
Proof.
  intros Wv Wt H. apply (f_equal to_chars) in H. rewrite var_name_chars in H.
  destruct (var_ok_chars v Wv) as [c [r [E [S _]]]]. destruct (const_name_first t Wt) as [d [q [E' D]]].
  rewrite E, E' in H. simpl in H. injection H as -> _.
  destruct (id_start_first d S) as [N1 [N2 [N3 _]]]. destruct D as [D|[D|D]]; congruence.
Qed.

(* ------------------------------------------------------------------ the node classes as bracketed terms *)
Fixpoint to_gt (n : node) : gt :=
  match n with
  | NVar v f => GLeaf (to_chars (var_name v f))
  | NConst t => GLeaf (to_chars (const_name t))
  | NUn o c => GPre1 (to_chars (un_kw o)) None (to_gt c)
  | NTUn o b e c => GPre1 (to_chars (tun_kw o)) (Some (to_chars (itv_text b e))) (to_gt c)
  | NFn2 o c1 c2 => GPre2 (to_chars (fn2_kw o)) (to_gt c1) (to_gt c2)
  | NBin o c1 c2 => GIn (to_chars (bin_kw o)) None (to_gt c1) (to_gt c2)
  | NTBin o b e c1 c2 => GIn (to_chars (tbin_kw o)) (Some (to_chars (itv_text b e))) (to_gt c1) (to_gt c2)
  end.

Ltac tc := repeat first [rewrite to_chars_app | progress cbn [to_chars]].

Lemma nname_gch n : to_chars (nname n) = gch (to_gt n) [].
Proof.
  induction n as [v f|t|o c IH|o b e c IH|o c1 IH1 c2 IH2|o c1 IH1 c2 IH2|o b e c1 IH1 c2 IH2]; simpl.
  - rewrite app_nil_r. reflexivity.
  - rewrite app_nil_r. reflexivity.
  - tc. rewrite IH, (gch_app _ [")"]). reflexivity.
  - tc. rewrite IH, (gch_app _ [")"]). reflexivity.
  - tc. rewrite IH1, IH2, (gch_app _ [")"]), (gch_app _ ("," :: _)). reflexivity.
  - tc. rewrite IH1, IH2, (gch_app _ [")"]), (gch_app _ (")" :: _)). reflexivity.
  - tc. rewrite IH1, IH2, (gch_app _ [")"]), (gch_app _ (")" :: _)). reflexivity.
Qed.

Lemma to_gt_wf n : nwf n = true -> gwf (to_gt n) = true.
Proof.
  induction n as [v f|t|o c IH|o b e c IH|o c1 IH1 c2 IH2|o c1 IH1 c2 IH2|o b e c1 IH1 c2 IH2]; simpl; intros W; split_andb.
  - apply var_name_plain; assumption.
  - apply const_name_plain; assumption.
  - destruct (un_kw_ok o) as [-> ->]. rewrite (IH W). reflexivity.
  - destruct (tun_kw_ok o) as [-> ->]. rewrite (IH W), itv_text_nobr. reflexivity.
  - destruct (fn2_kw_ok o) as [-> ->]. rewrite (IH1 ltac:(assumption)), (IH2 ltac:(assumption)). reflexivity.
  - rewrite (bin_kw_ok o), (IH1 ltac:(assumption)), (IH2 ltac:(assumption)). reflexivity.
  - rewrite (tbin_kw_ok o), (IH1 ltac:(assumption)), (IH2 ltac:(assumption)), itv_text_nobr. reflexivity.
Qed.

Lemma to_gt_inj : forall n1 n2, nwf n1 = true -> nwf n2 = true -> to_gt n1 = to_gt n2 -> n1 = n2.
Proof.
  induction n1 as [v f|t|o c IH|o b e c IH|o c1 IH1 c2 IH2|o c1 IH1 c2 IH2|o b e c1 IH1 c2 IH2];
    intros [v' f'|t'|o' c'|o' b' e' c'|o' c1' c2'|o' c1' c2'|o' b' e' c1' c2'] W1 W2 H;
    simpl in W1, W2, H; try discriminate H; split_andb.
  - injection H as H. apply to_chars_inj in H.
    destruct (var_name_inj v f v' f' ltac:(assumption) ltac:(assumption) H) as [-> ->]. reflexivity.
  - exfalso. injection H as H. apply to_chars_inj in H. apply (var_vs_const v f t' ltac:(assumption) ltac:(assumption) H).
  - exfalso. injection H as H. apply to_chars_inj in H. symmetry in H.
    apply (var_vs_const v' f' t ltac:(assumption) ltac:(assumption) H).
  - injection H as H. apply to_chars_inj in H. rewrite (const_name_inj _ _ W1 W2 H). reflexivity.
  - injection H as Hk Hc. apply to_chars_inj, un_kw_inj in Hk. subst. rewrite (IH _ W1 W2 Hc). reflexivity.
  - injection H as Hk Hi Hc. apply to_chars_inj, tun_kw_inj in Hk. apply itv_text_inj in Hi. destruct Hi as [-> ->].
    subst. rewrite (IH _ W1 W2 Hc). reflexivity.
  - injection H as Hk Hc1 Hc2. apply to_chars_inj, fn2_kw_inj in Hk. subst.
    rewrite (IH1 c1' ltac:(assumption) ltac:(assumption) Hc1), (IH2 c2' ltac:(assumption) ltac:(assumption) Hc2). reflexivity.
  - injection H as Hk Hc1 Hc2. apply to_chars_inj, bin_kw_inj in Hk. subst.
    rewrite (IH1 c1' ltac:(assumption) ltac:(assumption) Hc1), (IH2 c2' ltac:(assumption) ltac:(assumption) Hc2). reflexivity.
  - injection H as Hk Hi Hc1 Hc2. apply to_chars_inj, tbin_kw_inj in Hk. apply itv_text_inj in Hi. destruct Hi as [-> ->]. subst.
    rewrite (IH1 c1' ltac:(assumption) ltac:(assumption) Hc1), (IH2 c2' ltac:(assumption) ltac:(assumption) Hc2). reflexivity.
Qed.

(* ------------------------------------------------------------------ the theorems *)
(* the generalisation: a name followed by ')' / ',' / nothing can be read off in one way only *)
Theorem nname_prefix_free p q r1 r2 :
  nwf p = true -> nwf q = true -> stop r1 -> stop r2 ->
  to_chars (nname p) ++ r1 = to_chars (nname q) ++ r2 -> p = q /\ r1 = r2.
Proof.
  intros Wp Wq S1 S2 H. rewrite !nname_gch, <- !gch_app in H.
  destruct (gch_inj _ _ _ _ (to_gt_wf p Wp) (to_gt_wf q Wq) S1 S2 H) as [E ->].
  split; [apply to_gt_inj; assumption|reflexivity].
Qed.

Theorem nname_inj p q : nwf p = true -> nwf q = true -> nname p = nname q -> p = q.
Proof.
  intros Wp Wq H. apply (nname_prefix_free p q [] [] Wp Wq I I). rewrite H. reflexivity.
Qed.

Lemma subnodes_wf n : nwf n = true -> forall m, In m (subnodes n) -> nwf m = true.
Proof.
  induction n as [v f|t|o c IH|o b e c IH|o c1 IH1 c2 IH2|o c1 IH1 c2 IH2|o b e c1 IH1 c2 IH2]; simpl; intros W m [<-|Hm];
    try exact W; try contradiction; split_andb;
    try (apply IH; assumption);
    try (apply in_app_or in Hm; destruct Hm as [Hm|Hm]; [apply IH1|apply IH2]; assumption).
Qed.

(* what the monitors need: among all the nodes of all the assertions of a specification, the name determines the node *)
Theorem names_injective (roots : list node) :
  (forall r, In r roots -> nwf r = true) ->
  forall p q, In p (flat_map subnodes roots) -> In q (flat_map subnodes roots) -> nname p = nname q -> p = q.
Proof.
  intros W p q Hp Hq. apply in_flat_map in Hp, Hq. destruct Hp as [rp [Rp Hp]]. destruct Hq as [rq [Rq Hq]].
  apply nname_inj; [exact (subnodes_wf rp (W rp Rp) p Hp)|exact (subnodes_wf rq (W rq Rq) q Hq)].
Qed.

(* ... and hence the formula the models of the monitors attach to it *)
Theorem names_determine_formula {VS : Val} (vidx : string -> string -> nat) (cval : string -> V) (du : tunit) (per : Z) (pu : tunit)
  (roots : list node) :
  (forall r, In r roots -> nwf r = true) ->
  forall p q, In p (flat_map subnodes roots) -> In q (flat_map subnodes roots) -> nname p = nname q ->
  erase vidx cval du per pu p = erase vidx cval du per pu q.
Proof. intros W p q Hp Hq H. rewrite (names_injective roots W p q Hp Hq H). reflexivity. Qed.

(* ------------------------------------------------------------------ the hypotheses on the leaves are what the lexer delivers *)
Lemma split_dot_spec l : forall h t, split_dot l = (h, t) ->
  forallb notdot h = true /\ ((l = h /\ t = []) \/ l = h ++ "." :: t).
Proof.
  induction l as [|c l IH]; simpl; intros h t H.
  - injection H as <- <-. split; [reflexivity|left; split; reflexivity].
  - destruct (Ascii.eqb_spec c ".") as [->|Hc].
    + injection H as <- <-. split; [reflexivity|right; reflexivity].
    + destruct (split_dot l) as [a b]. injection H as <- <-. destruct (IH a b eq_refl) as [Ha Hl]. split.
      * simpl. rewrite Ha. unfold notdot. destruct (Ascii.eqb_spec c "."); [contradiction|reflexivity].
      * destruct Hl as [[-> ->]| ->]; [left; split; reflexivity|right; reflexivity].
Qed.

Lemma forallb_both {A} (f g : A -> bool) (l : list A) :
  forallb f l = true -> forallb g l = true -> forallb (fun x => f x && g x) l = true.
Proof.
  induction l as [|x l IH]; simpl; [reflexivity|]. intros Hf Hg. apply andb_prop in Hf, Hg.
  destruct Hf as [-> Hf], Hg as [-> Hg]. rewrite (IH Hf Hg). reflexivity.
Qed.

(* an Identifier token, cut at its first dot as visitExprId does, is a variable node with well-formed leaves *)
Theorem var_of_ident_wf s : ident_ok s = true -> nwf (var_of_ident s) = true.
Proof.
  unfold ident_ok, var_of_ident. destruct (to_chars s) as [|c r]; [discriminate|]. intros H. apply andb_prop in H. destruct H as [Hc Hr].
  simpl. destruct (id_start_first c Hc) as [_ [_ [_ Hd]]]. destruct (Ascii.eqb_spec c "."); [contradiction|].
  destruct (split_dot r) as [a b] eqn:E. destruct (split_dot_spec r a b E) as [Da Hl].
  simpl. unfold var_ok, field_ok. simpl. rewrite !to_of_chars, Hc. simpl.
  assert (P : forallb is_id_part a = true /\ forallb is_id_part b = true).
  { destruct Hl as [[-> ->]| ->]; [split; [exact Hr|reflexivity]|].
    rewrite forallb_app in Hr. apply andb_prop in Hr. destruct Hr as [Ha Hb]. split; [exact Ha|]. change (is_id_part "." && forallb is_id_part b = true) in Hb.
    apply andb_prop in Hb. tauto. }
  destruct P as [Pa Pb]. rewrite Pb, andb_true_r. apply forallb_both; assumption.
Qed.

Definition not_id (t : token) : Prop := match t with TId _ => False | _ => True end.

Lemma span_forallb f l : forall a b, span f l = (a, b) -> forallb f a = true.
Proof.
  induction l as [|c l IH]; simpl; intros a b H.
  - injection H as <- _. reflexivity.
  - destruct (f c) eqn:E.
    + destruct (span f l) as [a' b']. injection H as <- _. simpl. rewrite E. apply (IH a' b' eq_refl).
    + injection H as <- _. reflexivity.
Qed.

Lemma number_not_id l t r : number l = Some (t, r) -> not_id t.
Proof.
  unfold number. intros H.
  repeat match type of H with
         | context [match ?x with _ => _ end] => destruct x
         end; try discriminate H; injection H as <- _; exact I.
Qed.

Lemma decimal_not_id l t r : decimal l = Some (t, r) -> not_id t.
Proof.
  unfold decimal. intros H.
  repeat match type of H with
         | context [match ?x with _ => _ end] => destruct x
         end; try discriminate H; injection H as <- _; exact I.
Qed.

Lemma first_sym_not_id tbl : Forall (fun p => not_id (snd p)) tbl -> forall l t r, first_sym tbl l = Some (t, r) -> not_id t.
Proof.
  induction 1 as [|[s t'] tbl Hx Ht IH]; simpl; intros l t r H; [discriminate|].
  destruct (prefix (to_chars s) l); [injection H as <- _; exact Hx|]. exact (IH l t r H).
Qed.

Lemma sym_table_not_id : Forall (fun p => not_id (snd p)) sym_table.
Proof. unfold sym_table. repeat constructor. Qed.

(* every Identifier token the lexer produces has the form the well-formedness hypothesis asks for *)
Theorem lex_ident_ok : forall fuel l ts, lex fuel l = Some ts -> forall s, In (TId s) ts -> ident_ok s = true.
Proof.
  induction fuel as [|fuel IH]; intros l ts H s Hin; cbn [lex] in H.
  - destruct l; [injection H as <-; contradiction|discriminate].
  - destruct l as [|c r]; [injection H as <-; contradiction|].
    assert (K' : forall t r1, (forall s', t = TId s' -> ident_ok s' = true) ->
                 option_map (cons t) (lex fuel r1) = Some ts -> ident_ok s = true).
    { intros t r1 Ht Hm. destruct (lex fuel r1) as [ts'|] eqn:E; [|discriminate]. simpl in Hm. injection Hm as <-.
      destruct Hin as [->|Hin]; [exact (Ht s eq_refl)|]. exact (IH r1 ts' E s Hin). }
    assert (K : forall t r1, not_id t -> option_map (cons t) (lex fuel r1) = Some ts -> ident_ok s = true).
    { intros t r1 Ht. apply K'. intros s' ->. contradiction. }
    destruct (is_space c); [exact (IH r ts H s Hin)|].
    destruct (is_id_start c) eqn:Sc.
    { (* identifier or keyword *)
      destruct (span is_id_part (c :: r)) as [w r1] eqn:Ew.
      refine (K' _ r1 _ H). intros s' Heq.
      destruct (lookup_kw kw_table (of_chars w)); [discriminate|]. injection Heq as <-.
      pose proof (span_forallb _ _ _ _ Ew) as Pw. simpl in Ew. rewrite (id_start_part c Sc) in Ew.
      destruct (span is_id_part r) as [a b]. injection Ew as <- _.
      unfold ident_ok. rewrite to_of_chars. rewrite Sc. simpl in Pw. apply andb_prop in Pw. destruct Pw as [_ Pw]. exact Pw. }
    destruct (is_digit c).
    { destruct (number (c :: r)) as [[t r1]|] eqn:En; [exact (K t r1 (number_not_id _ _ _ En) H)|].
      destruct (decimal (c :: r)) as [[t r1]|] eqn:Ed; [exact (K t r1 (decimal_not_id _ _ _ Ed) H)|discriminate]. }
    destruct (Ascii.eqb c "." && match r with d :: _ => is_digit d | [] => false end).
    { destruct (decimal (c :: r)) as [[t r1]|] eqn:Ed; [exact (K t r1 (decimal_not_id _ _ _ Ed) H)|discriminate]. }
    destruct (Ascii.eqb c "/" && match r with d :: _ => Ascii.eqb d "*" | [] => false end).
    { destruct (skip_block (tl r)) as [r1|]; [exact (IH r1 ts H s Hin)|discriminate]. }
    destruct (Ascii.eqb c "/" && match r with d :: _ => Ascii.eqb d "/" | [] => false end).
    { exact (IH _ ts H s Hin). }
    destruct (first_sym sym_table (c :: r)) as [[t r1]|] eqn:Ef; [|discriminate].
    exact (K t r1 (first_sym_not_id _ sym_table_not_id _ _ _ Ef) H).
Qed.

Theorem lex_var_wf (fuel : nat) (l : chars) (ts : list token) (s : string) :
  lex fuel l = Some ts -> In (TId s) ts -> nwf (var_of_ident s) = true.
Proof. intros H Hin. apply var_of_ident_wf. exact (lex_ident_ok fuel l ts H s Hin). Qed.

(* ------------------------------------------------------------------ why the leaves matter: before the repair of D75 Constant printed
   str(val) as it is, and the constant inf and a signal called inf had one name (they shared the operation object) *)
Example unrepaired_constant_name_collides :
  nwf (NVar "inf" "") = true /\ nwf (NConst "inf") = true /\ nname (NVar "inf" "") = "inf"%string /\
  nname (NConst "inf") = "+inf"%string /\ NVar "inf" "" <> NConst "inf".
Proof. repeat split; try reflexivity. discriminate. Qed.

(* non-vacuity: a tree with every shape, its name, and the hypotheses *)
Example nname_example :
  let b0 := {| bnum := 0; bden := 1; bunit := None |} in
  let b1 := {| bnum := 1; bden := 2; bunit := Some UMS |} in
  let n := NTBin tb_since b0 b1 (NBin (b_pred CLeq) (NVar "a" "b.c") (NConst "1e+22"))
                 (NTUn t_once b1 b1 (NFn2 f_pow (NUn u_negate (NVar "x" "")) (NConst "nan"))) in
  nwf n = true /\
  nname n = "((a.b.c)<=(1e+22))since[0,1/2ms](once[1/2ms,1/2ms](pow(-(x),+nan)))"%string.
Proof. split; vm_compute; reflexivity. Qed.
