(* DenseOnlineMon.v — implementation layer of the dense-time ONLINE monitor as a whole: how
     rtamt/semantics/abstract_online_interpreter.py             (set_ast, AbstractOnlineUpdateVisitor)
     rtamt/semantics/abstract_dense_time_online_interpreter.py  (update, DenseTimeOnlineUpdateVisitor)
     rtamt/semantics/stl/dense_time/online/ast_visitor.py       (one operation object per node NAME)
   compose the operations modelled in DenseOnlineMerge.v / DenseOnlineFold.v / DenseOnlineWin.v, plus line-by-line
   transcriptions of the three operations that were still missing:
     rtamt/semantics/stl/dense_time/online/predicate_operation.py      ([pred_update_g], all six comparisons)
     rtamt/semantics/iastl/dense_time/online/predicate_operation.py    ([pred_update_ia]: the IA variants, see below)
     rtamt/semantics/stl/dense_time/online/since_timed_operation.py    ([since_timed_update_g])
   and of multiplication_operation.py ([mul_update_g]: it forgets last_output at every update).

   Conventions
   * a node is keyed by the formula itself (the code keys by the printed name: two equal sub-formulas SHARE one
     operation object); [dict] maps every formula to the state of its operation, [memo] is the [visited] dictionary of
     one update: a node found there is not stepped again;
   * [None] is a Python exception.  The operators the online visitor rejects (set_ast raises in the first update, and
     in every later one) have the state [SUnsup]: visiting such a node answers [None];
   * time stamps.  A constant is the signal [[0,c],[inf,c]]: stamps live in [tz] (Z + {+inf}) and every node returns an
     [esig].  A sub-formula without variable ("closed") is the only source of +inf stamps: an operation whose operands
     all contain a variable is run on its Z instance (the one the theorems of the *Correct.v files are about) through
     [unlift]/[lift]; an operation with a closed operand is run on the [tz] instance.  The bounded once/historically
     had no [tz] instance: [win_update_e] below is the same transcription with stamps in [tz];
   * [unlift] failing on an operand that contains a variable would be [None]; it never happens (such a node only
     produces finite stamps; validated, and proved for the fragment of DenseOnlineMonCorrect.v);
   * values: the Val / Arith abstraction.  Not modelled: the exceptions of float arithmetic inside the binary
     arithmetic operations (ZeroDivisionError of division, ValueError/OverflowError of pow, log, exp); sqrt of a
     negative value and ln of a non-positive one do raise ([sqrt_fn], [partial_fn]).
   * IA variants of the predicate: [pk f g] says how the predicate [Pred c f g] is read (PStd: robustness, the STL
     monitor; PBool: +-inf of the satisfaction; PVac: 0); for PBool/PVac the returned list is the one of [sat()]:
     the samples of the difference where the robustness changes, and the last one. *)
From Coq Require Import List Bool Arith ZArith Lia.
From RV Require Import Val Syntax Rho Online Dense DenseMerge DenseEval DenseWin DenseOnlineMerge DenseOnlineFold DenseOnlineWin.
Import ListNotations.
Local Open Scope Z_scope.

(* ================================================================== *)
(* predicate_operation.py, multiplication_operation.py, since_timed    *)
(* generic in the type of the time stamps                              *)
(* ================================================================== *)
Section OpsG.
Context {VS : Val} (AR : Arith VS).
Variable T : Type.
Variables tltb teqb : T -> T -> bool.

Notation gsig := (list (T * V)).

(* ---------------- predicate_operation.py ---------------- *)
(*   self.sub = SubtractionOperation(); self.subtraction_output = list()                         *)
Record pstate := { p_sub : @ostate VS T; p_subout : gsig }.
Definition pred_init : pstate := {| p_sub := ostate0; p_subout := [] |}.

(*   for i in input_list: out_val = -abs(i[1]) | abs(i[1]) | -i[1] | i[1]; sample_result.append([i[0], out_val])
     (the final [else: out_val = nan] is dead: the six operators are covered) *)
Definition pred_loop (c : cmp) (il : gsig) : gsig := map (fun i => (fst i, pred_of_diff AR c (snd i))) il.

Definition pred_update_g (c : cmp) (st : pstate) (l r : gsig) : option (pstate * gsig) :=
  match bin_update_g T tltb teqb (a2 AR Sub) (p_sub st) l r with         (* input_list = self.sub.update(left, right) *)
  | None => None
  | Some (sub', il) => Some ({| p_sub := sub'; p_subout := il |}, pred_loop c il)
  end.

(* sat(): out_val as written in the code (EQ: == 0, NEQ: != 0, LEQ: <= 0, LESS: < 0, GEQ: >= 0, GREATER: > 0) *)
Definition sat_online (c : cmp) (d : V) : bool :=
  match c with
  | CLeq => leb d (azero AR) | CLt => ltb d (azero AR)
  | CGeq => leb (azero AR) d | CGt => ltb (azero AR) d
  | CEq => veqb d (azero AR) | CNeq => negb (veqb d (azero AR))
  end.
(*   for i, in_sample in enumerate(input_list): if rval != prev or i == len(input_list) - 1: append([t, out_val]); prev = rval *)
Fixpoint sat_scan (c : cmp) (prev : option V) (il : gsig) : list (T * bool) :=
  match il with
  | [] => []
  | (t, x) :: r =>
      let rv := pred_of_diff AR c x in
      let emit := (match prev with Some p => negb (veq rv p) | None => true end)
                  || (match r with [] => true | _ => false end) in
      (if emit then [(t, sat_online c x)] else []) ++ sat_scan c (Some rv) r
  end.

(* iastl/.../predicate_operation.py: samples = update(...); sat_sample = sat(...) (reads self.subtraction_output) *)
Definition pred_update_ia (k : pkind) (c : cmp) (st : pstate) (l r : gsig) : option (pstate * gsig) :=
  match pred_update_g c st l r with
  | None => None
  | Some (st', samples) =>
      let sat := sat_scan c None (p_subout st') in
      Some (st', match k with
                 | PStd => samples
                 | PBool => map (fun q : T * bool => (fst q, if snd q then top else bot)) sat
                 | PVac => map (fun q : T * bool => (fst q, azero AR)) sat
                 end)
  end.

(* ---------------- multiplication_operation.py ---------------- *)
(* the text of and_operation.update, except that [self.last_output = []] is executed in every update (and not in
   __init__): the first result sample is never dropped *)
Definition mul_update_g (f : V -> V -> V) (st : @ostate VS T) (b1 b2 : gsig) : option (@ostate VS T * gsig) :=
  bin_update_g T tltb teqb f {| lbuf := lbuf st; rbuf := rbuf st; lout := None |} b1 b2.

(* ---------------- since_timed_operation.py ---------------- *)
(*   self.since = SinceOperation(); self.hist = HistoricallyTimedOperation(0, begin);
     self.once = OnceTimedOperation(begin, end); self.andop = AndOperation()
   [WS], [wonce], [whist]: the state and the update of the two bounded operations on stamps of type T *)
Variable WS : Type.
Variables wonce whist : WS -> gsig -> option (WS * gsig).

Record ststate := {
  st_lbuf : gsig;                     (* self.sample_left_buf  (only ever appended to) *)
  st_rbuf : gsig;                     (* self.sample_right_buf (only ever appended to) *)
  st_since : @sstate VS T;
  st_hist : WS;
  st_once : WS;
  st_and : @ostate VS T
}.
Definition st_init (hist0 once0 : WS) : ststate :=
  {| st_lbuf := []; st_rbuf := []; st_since := since_init; st_hist := hist0; st_once := once0; st_and := ostate0 |}.

Definition since_timed_update_g (st : ststate) (l r : gsig) : option (ststate * gsig) :=
  match wonce (st_once st) r with                                          (* out1 = self.once.update(sample_right) *)
  | None => None
  | Some (once', out1) =>
    match since_update T tltb (st_since st) (l, r) with                    (* out2 = self.since.update(left, right) *)
    | None => None
    | Some (since', out2) =>
      match whist (st_hist st) out2 with                                   (* out3 = self.hist.update(out2) *)
      | None => None
      | Some (hist', out3) =>
        match bin_update_g T tltb teqb vmin (st_and st) out1 out3 with     (* self.andop.update(out1, out3) *)
        | None => None
        | Some (and', res) =>
            Some ({| st_lbuf := st_lbuf st ++ l; st_rbuf := st_rbuf st ++ r;
                     st_since := since'; st_hist := hist'; st_once := once'; st_and := and' |}, res)
        end
      end
    end
  end.

End OpsG.

Arguments p_sub {VS T} _.
Arguments p_subout {VS T} _.
Arguments pred_init {VS T}.
Arguments st_lbuf {VS T WS} _.
Arguments st_rbuf {VS T WS} _.
Arguments st_since {VS T WS} _.
Arguments st_hist {VS T WS} _.
Arguments st_once {VS T WS} _.
Arguments st_and {VS T WS} _.
Arguments st_init {VS T WS} _ _.

(* ================================================================== *)
(* once_timed_operation.py / historically_timed_operation.py on stamps *)
(* that may be +inf (the operand is a closed sub-formula)              *)
(* ================================================================== *)
(* The same transcription as DenseOnlineWin.v ([win_update]), with every stamp in [tz]:  inf + x = inf.
   residual_start is -inf before the first sample of once ([ENeg]); +inf is [ET TInf]. *)
Section WinE.
Context {VS : Val}.

Definition tadd (t : tz) (z : Z) : tz := match t with T x => T (x + z) | TInf => TInf end.
Definition tle (a b : tz) : bool := negb (tlt b a).

Definition epiece := (tz * tz * V)%type.
Definition eps (p : epiece) : tz := fst (fst p).
Definition epe (p : epiece) : tz := snd (fst p).
Definition epv (p : epiece) : V := snd p.

Inductive erstamp := ENeg | ET (t : tz).
Definition ers_eqb (t : tz) (r : erstamp) : bool := match r with ET z => teq t z | ENeg => false end.   (* sample[0][0] == rs *)
Definition ers_geb (r : erstamp) (x : tz) : bool := match r with ET z => tle x z | ENeg => false end.   (* rs >= x *)
Definition ers_in (r : erstamp) (lo hi : tz) : bool :=                                                   (* lo <= rs < hi *)
  match r with ET z => tle lo z && tlt z hi | ENeg => false end.

Record wstate_e := { we_prev : list epiece; we_rs : erstamp; we_started : bool; we_begin : Z; we_end : Z }.
Definition win_init_e (rs0 : erstamp) (a b : Z) : wstate_e :=
  {| we_prev := []; we_rs := rs0; we_started := false; we_begin := a; we_end := b |}.
Definition owin_init_e (a b : Z) : wstate_e := win_init_e ENeg a b.
Definition hwin_init_e (a b : Z) : wstate_e := win_init_e (ET TInf) a b.

Definition drop_repeat_e (st : wstate_e) (sample : esig) : esig :=
  match sample with
  | (t0, _) :: rest => if we_started st && ers_eqb t0 (we_rs st) then rest else sample
  | [] => []
  end.
Definition new_rs_e (old : erstamp) (sample : esig) : erstamp :=
  match rev sample with (tn, _) :: _ => ET tn | [] => old end.
(* out: head = out[-1] *)
Definition extend_last_e (out : list epiece) (sample : esig) (e : Z) : list epiece :=
  match sample, out with
  | (t0, _) :: _, q :: r => (eps q, tadd t0 e, epv q) :: r
  | _, _ => out
  end.
Definition add_pad_e (pad : V) (started : bool) (out : list epiece) (sample : esig) (b : Z) : list epiece :=
  match sample with
  | (t0, _) :: _ => if teq t0 (T 0) && (0 <? b) && negb started then (T 0, tadd t0 b, pad) :: out else out
  | [] => out
  end.
Fixpoint win_pieces_e (s : esig) (b e : Z) : list epiece :=
  match s with
  | [] => []
  | (t, v) :: r => (tadd t b, match r with (t', _) :: _ => tadd t' e | [] => tadd t e end, v) :: win_pieces_e r b e
  end.

(* intersect.intersects(x1, x2, y1, y2): x1 <= y2 and y1 <= x2 *)
Definition intersects_e (x1 x2 y1 y2 : tz) : bool := tle x1 y2 && tle y1 x2.

(* while (a[2] < b[2]) and (b[0] < a[0]): del out[-1]; a = out[-1]          None = IndexError *)
Fixpoint pop_dominated_e (lt : V -> V -> bool) (out : list epiece) (b : epiece) : option (list epiece) :=
  match out with
  | [] => None
  | a :: r => if lt (epv a) (epv b) && tlt (eps b) (eps a) then pop_dominated_e lt r b else Some out
  end.
Definition push_piece_e (lt : V -> V -> bool) (out : list epiece) (b : epiece) : option (list epiece) :=
  match out with
  | [] => Some [b]
  | _ =>
    match pop_dominated_e lt out b with
    | None | Some [] => None
    | Some (a :: r) =>
        if negb (intersects_e (eps a) (epe a) (eps b) (epe b)) then Some (b :: a :: r)
        else if negb (lt (epv a) (epv b)) then Some ((epe a, epe b, epv b) :: a :: r)
        else Some (b :: (if tlt (eps a) (eps b) then [(eps a, eps b, epv a)] else []) ++ r)
    end
  end.
Definition push_all_e (lt : V -> V -> bool) (init : list epiece) (l : list epiece) : option (list epiece) :=
  fold_left (fun acc p => obind acc (fun out => push_piece_e lt out p)) l (Some init).

Fixpoint scan_e (rs : erstamp) (l : list epiece) (pv0 : option V) : esig * option (tz * V) * list epiece :=
  match l with
  | [] => ([], None, [])
  | b :: l' =>
      let is_last := match l' with [] => true | _ => false end in
      let emit := (match pv0 with Some p => negb (veq (epv b) p) | None => true end) || is_last in
      let '(res', last', np') := scan_e rs l' (Some (epv b)) in
      let keep_last (x : tz * V) := match last' with Some y => Some y | None => Some x end in
      if ers_geb rs (epe b) then
        ((if emit then [(eps b, epv b)] else []) ++ res', keep_last (eps b, epv b), np')
      else if ers_in rs (eps b) (epe b) then
        match rs with
        | ET z => ((if emit then [(eps b, epv b)] else []) ++ res', keep_last (z, epv b), (z, epe b, epv b) :: np')
        | ENeg => ((if emit then [(eps b, epv b)] else []) ++ res', keep_last (eps b, epv b), np')
        end
      else (res', last', b :: np')
  end.

Definition add_last_e (res : esig) (last : option (tz * V)) : esig :=
  match last with
  | None => res
  | Some la =>
      match rev res with
      | [] => [la]
      | (tr, _) :: _ => if tlt tr (fst la) then res ++ [la] else res
      end
  end.

Definition win_update_e (lt : V -> V -> bool) (pad : V) (st : wstate_e) (sample0 : esig) : option (wstate_e * esig) :=
  let b := we_begin st in
  let e := we_end st in
  let sample := drop_repeat_e st sample0 in
  let rs := new_rs_e (we_rs st) sample in
  let out0 := extend_last_e (rev (we_prev st)) sample e in
  let out1 := add_pad_e pad (we_started st) out0 sample b in
  match push_all_e lt out1 (win_pieces_e sample b e) with
  | None => None
  | Some out =>
      let '(res, last, np) := scan_e rs (rev out) None in
      Some ({| we_prev := np; we_rs := rs;
               we_started := we_started st || match sample with [] => false | _ => true end;
               we_begin := b; we_end := e |},
            add_last_e res last)
  end.

Definition once_timed_update_e : wstate_e -> esig -> option (wstate_e * esig) := win_update_e ltb bot.
Definition hist_timed_update_e : wstate_e -> esig -> option (wstate_e * esig) := win_update_e (fun x y => ltb y x) top.

End WinE.

(* ================================================================== *)
(* the monitor                                                         *)
(* ================================================================== *)
Section Mon.
Context {VS : Val} (AR : Arith VS).
Variable pk : formula -> formula -> pkind.

(* no variable: the only sub-formulas whose signal has a +inf stamp *)
Fixpoint closed (p : formula) : bool :=
  match p with
  | Var _ => false
  | Const _ => true
  | A1 _ f | Not f | Rise f | Fall f | Prev f | SPrev f | Next f | SNext f
  | Once f | Hist f | Ev f | Alw f
  | OnceT _ _ f | HistT _ _ f | EvT _ _ f | AlwT _ _ f => closed f
  | A2 _ f g | Pred _ f g | And f g | Or f g | Implies f g | Iff f g | Xor f g
  | Since f g | Until f g
  | SinceT _ _ f g | UntilT _ _ f g | Precedes _ _ f g => closed f && closed g
  end.

Definition lift (s : dsig) : esig := map (fun p => (T (fst p), snd p)) s.
Fixpoint unlift (s : esig) : option dsig :=
  match s with
  | [] => Some []
  | (T z, v) :: r => match unlift r with Some r' => Some ((z, v) :: r') | None => None end
  | (TInf, _) :: _ => None
  end.

(* run an operation of the Z instance on finite [esig]s *)
Definition viaZ {St} (upd : St -> dsig -> option (St * dsig)) (st : St) (x : esig) : option (St * esig) :=
  match unlift x with
  | None => None
  | Some s => match upd st s with Some (st', o) => Some (st', lift o) | None => None end
  end.
Definition viaZ2 {St} (upd : St -> dsig -> dsig -> option (St * dsig)) (st : St) (x y : esig) : option (St * esig) :=
  match unlift x, unlift y with
  | Some s1, Some s2 => match upd st s1 s2 with Some (st', o) => Some (st', lift o) | None => None end
  | _, _ => None
  end.

(* ---------------- the operation objects ---------------- *)
Inductive opst :=
| SNone                                         (* variable, point-wise unary operations: nothing kept *)
| SUnsup                                        (* the online visitor raises on this node *)
| SConst (st : @cstate VS)
| SFold (st : @fstate VS)
| SBinZ (st : @ostate VS Z) | SBinE (st : @ostate VS tz)
| SSinZ (st : @sstate VS Z) | SSinE (st : @sstate VS tz)
| SWinZ (st : @wstate VS) | SWinE (st : @wstate_e VS)
| SPredZ (st : @pstate VS Z) | SPredE (st : @pstate VS tz)
| SStZ (st : @ststate VS Z (@wstate VS)) | SStE (st : @ststate VS tz (@wstate_e VS)).

(* StlDenseTimeOnlineAstVisitor: which operation for which node, with which bounds *)
Definition op_init (p : formula) : opst :=
  match p with
  | Var _ => SNone                                            (* VariableOperation(): never used by update *)
  | Const c => SConst (const_init c)
  | A1 _ _ | Not _ => SNone
  | A2 _ f g | And f g | Or f g | Implies f g | Iff f g | Xor f g =>
      if closed f || closed g then SBinE ostate0 else SBinZ ostate0
  | Pred _ f g => if closed f || closed g then SPredE pred_init else SPredZ pred_init
  | Once _ => SFold once_init
  | Hist _ => SFold hist_init
  | Since f g => if closed f || closed g then SSinE since_init else SSinZ since_init
  | OnceT b e f => if closed f then SWinE (owin_init_e (zb b) (zb e)) else SWinZ (owin_init (zb b) (zb e))
  | HistT b e f => if closed f then SWinE (hwin_init_e (zb b) (zb e)) else SWinZ (hwin_init (zb b) (zb e))
  | SinceT b e f g =>
      if closed f || closed g
      then SStE (st_init (hwin_init_e 0 (zb b)) (owin_init_e (zb b) (zb e)))
      else SStZ (st_init (hwin_init 0 (zb b)) (owin_init (zb b) (zb e)))
  | _ => SUnsup       (* eventually, always, until (bounded or not), rise, fall, previous, next, precedes *)
  end.

(* the function of a unary arithmetic node; [None] = the expression raises *)
Definition fn1 (o : aop1) : V -> option V :=
  match o with
  | Abs => total_fn AR Abs
  | Neg => total_fn AR Neg
  | Sqrt => sqrt_fn AR
  | Exp => total_fn AR Exp
  | Ln => partial_fn AR Ln (fun v => ltb (azero AR) v)
  end.
(* the function handed to intersection() by a binary node *)
Definition fn2 (p : formula) : V -> V -> V :=
  match p with
  | A2 o _ _ => a2 AR o
  | And _ _ => vmin
  | Or _ _ => vmax
  | Implies _ _ => fun l r => vmax (neg l) r
  | Iff _ _ => fun l r => neg (a1 AR Abs (a2 AR Sub l r))
  | Xor _ _ => fun l r => a1 AR Abs (a2 AR Sub l r)
  | _ => fun l _ => l
  end.

(* operator.update(sample) of the node p; c = whether the operand is closed *)
Definition ustep (p : formula) (st : opst) (x : esig) : option (opst * esig) :=
  match p, st with
  | A1 o f, SNone =>
      option_map (fun r => (SNone, snd r))
        (if closed f then unary_upd_e (fn1 o) tt x else viaZ (unary_upd (fn1 o)) tt x)
  | Not f, SNone =>
      option_map (fun r => (SNone, snd r))
        (if closed f then unary_upd_e not_fn tt x else viaZ (unary_upd not_fn) tt x)
  | Once f, SFold s =>
      option_map (fun r => (SFold (fst r), snd r)) (if closed f then once_upd_e s x else viaZ once_upd s x)
  | Hist f, SFold s =>
      option_map (fun r => (SFold (fst r), snd r)) (if closed f then hist_upd_e s x else viaZ hist_upd s x)
  | OnceT _ _ _, SWinZ s => option_map (fun r => (SWinZ (fst r), snd r)) (viaZ once_timed_update s x)
  | OnceT _ _ _, SWinE s => option_map (fun r => (SWinE (fst r), snd r)) (once_timed_update_e s x)
  | HistT _ _ _, SWinZ s => option_map (fun r => (SWinZ (fst r), snd r)) (viaZ hist_timed_update s x)
  | HistT _ _ _, SWinE s => option_map (fun r => (SWinE (fst r), snd r)) (hist_timed_update_e s x)
  | _, _ => None
  end.

Definition since_timed_Z := since_timed_update_g Z Z.ltb Z.eqb (@wstate VS) once_timed_update hist_timed_update.
Definition since_timed_E := since_timed_update_g tz tlt teq (@wstate_e VS) once_timed_update_e hist_timed_update_e.

(* operator.update(sample_left, sample_right) of the node p *)
Definition bstep (p : formula) (st : opst) (x y : esig) : option (opst * esig) :=
  match p, st with
  | A2 Mul _ _, SBinZ s => option_map (fun r => (SBinZ (fst r), snd r)) (viaZ2 (mul_update_g Z Z.ltb Z.eqb (fn2 p)) s x y)
  | A2 Mul _ _, SBinE s => option_map (fun r => (SBinE (fst r), snd r)) (mul_update_g tz tlt teq (fn2 p) s x y)
  | A2 _ _ _, SBinZ s | And _ _, SBinZ s | Or _ _, SBinZ s | Implies _ _, SBinZ s | Iff _ _, SBinZ s | Xor _ _, SBinZ s =>
      option_map (fun r => (SBinZ (fst r), snd r)) (viaZ2 (bin_update (fn2 p)) s x y)
  | A2 _ _ _, SBinE s | And _ _, SBinE s | Or _ _, SBinE s | Implies _ _, SBinE s | Iff _ _, SBinE s | Xor _ _, SBinE s =>
      option_map (fun r => (SBinE (fst r), snd r)) (bin_update_e (fn2 p) s x y)
  | Pred c f g, SPredZ s =>
      option_map (fun r => (SPredZ (fst r), snd r)) (viaZ2 (pred_update_ia AR Z Z.ltb Z.eqb (pk f g) c) s x y)
  | Pred c f g, SPredE s =>
      option_map (fun r => (SPredE (fst r), snd r)) (pred_update_ia AR tz tlt teq (pk f g) c s x y)
  | Since _ _, SSinZ s =>
      option_map (fun r => (SSinZ (fst r), snd r)) (viaZ2 (fun s a b => since_upd s (a, b)) s x y)
  | Since _ _, SSinE s => option_map (fun r => (SSinE (fst r), snd r)) (since_upd_e s (x, y))
  | SinceT _ _ _ _, SStZ s => option_map (fun r => (SStZ (fst r), snd r)) (viaZ2 since_timed_Z s x y)
  | SinceT _ _ _ _, SStE s => option_map (fun r => (SStE (fst r), snd r)) (since_timed_E s x y)
  | _, _ => None
  end.

(* ---------------- online_operator_dict, visited ---------------- *)
Definition feqb (a b : formula) : bool := if formula_eq_dec a b then true else false.
Definition dict := formula -> opst.
Definition memo := list (formula * esig).
Fixpoint lookup (m : memo) (a : formula) : option esig :=
  match m with
  | [] => None
  | (b, v) :: m' => if feqb a b then Some v else lookup m' a
  end.
Definition upd (d : dict) (a : formula) (s : opst) : dict := fun b => if feqb b a then s else d b.

(* set_ast: online_operator_dict[node.name] = a fresh operation, for every node *)
Definition mon_init (p : formula) : dict := op_init.

Definition visit_un (p : formula) (vf : dict -> memo -> option (dict * memo * esig)) (d : dict) (m : memo)
  : option (dict * memo * esig) :=
  match vf d m with
  | None => None
  | Some (d1, m1, x) =>
      match ustep p (d1 p) x with
      | None => None
      | Some (s', out) => Some (upd d1 p s', (p, out) :: m1, out)
      end
  end.
Definition visit_bi (p : formula) (vf vg : dict -> memo -> option (dict * memo * esig)) (d : dict) (m : memo)
  : option (dict * memo * esig) :=
  match vf d m with
  | None => None
  | Some (d1, m1, x) =>
      match vg d1 m1 with
      | None => None
      | Some (d2, m2, y) =>
          match bstep p (d2 p) x y with
          | None => None
          | Some (s', out) => Some (upd d2 p s', (p, out) :: m2, out)
          end
      end
  end.

(* DenseTimeOnlineUpdateVisitor.visit; env = var_object_dict: the batch of every variable in this update
   (the empty list for a variable that received nothing) *)
Fixpoint visit (env : list dsig) (p : formula) (d : dict) (m : memo) {struct p} : option (dict * memo * esig) :=
  match p with
  | Var x => let out := lift (nth x env []) in Some (d, (p, out) :: m, out)      (* visitVariable: no operation involved *)
  | _ =>
    match lookup m p with
    | Some v => Some (d, m, v)                                                   (* if node.name in self.visited: reuse *)
    | None =>
      match p with
      | Const _ =>
          match d p with
          | SConst s =>
              match const_update s tt with
              | Some (s', out) => Some (upd d p (SConst s'), (p, out) :: m, out)
              | None => None
              end
          | _ => None
          end
      | A1 _ f | Not f | Once f | Hist f | OnceT _ _ f | HistT _ _ f => visit_un p (visit env f) d m
      | A2 _ f g | Pred _ f g | And f g | Or f g | Implies f g | Iff f g | Xor f g
      | Since f g | SinceT _ _ f g => visit_bi p (visit env f) (visit env g) d m
      | _ => None                                                                (* set_ast raised *)
      end
    end
  end.

(* update(dataset): the list returned for the specification *)
Definition mon_update (p : formula) (d : dict) (batches : list dsig) : option (dict * esig) :=
  match visit batches p d [] with
  | Some (d', _, out) => Some (d', out)
  | None => None
  end.
(* the same when the result only has finite stamps (any formula with a variable) *)
Definition mon_update_fin (p : formula) (d : dict) (batches : list dsig) : option (dict * dsig) :=
  match mon_update p d batches with
  | Some (d', out) => match unlift out with Some o => Some (d', o) | None => None end
  | None => None
  end.

Definition mon_run (p : formula) (d : dict) (bs : list (list dsig)) : option (dict * list esig) :=
  run_g (mon_update p) d bs.
Definition mon_run_fin (p : formula) (d : dict) (bs : list (list dsig)) : option (dict * list dsig) :=
  run_g (mon_update_fin p) d bs.

End Mon.
