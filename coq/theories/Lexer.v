(* Lexer.v — maximal-munch lexer for rtamt/antlr/grammar/tl/LtlLexer.g4
   (the fragment the specification language uses).  Keywords are never
   identifiers; identifiers may contain '.', '/', '$', '_' and digits after the
   first character; operator aliases map to the same token. *)
From Coq Require Import List Bool Arith Ascii String Lia.
Import ListNotations.
Local Open Scope char_scope.

Inductive kw :=
| KAbs | KSqrt | KExp | KPow | KLog | KLn
| KS | KMs | KUs | KNs | KPs
| KTopic | KImport | KInput | KOutput | KInternal | KConst | KReal | KFloat | KLong | KComplex | KInt | KBool
| KAssertion | KSpecification | KFrom
| KNot | KOr | KAnd | KIff | KImplies | KXor | KRise | KFall
| KAlways | KEventually | KUntil | KUnless | KHist | KOnce | KSince | KNext | KPrev | KSNext | KSPrev
| KTrue | KFalse.

Inductive sym :=
| SMinus | SPlus | STimes | SDivide | SLParen | SRParen | SLBrace | SRBrace | SLBrack | SRBrack
| SSemi | SColon | SComma | SDot | SAt | SEqEq | SNeq | SGeq | SLeq | SGt | SLt | SEq.

Inductive token := TKw (k : kw) | TSym (s : sym) | TId (s : string) | TInt (s : string) | TReal (s : string).

Definition kw_table : list (string * kw) := [
  ("abs", KAbs); ("sqrt", KSqrt); ("exp", KExp); ("pow", KPow); ("log", KLog); ("ln", KLn);
  ("s", KS); ("ms", KMs); ("us", KUs); ("ns", KNs); ("ps", KPs);
  ("topic", KTopic); ("import", KImport); ("input", KInput); ("output", KOutput); ("internal", KInternal);
  ("const", KConst); ("real", KReal); ("float", KFloat); ("long", KLong); ("complex", KComplex); ("int", KInt); ("bool", KBool);
  ("assertion", KAssertion); ("specification", KSpecification); ("from", KFrom);
  ("not", KNot); ("or", KOr); ("and", KAnd); ("iff", KIff); ("implies", KImplies); ("xor", KXor);
  ("rise", KRise); ("fall", KFall);
  ("always", KAlways); ("G", KAlways); ("eventually", KEventually); ("F", KEventually);
  ("until", KUntil); ("U", KUntil); ("unless", KUnless); ("W", KUnless);
  ("historically", KHist); ("H", KHist); ("once", KOnce); ("O", KOnce); ("since", KSince); ("S", KSince);
  ("next", KNext); ("X", KNext); ("prev", KPrev); ("Y", KPrev); ("s_next", KSNext); ("sX", KSNext);
  ("s_prev", KSPrev); ("sY", KSPrev);
  ("true", KTrue); ("TRUE", KTrue); ("false", KFalse); ("FALSE", KFalse)
]%string.

(* symbols, longest first *)
Definition sym_table : list (string * token) := [
  ("<->", TKw KIff); ("!==", TSym SNeq);
  ("->", TKw KImplies); ("==", TSym SEqEq); (">=", TSym SGeq); ("<=", TSym SLeq);
  (">", TSym SGt); ("<", TSym SLt); ("=", TSym SEq); ("!", TKw KNot); ("&", TKw KAnd); ("|", TKw KOr);
  ("-", TSym SMinus); ("+", TSym SPlus); ("*", TSym STimes); ("/", TSym SDivide);
  ("(", TSym SLParen); (")", TSym SRParen); ("{", TSym SLBrace); ("}", TSym SRBrace);
  ("[", TSym SLBrack); ("]", TSym SRBrack); (";", TSym SSemi); (":", TSym SColon); (",", TSym SComma);
  (".", TSym SDot); ("@", TSym SAt)
]%string.

Definition chars := list ascii.
Fixpoint to_chars (s : string) : chars := match s with EmptyString => [] | String c r => c :: to_chars r end.
Fixpoint of_chars (l : chars) : string := match l with [] => EmptyString | c :: r => String c (of_chars r) end.

Definition is_digit (c : ascii) : bool := let n := nat_of_ascii c in ((48 <=? n) && (n <=? 57))%nat.
Definition is_letter (c : ascii) : bool :=
  let n := nat_of_ascii c in (((65 <=? n) && (n <=? 90)) || ((97 <=? n) && (n <=? 122)))%nat.
Definition is_id_start (c : ascii) : bool := is_letter c || Ascii.eqb c "_" || Ascii.eqb c "$".
Definition is_id_part (c : ascii) : bool := is_id_start c || is_digit c || Ascii.eqb c "." || Ascii.eqb c "/".
Definition is_space (c : ascii) : bool :=
  let n := nat_of_ascii c in ((n =? 32) || (n =? 9) || (n =? 13) || (n =? 10) || (n =? 12))%nat.
Definition is_hex (c : ascii) : bool :=
  let n := nat_of_ascii c in (is_digit c || ((65 <=? n) && (n <=? 70)) || ((97 <=? n) && (n <=? 102)))%nat.

(* split off the longest prefix satisfying f *)
Fixpoint span (f : ascii -> bool) (l : chars) : chars * chars :=
  match l with
  | c :: r => if f c then let '(a, b) := span f r in (c :: a, b) else ([], l)
  | [] => ([], [])
  end.

Fixpoint prefix (p l : chars) : option chars :=
  match p, l with
  | [], _ => Some l
  | a :: p', b :: l' => if Ascii.eqb a b then prefix p' l' else None
  | _ :: _, [] => None
  end.

Fixpoint first_sym (tbl : list (string * token)) (l : chars) : option (token * chars) :=
  match tbl with
  | [] => None
  | (s, t) :: tbl' => match prefix (to_chars s) l with Some r => Some (t, r) | None => first_sym tbl' l end
  end.

Fixpoint lookup_kw (tbl : list (string * kw)) (s : string) : option kw :=
  match tbl with
  | [] => None
  | (k, v) :: tbl' => if String.eqb k s then Some v else lookup_kw tbl' s
  end.

(* '/*' .*? '*/' : drop up to and including the first "*/" *)
Fixpoint skip_block (l : chars) : option chars :=
  match l with
  | "*" :: "/" :: r => Some r
  | _ :: r => skip_block r
  | [] => None
  end.
Fixpoint skip_line (l : chars) : chars :=
  match l with
  | c :: r => if ((nat_of_ascii c =? 10) || (nat_of_ascii c =? 13))%nat then l else skip_line r
  | [] => []
  end.

(* optional exponent: [eE] [+-]? digit+ *)
Definition exponent (l : chars) : option (chars * chars) :=
  match l with
  | e :: r =>
      if Ascii.eqb e "e" || Ascii.eqb e "E" then
        let '(sg, r1) := match r with
                         | c :: r' => if Ascii.eqb c "+" || Ascii.eqb c "-" then ([c], r') else ([], r)
                         | [] => ([], r) end in
        let '(ds, r2) := span is_digit r1 in
        match ds with [] => None | _ => Some (e :: sg ++ ds, r2) end
      else None
  | [] => None
  end.

(* a numeric literal starting at a digit or at '.' digit *)
Definition number (l : chars) : option (token * chars) :=
  match l with
  | "0" :: x :: r =>
      if (Ascii.eqb x "x" || Ascii.eqb x "X") && (match r with c :: _ => is_hex c | [] => false end) then
        let '(hs, r1) := span is_hex r in Some (TInt (of_chars ("0" :: x :: hs)), r1)
      else if (Ascii.eqb x "b" || Ascii.eqb x "B") && (match r with c :: _ => Ascii.eqb c "0" || Ascii.eqb c "1" | [] => false end) then
        let '(bs, r1) := span (fun c => Ascii.eqb c "0" || Ascii.eqb c "1") r in Some (TInt (of_chars ("0" :: x :: bs)), r1)
      else None
  | _ => None
  end.

Definition decimal (l : chars) : option (token * chars) :=
  let '(ds, r) := span is_digit l in
  match ds with
  | [] =>
      match r with
      | "." :: r1 =>
          let '(fs, r2) := span is_digit r1 in
          match fs with
          | [] => None
          | _ => match exponent r2 with
                 | Some (ex, r3) => Some (TReal (of_chars ("." :: fs ++ ex)), r3)
                 | None => Some (TReal (of_chars ("." :: fs)), r2) end
          end
      | _ => None
      end
  | _ =>
      match r with
      | "." :: r1 =>
          let '(fs, r2) := span is_digit r1 in
          match exponent r2 with
          | Some (ex, r3) => Some (TReal (of_chars (ds ++ "." :: fs ++ ex)), r3)
          | None => Some (TReal (of_chars (ds ++ "." :: fs)), r2) end
      | _ =>
          match exponent r with
          | Some (ex, r3) => Some (TReal (of_chars (ds ++ ex)), r3)
          | None => Some (TInt (of_chars ds), r) end
      end
  end.

(* None = a character that belongs to no token, white space or comment (lexer error) *)
Fixpoint lex (fuel : nat) (l : chars) : option (list token) :=
  match fuel with
  | O => match l with [] => Some [] | _ => None end
  | S fuel' =>
    match l with
    | [] => Some []
    | c :: r =>
      if is_space c then lex fuel' r
      else if is_id_start c then
        let '(w, r1) := span is_id_part l in
        let s := of_chars w in
        option_map (cons (match lookup_kw kw_table s with Some k => TKw k | None => TId s end)) (lex fuel' r1)
      else if is_digit c then
        match number l with
        | Some (t, r1) => option_map (cons t) (lex fuel' r1)
        | None => match decimal l with Some (t, r1) => option_map (cons t) (lex fuel' r1) | None => None end
        end
      else if Ascii.eqb c "." && (match r with d :: _ => is_digit d | [] => false end) then
        match decimal l with Some (t, r1) => option_map (cons t) (lex fuel' r1) | None => None end
      else if Ascii.eqb c "/" && (match r with d :: _ => Ascii.eqb d "*" | [] => false end) then
        match skip_block (tl r) with Some r1 => lex fuel' r1 | None => None end
      else if Ascii.eqb c "/" && (match r with d :: _ => Ascii.eqb d "/" | [] => false end) then
        lex fuel' (skip_line r)
      else
        match first_sym sym_table l with
        | Some (t, r1) => option_map (cons t) (lex fuel' r1)
        | None => None
        end
    end
  end.

Definition lex_string (s : string) : option (list token) := let l := to_chars s in lex (S (List.length l)) l.
