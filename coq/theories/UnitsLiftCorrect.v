(* UnitsLiftCorrect.v — spelling invariance, rejection and exactness of the
   unit normalisation of whole formulas (model in UnitsLift.v). *)
From Coq Require Import ZArith QArith Qreduction List Bool String Lia.
From RV Require Import Val Syntax Rho Offline Online Pastify Units UnitsLift.
From RV Require Dense DenseVisitor DenseOnlineMon.
Import ListNotations.
Local Open Scope Q_scope.

(* two outcomes of the same class, related results *)
Definition orel {A B} (S : A -> B -> Prop) (o1 : outcome A) (o2 : outcome B) : Prop :=
  match o1, o2 with
  | Ok a, Ok b => S a b
  | Rtamt, Rtamt => True
  | Crash, Crash => True
  | _, _ => False
  end.

Lemma orel_eq {A} (o1 o2 : outcome A) : orel eq o1 o2 -> o1 = o2.
Proof. destruct o1, o2; simpl; intros H; try contradiction; congruence. Qed.

Lemma orel_rbind {A1 A2 B1 B2} (S : A1 -> A2 -> Prop) (T : B1 -> B2 -> Prop) o1 o2 k1 k2 :
  orel S o1 o2 -> (forall a1 a2, S a1 a2 -> orel T (k1 a1) (k2 a2)) -> orel T (rbind o1 k1) (rbind o2 k2).
Proof. destruct o1, o2; simpl; intros H K; try contradiction; auto. Qed.

Section Correct.
Context {VS : Val}.

(* same shape, related bounds *)
Inductive brel {B1 B2} (R : B1 -> B2 -> Prop) : bformula B1 -> bformula B2 -> Prop :=
| RVar x : brel R (BVar x) (BVar x)
| RConst c : brel R (BConst c) (BConst c)
| RUn o f1 f2 : brel R f1 f2 -> brel R (BUn o f1) (BUn o f2)
| RBin o f1 f2 g1 g2 : brel R f1 f2 -> brel R g1 g2 -> brel R (BBin o f1 g1) (BBin o f2 g2)
| RUnT o i1 i2 f1 f2 : R i1 i2 -> brel R f1 f2 -> brel R (BUnT o i1 f1) (BUnT o i2 f2)
| RBinT o i1 i2 f1 f2 g1 g2 :
    R i1 i2 -> brel R f1 f2 -> brel R g1 g2 -> brel R (BBinT o i1 f1 g1) (BBinT o i2 f2 g2).

Lemma brel_eq {B} (u1 u2 : bformula B) : brel eq u1 u2 -> u1 = u2.
Proof. intros H. induction H; congruence. Qed.

Lemma brel_refl {B} (R : B -> B -> Prop) (u : bformula B) : (forall b, R b b) -> brel R u u.
Proof. intros HR. induction u; constructor; auto. Qed.

Lemma brel_mono {B1 B2} (R R' : B1 -> B2 -> Prop) u1 u2 :
  (forall a b, R a b -> R' a b) -> brel R u1 u2 -> brel R' u1 u2.
Proof. intros HR H. induction H; constructor; auto. Qed.

Lemma brel_bounds {B1 B2} (R : B1 -> B2 -> Prop) u1 u2 : brel R u1 u2 -> Forall2 R (bounds u1) (bounds u2).
Proof.
  intros H. induction H; simpl; auto using Forall2_app.
Qed.

(* the traversal maps related formulas to related results, and fails in the same class *)
Lemma bmapM_rel {B1 B2 C1 C2} (R : B1 -> B2 -> Prop) (S : C1 -> C2 -> Prop) h1 h2 u1 u2 :
  (forall b1 b2, R b1 b2 -> orel S (h1 b1) (h2 b2)) ->
  brel R u1 u2 -> orel (brel S) (bmapM h1 u1) (bmapM h2 u2).
Proof.
  intros Hh H. induction H; simpl.
  - constructor.
  - constructor.
  - eapply orel_rbind; [exact IHbrel|]. intros a1 a2 Ha. simpl. constructor. exact Ha.
  - eapply orel_rbind; [exact IHbrel1|]. intros a1 a2 Ha.
    eapply orel_rbind; [exact IHbrel2|]. intros c1 c2 Hc. simpl. constructor; assumption.
  - eapply orel_rbind; [exact IHbrel|]. intros a1 a2 Ha.
    eapply orel_rbind; [apply Hh; exact H|]. intros c1 c2 Hc. simpl. constructor; assumption.
  - eapply orel_rbind; [exact IHbrel1|]. intros a1 a2 Ha.
    eapply orel_rbind; [exact IHbrel2|]. intros c1 c2 Hc.
    eapply orel_rbind; [apply Hh; exact H|]. intros d1 d2 Hd. simpl. constructor; assumption.
Qed.

(* a successful traversal converted every bound, in order *)
Lemma bmapM_ok {B C} (h : B -> outcome C) u v :
  bmapM h u = Ok v -> brel (fun b c => h b = Ok c) u v.
Proof.
  revert v. induction u; simpl; intros v H.
  - injection H as <-. constructor.
  - injection H as <-. constructor.
  - destruct (bmapM h u) as [f'| |]; simpl in H; try discriminate. injection H as <-. constructor. auto.
  - destruct (bmapM h u1) as [f'| |]; simpl in H; try discriminate.
    destruct (bmapM h u2) as [g'| |]; simpl in H; try discriminate. injection H as <-. constructor; auto.
  - destruct (bmapM h u) as [f'| |]; simpl in H; try discriminate.
    destruct (h iv) as [c| |] eqn:E; simpl in H; try discriminate. injection H as <-. constructor; auto.
  - destruct (bmapM h u1) as [f'| |]; simpl in H; try discriminate.
    destruct (bmapM h u2) as [g'| |]; simpl in H; try discriminate.
    destruct (h iv) as [c| |] eqn:E; simpl in H; try discriminate. injection H as <-. constructor; auto.
Qed.

Lemma bmapM_ok_bounds {B C} (h : B -> outcome C) u v :
  bmapM h u = Ok v -> Forall2 (fun b c => h b = Ok c) (bounds u) (bounds v).
Proof. intros H. apply brel_bounds. apply bmapM_ok. exact H. Qed.

(* it succeeds when every bound converts *)
Lemma bmapM_total {B C} (h : B -> outcome C) u :
  (forall b, In b (bounds u) -> exists c, h b = Ok c) -> exists v, bmapM h u = Ok v.
Proof.
  induction u; simpl; intros Hall.
  - eauto.
  - eauto.
  - destruct (IHu Hall) as [f' ->]. simpl. eauto.
  - destruct IHu1 as [f' ->]; [intros b Hb; apply Hall; apply in_or_app; auto|].
    destruct IHu2 as [g' ->]; [intros b Hb; apply Hall; apply in_or_app; auto|]. simpl. eauto.
  - destruct IHu as [f' ->]; [intros b Hb; apply Hall; apply in_or_app; auto|].
    destruct (Hall iv) as [c ->]; [apply in_or_app; right; left; reflexivity|]. simpl. eauto.
  - destruct IHu1 as [f' ->]; [intros b Hb; apply Hall; apply in_or_app; auto|].
    destruct IHu2 as [g' ->]; [intros b Hb; apply Hall; apply in_or_app; right; apply in_or_app; auto|].
    destruct (Hall iv) as [c ->]; [apply in_or_app; right; apply in_or_app; right; left; reflexivity|]. simpl. eauto.
Qed.

(* a failure is the failure of one of the bounds *)
Lemma bmapM_fail {B C} (h : B -> outcome C) u :
  (bmapM h u = Rtamt -> exists b, In b (bounds u) /\ h b = Rtamt) /\
  (bmapM h u = Crash -> exists b, In b (bounds u) /\ h b = Crash).
Proof.
  induction u; simpl.
  - split; discriminate.
  - split; discriminate.
  - destruct IHu as [I1 I2]. destruct (bmapM h u) as [f'| |]; simpl; split; try discriminate; auto.
  - destruct IHu1 as [I1 I2], IHu2 as [J1 J2].
    destruct (bmapM h u1) as [f'| |]; simpl.
    + destruct (bmapM h u2) as [g'| |]; simpl; split; try discriminate; intros H.
      * destruct (J1 H) as [b [Hb E]]. exists b. split; [apply in_or_app; auto|exact E].
      * destruct (J2 H) as [b [Hb E]]. exists b. split; [apply in_or_app; auto|exact E].
    + split; try discriminate. intros H. destruct (I1 H) as [b [Hb E]]. exists b. split; [apply in_or_app; auto|exact E].
    + split; try discriminate. intros H. destruct (I2 H) as [b [Hb E]]. exists b. split; [apply in_or_app; auto|exact E].
  - destruct IHu as [I1 I2].
    destruct (bmapM h u) as [f'| |]; simpl.
    + destruct (h iv) as [c| |] eqn:E; simpl; split; try discriminate; intros _;
        exists iv; (split; [apply in_or_app; right; left; reflexivity|exact E]).
    + split; try discriminate. intros H. destruct (I1 H) as [b [Hb E]]. exists b. split; [apply in_or_app; auto|exact E].
    + split; try discriminate. intros H. destruct (I2 H) as [b [Hb E]]. exists b. split; [apply in_or_app; auto|exact E].
  - destruct IHu1 as [I1 I2], IHu2 as [J1 J2].
    destruct (bmapM h u1) as [f'| |]; simpl.
    + destruct (bmapM h u2) as [g'| |]; simpl.
      * destruct (h iv) as [c| |] eqn:E; simpl; split; try discriminate; intros _;
          exists iv; (split; [apply in_or_app; right; apply in_or_app; right; left; reflexivity|exact E]).
      * split; try discriminate. intros H. destruct (J1 H) as [b [Hb E]]. exists b.
        split; [apply in_or_app; right; apply in_or_app; auto|exact E].
      * split; try discriminate. intros H. destruct (J2 H) as [b [Hb E]]. exists b.
        split; [apply in_or_app; right; apply in_or_app; auto|exact E].
    + split; try discriminate. intros H. destruct (I1 H) as [b [Hb E]]. exists b. split; [apply in_or_app; auto|exact E].
    + split; try discriminate. intros H. destruct (I2 H) as [b [Hb E]]. exists b. split; [apply in_or_app; auto|exact E].
Qed.

Lemma Forall2_in_l {A B} (R : A -> B -> Prop) l1 l2 a : Forall2 R l1 l2 -> In a l1 -> exists b, In b l2 /\ R a b.
Proof.
  intros H. induction H; simpl; intros Hin; [contradiction|].
  destruct Hin as [<-|Hin]; [eauto|]. destruct (IHForall2 Hin) as [b [Hb Hr]]. eauto.
Qed.

Lemma Forall2_weaken {A B} (R R' : A -> B -> Prop) l1 l2 :
  (forall a b, R a b -> R' a b) -> Forall2 R l1 l2 -> Forall2 R' l1 l2.
Proof. intros HR H. induction H; constructor; auto. Qed.

Lemma Forall2_comp {A B C} (R : A -> B -> Prop) (S : B -> C -> Prop) l1 l2 l3 :
  Forall2 R l1 l2 -> Forall2 S l2 l3 -> Forall2 (fun a c => exists b, R a b /\ S b c) l1 l3.
Proof.
  intros H. revert l3. induction H; intros l3 H3; inversion H3; subst; constructor; eauto.
Qed.

(* a bound that does not convert makes the traversal fail *)
Lemma bmapM_not_ok {B C} (h : B -> outcome C) u b :
  In b (bounds u) -> (forall c, h b <> Ok c) -> forall v, bmapM h u <> Ok v.
Proof.
  intros Hin Hb v H. apply bmapM_ok_bounds in H.
  destruct (Forall2_in_l _ _ _ _ H Hin) as [c [_ Hc]]. exact (Hb c Hc).
Qed.

(* core formulas are exactly the formulas with sample-count bounds *)
Lemma to_of_formula (p : formula) : to_formula (of_formula p) = p.
Proof. induction p; simpl; congruence. Qed.

Lemma of_to_formula (u : bformula (nat * nat)) : of_formula (to_formula u) = u.
Proof.
  induction u; simpl.
  - reflexivity.
  - reflexivity.
  - destruct o; simpl; congruence.
  - destruct o; simpl; congruence.
  - destruct iv as [b e]. destruct o; simpl; congruence.
  - destruct iv as [b e]. destruct o; simpl; congruence.
Qed.

Lemma bounds_bmap {B C} (h : B -> C) (u : bformula B) : bounds (bmap h u) = map h (bounds u).
Proof. induction u; simpl; rewrite ?map_app; simpl; congruence. Qed.

Lemma bmap_rel {B1 B2 C} (R : B1 -> B2 -> Prop) (h1 : B1 -> C) (h2 : B2 -> C) u1 u2 :
  (forall b1 b2, R b1 b2 -> h1 b1 = h2 b2) -> brel R u1 u2 -> bmap h1 u1 = bmap h2 u2.
Proof. intros Hh H. induction H; simpl; f_equal; auto. Qed.


(* ---------- rational arithmetic ---------- *)

Lemma Qle_bool_ext a a' b b' : a == a' -> b == b' -> Qle_bool a b = Qle_bool a' b'.
Proof.
  intros Ha Hb. destruct (Qle_bool a b) eqn:E1, (Qle_bool a' b') eqn:E2; try reflexivity.
  - apply Qle_bool_iff in E1. rewrite Ha, Hb in E1. apply Qle_bool_iff in E1. congruence.
  - apply Qle_bool_iff in E2. rewrite <- Ha, <- Hb in E2. apply Qle_bool_iff in E2. congruence.
Qed.

Lemma Qeq_bool_ext a a' b b' : a == a' -> b == b' -> Qeq_bool a b = Qeq_bool a' b'.
Proof.
  intros Ha Hb. destruct (Qeq_bool a b) eqn:E1, (Qeq_bool a' b') eqn:E2; try reflexivity.
  - apply Qeq_bool_iff in E1. rewrite Ha, Hb in E1. apply Qeq_bool_iff in E1. congruence.
  - apply Qeq_bool_iff in E2. rewrite <- Ha, <- Hb in E2. apply Qeq_bool_iff in E2. congruence.
Qed.

Lemma uval_pos u : 0 < inject_Z (uval u).
Proof. change 0 with (inject_Z 0). rewrite <- Zlt_Qlt. destruct u; simpl; lia. Qed.

Lemma Qle_bool_0_scale q c : 0 < c -> Qle_bool 0 q = Qle_bool 0 (q * c).
Proof.
  intros Hc. destruct (Qle_bool 0 q) eqn:E1, (Qle_bool 0 (q * c)) eqn:E2; try reflexivity.
  - apply Qle_bool_iff in E1. assert (H : 0 <= q * c) by (apply Qmult_le_0_compat; [exact E1|apply Qlt_le_weak; exact Hc]).
    apply Qle_bool_iff in H. congruence.
  - apply Qle_bool_iff in E2. assert (H : 0 <= q).
    { apply (Qmult_le_r 0 q c Hc). rewrite Qmult_0_l. exact E2. }
    apply Qle_bool_iff in H. congruence.
Qed.

Lemma Qle_bool_scale_0 q c : 0 < c -> Qle_bool q 0 = Qle_bool (q * c) 0.
Proof.
  intros Hc. destruct (Qle_bool q 0) eqn:E1, (Qle_bool (q * c) 0) eqn:E2; try reflexivity.
  - apply Qle_bool_iff in E1. assert (H : q * c <= 0).
    { rewrite <- (Qmult_0_l c). apply (Qmult_le_r q 0 c Hc). exact E1. }
    apply Qle_bool_iff in H. congruence.
  - apply Qle_bool_iff in E2. assert (H : q <= 0).
    { apply (Qmult_le_r q 0 c Hc). rewrite Qmult_0_l. exact E2. }
    apply Qle_bool_iff in H. congruence.
Qed.

(* ---------- same durations ---------- *)

Definition iv_equiv (du1 du2 : tunit) (i1 i2 : interval) : Prop :=
  begin_ns du1 i1 == begin_ns du2 i2 /\ end_ns du1 i1 == end_ns du2 i2.

(* two spelled bounds denote the same two durations (or neither denotes any: a bound constant that is not declared) *)
Definition same_duration (du1 : tunit) (ce1 : cenv) (du2 : tunit) (ce2 : cenv) (ub1 ub2 : ubound) : Prop :=
  orel (iv_equiv du1 du2) (resolve_bound ce1 ub1) (resolve_bound ce2 ub2).

Definition same_period (st1 st2 : settings) : Prop :=
  period_q (s_p st1) (s_pu st1) == period_q (s_p st2) (s_pu st2).

Lemma nonneg_begin du i : Qle_bool 0 (ib i) = Qle_bool 0 (begin_ns du i).
Proof. unfold begin_ns, ns. apply Qle_bool_0_scale. apply uval_pos. Qed.

Lemma check_interval_rel du1 du2 i1 i2 :
  iv_equiv du1 du2 i1 i2 -> orel (iv_equiv du1 du2) (check_interval du1 i1) (check_interval du2 i2).
Proof.
  intros [Hb He]. unfold check_interval.
  rewrite (nonneg_begin du1 i1), (nonneg_begin du2 i2).
  rewrite (Qle_bool_ext _ _ _ _ (Qeq_refl 0) Hb), (Qle_bool_ext _ _ _ _ Hb He).
  destruct (Qle_bool 0 (begin_ns du2 i2)); simpl; [|exact I].
  destruct (Qle_bool (begin_ns du2 i2) (end_ns du2 i2)); simpl; [|exact I].
  split; assumption.
Qed.

Lemma check_interval_ok du i j : check_interval du i = Ok j -> j = i /\ 0 <= ib i /\ begin_ns du i <= end_ns du i.
Proof.
  unfold check_interval. destruct (Qle_bool 0 (ib i)) eqn:E1; [|discriminate].
  destruct (Qle_bool (begin_ns du i) (end_ns du i)) eqn:E2; [|discriminate].
  intros H. injection H as <-. apply Qle_bool_iff in E1. apply Qle_bool_iff in E2. auto.
Qed.

Lemma check_interval_no_crash du i : check_interval du i <> Crash.
Proof. unfold check_interval. destruct (Qle_bool 0 (ib i)); [destruct (Qle_bool (begin_ns du i) (end_ns du i))|]; discriminate. Qed.

Lemma resolve_bound_no_crash ce ub : resolve_bound ce ub <> Crash.
Proof.
  unfold resolve_bound, end_val.
  destruct (u_b ub) as [q|x]; simpl.
  - destruct (u_e ub) as [q'|y]; simpl; [discriminate|]. destruct (clookup ce y) as [[q'|]|]; simpl; discriminate.
  - destruct (clookup ce x) as [[q|]|]; simpl; try discriminate.
    destruct (u_e ub) as [q'|y]; simpl; [discriminate|]. destruct (clookup ce y) as [[q'|]|]; simpl; discriminate.
Qed.

Lemma parse_bound_no_crash du ce ub : parse_bound du ce ub <> Crash.
Proof.
  unfold parse_bound. pose proof (resolve_bound_no_crash ce ub) as H.
  destruct (resolve_bound ce ub) as [i| |]; simpl; [apply check_interval_no_crash|discriminate|congruence].
Qed.

Lemma parse_bound_rel du1 ce1 du2 ce2 ub1 ub2 :
  same_duration du1 ce1 du2 ce2 ub1 ub2 ->
  orel (iv_equiv du1 du2) (parse_bound du1 ce1 ub1) (parse_bound du2 ce2 ub2).
Proof.
  intros H. unfold parse_bound. eapply orel_rbind; [exact H|]. intros i1 i2 Hi. apply check_interval_rel. exact Hi.
Qed.

Lemma parse_bounds_rel du1 ce1 du2 ce2 u1 u2 :
  brel (same_duration du1 ce1 du2 ce2) u1 u2 ->
  orel (brel (iv_equiv du1 du2)) (parse_bounds du1 ce1 u1) (parse_bounds du2 ce2 u2).
Proof. intros H. unfold parse_bounds. eapply bmapM_rel; [|exact H]. intros b1 b2 Hb. apply parse_bound_rel. exact Hb. Qed.

(* ---------- discrete time ---------- *)

Lemma to_samples_z_spelling du1 p1 pu1 i1 du2 p2 pu2 i2 :
  iv_equiv du1 du2 i1 i2 -> period_q p1 pu1 == period_q p2 pu2 ->
  to_samples_z du1 p1 pu1 i1 = to_samples_z du2 p2 pu2 i2.
Proof.
  intros [Hb He] Hp. unfold to_samples_z.
  rewrite (Qeq_bool_ext _ _ _ _ Hp (Qeq_refl 0)).
  destruct (Qeq_bool (period_q p2 pu2) 0); [reflexivity|].
  assert (E1 : begin_ns du1 i1 / period_q p1 pu1 == begin_ns du2 i2 / period_q p2 pu2) by (rewrite Hb, Hp; reflexivity).
  assert (E2 : end_ns du1 i1 / period_q p1 pu1 == end_ns du2 i2 / period_q p2 pu2) by (rewrite He, Hp; reflexivity).
  rewrite (is_int_ext _ _ E1), (is_int_ext _ _ E2), (Qred_complete _ _ E1), (Qred_complete _ _ E2). reflexivity.
Qed.

Lemma to_samples_q_spelling du1 p1 pu1 i1 du2 p2 pu2 i2 :
  iv_equiv du1 du2 i1 i2 -> period_q p1 pu1 == period_q p2 pu2 ->
  to_samples_q du1 p1 pu1 i1 = to_samples_q du2 p2 pu2 i2.
Proof. intros Hi Hp. unfold to_samples_q. rewrite (to_samples_z_spelling _ _ _ _ _ _ _ _ Hi Hp). reflexivity. Qed.

Lemma period_sign p pu : Qle_bool p 0 = Qle_bool (period_q p pu) 0.
Proof. unfold period_q. apply Qle_bool_scale_0. apply uval_pos. Qed.

Lemma normalize_ivs_spelling st1 st2 v1 v2 :
  same_period st1 st2 -> brel (iv_equiv (s_du st1) (s_du st2)) v1 v2 -> normalize_ivs st1 v1 = normalize_ivs st2 v2.
Proof.
  intros Hp Hv. unfold normalize_ivs. f_equal. apply orel_eq.
  assert (H : orel (brel eq) (bmapM (to_samples_q (s_du st1) (s_p st1) (s_pu st1)) v1)
                             (bmapM (to_samples_q (s_du st2) (s_p st2) (s_pu st2)) v2)).
  { eapply bmapM_rel; [|exact Hv]. intros i1 i2 Hi. rewrite (to_samples_q_spelling _ _ _ _ _ _ _ _ Hi Hp).
    destruct (to_samples_q (s_du st2) (s_p st2) (s_pu st2) i2); simpl; auto. }
  destruct (bmapM (to_samples_q (s_du st1) (s_p st1) (s_pu st1)) v1),
           (bmapM (to_samples_q (s_du st2) (s_p st2) (s_pu st2)) v2); simpl in *; try contradiction; auto.
  apply brel_eq. exact H.
Qed.

(* MAIN: specifications of the same shape whose corresponding bounds denote the same durations, under settings whose
   sampling periods denote the same duration, are normalised to the same core formula, or fail in the same class *)
Theorem normalize_spelling st1 ce1 u1 st2 ce2 u2 :
  same_period st1 st2 ->
  brel (same_duration (s_du st1) ce1 (s_du st2) ce2) u1 u2 ->
  normalize st1 ce1 u1 = normalize st2 ce2 u2.
Proof.
  intros Hp Hu. unfold normalize.
  rewrite (period_sign (s_p st1) (s_pu st1)), (period_sign (s_p st2) (s_pu st2)).
  rewrite (Qle_bool_ext _ _ _ _ Hp (Qeq_refl 0)).
  destruct (Qle_bool (period_q (s_p st2) (s_pu st2)) 0); [reflexivity|].
  pose proof (parse_bounds_rel _ _ _ _ _ _ Hu) as H.
  destruct (parse_bounds (s_du st1) ce1 u1) as [v1| |], (parse_bounds (s_du st2) ce2 u2) as [v2| |];
    simpl in *; try contradiction; try reflexivity.
  apply normalize_ivs_spelling; assumption.
Qed.


(* ---------- no other exception, rejection, exactness ---------- *)

Lemma period_nonzero p pu : Qle_bool p 0 = false -> Qeq_bool (period_q p pu) 0 = false.
Proof.
  intros H. destruct (Qeq_bool (period_q p pu) 0) eqn:E; [|reflexivity].
  apply Qeq_bool_iff in E. rewrite (period_sign p pu) in H.
  assert (L : period_q p pu <= 0) by (rewrite E; apply Qle_refl). apply Qle_bool_iff in L. congruence.
Qed.

Lemma period_positive p pu : Qle_bool p 0 = false -> 0 < period_q p pu.
Proof.
  intros H. rewrite (period_sign p pu) in H. apply Qnot_le_lt. intros L. apply Qle_bool_iff in L. congruence.
Qed.

Lemma to_samples_z_no_crash du p pu i : Qle_bool p 0 = false -> to_samples_z du p pu i <> Crash.
Proof.
  intros H. unfold to_samples_z. rewrite (period_nonzero p pu H).
  destruct (negb (is_int (begin_ns du i / period_q p pu))); [discriminate|].
  destruct (negb (is_int (end_ns du i / period_q p pu))); [discriminate|].
  destruct (maxsize <=? Qnum (Qred (end_ns du i / period_q p pu)))%Z; discriminate.
Qed.

Lemma to_samples_q_no_crash du p pu i : Qle_bool p 0 = false -> to_samples_q du p pu i <> Crash.
Proof.
  intros H. unfold to_samples_q. pose proof (to_samples_z_no_crash du p pu i H) as N.
  destruct (to_samples_z du p pu i); simpl; congruence.
Qed.

Lemma to_samples_q_reject du p pu i :
  Qle_bool p 0 = false ->
  is_int (begin_ns du i / period_q p pu) = false \/ is_int (end_ns du i / period_q p pu) = false ->
  to_samples_q du p pu i = Rtamt.
Proof.
  intros H Hoff. unfold to_samples_q, to_samples_z. rewrite (period_nonzero p pu H).
  destruct (is_int (begin_ns du i / period_q p pu)) eqn:E1; simpl; [|reflexivity].
  destruct Hoff as [Hoff|Hoff]; [discriminate|]. rewrite Hoff. reflexivity.
Qed.

(* the whole pipeline raises RTAMTException or nothing *)
Theorem normalize_no_crash st ce u : normalize st ce u <> Crash.
Proof.
  unfold normalize. destruct (Qle_bool (s_p st) 0) eqn:Ep; [discriminate|].
  destruct (parse_bounds (s_du st) ce u) as [v| |] eqn:P; simpl.
  - unfold normalize_ivs.
    destruct (bmapM (to_samples_q (s_du st) (s_p st) (s_pu st)) v) as [x| |] eqn:M; simpl; try discriminate.
    destruct (proj2 (bmapM_fail _ v) M) as [b [_ Hb]]. exfalso. exact (to_samples_q_no_crash _ _ _ _ Ep Hb).
  - discriminate.
  - unfold parse_bounds in P. destruct (proj2 (bmapM_fail _ u) P) as [b [_ Hb]]. exfalso. exact (parse_bound_no_crash _ _ _ Hb).
Qed.

(* MAIN: one bound that is not a whole number of sampling periods and the specification is rejected *)
Theorem normalize_reject st ce u ub i :
  In ub (bounds u) -> resolve_bound ce ub = Ok i ->
  is_int (begin_ns (s_du st) i / period_q (s_p st) (s_pu st)) = false \/
  is_int (end_ns (s_du st) i / period_q (s_p st) (s_pu st)) = false ->
  normalize st ce u = Rtamt.
Proof.
  intros Hin Hres Hoff.
  pose proof (normalize_no_crash st ce u) as NC. revert NC.
  unfold normalize. destruct (Qle_bool (s_p st) 0) eqn:Ep; [reflexivity|].
  destruct (parse_bounds (s_du st) ce u) as [v| |] eqn:P; simpl; intros NC; [|reflexivity|congruence].
  unfold normalize_ivs in *.
  destruct (bmapM (to_samples_q (s_du st) (s_p st) (s_pu st)) v) as [x| |] eqn:M; simpl in *; [|reflexivity|congruence].
  exfalso. unfold parse_bounds in P.
  destruct (Forall2_in_l _ _ _ _ (bmapM_ok_bounds _ _ _ P) Hin) as [i' [Hi' Hp]].
  unfold parse_bound in Hp. rewrite Hres in Hp. simpl in Hp.
  destruct (check_interval_ok _ _ _ Hp) as [-> _].
  apply (bmapM_not_ok (to_samples_q (s_du st) (s_p st) (s_pu st)) v i Hi') with (v := x); [|exact M].
  intros c Hc. rewrite (to_samples_q_reject _ _ _ _ Ep Hoff) in Hc. discriminate.
Qed.

Lemma int_quot_exact q sp :
  0 < sp -> 0 <= q -> is_int (q / sp) = true -> inject_Z (Z.of_nat (Z.to_nat (Qnum (Qred (q / sp))))) * sp == q.
Proof.
  intros Hsp Hq Hi.
  assert (Hd : 0 <= q / sp).
  { apply Qle_shift_div_l; [exact Hsp|]. rewrite Qmult_0_l. exact Hq. }
  pose proof (is_int_spec _ Hi) as Hs.
  assert (Hn : (0 <= Qnum (Qred (q / sp)))%Z).
  { rewrite Hs in Hd. change 0 with (inject_Z 0) in Hd. rewrite <- Zle_Qle in Hd. exact Hd. }
  rewrite Z2Nat.id by exact Hn. rewrite <- Hs. field.
  intros Hc. rewrite Hc in Hsp. exact (Qlt_irrefl 0 Hsp).
Qed.

Lemma to_samples_q_exact du p pu i b e :
  Qle_bool p 0 = false -> 0 <= begin_ns du i -> begin_ns du i <= end_ns du i ->
  to_samples_q du p pu i = Ok (b, e) ->
  inject_Z (Z.of_nat b) * period_q p pu == begin_ns du i /\ inject_Z (Z.of_nat e) * period_q p pu == end_ns du i.
Proof.
  intros Hp Hb Hbe. unfold to_samples_q, to_samples_z. rewrite (period_nonzero p pu Hp).
  destruct (is_int (begin_ns du i / period_q p pu)) eqn:E1; cbn [negb rmap rbind]; [|discriminate].
  destruct (is_int (end_ns du i / period_q p pu)) eqn:E2; cbn [negb rmap rbind]; [|discriminate].
  destruct (maxsize <=? Qnum (Qred (end_ns du i / period_q p pu)))%Z; cbn [negb rmap rbind fst snd]; [discriminate|].
  intros H.
  assert (Eb : Z.to_nat (Qnum (Qred (begin_ns du i / period_q p pu))) = b) by congruence.
  assert (Ee : Z.to_nat (Qnum (Qred (end_ns du i / period_q p pu))) = e) by congruence.
  rewrite <- Eb, <- Ee. clear H Eb Ee.
  pose proof (period_positive p pu Hp) as Hsp.
  split; apply int_quot_exact; auto. eapply Qle_trans; eassumption.
Qed.

(* MAIN: nothing is rounded: every sample count of the normalised formula times the sampling period IS the written duration *)
Theorem normalize_exact st ce u p :
  normalize st ce u = Ok p ->
  Forall2 (fun ub be => exists i, resolve_bound ce ub = Ok i /\
             inject_Z (Z.of_nat (fst be)) * period_q (s_p st) (s_pu st) == begin_ns (s_du st) i /\
             inject_Z (Z.of_nat (snd be)) * period_q (s_p st) (s_pu st) == end_ns (s_du st) i)
          (bounds u) (bounds (of_formula p)).
Proof.
  unfold normalize. destruct (Qle_bool (s_p st) 0) eqn:Ep; [discriminate|].
  destruct (parse_bounds (s_du st) ce u) as [v| |] eqn:P; simpl; try discriminate.
  unfold normalize_ivs.
  destruct (bmapM (to_samples_q (s_du st) (s_p st) (s_pu st)) v) as [x| |] eqn:M; simpl; try discriminate.
  intros H. injection H as <-. rewrite of_to_formula.
  unfold parse_bounds in P.
  pose proof (Forall2_comp _ _ _ _ _ (bmapM_ok_bounds _ _ _ P) (bmapM_ok_bounds _ _ _ M)) as F.
  eapply Forall2_weaken; [|exact F].
  intros ub [b e] [i [Hpb Hts]]. simpl.
  unfold parse_bound in Hpb. destruct (resolve_bound ce ub) as [i0| |] eqn:R; simpl in Hpb; try discriminate.
  destruct (check_interval_ok _ _ _ Hpb) as [-> [H0 Hbe]].
  exists i0. split; [reflexivity|].
  apply to_samples_q_exact; auto.
  apply Qle_bool_iff. rewrite <- nonneg_begin. apply Qle_bool_iff. exact H0.
Qed.

(* the conversion of one bound is the one of Units.v when the period is a whole number of its unit *)
Lemma to_samples_q_units du (p : Z) pu i be :
  to_samples_q du (inject_Z p) pu i = Ok be -> to_samples du p pu i = Ok be.
Proof.
  assert (Hp : period_q (inject_Z p) pu == period_ns p pu).
  { unfold period_q, period_ns. rewrite inject_Z_mult. reflexivity. }
  unfold to_samples_q, to_samples_z, to_samples, to_nat_q.
  destruct (Qeq_bool (period_q (inject_Z p) pu) 0); cbn [rmap rbind]; [discriminate|].
  assert (E1 : begin_ns du i / period_q (inject_Z p) pu == begin_ns du i / period_ns p pu) by (rewrite Hp; reflexivity).
  assert (E2 : end_ns du i / period_q (inject_Z p) pu == end_ns du i / period_ns p pu) by (rewrite Hp; reflexivity).
  rewrite (is_int_ext _ _ E1), (is_int_ext _ _ E2), (Qred_complete _ _ E1), (Qred_complete _ _ E2).
  destruct (is_int (begin_ns du i / period_ns p pu)); cbn [negb andb rmap rbind]; [|discriminate].
  destruct (is_int (end_ns du i / period_ns p pu)); cbn [negb andb rmap rbind]; [|discriminate].
  destruct (maxsize <=? Qnum (Qred (end_ns du i / period_ns p pu)))%Z; cbn [rmap rbind fst snd]; [discriminate|].
  intros H. exact H.
Qed.

(* 'unless' keeps related bounds related *)
Definition zero_begin (ub : ubound) : ubound := {| u_b := ULit 0; u_bu := u_bu ub; u_e := u_e ub; u_eu := u_eu ub |}.

Lemma resolve_zero_begin ce ub i :
  resolve_bound ce ub = Ok i ->
  resolve_bound ce (zero_begin ub) = Ok {| ib := 0; ie := ie i; ibu := ibu i; ieu := ieu i |}.
Proof.
  unfold resolve_bound. simpl.
  destruct (end_val ce (u_b ub)) as [qb| |]; simpl; try discriminate.
  destruct (end_val ce (u_e ub)) as [qe| |]; simpl; try discriminate.
  intros H. injection H as <-. reflexivity.
Qed.

Lemma unless_rel du1 ce1 du2 ce2 ub1 ub2 f1 f2 g1 g2 i1 :
  resolve_bound ce1 ub1 = Ok i1 ->
  same_duration du1 ce1 du2 ce2 ub1 ub2 ->
  brel (same_duration du1 ce1 du2 ce2) f1 f2 -> brel (same_duration du1 ce1 du2 ce2) g1 g2 ->
  brel (same_duration du1 ce1 du2 ce2) (unless_t ub1 f1 g1) (unless_t ub2 f2 g2).
Proof.
  intros Hr Hb Hf Hg. unfold unless_t. constructor; constructor; auto.
  fold (zero_begin ub1). fold (zero_begin ub2).
  unfold same_duration in *. rewrite Hr in Hb.
  destruct (resolve_bound ce2 ub2) as [i2| |] eqn:R2; simpl in Hb; try contradiction.
  rewrite (resolve_zero_begin _ _ _ Hr), (resolve_zero_begin _ _ _ R2). simpl.
  destruct Hb as [_ He]. split.
  - unfold begin_ns, ns. simpl. rewrite !Qmult_0_l. reflexivity.
  - exact He.
Qed.

(* the log that is compared with the implementation is the list of bounds of the normalised formula *)
Lemma bmapM_rmap {B C D} (h : B -> outcome C) (g : C -> D) (u : bformula B) :
  bmapM (fun b => rmap g (h b)) u = rmap (bmap g) (bmapM h u).
Proof.
  induction u; simpl; try reflexivity.
  - rewrite IHu. destruct (bmapM h u); reflexivity.
  - rewrite IHu1, IHu2. destruct (bmapM h u1); simpl; try reflexivity. destruct (bmapM h u2); reflexivity.
  - rewrite IHu. destruct (bmapM h u); simpl; try reflexivity. destruct (h iv); reflexivity.
  - rewrite IHu1, IHu2. destruct (bmapM h u1); simpl; try reflexivity. destruct (bmapM h u2); simpl; try reflexivity.
    destruct (h iv); reflexivity.
Qed.

Definition znat (be : Z * Z) : nat * nat := (Z.to_nat (fst be), Z.to_nat (snd be)).

Lemma normalize_log_spec st ce u :
  rmap (fun p => bounds (of_formula p)) (normalize st ce u) = rmap (map znat) (normalize_log st ce u).
Proof.
  unfold normalize, normalize_log. destruct (Qle_bool (s_p st) 0); [reflexivity|].
  destruct (parse_bounds (s_du st) ce u) as [v| |]; simpl; try reflexivity.
  unfold normalize_ivs.
  change (to_samples_q (s_du st) (s_p st) (s_pu st)) with (fun i => rmap znat (to_samples_z (s_du st) (s_p st) (s_pu st) i)).
  rewrite bmapM_rmap.
  destruct (bmapM (to_samples_z (s_du st) (s_p st) (s_pu st)) v) as [x| |]; simpl; try reflexivity.
  rewrite of_to_formula, bounds_bmap. reflexivity.
Qed.

(* ---------- dense time ---------- *)

Lemma to_dense_spelling du i1 i2 : iv_equiv du du i1 i2 -> to_dense du i1 = to_dense du i2.
Proof.
  intros [Hb He]. unfold to_dense, to_default. cbn [fst snd].
  assert (E1 : begin_ns du i1 / inject_Z (uval du) == begin_ns du i2 / inject_Z (uval du)) by (rewrite Hb; reflexivity).
  assert (E2 : end_ns du i1 / inject_Z (uval du) == end_ns du i2 / inject_Z (uval du)) by (rewrite He; reflexivity).
  rewrite (Qred_complete _ _ E1), (Qred_complete _ _ E2). reflexivity.
Qed.

(* dense time, same default unit (the unit of the time stamps): equivalent spellings give the same bounds *)
Theorem normalize_dense_spelling du ce1 u1 ce2 u2 :
  brel (same_duration du ce1 du ce2) u1 u2 -> normalize_dense du ce1 u1 = normalize_dense du ce2 u2.
Proof.
  intros Hu. unfold normalize_dense.
  pose proof (parse_bounds_rel _ _ _ _ _ _ Hu) as H.
  destruct (parse_bounds du ce1 u1) as [v1| |], (parse_bounds du ce2 u2) as [v2| |];
    simpl in *; try contradiction; try reflexivity.
  apply orel_eq.
  assert (K : orel (brel eq) (bmapM (to_dense du) v1) (bmapM (to_dense du) v2)).
  { eapply bmapM_rel; [|exact H]. intros i1 i2 Hi. rewrite (to_dense_spelling _ _ _ Hi).
    destruct (to_dense du i2); simpl; auto. }
  destruct (bmapM (to_dense du) v1), (bmapM (to_dense du) v2); simpl in *; try contradiction; auto.
  f_equal. apply brel_eq. exact K.
Qed.

Lemma to_dense_no_crash du i : to_dense du i <> Crash.
Proof.
  unfold to_dense. destruct (dense_overflow (Qred (fst (to_default du i)))); [discriminate|].
  destruct (dense_overflow (Qred (snd (to_default du i)))); discriminate.
Qed.

(* dense time never rejects a bound for being off a grid: the only failures are those of the parser and a bound
   beyond the floats *)
Theorem normalize_dense_total du ce u v :
  parse_bounds du ce u = Ok v ->
  (forall i, In i (bounds v) ->
     float_overflow (Qred (fst (to_default du i))) = false /\ float_overflow (Qred (snd (to_default du i))) = false) ->
  exists q, normalize_dense du ce u = Ok q.
Proof.
  intros P Hall. unfold normalize_dense. rewrite P. simpl.
  apply bmapM_total. intros i Hi. destruct (Hall i Hi) as [H1 H2]. unfold to_dense, dense_overflow.
  rewrite H1, H2. eauto.
Qed.

Theorem normalize_dense_no_crash du ce u : normalize_dense du ce u <> Crash.
Proof.
  unfold normalize_dense. destruct (parse_bounds du ce u) as [v| |] eqn:P; simpl.
  - intros M. destruct (proj2 (bmapM_fail _ v) M) as [b [_ Hb]]. exact (to_dense_no_crash _ _ Hb).
  - discriminate.
  - unfold parse_bounds in P. destruct (proj2 (bmapM_fail _ u) P) as [b [_ Hb]]. exfalso. exact (parse_bound_no_crash _ _ _ Hb).
Qed.

(* exact: the dense bound times the default unit is the written duration *)
Lemma to_dense_exact du i be :
  to_dense du i = Ok be ->
  fst be * inject_Z (uval du) == begin_ns du i /\ snd be * inject_Z (uval du) == end_ns du i.
Proof.
  unfold to_dense. destruct (dense_overflow (Qred (fst (to_default du i)))); [discriminate|].
  destruct (dense_overflow (Qred (snd (to_default du i)))); [discriminate|].
  intros H.
  assert (Ebe : be = (Qred (fst (to_default du i)), Qred (snd (to_default du i)))) by congruence.
  subst be. cbn [fst snd]. rewrite !Qred_correct. apply to_default_exact.
Qed.

Lemma brel_square {A1 A2 C1 C2} (R : A1 -> A2 -> Prop) (P1 : A1 -> C1 -> Prop) (P2 : A2 -> C2 -> Prop) v1 v2 q1 q2 :
  brel R v1 v2 -> brel P1 v1 q1 -> brel P2 v2 q2 ->
  brel (fun c1 c2 => exists a1 a2, R a1 a2 /\ P1 a1 c1 /\ P2 a2 c2) q1 q2.
Proof.
  intros H. revert q1 q2. induction H; intros q1 q2 K1 K2; inversion K1; subst; inversion K2; subst; constructor; eauto.
Qed.

Lemma forallb_Forall2 {A B} (f : A -> bool) (g : B -> bool) l1 l2 :
  Forall2 (fun a b => f a = g b) l1 l2 -> forallb f l1 = forallb g l2.
Proof. intros H. induction H; simpl; congruence. Qed.

Lemma quot_scale x1 t1 U1 x2 t2 U2 :
  0 < U1 -> 0 < U2 -> 0 < t1 -> 0 < t2 -> x1 * U1 == x2 * U2 -> t1 * U1 == t2 * U2 -> x1 / t1 == x2 / t2.
Proof.
  intros HU1 HU2 Ht1 Ht2 Hx Ht.
  assert (N : forall z, 0 < z -> ~ z == 0) by (intros z Hz Hc; rewrite Hc in Hz; exact (Qlt_irrefl 0 Hz)).
  assert (E1 : x1 / t1 == (x1 * U1) / (t1 * U1)) by (field; split; apply N; assumption).
  assert (E2 : x2 / t2 == (x2 * U2) / (t2 * U2)) by (field; split; apply N; assumption).
  rewrite E1, E2, Hx, Ht. reflexivity.
Qed.

(* dense time, any two default units: when the stamps are counted in ticks that denote the same duration under both
   settings, equivalent spellings give the same core formula of the dense models (and are on the tick grid together) *)
Theorem dense_ticks_spelling du1 tick1 ce1 u1 du2 tick2 ce2 u2 q1 q2 :
  0 < tick1 -> 0 < tick2 ->
  tick1 * inject_Z (uval du1) == tick2 * inject_Z (uval du2) ->
  brel (same_duration du1 ce1 du2 ce2) u1 u2 ->
  normalize_dense du1 ce1 u1 = Ok q1 -> normalize_dense du2 ce2 u2 = Ok q2 ->
  on_ticks tick1 q1 = on_ticks tick2 q2 /\ tick_formula tick1 q1 = tick_formula tick2 q2.
Proof.
  intros Ht1 Ht2 Ht Hu N1 N2. unfold normalize_dense in *.
  pose proof (parse_bounds_rel _ _ _ _ _ _ Hu) as H.
  destruct (parse_bounds du1 ce1 u1) as [v1| |]; simpl in N1; try discriminate.
  destruct (parse_bounds du2 ce2 u2) as [v2| |]; simpl in N2; try discriminate.
  simpl in H.
  pose proof (brel_square _ _ _ _ _ _ _ H (bmapM_ok _ _ _ N1) (bmapM_ok _ _ _ N2)) as Q.
  assert (Q' : brel (fun be1 be2 => fst be1 / tick1 == fst be2 / tick2 /\ snd be1 / tick1 == snd be2 / tick2) q1 q2).
  { eapply brel_mono; [|exact Q]. intros be1 be2 [i1 [i2 [[Hb He] [D1 D2]]]].
    destruct (to_dense_exact _ _ _ D1) as [B1 E1]. destruct (to_dense_exact _ _ _ D2) as [B2 E2].
    split; apply (quot_scale _ _ (inject_Z (uval du1)) _ _ (inject_Z (uval du2))); auto using uval_pos.
    - rewrite B1, B2. exact Hb.
    - rewrite E1, E2. exact He. }
  split.
  - unfold on_ticks. apply forallb_Forall2. eapply Forall2_weaken; [|exact (brel_bounds _ _ _ Q')].
    intros be1 be2 [Hb He]. unfold on_tick. rewrite (is_int_ext _ _ Hb), (is_int_ext _ _ He). reflexivity.
  - unfold tick_formula. f_equal. eapply bmap_rel; [|exact Q'].
    intros be1 be2 [Hb He]. unfold tick_bound. rewrite (to_nat_q_ext _ _ Hb), (to_nat_q_ext _ _ He). reflexivity.
Qed.

End Correct.

(* ---------- the monitors ---------- *)
Section Monitors.
Context {VS : Val} (AR : Arith VS).
Variable pk : formula -> formula -> pkind.

(* every discrete monitor model returns identical results on identical inputs for equivalent spellings *)
Theorem monitors_spelling st1 ce1 u1 st2 ce2 u2 :
  same_period st1 st2 ->
  brel (same_duration (s_du st1) ce1 (s_du st2) ce2) u1 u2 ->
  (forall (T : Type) (ts : list T) w, spec_evaluate AR pk st1 ce1 u1 ts w = spec_evaluate AR pk st2 ce2 u2 ts w) /\
  (forall w n, spec_online AR pk st1 ce1 u1 w n = spec_online AR pk st2 ce2 u2 w n) /\
  (forall dk w n, spec_pastified_online AR pk dk st1 ce1 u1 w n = spec_pastified_online AR pk dk st2 ce2 u2 w n) /\
  (forall (T : Type) dk (ts : list T) w,
     spec_pastified_evaluate AR pk dk st1 ce1 u1 ts w = spec_pastified_evaluate AR pk dk st2 ce2 u2 ts w).
Proof.
  intros Hp Hu.
  unfold spec_evaluate, spec_online, spec_pastified_online, spec_pastified_evaluate.
  rewrite (normalize_spelling st1 ce1 u1 st2 ce2 u2 Hp Hu). repeat split; reflexivity.
Qed.

(* ... and they all raise RTAMTException when one bound is not a whole number of sampling periods *)
Theorem monitors_reject st ce u ub i :
  In ub (bounds u) -> resolve_bound ce ub = Ok i ->
  is_int (begin_ns (s_du st) i / period_q (s_p st) (s_pu st)) = false \/
  is_int (end_ns (s_du st) i / period_q (s_p st) (s_pu st)) = false ->
  (forall (T : Type) (ts : list T) w, spec_evaluate AR pk st ce u ts w = Rtamt) /\
  (forall w n, spec_online AR pk st ce u w n = Rtamt) /\
  (forall dk w n, spec_pastified_online AR pk dk st ce u w n = Rtamt) /\
  (forall (T : Type) dk (ts : list T) w, spec_pastified_evaluate AR pk dk st ce u ts w = Rtamt).
Proof.
  intros Hin Hr Hoff.
  unfold spec_evaluate, spec_online, spec_pastified_online, spec_pastified_evaluate.
  rewrite (normalize_reject st ce u ub i Hin Hr Hoff). repeat split; reflexivity.
Qed.

(* dense monitors, same default unit *)
Theorem dense_monitors_spelling du tick ce1 u1 ce2 u2 :
  brel (same_duration du ce1 du ce2) u1 u2 ->
  (forall W, spec_dense_evaluate AR pk du tick ce1 u1 W = spec_dense_evaluate AR pk du tick ce2 u2 W) /\
  (forall bs, spec_dense_online AR pk du tick ce1 u1 bs = spec_dense_online AR pk du tick ce2 u2 bs).
Proof.
  intros Hu. unfold spec_dense_evaluate, spec_dense_online, dense_ticks.
  rewrite (normalize_dense_spelling du ce1 u1 ce2 u2 Hu). split; reflexivity.
Qed.

(* dense monitors, default units (= units of the time stamps) that differ: same results on the same ticks *)
Theorem dense_monitors_units du1 tick1 ce1 u1 du2 tick2 ce2 u2 q1 q2 :
  0 < tick1 -> 0 < tick2 ->
  tick1 * inject_Z (uval du1) == tick2 * inject_Z (uval du2) ->
  brel (same_duration du1 ce1 du2 ce2) u1 u2 ->
  normalize_dense du1 ce1 u1 = Ok q1 -> normalize_dense du2 ce2 u2 = Ok q2 ->
  (forall W, spec_dense_evaluate AR pk du1 tick1 ce1 u1 W = spec_dense_evaluate AR pk du2 tick2 ce2 u2 W) /\
  (forall bs, spec_dense_online AR pk du1 tick1 ce1 u1 bs = spec_dense_online AR pk du2 tick2 ce2 u2 bs).
Proof.
  intros Ht1 Ht2 Ht Hu N1 N2.
  destruct (dense_ticks_spelling du1 tick1 ce1 u1 du2 tick2 ce2 u2 q1 q2 Ht1 Ht2 Ht Hu N1 N2) as [E1 E2].
  unfold spec_dense_evaluate, spec_dense_online, dense_ticks. rewrite N1, N2. simpl. rewrite E1, E2. split; reflexivity.
Qed.

End Monitors.
