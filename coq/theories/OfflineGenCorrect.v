(* OfflineGenCorrect.v — every definition of OfflineGen.v (generated from the text of
   rtamt/semantics/stl/discrete_time/offline/ast_visitor.py by tools/py2coq_offline.py)
   returns Some of the hand-written list program of Offline.v, under the length
   hypotheses the visitor guarantees; hence eval_off_correct (C01) applies to what
   the code says now.  Hand-written; re-checked against the regenerated file on every build. *)
From Coq Require Import List Bool Arith ZArith Lia.
From RV Require Import Val Syntax Rho Offline ListFacts OfflineCorrect PySem PySemFacts OfflineGen OfflineGenEval.
Import ListNotations.

Section GenCorrect.
Context {VS : Val} (AR : Arith VS).

(* ---------- comprehensions, map(min, zip(..)), slices: no loop ---------- *)
Lemma gen_visitNegate_ok s : gen_visitNegate s = Some (map neg s).
Proof. reflexivity. Qed.
Lemma gen_visitNot_ok s : gen_visitNot s = Some (map neg s).
Proof. reflexivity. Qed.
Lemma gen_visitLn_ok s : gen_visitLn AR s = Some (map (a1 AR Ln) s).
Proof. reflexivity. Qed.
Lemma gen_visitLog_ok sl sr : gen_visitLog AR sl sr = Some (zipw (a2 AR Log) sl sr).
Proof. reflexivity. Qed.
Lemma gen_visitAnd_ok sl sr : gen_visitAnd sl sr = Some (zipw vmin sl sr).
Proof. reflexivity. Qed.
Lemma gen_visitOr_ok sl sr : gen_visitOr sl sr = Some (zipw vmax sl sr).
Proof. reflexivity. Qed.
Lemma gen_visitImplies_ok sl sr : gen_visitImplies sl sr = Some (zipw (fun l r => vmax (neg l) r) sl sr).
Proof. reflexivity. Qed.
Lemma gen_visitIff_ok sl sr : gen_visitIff AR sl sr = Some (zipw (fun l r => neg (a1 AR Abs (a2 AR Sub l r))) sl sr).
Proof. reflexivity. Qed.
Lemma gen_visitXor_ok sl sr : gen_visitXor AR sl sr = Some (zipw (fun l r => a1 AR Abs (a2 AR Sub l r)) sl sr).
Proof. reflexivity. Qed.
Lemma gen_visitRise_ok s : gen_visitRise s = Some (zipw (fun p s => vmin (neg p) s) (bot :: removelast s) s).
Proof. unfold gen_visitRise. rewrite py_slice_removelast. reflexivity. Qed.
Lemma gen_visitFall_ok s : gen_visitFall s = Some (zipw (fun p s => vmin p (neg s)) (top :: removelast s) s).
Proof. unfold gen_visitFall. rewrite py_slice_removelast. reflexivity. Qed.
Lemma gen_visitNext_ok s : gen_visitNext s = Some (tl s ++ [top]).
Proof. unfold gen_visitNext. rewrite py_slice_tl. reflexivity. Qed.
Lemma gen_visitStrongNext_ok s : gen_visitStrongNext s = Some (tl s ++ [bot]).
Proof. unfold gen_visitStrongNext. rewrite py_slice_tl. reflexivity. Qed.
Lemma gen_visitConstant_ok n c : gen_visitConstant n c = Some (repeat c n).
Proof. unfold gen_visitConstant. rewrite py_repeat_single. reflexivity. Qed.

(* ---------- loops over the elements of one list ---------- *)
Lemma elem_map_loop (f : V -> V) s (body : V -> list V -> option (list V)) acc :
  (forall x acc, body x acc = Some (acc ++ [f x])) -> py_for s body acc = Some (acc ++ map f s).
Proof.
  intros H. revert acc. induction s as [|x s IH]; intros acc; simpl.
  - rewrite app_nil_r. reflexivity.
  - rewrite H, IH, <- app_assoc. reflexivity.
Qed.
Lemma gen_visitAbs_ok s : gen_visitAbs AR s = Some (map (a1 AR Abs) s).
Proof. unfold gen_visitAbs. rewrite (elem_map_loop (a1 AR Abs)) by reflexivity. reflexivity. Qed.
Lemma gen_visitSqrt_ok s : gen_visitSqrt AR s = Some (map (a1 AR Sqrt) s).
Proof. unfold gen_visitSqrt. rewrite (elem_map_loop (a1 AR Sqrt)) by reflexivity. reflexivity. Qed.
Lemma gen_visitExp_ok s : gen_visitExp AR s = Some (map (a1 AR Exp) s).
Proof. unfold gen_visitExp. rewrite (elem_map_loop (a1 AR Exp)) by reflexivity. reflexivity. Qed.

Ltac loop_by lem :=
  match goal with |- context [py_for ?l ?b (?a, ?acc)] =>
    let E := fresh "E" in let a' := fresh "a'" in
    destruct (lem l b a acc) as [a' E]; [intros; reflexivity | rewrite E; reflexivity] end.

(* out = f(x, prev); prev = out; append out *)
Lemma scan_loop (f : V -> V -> V) s (body : V -> V * list V -> option (V * list V)) a acc :
  (forall x a acc, body x (a, acc) = Some (f x a, acc ++ [f x a])) ->
  exists a', py_for s body (a, acc) = Some (a', acc ++ scan f a s).
Proof.
  intros H. revert a acc. induction s as [|x s IH]; intros a acc; simpl.
  - exists a. rewrite app_nil_r. reflexivity.
  - rewrite H. destruct (IH (f x a) (acc ++ [f x a])) as [a' E]. exists a'. rewrite E, <- app_assoc. reflexivity.
Qed.
Lemma gen_visitOnce_ok s : gen_visitOnce s = Some (scan vmax bot s).
Proof.
  unfold gen_visitOnce. loop_by (scan_loop vmax).
Qed.
Lemma gen_visitHistorically_ok s : gen_visitHistorically s = Some (scan vmin top s).
Proof.
  unfold gen_visitHistorically. loop_by (scan_loop vmin).
Qed.
Lemma gen_visitEventually_ok s : gen_visitEventually s = Some (rev (scan vmax bot (rev s))).
Proof.
  unfold gen_visitEventually. loop_by (scan_loop vmax).
Qed.
Lemma gen_visitAlways_ok s : gen_visitAlways s = Some (rev (scan vmin top (rev s))).
Proof.
  unfold gen_visitAlways. loop_by (scan_loop vmin).
Qed.

(* out = prev; prev = x; append out *)
Lemma shift_loop s (body : V -> V * list V -> option (V * list V)) a acc :
  (forall x a acc, body x (a, acc) = Some (x, acc ++ [a])) ->
  exists a', py_for s body (a, acc) = Some (a', acc ++ shiftr a s).
Proof.
  intros H. revert a acc. induction s as [|x s IH]; intros a acc; simpl.
  - exists a. rewrite app_nil_r. reflexivity.
  - rewrite H. destruct (IH x (acc ++ [a])) as [a' E]. exists a'. rewrite E, <- app_assoc. reflexivity.
Qed.
Lemma gen_visitPrevious_ok s : gen_visitPrevious s = Some (shiftr top s).
Proof.
  unfold gen_visitPrevious. loop_by shift_loop.
Qed.
Lemma gen_visitStrongPrevious_ok s : gen_visitStrongPrevious s = Some (shiftr bot s).
Proof.
  unfold gen_visitStrongPrevious. loop_by shift_loop.
Qed.

(* ---------- index loops over two lists of the same length ---------- *)
Lemma zipw_as_tab (f : V -> V -> V) sl sr : length sl = length sr ->
  zipw f sl sr = tab (fun i => f (nth i sl bot) (nth i sr bot)) (length sl).
Proof.
  intros H. rewrite (list_as_tab sl bot) at 1. rewrite (list_as_tab sr bot) at 1. rewrite <- H. apply zipw_tab.
Qed.

Lemma index_zip_loop (f : V -> V -> V) sl sr (body : Z -> list V -> option (list V)) :
  length sl = length sr ->
  (forall i acc, i < length sl -> body (Z.of_nat i) acc = Some (acc ++ [f (nth i sl bot) (nth i sr bot)])) ->
  py_for (py_range 0 (py_len sl)) body [] = Some (zipw f sl sr).
Proof.
  intros Hl H. rewrite zipw_as_tab by exact Hl. unfold py_len.
  apply (py_for_range_traj (length sl) body (fun k => tab (fun i => f (nth i sl bot) (nth i sr bot)) k)).
  intros i Hi. rewrite H by exact Hi. rewrite tab_S. reflexivity.
Qed.

Ltac index_loop f Hl :=
  erewrite (index_zip_loop f _ _ _ Hl); [reflexivity|];
  let i := fresh "i" in let acc := fresh "acc" in let Hi := fresh "Hi" in
  intros i acc Hi; rewrite (py_get_nat _ i bot) by lia; rewrite (py_get_nat _ i bot) by lia; reflexivity.

Lemma gen_visitAddition_ok sl sr : length sl = length sr -> gen_visitAddition AR sl sr = Some (zipw (a2 AR Add) sl sr).
Proof. intros Hl. unfold gen_visitAddition. index_loop (a2 AR Add) Hl. Qed.
Lemma gen_visitSubtraction_ok sl sr : length sl = length sr -> gen_visitSubtraction AR sl sr = Some (zipw (a2 AR Sub) sl sr).
Proof. intros Hl. unfold gen_visitSubtraction. index_loop (a2 AR Sub) Hl. Qed.
Lemma gen_visitMultiplication_ok sl sr : length sl = length sr -> gen_visitMultiplication AR sl sr = Some (zipw (a2 AR Mul) sl sr).
Proof. intros Hl. unfold gen_visitMultiplication. index_loop (a2 AR Mul) Hl. Qed.
Lemma gen_visitDivision_ok sl sr : length sl = length sr -> gen_visitDivision AR sl sr = Some (zipw (a2 AR Div) sl sr).
Proof. intros Hl. unfold gen_visitDivision. index_loop (a2 AR Div) Hl. Qed.
Lemma gen_visitPow_ok sl sr : length sl = length sr -> gen_visitPow AR sl sr = Some (zipw (a2 AR Pow) sl sr).
Proof. intros Hl. unfold gen_visitPow. index_loop (a2 AR Pow) Hl. Qed.
(* the standard (numeric) predicate semantics: this visitor is the STL one *)
Lemma gen_visitPredicate_ok c sl sr : length sl = length sr ->
  gen_visitPredicate AR c sl sr = Some (zipw (pred_std AR c) sl sr).
Proof.
  intros Hl. unfold gen_visitPredicate. destruct c; cbn [cmp_eqb orb].
  - index_loop (pred_std AR CLeq) Hl.
  - index_loop (pred_std AR CLt) Hl.
  - index_loop (pred_std AR CGeq) Hl.
  - index_loop (pred_std AR CGt) Hl.
  - index_loop (pred_std AR CEq) Hl.
  - index_loop (pred_std AR CNeq) Hl.
Qed.

(* an index loop over two lists is a loop over the list of pairs *)
Lemma py_for_index2 {S} sl sr (body : Z -> S -> option S) (body' : V * V -> S -> option S) s :
  length sl = length sr ->
  (forall i s, i < length sl -> body (Z.of_nat i) s = body' (nth i sl bot, nth i sr bot) s) ->
  py_for (py_range 0 (py_len sl)) body s = py_for (combine sl sr) body' s.
Proof.
  intros Hl H. replace (py_len sl) with (py_len (combine sl sr))
    by (unfold py_len; rewrite combine_length, <- Hl, Nat.min_id; reflexivity).
  apply py_for_index with (d := (bot, bot)). intros i s' Hi.
  rewrite combine_length, <- Hl, Nat.min_id in Hi. rewrite combine_nth by exact Hl. apply H. exact Hi.
Qed.
Lemma py_for_index2_down {S} sl sr (body : Z -> S -> option S) (body' : V * V -> S -> option S) s :
  length sl = length sr ->
  (forall i s, i < length sl -> body (Z.of_nat i) s = body' (nth i sl bot, nth i sr bot) s) ->
  py_for (py_range3 (py_len sl - 1) (-1) (-1)) body s = py_for (rev (combine sl sr)) body' s.
Proof.
  intros Hl H. replace (py_len sl) with (py_len (combine sl sr))
    by (unfold py_len; rewrite combine_length, <- Hl, Nat.min_id; reflexivity).
  apply py_for_index_down with (d := (bot, bot)). intros i s' Hi.
  rewrite combine_length, <- Hl, Nat.min_id in Hi. rewrite combine_nth by exact Hl. apply H. exact Hi.
Qed.

(* out = max(min(l, prev), r); prev = out; append out *)
Lemma scan2_loop l (body : V * V -> V * list V -> option (V * list V)) a acc :
  (forall p a acc, body p (a, acc) = Some (vmax (vmin (fst p) a) (snd p), acc ++ [vmax (vmin (fst p) a) (snd p)])) ->
  exists a', py_for l body (a, acc) = Some (a', acc ++ scan2 a l).
Proof.
  intros H. revert a acc. induction l as [|[x y] l IH]; intros a acc; simpl.
  - exists a. rewrite app_nil_r. reflexivity.
  - rewrite H. simpl fst. simpl snd.
    destruct (IH (vmax (vmin x a) y) (acc ++ [vmax (vmin x a) y])) as [a' E]. exists a'. rewrite E, <- app_assoc. reflexivity.
Qed.

Lemma gen_visitSince_ok sl sr : length sl = length sr -> gen_visitSince sl sr = Some (scan2 bot (combine sl sr)).
Proof.
  intros Hl. unfold gen_visitSince.
  erewrite (py_for_index2 sl sr _ (fun p st => let '(prev_out, sample_return) := st in
      Some (vmax (vmin (fst p) prev_out) (snd p), sample_return ++ [vmax (vmin (fst p) prev_out) (snd p)])) _ Hl).
  - loop_by scan2_loop.
  - intros i [a acc] Hi. rewrite (py_get_nat sl i bot) by lia. rewrite (py_get_nat sr i bot) by lia. reflexivity.
Qed.
Lemma gen_visitUntil_ok sl sr : length sl = length sr -> gen_visitUntil sl sr = Some (rev (scan2 bot (rev (combine sl sr)))).
Proof.
  intros Hl. unfold gen_visitUntil.
  erewrite (py_for_index2_down sl sr _ (fun p st => let '(prev_out, sample_return) := st in
      Some (vmax (vmin (fst p) prev_out) (snd p), sample_return ++ [vmax (vmin (fst p) prev_out) (snd p)])) _ Hl).
  - loop_by scan2_loop.
  - intros i [a acc] Hi. rewrite (py_get_nat sl i bot) by lia. rewrite (py_get_nat sr i bot) by lia. reflexivity.
Qed.

(* ---------- bounded past: left padding + slices ---------- *)
Lemma py_mapM_map {A B C} (g : C -> A) (f : A -> option B) l : py_mapM f (map g l) = py_mapM (fun x => f (g x)) l.
Proof. induction l as [|x l IH]; simpl; [reflexivity|]. rewrite IH. reflexivity. Qed.

(* [F(j) for j in range(lo, lo+n)] when F cannot raise there *)
Lemma py_mapM_range {B} lo n (F : Z -> option B) (g : nat -> B) :
  (forall j, lo <= j < lo + n -> F (Z.of_nat j) = Some (g j)) ->
  py_mapM F (py_range (Z.of_nat lo) (Z.of_nat (lo + n))) = Some (map g (seq lo n)).
Proof.
  intros H. rewrite py_range_nat, py_mapM_map. apply py_mapM_some. intros j Hj. apply in_seq in Hj. apply H. exact Hj.
Qed.

Lemma slice_length (l : list V) i j : length (slice l i j) = Nat.min (j - i) (length l - i).
Proof. unfold slice. rewrite firstn_length, skipn_length. reflexivity. Qed.
Lemma slice_nonempty (l : list V) i j : i < j -> i < length l -> slice l i j <> [].
Proof. intros H1 H2 E. apply (f_equal (@length V)) in E. rewrite slice_length in E. simpl in E. lia. Qed.

Lemma map_const_range (x : V) n : map (fun _ : Z => x) (py_range 0 (Z.of_nat n)) = repeat x n.
Proof. rewrite map_const_repeat, py_range_length. replace (Z.to_nat (Z.of_nat n - 0)) with n by lia. reflexivity. Qed.

Lemma gen_visitTimedOnce_ok b e s : b <= e ->
  gen_visitTimedOnce b e s =
  Some (let s' := repeat bot e ++ s in map (fun j => maxl (slice s' (j - e) (j - b + 1))) (seq e (length s' - e))).
Proof.
  intros Hbe. unfold gen_visitTimedOnce. cbv zeta. rewrite map_const_range.
  set (s' := repeat bot e ++ s).
  assert (Hlen : length s' = e + (length s' - e)) by (unfold s'; rewrite app_length, repeat_length; lia).
  unfold py_len. rewrite Hlen at 1.
  rewrite (py_mapM_range e (length s' - e) _ (fun j => maxl (slice s' (j - e) (j - b + 1)))); [reflexivity|].
  intros j Hj.
  replace (Z.of_nat j - Z.of_nat e)%Z with (Z.of_nat (j - e)) by lia.
  replace (Z.of_nat j - Z.of_nat b + 1)%Z with (Z.of_nat (j - b + 1)) by lia.
  rewrite py_slice_nat, py_max_list_some by (apply slice_nonempty; lia). reflexivity.
Qed.
Lemma gen_visitTimedHistorically_ok b e s : b <= e ->
  gen_visitTimedHistorically b e s =
  Some (let s' := repeat top e ++ s in map (fun j => minl (slice s' (j - e) (j - b + 1))) (seq e (length s' - e))).
Proof.
  intros Hbe. unfold gen_visitTimedHistorically. cbv zeta. rewrite map_const_range.
  set (s' := repeat top e ++ s).
  assert (Hlen : length s' = e + (length s' - e)) by (unfold s'; rewrite app_length, repeat_length; lia).
  unfold py_len. rewrite Hlen at 1.
  rewrite (py_mapM_range e (length s' - e) _ (fun j => minl (slice s' (j - e) (j - b + 1)))); [reflexivity|].
  intros j Hj.
  replace (Z.of_nat j - Z.of_nat e)%Z with (Z.of_nat (j - e)) by lia.
  replace (Z.of_nat j - Z.of_nat b + 1)%Z with (Z.of_nat (j - b + 1)) by lia.
  rewrite py_slice_nat, py_min_list_some by (apply slice_nonempty; lia). reflexivity.
Qed.

(* ---------- bounded future: right padding + three comprehensions ---------- *)
Lemma Zleb_nat a b : (Z.of_nat a <=? Z.of_nat b)%Z = (a <=? b).
Proof.
  destruct (a <=? b) eqn:E.
  - apply Nat.leb_le in E. apply Z.leb_le. lia.
  - apply Nat.leb_gt in E. apply Z.leb_gt. lia.
Qed.

Lemma tf_rest (pad : V) (agg : list V -> V) (pagg : list V -> option V) (S0 : list V) (n b e : nat) :
  (forall l, l <> [] -> pagg l = Some (agg l)) -> b <= e -> e < length S0 ->
  (t2 <- py_mapM (fun j : Z => t1 <- pagg (py_slice S0 (Some j) (Some (j + (Z.of_nat e - Z.of_nat b) + 1)%Z)) ;; Some t1)
                 (py_range (Z.of_nat b) (Z.of_nat e + 1)) ;;
   t4 <- py_mapM (fun j : Z => t3 <- pagg (py_slice S0 (Some j) (Some (j + (Z.of_nat e - Z.of_nat b) + 1)%Z)) ;; Some t3)
                 (py_range (Z.of_nat e + 1) (py_len S0)) ;;
   Some (py_slice ((t2 ++ t4) ++ map (fun _ : Z => pad) (py_range 0 (py_len S0 - py_len (t2 ++ t4)))) (Some 0%Z) (Some (Z.of_nat n))))
  = Some (firstn n
      ((map (fun j => agg (slice S0 j (j + (e - b) + 1))) (seq b (S e - b)) ++
        map (fun j => agg (slice S0 j (j + (e - b) + 1))) (seq (S e) (length S0 - S e))) ++
       repeat pad (length S0 -
         length (map (fun j => agg (slice S0 j (j + (e - b) + 1))) (seq b (S e - b)) ++
                 map (fun j => agg (slice S0 j (j + (e - b) + 1))) (seq (S e) (length S0 - S e)))))).
Proof.
  intros Hagg Hbe Hlen.
  set (G := fun j : nat => agg (slice S0 j (j + (e - b) + 1))).
  assert (HG : forall j, j < length S0 ->
    (t <- pagg (py_slice S0 (Some (Z.of_nat j)) (Some (Z.of_nat j + (Z.of_nat e - Z.of_nat b) + 1)%Z)) ;; Some t) = Some (G j)).
  { intros j Hj. replace (Z.of_nat j + (Z.of_nat e - Z.of_nat b) + 1)%Z with (Z.of_nat (j + (e - b) + 1)) by lia.
    rewrite py_slice_nat, Hagg by (apply slice_nonempty; lia). reflexivity. }
  replace (Z.of_nat e + 1)%Z with (Z.of_nat (b + (S e - b))) at 1 by lia.
  rewrite (py_mapM_range b (S e - b) _ G) by (intros j Hj; apply HG; lia).
  replace (Z.of_nat e + 1)%Z with (Z.of_nat (S e)) by lia.
  unfold py_len at 1. replace (length S0) with (S e + (length S0 - S e)) at 1 by lia.
  rewrite (py_mapM_range (S e) (length S0 - S e) _ G) by (intros j Hj; apply HG; lia).
  set (r := map G (seq b (S e - b)) ++ map G (seq (S e) (length S0 - S e))).
  rewrite map_const_repeat, py_range_length.
  replace (Z.to_nat (py_len S0 - py_len r - 0)) with (length S0 - length r) by (unfold py_len; lia).
  change 0%Z with (Z.of_nat 0). rewrite py_slice_nat. unfold slice. rewrite Nat.sub_0_r. reflexivity.
Qed.

Lemma gen_visitTimedAlways_ok b e s : b <= e ->
  gen_visitTimedAlways b e s = Some (timed_future top minl b e s).
Proof.
  intros Hbe. unfold gen_visitTimedAlways, timed_future. cbv zeta.
  unfold py_len at 1. rewrite Zleb_nat.
  destruct (length s <=? e) eqn:E.
  - apply Nat.leb_le in E.
    replace (Z.of_nat e - py_len s + 1)%Z with (Z.of_nat (e - length s + 1)) by (unfold py_len; lia).
    rewrite py_repeat_single.
    apply (tf_rest top minl py_min_list); [exact py_min_list_some|exact Hbe|].
    rewrite app_length, repeat_length. lia.
  - apply Nat.leb_gt in E.
    apply (tf_rest top minl py_min_list); [exact py_min_list_some|exact Hbe|lia].
Qed.
Lemma gen_visitTimedEventually_ok b e s : b <= e ->
  gen_visitTimedEventually b e s = Some (timed_future bot maxl b e s).
Proof.
  intros Hbe. unfold gen_visitTimedEventually, timed_future. cbv zeta.
  unfold py_len at 1. rewrite Zleb_nat.
  destruct (length s <=? e) eqn:E.
  - apply Nat.leb_le in E.
    replace (Z.of_nat e - py_len s + 1)%Z with (Z.of_nat (e - length s + 1)) by (unfold py_len; lia).
    rewrite py_repeat_single.
    apply (tf_rest bot maxl py_max_list); [exact py_max_list_some|exact Hbe|].
    rewrite app_length, repeat_length. lia.
  - apply Nat.leb_gt in E.
    apply (tf_rest bot maxl py_max_list); [exact py_max_list_some|exact Hbe|lia].
Qed.

(* ---------- bounded since / until / precedes: two deques, nested loops ---------- *)
Lemma py_for_index2c {S} sl sr (body : Z -> S -> option S) (body' : V -> V -> S -> option S) s :
  length sl = length sr ->
  (forall i s, i < length sl -> body (Z.of_nat i) s = body' (nth i sl bot) (nth i sr bot) s) ->
  py_for (py_range 0 (py_len sl)) body s = py_for (combine sl sr) (fun p => body' (fst p) (snd p)) s.
Proof. intros Hl H. apply py_for_index2; [exact Hl|]. intros i s' Hi. apply H. exact Hi. Qed.
Lemma py_for_index2c_down {S} sl sr (body : Z -> S -> option S) (body' : V -> V -> S -> option S) s :
  length sl = length sr ->
  (forall i s, i < length sl -> body (Z.of_nat i) s = body' (nth i sl bot) (nth i sr bot) s) ->
  py_for (py_range3 (py_len sl - 1) (-1) (-1)) body s = py_for (rev (combine sl sr)) (fun p => body' (fst p) (snd p)) s.
Proof. intros Hl H. apply py_for_index2_down; [exact Hl|]. intros i s' Hi. apply H. exact Hi. Qed.

Lemma dq_new_ok e : @dq_new V (Z.of_nat e + 1) = Some ([], (Z.of_nat e + 1)%Z).
Proof. unfold dq_new. destruct (Z.of_nat e + 1 <? 0)%Z eqn:E; [apply Z.ltb_lt in E; lia|reflexivity]. Qed.

Lemma repeat_snoc {A} (x : A) k : repeat x k ++ [x] = repeat x (S k).
Proof. induction k as [|k IH]; simpl; [reflexivity|]. rewrite IH. reflexivity. Qed.

(* the first loop fills both deques *)
Lemma dq_fill e (body : Z -> @deque V * @deque V -> option (@deque V * @deque V)) :
  (forall i bl br, body i (bl, br) = Some (dq_append bl top, dq_append br bot)) ->
  py_for (py_range 0 (Z.of_nat e + 1)) body (([], (Z.of_nat e + 1)%Z), ([], (Z.of_nat e + 1)%Z))
  = Some ((repeat top (S e), (Z.of_nat e + 1)%Z), (repeat bot (S e), (Z.of_nat e + 1)%Z)).
Proof.
  intros H. set (m := (Z.of_nat e + 1)%Z). replace m with (Z.of_nat (S e)) at 1 by (unfold m; lia).
  apply (py_for_range_traj (S e) body (fun k => ((repeat top k, m), (repeat bot k, m)))).
  intros i Hi. rewrite H.
  rewrite !dq_append_room by (unfold py_len, m; rewrite repeat_length; lia).
  rewrite !repeat_snoc. reflexivity.
Qed.

(* the two inner loops on full buffers *)
Lemma since_window_gen b e (bl br : list V) m : b <= e -> length bl = S e -> length br = S e ->
  py_for (py_range 0 (Z.of_nat e - Z.of_nat b + 1))
    (fun j out_sample =>
       t5 <- dq_get (br, m) j ;;
       c_left <- py_for (py_range (j + 1) (Z.of_nat e + 1))
                   (fun k c_left => t6 <- dq_get (bl, m) k ;; Some (py_min2 c_left t6)) top ;;
       Some (py_max2 out_sample (py_min2 c_left t5))) bot
  = Some (since_window b e bl br).
Proof.
  intros Hbe Hbl Hbr. unfold since_window.
  replace (Z.of_nat e - Z.of_nat b + 1)%Z with (Z.of_nat (0 + S (e - b))) by lia.
  change 0%Z with (Z.of_nat 0).
  apply py_for_range_fold. intros j out Hj. unfold dq_get. cbn [fst].
  rewrite (py_get_nat br j bot) by lia.
  replace (Z.of_nat j + 1)%Z with (Z.of_nat (S j)) by lia.
  replace (Z.of_nat e + 1)%Z with (Z.of_nat (S j + (e - j))) by lia.
  rewrite (py_for_range_fold (S j) (e - j) _ (fun c k => vmin c (nth k bl bot))); [reflexivity|].
  intros k c Hk. rewrite (py_get_nat bl k bot) by lia. reflexivity.
Qed.
Lemma precedes_window_gen b e (bl br : list V) m : b <= e -> length bl = S e -> length br = S e ->
  py_for (py_range (Z.of_nat b) (Z.of_nat e + 1))
    (fun j out_sample =>
       t5 <- dq_get (br, m) j ;;
       c_left <- py_for (py_range 0 j)
                   (fun k c_left => t6 <- dq_get (bl, m) k ;; Some (py_min2 c_left t6)) top ;;
       Some (py_max2 out_sample (py_min2 c_left t5))) bot
  = Some (precedes_window b e bl br).
Proof.
  intros Hbe Hbl Hbr. unfold precedes_window.
  replace (Z.of_nat e + 1)%Z with (Z.of_nat (b + (S e - b))) by lia.
  apply py_for_range_fold. intros j out Hj. unfold dq_get. cbn [fst].
  rewrite (py_get_nat br j bot) by lia.
  change 0%Z with (Z.of_nat 0). replace (Z.of_nat j) with (Z.of_nat (0 + j)) at 1 by lia.
  rewrite (py_for_range_fold 0 j _ (fun c k => vmin c (nth k bl bot))); [reflexivity|].
  intros k c Hk. rewrite (py_get_nat bl k bot) by lia. reflexivity.
Qed.

Local Notation S3 := (@deque V * @deque V * list V)%type.

(* the loop over the samples: both buffers stay full, one window per sample *)
Lemma buffers_loop (W : list V -> list V -> V) (loop : list V -> list V -> list (V * V) -> list V) e m
      (body' : V -> V -> S3 -> option S3) :
  m = (Z.of_nat e + 1)%Z ->
  (forall bl br x y xs, loop bl br ((x, y) :: xs) = W (push bl x) (push br y) :: loop (push bl x) (push br y) xs) ->
  (forall bl br, loop bl br [] = []) ->
  (forall x y bl br acc, length bl = S e -> length br = S e ->
     body' x y ((bl, m), (br, m), acc) = Some ((push bl x, m), (push br y, m), acc ++ [W (push bl x) (push br y)])) ->
  forall l bl br acc, length bl = S e -> length br = S e ->
  exists bl' br', py_for l (fun p => body' (fst p) (snd p)) ((bl, m), (br, m), acc) = Some ((bl', m), (br', m), acc ++ loop bl br l).
Proof.
  intros Hm Hcons Hnil Hbody l. induction l as [|[x y] l IH]; intros bl br acc Hbl Hbr; simpl.
  - exists bl, br. rewrite Hnil, app_nil_r. reflexivity.
  - rewrite Hbody by assumption.
    assert (Nbl : bl <> []) by (destruct bl; [discriminate|congruence]).
    assert (Nbr : br <> []) by (destruct br; [discriminate|congruence]).
    destruct (IH (push bl x) (push br y) (acc ++ [W (push bl x) (push br y)])) as [bl' [br' E]];
      [rewrite push_length; assumption|rewrite push_length; assumption|].
    exists bl', br'. rewrite E, Hcons, <- app_assoc. reflexivity.
Qed.

(* common script: [idx] turns the index loop into a loop over the pairs, [wl] evaluates the two inner loops *)
Ltac timed_loop b e sl sr Hl idx W loopf wl :=
  cbv zeta; rewrite dq_new_ok;
  erewrite (dq_fill e) by (intros; reflexivity);
  erewrite (idx _ sl sr _ _ _ Hl); cycle 1;
  [ let i := fresh "i" in let s := fresh "s" in let Hi := fresh "Hi" in
    intros i s Hi; rewrite (py_get_nat sl i bot) by lia; rewrite (py_get_nat sr i bot) by lia;
    generalize (nth i sl bot) (nth i sr bot); intros ? ?; reflexivity
  | match goal with |- context [py_for ?l (fun p => ?bd (fst p) (snd p)) _] =>
      let Hbody := fresh "Hbody" in
      assert (Hbody : forall x y bl br acc, length bl = S e -> length br = S e ->
                bd x y ((bl, (Z.of_nat e + 1)%Z), (br, (Z.of_nat e + 1)%Z), acc)
                = Some ((push bl x, (Z.of_nat e + 1)%Z), (push br y, (Z.of_nat e + 1)%Z), acc ++ [W (push bl x) (push br y)]));
      [ let x := fresh "x" in let y := fresh "y" in let bl := fresh "bl" in let br := fresh "br" in
        let acc := fresh "acc" in let H1 := fresh "H1" in let H2 := fresh "H2" in
        intros x y bl br acc H1 H2; cbv beta iota;
        assert (bl <> []) by (destruct bl; [discriminate|congruence]);
        assert (br <> []) by (destruct br; [discriminate|congruence]);
        rewrite !dq_append_full by (try assumption; unfold py_len; lia);
        rewrite wl by (try rewrite push_length; assumption); reflexivity
      | let E := fresh "E" in let bl' := fresh "bl'" in let br' := fresh "br'" in
        destruct (buffers_loop W loopf e (Z.of_nat e + 1)%Z bd eq_refl
                    (fun bl br x y xs => eq_refl) (fun bl br => eq_refl) Hbody
                    l (repeat top (S e)) (repeat bot (S e)) [] (repeat_length _ _) (repeat_length _ _)) as [bl' [br' E]];
        match type of E with _ = ?R =>
          match goal with |- (match ?X with Some _ => _ | None => _ end) = _ =>
            let H := fresh "H" in assert (H : X = R) by exact E; rewrite H; reflexivity end end ]
    end ].

Lemma gen_visitTimedSince_ok b e sl sr : b <= e -> length sl = length sr ->
  gen_visitTimedSince b e sl sr
  = Some (since_loop b e (repeat top (S e)) (repeat bot (S e)) (combine sl sr)).
Proof.
  intros Hbe Hl. unfold gen_visitTimedSince.
  timed_loop b e sl sr Hl @py_for_index2c (since_window b e) (since_loop b e) since_window_gen.
Qed.
Lemma gen_visitTimedUntil_ok b e sl sr : b <= e -> length sl = length sr ->
  gen_visitTimedUntil b e sl sr
  = Some (rev (since_loop b e (repeat top (S e)) (repeat bot (S e)) (rev (combine sl sr)))).
Proof.
  intros Hbe Hl. unfold gen_visitTimedUntil.
  timed_loop b e sl sr Hl @py_for_index2c_down (since_window b e) (since_loop b e) since_window_gen.
Qed.
Lemma gen_visitTimedPrecedes_ok b e sl sr : b <= e -> length sl = length sr ->
  gen_visitTimedPrecedes b e sl sr
  = Some (precedes_loop b e (repeat top (S e)) (repeat bot (S e)) (combine sl sr)).
Proof.
  intros Hbe Hl. unfold gen_visitTimedPrecedes.
  timed_loop b e sl sr Hl @py_for_index2c (precedes_window b e) (precedes_loop b e) precedes_window_gen.
Qed.

(* ---------- the visitor over the generated methods = the hand model ---------- *)
Ltac split_wf :=
  repeat match goal with
  | H : _ && _ = true |- _ => apply andb_prop in H; destruct H
  | H : (_ <=? _) = true |- _ => apply Nat.leb_le in H
  end.

Notation std := (fun _ _ : formula => PStd).

Theorem eval_gen_refines (p : formula) (w : trace) (n : nat) :
  1 <= n -> wf_bounds p = true -> wf_trace p w n -> (forall x, a1 AR Neg x = neg x) ->
  eval_gen AR p w n = Some (eval_off AR std p w n).
Proof.
  intros Hn Hb Hw Hneg. revert Hb Hw.
  induction p; intros Hb Hw; simpl in Hb; split_wf;
  try (assert (Hw1 : wf_trace p w n) by (eapply wf_trace_sub; [|exact Hw]; simpl; lia));
  try (assert (Hw1 : wf_trace p1 w n) by (eapply wf_trace_sub; [|exact Hw]; simpl; lia));
  try (assert (Hw2 : wf_trace p2 w n) by (eapply wf_trace_sub; [|exact Hw]; simpl; lia));
  try (assert (L1 : length (eval_off AR std p1 w n) = n) by (apply eval_off_length; assumption));
  try (assert (L2 : length (eval_off AR std p2 w n) = n) by (apply eval_off_length; assumption));
  try (assert (LL : length (eval_off AR std p1 w n) = length (eval_off AR std p2 w n)) by congruence);
  cbn [eval_gen eval_off];
  try rewrite IHp by assumption; try rewrite IHp1 by assumption; try rewrite IHp2 by assumption.
  - reflexivity.
  - apply gen_visitConstant_ok.
  - destruct o.
    + apply gen_visitAbs_ok.
    + apply gen_visitSqrt_ok.
    + apply gen_visitExp_ok.
    + apply gen_visitLn_ok.
    + rewrite gen_visitNegate_ok. f_equal. apply map_ext. intros x. symmetry. apply Hneg.
  - destruct o.
    + apply gen_visitAddition_ok; exact LL.
    + apply gen_visitSubtraction_ok; exact LL.
    + apply gen_visitMultiplication_ok; exact LL.
    + apply gen_visitDivision_ok; exact LL.
    + apply gen_visitPow_ok; exact LL.
    + apply gen_visitLog_ok.
  - apply gen_visitPredicate_ok; exact LL.
  - apply gen_visitNot_ok.
  - apply gen_visitAnd_ok.
  - apply gen_visitOr_ok.
  - apply gen_visitImplies_ok.
  - apply gen_visitIff_ok.
  - apply gen_visitXor_ok.
  - apply gen_visitRise_ok.
  - apply gen_visitFall_ok.
  - apply gen_visitPrevious_ok.
  - apply gen_visitStrongPrevious_ok.
  - apply gen_visitNext_ok.
  - apply gen_visitStrongNext_ok.
  - apply gen_visitOnce_ok.
  - apply gen_visitHistorically_ok.
  - apply gen_visitSince_ok; exact LL.
  - apply gen_visitEventually_ok.
  - apply gen_visitAlways_ok.
  - apply gen_visitUntil_ok; exact LL.
  - apply gen_visitTimedOnce_ok; assumption.
  - apply gen_visitTimedHistorically_ok; assumption.
  - apply gen_visitTimedSince_ok; assumption.
  - apply gen_visitTimedEventually_ok; assumption.
  - apply gen_visitTimedAlways_ok; assumption.
  - apply gen_visitTimedUntil_ok; assumption.
  - apply gen_visitTimedPrecedes_ok; assumption.
Qed.

End GenCorrect.

Notation std := (fun _ _ : formula => PStd).

(* every generated program equals the hand program (the 38 translated methods) *)
Theorem gen_methods_refine (VS : Val) (AR : Arith VS) :
  (forall c sl sr, length sl = length sr -> gen_visitPredicate AR c sl sr = Some (zipw (pred_std AR c) sl sr)) /\
  (forall s, gen_visitAbs AR s = Some (map (a1 AR Abs) s)) /\
  (forall s, gen_visitSqrt AR s = Some (map (a1 AR Sqrt) s)) /\
  (forall s, gen_visitExp AR s = Some (map (a1 AR Exp) s)) /\
  (forall sl sr, length sl = length sr -> gen_visitPow AR sl sr = Some (zipw (a2 AR Pow) sl sr)) /\
  (forall s, gen_visitNegate s = Some (map neg s)) /\
  (forall s, gen_visitLn AR s = Some (map (a1 AR Ln) s)) /\
  (forall sl sr, gen_visitLog AR sl sr = Some (zipw (a2 AR Log) sl sr)) /\
  (forall sl sr, length sl = length sr -> gen_visitAddition AR sl sr = Some (zipw (a2 AR Add) sl sr)) /\
  (forall sl sr, length sl = length sr -> gen_visitSubtraction AR sl sr = Some (zipw (a2 AR Sub) sl sr)) /\
  (forall sl sr, length sl = length sr -> gen_visitMultiplication AR sl sr = Some (zipw (a2 AR Mul) sl sr)) /\
  (forall sl sr, length sl = length sr -> gen_visitDivision AR sl sr = Some (zipw (a2 AR Div) sl sr)) /\
  (forall s, gen_visitNot s = Some (map neg s)) /\
  (forall sl sr, gen_visitAnd sl sr = Some (zipw vmin sl sr)) /\
  (forall sl sr, gen_visitOr sl sr = Some (zipw vmax sl sr)) /\
  (forall sl sr, gen_visitImplies sl sr = Some (zipw (fun l r => vmax (neg l) r) sl sr)) /\
  (forall sl sr, gen_visitIff AR sl sr = Some (zipw (fun l r => neg (a1 AR Abs (a2 AR Sub l r))) sl sr)) /\
  (forall sl sr, gen_visitXor AR sl sr = Some (zipw (fun l r => a1 AR Abs (a2 AR Sub l r)) sl sr)) /\
  (forall s, gen_visitEventually s = Some (rev (scan vmax bot (rev s)))) /\
  (forall s, gen_visitAlways s = Some (rev (scan vmin top (rev s)))) /\
  (forall sl sr, length sl = length sr -> gen_visitUntil sl sr = Some (rev (scan2 bot (rev (combine sl sr))))) /\
  (forall s, gen_visitOnce s = Some (scan vmax bot s)) /\
  (forall s, gen_visitHistorically s = Some (scan vmin top s)) /\
  (forall sl sr, length sl = length sr -> gen_visitSince sl sr = Some (scan2 bot (combine sl sr))) /\
  (forall s, gen_visitRise s = Some (zipw (fun p s => vmin (neg p) s) (bot :: removelast s) s)) /\
  (forall s, gen_visitFall s = Some (zipw (fun p s => vmin p (neg s)) (top :: removelast s) s)) /\
  (forall n c, gen_visitConstant n c = Some (repeat c n)) /\
  (forall s, gen_visitPrevious s = Some (shiftr top s)) /\
  (forall s, gen_visitStrongPrevious s = Some (shiftr bot s)) /\
  (forall s, gen_visitNext s = Some (tl s ++ [top])) /\
  (forall s, gen_visitStrongNext s = Some (tl s ++ [bot])) /\
  (forall b e sl sr, b <= e -> length sl = length sr ->
     gen_visitTimedPrecedes b e sl sr = Some (precedes_loop b e (repeat top (S e)) (repeat bot (S e)) (combine sl sr))) /\
  (forall b e s, b <= e -> gen_visitTimedOnce b e s =
     Some (let s' := repeat bot e ++ s in map (fun j => maxl (slice s' (j - e) (j - b + 1))) (seq e (length s' - e)))) /\
  (forall b e s, b <= e -> gen_visitTimedHistorically b e s =
     Some (let s' := repeat top e ++ s in map (fun j => minl (slice s' (j - e) (j - b + 1))) (seq e (length s' - e)))) /\
  (forall b e sl sr, b <= e -> length sl = length sr ->
     gen_visitTimedSince b e sl sr = Some (since_loop b e (repeat top (S e)) (repeat bot (S e)) (combine sl sr))) /\
  (forall b e s, b <= e -> gen_visitTimedAlways b e s = Some (timed_future top minl b e s)) /\
  (forall b e s, b <= e -> gen_visitTimedEventually b e s = Some (timed_future bot maxl b e s)) /\
  (forall b e sl sr, b <= e -> length sl = length sr ->
     gen_visitTimedUntil b e sl sr = Some (rev (since_loop b e (repeat top (S e)) (repeat bot (S e)) (rev (combine sl sr))))).
Proof.
  repeat match goal with |- _ /\ _ => split end.
  - apply gen_visitPredicate_ok. - apply gen_visitAbs_ok. - apply gen_visitSqrt_ok. - apply gen_visitExp_ok.
  - apply gen_visitPow_ok. - apply gen_visitNegate_ok. - apply gen_visitLn_ok. - apply gen_visitLog_ok.
  - apply gen_visitAddition_ok. - apply gen_visitSubtraction_ok. - apply gen_visitMultiplication_ok.
  - apply gen_visitDivision_ok. - apply gen_visitNot_ok. - apply gen_visitAnd_ok. - apply gen_visitOr_ok.
  - apply gen_visitImplies_ok. - apply gen_visitIff_ok. - apply gen_visitXor_ok. - apply gen_visitEventually_ok.
  - apply gen_visitAlways_ok. - apply gen_visitUntil_ok. - apply gen_visitOnce_ok. - apply gen_visitHistorically_ok.
  - apply gen_visitSince_ok. - apply gen_visitRise_ok. - apply gen_visitFall_ok. - apply gen_visitConstant_ok.
  - apply gen_visitPrevious_ok. - apply gen_visitStrongPrevious_ok. - apply gen_visitNext_ok. - apply gen_visitStrongNext_ok.
  - apply gen_visitTimedPrecedes_ok. - apply gen_visitTimedOnce_ok. - apply gen_visitTimedHistorically_ok.
  - apply gen_visitTimedSince_ok. - apply gen_visitTimedAlways_ok. - apply gen_visitTimedEventually_ok.
  - apply gen_visitTimedUntil_ok.
Qed.

(* the number of conjuncts above is the number of methods the translator emitted *)
Example gen_method_count_ok : gen_method_count = 38. Proof. reflexivity. Qed.

(* the visitor over the generated methods returns the hand model's column, hence the README robustness
   (eval_off_correct), one value per sample, and evaluate() over it is the hand model's evaluate() *)
Theorem offline_gen_refines :
  forall (VS : Val) (AR : Arith VS) (p : formula) (w : trace) (n : nat),
    1 <= n -> wf_bounds p = true -> wf_trace p w n -> (forall x, a1 AR Neg x = neg x) ->
    eval_gen AR p w n = Some (eval_off AR std p w n) /\
    eval_gen AR p w n = Some (tab (rho AR std p w n) n).
Proof.
  intros VS AR p w n Hn Hb Hw Hneg. split.
  - apply eval_gen_refines; assumption.
  - rewrite eval_gen_refines by assumption. rewrite eval_off_correct by assumption. reflexivity.
Qed.

Theorem evaluate_gen_refines :
  forall (VS : Val) (AR : Arith VS) (T : Type) (p : formula) (ts : list T) (w : trace),
    1 <= length ts -> wf_bounds p = true -> wf_trace p w (length ts) -> (forall x, a1 AR Neg x = neg x) ->
    evaluate_gen AR p ts w = evaluate AR std p ts w /\
    evaluate_gen AR p ts w = Ok (combine ts (tab (rho AR std p w (length ts)) (length ts))).
Proof.
  intros VS AR T p ts w Hn Hb Hw Hneg. unfold evaluate_gen.
  rewrite (eval_gen_refines AR p w (length ts)) by assumption. split; [reflexivity|].
  rewrite eval_off_correct by assumption. reflexivity.
Qed.

Print Assumptions gen_methods_refine.
Print Assumptions offline_gen_refines.
Print Assumptions evaluate_gen_refines.
