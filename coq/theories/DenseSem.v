(* DenseSem.v — the dense-time STL semantics as a function of time, for
   piecewise-constant signals whose break-points lie on a grid of ticks (any
   resolution): closed windows, non-strict since/until, finitary
   interpretation (last value held).  Every signal is defined from its first
   sample on; a sub-formula is defined from the latest start of the variables
   in it (dstart), and past operators look back to the start of their operand.  On such signals the supremum over a real interval whose
   ends are on the grid is the maximum over the ticks of the interval, so this
   IS the dense-time semantics at every grid resolution. *)
From Coq Require Import List Bool Arith ZArith Lia.
From RV Require Import Val Syntax Rho Dense.
Import ListNotations.
Local Open Scope Z_scope.

Section DenseSem.
Context {VS : Val} (AR : Arith VS).
Variable pk : formula -> formula -> pkind.

(* ticks lo, lo+1, ..., hi *)
Definition zrange (lo hi : Z) : list Z := map (fun i => lo + Z.of_nat i) (seq 0 (Z.to_nat (hi - lo + 1))).
Definition zmax (f : Z -> V) (lo hi : Z) : V := maxl (map f (zrange lo hi)).
Definition zmin (f : Z -> V) (lo hi : Z) : V := minl (map f (zrange lo hi)).

(* sum of all upper bounds: after tend + bsum every sub-formula signal is constant *)
Fixpoint bsum (p : formula) : Z :=
  match p with
  | Var _ | Const _ => 0
  | A1 _ f | Not f | Rise f | Fall f | Prev f | SPrev f | Next f | SNext f | Once f | Hist f | Ev f | Alw f => bsum f
  | A2 _ f g | Pred _ f g | And f g | Or f g | Implies f g | Iff f g | Xor f g | Since f g | Until f g => bsum f + bsum g
  | OnceT _ e f | HistT _ e f | EvT _ e f | AlwT _ e f => Z.of_nat e + bsum f
  | SinceT _ e f g | UntilT _ e f g | Precedes _ e f g => Z.of_nat e + bsum f + bsum g
  end.

Variable W : list dsig.      (* the input signals *)
Variable tend : Z.           (* last input break-point *)

(* start of the domain of a sub-formula: the latest start of the variables in it (constants start at 0) *)
Fixpoint dstart (p : formula) : Z :=
  match p with
  | Var x => start (nth x W [])
  | Const _ => 0
  | A1 _ f | Not f | Rise f | Fall f | Prev f | SPrev f | Next f | SNext f | Once f | Hist f | Ev f | Alw f
  | OnceT _ _ f | HistT _ _ f | EvT _ _ f | AlwT _ _ f => dstart f
  | A2 _ f g | Pred _ f g | And f g | Or f g | Implies f g | Iff f g | Xor f g | Since f g | Until f g
  | SinceT _ _ f g | UntilT _ _ f g | Precedes _ _ f g => Z.max (dstart f) (dstart g)
  end.

Fixpoint rhoZ (p : formula) (t : Z) {struct p} : V :=
  let far q := Z.max t (tend + bsum q) in
  let t0 := dstart p in
  match p with
  | Var x => den (nth x W []) t
  | Const c => c
  | A1 o f => a1 AR o (rhoZ f t)
  | A2 o f g => a2 AR o (rhoZ f t) (rhoZ g t)
  | Pred c f g => pred_val AR (pk f g) c (rhoZ f t) (rhoZ g t)
  | Not f => neg (rhoZ f t)
  | And f g => vmin (rhoZ f t) (rhoZ g t)
  | Or f g => vmax (rhoZ f t) (rhoZ g t)
  | Implies f g => vmax (neg (rhoZ f t)) (rhoZ g t)
  | Iff f g => neg (a1 AR Abs (a2 AR Sub (rhoZ f t) (rhoZ g t)))
  | Xor f g => a1 AR Abs (a2 AR Sub (rhoZ f t) (rhoZ g t))
  | Once f => zmax (rhoZ f) t0 t
  | Hist f => zmin (rhoZ f) t0 t
  | Since f g => zmax (fun t' => vmin (rhoZ g t') (zmin (rhoZ f) t' t)) t0 t
  | Ev f => zmax (rhoZ f) t (far f)
  | Alw f => zmin (rhoZ f) t (far f)
  | Until f g => zmax (fun t' => vmin (rhoZ g t') (zmin (rhoZ f) t t')) t (far p)
  | OnceT b e f => if t - zb b <? t0 then bot else zmax (rhoZ f) (Z.max (t - zb e) t0) (t - zb b)
  | HistT b e f => if t - zb b <? t0 then top else zmin (rhoZ f) (Z.max (t - zb e) t0) (t - zb b)
  | SinceT b e f g =>
      if t - zb b <? t0 then bot
      else zmax (fun t' => vmin (rhoZ g t') (zmin (rhoZ f) t' t)) (Z.max (t - zb e) t0) (t - zb b)
  | EvT b e f => zmax (rhoZ f) (t + zb b) (t + zb e)
  | AlwT b e f => zmin (rhoZ f) (t + zb b) (t + zb e)
  | UntilT b e f g => zmax (fun t' => vmin (rhoZ g t') (zmin (rhoZ f) t t')) (t + zb b) (t + zb e)
  | _ => bot   (* prev / next / rise / fall / precedes have no dense-time meaning *)
  end.

End DenseSem.
