(* OfflineGenEval.v — the visitor dispatch over the GENERATED visit methods:
   StlAstVisitor.visit selects visitX by the node class, every visitX first visits
   children[0] (then children[1]) and works on the returned lists.  Hand-written
   glue (the dispatch of rtamt/syntax/ast/visitor/stl/ast_visitor.py is not translated);
   the per-node computations are the definitions of OfflineGen.v.
   visitVariable (field-less variable: the data-set column itself) is not translated:
   the translator pins its text by a digest. *)
From Coq Require Import List Bool Arith ZArith.
From RV Require Import Val Syntax Rho Offline PySem OfflineGen.
Import ListNotations.

Section GenEval.
Context {VS : Val} (AR : Arith VS).

Fixpoint eval_gen (p : formula) (w : trace) (n : nat) {struct p} : option (list V) :=
  match p with
  | Var x => Some (nth x w [])
  | Const c => gen_visitConstant n c
  | A1 o f => s <- eval_gen f w n ;;
      match o with
      | Abs => gen_visitAbs AR s | Sqrt => gen_visitSqrt AR s | Exp => gen_visitExp AR s
      | Ln => gen_visitLn AR s | Neg => gen_visitNegate s
      end
  | A2 o f g => sl <- eval_gen f w n ;; sr <- eval_gen g w n ;;
      match o with
      | Add => gen_visitAddition AR sl sr | Sub => gen_visitSubtraction AR sl sr
      | Mul => gen_visitMultiplication AR sl sr | Div => gen_visitDivision AR sl sr
      | Pow => gen_visitPow AR sl sr | Log => gen_visitLog AR sl sr
      end
  | Pred c f g => sl <- eval_gen f w n ;; sr <- eval_gen g w n ;; gen_visitPredicate AR c sl sr
  | Not f => s <- eval_gen f w n ;; gen_visitNot s
  | And f g => sl <- eval_gen f w n ;; sr <- eval_gen g w n ;; gen_visitAnd sl sr
  | Or f g => sl <- eval_gen f w n ;; sr <- eval_gen g w n ;; gen_visitOr sl sr
  | Implies f g => sl <- eval_gen f w n ;; sr <- eval_gen g w n ;; gen_visitImplies sl sr
  | Iff f g => sl <- eval_gen f w n ;; sr <- eval_gen g w n ;; gen_visitIff AR sl sr
  | Xor f g => sl <- eval_gen f w n ;; sr <- eval_gen g w n ;; gen_visitXor AR sl sr
  | Rise f => s <- eval_gen f w n ;; gen_visitRise s
  | Fall f => s <- eval_gen f w n ;; gen_visitFall s
  | Prev f => s <- eval_gen f w n ;; gen_visitPrevious s
  | SPrev f => s <- eval_gen f w n ;; gen_visitStrongPrevious s
  | Next f => s <- eval_gen f w n ;; gen_visitNext s
  | SNext f => s <- eval_gen f w n ;; gen_visitStrongNext s
  | Once f => s <- eval_gen f w n ;; gen_visitOnce s
  | Hist f => s <- eval_gen f w n ;; gen_visitHistorically s
  | Since f g => sl <- eval_gen f w n ;; sr <- eval_gen g w n ;; gen_visitSince sl sr
  | Ev f => s <- eval_gen f w n ;; gen_visitEventually s
  | Alw f => s <- eval_gen f w n ;; gen_visitAlways s
  | Until f g => sl <- eval_gen f w n ;; sr <- eval_gen g w n ;; gen_visitUntil sl sr
  | OnceT b e f => s <- eval_gen f w n ;; gen_visitTimedOnce b e s
  | HistT b e f => s <- eval_gen f w n ;; gen_visitTimedHistorically b e s
  | SinceT b e f g => sl <- eval_gen f w n ;; sr <- eval_gen g w n ;; gen_visitTimedSince b e sl sr
  | EvT b e f => s <- eval_gen f w n ;; gen_visitTimedEventually b e s
  | AlwT b e f => s <- eval_gen f w n ;; gen_visitTimedAlways b e s
  | UntilT b e f g => sl <- eval_gen f w n ;; sr <- eval_gen g w n ;; gen_visitTimedUntil b e sl sr
  | Precedes b e f g => sl <- eval_gen f w n ;; sr <- eval_gen g w n ;; gen_visitTimedPrecedes b e sl sr
  end.

(* evaluate(): an exception of a visit method that is not an RTAMTException is a crash *)
Definition evaluate_gen {T : Type} (p : formula) (ts : list T) (w : trace) : outcome (list (T * V)) :=
  match eval_gen p w (length ts) with
  | Some r => Ok (combine ts r)
  | None => Crash
  end.
End GenEval.
