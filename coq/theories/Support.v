(* Support.v — which constructs each of the four monitors supports (from the
   raising methods of the four visitors), and the outcome class of the first
   evaluation. *)
From Coq Require Import List Bool Arith.
From RV Require Import Val Syntax Rho Offline Online.
Import ListNotations.

Inductive mkind := DiscOff | DiscOn | DenseOff | DenseOn.

Section Support.
Context {VS : Val}.

(* dense time has no notion of previous / next sample *)
Fixpoint no_sample_ops (p : formula) : bool :=
  match p with
  | Var _ | Const _ => true
  | Rise _ | Fall _ | Prev _ | SPrev _ | Next _ | SNext _ | Precedes _ _ _ _ => false
  | A1 _ f | Not f | Once f | Hist f | Ev f | Alw f
  | OnceT _ _ f | HistT _ _ f | EvT _ _ f | AlwT _ _ f => no_sample_ops f
  | A2 _ f g | Pred _ f g | And f g | Or f g | Implies f g | Iff f g | Xor f g
  | Since f g | Until f g | SinceT _ _ f g | UntilT _ _ f g => no_sample_ops f && no_sample_ops g
  end.

Definition supported (k : mkind) (p : formula) : bool :=
  match k with
  | DiscOff => true   (* no visit method of the offline visitor raises: TimedPrecedes is evaluated (Offline.precedes_loop) *)
  | DiscOn => past_only p
  | DenseOff => no_sample_ops p
  | DenseOn => past_only p && no_sample_ops p
  end.

(* pastify() removes next / s_next by delaying every other operand by one sampling period; dense time has no
   sampling period (next is rejected there), so a dense-time monitor has to reject them at pastify() instead of
   yielding a value: support of the pastified form q = pastify p, and no sample operator in p itself *)
Definition supported_pastified (k : mkind) (p q : formula) : bool :=
  supported k q && match k with DenseOff | DenseOn => no_sample_ops p | _ => true end.

Theorem pastified_sample_ops_rejected k p q :
  k = DenseOff \/ k = DenseOn -> no_sample_ops p = false -> supported_pastified k p q = false.
Proof. intros [-> | ->] H; unfold supported_pastified; rewrite H; apply andb_false_r. Qed.
Theorem pastified_discrete k p q : k = DiscOff \/ k = DiscOn -> supported_pastified k p q = supported k q.
Proof. intros [-> | ->]; unfold supported_pastified; apply andb_true_r. Qed.

(* outcome class of the first evaluate()/update() on well-formed data *)
Definition first_eval (k : mkind) (p : formula) : outcome unit :=
  if supported k p then Ok tt else Rtamt.

Theorem first_eval_ok k p : supported k p = true -> first_eval k p = Ok tt.
Proof. unfold first_eval. intros ->. reflexivity. Qed.
Theorem first_eval_reject k p : supported k p = false -> first_eval k p = Rtamt.
Proof. unfold first_eval. intros ->. reflexivity. Qed.
(* the discrete-time offline monitor evaluates every construct, pastified or not *)
Theorem disc_off_supported p : supported DiscOff p = true.
Proof. reflexivity. Qed.
Theorem disc_off_pastified p q : supported_pastified DiscOff p q = true.
Proof. reflexivity. Qed.
(* precedes stays a discrete-time construct: both dense-time monitors reject it *)
Theorem precedes_support b e f g :
  supported DiscOff (Precedes b e f g) = true /\
  supported DiscOn (Precedes b e f g) = (past_only f && past_only g) /\
  supported DenseOff (Precedes b e f g) = false /\ supported DenseOn (Precedes b e f g) = false.
Proof. repeat split. cbn [supported no_sample_ops]. apply andb_false_r. Qed.

Theorem first_eval_never_crashes k p : first_eval k p <> Crash.
Proof. unfold first_eval. destruct (supported k p); discriminate. Qed.

End Support.
