(* Sat.v — C07 (first half): the sign of the robustness is sound w.r.t. the
   Boolean semantics of STL, for iff/xor-free formulas. *)
From Coq Require Import List Bool Arith Lia.
From RV Require Import Val Syntax Rho ListFacts OfflineCorrect.
Import ListNotations.

Section Sat.
Context {VS : Val} (AR : Arith VS).

(* what the proof needs from the arithmetic: subtraction and abs reflect the order *)
Record SignLaws := {
  zero_neg : neg (azero AR) = azero AR;
  sub_pos : forall l r, ltb (azero AR) (a2 AR Sub l r) = true -> ltb r l = true;
  sub_neg : forall l r, ltb (a2 AR Sub l r) (azero AR) = true -> ltb l r = true;
  abs_nonneg : forall x, leb (azero AR) (a1 AR Abs x) = true;
  abs_sub_pos : forall l r, ltb (azero AR) (a1 AR Abs (a2 AR Sub l r)) = true -> veqb l r = false
}.
Hypothesis SL : SignLaws.
Notation zero := (azero AR).
Let pk : formula -> formula -> pkind := fun _ _ => PStd.

(* typing: arithmetic terms below predicates, Boolean/temporal structure above *)
Fixpoint is_term (p : formula) : bool :=
  match p with
  | Var _ | Const _ => true
  | A1 _ f => is_term f
  | A2 _ f g => is_term f && is_term g
  | _ => false
  end.
Fixpoint is_bool (p : formula) : bool :=
  match p with
  | Pred _ f g => is_term f && is_term g
  | Not f | Rise f | Fall f | Prev f | SPrev f | Next f | SNext f
  | Once f | Hist f | Ev f | Alw f
  | OnceT _ _ f | HistT _ _ f | EvT _ _ f | AlwT _ _ f => is_bool f
  | And f g | Or f g | Implies f g | Since f g | Until f g
  | SinceT _ _ f g | UntilT _ _ f g => is_bool f && is_bool g
  | _ => false   (* Var/Const/arith at Boolean level, iff, xor, precedes *)
  end.

Definition wex (f : nat -> bool) (lo hi : nat) : bool := existsb f (seq lo (S hi - lo)).
Definition wall (f : nat -> bool) (lo hi : nat) : bool := forallb f (seq lo (S hi - lo)).
Definition rall (f : nat -> bool) (lo len : nat) : bool := forallb f (seq lo len).

(* Boolean STL, same windows and boundary conventions as rho *)
Fixpoint sat (p : formula) (w : trace) (n t : nat) {struct p} : bool :=
  match p with
  | Pred c f g => pred_sat c (rho AR pk f w n t) (rho AR pk g w n t)
  | Not f => negb (sat f w n t)
  | And f g => sat f w n t && sat g w n t
  | Or f g => sat f w n t || sat g w n t
  | Implies f g => negb (sat f w n t) || sat g w n t
  | Rise f => negb (match t with 0 => false | S t' => sat f w n t' end) && sat f w n t
  | Fall f => (match t with 0 => true | S t' => sat f w n t' end) && negb (sat f w n t)
  | Prev f => match t with 0 => true | S t' => sat f w n t' end
  | SPrev f => match t with 0 => false | S t' => sat f w n t' end
  | Next f => if S t <? n then sat f w n (S t) else true
  | SNext f => if S t <? n then sat f w n (S t) else false
  | Once f => wex (sat f w n) 0 t
  | Hist f => wall (sat f w n) 0 t
  | Since f g => wex (fun t' => sat g w n t' && wall (sat f w n) (S t') t) 0 t
  | Ev f => wex (sat f w n) t (n - 1)
  | Alw f => wall (sat f w n) t (n - 1)
  | Until f g => wex (fun t' => sat g w n t' && rall (sat f w n) t (t' - t)) t (n - 1)
  | OnceT b e f => if t <? b then false else wex (sat f w n) (t - e) (t - b)
  | HistT b e f => if t <? b then true else wall (sat f w n) (t - e) (t - b)
  | SinceT b e f g =>
      if t <? b then false
      else wex (fun t' => sat g w n t' && wall (sat f w n) (S t') t) (t - e) (t - b)
  | EvT b e f => if n <=? t + b then false else wex (sat f w n) (t + b) (Nat.min (t + e) (n - 1))
  | AlwT b e f => if n <=? t + b then true else wall (sat f w n) (t + b) (Nat.min (t + e) (n - 1))
  | UntilT b e f g =>
      if n <=? t + b then false
      else wex (fun t' => sat g w n t' && rall (sat f w n) t (t' - t)) (t + b) (Nat.min (t + e) (n - 1))
  | _ => false
  end.

Definition pos (x : V) : Prop := ltb zero x = true.
Definition negv (x : V) : Prop := ltb x zero = true.

Lemma pos_bot : ~ pos bot.
Proof. unfold pos, ltb. rewrite bot_le. discriminate. Qed.
Lemma negv_top : ~ negv top.
Proof. unfold negv, ltb. rewrite top_ge. discriminate. Qed.
Lemma pos_neg x : pos (neg x) <-> negv x.
Proof.
  unfold pos, negv, ltb. rewrite <- (zero_neg SL) at 1. rewrite neg_anti_iff. reflexivity.
Qed.
Lemma negv_neg x : negv (neg x) <-> pos x.
Proof.
  unfold pos, negv, ltb. rewrite <- (zero_neg SL) at 1. rewrite neg_anti_iff. reflexivity.
Qed.
Lemma vmin_le_iff (x y z : V) : leb (vmin x y) z = leb x z || leb y z.
Proof.
  unfold vmin. destruct (leb x y) eqn:E.
  - destruct (leb x z) eqn:E1; [reflexivity|]. destruct (leb y z) eqn:E2; [|reflexivity].
    rewrite (leb_trans _ _ _ E E2) in E1. discriminate.
  - apply leb_false in E. destruct (leb y z) eqn:E2; [symmetry; apply orb_true_r|].
    destruct (leb x z) eqn:E1; [|reflexivity]. rewrite (leb_trans _ _ _ E E1) in E2. discriminate.
Qed.
Lemma vmax_le_iff (x y z : V) : leb (vmax x y) z = leb x z && leb y z.
Proof.
  unfold vmax. destruct (leb x y) eqn:E.
  - destruct (leb y z) eqn:E2; [|symmetry; apply andb_false_r]. rewrite (leb_trans _ _ _ E E2). reflexivity.
  - apply leb_false in E. destruct (leb x z) eqn:E1; [|reflexivity]. rewrite (leb_trans _ _ _ E E1). reflexivity.
Qed.
Lemma le_vmin_iff (x y z : V) : leb z (vmin x y) = leb z x && leb z y.
Proof.
  unfold vmin. destruct (leb x y) eqn:E.
  - destruct (leb z x) eqn:E1; [|reflexivity]. rewrite (leb_trans _ _ _ E1 E). reflexivity.
  - apply leb_false in E. destruct (leb z y) eqn:E2; [|symmetry; apply andb_false_r]. rewrite (leb_trans _ _ _ E2 E). reflexivity.
Qed.
Lemma le_vmax_iff (x y z : V) : leb z (vmax x y) = leb z x || leb z y.
Proof.
  unfold vmax. destruct (leb x y) eqn:E.
  - destruct (leb z y) eqn:E2; [symmetry; apply orb_true_r|]. destruct (leb z x) eqn:E1; [|reflexivity].
    rewrite (leb_trans _ _ _ E1 E) in E2. discriminate.
  - apply leb_false in E. destruct (leb z x) eqn:E1; [reflexivity|]. destruct (leb z y) eqn:E2; [|reflexivity].
    rewrite (leb_trans _ _ _ E2 E) in E1. discriminate.
Qed.

Lemma pos_vmin x y : pos (vmin x y) <-> pos x /\ pos y.
Proof.
  unfold pos, ltb. rewrite vmin_le_iff. destruct (leb x zero), (leb y zero); simpl; split; try tauto;
  intros; try discriminate; destruct H; discriminate.
Qed.
Lemma negv_vmin x y : negv (vmin x y) <-> negv x \/ negv y.
Proof.
  unfold negv, ltb. rewrite le_vmin_iff. destruct (leb zero x), (leb zero y); simpl; split; try tauto;
  intros; try discriminate; destruct H; discriminate.
Qed.
Lemma pos_vmax x y : pos (vmax x y) <-> pos x \/ pos y.
Proof.
  unfold pos, ltb. rewrite vmax_le_iff. destruct (leb x zero), (leb y zero); simpl; split; try tauto;
  intros; try discriminate; destruct H; discriminate.
Qed.
Lemma negv_vmax x y : negv (vmax x y) <-> negv x /\ negv y.
Proof.
  unfold negv, ltb. rewrite le_vmax_iff. destruct (leb zero x), (leb zero y); simpl; split; try tauto;
  intros; try discriminate; destruct H; discriminate.
Qed.

Lemma pos_maxl l : pos (maxl l) <-> exists x, In x l /\ pos x.
Proof.
  induction l as [|y l IH]; simpl.
  - split; [intros H; exfalso; exact (pos_bot H)|intros (x & [] & _)].
  - fold (maxl l). rewrite pos_vmax, IH. split.
    + intros [H|(x & Hx & Hp)]; [exists y; auto|exists x; auto].
    + intros (x & [<-|Hx] & Hp); [left; exact Hp|right; exists x; auto].
Qed.
Lemma negv_maxl l : negv (maxl l) -> forall x, In x l -> negv x.
Proof.
  induction l as [|y l IH]; simpl; [intros _ x []|].
  fold (maxl l). rewrite negv_vmax. intros [H1 H2] x [<-|Hx]; auto.
Qed.
Lemma negv_minl l : negv (minl l) <-> exists x, In x l /\ negv x.
Proof.
  induction l as [|y l IH]; simpl.
  - split; [intros H; exfalso; exact (negv_top H)|intros (x & [] & _)].
  - fold (minl l). rewrite negv_vmin, IH. split.
    + intros [H|(x & Hx & Hp)]; [exists y; auto|exists x; auto].
    + intros (x & [<-|Hx] & Hp); [left; exact Hp|right; exists x; auto].
Qed.
Lemma pos_minl l : pos (minl l) -> forall x, In x l -> pos x.
Proof.
  induction l as [|y l IH]; simpl; [intros _ x []|].
  fold (minl l). rewrite pos_vmin. intros [H1 H2] x [<-|Hx]; auto.
Qed.

(* transfer through index windows *)
Lemma pos_rmax f g lo len : (forall i, lo <= i < lo + len -> pos (f i) -> g i = true) ->
  pos (rmax f lo len) -> existsb g (seq lo len) = true.
Proof.
  intros H Hp. apply pos_maxl in Hp as (x & Hx & Hpx). apply in_map_iff in Hx as (i & <- & Hi).
  apply existsb_exists. exists i. split; [exact Hi|]. apply in_seq in Hi. apply H; [lia|exact Hpx].
Qed.
Lemma negv_rmax f g lo len : (forall i, lo <= i < lo + len -> negv (f i) -> g i = false) ->
  negv (rmax f lo len) -> existsb g (seq lo len) = false.
Proof.
  intros H Hn. destruct (existsb g (seq lo len)) eqn:E; [|reflexivity]. exfalso.
  apply existsb_exists in E as (i & Hi & Hg). pose proof Hi as Hi'. apply in_seq in Hi'.
  rewrite (H i) in Hg; [discriminate|lia|].
  apply (negv_maxl _ Hn). apply in_map. exact Hi.
Qed.
Lemma pos_rmin f g lo len : (forall i, lo <= i < lo + len -> pos (f i) -> g i = true) ->
  pos (rmin f lo len) -> forallb g (seq lo len) = true.
Proof.
  intros H Hp. apply forallb_forall. intros i Hi. pose proof Hi as Hi'. apply in_seq in Hi'.
  apply H; [lia|]. apply (pos_minl _ Hp). apply in_map. exact Hi.
Qed.
Lemma negv_rmin f g lo len : (forall i, lo <= i < lo + len -> negv (f i) -> g i = false) ->
  negv (rmin f lo len) -> forallb g (seq lo len) = false.
Proof.
  intros H Hn. apply negv_minl in Hn as (x & Hx & Hnx). apply in_map_iff in Hx as (i & <- & Hi).
  destruct (forallb g (seq lo len)) eqn:E; [|reflexivity]. exfalso.
  rewrite forallb_forall in E. specialize (E i Hi). apply in_seq in Hi.
  rewrite (H i) in E; [discriminate|lia|exact Hnx].
Qed.

Lemma lt_le (a b : V) : ltb a b = true -> leb a b = true.
Proof. unfold ltb. intros H. destruct (leb b a) eqn:E; [discriminate|]. apply leb_false. exact E. Qed.
Lemma lt_not_le (a b : V) : ltb a b = true -> leb b a = false.
Proof. unfold ltb. intros H. destruct (leb b a); [discriminate|reflexivity]. Qed.
Lemma lt_asym (a b : V) : ltb a b = true -> ltb b a = false.
Proof. intros H. unfold ltb. rewrite (lt_le _ _ H). reflexivity. Qed.

Lemma pred_sound c l r :
  (pos (pred_std AR c l r) -> pred_sat c l r = true) /\ (negv (pred_std AR c l r) -> pred_sat c l r = false).
Proof.
  unfold pos, negv. destruct c; simpl; split; intros H.
  - apply (sub_pos SL) in H. apply lt_le. exact H.
  - apply (sub_neg SL) in H. apply lt_not_le. exact H.
  - apply (sub_pos SL) in H. exact H.
  - apply (sub_neg SL) in H. apply lt_asym. exact H.
  - apply (sub_pos SL) in H. apply lt_le. exact H.
  - apply (sub_neg SL) in H. apply lt_not_le. exact H.
  - apply (sub_pos SL) in H. exact H.
  - apply (sub_neg SL) in H. apply lt_asym. exact H.
  - (* eq, pos impossible *) exfalso. apply pos_neg in H. unfold negv, ltb in H.
    rewrite (abs_nonneg SL) in H. discriminate.
  - apply negv_neg in H. apply (abs_sub_pos SL) in H. exact H.
  - apply (abs_sub_pos SL) in H. rewrite H. reflexivity.
  - exfalso. unfold ltb in H. rewrite (abs_nonneg SL) in H. discriminate.
Qed.

(* arithmetic terms do not look at the predicate kinds *)
Lemma rho_term_pk (pk1 pk2 : formula -> formula -> pkind) (f : formula) (w : trace) (n t : nat) :
  is_term f = true -> rho AR pk1 f w n t = rho AR pk2 f w n t.
Proof.
  induction f; intros H; cbn [is_term] in H; try discriminate; cbn [rho]; try reflexivity.
  - rewrite IHf by exact H. reflexivity.
  - apply andb_prop in H as [H1 H2]. rewrite IHf1, IHf2 by assumption. reflexivity.
Qed.

(* the predicate kinds of the interface-aware semantics keep the sign sound: +-inf by satisfaction, or 0 *)
Lemma pred_val_sound k c l r :
  (pos (pred_val AR k c l r) -> pred_sat c l r = true) /\ (negv (pred_val AR k c l r) -> pred_sat c l r = false).
Proof.
  destruct k; cbn [pred_val].
  - apply pred_sound.
  - destruct (pred_sat c l r); split; intros H; try reflexivity; exfalso; [exact (negv_top H)|exact (pos_bot H)].
  - split; intros H; exfalso; unfold pos, negv, ltb in H; rewrite leb_refl in H; discriminate.
Qed.

Variable pk0 : formula -> formula -> pkind.

Theorem sat_sound_pk (p : formula) (w : trace) (n : nat) :
  is_bool p = true ->
  forall t, (pos (rho AR pk0 p w n t) -> sat p w n t = true) /\
            (negv (rho AR pk0 p w n t) -> sat p w n t = false).
Proof.
  induction p; intros Hb t; simpl in Hb; try discriminate;
  try (apply andb_prop in Hb as [Hb1 Hb2]);
  try (pose proof (IHp Hb) as IH); try (pose proof (IHp1 Hb1) as IH1); try (pose proof (IHp2 Hb2) as IH2);
  cbn [rho sat].
  - (* Pred *) rewrite (rho_term_pk pk0 pk p1 w n t Hb1), (rho_term_pk pk0 pk p2 w n t Hb2). apply pred_val_sound.
  - (* Not *) rewrite pos_neg, negv_neg. destruct (IH t). split; intros H'; [rewrite H0|rewrite H]; auto.
  - (* And *) rewrite pos_vmin, negv_vmin. destruct (IH1 t), (IH2 t). split.
    + intros [? ?]. rewrite H, H1; auto.
    + intros [?|?]; [rewrite H0; auto|rewrite H2; auto]. apply andb_false_r.
  - (* Or *) rewrite pos_vmax, negv_vmax. destruct (IH1 t), (IH2 t). split.
    + intros [?|?]; [rewrite H; auto|rewrite H1; auto]. apply orb_true_r.
    + intros [? ?]. rewrite H0, H2; auto.
  - (* Implies *) rewrite pos_vmax, negv_vmax, pos_neg, negv_neg. destruct (IH1 t), (IH2 t). split.
    + intros [?|?]; [rewrite H0; auto|rewrite H1; auto]. apply orb_true_r.
    + intros [? ?]. rewrite H, H2; auto.
  - (* Rise *) rewrite pos_vmin, negv_vmin, pos_neg, negv_neg. destruct (IH t) as [P N]. split.
    + intros [H1 H2]. rewrite (P H2). destruct t as [|t']; [reflexivity|]. destruct (IH t') as [_ N']. rewrite (N' H1). reflexivity.
    + intros [H1|H2]; [|rewrite (N H2); apply andb_false_r].
      destruct t as [|t']; [exfalso; exact (pos_bot H1)|]. destruct (IH t') as [P' _]. rewrite (P' H1). reflexivity.
  - (* Fall *) rewrite pos_vmin, negv_vmin, pos_neg, negv_neg. destruct (IH t) as [P N]. split.
    + intros [H1 H2]. rewrite (N H2). destruct t as [|t']; [reflexivity|]. destruct (IH t') as [P' _]. rewrite (P' H1). reflexivity.
    + intros [H1|H2]; [|rewrite (P H2); apply andb_false_r].
      destruct t as [|t']; [exfalso; exact (negv_top H1)|]. destruct (IH t') as [_ N']. rewrite (N' H1). reflexivity.
  - (* Prev *) destruct t as [|t']; [split; [reflexivity|intros H; exfalso; exact (negv_top H)]|apply IH].
  - destruct t as [|t']; [split; [intros H; exfalso; exact (pos_bot H)|reflexivity]|apply IH].
  - (* Next *) destruct (S t <? n); [apply IH|split; [reflexivity|intros H; exfalso; exact (negv_top H)]].
  - destruct (S t <? n); [apply IH|split; [intros H; exfalso; exact (pos_bot H)|reflexivity]].
  - (* Once *) unfold wex. rewrite wmax_rmax. split.
    + apply pos_rmax. intros i _. apply IH.
    + apply negv_rmax. intros i _. apply IH.
  - unfold wall. rewrite wmin_rmin. split.
    + apply pos_rmin. intros i _. apply IH.
    + apply negv_rmin. intros i _. apply IH.
  - (* Since *) unfold wex. rewrite wmax_rmax. split.
    + apply pos_rmax. intros i _. rewrite pos_vmin. intros [H1 H2]. rewrite (proj1 (IH2 i) H1).
      unfold wall. rewrite wmin_rmin in H2. apply (pos_rmin _ (sat p1 w n)) in H2; [exact H2|]. intros j _. apply IH1.
    + apply negv_rmax. intros i _. rewrite negv_vmin. intros [H1|H2]; [rewrite (proj2 (IH2 i) H1); reflexivity|].
      unfold wall. rewrite wmin_rmin in H2. apply (negv_rmin _ (sat p1 w n)) in H2; [rewrite H2; apply andb_false_r|]. intros j _. apply IH1.
  - (* Ev *) unfold wex. rewrite wmax_rmax. split.
    + apply pos_rmax. intros i _. apply IH.
    + apply negv_rmax. intros i _. apply IH.
  - unfold wall. rewrite wmin_rmin. split.
    + apply pos_rmin. intros i _. apply IH.
    + apply negv_rmin. intros i _. apply IH.
  - (* Until *) unfold wex. rewrite wmax_rmax. split.
    + apply pos_rmax. intros i _. rewrite pos_vmin. intros [H1 H2]. rewrite (proj1 (IH2 i) H1).
      unfold rall. apply (pos_rmin _ (sat p1 w n)) in H2; [exact H2|]. intros j _. apply IH1.
    + apply negv_rmax. intros i _. rewrite negv_vmin. intros [H1|H2]; [rewrite (proj2 (IH2 i) H1); reflexivity|].
      unfold rall. apply (negv_rmin _ (sat p1 w n)) in H2; [rewrite H2; apply andb_false_r|]. intros j _. apply IH1.
  - (* OnceT *) destruct (t <? b); [split; [intros H; exfalso; exact (pos_bot H)|reflexivity]|].
    unfold wex. rewrite wmax_rmax. split.
    + apply pos_rmax. intros i _. apply IH.
    + apply negv_rmax. intros i _. apply IH.
  - destruct (t <? b); [split; [reflexivity|intros H; exfalso; exact (negv_top H)]|].
    unfold wall. rewrite wmin_rmin. split.
    + apply pos_rmin. intros i _. apply IH.
    + apply negv_rmin. intros i _. apply IH.
  - (* SinceT *) destruct (t <? b); [split; [intros H; exfalso; exact (pos_bot H)|reflexivity]|].
    unfold wex. rewrite wmax_rmax. split.
    + apply pos_rmax. intros i _. rewrite pos_vmin. intros [H1 H2]. rewrite (proj1 (IH2 i) H1).
      unfold wall. rewrite wmin_rmin in H2. apply (pos_rmin _ (sat p1 w n)) in H2; [exact H2|]. intros j _. apply IH1.
    + apply negv_rmax. intros i _. rewrite negv_vmin. intros [H1|H2]; [rewrite (proj2 (IH2 i) H1); reflexivity|].
      unfold wall. rewrite wmin_rmin in H2. apply (negv_rmin _ (sat p1 w n)) in H2; [rewrite H2; apply andb_false_r|]. intros j _. apply IH1.
  - (* EvT *) destruct (n <=? t + b); [split; [intros H; exfalso; exact (pos_bot H)|reflexivity]|].
    unfold wex. rewrite wmax_rmax. split.
    + apply pos_rmax. intros i _. apply IH.
    + apply negv_rmax. intros i _. apply IH.
  - destruct (n <=? t + b); [split; [reflexivity|intros H; exfalso; exact (negv_top H)]|].
    unfold wall. rewrite wmin_rmin. split.
    + apply pos_rmin. intros i _. apply IH.
    + apply negv_rmin. intros i _. apply IH.
  - (* UntilT *) destruct (n <=? t + b); [split; [intros H; exfalso; exact (pos_bot H)|reflexivity]|].
    unfold wex. rewrite wmax_rmax. split.
    + apply pos_rmax. intros i _. rewrite pos_vmin. intros [H1 H2]. rewrite (proj1 (IH2 i) H1).
      unfold rall. apply (pos_rmin _ (sat p1 w n)) in H2; [exact H2|]. intros j _. apply IH1.
    + apply negv_rmax. intros i _. rewrite negv_vmin. intros [H1|H2]; [rewrite (proj2 (IH2 i) H1); reflexivity|].
      unfold rall. apply (negv_rmin _ (sat p1 w n)) in H2; [rewrite H2; apply andb_false_r|]. intros j _. apply IH1.
Qed.

End Sat.

(* the standard semantics *)
Theorem sat_sound {VS : Val} (AR : Arith VS) (SL : SignLaws AR) (p : formula) (w : trace) (n : nat) :
  is_bool p = true ->
  forall t, (pos AR (rho AR (fun _ _ => PStd) p w n t) -> sat AR p w n t = true) /\
            (negv AR (rho AR (fun _ _ => PStd) p w n t) -> sat AR p w n t = false).
Proof. exact (sat_sound_pk AR SL (fun _ _ => PStd) p w n). Qed.
