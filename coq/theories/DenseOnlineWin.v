(* DenseOnlineWin.v — implementation layer of dense-time ONLINE evaluation of the bounded past operators:
   a line-by-line transcription of the state and of update() of
     rtamt/semantics/stl/dense_time/online/once_timed_operation.py          (OnceTimedOperation)
     rtamt/semantics/stl/dense_time/online/historically_timed_operation.py  (HistoricallyTimedOperation)
   The two classes differ in three places only: the comparison of the popping loop and of the overlap test
   (a[2] < b[2] / a[2] > b[2]), the value of the padding piece (-inf / +inf) and the initial value of
   residual_start (-inf / +inf).  The transcription is generic in these ([lt], [pad], initial state).

   Conventions of the transcription
   * a piece (lo, hi, v) is a [piece] of DenseWin.v; every end built here is finite ([T _]);
   * [w_prev] is self.prev in Python order (out[0] first).  Inside update() the list [out] is handled as a stack
     whose head is out[-1] ([rev] on entry, [rev] before the final enumeration): the body of the while loop
       "if not out: append(b) else: a = out[-1]; while a[2] < b[2] and b[0] < a[0]: del out[-1]; a = out[-1] ..."
     is textually the one of the offline once_timed_operation, transcribed as [push_piece] in DenseWin.v
     ([None] = IndexError on the emptied list);
   * residual_start is -inf / +inf before the first sample: [rstamp];
   * the local variable prev = nan of the enumeration is [None] (nan differs from every value);
   * [None] as a result is an exception. *)
From Coq Require Import List Bool Arith ZArith Lia.
From RV Require Import Val Syntax Rho Online Dense DenseMerge DenseEval DenseWin.
Import ListNotations.
Local Open Scope Z_scope.

Section OnlineWin.
Context {VS : Val}.

Inductive rstamp := RNegInf | RFin (z : Z) | RPosInf.

(* sample[0][0] == self.residual_start *)
Definition rs_eqb (t : Z) (r : rstamp) : bool := match r with RFin z => t =? z | _ => false end.
(* self.residual_start >= x   (x = b[1], or b[0] as [T _]) *)
Definition rs_geb (r : rstamp) (x : tz) : bool :=
  match r, x with
  | RPosInf, _ => true
  | RFin z, T y => y <=? z
  | _, _ => false
  end.
(* b[0] <= self.residual_start < b[1] *)
Definition rs_in (r : rstamp) (lo : Z) (hi : tz) : bool :=
  match r with RFin z => (lo <=? z) && tlt (T z) hi | _ => false end.

Record wstate := { w_prev : list piece; w_rs : rstamp; w_started : bool; w_begin : Z; w_end : Z }.

Definition win_init (rs0 : rstamp) (a b : Z) : wstate :=
  {| w_prev := []; w_rs := rs0; w_started := false; w_begin := a; w_end := b |}.
Definition owin_init (a b : Z) : wstate := win_init RNegInf a b.     (* OnceTimedOperation(a, b) *)
Definition hwin_init (a b : Z) : wstate := win_init RPosInf a b.     (* HistoricallyTimedOperation(a, b) *)

(* if sample and self.started and sample[0][0] == self.residual_start: sample = sample[1:] *)
Definition drop_repeat (st : wstate) (sample : dsig) : dsig :=
  match sample with
  | (t0, _) :: rest => if w_started st && rs_eqb t0 (w_rs st) then rest else sample
  | [] => []
  end.

(* self.residual_start = sample[-1][0] *)
Definition new_rs (old : rstamp) (sample : dsig) : rstamp :=
  match rev sample with (tn, _) :: _ => RFin tn | [] => old end.

(* if out: out[-1] = (last_prev[0], first_now[0] + end, last_prev[2])        (out: head = out[-1]) *)
Definition extend_last (out : list piece) (sample : dsig) (e : Z) : list piece :=
  match sample, out with
  | (t0, _) :: _, q :: r => (ps q, T (t0 + e), pv q) :: r
  | _, _ => out
  end.

(* if i == 1 and sample[0][0] == 0 and begin > 0 and not self.started: out.append((0, sample[0][0] + begin, pad)) *)
Definition add_pad (pad : V) (started : bool) (out : list piece) (sample : dsig) (b : Z) : list piece :=
  match sample with
  | (t0, _) :: _ => if (t0 =? 0) && (0 <? b) && negb started then (0, T (t0 + b), pad) :: out else out
  | [] => out
  end.

(* the pieces b of the while loop: (sample[i-1][0] + begin, sample[i][0] + end, sample[i-1][1]),
   the last one (sample[-1][0] + begin, sample[-1][0] + end, sample[-1][1]) *)
Fixpoint win_pieces (s : dsig) (b e : Z) : list piece :=
  match s with
  | [] => []
  | (t, v) :: r => (t + b, T (match r with (t', _) :: _ => t' + e | [] => t + e end), v) :: win_pieces r b e
  end.

(* for i, b in enumerate(out): ...        l = what is left of out (out[0] first), pv0 = the local prev;
   result: the samples appended to sample_result, the final value of last, the pieces appended to self.prev *)
Fixpoint scan (rs : rstamp) (l : list piece) (pv0 : option V) : dsig * option (Z * V) * list piece :=
  match l with
  | [] => ([], None, [])
  | b :: l' =>
      let is_last := match l' with [] => true | _ => false end in
      (* if b[2] != prev or i == len(out) - 1 *)
      let emit := (match pv0 with Some p => negb (veq (pv b) p) | None => true end) || is_last in
      let '(res', last', np') := scan rs l' (Some (pv b)) in
      let keep_last (x : Z * V) := match last' with Some y => Some y | None => Some x end in
      if rs_geb rs (pe b) then
        ((if emit then [(ps b, pv b)] else []) ++ res', keep_last (ps b, pv b), np')
      else if rs_in rs (ps b) (pe b) then
        match rs with
        | RFin z =>
            if rs_geb rs (T (ps b)) then
              ((if emit then [(ps b, pv b)] else []) ++ res', keep_last (z, pv b), (z, pe b, pv b) :: np')
            else ((if emit then [(ps b, pv b)] else []) ++ res', keep_last (ps b, pv b), np')
        | _ => ((if emit then [(ps b, pv b)] else []) ++ res', keep_last (ps b, pv b), np')
        end
      else (res', last', b :: np')
  end.

(* if last: if not sample_result: append(last) else: if last[0] > sample_result[-1][0]: append(last) *)
Definition add_last (res : dsig) (last : option (Z * V)) : dsig :=
  match last with
  | None => res
  | Some la =>
      match rev res with
      | [] => [la]
      | (tr, _) :: _ => if tr <? fst la then res ++ [la] else res
      end
  end.

Definition win_update (lt : V -> V -> bool) (pad : V) (st : wstate) (sample0 : dsig) : option (wstate * dsig) :=
  let b := w_begin st in
  let e := w_end st in
  let sample := drop_repeat st sample0 in
  let rs := new_rs (w_rs st) sample in
  let out0 := extend_last (rev (w_prev st)) sample e in
  let out1 := add_pad pad (w_started st) out0 sample b in
  match push_all lt out1 (win_pieces sample b e) with
  | None => None
  | Some out =>
      let '(res, last, np) := scan rs (rev out) None in
      Some ({| w_prev := np; w_rs := rs;
               w_started := w_started st || match sample with [] => false | _ => true end;
               w_begin := b; w_end := e |},
            add_last res last)
  end.

Definition once_timed_update : wstate -> dsig -> option (wstate * dsig) := win_update ltb bot.
Definition hist_timed_update : wstate -> dsig -> option (wstate * dsig) := win_update (fun x y => ltb y x) top.

(* a sequence of updates; the lists returned by the successive calls *)
Fixpoint win_run (lt : V -> V -> bool) (pad : V) (st : wstate) (bs : list dsig) : option (wstate * list dsig) :=
  match bs with
  | [] => Some (st, [])
  | c :: bs' =>
      match win_update lt pad st c with
      | None => None
      | Some (st', o) =>
          match win_run lt pad st' bs' with
          | None => None
          | Some (st'', os) => Some (st'', o :: os)
          end
      end
  end.
Definition once_timed_run := win_run ltb bot.
Definition hist_timed_run := win_run (fun x y => ltb y x) top.

End OnlineWin.
