(* ListFacts.v — tabulated lists, slices, scans: the list vocabulary the
   offline visitor uses, related to index functions. *)
From Coq Require Import List Bool Arith Lia.
From RV Require Import Val.
Import ListNotations.

Section Tab.
Context {A : Type}.

Definition tab (r : nat -> A) (n : nat) : list A := map r (seq 0 n).

Lemma tab_length r n : length (tab r n) = n.
Proof. unfold tab. rewrite map_length, seq_length. reflexivity. Qed.

Lemma nth_map_seq (r : nat -> A) lo len t d : t < len -> nth t (map r (seq lo len)) d = r (lo + t).
Proof.
  revert lo t. induction len as [|len IH]; intros lo t H; [lia|].
  destruct t as [|t]; simpl.
  - f_equal. lia.
  - rewrite IH by lia. f_equal. lia.
Qed.

Lemma nth_tab r n t d : t < n -> nth t (tab r n) d = r t.
Proof. intros H. unfold tab. rewrite nth_map_seq by lia. reflexivity. Qed.

Lemma nth_tab_ge r n t d : n <= t -> nth t (tab r n) d = d.
Proof. intros H. apply nth_overflow. rewrite tab_length. lia. Qed.

Lemma tab_ext r1 r2 n : (forall t, t < n -> r1 t = r2 t) -> tab r1 n = tab r2 n.
Proof. intros H. apply map_ext_in. intros a Ha. apply in_seq in Ha. apply H. lia. Qed.

Lemma list_eq_tab (l : list A) (f : nat -> A) n d :
  length l = n -> (forall t, t < n -> nth t l d = f t) -> l = tab f n.
Proof.
  intros Hl H. apply (nth_ext _ _ d d).
  - rewrite tab_length. exact Hl.
  - intros t Ht. rewrite Hl in Ht. rewrite H, nth_tab by lia. reflexivity.
Qed.

Lemma tab_S r n : tab r (S n) = tab r n ++ [r n].
Proof. unfold tab. rewrite seq_S, map_app. reflexivity. Qed.

Lemma tab_cons r n : tab r (S n) = r 0 :: tab (fun t => r (S t)) n.
Proof. unfold tab. simpl. f_equal. rewrite <- seq_shift, map_map. reflexivity. Qed.

Lemma rev_tab r n : rev (tab r n) = tab (fun t => r (n - 1 - t)) n.
Proof.
  apply (list_eq_tab _ _ _ (r 0)).
  - rewrite rev_length, tab_length. reflexivity.
  - intros t Ht. rewrite rev_nth by (rewrite tab_length; lia).
    rewrite tab_length, nth_tab by lia. f_equal. lia.
Qed.

Lemma repeat_tab (c : A) n : repeat c n = tab (fun _ => c) n.
Proof.
  apply (list_eq_tab _ _ _ c).
  - apply repeat_length.
  - intros t Ht. apply nth_repeat.
Qed.

Lemma nth_repeat_any (c d : A) n t : t < n -> nth t (repeat c n) d = c.
Proof. revert t. induction n as [|n IH]; intros t H; [lia|]. destruct t; simpl; [reflexivity|apply IH; lia]. Qed.

Lemma tl_tab r n : tl (tab r n) = tab (fun t => r (S t)) (n - 1).
Proof.
  destruct n as [|n]; [reflexivity|].
  rewrite tab_cons. simpl. replace (n - 0) with n by lia. reflexivity.
Qed.

Lemma removelast_tab r n : removelast (tab r n) = tab r (n - 1).
Proof.
  destruct n as [|n]; [reflexivity|].
  rewrite tab_S, removelast_last. replace (S n - 1) with n by lia. reflexivity.
Qed.

Lemma skipn_tab r n k : skipn k (tab r n) = map r (seq k (n - k)).
Proof.
  unfold tab. rewrite skipn_map. f_equal.
  revert k. induction n as [|n IH]; intros k.
  - destruct k; reflexivity.
  - destruct k as [|k]; [reflexivity|].
    simpl seq at 1. rewrite <- seq_shift. simpl skipn. rewrite skipn_map, IH.
    rewrite seq_shift. reflexivity.
Qed.

Lemma firstn_tab r n k : firstn k (tab r n) = tab r (Nat.min k n).
Proof.
  unfold tab. rewrite firstn_map. f_equal.
  revert k. induction n as [|n IH]; intros k.
  - destruct k; reflexivity.
  - destruct k as [|k]; [reflexivity|].
    simpl. f_equal. rewrite <- !seq_shift, firstn_map, IH. reflexivity.
Qed.

End Tab.

Lemma map_tab {A B} (g : A -> B) r n : map g (tab r n) = tab (fun t => g (r t)) n.
Proof. unfold tab. rewrite map_map. reflexivity. Qed.

Lemma combine_tab {A B} (r1 : nat -> A) (r2 : nat -> B) n :
  combine (tab r1 n) (tab r2 n) = tab (fun t => (r1 t, r2 t)) n.
Proof.
  unfold tab. generalize 0 as lo. induction n as [|n IH]; intros lo; simpl; [reflexivity|].
  f_equal. apply IH.
Qed.

Lemma firstn_seq_ k lo len : firstn k (seq lo len) = seq lo (Nat.min k len).
Proof.
  revert k lo. induction len as [|len IH]; intros k lo.
  - rewrite Nat.min_0_r. destruct k; reflexivity.
  - destruct k as [|k]; [reflexivity|]. simpl. f_equal. apply IH.
Qed.
Lemma skipn_seq_ k lo len : skipn k (seq lo len) = seq (lo + k) (len - k).
Proof.
  revert k lo. induction len as [|len IH]; intros k lo.
  - destruct k; reflexivity.
  - destruct k as [|k].
    + rewrite Nat.add_0_r, Nat.sub_0_r. reflexivity.
    + simpl. rewrite IH. f_equal. lia.
Qed.

Lemma list_as_tab {A} (s : list A) d : s = tab (fun k => nth k s d) (length s).
Proof. apply (list_eq_tab _ _ _ d); [reflexivity|]. intros; reflexivity. Qed.

(* Python's s[i:j] as a tabulation *)
Lemma slice_as_map {A} (s : list A) d i j :
  firstn (j - i) (skipn i s) = map (fun k => nth k s d) (seq i (Nat.min (j - i) (length s - i))).
Proof.
  rewrite (list_as_tab s d) at 1. unfold tab.
  rewrite skipn_map, firstn_map, skipn_seq_, firstn_seq_. reflexivity.
Qed.

Lemma nth_firstn_lt {A} (l : list A) k t d : t < k -> nth t (firstn k l) d = nth t l d.
Proof.
  revert k t. induction l as [|x l IH]; intros k t H.
  - rewrite firstn_nil. reflexivity.
  - destruct k as [|k]; [lia|]. destruct t as [|t]; simpl; [reflexivity|]. apply IH. lia.
Qed.

Lemma tl_skipn {A} (l : list A) k : tl (skipn k l) = skipn (S k) l.
Proof.
  revert l. induction k as [|k IH]; intros l.
  - destruct l; reflexivity.
  - destruct l as [|x l]; [reflexivity|]. simpl skipn at 1. rewrite IH. reflexivity.
Qed.

Lemma nth_skipn_ {A} (l : list A) k j d : nth j (skipn k l) d = nth (k + j) l d.
Proof.
  revert l. induction k as [|k IH]; intros l; [reflexivity|].
  destruct l as [|x l]; simpl; [destruct j; reflexivity|]. apply IH.
Qed.

Lemma map_fst_combine {A B} (l1 : list A) (l2 : list B) :
  length l1 <= length l2 -> map fst (combine l1 l2) = l1.
Proof.
  revert l2. induction l1 as [|x l1 IH]; intros l2 H; [reflexivity|].
  destruct l2 as [|y l2]; simpl in *; [lia|]. f_equal. apply IH. lia.
Qed.

Lemma last_map {A B} (f : A -> B) (l : list A) d d' : l <> [] -> last (map f l) d' = f (last l d).
Proof.
  induction l as [|x l IH]; intros H; [congruence|].
  destruct l as [|y l]; [reflexivity|].
  change (last (map f (x :: y :: l)) d') with (last (map f (y :: l)) d').
  change (last (x :: y :: l) d) with (last (y :: l) d). apply IH. discriminate.
Qed.
