(* ExplainCorrect.v — the intervals the explainer model reports are a
   sufficient cause: a trace that coincides with the original on every
   reported position keeps every violated assertion violated. *)
From Coq Require Import List Bool Arith Lia.
From RV Require Import Val Syntax Rho Sat Explain ExplainFacts.
Import ListNotations.

Section Order.
Context {VS : Val}.
Implicit Types x y z : V.

Lemma lt_le_trans x y z : ltb x y = true -> leb y z = true -> ltb x z = true.
Proof.
  unfold ltb. intros H1 H2. destruct (leb z x) eqn:E; [|reflexivity].
  rewrite (leb_trans _ _ _ H2 E) in H1. discriminate.
Qed.
Lemma le_lt_trans x y z : leb x y = true -> ltb y z = true -> ltb x z = true.
Proof.
  unfold ltb. intros H1 H2. destruct (leb z x) eqn:E; [|reflexivity].
  rewrite (leb_trans _ _ _ E H1) in H2. discriminate.
Qed.
Lemma lt_le x y : ltb x y = true -> leb x y = true.
Proof. unfold ltb. intros H. destruct (leb_total x y) as [E|E]; [exact E|]. rewrite E in H. discriminate. Qed.
Lemma not_lt_bot z : ltb z bot = false.
Proof. unfold ltb. rewrite bot_le. reflexivity. Qed.
Lemma not_top_lt z : ltb top z = false.
Proof. unfold ltb. rewrite top_ge. reflexivity. Qed.

Lemma wmax_ge (F : nat -> V) lo hi j : lo <= j <= hi -> leb (F j) (wmax F lo hi) = true.
Proof. intros Hj. apply (proj1 (wmax_ub F lo hi (wmax F lo hi)) (leb_refl _) j Hj). Qed.
Lemma wmin_le (F : nat -> V) lo hi j : lo <= j <= hi -> leb (wmin F lo hi) (F j) = true.
Proof. intros Hj. apply (proj1 (wmin_lb F lo hi (wmin F lo hi)) (leb_refl _) j Hj). Qed.

Lemma wmax_attained (F : nat -> V) : forall k lo, exists j, lo <= j <= lo + k /\ wmax F lo (lo + k) = F j.
Proof.
  induction k as [|k IH]; intros lo.
  - exists lo. split; [lia|]. rewrite Nat.add_0_r. apply wmax_single.
  - rewrite wmax_cons by lia. destruct (IH (S lo)) as (j & Hj & E).
    replace (S lo + k) with (lo + S k) in * by lia. rewrite E.
    unfold vmax. destruct (leb (F lo) (F j)); [exists j; split; [lia|reflexivity]|exists lo; split; [lia|reflexivity]].
Qed.
Lemma wmin_attained (F : nat -> V) : forall k lo, exists j, lo <= j <= lo + k /\ wmin F lo (lo + k) = F j.
Proof.
  induction k as [|k IH]; intros lo.
  - exists lo. split; [lia|]. rewrite Nat.add_0_r. apply wmin_single.
  - rewrite wmin_cons by lia. destruct (IH (S lo)) as (j & Hj & E).
    replace (S lo + k) with (lo + S k) in * by lia. rewrite E.
    unfold vmin. destruct (leb (F lo) (F j)); [exists lo; split; [lia|reflexivity]|exists j; split; [lia|reflexivity]].
Qed.

Variable zero : V.

(* the four window lemmas: values on the reported side of zero can only move away from it *)
Lemma wmax_up (F G : nat -> V) lo hi :
  (forall j, lo <= j <= hi -> ltb zero (F j) = true -> leb (F j) (G j) = true) ->
  ltb zero (wmax F lo hi) = true -> leb (wmax F lo hi) (wmax G lo hi) = true.
Proof.
  intros H Hp. destruct (Nat.lt_ge_cases hi lo) as [He|He].
  - rewrite (wmax_empty F) in Hp by exact He. rewrite not_lt_bot in Hp. discriminate.
  - destruct (wmax_attained F (hi - lo) lo) as (j & Hj & E). replace (lo + (hi - lo)) with hi in * by lia.
    rewrite E in *. eapply leb_trans; [apply H; [lia|exact Hp]|apply wmax_ge; lia].
Qed.
Lemma wmin_up (F G : nat -> V) lo hi :
  (forall j, lo <= j <= hi -> ltb zero (F j) = true -> leb (F j) (G j) = true) ->
  ltb zero (wmin F lo hi) = true -> leb (wmin F lo hi) (wmin G lo hi) = true.
Proof.
  intros H Hp. apply wmin_lb. intros j Hj.
  eapply leb_trans; [apply wmin_le; exact Hj|]. apply H; [exact Hj|].
  eapply lt_le_trans; [exact Hp|apply wmin_le; exact Hj].
Qed.
Lemma wmax_down (F G : nat -> V) lo hi :
  (forall j, lo <= j <= hi -> ltb (F j) zero = true -> leb (G j) (F j) = true) ->
  ltb (wmax F lo hi) zero = true -> leb (wmax G lo hi) (wmax F lo hi) = true.
Proof.
  intros H Hp. apply wmax_ub. intros j Hj.
  eapply leb_trans; [|apply wmax_ge; exact Hj]. apply H; [exact Hj|].
  eapply le_lt_trans; [apply wmax_ge; exact Hj|exact Hp].
Qed.
Lemma wmin_down (F G : nat -> V) lo hi :
  (forall j, lo <= j <= hi -> ltb (F j) zero = true -> leb (G j) (F j) = true) ->
  ltb (wmin F lo hi) zero = true -> leb (wmin G lo hi) (wmin F lo hi) = true.
Proof.
  intros H Hp. destruct (Nat.lt_ge_cases hi lo) as [He|He].
  - rewrite (wmin_empty F) in Hp by exact He. rewrite not_top_lt in Hp. discriminate.
  - destruct (wmin_attained F (hi - lo) lo) as (j & Hj & E). replace (lo + (hi - lo)) with hi in * by lia.
    rewrite E in *. eapply leb_trans; [apply (wmin_le G lo hi j); lia|apply H; [lia|exact Hp]].
Qed.
End Order.

(* ---------------- the table ---------------- *)
Lemma tb_get_set_same x iv tb : tb_get x (tb_set x iv tb) = iv.
Proof.
  induction tb as [|[y J] r IH]; cbn [tb_set tb_get]; [rewrite Nat.eqb_refl; reflexivity|].
  destruct (Nat.eqb x y) eqn:E; cbn [tb_get]; rewrite E; [reflexivity|exact IH].
Qed.
Lemma tb_get_set_other x y iv tb : x <> y -> tb_get y (tb_set x iv tb) = tb_get y tb.
Proof.
  intros Hne. induction tb as [|[z J] r IH]; cbn [tb_set tb_get].
  - destruct (Nat.eqb y x) eqn:E; [apply Nat.eqb_eq in E; congruence|reflexivity].
  - destruct (Nat.eqb x z) eqn:E; cbn [tb_get].
    + apply Nat.eqb_eq in E. subst z. destruct (Nat.eqb y x) eqn:E2; [apply Nat.eqb_eq in E2; congruence|reflexivity].
    + destruct (Nat.eqb y z); [reflexivity|exact IH].
Qed.
Definition tb_le (tb tb' : table) : Prop := forall x j, j ∈ (tb_get x tb) -> j ∈ (tb_get x tb').
Lemma tb_le_refl tb : tb_le tb tb. Proof. intros x j H. exact H. Qed.
Lemma tb_le_trans a b c : tb_le a b -> tb_le b c -> tb_le a c.
Proof. intros H1 H2 x j H. apply H2, H1, H. Qed.
Lemma tb_add_le x iv tb : tb_le tb (tb_add x iv tb).
Proof.
  intros y j H. unfold tb_add. destruct (Nat.eq_dec x y) as [<-|Hne].
  - rewrite tb_get_set_same. apply iunion_in. apply inI_app. left. exact H.
  - rewrite tb_get_set_other by exact Hne. exact H.
Qed.
Lemma tb_add_in x iv tb j : j ∈ iv -> j ∈ (tb_get x (tb_add x iv tb)).
Proof. intros H. unfold tb_add. rewrite tb_get_set_same. apply iunion_in. apply inI_app. right. exact H. Qed.

Section Sound.
Context {VS : Val} (AR : Arith VS).
Hypothesis SL : SignLaws AR.
Variable pk : formula -> formula -> pkind.
Variables (w w' : trace) (n : nat).
Notation zero := (azero AR).
Notation R := (rho AR pk).

Lemma expl_mono p : forall flag iv tb tb', expl AR pk w n p flag iv tb = Some tb' -> tb_le tb tb'.
Proof.
  induction p; intros flag iv tb tb' H; cbn [expl] in H; try discriminate;
  try (injection H as <-; first [apply tb_le_refl|apply tb_add_le]);
  try (eapply IHp; exact H);
  try (unfold obind in H;
       match type of H with
       | match expl _ _ _ _ p ?f1 ?i1 ?t1 with _ => _ end = _ =>
           destruct (expl AR pk w n p f1 i1 t1) as [tb1|] eqn:E1; [|discriminate];
           eapply tb_le_trans; [eapply IHp; exact E1|eapply IHp; exact H]
       end; fail);
  try (repeat match type of H with context [if ?c then _ else _] => destruct c end;
       unfold obind in H;
       match type of H with
       | match expl _ _ _ _ ?q ?f1 ?i1 ?t1 with _ => _ end = _ =>
           destruct (expl AR pk w n q f1 i1 t1) as [tb1|] eqn:E1; [|discriminate];
           eapply tb_le_trans; [eapply IHp1; exact E1|eapply IHp2; exact H]
       end).
Qed.

(* the re-assigned trace coincides with the original on every reported position *)
Definition agree (tb : table) : Prop := forall x j, j ∈ (tb_get x tb) -> sig w' x j = sig w x j.
Lemma agree_le tb tb' : tb_le tb tb' -> agree tb' -> agree tb.
Proof. intros H A x j Hj. apply A, H, Hj. Qed.

Fixpoint exact_ok (p : formula) : bool :=
  match p with
  | Var _ | Const _ => true
  | A1 _ f | Not f | Prev f | SPrev f | Next f | SNext f => exact_ok f
  | A2 _ f g | Pred _ f g | Iff f g | Xor f g => exact_ok f && exact_ok g
  | _ => false
  end.

Fixpoint explainable (p : formula) : bool :=
  match p with
  | Var _ | Const _ => true
  | A1 _ f => exact_ok f
  | A2 _ f g | Pred _ f g | Iff f g | Xor f g => exact_ok f && exact_ok g
  | Not f | Ev f | Alw f | Once f | Hist f | Prev f | SPrev f | Next f | SNext f | Rise f | Fall f => explainable f
  | EvT a b f | AlwT a b f | OnceT a b f | HistT a b f => (a <=? b) && explainable f
  | And f g | Or f g | Implies f g => explainable f && explainable g
  | _ => false
  end.

Lemma expl_exact p : exact_ok p = true ->
  forall flag iv tb tb', expl AR pk w n p flag iv tb = Some tb' -> agree tb' ->
  forall i, i ∈ iv -> R p w' n i = R p w n i.
Proof.
  induction p; intros Hx flag iv tb tb' H A i Hi; cbn [exact_ok] in Hx; try discriminate;
  try (apply andb_prop in Hx as [Hx1 Hx2]); cbn [expl] in H; cbn [rho].
  - (* Var *) injection H as <-. apply A. apply tb_add_in. exact Hi.
  - reflexivity.
  - rewrite (IHp Hx flag iv tb tb' H A i Hi). reflexivity.
  - unfold obind in H. destruct (expl AR pk w n p1 flag iv tb) as [tb1|] eqn:E1; [|discriminate].
    rewrite (IHp1 Hx1 flag iv tb tb1 E1 (agree_le _ _ (expl_mono _ _ _ _ _ H) A) i Hi), (IHp2 Hx2 flag iv tb1 tb' H A i Hi). reflexivity.
  - unfold obind in H. destruct (expl AR pk w n p1 flag iv tb) as [tb1|] eqn:E1; [|discriminate].
    rewrite (IHp1 Hx1 flag iv tb tb1 E1 (agree_le _ _ (expl_mono _ _ _ _ _ H) A) i Hi), (IHp2 Hx2 flag iv tb1 tb' H A i Hi). reflexivity.
  - rewrite (IHp Hx (negb flag) iv tb tb' H A i Hi). reflexivity.
  - unfold obind in H. destruct (expl AR pk w n p1 flag iv tb) as [tb1|] eqn:E1; [|discriminate].
    rewrite (IHp1 Hx1 flag iv tb tb1 E1 (agree_le _ _ (expl_mono _ _ _ _ _ H) A) i Hi), (IHp2 Hx2 flag iv tb1 tb' H A i Hi). reflexivity.
  - unfold obind in H. destruct (expl AR pk w n p1 flag iv tb) as [tb1|] eqn:E1; [|discriminate].
    rewrite (IHp1 Hx1 flag iv tb tb1 E1 (agree_le _ _ (expl_mono _ _ _ _ _ H) A) i Hi), (IHp2 Hx2 flag iv tb1 tb' H A i Hi). reflexivity.
  - (* Prev *) destruct i as [|i]; [reflexivity|]. apply (IHp Hx flag _ tb tb' H A i). apply e_prev_in. exact Hi.
  - destruct i as [|i]; [reflexivity|]. apply (IHp Hx flag _ tb tb' H A i). apply e_prev_in. exact Hi.
  - (* Next *) destruct (S i <? n) eqn:E; [|reflexivity]. apply Nat.ltb_lt in E.
    apply (IHp Hx flag _ tb tb' H A (S i)). apply e_next_in; assumption.
  - destruct (S i <? n) eqn:E; [|reflexivity]. apply Nat.ltb_lt in E.
    apply (IHp Hx flag _ tb tb' H A (S i)). apply e_next_in; assumption.
Qed.


Definition keeps (flag : bool) (v v' : V) : Prop :=
  if flag then ltb zero v = true -> leb v v' = true else ltb v zero = true -> leb v' v = true.
Lemma keeps_eq flag v v' : v' = v -> keeps flag v v'.
Proof. intros ->. destruct flag; intros _; apply leb_refl. Qed.

Lemma pos_neg a : ltb zero (neg a) = ltb a zero.
Proof. unfold ltb. f_equal. rewrite <- (zero_neg AR SL) at 1. apply neg_anti_iff. Qed.
Lemma neg_pos a : ltb (neg a) zero = ltb zero a.
Proof. unfold ltb. f_equal. rewrite <- (zero_neg AR SL) at 1. apply neg_anti_iff. Qed.
Lemma keeps_neg flag a a' : keeps (negb flag) a a' -> keeps flag (neg a) (neg a').
Proof.
  destruct flag; cbn [negb keeps]; intros H Hs.
  - rewrite pos_neg in Hs. rewrite neg_anti_iff. exact (H Hs).
  - rewrite neg_pos in Hs. rewrite neg_anti_iff. exact (H Hs).
Qed.

Lemma keeps_vmin flag a a' b b' : keeps flag a a' -> keeps flag b b' -> keeps flag (vmin a b) (vmin a' b').
Proof.
  destruct flag; cbn [keeps]; intros Ka Kb Hs.
  - apply vmin_mono; [apply Ka|apply Kb]; (eapply lt_le_trans; [exact Hs|]); [apply vmin_le_l|apply vmin_le_r].
  - unfold vmin in Hs |- *. destruct (leb a b) eqn:E.
    + specialize (Ka Hs). destruct (leb a' b') eqn:E'; [exact Ka|]. apply leb_false in E'. eapply leb_trans; eassumption.
    + specialize (Kb Hs). destruct (leb a' b') eqn:E'; [eapply leb_trans; eassumption|exact Kb].
Qed.

Lemma isat_of_pos q j : ltb zero (R q w n j) = true -> isat AR pk w n q j = true.
Proof. intros H. unfold isat, nonneg, res. apply lt_le. exact H. Qed.
Lemma iunsat_of_neg q j : ltb (R q w n j) zero = true -> iunsat AR pk w n q j = true.
Proof. intros H. exact H. Qed.

Lemma expl_sound p : explainable p = true ->
  forall flag iv tb tb', wfI n iv -> expl AR pk w n p flag iv tb = Some tb' -> agree tb' ->
  forall i, i ∈ iv -> keeps flag (R p w n i) (R p w' n i).
Proof.
  induction p; intros Hx flag iv tb tb' Hwf H A i Hi; cbn [explainable] in Hx; try discriminate.
  - (* Var *) apply keeps_eq. apply (expl_exact (Var x) eq_refl flag iv tb tb' H A i Hi).
  - apply keeps_eq. reflexivity.
  - (* A1 *) apply keeps_eq. apply (expl_exact (A1 o p) Hx flag iv tb tb' H A i Hi).
  - apply keeps_eq. apply (expl_exact (A2 o p1 p2) Hx flag iv tb tb' H A i Hi).
  - apply keeps_eq. apply (expl_exact (Pred c p1 p2) Hx flag iv tb tb' H A i Hi).
  - (* Not *) cbn [expl] in H. cbn [rho]. apply keeps_neg. apply (IHp Hx (negb flag) iv tb tb' Hwf H A i Hi).
  - (* And *) apply andb_prop in Hx as [Hx1 Hx2]. cbn [expl] in H. cbn [rho]. destruct flag; unfold obind in H.
    + destruct (expl AR pk w n p1 true iv tb) as [tb1|] eqn:E1; [|discriminate].
      pose proof (IHp1 Hx1 true iv tb tb1 Hwf E1 (agree_le _ _ (expl_mono _ _ _ _ _ H) A) i Hi) as K1.
      pose proof (IHp2 Hx2 true iv tb1 tb' Hwf H A i Hi) as K2. cbn [keeps] in *. intros Hp.
      apply vmin_mono; [apply K1|apply K2]; (eapply lt_le_trans; [exact Hp|]); [apply vmin_le_l|apply vmin_le_r].
    + destruct (expl AR pk w n p1 false (runs (iunsat AR pk w n p1) iv) tb) as [tb1|] eqn:E1; [|discriminate].
      pose proof (IHp1 Hx1 false _ tb tb1 (runs_wf _ _ _ Hwf) E1 (agree_le _ _ (expl_mono _ _ _ _ _ H) A) i) as K1.
      pose proof (IHp2 Hx2 false _ tb1 tb' (runs_wf _ _ _ Hwf) H A i) as K2. cbn [keeps] in *. intros Hn.
      unfold vmin in Hn |- *. destruct (leb (R p1 w n i) (R p2 w n i)) eqn:E.
      * specialize (K1 (runs_in _ _ _ Hi (iunsat_of_neg _ _ Hn)) Hn).
        destruct (leb (R p1 w' n i) (R p2 w' n i)) eqn:E'; [exact K1|]. apply leb_false in E'. eapply leb_trans; eassumption.
      * specialize (K2 (runs_in _ _ _ Hi (iunsat_of_neg _ _ Hn)) Hn).
        destruct (leb (R p1 w' n i) (R p2 w' n i)) eqn:E'; [eapply leb_trans; eassumption|exact K2].
  - (* Or *) apply andb_prop in Hx as [Hx1 Hx2]. cbn [expl] in H. cbn [rho]. destruct flag; unfold obind in H.
    + destruct (expl AR pk w n p1 true (runs (isat AR pk w n p1) iv) tb) as [tb1|] eqn:E1; [|discriminate].
      pose proof (IHp1 Hx1 true _ tb tb1 (runs_wf _ _ _ Hwf) E1 (agree_le _ _ (expl_mono _ _ _ _ _ H) A) i) as K1.
      pose proof (IHp2 Hx2 true _ tb1 tb' (runs_wf _ _ _ Hwf) H A i) as K2. cbn [keeps] in *. intros Hp.
      unfold vmax in Hp |- *. destruct (leb (R p1 w n i) (R p2 w n i)) eqn:E.
      * specialize (K2 (runs_in _ _ _ Hi (isat_of_pos _ _ Hp)) Hp).
        destruct (leb (R p1 w' n i) (R p2 w' n i)) eqn:E'; [exact K2|]. apply leb_false in E'. eapply leb_trans; eassumption.
      * specialize (K1 (runs_in _ _ _ Hi (isat_of_pos _ _ Hp)) Hp).
        destruct (leb (R p1 w' n i) (R p2 w' n i)) eqn:E'; [eapply leb_trans; eassumption|exact K1].
    + destruct (expl AR pk w n p1 false iv tb) as [tb1|] eqn:E1; [|discriminate].
      pose proof (IHp1 Hx1 false iv tb tb1 Hwf E1 (agree_le _ _ (expl_mono _ _ _ _ _ H) A) i Hi) as K1.
      pose proof (IHp2 Hx2 false iv tb1 tb' Hwf H A i Hi) as K2. cbn [keeps] in *. intros Hn.
      apply vmax_mono; [apply K1|apply K2]; (eapply le_lt_trans; [|exact Hn]); [apply vmax_ge_l|apply vmax_ge_r].
  - (* Implies *) apply andb_prop in Hx as [Hx1 Hx2]. cbn [expl] in H. cbn [rho]. destruct flag; unfold obind in H; cbn [negb] in H.
    + destruct (expl AR pk w n p1 false (runs (iunsat AR pk w n p1) iv) tb) as [tb1|] eqn:E1; [|discriminate].
      pose proof (IHp1 Hx1 false _ tb tb1 (runs_wf _ _ _ Hwf) E1 (agree_le _ _ (expl_mono _ _ _ _ _ H) A) i) as K1.
      pose proof (IHp2 Hx2 true _ tb1 tb' (runs_wf _ _ _ Hwf) H A i) as K2. cbn [keeps] in *. intros Hp.
      unfold vmax in Hp |- *. destruct (leb (neg (R p1 w n i)) (R p2 w n i)) eqn:E.
      * specialize (K2 (runs_in _ _ _ Hi (isat_of_pos _ _ Hp)) Hp).
        destruct (leb (neg (R p1 w' n i)) (R p2 w' n i)) eqn:E'; [exact K2|]. apply leb_false in E'. eapply leb_trans; eassumption.
      * rewrite pos_neg in Hp. specialize (K1 (runs_in _ _ _ Hi (iunsat_of_neg _ _ Hp)) Hp).
        rewrite <- neg_anti_iff in K1.
        destruct (leb (neg (R p1 w' n i)) (R p2 w' n i)) eqn:E'; [eapply leb_trans; eassumption|exact K1].
    + destruct (expl AR pk w n p1 true iv tb) as [tb1|] eqn:E1; [|discriminate].
      pose proof (IHp1 Hx1 true iv tb tb1 Hwf E1 (agree_le _ _ (expl_mono _ _ _ _ _ H) A) i Hi) as K1.
      pose proof (IHp2 Hx2 false iv tb1 tb' Hwf H A i Hi) as K2. cbn [keeps] in *. intros Hn.
      apply vmax_mono.
      * rewrite neg_anti_iff. apply K1. rewrite <- neg_pos. eapply le_lt_trans; [apply vmax_ge_l|exact Hn].
      * apply K2. eapply le_lt_trans; [apply vmax_ge_r|exact Hn].
  - (* Iff *) apply keeps_eq. apply (expl_exact (Iff p1 p2) Hx flag iv tb tb' H A i Hi).
  - apply keeps_eq. apply (expl_exact (Xor p1 p2) Hx flag iv tb tb' H A i Hi).
  - (* Rise *) cbn [expl] in H. cbn [rho]. unfold obind in H.
    destruct (expl AR pk w n p flag iv tb) as [tb1|] eqn:E1; [|discriminate].
    pose proof (IHp Hx flag iv tb tb1 Hwf E1 (agree_le _ _ (expl_mono _ _ _ _ _ H) A) i Hi) as K1.
    apply keeps_vmin; [|exact K1]. destruct i as [|i]; [apply keeps_eq; reflexivity|].
    apply keeps_neg. apply (IHp Hx (negb flag) _ tb1 tb' (e_prev_wf _ _ Hwf) H A i). apply e_prev_in. exact Hi.
  - (* Fall *) cbn [expl] in H. cbn [rho]. unfold obind in H.
    destruct (expl AR pk w n p (negb flag) iv tb) as [tb1|] eqn:E1; [|discriminate].
    pose proof (IHp Hx (negb flag) iv tb tb1 Hwf E1 (agree_le _ _ (expl_mono _ _ _ _ _ H) A) i Hi) as K1.
    apply keeps_vmin; [|apply keeps_neg; exact K1]. destruct i as [|i]; [apply keeps_eq; reflexivity|].
    apply (IHp Hx flag _ tb1 tb' (e_prev_wf _ _ Hwf) H A i). apply e_prev_in. exact Hi.
  - (* Prev *) cbn [expl] in H. cbn [rho]. destruct i as [|i]; [apply keeps_eq; reflexivity|].
    apply (IHp Hx flag _ tb tb' (e_prev_wf _ _ Hwf) H A i). apply e_prev_in. exact Hi.
  - cbn [expl] in H. cbn [rho]. destruct i as [|i]; [apply keeps_eq; reflexivity|].
    apply (IHp Hx flag _ tb tb' (e_prev_wf _ _ Hwf) H A i). apply e_prev_in. exact Hi.
  - (* Next *) cbn [expl] in H. cbn [rho]. destruct (S i <? n) eqn:E; [|apply keeps_eq; reflexivity]. apply Nat.ltb_lt in E.
    apply (IHp Hx flag _ tb tb' (e_next_wf _ _ Hwf) H A (S i)). apply e_next_in; assumption.
  - cbn [expl] in H. cbn [rho]. destruct (S i <? n) eqn:E; [|apply keeps_eq; reflexivity]. apply Nat.ltb_lt in E.
    apply (IHp Hx flag _ tb tb' (e_next_wf _ _ Hwf) H A (S i)). apply e_next_in; assumption.
  - (* Once *) cbn [expl] in H. cbn [rho]. destruct flag; cbn [keeps]; intros Hs.
    + pose proof (IHp Hx true _ tb tb' (e_scan_past_wf n iv Hwf _) H A) as K.
      apply (wmax_up zero); [|exact Hs]. intros j Hj Hpj. apply K; [|exact Hpj].
      apply (e_scan_past_in n iv Hwf _ i j Hi); [lia|apply isat_of_pos; exact Hpj].
    + pose proof (IHp Hx false _ tb tb' (e_upto_last_wf n iv Hwf) H A) as K.
      apply (wmax_down zero); [|exact Hs]. intros j Hj Hnj. apply K; [|exact Hnj].
      apply (e_upto_last_in n iv Hwf i j Hi). lia.
  - (* Hist *) cbn [expl] in H. cbn [rho]. destruct flag; cbn [keeps]; intros Hs.
    + pose proof (IHp Hx true _ tb tb' (e_upto_last_wf n iv Hwf) H A) as K.
      apply (wmin_up zero); [|exact Hs]. intros j Hj Hpj. apply K; [|exact Hpj].
      apply (e_upto_last_in n iv Hwf i j Hi). lia.
    + pose proof (IHp Hx false _ tb tb' (e_scan_past_wf n iv Hwf _) H A) as K.
      apply (wmin_down zero); [|exact Hs]. intros j Hj Hnj. apply K; [|exact Hnj].
      apply (e_scan_past_in n iv Hwf _ i j Hi); [lia|exact Hnj].
  - (* Ev *) pose proof (wfI_pos _ _ _ Hwf Hi) as Hin. cbn [expl] in H. cbn [rho]. destruct flag; cbn [keeps]; intros Hs.
    + pose proof (IHp Hx true _ tb tb' (e_scan_future_wf n iv Hwf _) H A) as K.
      apply (wmax_up zero); [|exact Hs]. intros j Hj Hpj. apply K; [|exact Hpj].
      apply (e_scan_future_in n iv Hwf _ i j Hi); [lia|apply isat_of_pos; exact Hpj].
    + pose proof (IHp Hx false _ tb tb' (e_from_first_wf n iv Hwf) H A) as K.
      apply (wmax_down zero); [|exact Hs]. intros j Hj Hnj. apply K; [|exact Hnj].
      apply (e_from_first_in n iv Hwf i j Hi). lia.
  - (* Alw *) pose proof (wfI_pos _ _ _ Hwf Hi) as Hin. cbn [expl] in H. cbn [rho]. destruct flag; cbn [keeps]; intros Hs.
    + pose proof (IHp Hx true _ tb tb' (e_from_first_wf n iv Hwf) H A) as K.
      apply (wmin_up zero); [|exact Hs]. intros j Hj Hpj. apply K; [|exact Hpj].
      apply (e_from_first_in n iv Hwf i j Hi). lia.
    + pose proof (IHp Hx false _ tb tb' (e_scan_future_wf n iv Hwf _) H A) as K.
      apply (wmin_down zero); [|exact Hs]. intros j Hj Hnj. apply K; [|exact Hnj].
      apply (e_scan_future_in n iv Hwf _ i j Hi); [lia|exact Hnj].
  - (* OnceT *) apply andb_prop in Hx as [Hab Hx]. apply Nat.leb_le in Hab.
    pose proof Hi as Hi'. apply inI_In in Hi' as (bi & ei & Hin & Hbe).
    cbn [expl] in H. cbn [rho]. destruct (i <? b) eqn:G; [apply keeps_eq; reflexivity|]. apply Nat.ltb_ge in G.
    destruct flag; cbn [keeps]; intros Hs.
    + pose proof (IHp Hx true _ tb tb' (e_scan_window_wf n iv Hwf _ _ (bwd_ok n b e Hab)) H A) as K.
      apply (wmax_up zero); [|exact Hs]. intros j Hj Hpj. apply K; [|exact Hpj].
      apply (e_scan_window_in iv _ _ bi ei j Hin); [unfold bwd; cbn [fst snd]; lia|apply isat_of_pos; exact Hpj].
    + pose proof (IHp Hx false _ tb tb' (e_window_wf n iv Hwf _ (bwd_ok n b e Hab)) H A) as K.
      apply (wmax_down zero); [|exact Hs]. intros j Hj Hnj. apply K; [|exact Hnj].
      apply (e_window_in iv _ bi ei j Hin). unfold bwd; cbn [fst snd]; lia.
  - (* HistT *) apply andb_prop in Hx as [Hab Hx]. apply Nat.leb_le in Hab.
    pose proof Hi as Hi'. apply inI_In in Hi' as (bi & ei & Hin & Hbe).
    cbn [expl] in H. cbn [rho]. destruct (i <? b) eqn:G; [apply keeps_eq; reflexivity|]. apply Nat.ltb_ge in G.
    destruct flag; cbn [keeps]; intros Hs.
    + pose proof (IHp Hx true _ tb tb' (e_window_wf n iv Hwf _ (bwd_ok n b e Hab)) H A) as K.
      apply (wmin_up zero); [|exact Hs]. intros j Hj Hpj. apply K; [|exact Hpj].
      apply (e_window_in iv _ bi ei j Hin). unfold bwd; cbn [fst snd]; lia.
    + pose proof (IHp Hx false _ tb tb' (e_scan_window_wf n iv Hwf _ _ (bwd_ok n b e Hab)) H A) as K.
      apply (wmin_down zero); [|exact Hs]. intros j Hj Hnj. apply K; [|exact Hnj].
      apply (e_scan_window_in iv _ _ bi ei j Hin); [unfold bwd; cbn [fst snd]; lia|exact Hnj].
  - (* EvT *) apply andb_prop in Hx as [Hab Hx]. apply Nat.leb_le in Hab.
    pose proof Hi as Hi'. apply inI_In in Hi' as (bi & ei & Hin & Hbe).
    cbn [expl] in H. cbn [rho]. destruct (n <=? i + b) eqn:G; [apply keeps_eq; reflexivity|]. apply Nat.leb_gt in G.
    destruct flag; cbn [keeps]; intros Hs.
    + pose proof (IHp Hx true _ tb tb' (e_scan_window_wf n iv Hwf _ _ (fwd_ok n b e Hab)) H A) as K.
      apply (wmax_up zero); [|exact Hs]. intros j Hj Hpj. apply K; [|exact Hpj].
      apply (e_scan_window_in iv _ _ bi ei j Hin); [unfold fwd; cbn [fst snd]; lia|apply isat_of_pos; exact Hpj].
    + pose proof (IHp Hx false _ tb tb' (e_window_wf n iv Hwf _ (fwd_ok n b e Hab)) H A) as K.
      apply (wmax_down zero); [|exact Hs]. intros j Hj Hnj. apply K; [|exact Hnj].
      apply (e_window_in iv _ bi ei j Hin). unfold fwd; cbn [fst snd]; lia.
  - (* AlwT *) apply andb_prop in Hx as [Hab Hx]. apply Nat.leb_le in Hab.
    pose proof Hi as Hi'. apply inI_In in Hi' as (bi & ei & Hin & Hbe).
    cbn [expl] in H. cbn [rho]. destruct (n <=? i + b) eqn:G; [apply keeps_eq; reflexivity|]. apply Nat.leb_gt in G.
    destruct flag; cbn [keeps]; intros Hs.
    + pose proof (IHp Hx true _ tb tb' (e_window_wf n iv Hwf _ (fwd_ok n b e Hab)) H A) as K.
      apply (wmin_up zero); [|exact Hs]. intros j Hj Hpj. apply K; [|exact Hpj].
      apply (e_window_in iv _ bi ei j Hin). unfold fwd; cbn [fst snd]; lia.
    + pose proof (IHp Hx false _ tb tb' (e_scan_window_wf n iv Hwf _ _ (fwd_ok n b e Hab)) H A) as K.
      apply (wmin_down zero); [|exact Hs]. intros j Hj Hnj. apply K; [|exact Hnj].
      apply (e_scan_window_in iv _ _ bi ei j Hin); [unfold fwd; cbn [fst snd]; lia|exact Hnj].
Qed.


(* supported operators never raise *)
Lemma expl_some p : explainable p = true -> forall flag iv tb, expl AR pk w n p flag iv tb <> None.
Proof.
  assert (X : forall q, exact_ok q = true -> explainable q = true).
  { induction q; cbn [exact_ok explainable]; intros Hq; try discriminate; try reflexivity; try assumption; auto. }
  induction p; intros Hx flag iv tb; cbn [explainable] in Hx; try discriminate; cbn [expl];
  try (apply andb_prop in Hx as [Hx1 Hx2]); try discriminate; auto;
  try (apply IHp; auto; fail);
  try (destruct flag; apply IHp; auto; fail);
  try (unfold obind;
       match goal with
       | |- match expl _ _ _ _ p ?f1 ?i1 ?t1 with _ => _ end <> None =>
           let E := fresh "E" in destruct (expl AR pk w n p f1 i1 t1) eqn:E; [apply IHp; auto|exfalso; revert E; apply IHp; auto]
       end; fail).
  all: repeat match goal with |- context [if ?c then _ else _] => destruct c end; unfold obind;
    match goal with
    | |- match expl _ _ _ _ ?q ?f1 ?i1 ?t1 with _ => _ end <> None =>
        let E := fresh "E" in destruct (expl AR pk w n q f1 i1 t1) eqn:E; [apply IHp2; auto|exfalso; revert E; apply IHp1; auto]
    end.
Qed.

Definition violated (u : trace) (p : formula) : Prop := ltb (R p u n 0) zero = true.
Definition step (acc : option table) (p : formula) : option table :=
  obind acc (fun tb => if isat AR pk w n p 0 then Some tb else expl AR pk w n p false [(0, 0)] tb).
Lemma explain_fold ps : explain AR pk w n ps = fold_left step ps (Some []).
Proof. reflexivity. Qed.

Lemma fold_none ps : fold_left step ps None = None.
Proof. induction ps; [reflexivity|exact IHps]. Qed.

Lemma explain_sound_gen : 0 < n -> forall ps tb0 tb,
  (forall p, In p ps -> explainable p = true) ->
  fold_left step ps (Some tb0) = Some tb ->
  tb_le tb0 tb /\ (agree tb -> forall p, In p ps -> violated w p -> leb (R p w' n 0) (R p w n 0) = true).
Proof.
  intros Hn. induction ps as [|q ps IH]; intros tb0 tb Hx H.
  - cbn in H. injection H as <-. split; [apply tb_le_refl|intros _ p []].
  - cbn [fold_left step obind] in H.
    destruct (isat AR pk w n q 0) eqn:Sq.
    + destruct (IH tb0 tb (fun p Hp => Hx p (or_intror Hp)) H) as [L S]. split; [exact L|].
      intros A p [<-|Hp] Hv; [|apply S; assumption].
      unfold violated, ltb in Hv. unfold isat, nonneg, res in Sq. rewrite Sq in Hv. discriminate.
    + destruct (expl AR pk w n q false [(0, 0)] tb0) as [tb1|] eqn:E1; [|rewrite fold_none in H; discriminate].
      destruct (IH tb1 tb (fun p Hp => Hx p (or_intror Hp)) H) as [L S]. split.
      * eapply tb_le_trans; [eapply expl_mono; exact E1|exact L].
      * intros A p [<-|Hp] Hv; [|apply S; assumption].
        assert (W0 : wfI n [(0, 0)]) by (apply wfI_single; lia).
        assert (I0 : 0 ∈ [(0, 0)]) by reflexivity.
        apply (expl_sound q (Hx q (or_introl eq_refl)) false [(0, 0)] tb0 tb1 W0 E1 (agree_le _ _ L A) 0 I0 Hv).
Qed.

Theorem explain_sufficient ps tb :
  0 < n -> (forall p, In p ps -> explainable p = true) ->
  explain AR pk w n ps = Some tb -> agree tb ->
  forall p, In p ps -> violated w p -> violated w' p.
Proof.
  intros Hn Hx H A p Hp Hv. rewrite explain_fold in H.
  destruct (explain_sound_gen Hn ps [] tb Hx H) as [_ S].
  unfold violated in *. eapply le_lt_trans; [apply (S A p Hp Hv)|exact Hv].
Qed.

Theorem explain_silent ps : (forall p, In p ps -> isat AR pk w n p 0 = true) -> explain AR pk w n ps = Some [].
Proof.
  rewrite explain_fold. generalize (@nil (nat * list ivl)). induction ps as [|q ps IH]; intros tb H; [reflexivity|].
  cbn [fold_left step obind]. rewrite (H q (or_introl eq_refl)). apply IH. intros p Hp. apply H. right. exact Hp.
Qed.

Theorem explain_total ps : (forall p, In p ps -> explainable p = true) -> explain AR pk w n ps <> None.
Proof.
  rewrite explain_fold. generalize (@nil (nat * list ivl)). induction ps as [|q ps IH]; intros tb H; [discriminate|].
  cbn [fold_left step obind]. destruct (isat AR pk w n q 0).
  - apply IH. intros p Hp. apply H. right. exact Hp.
  - destruct (expl AR pk w n q false [(0, 0)] tb) eqn:E.
    + apply IH. intros p Hp. apply H. right. exact Hp.
    + exfalso. revert E. apply expl_some. apply H. left. reflexivity.
Qed.

End Sound.
