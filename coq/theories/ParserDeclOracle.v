(* ParserDeclOracle.v — the import oracle of the correspondence check: what the modules of harness/pdmods contain
   (a module or a name that is not listed cannot be imported / is no usable type), and the entry point of the driver.
   parse() of a whole specification text (header, imports, declarations, annotations, assertions): outcome class and,
   on success, the tables and ASTs, rendered as text. *)
From Coq Require Import List String.
From RV Require Import Lexer Parser Elab ParserDecl.
Import ListNotations.
Local Open Scope string_scope.

Definition t_ok (num : bool) (fs : list (string * fres)) : tyinfo := {| ty_ctor_escapes := false; ty_numeric := num; ty_fields := fs |}.
Definition harness_oracle : oracle := [
  ("vmod", {| m_import_escapes := false; m_types := [
      ("Msg", t_ok false [("value", FNum); ("count", FNum); ("hdr.stamp", FNum); ("value.real", FNum); ("count.real", FNum)]);
      ("Hdr", t_ok false [("stamp", FNum)]);
      ("Num", t_ok true [("real", FNum); ("imag", FNum)]);
      (* Exit (its constructor calls sys.exit) is not listed: a class that cannot be instantiated; Prop.boom (a property that raises) is not a usable field *)
      ("Prop", t_ok false [("ok", FNum); ("boom", FBad)]) ] |});
  ("math", {| m_import_escapes := false; m_types := [] |});
  ("vkbd", {| m_import_escapes := true; m_types := [] |}) ].
Definition run_parsefile (text : string) : string := run_file harness_oracle text.
