(* DenseSinceCorrect.v — since_op / until_op compute the tick semantics of since / until. *)
From Coq Require Import List Bool Arith ZArith Lia.
From RV Require Import Val Syntax Rho ListFacts OfflineCorrect Online Dense DenseSem DenseFacts DenseMerge DenseMergeCorrect DenseMergeG DenseMergeGCorrect DenseEval DenseEvalCorrect.
Import ListNotations.
Local Open Scope Z_scope.

Section Ticks.
Context {VS : Val}.

Lemma zrange_snoc lo hi : lo <= hi -> zrange lo hi = zrange lo (hi - 1) ++ [hi].
Proof.
  intros H. unfold zrange. replace (Z.to_nat (hi - lo + 1)) with (S (Z.to_nat (hi - 1 - lo + 1))) by lia.
  rewrite seq_S, map_app. cbn [map Nat.add]. f_equal. f_equal. lia.
Qed.
Lemma zmax_snoc (G : Z -> V) lo hi : lo <= hi -> zmax G lo hi = vmax (zmax G lo (hi - 1)) (G hi).
Proof. intros H. unfold zmax. rewrite (zrange_snoc lo hi H), map_app, maxl_app. cbn [map]. rewrite maxl_cons, maxl_nil, vmax_bot_r. reflexivity. Qed.
Lemma zmin_snoc (G : Z -> V) lo hi : lo <= hi -> zmin G lo hi = vmin (zmin G lo (hi - 1)) (G hi).
Proof. intros H. unfold zmin. rewrite (zrange_snoc lo hi H), map_app, minl_app. cbn [map]. rewrite minl_cons, minl_nil, vmin_top_r. reflexivity. Qed.
Lemma zmax_cons (G : Z -> V) lo hi : lo <= hi -> zmax G lo hi = vmax (G lo) (zmax G (lo + 1) hi).
Proof.
  intros H. apply eq_by_ub. intros z. rewrite vmax_lub, !zmax_ub. split.
  - intros Hz. split; [apply Hz; lia|intros u Hu; apply Hz; lia].
  - intros [H0 Hz] u Hu. destruct (Z.eq_dec u lo) as [->|Hne]; [exact H0|apply Hz; lia].
Qed.
Lemma zmin_cons (G : Z -> V) lo hi : lo <= hi -> zmin G lo hi = vmin (G lo) (zmin G (lo + 1) hi).
Proof.
  intros H. apply eq_by_lb. intros z. rewrite vmin_glb, !zmin_lb. split.
  - intros Hz. split; [apply Hz; lia|intros u Hu; apply Hz; lia].
  - intros [H0 Hz] u Hu. destruct (Z.eq_dec u lo) as [->|Hne]; [exact H0|apply Hz; lia].
Qed.
Lemma vmin_maxl_distr c l : vmin c (maxl l) = maxl (map (vmin c) l).
Proof. induction l as [|x l IH]; [cbn; apply vmin_bot_r|]. cbn [map]. rewrite !maxl_cons, vmin_vmax_distr, IH. reflexivity. Qed.
Lemma vmin_zmax_distr c (G : Z -> V) lo hi : vmin c (zmax G lo hi) = zmax (fun u => vmin c (G u)) lo hi.
Proof. unfold zmax. rewrite vmin_maxl_distr, map_map. reflexivity. Qed.

Lemma step_val_idem o p : step_val o (step_val o p) = step_val o p.
Proof. destruct o as [a b]. unfold step_val. cbn [fst snd]. ord. Qed.

(* ---------------- since, tick by tick ---------------- *)
Variables (F1 F2 : Z -> V) (t0 : Z).
Definition Sv (t : Z) : V := zmax (fun t' => vmin (F2 t') (zmin F1 t' t)) t0 t.

Lemma Sv_first : Sv t0 = step_val (F1 t0, F2 t0) bot.
Proof. unfold Sv, step_val. cbn [fst snd]. rewrite zmax_one, zmin_one, vmin_bot_r, vmax_bot_r. apply vmin_comm. Qed.
Lemma Sv_step t : t0 < t -> Sv t = step_val (F1 t, F2 t) (Sv (t - 1)).
Proof.
  intros H. unfold Sv at 1. rewrite zmax_snoc by lia. rewrite zmin_one. unfold step_val. cbn [fst snd].
  rewrite vmax_comm. f_equal; [apply vmin_comm|].
  unfold Sv. rewrite vmin_zmax_distr. apply zmax_ext. intros u Hu. rewrite (zmin_snoc F1 u t) by lia.
  rewrite (vmin_comm (zmin F1 u (t - 1)) (F1 t)). rewrite vmin_assoc, (vmin_comm (F2 u) (F1 t)), <- vmin_assoc. reflexivity.
Qed.
(* on a segment where both operands are constant the value settles at once *)
Lemma Sv_segment o c res : t0 <= c -> Sv c = res -> res = step_val o (match Z.eq_dec c t0 with left _ => bot | right _ => Sv (c - 1) end) ->
  forall k : nat, (forall u, c <= u <= c + Z.of_nat k -> F1 u = fst o /\ F2 u = snd o) -> Sv (c + Z.of_nat k) = res.
Proof.
  intros Hc E Er. induction k as [|k IH]; intros Hk; [rewrite Z.add_0_r; exact E|].
  rewrite Sv_step by lia. replace (c + Z.of_nat (S k) - 1) with (c + Z.of_nat k) by lia.
  rewrite IH by (intros u Hu; apply Hk; lia).
  destruct (Hk (c + Z.of_nat (S k)) ltac:(lia)) as [-> ->]. rewrite <- surjective_pairing. rewrite Er. apply step_val_idem.
Qed.
Lemma Sv_const_after tend : t0 <= tend -> (forall u, tend <= u -> F1 u = F1 tend /\ F2 u = F2 tend) ->
  forall u, tend <= u -> Sv u = Sv tend.
Proof.
  intros H0 Hc u Hu. replace u with (tend + Z.of_nat (Z.to_nat (u - tend))) by lia.
  apply (Sv_segment (F1 tend, F2 tend) tend (Sv tend)); [lia|reflexivity| |].
  - destruct (Z.eq_dec tend t0) as [->|Hne]; [apply Sv_first|apply Sv_step; lia].
  - intros u' Hu'. cbn [fst snd]. apply Hc. lia.
Qed.
End Ticks.

Section SinceCorrect.
Context {VS : Val}.
Variables (F1 F2 : Z -> V) (t0 : Z).
Notation Sv := (Sv F1 F2 t0).

(* one step of pden / den_opt *)
Lemma pden_cons {A} (c : Z) (o : A) r t : pden ((c, o) :: r) t = if c <=? t then (match pden r t with Some v => Some v | None => Some o end) else None.
Proof. reflexivity. Qed.
Lemma pden_head_some {A} (s : list (Z * A)) t : s <> [] -> pstart s <= t -> pden s t <> None.
Proof.
  destruct s as [|[c o] r]; [congruence|]. intros _ H. cbn [pstart] in H. rewrite pden_cons.
  destruct (Z.leb_spec c t); [|lia]. destruct (pden r t); discriminate.
Qed.
Lemma pden_before_start {A} (s : list (Z * A)) t : t < pstart s -> s <> [] -> pden s t = None.
Proof. destruct s as [|[c o] r]; [congruence|]. intros H _. cbn [pstart] in H. rewrite pden_cons. destruct (Z.leb_spec c t); [lia|reflexivity]. Qed.

Lemma pdsorted_ge {A} : forall (r : list (Z * A)) c o, pdsorted ((c, o) :: r) -> forall a x, In (a, x) ((c, o) :: r) -> c <= a.
Proof.
  induction r as [|[c2 o2] r2 IH]; intros c o Hs a x [E|Hin]; try (injection E as <- <-; lia); [destruct Hin|].
  cbn [pdsorted] in Hs. destruct Hs as [Hlt Hs]. pose proof (IH c2 o2 Hs a x Hin). lia.
Qed.

Lemma since_scan_stamps : forall io prev, map fst (since_scan prev io) = map fst io.
Proof. induction io as [|[c o] r IH]; intros prev; [reflexivity|]. cbn [since_scan map fst]. rewrite IH. reflexivity. Qed.

Lemma since_scan_den : forall (io : pairs) prev,
  pdsorted io -> io <> [] -> t0 <= pstart io ->
  (forall t, pstart io <= t -> pden io t = Some (F1 t, F2 t)) ->
  Sv (pstart io) = step_val (F1 (pstart io), F2 (pstart io)) prev ->
  prev = (match Z.eq_dec (pstart io) t0 with left _ => bot | right _ => Sv (pstart io - 1) end) ->
  forall t, pstart io <= t -> den_opt (since_scan prev io) t = Some (Sv t).
Proof.
  induction io as [|[c o] r IH]; intros prev Hs Hne H0 HF Hc Hp t Ht; [congruence|].
  cbn [pstart] in *. cbn [since_scan]. rewrite den_opt_cons. destruct (Z.leb_spec c t) as [_|]; [|lia].
  (* the operands are constant on [c, next stamp) *)
  assert (Ho : forall u, c <= u -> (match r with [] => True | (c', _) :: _ => u < c' end) -> F1 u = fst o /\ F2 u = snd o).
  { intros u Hu Hlt. specialize (HF u Hu). rewrite pden_cons in HF. destruct (Z.leb_spec c u); [|lia].
    destruct r as [|[c' o'] r']; [cbn [pden] in HF; injection HF as E; rewrite E; cbn; auto|].
    rewrite (pden_before_start ((c', o') :: r') u) in HF by (cbn [pstart]; try lia; discriminate). injection HF as E. rewrite E. cbn. auto. }
  set (res := step_val o prev).
  assert (Eres : Sv c = res).
  { rewrite Hc. unfold res. destruct (Ho c ltac:(lia) ltac:(destruct r as [|[c' o'] r']; [exact I|cbn [pdsorted] in Hs; lia])) as [-> ->].
    rewrite <- surjective_pairing. reflexivity. }
  assert (Seg : forall u, c <= u -> (match r with [] => True | (c', _) :: _ => u < c' end) -> Sv u = res).
  { intros u Hu Hlt. replace u with (c + Z.of_nat (Z.to_nat (u - c))) by lia.
    apply (Sv_segment F1 F2 t0 o c res H0 Eres); [unfold res; rewrite Hp; reflexivity|].
    intros u' Hu'. apply Ho; [lia|]. destruct r as [|[c' o'] r']; [exact I|lia]. }
  destruct r as [|[c' o'] r'] eqn:Er.
  - cbn [since_scan den_opt]. f_equal. symmetry. apply Seg; [lia|exact I].
  - rewrite <- Er in *. assert (Hcc : c < c') by (rewrite Er in Hs; cbn [pdsorted] in Hs; lia).
    destruct (Z.lt_ge_cases t c') as [Hlt|Hge].
    + rewrite den_opt_before; [f_equal; symmetry; apply Seg; [lia|try rewrite Er; exact Hlt]|].
      intros a v Hin. assert (Hin' : In a (map fst (since_scan res r))) by (apply in_map_iff; exists (a, v); auto).
      rewrite since_scan_stamps in Hin'. apply in_map_iff in Hin' as ([a' o2] & E & Hin2). cbn [fst] in E. subst a'.
      assert (c' <= a); [|lia]. rewrite Er in Hs, Hin2. apply (pdsorted_ge r' c' o' (proj2 Hs) a o2 Hin2).
    + rewrite (IH res); try (rewrite Er; cbn [pstart]); try lia; try reflexivity.
      * rewrite Er in Hs. exact (proj2 Hs).
      * discriminate.
      * intros u Hu. specialize (HF u ltac:(lia)). rewrite pden_cons in HF. destruct (Z.leb_spec c u); [|lia].
        rewrite Er in HF. destruct (pden ((c', o') :: r') u) eqn:E; [exact HF|].
        exfalso. apply (pden_head_some ((c', o') :: r') u); [discriminate|cbn [pstart]; exact Hu|exact E].
      * rewrite (Sv_step F1 F2 t0 c') by lia. f_equal. apply Seg; [lia|try rewrite Er; lia].
      * destruct (Z.eq_dec c' t0); [lia|]. symmetry. apply Seg; [lia|try rewrite Er; lia].
Qed.

End SinceCorrect.

Section SinceGood.
Context {VS : Val} (AR : Arith VS).

Lemma peq_true (x y : V * V) : peq x y = true -> x = y.
Proof.
  destruct x as [a b], y as [c d]. unfold peq. cbn [fst snd]. intros H. apply andb_prop in H as [H1 H2].
  unfold veq in *. destruct (v_eq_dec a c); [|discriminate]. destruct (v_eq_dec b d); [|discriminate]. congruence.
Qed.

Lemma stamps_sorted {A} (s : dsig) : forall (io : list (Z * A)), map fst s = map fst io -> pdsorted io -> dsorted s.
Proof.
  induction s as [|[a v] r IH]; intros [|[c o] io'] E H; try discriminate; [exact I|].
  cbn [map fst] in E. injection E as -> E. cbn [dsorted pdsorted] in *. destruct H as [H1 H2]. split; [|apply (IH io'); assumption].
  destruct r as [|[b w] r'], io' as [|[c' o'] io'']; try discriminate; [exact I|]. cbn [map fst] in E. injection E as -> _. exact H1.
Qed.

Lemma good_since s1 t1 F1 s2 t2 F2 : good s1 t1 F1 -> good s2 t2 F2 ->
  exists out, since_op s1 s2 = Some out /\ good out (Z.max t1 t2) (Sv F1 F2 (Z.max t1 t2)).
Proof.
  intros G1 G2. pose proof G1 as (S1 & N1 & St1 & D1). pose proof G2 as (S2 & N2 & St2 & D2).
  destruct (isect_g_correct (V * V) peq (bot, bot) peq_true (fun a b => (a, b)) s1 s2 S1 S2) as (io & E & Sio & Dio).
  destruct (isect_g_start (V * V) peq (bot, bot) peq_true (fun a b => (a, b)) s1 s2 io S1 S2 N1 N2 E) as [Nio Stio].
  rewrite St1, St2 in Stio. set (t0 := Z.max t1 t2) in *.
  unfold since_op, split_isect. rewrite E. cbn [option_map]. eexists. split; [reflexivity|]. apply good_dedup.
  assert (HF : forall t, t0 <= t -> pden io t = Some (F1 t, F2 t)).
  { intros t Ht. rewrite Dio, D1, D2. destruct (Z.ltb_spec t t1), (Z.ltb_spec t t2); try (unfold t0 in Ht; lia). reflexivity. }
  assert (Hst : map fst (since_scan bot io) = map fst io) by apply since_scan_stamps.
  split; [apply (stamps_sorted _ io Hst Sio)|].
  split; [destruct io; [congruence|destruct p; discriminate]|].
  split; [destruct io as [|[c o] r]; [congruence|]; cbn [since_scan start]; cbn [pstart] in Stio; exact Stio|].
  intros t. destruct (Z.ltb_spec t t0) as [Hlt|Hge].
  - apply den_opt_before. intros a v Hin.
    assert (Hin' : In a (map fst (since_scan bot io))) by (apply in_map_iff; exists (a, v); auto).
    rewrite Hst in Hin'. apply in_map_iff in Hin' as ([a' o] & Ea & Hin2). cbn [fst] in Ea. subst a'.
    destruct io as [|[c o'] r]; [destruct Hin2|]. cbn [pstart] in Stio. pose proof (pdsorted_ge r c o' Sio a o Hin2). lia.
  - apply (since_scan_den F1 F2 t0 io bot Sio Nio); try (rewrite Stio); try lia.
    + intros u Hu. apply HF. lia.
    + apply Sv_first.
    + destruct (Z.eq_dec t0 t0); [reflexivity|congruence].
Qed.

End SinceGood.

(* ---------------- until, tick by tick ---------------- *)
Section UntilTicks.
Context {VS : Val}.
Variables (F G : Z -> V) (tend : Z).
Hypothesis Hconst : forall u, tend <= u -> F u = F tend /\ G u = G tend.

Definition Uv (t : Z) : V := zmax (fun t' => vmin (G t') (zmin F t t')) t (Z.max t tend).

Lemma Uv_late t : tend <= t -> Uv t = step_val (F t, G t) bot.
Proof.
  intros H. unfold Uv, step_val. cbn [fst snd]. replace (Z.max t tend) with t by lia.
  rewrite zmax_one, zmin_one, vmin_bot_r, vmax_bot_r. apply vmin_comm.
Qed.
Lemma Uv_step t : Uv t = step_val (F t, G t) (Uv (t + 1)).
Proof.
  destruct (Z.lt_ge_cases t tend) as [Hlt|Hge].
  - unfold Uv at 1. replace (Z.max t tend) with tend by lia. rewrite zmax_cons by lia. rewrite zmin_one.
    unfold step_val. cbn [fst snd]. f_equal; [apply vmin_comm|].
    unfold Uv. replace (Z.max (t + 1) tend) with tend by lia. rewrite vmin_zmax_distr. apply zmax_ext. intros u Hu.
    rewrite (zmin_cons F t u) by lia. rewrite vmin_assoc, (vmin_comm (G u) (F t)), <- vmin_assoc. reflexivity.
  - rewrite (Uv_late t Hge), (Uv_late (t + 1)) by lia.
    destruct (Hconst t Hge) as [E1 E2]. destruct (Hconst (t + 1) ltac:(lia)) as [E3 E4]. rewrite E1, E2, E3, E4.
    symmetry. apply step_val_idem.
Qed.
Lemma Uv_segment_down o d res X : Uv d = res -> res = step_val o X ->
  forall k : nat, (forall u, d - Z.of_nat k <= u <= d -> F u = fst o /\ G u = snd o) -> Uv (d - Z.of_nat k) = res.
Proof.
  intros E Er. induction k as [|k IH]; intros Hk; [rewrite Z.sub_0_r; exact E|].
  rewrite Uv_step. replace (d - Z.of_nat (S k) + 1) with (d - Z.of_nat k) by lia.
  rewrite IH by (intros u Hu; apply Hk; lia).
  destruct (Hk (d - Z.of_nat (S k)) ltac:(lia)) as [-> ->]. rewrite <- surjective_pairing. rewrite Er. apply step_val_idem.
Qed.
(* on the last segment *)
Lemma Uv_last o c : (forall u, c <= u -> F u = fst o /\ G u = snd o) -> forall t, c <= t -> Uv t = step_val o bot.
Proof.
  intros Ho t Ht. destruct (Z.le_gt_cases tend t) as [Hge|Hlt].
  - rewrite (Uv_late t Hge). destruct (Ho t Ht) as [-> ->]. rewrite <- surjective_pairing. reflexivity.
  - replace t with (tend - Z.of_nat (Z.to_nat (tend - t))) by lia.
    apply (Uv_segment_down o tend (step_val o bot) bot); [|reflexivity|].
    + rewrite (Uv_late tend) by lia. destruct (Ho tend ltac:(lia)) as [-> ->]. rewrite <- surjective_pairing. reflexivity.
    + intros u Hu. apply Ho. lia.
Qed.
Lemma Uv_const_after u : tend <= u -> Uv u = Uv tend.
Proof.
  intros Hu. rewrite (Uv_late u Hu), (Uv_late tend) by lia. destruct (Hconst u Hu) as [-> ->]. reflexivity.
Qed.
End UntilTicks.

Section UntilCorrect.
Context {VS : Val}.
Variables (F G : Z -> V) (tend : Z).
Hypothesis Hconst : forall u, tend <= u -> F u = F tend /\ G u = G tend.
Notation Uv := (Uv F G tend).

Lemma until_rev_spec : forall io : pairs, pdsorted io -> io <> [] ->
  (forall t, pstart io <= t -> pden io t = Some (F t, G t)) ->
  fst (until_rev io) = Uv (pstart io) /\
  dsorted (snd (until_rev io)) /\ snd (until_rev io) <> [] /\ start (snd (until_rev io)) = pstart io /\
  forall t, pstart io <= t -> den_opt (snd (until_rev io)) t = Some (Uv t).
Proof.
  induction io as [|[c o] r IH]; intros Hs Hne HF; [congruence|]. cbn [until_rev pstart] in *.
  (* the operands are constant on [c, next stamp) *)
  assert (Ho : forall u, c <= u -> (match r with [] => True | (c', _) :: _ => u < c' end) -> F u = fst o /\ G u = snd o).
  { intros u Hu Hlt. specialize (HF u Hu). rewrite pden_cons in HF. destruct (Z.leb_spec c u); [|lia].
    destruct r as [|[c' o'] r']; [cbn [pden] in HF; injection HF as E; rewrite E; cbn; auto|].
    rewrite (pden_before_start ((c', o') :: r') u) in HF by (cbn [pstart]; try lia; discriminate). injection HF as E. rewrite E. cbn. auto. }
  destruct r as [|[c' o'] r'] eqn:Er.
  - cbn [until_rev fst snd start]. pose proof (Uv_last F G tend Hconst o c (fun u Hu => Ho u Hu I)) as L.
    split; [symmetry; apply L; lia|]. split; [cbn; auto|]. split; [discriminate|]. split; [reflexivity|].
    intros t Ht. cbn [den_opt]. destruct (Z.leb_spec c t); [|lia]. f_equal. symmetry. apply L. exact Ht.
  - rewrite <- Er in *. assert (Nr : r <> []) by (rewrite Er; discriminate).
    assert (Hcc : c < c') by (rewrite Er in Hs; cbn [pdsorted] in Hs; lia).
    assert (Hsr : pdsorted r) by (rewrite Er in Hs |- *; exact (proj2 Hs)).
    assert (Hpr : pstart r = c') by (rewrite Er; reflexivity).
    assert (HFr : forall t, pstart r <= t -> pden r t = Some (F t, G t)).
    { intros u Hu. rewrite Hpr in Hu. specialize (HF u ltac:(lia)). rewrite pden_cons in HF. destruct (Z.leb_spec c u); [|lia].
      destruct (pden r u) eqn:E; [exact HF|]. exfalso. apply (pden_head_some r u Nr); [lia|exact E]. }
    destruct (IH Hsr Nr HFr) as (Inx & Is & In_ & Ist & Id). clear IH.
    destruct (until_rev r) as [nxt out] eqn:Erf. cbn [fst snd] in *. rewrite Hpr in *.
    set (a := step_val o nxt).
    assert (Seg : forall u, c <= u < c' -> Uv u = a).
    { intros u Hu. replace u with ((c' - 1) - Z.of_nat (Z.to_nat (c' - 1 - u))) by lia.
      apply (Uv_segment_down F G tend Hconst o (c' - 1) a nxt); [|reflexivity|].
      - rewrite (Uv_step F G tend Hconst (c' - 1)). replace (c' - 1 + 1) with c' by lia. rewrite <- Inx.
        destruct (Ho (c' - 1) ltac:(lia) ltac:(try rewrite Er; lia)) as [-> ->]. rewrite <- surjective_pairing. reflexivity.
      - intros u' Hu'. apply Ho; [lia|try rewrite Er; lia]. }
    destruct out as [|[t' v'] out'] eqn:Eo; [congruence|]. cbn [start] in Ist. subst t'.
    pose proof (dsorted_lb _ _ _ Is) as Lo.
    destruct (veq a v' && (1 <? Z.of_nat (length r))) eqn:Ec.
    + apply andb_prop in Ec as [Ev _]. apply veq_true in Ev. subst v'.
      cbn [fst snd start]. split; [symmetry; apply (Seg c); lia|].
      split; [apply dsorted_cons_lb; [intros x y Hin; specialize (Lo x y Hin); lia|apply (dsorted_tail _ _ Is)]|].
      split; [discriminate|]. split; [reflexivity|].
      intros t Ht. rewrite den_opt_cons. destruct (Z.leb_spec c t); [|lia].
      destruct (Z.lt_ge_cases t c') as [Hlt|Hge].
      * rewrite den_opt_before by (intros x y Hin; specialize (Lo x y Hin); lia). f_equal. symmetry. apply Seg. lia.
      * specialize (Id t Hge). cbn [den_opt] in Id. destruct (Z.leb_spec c' t); [|lia]. exact Id.
    + cbn [fst snd start]. split; [symmetry; apply (Seg c); lia|].
      split; [apply dsorted_cons_lb; [intros x y [E|Hin]; [injection E as <- <-; lia|specialize (Lo x y Hin); lia]|exact Is]|].
      split; [discriminate|]. split; [reflexivity|].
      intros t Ht. rewrite den_opt_cons. destruct (Z.leb_spec c t); [|lia].
      destruct (Z.lt_ge_cases t c') as [Hlt|Hge].
      * rewrite den_opt_before by (intros x y [E|Hin]; [injection E as <- <-; lia|specialize (Lo x y Hin); lia]). f_equal. symmetry. apply Seg. lia.
      * rewrite (Id t Hge). reflexivity.
Qed.

End UntilCorrect.

Section UntilGood.
Context {VS : Val} (AR : Arith VS).

Lemma good_until s1 t1 F1 s2 t2 F2 tend :
  (forall u, tend <= u -> F1 u = F1 tend /\ F2 u = F2 tend) ->
  good s1 t1 F1 -> good s2 t2 F2 ->
  exists out, until_op s1 s2 = Some out /\ good out (Z.max t1 t2) (Uv F1 F2 tend).
Proof.
  intros Hconst G1 G2. pose proof G1 as (S1 & N1 & St1 & D1). pose proof G2 as (S2 & N2 & St2 & D2).
  destruct (isect_g_correct (V * V) peq (bot, bot) peq_true (fun a b => (a, b)) s1 s2 S1 S2) as (io & E & Sio & Dio).
  destruct (isect_g_start (V * V) peq (bot, bot) peq_true (fun a b => (a, b)) s1 s2 io S1 S2 N1 N2 E) as [Nio Stio].
  rewrite St1, St2 in Stio. set (t0 := Z.max t1 t2) in *.
  unfold until_op, split_isect. rewrite E. cbn [option_map]. eexists. split; [reflexivity|].
  assert (HF : forall t, pstart io <= t -> pden io t = Some (F1 t, F2 t)).
  { intros t Ht. rewrite Stio in Ht. rewrite Dio, D1, D2. destruct (Z.ltb_spec t t1), (Z.ltb_spec t t2); try (unfold t0 in Ht; lia). reflexivity. }
  destruct (until_rev_spec F1 F2 tend Hconst io Sio Nio HF) as (_ & Ss & Ns & Sts & Ds).
  rewrite Stio in *.
  split; [exact Ss|]. split; [exact Ns|]. split; [exact Sts|].
  intros t. destruct (Z.ltb_spec t t0) as [Hlt|Hge]; [|apply Ds; exact Hge].
  destruct (snd (until_rev io)) as [|[c v] r]; [congruence|]. cbn [start] in Sts. subst c.
  apply den_opt_before. intros a w [Ein|Hin]; [injection Ein as <- <-; lia|].
  pose proof (dsorted_lb _ _ _ Ss a w Hin). lia.
Qed.

End UntilGood.
