(* DenseOnlineGenCorrect.v — the definitions that tools/py2coq_denseonline.py generates from the dense-time ONLINE operation classes
   (DenseOnlineGen.v) are, state for state and batch for batch, the hand models:
     binary classes (and, or, implies, iff, xor, addition, subtraction, division, pow, log)  =  bin_update_g f   (DenseOnlineMerge.v)
     multiplication                                                                         =  mul_update_g f   (DenseOnlineMon.v)
     not, abs, negate, sqrt, exp, ln                                                        =  unary_update f   (DenseOnlineFold.v)
     once, historically, always                                                             =  fold_update g
     since                                                                                  =  since_update
   with f, g the functions the hand-written visitor model uses (DenseOnlineMon.fn2 / fn1).  intersection() itself is not generated:
   both sides call oisect_g.  Proved for every type of stamps with its < and == (no law needed), every state, every batch.
   This file is re-checked against the regenerated text on every build: a class that drifts away from its siblings breaks its lemma. *)
From Coq Require Import List Bool Arith ZArith Lia.
From RV Require Import Val Syntax Rho Online IA Dense DenseMerge DenseEval PySem PyDense DenseMergeCorrect DenseOnlineMerge DenseOnlineMergeCorrect DenseOnlineFold DenseOnlineMon
  DenseOnlineGen.
Import ListNotations.
Local Open Scope Z_scope.

(* ------------------------------------------------------------------ *)
(* the list primitives on the shapes the classes use                   *)
(* ------------------------------------------------------------------ *)
Section Prims.
Context {A : Type}.

Lemma py_get_0 (l : list A) : py_get l 0 = match l with x :: _ => Some x | [] => None end.
Proof.
  destruct l as [|x r]; [reflexivity|].
  unfold py_get, py_len. cbn [length]. rewrite Nat2Z.inj_succ.
  replace (0 <? 0) with false by reflexivity. cbn [Z.leb Z.compare andb].
  destruct (0 <? Z.succ (Z.of_nat (length r))) eqn:E; [reflexivity|].
  apply Z.ltb_ge in E. lia.
Qed.

Lemma py_get_1 (x y : A) (l : list A) : py_get (x :: y :: l) 1 = Some y.
Proof.
  unfold py_get, py_len. cbn [length]. rewrite !Nat2Z.inj_succ.
  replace (1 <? 0) with false by reflexivity. replace (0 <=? 1) with true by reflexivity. cbn [andb].
  destruct (1 <? Z.succ (Z.succ (Z.of_nat (length l)))) eqn:E; [reflexivity|].
  apply Z.ltb_ge in E. lia.
Qed.

Lemma py_get_m1 (l : list A) : py_get l (- 1) = match rev l with x :: _ => Some x | [] => None end.
Proof.
  destruct (rev l) as [|x r] eqn:E.
  - apply (f_equal (@rev A)) in E. rewrite rev_involutive in E. subst l. reflexivity.
  - apply (f_equal (@rev A)) in E. rewrite rev_involutive in E. cbn [rev] in E. subst l.
    unfold py_get, py_len. rewrite app_length. cbn [length]. rewrite Nat.add_1_r, Nat2Z.inj_succ.
    replace (-1 <? 0) with true by reflexivity.
    replace (-1 + Z.succ (Z.of_nat (length (rev r)))) with (Z.of_nat (length (rev r))) by lia.
    destruct (0 <=? Z.of_nat (length (rev r))) eqn:E1; [|apply Z.leb_gt in E1; lia].
    destruct (Z.of_nat (length (rev r)) <? Z.succ (Z.of_nat (length (rev r)))) eqn:E2; [|apply Z.ltb_ge in E2; lia].
    cbn [andb]. rewrite Nat2Z.id, nth_error_app2 by lia. rewrite Nat.sub_diag. reflexivity.
Qed.

Lemma py_slice_1 (l : list A) : py_slice l (Some 1) None = tl l.
Proof.
  destruct l as [|x r]; [reflexivity|].
  unfold py_slice, py_len, py_clip. cbn [length]. rewrite Nat2Z.inj_succ.
  replace (1 <? 0) with false by reflexivity.
  rewrite Z.min_l by lia. replace (Z.to_nat 1) with 1%nat by reflexivity. cbn [skipn tl].
  replace (Z.to_nat (Z.succ (Z.of_nat (length r)) - 1)) with (length r) by lia.
  apply firstn_all.
Qed.

Lemma py_del_0 (x : A) (l : list A) : py_del (x :: l) 0 = Some l.
Proof.
  unfold py_del, py_len. cbn [length]. rewrite Nat2Z.inj_succ.
  replace (0 <? 0) with false by reflexivity. cbn [Z.leb Z.compare andb].
  destruct (0 <? Z.succ (Z.of_nat (length l))) eqn:E; [reflexivity|].
  apply Z.ltb_ge in E. lia.
Qed.

Lemma py_len_gt1 (l : list A) : (py_len l >? 1) = match l with _ :: _ :: _ => true | _ => false end.
Proof.
  unfold py_len. destruct l as [|x [|y r]]; try reflexivity.
  cbn [length]. rewrite !Nat2Z.inj_succ. rewrite Z.gtb_ltb. apply Z.ltb_lt. lia.
Qed.

Lemma py_truthy_rev (l : list A) : py_truthy l = match rev l with [] => false | _ => true end.
Proof.
  destruct l as [|x r]; [reflexivity|]. cbn [py_truthy rev].
  destruct (rev r ++ [x]) eqn:E; [|reflexivity]. apply app_eq_nil in E. destruct E; discriminate.
Qed.
End Prims.

Section Gen.
Context {VS : Val} (AR : Arith VS).
Variable T : Type.
Variables tltb teqb : T -> T -> bool.

Notation psig := (list (T * V)).
Notation psample := (T * V)%type.

(* ================================================================== *)
(* the binary classes                                                  *)
(* ================================================================== *)
(* The text every binary class is expected to have, cut at its binds: each g_... is one parenthesised right-hand side of the
   generated text, [bin_core] is their sequence, [k] is the final `return` (it builds the record of the class). *)
Definition g_cond (buf b : psig) : option bool :=
  if py_truthy buf then (if py_truthy b then (t1 <- py_get buf (- 1) ;; t2 <- py_get b 0 ;; Some (teqb (fst t1) (fst t2))) else Some false)
  else Some false.
Definition g_sel (c : bool) (buf b : psig) : option psig :=
  if c then Some (buf ++ py_slice b (Some 1) None) else Some (buf ++ b).
Definition g_addlast (result : psig) (last : option psample) : option psig :=
  if os_truthy last then
    result <- (if negb (py_truthy result) then
                 t7 <- os_get last ;; Some (result ++ [t7])
               else
                 t8 <- os_get last ;;
                 t9 <- py_get result (- 1) ;;
                 result <- (if tltb (fst t9) (fst t8) then t10 <- os_get last ;; Some (result ++ [t10]) else Some result) ;;
                 Some result) ;;
    Some result
  else Some result.
Definition g_dropfirst (lo : option psample) (result : psig) : option psig :=
  if os_truthy lo && py_truthy result then
    t15 <- (t11 <- os_get lo ;; t12 <- py_get result 0 ;;
            if teqb (fst t11) (fst t12) then (t13 <- os_get lo ;; t14 <- py_get result 0 ;; Some (veq (snd t13) (snd t14))) else Some false) ;;
    result <- (if t15 then result <- py_pop0 result ;; Some result else Some result) ;;
    Some result
  else Some result.
Definition g_lastout (lo : option psample) (result : psig) : option (option psample) :=
  if py_truthy result then t16 <- py_get result (- 1) ;; Some (Some t16) else Some lo.

Definition bin_core {R : Type} (f : V -> V -> V) (lo : option psample) (l r b1 b2 : psig)
    (k : psig -> psig -> option psample -> psig -> option R) : option R :=
  t3 <- g_cond l b1 ;;
  l <- g_sel t3 l b1 ;;
  t6 <- g_cond r b2 ;;
  r <- g_sel t6 r b2 ;;
  '(result, last, left_, right_) <- oisect_g T tltb teqb f l r ;;
  result <- g_addlast result last ;;
  result <- g_dropfirst lo result ;;
  lo <- g_lastout lo result ;;
  k left_ right_ lo result.

Definition cval (buf b : psig) : bool :=
  match rev buf, b with (tb, _) :: _, (t0, _) :: _ => teqb tb t0 | _, _ => false end.

Lemma g_cond_ok buf b : g_cond buf b = Some (cval buf b).
Proof.
  unfold g_cond, cval. rewrite py_get_m1, py_get_0, py_truthy_rev.
  destruct (rev buf) as [|[tb vb] rb]; [reflexivity|].
  destruct b as [|[t0 v0] rest]; reflexivity.
Qed.

Lemma g_sel_ok buf b : g_sel (cval buf b) buf b = Some (obuf_add T teqb buf b).
Proof.
  unfold g_sel, cval, obuf_add. rewrite py_slice_1.
  destruct (rev buf) as [|[tb vb] rb]; [reflexivity|].
  destruct b as [|[t0 v0] rest]; [reflexivity|].
  cbn [tl]. destruct (teqb tb t0); reflexivity.
Qed.

Lemma g_addlast_ok res last : g_addlast res last = Some (oadd_last T tltb res last).
Proof.
  unfold g_addlast, oadd_last, os_truthy, os_get. destruct last as [la|]; [|reflexivity].
  rewrite py_get_m1, py_truthy_rev.
  destruct (rev res) as [|[tr vr] rr] eqn:E.
  { apply (f_equal (@rev _)) in E. rewrite rev_involutive in E. subst res. reflexivity. }
  cbn [negb fst]. destruct (tltb tr (fst la)); reflexivity.
Qed.

Lemma g_dropfirst_ok lo res : g_dropfirst lo res = Some (odrop_first T teqb lo res).
Proof.
  unfold g_dropfirst, odrop_first, os_truthy, os_get. destruct lo as [[to vo]|]; [|reflexivity].
  rewrite py_get_0. destruct res as [|[t0 v0] rest]; [reflexivity|].
  cbn [py_truthy andb fst snd py_pop0]. destruct (teqb to t0); [|reflexivity].
  cbn [andb]. destruct (veq vo v0); reflexivity.
Qed.

Lemma g_lastout_ok lo res : g_lastout lo res = Some (match rev res with [] => lo | x :: _ => Some x end).
Proof.
  unfold g_lastout. rewrite py_get_m1, py_truthy_rev. destruct (rev res); reflexivity.
Qed.

Lemma bin_core_ok {R : Type} f lo l r b1 b2 (k : psig -> psig -> option psample -> psig -> option R) :
  bin_core f lo l r b1 b2 k =
  match bin_update_g T tltb teqb f {| lbuf := l; rbuf := r; lout := lo |} b1 b2 with
  | None => None
  | Some (st', o) => k (lbuf st') (rbuf st') (lout st') o
  end.
Proof.
  unfold bin_core, bin_update_g. cbn [lbuf rbuf lout].
  rewrite !g_cond_ok, !g_sel_ok.
  destruct (oisect_g T tltb teqb f (obuf_add T teqb l b1) (obuf_add T teqb r b2)) as [[[[res last] l'] r']|]; [|reflexivity].
  rewrite g_addlast_ok, g_dropfirst_ok, g_lastout_ok. reflexivity.
Qed.

(* the functions at the end of intersection.py are the ones of the hand-written visitor model (DenseOnlineMon.fn2) *)
Lemma gen_methods_ok :
  gen_m_conjunction AR = vmin /\ gen_m_disjunction AR = vmax /\
  gen_m_implication AR = (fun l r => vmax (neg l) r) /\
  gen_m_iff AR = (fun l r => neg (a1 AR Abs (a2 AR Sub l r))) /\
  gen_m_xor AR = (fun l r => a1 AR Abs (a2 AR Sub l r)) /\
  gen_m_addition AR = a2 AR Add /\ gen_m_subtraction AR = a2 AR Sub /\ gen_m_multiplication AR = a2 AR Mul /\
  gen_m_division AR = a2 AR Div /\ gen_m_power AR = a2 AR Pow /\ gen_m_log AR = a2 AR Log.
Proof. repeat split; reflexivity. Qed.

(* ---------------- one lemma per class: the generated text IS bin_core (by computation), bin_core is bin_update_g ---------------- *)
Ltac bin_class K := etransitivity; [| exact (bin_core_ok _ _ _ _ _ _ K)]; reflexivity.

(* and_operation.py: the attribute sample_last_buf is created by __init__ and never touched *)
Definition And_abs (st : And_state T) : @ostate VS T :=
  {| lbuf := And_sample_left_buf st; rbuf := And_sample_right_buf st; lout := And_last_output st |}.
Lemma gen_And_update_ok st b1 b2 :
  gen_And_update AR T tltb teqb st b1 b2 =
  match bin_update_g T tltb teqb vmin (And_abs st) b1 b2 with
  | None => None
  | Some (st', o) => Some (mk_And_state (lbuf st') (rbuf st') (And_sample_last_buf st) (lout st'), o)
  end.
Proof. bin_class (fun (l r : psig) (lo : option psample) (res : psig) => Some (mk_And_state l r (And_sample_last_buf st) lo, res)). Qed.

Definition Or_abs (st : Or_state T) : @ostate VS T :=
  {| lbuf := Or_sample_left_buf st; rbuf := Or_sample_right_buf st; lout := Or_last_output st |}.
Definition Or_conc (st : @ostate VS T) : Or_state T := mk_Or_state (lbuf st) (rbuf st) (lout st).
Lemma gen_Or_update_ok st b1 b2 :
  gen_Or_update AR T tltb teqb st b1 b2 =
  match bin_update_g T tltb teqb vmax (Or_abs st) b1 b2 with
  | None => None
  | Some (st', o) => Some (Or_conc st', o)
  end.
Proof. bin_class (fun (l r : psig) (lo : option psample) (res : psig) => Some (mk_Or_state l r lo, res)). Qed.

Definition Implies_abs (st : Implies_state T) : @ostate VS T :=
  {| lbuf := Implies_sample_left_buf st; rbuf := Implies_sample_right_buf st; lout := Implies_last_output st |}.
Definition Implies_conc (st : @ostate VS T) : Implies_state T := mk_Implies_state (lbuf st) (rbuf st) (lout st).
Lemma gen_Implies_update_ok st b1 b2 :
  gen_Implies_update AR T tltb teqb st b1 b2 =
  match bin_update_g T tltb teqb (fun l r => vmax (neg l) r) (Implies_abs st) b1 b2 with
  | None => None
  | Some (st', o) => Some (Implies_conc st', o)
  end.
Proof. bin_class (fun (l r : psig) (lo : option psample) (res : psig) => Some (mk_Implies_state l r lo, res)). Qed.

Definition Iff_abs (st : Iff_state T) : @ostate VS T :=
  {| lbuf := Iff_sample_left_buf st; rbuf := Iff_sample_right_buf st; lout := Iff_last_output st |}.
Definition Iff_conc (st : @ostate VS T) : Iff_state T := mk_Iff_state (lbuf st) (rbuf st) (lout st).
Lemma gen_Iff_update_ok st b1 b2 :
  gen_Iff_update AR T tltb teqb st b1 b2 =
  match bin_update_g T tltb teqb (fun l r => neg (a1 AR Abs (a2 AR Sub l r))) (Iff_abs st) b1 b2 with
  | None => None
  | Some (st', o) => Some (Iff_conc st', o)
  end.
Proof. bin_class (fun (l r : psig) (lo : option psample) (res : psig) => Some (mk_Iff_state l r lo, res)). Qed.

Definition Xor_abs (st : Xor_state T) : @ostate VS T :=
  {| lbuf := Xor_sample_left_buf st; rbuf := Xor_sample_right_buf st; lout := Xor_last_output st |}.
Definition Xor_conc (st : @ostate VS T) : Xor_state T := mk_Xor_state (lbuf st) (rbuf st) (lout st).
Lemma gen_Xor_update_ok st b1 b2 :
  gen_Xor_update AR T tltb teqb st b1 b2 =
  match bin_update_g T tltb teqb (fun l r => a1 AR Abs (a2 AR Sub l r)) (Xor_abs st) b1 b2 with
  | None => None
  | Some (st', o) => Some (Xor_conc st', o)
  end.
Proof. bin_class (fun (l r : psig) (lo : option psample) (res : psig) => Some (mk_Xor_state l r lo, res)). Qed.

Definition Addition_abs (st : Addition_state T) : @ostate VS T :=
  {| lbuf := Addition_sample_left_buf st; rbuf := Addition_sample_right_buf st; lout := Addition_last_output st |}.
Definition Addition_conc (st : @ostate VS T) : Addition_state T := mk_Addition_state (lbuf st) (rbuf st) (lout st).
Lemma gen_Addition_update_ok st b1 b2 :
  gen_Addition_update AR T tltb teqb st b1 b2 =
  match bin_update_g T tltb teqb (a2 AR Add) (Addition_abs st) b1 b2 with
  | None => None
  | Some (st', o) => Some (Addition_conc st', o)
  end.
Proof. bin_class (fun (l r : psig) (lo : option psample) (res : psig) => Some (mk_Addition_state l r lo, res)). Qed.

Definition Subtraction_abs (st : Subtraction_state T) : @ostate VS T :=
  {| lbuf := Subtraction_sample_left_buf st; rbuf := Subtraction_sample_right_buf st; lout := Subtraction_last_output st |}.
Definition Subtraction_conc (st : @ostate VS T) : Subtraction_state T := mk_Subtraction_state (lbuf st) (rbuf st) (lout st).
Lemma gen_Subtraction_update_ok st b1 b2 :
  gen_Subtraction_update AR T tltb teqb st b1 b2 =
  match bin_update_g T tltb teqb (a2 AR Sub) (Subtraction_abs st) b1 b2 with
  | None => None
  | Some (st', o) => Some (Subtraction_conc st', o)
  end.
Proof. bin_class (fun (l r : psig) (lo : option psample) (res : psig) => Some (mk_Subtraction_state l r lo, res)). Qed.

Definition Division_abs (st : Division_state T) : @ostate VS T :=
  {| lbuf := Division_sample_left_buf st; rbuf := Division_sample_right_buf st; lout := Division_last_output st |}.
Definition Division_conc (st : @ostate VS T) : Division_state T := mk_Division_state (lbuf st) (rbuf st) (lout st).
Lemma gen_Division_update_ok st b1 b2 :
  gen_Division_update AR T tltb teqb st b1 b2 =
  match bin_update_g T tltb teqb (a2 AR Div) (Division_abs st) b1 b2 with
  | None => None
  | Some (st', o) => Some (Division_conc st', o)
  end.
Proof. bin_class (fun (l r : psig) (lo : option psample) (res : psig) => Some (mk_Division_state l r lo, res)). Qed.

Definition Pow_abs (st : Pow_state T) : @ostate VS T :=
  {| lbuf := Pow_sample_left_buf st; rbuf := Pow_sample_right_buf st; lout := Pow_last_output st |}.
Definition Pow_conc (st : @ostate VS T) : Pow_state T := mk_Pow_state (lbuf st) (rbuf st) (lout st).
Lemma gen_Pow_update_ok st b1 b2 :
  gen_Pow_update AR T tltb teqb st b1 b2 =
  match bin_update_g T tltb teqb (a2 AR Pow) (Pow_abs st) b1 b2 with
  | None => None
  | Some (st', o) => Some (Pow_conc st', o)
  end.
Proof. bin_class (fun (l r : psig) (lo : option psample) (res : psig) => Some (mk_Pow_state l r lo, res)). Qed.

Definition Log_abs (st : Log_state T) : @ostate VS T :=
  {| lbuf := Log_sample_left_buf st; rbuf := Log_sample_right_buf st; lout := Log_last_output st |}.
Definition Log_conc (st : @ostate VS T) : Log_state T := mk_Log_state (lbuf st) (rbuf st) (lout st).
Lemma gen_Log_update_ok st b1 b2 :
  gen_Log_update AR T tltb teqb st b1 b2 =
  match bin_update_g T tltb teqb (a2 AR Log) (Log_abs st) b1 b2 with
  | None => None
  | Some (st', o) => Some (Log_conc st', o)
  end.
Proof. bin_class (fun (l r : psig) (lo : option psample) (res : psig) => Some (mk_Log_state l r lo, res)). Qed.

(* multiplication_operation.py: last_output is not created by __init__ but set to [] in every update: the state is the two buffers,
   and the hand model mul_update_g starts from any lout *)
Lemma gen_Multiplication_update_ok st b1 b2 lo :
  gen_Multiplication_update AR T tltb teqb st b1 b2 =
  match mul_update_g T tltb teqb (a2 AR Mul)
          {| lbuf := Multiplication_sample_left_buf st; rbuf := Multiplication_sample_right_buf st; lout := lo |} b1 b2 with
  | None => None
  | Some (st', o) => Some (mk_Multiplication_state (lbuf st') (rbuf st'), o)
  end.
Proof. unfold mul_update_g. cbn [lbuf rbuf]. bin_class (fun (l r : psig) (_ : option psample) (res : psig) => Some (mk_Multiplication_state l r, res)). Qed.

(* ================================================================== *)
(* the unary point-wise classes                                        *)
(* ================================================================== *)
Lemma py_for_unary (f : V -> option V) (body : psample -> psig -> option psig) :
  (forall i acc, body i acc = match f (snd i) with Some o => Some (acc ++ [(fst i, o)]) | None => None end) ->
  forall s acc, py_for s body acc = match unary_loop T f s with Some out => Some (acc ++ out) | None => None end.
Proof.
  intros Hb s. induction s as [|[t v] r IH]; intros acc.
  - cbn. rewrite app_nil_r. reflexivity.
  - cbn [py_for unary_loop]. rewrite Hb. cbn [fst snd]. destruct (f v) as [o|]; [|reflexivity].
    rewrite IH. destruct (unary_loop T f r) as [out|]; [|reflexivity].
    rewrite <- app_assoc. reflexivity.
Qed.

Ltac unary_class F :=
  intros; unfold unary_update; cbv zeta;
  match goal with |- context [py_for ?s ?body ?acc] => rewrite (py_for_unary F body) end;
  [ match goal with |- context [unary_loop ?T ?f ?s] => destruct (unary_loop T f s) end; reflexivity
  | intros [t v] acc; cbn [fst snd]; try reflexivity ].

Lemma gen_Not_update_ok (st : Not_state T) s :
  gen_Not_update AR T tltb teqb st s =
  match unary_update T not_fn tt s with None => None | Some (_, o) => Some (st, o) end.
Proof. destruct st as [inp]. unfold gen_Not_update. cbn [Not_input]. unary_class (@not_fn VS). Qed.

Lemma gen_Abs_update_ok (st : Abs_state T) s :
  gen_Abs_update AR T tltb teqb st s = unary_update T (total_fn AR Abs) st s.
Proof. destruct st. unfold gen_Abs_update. unary_class (total_fn AR Abs). Qed.

(* negate_operation.py computes -x with Python's unary minus, as not_operation.py does: the model's [neg] *)
Lemma gen_Negate_update_ok (st : Negate_state T) s :
  gen_Negate_update AR T tltb teqb st s = unary_update T not_fn st s.
Proof. destruct st. unfold gen_Negate_update. unary_class (@not_fn VS). Qed.

Lemma gen_Exp_update_ok (st : Exp_state T) s :
  gen_Exp_update AR T tltb teqb st s = unary_update T (total_fn AR Exp) st s.
Proof. destruct st. unfold gen_Exp_update. unary_class (total_fn AR Exp). Qed.

(* sqrt_operation.py: the explicit `raise` for x < 0 (math.sqrt would raise as well) *)
Lemma gen_Sqrt_update_ok (st : Sqrt_state T) s :
  gen_Sqrt_update AR T tltb teqb st s = unary_update T (sqrt_fn AR) st s.
Proof.
  destruct st. unfold gen_Sqrt_update. unary_class (sqrt_fn AR).
  unfold sqrt_fn, py_sqrt. destruct (ltb v (azero AR)); reflexivity.
Qed.

(* ln_operation.py: math.log raises unless 0 < x *)
Lemma gen_Ln_update_ok (st : Ln_state T) s :
  gen_Ln_update AR T tltb teqb st s = unary_update T (partial_fn AR Ln (fun v => ltb (azero AR) v)) st s.
Proof.
  destruct st. unfold gen_Ln_update. unary_class (partial_fn AR Ln (fun v => ltb (azero AR) v)).
Qed.

(* ================================================================== *)
(* once / historically / always                                        *)
(* ================================================================== *)
Lemma py_for_fold (g : V -> V -> V) (body : psample -> psig * V -> option (psig * V)) :
  (forall i acc p, body i (acc, p) = Some (acc ++ [(fst i, g (snd i) p)], g (snd i) p)) ->
  forall s acc p, py_for s body (acc, p) = Some (acc ++ snd (fold_loop T g p s), fst (fold_loop T g p s)).
Proof.
  intros Hb s. induction s as [|[t v] r IH]; intros acc p.
  - cbn. rewrite app_nil_r. reflexivity.
  - cbn [py_for fold_loop]. rewrite Hb. cbn [fst snd]. rewrite IH.
    destruct (fold_loop T g (g v p) r) as [p' out]. cbn [fst snd]. rewrite <- app_assoc. reflexivity.
Qed.

Ltac fold_class G :=
  intros; unfold fold_update; cbv zeta;
  match goal with |- context [py_for ?s ?body ?acc] => rewrite (py_for_fold G body) end;
  [ cbn [fprev]; match goal with |- context [fold_loop ?T ?g ?p ?s] => destruct (fold_loop T g p s) end; reflexivity
  | intros [t v] acc p; reflexivity ].

Lemma gen_Once_update_ok (st : Once_state T) s :
  gen_Once_update AR T tltb teqb st s =
  match once_update T {| fprev := Once_prev st |} s with None => None | Some (st', o) => Some (mk_Once_state (fprev st'), o) end.
Proof. unfold gen_Once_update, once_update. fold_class (@vmax VS). Qed.

Lemma gen_Historically_update_ok (st : Historically_state T) s :
  gen_Historically_update AR T tltb teqb st s =
  match hist_update T {| fprev := Historically_prev st |} s with None => None | Some (st', o) => Some (mk_Historically_state (fprev st'), o) end.
Proof. unfold gen_Historically_update, hist_update. fold_class (@vmin VS). Qed.

Lemma gen_Always_update_ok (st : Always_state T) s :
  gen_Always_update AR T tltb teqb st s =
  match alw_update T {| fprev := Always_prev st |} s with None => None | Some (st', o) => Some (mk_Always_state (fprev st'), o) end.
Proof. unfold gen_Always_update, alw_update. fold_class (@vmin VS). Qed.

(* ================================================================== *)
(* since                                                               *)
(* ================================================================== *)
Notation wst := (psig * psig * option psample * psig * V)%type.     (* a, b, last, sample_result, self.prev *)

(* one iteration of the while loop, as the hand model since_loop performs it *)
Definition since_step (a_start : T) (a_val : V) (a_end : T) (a_val_next : V) (ra : psig)
    (b_start : T) (b_val : V) (b_end : T) (b_val_next : V) (rb : psig) (last : option psample) (acc : psig) (prev : V) : wst :=
  let a := (a_start, a_val) :: (a_end, a_val_next) :: ra in let a' := (a_end, a_val_next) :: ra in
  let b := (b_start, b_val) :: (b_end, b_val_next) :: rb in let b' := (b_end, b_val_next) :: rb in
  let '(last_val, a2, b2) :=
    if tltb a_end b_end then (sval a_val_next b_val prev, a', b)
    else if tltb b_end a_end then (sval a_val b_val_next prev, a, b')
    else (sval a_val_next b_val_next prev, a', b') in
  let lo := pymax T tltb a_start b_start in
  let hi := pymin T tltb a_end b_end in
  if tltb lo hi then (a2, b2, Some (hi, last_val), acc ++ [(lo, sval a_val b_val prev)], sval a_val b_val prev)
  else (a2, b2, last, acc, prev).

Lemma py_while_since (C : wst -> bool) (B : wst -> option wst) :
  (forall a b last acc prev, C (a, b, last, acc, prev) = match a, b with _ :: _ :: _, _ :: _ :: _ => true | _, _ => false end) ->
  (forall a_start a_val a_end a_val_next ra b_start b_val b_end b_val_next rb last acc prev,
     B ((a_start, a_val) :: (a_end, a_val_next) :: ra, (b_start, b_val) :: (b_end, b_val_next) :: rb, last, acc, prev)
     = Some (since_step a_start a_val a_end a_val_next ra b_start b_val b_end b_val_next rb last acc prev)) ->
  forall fuel a b last acc prev, (length a + length b <= fuel)%nat ->
    py_while fuel C B (a, b, last, acc, prev) =
    let '(af, bf, pf, lf, out) := since_loop T tltb fuel a b prev last in Some (af, bf, lf, acc ++ out, pf).
Proof.
  intros HC HB fuel. induction fuel as [|n IH]; intros a b last acc prev Hlen.
  - destruct a as [|x [|y ra]]; destruct b as [|u [|w rb]]; cbn [py_while since_loop]; rewrite HC;
      try (rewrite app_nil_r; reflexivity); cbn [length] in Hlen; lia.
  - destruct a as [|[a_start a_val] [|[a_end a_val_next] ra]]; destruct b as [|[b_start b_val] [|[b_end b_val_next] rb]];
      cbn [py_while since_loop]; rewrite HC; try (rewrite app_nil_r; reflexivity).
    rewrite HB. unfold since_step.
    destruct (tltb a_end b_end) eqn:E1; [|destruct (tltb b_end a_end) eqn:E2];
      (destruct (tltb (pymax T tltb a_start b_start) (pymin T tltb a_end b_end)) eqn:E3;
       [ rewrite IH by (cbn [length] in *; lia);
         match goal with |- context [since_loop T tltb n ?x ?y ?p ?l] => destruct (since_loop T tltb n x y p l) as [[[[af bf] pf] lf] out] end;
         rewrite <- app_assoc; reflexivity
       | rewrite IH by (cbn [length] in *; lia); reflexivity ]).
Qed.

Definition Since_abs (st : Since_state T) : @sstate VS T :=
  {| s_lbuf := Since_sample_left_buf st; s_rbuf := Since_sample_right_buf st; s_prev := Since_prev st; s_last := Since_last st |}.
Definition Since_conc (st : @sstate VS T) : Since_state T := mk_Since_state (s_lbuf st) (s_rbuf st) (s_prev st) (s_last st).

Lemma gen_Since_update_ok st b1 b2 :
  gen_Since_update AR T tltb teqb st b1 b2 =
  match since_update T tltb (Since_abs st) (b1, b2) with None => None | Some (st', o) => Some (Since_conc st', o) end.
Proof.
  unfold gen_Since_update, since_update, Since_abs. cbn [s_lbuf s_rbuf s_prev s_last fst snd]. cbv zeta.
  unfold PyDense.psig, PyDense.psample in *.
  match goal with |- context [py_while ?fu ?C ?B ?s] => rewrite (py_while_since C B) end.
  - match goal with |- context [since_loop T tltb ?f ?a ?b ?p ?l] => destruct (since_loop T tltb f a b p l) as [[[[af bf] pf] lf] out] end.
    reflexivity.
  - intros a b last acc prev. rewrite !py_len_gt1.
    destruct a as [|x [|y ra]]; destruct b as [|u [|w rb]]; reflexivity.
  - intros. replace (1 - 1) with 0 by reflexivity. rewrite !py_get_0, !py_get_1. cbn [fst snd]. unfold since_step.
    destruct (tltb a_end b_end) eqn:E1; [|destruct (tltb b_end a_end) eqn:E2];
      rewrite ?py_del_0; cbn [fst snd];
      (destruct (tltb (ts_max tltb a_start b_start) (ts_min tltb a_end b_end)) eqn:E3;
       unfold ts_max, ts_min in E3; unfold pymax, pymin; rewrite E3; reflexivity).
  - lia.
Qed.

(* ================================================================== *)
(* simulation form, sequences of updates, reset, __init__              *)
(* ================================================================== *)
Notation sim abs r := (option_map (fun p => (abs (fst p), snd p)) r).

Lemma gen_And_sim st b1 b2 : sim And_abs (gen_And_update AR T tltb teqb st b1 b2) = bin_update_g T tltb teqb vmin (And_abs st) b1 b2.
Proof. rewrite gen_And_update_ok. destruct (bin_update_g T tltb teqb vmin (And_abs st) b1 b2) as [[[l r lo] o]|]; reflexivity. Qed.
Lemma gen_Or_sim st b1 b2 : sim Or_abs (gen_Or_update AR T tltb teqb st b1 b2) = bin_update_g T tltb teqb vmax (Or_abs st) b1 b2.
Proof. rewrite gen_Or_update_ok. destruct (bin_update_g T tltb teqb vmax (Or_abs st) b1 b2) as [[[l r lo] o]|]; reflexivity. Qed.
Lemma gen_Implies_sim st b1 b2 : sim Implies_abs (gen_Implies_update AR T tltb teqb st b1 b2) = bin_update_g T tltb teqb (fun l r => vmax (neg l) r) (Implies_abs st) b1 b2.
Proof. rewrite gen_Implies_update_ok. destruct (bin_update_g T tltb teqb (fun l r => vmax (neg l) r) (Implies_abs st) b1 b2) as [[[l r lo] o]|]; reflexivity. Qed.
Lemma gen_Iff_sim st b1 b2 : sim Iff_abs (gen_Iff_update AR T tltb teqb st b1 b2) = bin_update_g T tltb teqb (fun l r => neg (a1 AR Abs (a2 AR Sub l r))) (Iff_abs st) b1 b2.
Proof. rewrite gen_Iff_update_ok. destruct (bin_update_g T tltb teqb (fun l r => neg (a1 AR Abs (a2 AR Sub l r))) (Iff_abs st) b1 b2) as [[[l r lo] o]|]; reflexivity. Qed.
Lemma gen_Xor_sim st b1 b2 : sim Xor_abs (gen_Xor_update AR T tltb teqb st b1 b2) = bin_update_g T tltb teqb (fun l r => a1 AR Abs (a2 AR Sub l r)) (Xor_abs st) b1 b2.
Proof. rewrite gen_Xor_update_ok. destruct (bin_update_g T tltb teqb (fun l r => a1 AR Abs (a2 AR Sub l r)) (Xor_abs st) b1 b2) as [[[l r lo] o]|]; reflexivity. Qed.
Lemma gen_Addition_sim st b1 b2 : sim Addition_abs (gen_Addition_update AR T tltb teqb st b1 b2) = bin_update_g T tltb teqb (a2 AR Add) (Addition_abs st) b1 b2.
Proof. rewrite gen_Addition_update_ok. destruct (bin_update_g T tltb teqb (a2 AR Add) (Addition_abs st) b1 b2) as [[[l r lo] o]|]; reflexivity. Qed.
Lemma gen_Subtraction_sim st b1 b2 : sim Subtraction_abs (gen_Subtraction_update AR T tltb teqb st b1 b2) = bin_update_g T tltb teqb (a2 AR Sub) (Subtraction_abs st) b1 b2.
Proof. rewrite gen_Subtraction_update_ok. destruct (bin_update_g T tltb teqb (a2 AR Sub) (Subtraction_abs st) b1 b2) as [[[l r lo] o]|]; reflexivity. Qed.
Lemma gen_Division_sim st b1 b2 : sim Division_abs (gen_Division_update AR T tltb teqb st b1 b2) = bin_update_g T tltb teqb (a2 AR Div) (Division_abs st) b1 b2.
Proof. rewrite gen_Division_update_ok. destruct (bin_update_g T tltb teqb (a2 AR Div) (Division_abs st) b1 b2) as [[[l r lo] o]|]; reflexivity. Qed.
Lemma gen_Pow_sim st b1 b2 : sim Pow_abs (gen_Pow_update AR T tltb teqb st b1 b2) = bin_update_g T tltb teqb (a2 AR Pow) (Pow_abs st) b1 b2.
Proof. rewrite gen_Pow_update_ok. destruct (bin_update_g T tltb teqb (a2 AR Pow) (Pow_abs st) b1 b2) as [[[l r lo] o]|]; reflexivity. Qed.
Lemma gen_Log_sim st b1 b2 : sim Log_abs (gen_Log_update AR T tltb teqb st b1 b2) = bin_update_g T tltb teqb (a2 AR Log) (Log_abs st) b1 b2.
Proof. rewrite gen_Log_update_ok. destruct (bin_update_g T tltb teqb (a2 AR Log) (Log_abs st) b1 b2) as [[[l r lo] o]|]; reflexivity. Qed.


(* ================================================================== *)
(* since[a,b]: the composition of its four sub-objects                 *)
(* ================================================================== *)
(* since_timed_operation.py calls update() of four objects of translated classes.  The hand model since_timed_update_g is generic in the
   model [WS], [wonce], [whist] of the two bounded operations: given ANY abstraction of the generated once_timed / historically_timed
   classes to such a model that commutes with update on the states satisfying an invariant (DenseOnlineGenWinCorrect.v provides it for the
   stamps tz), the generated SinceTimed.update is since_timed_update_g. *)
Section SinceTimed.
Variables (tadd : T -> Z -> T) (tzero : T).
Variable WS : Type.
Variables wonce whist : WS -> psig -> option (WS * psig).
Variable absO : OnceTimed_state T -> WS.
Variable absH : HistoricallyTimed_state T -> WS.
Variable PO : OnceTimed_state T -> Prop.
Variable PH : HistoricallyTimed_state T -> Prop.
Hypothesis HO : forall st s, PO st ->
  option_map (fun p => (absO (fst p), snd p)) (gen_OnceTimed_update AR T tltb teqb tadd tzero st s) = wonce (absO st) s.
Hypothesis HH : forall st s, PH st ->
  option_map (fun p => (absH (fst p), snd p)) (gen_HistoricallyTimed_update AR T tltb teqb tadd tzero st s) = whist (absH st) s.

Definition SinceTimed_abs (st : SinceTimed_state T) : @ststate VS T WS :=
  {| st_lbuf := SinceTimed_sample_left_buf st; st_rbuf := SinceTimed_sample_right_buf st; st_since := Since_abs (SinceTimed_since st);
     st_hist := absH (SinceTimed_hist st); st_once := absO (SinceTimed_once st); st_and := And_abs (SinceTimed_andop st) |}.

Lemma gen_SinceTimed_update_ok st l r : PO (SinceTimed_once st) -> PH (SinceTimed_hist st) ->
  option_map (fun p => (SinceTimed_abs (fst p), snd p)) (gen_SinceTimed_update AR T tltb teqb tadd tzero st l r)
  = since_timed_update_g T tltb teqb WS wonce whist (SinceTimed_abs st) l r.
Proof.
  intros HPO HPH. unfold gen_SinceTimed_update, since_timed_update_g, SinceTimed_abs. cbn [st_lbuf st_rbuf st_since st_hist st_once st_and]. cbv zeta.
  unfold PyDense.psig, PyDense.psample in *.
  rewrite <- (HO _ r HPO).
  destruct (gen_OnceTimed_update AR T tltb teqb tadd tzero (SinceTimed_once st) r) as [[once' out1]|]; [|reflexivity].
  cbn [option_map fst snd]. rewrite gen_Since_update_ok. unfold PyDense.psig, PyDense.psample in *.
  destruct (since_update T tltb (Since_abs (SinceTimed_since st)) (l, r)) as [[since' out2]|]; [|reflexivity].
  rewrite <- (HH _ out2 HPH).
  destruct (gen_HistoricallyTimed_update AR T tltb teqb tadd tzero (SinceTimed_hist st) out2) as [[hist' out3]|]; [|reflexivity].
  cbn [option_map fst snd]. rewrite <- gen_And_sim.
  destruct (gen_And_update AR T tltb teqb (SinceTimed_andop st) out1 out3) as [[and' res]|]; [|reflexivity].
  cbn [option_map fst snd]. destruct since' as [a b c d]. reflexivity.
Qed.

(* the fields begin / end are never written; the sub-objects of the new state are those the four updates return *)
Lemma gen_SinceTimed_update_bounds st l r st' o :
  gen_SinceTimed_update AR T tltb teqb tadd tzero st l r = Some (st', o) -> SinceTimed_begin st' = SinceTimed_begin st /\ SinceTimed_end st' = SinceTimed_end st.
Proof.
  unfold gen_SinceTimed_update. cbv zeta.
  destruct (gen_OnceTimed_update AR T tltb teqb tadd tzero (SinceTimed_once st) r) as [[once' out1]|]; [|discriminate].
  destruct (gen_Since_update AR T tltb teqb (SinceTimed_since st) l r) as [[since' out2]|]; [|discriminate].
  destruct (gen_HistoricallyTimed_update AR T tltb teqb tadd tzero (SinceTimed_hist st) out2) as [[hist' out3]|]; [|discriminate].
  destruct (gen_And_update AR T tltb teqb (SinceTimed_andop st) out1 out3) as [[and' res]|]; [|discriminate].
  intros E. injection E as <- <-. split; reflexivity.
Qed.
End SinceTimed.

(* ================================================================== *)
(* constant                                                            *)
(* ================================================================== *)
(* constant_operation.py: [[0, val], [inf, val]] at the first update, [] afterwards; generic in the stamps 0 and inf *)
Lemma gen_Constant_update_gen (tzero tinf : T) (st : Constant_state T) :
  gen_Constant_update AR T tltb teqb tzero tinf st =
  Some (mk_Constant_state (Constant_val st) false,
        if Constant_is_first_sample st then [(tzero, Constant_val st); (tinf, Constant_val st)] else []).
Proof. unfold gen_Constant_update. destruct st as [v [|]]; reflexivity. Qed.


(* ================================================================== *)
(* predicate (STL and IA-STL)                                          *)
(* ================================================================== *)
Lemma py_for_map (g : V -> V) (body : psample -> psig -> option psig) :
  (forall i acc, body i acc = Some (acc ++ [(fst i, g (snd i))])) ->
  forall s acc, py_for s body acc = Some (acc ++ map (fun i => (fst i, g (snd i))) s).
Proof.
  intros Hb s. induction s as [|[t v] r IH]; intros acc.
  - cbn. rewrite app_nil_r. reflexivity.
  - cbn [py_for map]. rewrite Hb. cbn [fst snd]. rewrite IH, <- app_assoc. reflexivity.
Qed.

Definition Predicate_abs (st : Predicate_state T) : @pstate VS T :=
  {| p_sub := Subtraction_abs (Predicate_sub st); p_subout := Predicate_subtraction_output st |}.

(* predicate_operation.py update(): the difference through SubtractionOperation.update, then the robustness of the comparison;
   the final `else: out_val = float('nan')` of the code is dead (the generated text answers None there: nv_get) *)
Lemma gen_Predicate_update_ok st l r :
  option_map (fun p => (Predicate_abs (fst p), snd p)) (gen_Predicate_update AR T tltb teqb st l r)
  = pred_update_g AR T tltb teqb (Predicate_comparison_op st) (Predicate_abs st) l r.
Proof.
  unfold gen_Predicate_update, pred_update_g, Predicate_abs. cbn [p_sub p_subout]. cbv zeta.
  rewrite <- gen_Subtraction_sim.
  destruct (gen_Subtraction_update AR T tltb teqb (Predicate_sub st) l r) as [[sub' il]|]; [|reflexivity].
  cbn [option_map fst snd].
  rewrite (py_for_map (pred_of_diff AR (Predicate_comparison_op st))).
  - reflexivity.
  - intros [t v] acc. destruct (Predicate_comparison_op st); reflexivity.
Qed.
Lemma gen_Predicate_update_op st l r st' o :
  gen_Predicate_update AR T tltb teqb st l r = Some (st', o) -> Predicate_comparison_op st' = Predicate_comparison_op st.
Proof.
  unfold gen_Predicate_update. cbv zeta.
  destruct (gen_Subtraction_update AR T tltb teqb (Predicate_sub st) l r) as [[sub' il]|]; [|discriminate].
  match goal with |- context [py_for ?s ?b ?a] => destruct (py_for s b a) end; [|discriminate].
  intros E. injection E as <- _. reflexivity.
Qed.

(* Python's == 0 / <= 0 / >= 0 on values, as the hand model sat_online writes them *)
Lemma veq_veqb (x y : V) : veq x y = veqb x y.
Proof.
  unfold veq, veqb. destruct (v_eq_dec x y) as [->|N].
  - rewrite leb_refl. reflexivity.
  - destruct (leb x y) eqn:E1; [|reflexivity]. destruct (leb y x) eqn:E2; [|reflexivity].
    exfalso. apply N. apply leb_antisym; assumption.
Qed.

(* the loop of sat(): for i, in_sample in enumerate(input_list) *)
Lemma py_for_sat (c : cmp) (n : Z) (body : Z * psample -> option V * list (T * bool) -> option (option V * list (T * bool))) :
  (forall i t x prev acc, body (i, (t, x)) (prev, acc) =
     Some (Some (pred_of_diff AR c x),
           if nv_neq (pred_of_diff AR c x) prev || (i =? n - 1) then acc ++ [(t, sat_online AR c x)] else acc)) ->
  forall l k prev acc, Z.of_nat (k + length l) = n ->
    py_for (combine (map Z.of_nat (seq k (length l))) l) body (prev, acc)
    = Some (match rev l with [] => prev | (_, x) :: _ => Some (pred_of_diff AR c x) end, acc ++ sat_scan AR T c prev l).
Proof.
  intros Hb l. induction l as [|[t x] r IH]; intros k prev acc Hn.
  - cbn. rewrite app_nil_r. reflexivity.
  - cbn [length seq map combine py_for]. rewrite Hb.
    rewrite (IH (S k)) by (cbn [length] in Hn; lia).
    cbn [sat_scan]. f_equal. f_equal.
    + cbn [rev]. destruct (rev r) as [|[t' x'] rr]; reflexivity.
    + unfold nv_neq.
      assert (El : (Z.of_nat k =? n - 1) = match r with [] => true | _ => false end).
      { destruct r as [|q r']; cbn [length] in Hn; [apply Z.eqb_eq|apply Z.eqb_neq]; lia. }
      rewrite El.
      destruct (match prev with Some p => negb (veq (pred_of_diff AR c x) p) | None => true end || match r with [] => true | _ => false end);
        rewrite <- ?app_assoc; reflexivity.
Qed.

Lemma gen_Predicate_sat_ok st l r :
  gen_Predicate_sat AR T tltb teqb st l r
  = Some (st, sat_scan AR T (Predicate_comparison_op st) None (Predicate_subtraction_output st)).
Proof.
  destruct st as [sub c so]. unfold gen_Predicate_sat. cbn [Predicate_sub Predicate_comparison_op Predicate_subtraction_output]. cbv zeta.
  unfold py_enumerate.
  rewrite (py_for_sat c (py_len so)).
  - reflexivity.
  - intros i t x prev acc. cbn [fst snd]. rewrite !veq_veqb.
    destruct c; cbn [cmp_eqb pred_of_diff sat_online orb]; unfold ltb; rewrite ?negb_involutive;
      try (destruct (veqb x (azero AR)); cbn [negb]);
      try (destruct (leb x (azero AR)); cbn [negb]);
      try (destruct (leb (azero AR) x); cbn [negb]);
      match goal with |- context [nv_neq ?a ?b || ?d] => destruct (nv_neq a b || d) end; reflexivity.
  - unfold py_len. cbn. reflexivity.
Qed.

(* iastl/.../predicate_operation.py: which reading of the predicate the attributes select *)
Definition ia_kind (sem : semantics) (in_vars out_vars : list nat) : pkind :=
  if (sem_eqb sem OutputRobustness && negb (py_truthy out_vars)) || (sem_eqb sem InputRobustness && negb (py_truthy in_vars)) then PBool
  else if (sem_eqb sem InputVacuity && negb (py_truthy in_vars)) || (sem_eqb sem OutputVacuity && negb (py_truthy out_vars)) then PVac
  else PStd.

(* for i in range(len(l)): out.append([l[i][0], h(l[i][1])]) *)
Lemma py_get_app_mid {A : Type} (pre : list A) (x : A) (post : list A) : py_get (pre ++ x :: post) (Z.of_nat (length pre)) = Some x.
Proof.
  unfold py_get, py_len. rewrite app_length. cbn [length].
  destruct (Z.of_nat (length pre) <? 0) eqn:E0; [apply Z.ltb_lt in E0; lia|].
  destruct (0 <=? Z.of_nat (length pre)) eqn:E1; [|apply Z.leb_gt in E1; lia].
  destruct (Z.of_nat (length pre) <? Z.of_nat (length pre + S (length post))) eqn:E2; [|apply Z.ltb_ge in E2; lia].
  cbn [andb]. rewrite Nat2Z.id, nth_error_app2 by lia. rewrite Nat.sub_diag. reflexivity.
Qed.

Lemma py_for_range_map {B : Type} (h : B -> V) (body : Z -> psig -> option psig) (full : list (T * B)) :
  (forall i acc, body i acc = (t <- py_get full i ;; Some (acc ++ [(fst t, h (snd t))]))) ->
  forall post pre acc, full = pre ++ post ->
    py_for (map (fun k => 0 + Z.of_nat k) (seq (length pre) (length post))) body acc
    = Some (acc ++ map (fun q => (fst q, h (snd q))) post).
Proof.
  intros Hb post. induction post as [|[t b] r IH]; intros pre acc E.
  - cbn. rewrite app_nil_r. reflexivity.
  - cbn [length seq map py_for]. rewrite Hb. replace (0 + Z.of_nat (length pre)) with (Z.of_nat (length pre)) by lia.
    rewrite E, py_get_app_mid. cbn [fst snd].
    specialize (IH (pre ++ [(t, b)]) (acc ++ [(t, h b)])).
    rewrite app_length in IH. cbn [length] in IH. rewrite Nat.add_1_r in IH.
    rewrite IH by (rewrite E, <- app_assoc; reflexivity).
    rewrite <- app_assoc. reflexivity.
Qed.

Definition IAPredicate_abs (st : IAPredicate_state T) : @pstate VS T := Predicate_abs (IAPredicate_base st).

Lemma gen_IAPredicate_update_ok st l r :
  option_map (fun p => (IAPredicate_abs (fst p), snd p)) (gen_IAPredicate_update AR T tltb teqb st l r)
  = pred_update_ia AR T tltb teqb (ia_kind (IAPredicate_semantics st) (IAPredicate_in_vars st) (IAPredicate_out_vars st))
      (Predicate_comparison_op (IAPredicate_base st)) (IAPredicate_abs st) l r.
Proof.
  unfold gen_IAPredicate_update, pred_update_ia, IAPredicate_abs. cbv zeta.
  rewrite <- gen_Predicate_update_ok.
  destruct (gen_Predicate_update AR T tltb teqb (IAPredicate_base st) l r) as [[base' samples]|] eqn:EU; [|reflexivity].
  cbn [option_map fst snd]. rewrite gen_Predicate_sat_ok.
  rewrite (gen_Predicate_update_op _ _ _ _ _ EU).
  unfold ia_kind, Predicate_abs at 2. cbn [p_subout].
  set (sat := sat_scan AR T (Predicate_comparison_op (IAPredicate_base st)) None (Predicate_subtraction_output base')).
  destruct ((sem_eqb (IAPredicate_semantics st) OutputRobustness && negb (py_truthy (IAPredicate_out_vars st)))
            || (sem_eqb (IAPredicate_semantics st) InputRobustness && negb (py_truthy (IAPredicate_in_vars st)))) eqn:E1.
  - unfold py_range. replace (Z.to_nat (py_len sat - 0)) with (length sat) by (unfold py_len; lia).
    rewrite (py_for_range_map (fun b : bool => if Bool.eqb b true then top else bot) _ sat) with (pre := []) by (try reflexivity; intros i acc; destruct (py_get sat i); reflexivity).
    cbn [app option_map fst snd IAPredicate_base]. f_equal. f_equal. apply map_ext. intros [t [|]]; reflexivity.
  - destruct ((sem_eqb (IAPredicate_semantics st) InputVacuity && negb (py_truthy (IAPredicate_in_vars st)))
              || (sem_eqb (IAPredicate_semantics st) OutputVacuity && negb (py_truthy (IAPredicate_out_vars st)))) eqn:E2.
    + unfold py_range. replace (Z.to_nat (py_len sat - 0)) with (length sat) by (unfold py_len; lia).
      rewrite (py_for_range_map (fun _ : bool => azero AR) _ sat) with (pre := []) by (try reflexivity; intros i acc; destruct (py_get sat i); reflexivity).
      reflexivity.
    + reflexivity.
Qed.

(* the attributes semantics / in_vars / out_vars and the comparison are never written *)
Lemma gen_IAPredicate_update_frame st l r st' o :
  gen_IAPredicate_update AR T tltb teqb st l r = Some (st', o) ->
  IAPredicate_semantics st' = IAPredicate_semantics st /\ IAPredicate_in_vars st' = IAPredicate_in_vars st /\
  IAPredicate_out_vars st' = IAPredicate_out_vars st /\
  Predicate_comparison_op (IAPredicate_base st') = Predicate_comparison_op (IAPredicate_base st).
Proof.
  unfold gen_IAPredicate_update. cbv zeta.
  destruct (gen_Predicate_update AR T tltb teqb (IAPredicate_base st) l r) as [[base' samples]|] eqn:EU; [|discriminate].
  rewrite gen_Predicate_sat_ok.
  match goal with |- context [if ?c then _ else _] => destruct c end.
  - match goal with |- context [py_for ?s ?b ?a] => destruct (py_for s b a) end; [|discriminate].
    intros E. injection E as <- _. cbn. rewrite (gen_Predicate_update_op _ _ _ _ _ EU). repeat split.
  - match goal with |- context [if ?c then _ else _] => destruct c end.
    + match goal with |- context [py_for ?s ?b ?a] => destruct (py_for s b a) end; [|discriminate].
      intros E. injection E as <- _. cbn. rewrite (gen_Predicate_update_op _ _ _ _ _ EU). repeat split.
    + intros E. injection E as <- _. cbn. rewrite (gen_Predicate_update_op _ _ _ _ _ EU). repeat split.
Qed.

(* a sequence of update() calls of a binary class is bin_run_g *)
Lemma bin_class_run {St : Type} (upd : St -> psig -> psig -> option (St * psig)) (abs : St -> @ostate VS T) (f : V -> V -> V) :
  (forall st b1 b2, sim abs (upd st b1 b2) = bin_update_g T tltb teqb f (abs st) b1 b2) ->
  forall bs st, sim abs (run_g (fun st (b : psig * psig) => upd st (fst b) (snd b)) st bs) = bin_run_g T tltb teqb f (abs st) bs.
Proof.
  intros H bs. induction bs as [|[b1 b2] bs IH]; intros st; [reflexivity|].
  cbn [run_g bin_run_g fst snd]. rewrite <- H.
  destruct (upd st b1 b2) as [[st1 o]|]; [|reflexivity]. cbn [option_map fst snd]. rewrite <- IH.
  destruct (run_g (fun st (b : psig * psig) => upd st (fst b) (snd b)) st1 bs) as [[st2 os]|]; reflexivity.
Qed.

Lemma gen_inits :
  And_abs (And_init T) = ostate0 /\ Or_abs (Or_init T) = ostate0 /\ Implies_abs (Implies_init T) = ostate0 /\
  Iff_abs (Iff_init T) = ostate0 /\ Xor_abs (Xor_init T) = ostate0 /\ Addition_abs (Addition_init T) = ostate0 /\
  Subtraction_abs (Subtraction_init T) = ostate0 /\ Division_abs (Division_init T) = ostate0 /\ Pow_abs (Pow_init T) = ostate0 /\
  Log_abs (Log_init T) = ostate0 /\
  Multiplication_sample_left_buf (Multiplication_init T) = [] /\ Multiplication_sample_right_buf (Multiplication_init T) = [] /\
  Once_prev (Once_init T) = fprev once_init /\ Historically_prev (Historically_init T) = fprev hist_init /\
  Always_prev (Always_init T) = fprev alw_init /\ Since_abs (Since_init T) = since_init.
Proof. repeat split; reflexivity. Qed.

(* reset(): `pass` in every translated class *)
Lemma gen_resets :
  (forall st, gen_And_reset AR T tltb teqb st = Some st) /\ (forall st, gen_Or_reset AR T tltb teqb st = Some st) /\
  (forall st, gen_Implies_reset AR T tltb teqb st = Some st) /\ (forall st, gen_Iff_reset AR T tltb teqb st = Some st) /\
  (forall st, gen_Xor_reset AR T tltb teqb st = Some st) /\ (forall st, gen_Addition_reset AR T tltb teqb st = Some st) /\
  (forall st, gen_Subtraction_reset AR T tltb teqb st = Some st) /\ (forall st, gen_Multiplication_reset AR T tltb teqb st = Some st) /\
  (forall st, gen_Division_reset AR T tltb teqb st = Some st) /\ (forall st, gen_Pow_reset AR T tltb teqb st = Some st) /\
  (forall st, gen_Log_reset AR T tltb teqb st = Some st) /\ (forall st, gen_Not_reset AR T tltb teqb st = Some st) /\
  (forall st, gen_Abs_reset AR T tltb teqb st = Some st) /\ (forall st, gen_Negate_reset AR T tltb teqb st = Some st) /\
  (forall st, gen_Sqrt_reset AR T tltb teqb st = Some st) /\ (forall st, gen_Exp_reset AR T tltb teqb st = Some st) /\
  (forall st, gen_Ln_reset AR T tltb teqb st = Some st) /\ (forall st, gen_Once_reset AR T tltb teqb st = Some st) /\
  (forall st, gen_Historically_reset AR T tltb teqb st = Some st) /\ (forall st, gen_Always_reset AR T tltb teqb st = Some st) /\
  (forall st, gen_Since_reset AR T tltb teqb st = Some st).
Proof. repeat split; intros st; destruct st; reflexivity. Qed.

End Gen.

(* the kind the generated IA predicate selects from its attributes is the one of the visitor model (IA.pk_impl), when the attributes are
   what the IA visitor passes: node.in_vars / node.out_vars of the predicate node *)
Lemma ia_kind_pk_impl {VS : Val} (io : nat -> bool) (sem : semantics) (f g : formula) :
  ia_kind sem (in_vars_impl io f ++ in_vars_impl io g) (out_vars_impl io f ++ out_vars_impl io g) = pk_impl io sem f g.
Proof.
  unfold ia_kind, pk_impl.
  assert (E : forall l : list nat, negb (py_truthy l) = is_nil l) by (intros [|x l]; reflexivity).
  rewrite !E. destruct sem; cbn [sem_eqb andb orb];
    destruct (is_nil (out_vars_impl io f ++ out_vars_impl io g)); destruct (is_nil (in_vars_impl io f ++ in_vars_impl io g)); reflexivity.
Qed.

(* the constant on the stamps tz is const_update (DenseOnlineFold.v) *)
Definition Constant_abs {VS : Val} (st : Constant_state tz) : @cstate VS := {| c_val := Constant_val st; c_first := Constant_is_first_sample st |}.
Definition Constant_conc {VS : Val} (st : @cstate VS) : Constant_state tz := mk_Constant_state (c_val st) (c_first st).
Lemma gen_Constant_update_ok {VS : Val} (AR : Arith VS) (st : Constant_state tz) :
  gen_Constant_update AR tz tlt teq (T 0) TInf st =
  match const_update (Constant_abs st) tt with None => None | Some (st', o) => Some (Constant_conc st', o) end.
Proof. rewrite gen_Constant_update_gen. unfold const_update, Constant_abs, Constant_conc. destruct st as [v [|]]; reflexivity. Qed.
Lemma gen_Constant_init {VS : Val} (c : V) : Constant_abs (Constant_init tz c) = const_init c.
Proof. reflexivity. Qed.

(* ================================================================== *)
(* the top theorem                                                     *)
(* ================================================================== *)
(* Every translated class, for every type of stamps, every state and every batch, computes what the hand model of its operation
   computes (None = an exception on both sides), with the function the hand-written visitor model attaches to the node. *)
Theorem dense_online_gen_refines :
  forall (VS : Val) (AR : Arith VS) (T : Type) (tltb teqb : T -> T -> bool),
  let B := fun f => bin_update_g T tltb teqb f in
  let S (A : Type) (abs : A -> @ostate VS T) (r : option (A * list (T * V))) := option_map (fun p => (abs (fst p), snd p)) r in
  (* binary classes built on intersection() *)
  (forall st b1 b2, S _ (And_abs T) (gen_And_update AR T tltb teqb st b1 b2) = B vmin (And_abs T st) b1 b2) /\
  (forall st b1 b2, option_map (fun p => And_sample_last_buf (fst p)) (gen_And_update AR T tltb teqb st b1 b2)
                    = option_map (fun _ => And_sample_last_buf st) (B vmin (And_abs T st) b1 b2)) /\
  (forall st b1 b2, S _ (Or_abs T) (gen_Or_update AR T tltb teqb st b1 b2) = B vmax (Or_abs T st) b1 b2) /\
  (forall st b1 b2, S _ (Implies_abs T) (gen_Implies_update AR T tltb teqb st b1 b2) = B (fun l r => vmax (neg l) r) (Implies_abs T st) b1 b2) /\
  (forall st b1 b2, S _ (Iff_abs T) (gen_Iff_update AR T tltb teqb st b1 b2) = B (fun l r => neg (a1 AR Abs (a2 AR Sub l r))) (Iff_abs T st) b1 b2) /\
  (forall st b1 b2, S _ (Xor_abs T) (gen_Xor_update AR T tltb teqb st b1 b2) = B (fun l r => a1 AR Abs (a2 AR Sub l r)) (Xor_abs T st) b1 b2) /\
  (forall st b1 b2, S _ (Addition_abs T) (gen_Addition_update AR T tltb teqb st b1 b2) = B (a2 AR Add) (Addition_abs T st) b1 b2) /\
  (forall st b1 b2, S _ (Subtraction_abs T) (gen_Subtraction_update AR T tltb teqb st b1 b2) = B (a2 AR Sub) (Subtraction_abs T st) b1 b2) /\
  (forall st b1 b2, S _ (Division_abs T) (gen_Division_update AR T tltb teqb st b1 b2) = B (a2 AR Div) (Division_abs T st) b1 b2) /\
  (forall st b1 b2, S _ (Pow_abs T) (gen_Pow_update AR T tltb teqb st b1 b2) = B (a2 AR Pow) (Pow_abs T st) b1 b2) /\
  (forall st b1 b2, S _ (Log_abs T) (gen_Log_update AR T tltb teqb st b1 b2) = B (a2 AR Log) (Log_abs T st) b1 b2) /\
  (* multiplication: last_output is forgotten at every update *)
  (forall st b1 b2 lo, gen_Multiplication_update AR T tltb teqb st b1 b2 =
     match mul_update_g T tltb teqb (a2 AR Mul)
             {| lbuf := Multiplication_sample_left_buf st; rbuf := Multiplication_sample_right_buf st; lout := lo |} b1 b2 with
     | None => None
     | Some (st', o) => Some (mk_Multiplication_state (lbuf st') (rbuf st'), o)
     end) /\
  (* unary point-wise classes *)
  (forall st s, gen_Not_update AR T tltb teqb st s = match unary_update T not_fn tt s with None => None | Some (_, o) => Some (st, o) end) /\
  (forall st s, gen_Abs_update AR T tltb teqb st s = unary_update T (total_fn AR Abs) st s) /\
  (forall st s, gen_Negate_update AR T tltb teqb st s = unary_update T not_fn st s) /\
  (forall st s, gen_Sqrt_update AR T tltb teqb st s = unary_update T (sqrt_fn AR) st s) /\
  (forall st s, gen_Exp_update AR T tltb teqb st s = unary_update T (total_fn AR Exp) st s) /\
  (forall st s, gen_Ln_update AR T tltb teqb st s = unary_update T (partial_fn AR Ln (fun v => ltb (azero AR) v)) st s) /\
  (* once / historically / always *)
  (forall st s, gen_Once_update AR T tltb teqb st s =
     match once_update T {| fprev := Once_prev st |} s with None => None | Some (st', o) => Some (mk_Once_state (fprev st'), o) end) /\
  (forall st s, gen_Historically_update AR T tltb teqb st s =
     match hist_update T {| fprev := Historically_prev st |} s with None => None | Some (st', o) => Some (mk_Historically_state (fprev st'), o) end) /\
  (forall st s, gen_Always_update AR T tltb teqb st s =
     match alw_update T {| fprev := Always_prev st |} s with None => None | Some (st', o) => Some (mk_Always_state (fprev st'), o) end) /\
  (* since *)
  (forall st b1 b2, gen_Since_update AR T tltb teqb st b1 b2 =
     match since_update T tltb (Since_abs T st) (b1, b2) with None => None | Some (st', o) => Some (Since_conc T st', o) end) /\
  (* predicate (STL): update and sat; predicate (IA-STL): update *)
  (forall st l r, option_map (fun p => (Predicate_abs T (fst p), snd p)) (gen_Predicate_update AR T tltb teqb st l r)
                  = pred_update_g AR T tltb teqb (Predicate_comparison_op st) (Predicate_abs T st) l r) /\
  (forall st l r, gen_Predicate_sat AR T tltb teqb st l r
                  = Some (st, sat_scan AR T (Predicate_comparison_op st) None (Predicate_subtraction_output st))) /\
  (forall st l r, option_map (fun p => (IAPredicate_abs T (fst p), snd p)) (gen_IAPredicate_update AR T tltb teqb st l r)
                  = pred_update_ia AR T tltb teqb (ia_kind (IAPredicate_semantics st) (IAPredicate_in_vars st) (IAPredicate_out_vars st))
                      (Predicate_comparison_op (IAPredicate_base st)) (IAPredicate_abs T st) l r) /\
  (forall st l r st' o, gen_IAPredicate_update AR T tltb teqb st l r = Some (st', o) ->
     IAPredicate_semantics st' = IAPredicate_semantics st /\ IAPredicate_in_vars st' = IAPredicate_in_vars st /\
     IAPredicate_out_vars st' = IAPredicate_out_vars st /\
     Predicate_comparison_op (IAPredicate_base st') = Predicate_comparison_op (IAPredicate_base st)) /\
  (forall c, Predicate_abs T (Predicate_init T c) = pred_init) /\
  (* constant *)
  (forall tzero tinf st, gen_Constant_update AR T tltb teqb tzero tinf st =
     Some (mk_Constant_state (Constant_val st) false,
           if Constant_is_first_sample st then [(tzero, Constant_val st); (tinf, Constant_val st)] else [])) /\
  (* __init__ and the functions handed to intersection() *)
  And_abs T (And_init T) = ostate0 /\ Since_abs T (Since_init T) = since_init /\ Once_prev (Once_init T) = bot /\
  Historically_prev (Historically_init T) = top /\ Always_prev (Always_init T) = top /\
  gen_m_conjunction AR = vmin /\ gen_m_disjunction AR = vmax /\ gen_m_multiplication AR = a2 AR Mul /\ gen_m_division AR = a2 AR Div /\
  gen_m_power AR = a2 AR Pow /\ gen_m_log AR = a2 AR Log.
Proof.
  intros VS AR T tltb teqb B S. unfold B, S.
  repeat match goal with |- _ /\ _ => split end; intros; try reflexivity.
  - apply gen_And_sim.
  - rewrite gen_And_update_ok. destruct (bin_update_g T tltb teqb vmin (And_abs T st) b1 b2) as [[st' o]|]; reflexivity.
  - apply gen_Or_sim. - apply gen_Implies_sim. - apply gen_Iff_sim. - apply gen_Xor_sim. - apply gen_Addition_sim.
  - apply gen_Subtraction_sim. - apply gen_Division_sim. - apply gen_Pow_sim. - apply gen_Log_sim.
  - apply gen_Multiplication_update_ok.
  - apply gen_Not_update_ok. - apply gen_Abs_update_ok. - apply gen_Negate_update_ok. - apply gen_Sqrt_update_ok.
  - apply gen_Exp_update_ok. - apply gen_Ln_update_ok.
  - apply gen_Once_update_ok. - apply gen_Historically_update_ok. - apply gen_Always_update_ok.
  - apply gen_Since_update_ok.
  - apply gen_Predicate_update_ok. - apply gen_Predicate_sat_ok. - apply gen_IAPredicate_update_ok.
  - eapply gen_IAPredicate_update_frame; eassumption.
  - apply gen_Constant_update_gen.
Qed.
Print Assumptions dense_online_gen_refines.

(* the IA-STL predicate as generated: its update is pred_update_ia with the kind its attributes select, and that kind is the one of the
   visitor model IA.pk_impl when the attributes are node.in_vars / node.out_vars of the predicate node *)
Theorem dense_online_gen_ia_predicate :
  forall (VS : Val) (AR : Arith VS) (T : Type) (tltb teqb : T -> T -> bool),
  (forall st l r, option_map (fun p => (IAPredicate_abs T (fst p), snd p)) (gen_IAPredicate_update AR T tltb teqb st l r)
                  = pred_update_ia AR T tltb teqb (ia_kind (IAPredicate_semantics st) (IAPredicate_in_vars st) (IAPredicate_out_vars st))
                      (Predicate_comparison_op (IAPredicate_base st)) (IAPredicate_abs T st) l r) /\
  (forall c sem iv ov, IAPredicate_abs T (IAPredicate_init T c sem iv ov) = pred_init /\
                       Predicate_comparison_op (IAPredicate_base (IAPredicate_init T c sem iv ov)) = c /\
                       IAPredicate_semantics (IAPredicate_init T c sem iv ov) = sem /\
                       IAPredicate_in_vars (IAPredicate_init T c sem iv ov) = iv /\ IAPredicate_out_vars (IAPredicate_init T c sem iv ov) = ov) /\
  (forall (io : nat -> bool) (sem : semantics) (f g : formula),
     ia_kind sem (in_vars_impl io f ++ in_vars_impl io g) (out_vars_impl io f ++ out_vars_impl io g) = pk_impl io sem f g).
Proof.
  intros VS AR T tltb teqb. split; [|split].
  - apply gen_IAPredicate_update_ok.
  - intros c sem iv ov. repeat split.
  - apply ia_kind_pk_impl.
Qed.
Print Assumptions dense_online_gen_ia_predicate.

Lemma omap_snd_sim {A B C : Type} (abs : A -> B) (r : option (A * C)) :
  option_map snd (option_map (fun p => (abs (fst p), snd p)) r) = option_map snd r.
Proof. destruct r as [[a c]|]; reflexivity. Qed.

(* sequences of update() calls from a fresh object: the outputs of the generated And / Or / ... class are those of bin_run_g from ostate0 *)
Theorem dense_online_gen_binary_runs :
  forall (VS : Val) (AR : Arith VS) (T : Type) (tltb teqb : T -> T -> bool) (bs : list (list (T * V) * list (T * V))),
  let R (St : Type) (upd : St -> list (T * V) -> list (T * V) -> option (St * list (T * V))) (i : St) :=
        option_map snd (run_g (fun st (b : list (T * V) * list (T * V)) => upd st (fst b) (snd b)) i bs) in
  let H f := option_map snd (bin_run_g T tltb teqb f ostate0 bs) in
  R _ (gen_And_update AR T tltb teqb) (And_init T) = H vmin /\
  R _ (gen_Or_update AR T tltb teqb) (Or_init T) = H vmax /\
  R _ (gen_Implies_update AR T tltb teqb) (Implies_init T) = H (fun l r => vmax (neg l) r) /\
  R _ (gen_Iff_update AR T tltb teqb) (Iff_init T) = H (fun l r => neg (a1 AR Abs (a2 AR Sub l r))) /\
  R _ (gen_Xor_update AR T tltb teqb) (Xor_init T) = H (fun l r => a1 AR Abs (a2 AR Sub l r)) /\
  R _ (gen_Addition_update AR T tltb teqb) (Addition_init T) = H (a2 AR Add) /\
  R _ (gen_Subtraction_update AR T tltb teqb) (Subtraction_init T) = H (a2 AR Sub) /\
  R _ (gen_Division_update AR T tltb teqb) (Division_init T) = H (a2 AR Div) /\
  R _ (gen_Pow_update AR T tltb teqb) (Pow_init T) = H (a2 AR Pow) /\
  R _ (gen_Log_update AR T tltb teqb) (Log_init T) = H (a2 AR Log).
Proof.
  intros VS AR T tltb teqb bs R H. unfold R, H.
  assert (P : forall (St : Type) upd (abs : St -> @ostate VS T) f (i : St),
             (forall st b1 b2, option_map (fun p => (abs (fst p), snd p)) (upd st b1 b2) = bin_update_g T tltb teqb f (abs st) b1 b2) ->
             abs i = ostate0 ->
             option_map snd (run_g (fun st (b : list (T * V) * list (T * V)) => upd st (fst b) (snd b)) i bs)
             = option_map snd (bin_run_g T tltb teqb f ostate0 bs)).
  { intros St upd abs f i Hs Hi. rewrite <- Hi, <- (bin_class_run T tltb teqb upd abs f Hs).
    symmetry. apply omap_snd_sim. }
  repeat match goal with |- _ /\ _ => split end.
  - apply (P _ _ (And_abs T)); [apply gen_And_sim|reflexivity].
  - apply (P _ _ (Or_abs T)); [apply gen_Or_sim|reflexivity].
  - apply (P _ _ (Implies_abs T)); [apply gen_Implies_sim|reflexivity].
  - apply (P _ _ (Iff_abs T)); [apply gen_Iff_sim|reflexivity].
  - apply (P _ _ (Xor_abs T)); [apply gen_Xor_sim|reflexivity].
  - apply (P _ _ (Addition_abs T)); [apply gen_Addition_sim|reflexivity].
  - apply (P _ _ (Subtraction_abs T)); [apply gen_Subtraction_sim|reflexivity].
  - apply (P _ _ (Division_abs T)); [apply gen_Division_sim|reflexivity].
  - apply (P _ _ (Pow_abs T)); [apply gen_Pow_sim|reflexivity].
  - apply (P _ _ (Log_abs T)); [apply gen_Log_sim|reflexivity].
Qed.
Print Assumptions dense_online_gen_binary_runs.

(* The chunking theorem of the hand model (bin_run_correct_rep), carried over to the GENERATED binary classes on integer stamps:
   two strictly increasing non-empty signals fed in any sequence of batches (a batch may repeat the last sample already sent):
   no update() raises, the concatenated outputs have non-decreasing stamps inside the common domain and denote f point-wise. *)
Theorem dense_online_gen_binary_chunking :
  forall (VS : Val) (AR : Arith VS) (s1 s2 : dsig) (bs : list (dsig * dsig)),
  dsorted s1 -> dsorted s2 -> s1 <> [] -> s2 <> [] -> feeds [] [] bs s1 s2 ->
  let F := Z.min (lastT s1) (lastT s2) in
  let t0 := Z.max (start s1) (start s2) in
  let OK (St : Type) (upd : St -> dsig -> dsig -> option (St * dsig)) (i : St) (f : V -> V -> V) :=
    exists st outs,
      run_g (fun st (b : dsig * dsig) => upd st (fst b) (snd b)) i bs = Some (st, outs) /\
      wsorted (concat outs) /\
      (forall a v, In (a, v) (concat outs) -> t0 <= a <= F) /\
      (forall t, t0 <= t <= F -> den_opt (concat outs) t = Some (f (den s1 t) (den s2 t))) in
  OK _ (gen_And_update AR Z Z.ltb Z.eqb) (And_init Z) vmin /\
  OK _ (gen_Or_update AR Z Z.ltb Z.eqb) (Or_init Z) vmax /\
  OK _ (gen_Implies_update AR Z Z.ltb Z.eqb) (Implies_init Z) (fun l r => vmax (neg l) r) /\
  OK _ (gen_Iff_update AR Z Z.ltb Z.eqb) (Iff_init Z) (fun l r => neg (a1 AR Abs (a2 AR Sub l r))) /\
  OK _ (gen_Xor_update AR Z Z.ltb Z.eqb) (Xor_init Z) (fun l r => a1 AR Abs (a2 AR Sub l r)) /\
  OK _ (gen_Addition_update AR Z Z.ltb Z.eqb) (Addition_init Z) (a2 AR Add) /\
  OK _ (gen_Subtraction_update AR Z Z.ltb Z.eqb) (Subtraction_init Z) (a2 AR Sub) /\
  OK _ (gen_Division_update AR Z Z.ltb Z.eqb) (Division_init Z) (a2 AR Div) /\
  OK _ (gen_Pow_update AR Z Z.ltb Z.eqb) (Pow_init Z) (a2 AR Pow) /\
  OK _ (gen_Log_update AR Z Z.ltb Z.eqb) (Log_init Z) (a2 AR Log).
Proof.
  intros VS AR s1 s2 bs S1 S2 N1 N2 HF F t0 OK.
  assert (P : forall (St : Type) (upd : St -> dsig -> dsig -> option (St * dsig)) (i : St) (f : V -> V -> V),
             option_map snd (run_g (fun st (b : dsig * dsig) => upd st (fst b) (snd b)) i bs)
             = option_map snd (bin_run_g Z Z.ltb Z.eqb f ostate0 bs) -> OK St upd i f).
  { intros St upd i f E.
    destruct (bin_run_correct_rep f s1 s2 bs S1 S2 N1 N2 HF) as (st & outs & Er & Hw & Hin & Hv).
    unfold bin_run in Er. rewrite Er in E. cbn [option_map snd] in E.
    destruct (run_g (fun st (b : dsig * dsig) => upd st (fst b) (snd b)) i bs) as [[st' outs']|] eqn:E'; [|discriminate].
    cbn [option_map snd] in E. injection E as ->. exists st', outs.
    split; [exact E'|]. split; [exact Hw|]. split; [exact Hin|exact Hv]. }
  destruct (dense_online_gen_binary_runs VS AR Z Z.ltb Z.eqb bs) as (H1 & H2 & H3 & H4 & H5 & H6 & H7 & H8 & H9 & H10).
  cbv zeta in H1, H2, H3, H4, H5, H6, H7, H8, H9, H10.
  repeat match goal with |- _ /\ _ => split end; apply P;
    first [exact H1|exact H2|exact H3|exact H4|exact H5|exact H6|exact H7|exact H8|exact H9|exact H10].
Qed.
Print Assumptions dense_online_gen_binary_chunking.
