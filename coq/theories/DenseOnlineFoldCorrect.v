(* DenseOnlineFoldCorrect.v — the dense-time ONLINE operations of DenseOnlineFold.v (finite integer
   stamps) compute, whatever the cutting of the input(s) into batches, the expected function of time.
   [bs] is the list of batches of the successive update calls, [outs] the lists they return.

     unary point-wise   unary_run_correct    concat outs = the input with g applied to every value (NO hypothesis
                                             on the stamps): den_opt (concat outs) t = option_map g (den_opt s t)
                                             at EVERY t; same stamps
                        unary_run_raises     a value on which the function raises makes the run raise (None)
     once               once_run_correct     den_opt (concat outs) t = Some (zmax (den s) (start s) t)
     historically       hist_run_correct     ... zmin ...     at every t >= start s (the last stamp included, and
                                             beyond), None before; same stamps as the input; self.prev at the end
     always             alw_run_correct      the same as historically (the code is the same; dead code in rtamt)
     since              since_run_correct_w  inputs with NON-DECREASING stamps: the outputs have strictly increasing
                        since_run_correct    stamps, all in [t0, F), and
                                               den_opt (concat outs) t = Some (Sv (den s1) (den s2) t0 t)
                                             for t0 <= t < F,  t0 = max of the two first stamps, F = min of the two
                                             last stamps (F EXCLUDED: the value at F is only kept in self.last)
                        since_run_rhoZ       the same with rhoZ ... (Since (Var 0) (Var 1))
                        since_last_defect    self.last (appended by update_final) is NOT the since value at F
     chunking           unary_run_chunking, fold_run_chunking, since_run_chunking: two cuttings never disagree
     repeated samples   once_run_correct_rep, hist_run_correct_rep, since_run_correct_rep: batches that start by
                        repeating the last sample already sent (raw stream with identical consecutive samples)
     constant, variable const_run_correct, var_update_correct

   Inputs: strictly increasing ([dsorted]) non-empty lists, cut into batches in any way
   (concat bs = s; for since the two inputs are cut independently, one pair of batches per call). *)
From Coq Require Import List Bool Arith ZArith Lia ZifyBool.
From RV Require Import Val Syntax Rho Online Dense DenseSem DenseFacts DenseMerge DenseMergeCorrect
  DenseOnlineMerge DenseOnlineMergeCorrect DenseEval DenseEvalCorrect DenseSinceCorrect DenseOnlineFold.
Import ListNotations.
Local Open Scope Z_scope.

(* ================================================================== *)
(* unary point-wise operations                                         *)
(* ================================================================== *)
Section Unary.
Context {VS : Val}.

Definition gmap (g : V -> V) (s : dsig) : dsig := map (fun p => (fst p, g (snd p))) s.

Lemma gmap_app g (a b : dsig) : gmap g (a ++ b) = gmap g a ++ gmap g b.
Proof. apply map_app. Qed.
Lemma gmap_stamps g (s : dsig) : map fst (gmap g s) = map fst s.
Proof. unfold gmap. rewrite map_map. reflexivity. Qed.
Lemma gmap_concat g (bs : list dsig) : concat (map (gmap g) bs) = gmap g (concat bs).
Proof. unfold gmap. rewrite concat_map. reflexivity. Qed.

(* the denotation commutes with a point-wise map: no hypothesis on the stamps *)
Lemma den_gmap g (s : dsig) t : den_opt (gmap g s) t = option_map g (den_opt s t).
Proof.
  induction s as [|[a v] r IH]; [reflexivity|].
  cbn [gmap map fst snd den_opt]. fold (gmap g r). rewrite IH.
  destruct (a <=? t); [|reflexivity]. destruct (den_opt r t); reflexivity.
Qed.

Lemma dsorted_same_stamps (s s' : dsig) : map fst s = map fst s' -> dsorted s' -> dsorted s.
Proof.
  revert s'. induction s as [|[a v] r IH]; intros [|[a' v'] r'] E H; try discriminate; [exact I|].
  cbn [map fst] in E. injection E as -> E. destruct H as [Hh Hs]. split; [|apply (IH r'); assumption].
  destruct r as [|[b w] q], r' as [|[b' w'] q']; try discriminate; [exact I|].
  cbn [map fst] in E. injection E as -> _. exact Hh.
Qed.

Lemma unary_loop_total f g (batch : dsig) :
  (forall a v, In (a, v) batch -> f v = Some (g v)) -> unary_loop Z f batch = Some (gmap g batch).
Proof.
  induction batch as [|[a v] r IH]; intros H; [reflexivity|].
  cbn [unary_loop]. rewrite (H a v) by (left; reflexivity).
  rewrite IH by (intros a' v' Hin; apply (H a' v'); right; exact Hin). reflexivity.
Qed.
Lemma unary_loop_raises f (batch : dsig) :
  (exists a v, In (a, v) batch /\ f v = None) -> unary_loop Z f batch = None.
Proof.
  induction batch as [|[a v] r IH]; intros (a0 & v0 & Hin & Hf); [destruct Hin|].
  cbn [unary_loop]. destruct Hin as [Hin|Hin].
  - injection Hin as -> ->. rewrite Hf. reflexivity.
  - destruct (f v); [|reflexivity]. rewrite IH by (exists a0, v0; auto). reflexivity.
Qed.

Lemma unary_run_total f g (bs : list dsig) :
  (forall a v, In (a, v) (concat bs) -> f v = Some (g v)) ->
  unary_run Z f unary_init bs = Some (unary_init, map (gmap g) bs).
Proof.
  unfold unary_run. induction bs as [|b bs IH]; intros H; [reflexivity|].
  cbn [run_g concat map] in *. unfold unary_update at 1.
  rewrite (unary_loop_total f g b) by (intros a v Hin; apply (H a v); apply in_or_app; left; exact Hin).
  rewrite IH by (intros a v Hin; apply (H a v); apply in_or_app; right; exact Hin). reflexivity.
Qed.

(* every batch sequence: the outputs, concatenated, are the input with g applied to the values;
   hence the same stamps and, at EVERY tick, g of the input's value (None where the input has none) *)
Theorem unary_run_correct f g (s : dsig) (bs : list dsig) :
  concat bs = s -> (forall a v, In (a, v) s -> f v = Some (g v)) ->
  exists outs,
    unary_run Z f unary_init bs = Some (unary_init, outs) /\
    concat outs = gmap g s /\
    map fst (concat outs) = map fst s /\
    (dsorted s -> dsorted (concat outs)) /\
    (forall t, den_opt (concat outs) t = option_map g (den_opt s t)).
Proof.
  intros E H. subst s. exists (map (gmap g) bs). split; [apply unary_run_total; exact H|].
  rewrite gmap_concat. split; [reflexivity|]. split; [apply gmap_stamps|]. split.
  - apply dsorted_same_stamps. apply gmap_stamps.
  - apply den_gmap.
Qed.

Corollary unary_run_den f g (s : dsig) (bs : list dsig) :
  concat bs = s -> s <> [] -> (forall a v, In (a, v) s -> f v = Some (g v)) ->
  exists outs, unary_run Z f unary_init bs = Some (unary_init, outs) /\
               forall t, start s <= t -> den (concat outs) t = g (den s t).
Proof.
  intros E Hne H. destruct (unary_run_correct f g s bs E H) as (outs & Er & _ & _ & _ & Hd).
  exists outs. split; [exact Er|]. intros t Ht. unfold den. rewrite Hd.
  destruct s as [|[p v] r]; [congruence|]. cbn [start] in Ht. pose proof (den_from_start p v r t Ht) as Hn.
  destruct (den_opt ((p, v) :: r) t); [reflexivity|congruence].
Qed.

(* a value on which the function raises makes the whole run raise *)
Theorem unary_run_raises f (bs : list dsig) :
  (exists a v, In (a, v) (concat bs) /\ f v = None) -> unary_run Z f unary_init bs = None.
Proof.
  unfold unary_run. induction bs as [|b bs IH]; intros (a & v & Hin & Hf); [destruct Hin|].
  cbn [run_g concat] in *. unfold unary_update at 1. apply in_app_or in Hin as [Hin|Hin].
  - rewrite unary_loop_raises by (exists a, v; auto). reflexivity.
  - destruct (unary_loop Z f b); [|reflexivity]. rewrite IH by (exists a, v; auto). reflexivity.
Qed.

Corollary unary_run_chunking f g (s : dsig) (bs bs' : list dsig) :
  concat bs = s -> concat bs' = s -> (forall a v, In (a, v) s -> f v = Some (g v)) ->
  exists outs outs', unary_run Z f unary_init bs = Some (unary_init, outs) /\
                     unary_run Z f unary_init bs' = Some (unary_init, outs') /\ concat outs = concat outs'.
Proof.
  intros E E' H. destruct (unary_run_correct f g s bs E H) as (outs & Er & Ec & _).
  destruct (unary_run_correct f g s bs' E' H) as (outs' & Er' & Ec' & _).
  exists outs, outs'. split; [exact Er|]. split; [exact Er'|]. rewrite Ec, Ec'. reflexivity.
Qed.

(* the instances of DenseOnlineFold.v *)
Lemma not_fn_total v : not_fn v = Some (neg v). Proof. reflexivity. Qed.
Lemma total_fn_total (AR : Arith VS) o v : total_fn AR o v = Some (a1 AR o v). Proof. reflexivity. Qed.
Lemma sqrt_fn_cases (AR : Arith VS) v :
  sqrt_fn AR v = if ltb v (azero AR) then None else Some (a1 AR Sqrt v).
Proof. reflexivity. Qed.

End Unary.

(* ================================================================== *)
(* once / historically / always                                        *)
(* ================================================================== *)
Section FoldChunks.
Context {VS : Val}.
Variable g : V -> V -> V.

Lemma fold_loop_app prev (b1 b2 : dsig) :
  fold_loop Z g prev (b1 ++ b2) =
  (fst (fold_loop Z g (fst (fold_loop Z g prev b1)) b2),
   snd (fold_loop Z g prev b1) ++ snd (fold_loop Z g (fst (fold_loop Z g prev b1)) b2)).
Proof.
  revert prev. induction b1 as [|[a v] r IH]; intros prev.
  - cbn [app fold_loop fst snd]. destruct (fold_loop Z g prev b2); reflexivity.
  - cbn [app fold_loop]. rewrite IH. destruct (fold_loop Z g (g v prev) r) as [p1 o1]. cbn [fst snd app]. reflexivity.
Qed.

(* a run is one scan of the concatenation *)
Lemma fold_run_concat : forall (bs : list dsig) st,
  exists st' outs, run_g (fold_update Z g) st bs = Some (st', outs) /\
                   fprev st' = fst (fold_loop Z g (fprev st) (concat bs)) /\
                   concat outs = snd (fold_loop Z g (fprev st) (concat bs)).
Proof.
  induction bs as [|b bs IH]; intros st.
  - exists st, []. split; [reflexivity|]. split; reflexivity.
  - cbn [run_g concat]. unfold fold_update at 1. destruct (fold_loop Z g (fprev st) b) as [p1 o1] eqn:E1.
    destruct (IH {| fprev := p1 |}) as (st' & outs & Er & Ep & Eo). rewrite Er.
    exists st', (o1 :: outs). split; [reflexivity|]. rewrite fold_loop_app, E1. cbn [fst snd fprev concat] in *.
    split; [exact Ep|]. rewrite Eo. reflexivity.
Qed.

(* the scan against a window operator W (zmax / zmin) *)
Variable W : (Z -> V) -> Z -> Z -> V.
Hypothesis Wsnoc : forall G lo hi, lo <= hi -> W G lo hi = g (G hi) (W G lo (hi - 1)).
Hypothesis Wconst : forall G lo A B, lo <= A <= B -> (forall u, A <= u <= B -> G u = G A) -> W G lo B = W G lo A.

Lemma fold_scan (Fn : Z -> V) t0 : forall (l : dsig) prev,
  dsorted l -> l <> [] -> t0 <= start l ->
  (forall t, start l <= t -> den_opt l t = Some (Fn t)) ->
  prev = W Fn t0 (start l - 1) ->
  (forall t, start l <= t -> den_opt (snd (fold_loop Z g prev l)) t = Some (W Fn t0 t)) /\
  fst (fold_loop Z g prev l) = W Fn t0 (lastT l) /\
  map fst (snd (fold_loop Z g prev l)) = map fst l.
Proof.
  induction l as [|[p v] r IH]; intros prev Hs Hne H0 HF Hp; [congruence|].
  cbn [start] in *. cbn [fold_loop].
  assert (Fp : Fn p = v).
  { pose proof (HF p ltac:(lia)) as Hd. rewrite (den_at_start _ _ _ Hs) in Hd. congruence. }
  assert (Eo : g v prev = W Fn t0 p) by (rewrite (Wsnoc Fn t0 p H0), Fp, Hp; reflexivity).
  destruct r as [|[c w] r'].
  - cbn [fold_loop fst snd map]. split; [|split; [exact Eo|reflexivity]].
    intros t Ht. rewrite den_single by exact Ht. rewrite Eo. f_equal. symmetry. apply Wconst; [lia|].
    intros u Hu. specialize (HF u ltac:(lia)). rewrite den_single in HF by lia. congruence.
  - assert (Pc : p < c) by (destruct Hs as [Pc _]; exact Pc).
    assert (Hc : forall u, p <= u < c -> Fn u = Fn p).
    { intros u Hu. specialize (HF u ltac:(lia)). rewrite den_head in HF by lia. congruence. }
    assert (Eo' : g v prev = W Fn t0 (c - 1)).
    { rewrite Eo. symmetry. apply Wconst; [lia|]. intros u Hu. apply Hc. lia. }
    assert (N' : (c, w) :: r' <> []) by discriminate.
    assert (H0' : t0 <= start ((c, w) :: r')) by (cbn [start]; lia).
    assert (HF' : forall t, start ((c, w) :: r') <= t -> den_opt ((c, w) :: r') t = Some (Fn t)).
    { intros t Ht. cbn [start] in Ht. rewrite <- (HF t ltac:(lia)). symmetry. apply DenseOnlineMergeCorrect.den_tail; assumption. }
    destruct (IH (g v prev) (dsorted_tl _ _ Hs) N' H0' HF' Eo') as (D & Ef & St).
    destruct (fold_loop Z g (g v prev) ((c, w) :: r')) as [pf out]. cbn [fst snd start] in *.
    split; [|split].
    + intros t Ht. rewrite den_opt_cons. destruct (p <=? t) eqn:E; [|lia].
      destruct (Z.lt_ge_cases t c) as [Hlt|Hge].
      * destruct out as [|[c' x] out']; [discriminate|]. cbn [map fst] in St. injection St as -> _.
        rewrite (den_before c x out' t Hlt). rewrite Eo. f_equal. symmetry. apply Wconst; [lia|].
        intros u Hu. apply Hc. lia.
      * rewrite (D t Hge). reflexivity.
    + rewrite lastT_cons. exact Ef.
    + cbn [map fst]. rewrite St. reflexivity.
Qed.

Lemma fold_run_spec (s : dsig) (bs : list dsig) init :
  dsorted s -> s <> [] -> concat bs = s -> init = W (den s) (start s) (start s - 1) ->
  exists st outs,
    run_g (fold_update Z g) {| fprev := init |} bs = Some (st, outs) /\
    map fst (concat outs) = map fst s /\
    dsorted (concat outs) /\
    (forall t, start s <= t -> den_opt (concat outs) t = Some (W (den s) (start s) t)) /\
    (forall t, t < start s -> den_opt (concat outs) t = None) /\
    fprev st = W (den s) (start s) (lastT s).
Proof.
  intros Hs Hne E Hi. destruct (fold_run_concat bs {| fprev := init |}) as (st & outs & Er & Ep & Eo).
  cbn [fprev] in *. rewrite E in *.
  destruct (fold_scan (den s) (start s) s init Hs Hne ltac:(lia)) as (D & Ef & St).
  { intros t Ht. unfold den. destruct s as [|[p v] r]; [congruence|]. cbn [start] in Ht.
    pose proof (den_from_start p v r t Ht) as Hn. destruct (den_opt ((p, v) :: r) t); [reflexivity|congruence]. }
  { exact Hi. }
  exists st, outs. rewrite Eo. split; [exact Er|]. split; [exact St|].
  split; [apply (dsorted_same_stamps _ s St Hs)|]. split; [exact D|]. split; [|rewrite Ep; exact Ef].
  intros t Ht. destruct s as [|[p v] r]; [congruence|].
  destruct (snd (fold_loop Z g init ((p, v) :: r))) as [|[p' x] out']; [reflexivity|].
  cbn [map fst] in St. injection St as -> _. apply den_before. exact Ht.
Qed.

End FoldChunks.

Section OnceHist.
Context {VS : Val}.

Lemma zmax_empty (G : Z -> V) lo : zmax G lo (lo - 1) = bot.
Proof. unfold zmax, zrange. replace (Z.to_nat (lo - 1 - lo + 1)) with 0%nat by lia. reflexivity. Qed.
Lemma zmin_empty (G : Z -> V) lo : zmin G lo (lo - 1) = top.
Proof. unfold zmin, zrange. replace (Z.to_nat (lo - 1 - lo + 1)) with 0%nat by lia. reflexivity. Qed.
Lemma zmax_snoc' (G : Z -> V) lo hi : lo <= hi -> zmax G lo hi = vmax (G hi) (zmax G lo (hi - 1)).
Proof. intros H. rewrite zmax_snoc by exact H. apply vmax_comm. Qed.
Lemma zmin_snoc' (G : Z -> V) lo hi : lo <= hi -> zmin G lo hi = vmin (G hi) (zmin G lo (hi - 1)).
Proof. intros H. rewrite zmin_snoc by exact H. apply vmin_comm. Qed.

(* once: the concatenated outputs have the stamps of the input and denote, at every tick t from the
   first stamp on (the last stamp included, and beyond it: the last value is held on both sides),
   the maximum of the input over [start s, t]; nothing before the first stamp; the value kept in
   self.prev is the maximum over the whole known input *)
Theorem once_run_correct (s : dsig) (bs : list dsig) :
  dsorted s -> s <> [] -> concat bs = s ->
  exists st outs,
    once_run Z once_init bs = Some (st, outs) /\
    map fst (concat outs) = map fst s /\
    dsorted (concat outs) /\
    (forall t, start s <= t -> den_opt (concat outs) t = Some (zmax (den s) (start s) t)) /\
    (forall t, t < start s -> den_opt (concat outs) t = None) /\
    fprev st = zmax (den s) (start s) (lastT s).
Proof.
  intros Hs Hne E. apply (fold_run_spec vmax zmax zmax_snoc' zmax_tail_const s bs bot Hs Hne E).
  symmetry. apply zmax_empty.
Qed.

Theorem hist_run_correct (s : dsig) (bs : list dsig) :
  dsorted s -> s <> [] -> concat bs = s ->
  exists st outs,
    hist_run Z hist_init bs = Some (st, outs) /\
    map fst (concat outs) = map fst s /\
    dsorted (concat outs) /\
    (forall t, start s <= t -> den_opt (concat outs) t = Some (zmin (den s) (start s) t)) /\
    (forall t, t < start s -> den_opt (concat outs) t = None) /\
    fprev st = zmin (den s) (start s) (lastT s).
Proof.
  intros Hs Hne E. apply (fold_run_spec vmin zmin zmin_snoc' zmin_tail_const s bs top Hs Hne E).
  symmetry. apply zmin_empty.
Qed.

(* always_operation.py is the text of historically_operation.py: the ONLINE 'always' is the minimum over the PAST *)
Theorem alw_run_correct (s : dsig) (bs : list dsig) :
  dsorted s -> s <> [] -> concat bs = s ->
  exists st outs,
    alw_run Z alw_init bs = Some (st, outs) /\
    map fst (concat outs) = map fst s /\
    dsorted (concat outs) /\
    (forall t, start s <= t -> den_opt (concat outs) t = Some (zmin (den s) (start s) t)) /\
    (forall t, t < start s -> den_opt (concat outs) t = None) /\
    fprev st = zmin (den s) (start s) (lastT s).
Proof. exact (hist_run_correct s bs). Qed.

(* two cuttings of the same input return, concatenated, the same list *)
Theorem fold_run_chunking g (bs bs' : list dsig) st :
  concat bs = concat bs' ->
  exists st1 outs st2 outs',
    run_g (fold_update Z g) st bs = Some (st1, outs) /\ run_g (fold_update Z g) st bs' = Some (st2, outs') /\
    concat outs = concat outs' /\ fprev st1 = fprev st2.
Proof.
  intros E. destruct (fold_run_concat g bs st) as (st1 & outs & Er & Ep & Eo).
  destruct (fold_run_concat g bs' st) as (st2 & outs' & Er' & Ep' & Eo').
  exists st1, outs, st2, outs'. split; [exact Er|]. split; [exact Er'|]. rewrite Eo, Eo', Ep, Ep', E. split; reflexivity.
Qed.

End OnceHist.

(* ================================================================== *)
(* lists with non-decreasing stamps (a batch may repeat a stamp)        *)
(* ================================================================== *)
Section WeaklySorted.
Context {VS : Val}.

Lemma wsorted_tl x (l : dsig) : wsorted (x :: l) -> wsorted l.
Proof. destruct x as [a v]. intros [_ H]. exact H. Qed.
Lemma wsorted_app_r (pre l : dsig) : wsorted (pre ++ l) -> wsorted l.
Proof. induction pre as [|x pre IH]; intros H; [exact H|]. apply IH. apply (wsorted_tl x). exact H. Qed.
Lemma wsorted_app_l (a b : dsig) : wsorted (a ++ b) -> wsorted a.
Proof.
  induction a as [|[p v] a IH]; intros H; [exact I|]. cbn [app] in H. destruct H as [Hh Hs]. split; [|apply IH; exact Hs].
  destruct a as [|[c w] a']; [exact I|exact Hh].
Qed.
Lemma wsorted_app_le (a b : dsig) : wsorted (a ++ b) -> forall x v y w, In (x, v) a -> In (y, w) b -> x <= y.
Proof.
  induction a as [|[p u] a IH]; intros H x v y w Ha Hb; [destruct Ha|].
  cbn [app] in H. destruct Ha as [Ha|Ha].
  - injection Ha as <- _. apply (wsorted_head _ _ _ H y w). apply in_or_app. right. exact Hb.
  - apply (IH (wsorted_tl _ _ H) x v y w Ha Hb).
Qed.
Lemma wsorted_le_last (l : dsig) : wsorted l -> forall a v, In (a, v) l -> a <= lastT l.
Proof.
  induction l as [|[p w] l IH]; intros Hs a v Hin; [destruct Hin|].
  destruct l as [|[c w'] l'].
  - destruct Hin as [Hin|[]]. injection Hin as <- <-. unfold lastT. cbn [last fst]. lia.
  - rewrite lastT_cons. destruct Hs as [Hh Hs]. destruct Hin as [Hin|Hin].
    + injection Hin as <- <-. pose proof (IH Hs c w' (or_introl eq_refl)). lia.
    + apply (IH Hs a v Hin).
Qed.
Lemma in_last (l : dsig) : l <> [] -> In (last l (0, bot)) l.
Proof.
  induction l as [|x l IH]; intros Hne; [congruence|]. destruct l as [|y l']; [left; reflexivity|].
  right. apply IH. discriminate.
Qed.
Lemma lastT_app_ge_w (a b : dsig) : wsorted (a ++ b) -> a <> [] -> lastT a <= lastT (a ++ b).
Proof.
  intros H Na. pose proof (in_last a Na) as Hin. destruct (last a (0, bot)) as [p v] eqn:E.
  unfold lastT at 1. rewrite E. cbn [fst]. apply (wsorted_le_last _ H p v). apply in_or_app. left. exact Hin.
Qed.
(* the later sample wins, also when p = c *)
Lemma den_tail_w p v c w r t : p <= c -> c <= t -> den_opt ((p, v) :: (c, w) :: r) t = den_opt ((c, w) :: r) t.
Proof.
  intros Hp Hc. pose proof (den_from_start c w r t Hc) as Hn. rewrite (den_opt_cons p v).
  destruct (p <=? t) eqn:E; [|lia]. destruct (den_opt ((c, w) :: r) t); [reflexivity|congruence].
Qed.
Lemma den_suffix_w (s l : dsig) : wsorted s -> suffix l s -> l <> [] -> forall t, start l <= t -> den_opt s t = den_opt l t.
Proof.
  intros Hs [pre ->] Hne t Ht. rewrite (den_app_ws _ _ _ Hs).
  destruct l as [|[p v] r]; [congruence|]. cbn [start] in Ht. pose proof (den_from_start p v r t Ht) as Hn.
  destruct (den_opt ((p, v) :: r) t); [reflexivity|congruence].
Qed.
Lemma den_app_prefix_w (a b : dsig) t : wsorted (a ++ b) -> a <> [] -> t < lastT a -> den_opt (a ++ b) t = den_opt a t.
Proof.
  intros H Na Ht. rewrite (den_app_ws _ _ _ H). destruct b as [|[q u] b']; [reflexivity|].
  pose proof (in_last a Na) as Hin. destruct (last a (0, bot)) as [p v] eqn:E.
  assert (p <= q) by (apply (wsorted_app_le _ _ H p v q u Hin); left; reflexivity).
  unfold lastT in Ht. rewrite E in Ht. cbn [fst] in Ht. rewrite (den_before q u b' t) by lia. reflexivity.
Qed.
(* a sample written twice denotes what it denotes once *)
Lemma den_opt_dup (pre post : dsig) x t : den_opt (pre ++ x :: x :: post) t = den_opt (pre ++ x :: post) t.
Proof.
  induction pre as [|[a v] pre IH]; cbn [app].
  - destruct x as [a v]. rewrite !(den_opt_cons a v). destruct (a <=? t); [|reflexivity]. destruct (den_opt post t); reflexivity.
  - rewrite !(den_opt_cons a v), IH. reflexivity.
Qed.

End WeaklySorted.

(* ================================================================== *)
(* since: the loop                                                     *)
(* ================================================================== *)
Section SinceLoop.
Context {VS : Val}.
Variables (F1 F2 : Z -> V) (t0 : Z).
Notation Sv := (Sv F1 F2 t0).

(* the list l describes the function F between its first and its last stamp *)
Definition agree (F : Z -> V) (l : dsig) : Prop :=
  forall t, start l <= t < lastT l -> den_opt l t = Some (F t).

Lemma agree_head F p v c w r :
  wsorted ((p, v) :: (c, w) :: r) -> agree F ((p, v) :: (c, w) :: r) -> forall t, p <= t < c -> F t = v.
Proof.
  intros Hs Ha t Ht.
  assert (Hc : c <= lastT ((p, v) :: (c, w) :: r)) by (apply (wsorted_le_last _ Hs c w); right; left; reflexivity).
  specialize (Ha t ltac:(cbn [start]; lia)). rewrite den_head in Ha by lia. congruence.
Qed.
Lemma agree_tl F p v c w r :
  wsorted ((p, v) :: (c, w) :: r) -> agree F ((p, v) :: (c, w) :: r) -> agree F ((c, w) :: r).
Proof.
  intros Hs Ha t Ht. cbn [start] in Ht. destruct Hs as [Pc _].
  rewrite <- (Ha t); [symmetry; apply den_tail_w; lia|]. rewrite lastT_cons. cbn [start]. lia.
Qed.

Lemma pymax_Z a b : pymax Z Z.ltb a b = Z.max a b.
Proof. unfold pymax. destruct (a <? b) eqn:E; lia. Qed.
Lemma pymin_Z a b : pymin Z Z.ltb a b = Z.min a b.
Proof. unfold pymin. destruct (b <? a) eqn:E; lia. Qed.
Lemma sval_step x y prev : sval x y prev = step_val (x, y) prev.
Proof. reflexivity. Qed.

(* the loop invariant: l1, l2 are what is left of the two lists, prev is self.prev, O is everything
   returned so far (previous calls included); tm l1 l2 is the front up to which O is complete *)
Record LI (l1 l2 : dsig) (prev : V) (O : dsig) : Prop := {
  li_s1 : wsorted l1;
  li_s2 : wsorted l2;
  li_n1 : l1 <> [];
  li_n2 : l2 <> [];
  li_a1 : agree F1 l1;
  li_a2 : agree F2 l2;
  li_t0 : t0 <= tm l1 l2;
  li_prev : prev = if tm l1 l2 =? t0 then bot else Sv (tm l1 l2 - 1);
  li_os : dsorted O;
  li_in : forall a v, In (a, v) O -> t0 <= a < tm l1 l2 /\ a < lastT l1 /\ a < lastT l2;
  li_den : forall t, t0 <= t < tm l1 l2 -> den_opt O t = Some (Sv t)
}.

(* an emitted segment [lo, hi) on which both operands are constant *)
Lemma Sv_on_segment lo hi v1 v2 prev :
  t0 <= lo -> lo < hi ->
  (forall t, lo <= t < hi -> F1 t = v1) -> (forall t, lo <= t < hi -> F2 t = v2) ->
  prev = (if lo =? t0 then bot else Sv (lo - 1)) ->
  forall t, lo <= t < hi -> Sv t = step_val (v1, v2) prev.
Proof.
  intros H0 Hlt C1 C2 Hp t Ht.
  assert (E0 : Sv lo = step_val (v1, v2) prev).
  { destruct (lo =? t0) eqn:E.
    - assert (lo = t0) by lia. subst lo. rewrite Sv_first, (C1 t0), (C2 t0), Hp by lia. reflexivity.
    - rewrite Sv_step by lia. rewrite (C1 lo), (C2 lo), Hp by lia. reflexivity. }
  replace t with (lo + Z.of_nat (Z.to_nat (t - lo))) by lia.
  apply (Sv_segment F1 F2 t0 (v1, v2) lo (step_val (v1, v2) prev) H0 E0).
  - f_equal. rewrite Hp. destruct (Z.eq_dec lo t0) as [->|Hne]; [rewrite Z.eqb_refl; reflexivity|].
    destruct (lo =? t0) eqn:E; [lia|reflexivity].
  - intros u Hu. cbn [fst snd]. split; [apply C1|apply C2]; lia.
Qed.

(* one iteration that emits: the heads are [p1,c1) and [p2,c2), the new lists l1', l2' have the front hi *)
Lemma li_emit p1 v1 c1 w1 r1 p2 v2 c2 w2 r2 prev O l1' l2' :
  LI ((p1, v1) :: (c1, w1) :: r1) ((p2, v2) :: (c2, w2) :: r2) prev O ->
  Z.max p1 p2 < Z.min c1 c2 ->
  (l1' = (c1, w1) :: r1 \/ l1' = (p1, v1) :: (c1, w1) :: r1) ->
  (l2' = (c2, w2) :: r2 \/ l2' = (p2, v2) :: (c2, w2) :: r2) ->
  tm l1' l2' = Z.min c1 c2 ->
  LI l1' l2' (step_val (v1, v2) prev) (O ++ [(Z.max p1 p2, step_val (v1, v2) prev)]).
Proof.
  intros [S1 S2 N1 N2 A1 A2 T0 Hp Hos Hin Hden] Hlt H1 H2 Etm.
  unfold tm in T0, Hp, Hin, Hden. cbn [start] in T0, Hp, Hin, Hden.
  set (lo := Z.max p1 p2) in *. set (hi := Z.min c1 c2) in *. set (val := step_val (v1, v2) prev).
  assert (P1 : p1 < c1) by lia.
  assert (P2 : p2 < c2) by lia.
  assert (C1 : forall t, lo <= t < hi -> F1 t = v1) by (intros t Ht; apply (agree_head _ _ _ _ _ _ S1 A1); lia).
  assert (C2 : forall t, lo <= t < hi -> F2 t = v2) by (intros t Ht; apply (agree_head _ _ _ _ _ _ S2 A2); lia).
  assert (Seg : forall t, lo <= t < hi -> Sv t = val) by (apply Sv_on_segment; assumption).
  assert (L1 : lastT l1' = lastT ((p1, v1) :: (c1, w1) :: r1)) by (destruct H1 as [-> | ->]; reflexivity).
  assert (L2 : lastT l2' = lastT ((p2, v2) :: (c2, w2) :: r2)) by (destruct H2 as [-> | ->]; reflexivity).
  assert (K1 : c1 <= lastT ((p1, v1) :: (c1, w1) :: r1)) by (apply (wsorted_le_last _ S1 c1 w1); right; left; reflexivity).
  assert (K2 : c2 <= lastT ((p2, v2) :: (c2, w2) :: r2)) by (apply (wsorted_le_last _ S2 c2 w2); right; left; reflexivity).
  assert (Hb : before O lo) by (intros a v Hi; apply (Hin a v Hi)).
  constructor.
  - destruct H1 as [-> | ->]; [apply (wsorted_tl _ _ S1)|exact S1].
  - destruct H2 as [-> | ->]; [apply (wsorted_tl _ _ S2)|exact S2].
  - destruct H1 as [-> | ->]; discriminate.
  - destruct H2 as [-> | ->]; discriminate.
  - destruct H1 as [-> | ->]; [apply (agree_tl _ _ _ _ _ _ S1 A1)|exact A1].
  - destruct H2 as [-> | ->]; [apply (agree_tl _ _ _ _ _ _ S2 A2)|exact A2].
  - rewrite Etm. lia.
  - rewrite Etm. destruct (hi =? t0) eqn:E; [lia|]. symmetry. apply Seg. lia.
  - apply dsorted_snoc; assumption.
  - rewrite Etm, L1, L2. intros a v Hi. apply in_app_or in Hi as [Hi|[Hi|[]]].
    + pose proof (Hin a v Hi). lia.
    + injection Hi as <- _. lia.
  - rewrite Etm. intros t Ht. rewrite den_snoc by (intros b w Hi; pose proof (Hb b w Hi); lia).
    destruct (lo <=? t) eqn:E.
    + f_equal. symmetry. apply Seg. lia.
    + apply Hden. lia.
Qed.

(* one iteration that does not emit: the front does not move *)
Lemma li_skip l1 l2 prev O l1' l2' :
  LI l1 l2 prev O ->
  wsorted l1' -> wsorted l2' -> l1' <> [] -> l2' <> [] -> agree F1 l1' -> agree F2 l2' ->
  lastT l1' = lastT l1 -> lastT l2' = lastT l2 -> tm l1' l2' = tm l1 l2 ->
  LI l1' l2' prev O.
Proof.
  intros [S1 S2 N1 N2 A1 A2 T0 Hp Hos Hin Hden] S1' S2' N1' N2' A1' A2' L1 L2 Etm.
  constructor; try assumption; rewrite ?Etm, ?L1, ?L2; assumption.
Qed.

Lemma since_loop_short fuel (a b : dsig) prev la :
  (length a <= 1 \/ length b <= 1)%nat -> since_loop Z Z.ltb fuel a b prev la = (a, b, prev, la, []).
Proof.
  intros H. destruct fuel as [|fuel]; [reflexivity|]. cbn [since_loop].
  destruct a as [|[p1 v1] [|[c1 w1] r1]]; try reflexivity.
  destruct b as [|[p2 v2] [|[c2 w2] r2]]; try reflexivity.
  cbn [length] in H. lia.
Qed.

Lemma since_loop_correct : forall fuel l1 l2 prev la O,
  (length l1 + length l2 <= fuel + 2)%nat -> LI l1 l2 prev O ->
  exists l1' l2' prev' la' out,
    since_loop Z Z.ltb fuel l1 l2 prev la = (l1', l2', prev', la', out) /\
    LI l1' l2' prev' (O ++ out) /\ (length l1' = 1 \/ length l2' = 1)%nat /\
    suffix l1' l1 /\ suffix l2' l2.
Proof.
  induction fuel as [|fuel IH]; intros l1 l2 prev la O Hlen H;
    pose proof (li_n1 _ _ _ _ H) as N1; pose proof (li_n2 _ _ _ _ H) as N2.
  - exists l1, l2, prev, la, []. split; [reflexivity|]. rewrite app_nil_r. split; [exact H|].
    split; [|split; apply suffix_refl].
    destruct l1 as [|x1 [|y1 q1]], l2 as [|x2 [|y2 q2]]; cbn [length] in *; try congruence; lia.
  - destruct l1 as [|[p1 v1] l1]; [congruence|]. destruct l2 as [|[p2 v2] l2]; [congruence|].
    destruct l1 as [|[c1 w1] r1].
    { exists [(p1, v1)], ((p2, v2) :: l2), prev, la, []. split; [apply since_loop_short; left; cbn [length]; lia|].
      rewrite app_nil_r. split; [exact H|]. split; [left; reflexivity|split; apply suffix_refl]. }
    destruct l2 as [|[c2 w2] r2].
    { exists ((p1, v1) :: (c1, w1) :: r1), [(p2, v2)], prev, la, []. split; [apply since_loop_short; right; cbn [length]; lia|].
      rewrite app_nil_r. split; [exact H|]. split; [right; reflexivity|split; apply suffix_refl]. }
    pose proof (li_s1 _ _ _ _ H) as S1. pose proof (li_s2 _ _ _ _ H) as S2.
    pose proof (li_a1 _ _ _ _ H) as A1. pose proof (li_a2 _ _ _ _ H) as A2.
    assert (P1 : p1 <= c1) by (destruct S1 as [P1 _]; exact P1).
    assert (P2 : p2 <= c2) by (destruct S2 as [P2 _]; exact P2).
    cbn [since_loop]. rewrite pymax_Z, pymin_Z, !sval_step.
    set (L1 := (p1, v1) :: (c1, w1) :: r1) in *. set (L2 := (p2, v2) :: (c2, w2) :: r2) in *.
    (* the lists after the deletion(s) *)
    assert (Hpop : exists l1' l2' lv,
              (if c1 <? c2 then (step_val (w1, v2) prev, (c1, w1) :: r1, L2)
               else if c2 <? c1 then (step_val (v1, w2) prev, L1, (c2, w2) :: r2)
               else (step_val (w1, w2) prev, (c1, w1) :: r1, (c2, w2) :: r2)) = (lv, l1', l2') /\
              (l1' = (c1, w1) :: r1 \/ l1' = L1) /\ (l2' = (c2, w2) :: r2 \/ l2' = L2) /\
              (length l1' + length l2' < length L1 + length L2)%nat /\
              suffix l1' L1 /\ suffix l2' L2 /\
              (Z.max p1 p2 < Z.min c1 c2 -> tm l1' l2' = Z.min c1 c2) /\
              (Z.min c1 c2 <= Z.max p1 p2 -> tm l1' l2' = Z.max p1 p2)).
    { assert (X1 : suffix ((c1, w1) :: r1) L1) by (exists [(p1, v1)]; reflexivity).
      assert (X2 : suffix ((c2, w2) :: r2) L2) by (exists [(p2, v2)]; reflexivity).
      destruct (c1 <? c2) eqn:E1; [|destruct (c2 <? c1) eqn:E2]; eexists _, _, _; (split; [reflexivity|]).
      - split; [left; reflexivity|]. split; [right; reflexivity|]. split; [unfold L1; cbn [length]; lia|].
        split; [exact X1|]. split; [apply suffix_refl|]. unfold tm, L2. cbn [start]. lia.
      - split; [right; reflexivity|]. split; [left; reflexivity|]. split; [unfold L2; cbn [length]; lia|].
        split; [apply suffix_refl|]. split; [exact X2|]. unfold tm, L1. cbn [start]. lia.
      - split; [left; reflexivity|]. split; [left; reflexivity|]. split; [unfold L1, L2; cbn [length]; lia|].
        split; [exact X1|]. split; [exact X2|]. unfold tm. cbn [start]. lia. }
    destruct Hpop as (l1' & l2' & lv & -> & H1 & H2 & Hl & U1 & U2 & Tm1 & Tm2).
    destruct (Z.max p1 p2 <? Z.min c1 c2) eqn:Elt.
    + (* a segment is emitted *)
      pose proof (li_emit p1 v1 c1 w1 r1 p2 v2 c2 w2 r2 prev O l1' l2' H ltac:(lia) H1 H2 (Tm1 ltac:(lia))) as H'.
      destruct (IH l1' l2' (step_val (v1, v2) prev) (Some (Z.min c1 c2, lv)) _ ltac:(lia) H')
        as (l1f & l2f & pf & laf & out & E & Hf & One & V1 & V2).
      rewrite E. exists l1f, l2f, pf, laf, ((Z.max p1 p2, step_val (v1, v2) prev) :: out).
      split; [reflexivity|]. rewrite <- app_assoc in Hf. split; [exact Hf|]. split; [exact One|].
      split; [apply (suffix_trans _ _ _ V1 U1)|apply (suffix_trans _ _ _ V2 U2)].
    + (* nothing is emitted *)
      assert (H' : LI l1' l2' prev O).
      { apply (li_skip L1 L2 prev O l1' l2' H).
        - destruct H1 as [-> | ->]; [apply (wsorted_tl _ _ S1)|exact S1].
        - destruct H2 as [-> | ->]; [apply (wsorted_tl _ _ S2)|exact S2].
        - destruct H1 as [-> | ->]; discriminate.
        - destruct H2 as [-> | ->]; discriminate.
        - destruct H1 as [-> | ->]; [apply (agree_tl _ _ _ _ _ _ S1 A1)|exact A1].
        - destruct H2 as [-> | ->]; [apply (agree_tl _ _ _ _ _ _ S2 A2)|exact A2].
        - destruct H1 as [-> | ->]; reflexivity.
        - destruct H2 as [-> | ->]; reflexivity.
        - rewrite (Tm2 ltac:(lia)). reflexivity. }
      destruct (IH l1' l2' prev la O ltac:(lia) H') as (l1f & l2f & pf & laf & out & E & Hf & One & V1 & V2).
      exists l1f, l2f, pf, laf, out. split; [exact E|]. split; [exact Hf|]. split; [exact One|].
      split; [apply (suffix_trans _ _ _ V1 U1)|apply (suffix_trans _ _ _ V2 U2)].
Qed.

End SinceLoop.

(* ================================================================== *)
(* since: from call to call                                            *)
(* ================================================================== *)
Section SinceRun.
Context {VS : Val}.
Variables s1 s2 : dsig.              (* the whole inputs *)
Hypothesis Hs1 : wsorted s1.
Hypothesis Hs2 : wsorted s2.

Notation F1 := (den s1).
Notation F2 := (den s2).
Notation t0 := (TT0 s1 s2).

Definition prefix (a s : dsig) : Prop := exists q, s = a ++ q.

(* a piece of s between two of its stamps describes den s *)
Lemma infix_agree (s pre l post : dsig) : wsorted s -> s = pre ++ l ++ post -> l <> [] -> agree (den s) l.
Proof.
  intros Hs E Hne t Ht.
  assert (Hsl : wsorted (l ++ post)) by (rewrite E in Hs; apply (wsorted_app_r _ _ Hs)).
  assert (Nl : l ++ post <> []) by (destruct l; [congruence|discriminate]).
  assert (E1 : den_opt s t = den_opt (l ++ post) t).
  { apply den_suffix_w; [exact Hs|exists pre; exact E|exact Nl|]. rewrite start_app by exact Hne. lia. }
  assert (E2 : den_opt (l ++ post) t = den_opt l t) by (apply den_app_prefix_w; [exact Hsl|exact Hne|lia]).
  unfold den. rewrite E1, E2. destruct l as [|[p v] r]; [congruence|]. cbn [start] in Ht.
  pose proof (den_from_start p v r t ltac:(lia)) as Hn. destruct (den_opt ((p, v) :: r) t); [reflexivity|congruence].
Qed.

Lemma infix_sorted (s pre l post : dsig) : wsorted s -> s = pre ++ l ++ post -> wsorted l.
Proof. intros Hs E. rewrite E in Hs. apply (wsorted_app_l l post). apply (wsorted_app_r pre). exact Hs. Qed.

(* A, B: what has been fed so far; O: what has been returned so far *)
Record SI (A B : dsig) (st : @sstate VS Z) (O : dsig) : Prop := {
  si_pre1 : prefix A s1;
  si_pre2 : prefix B s2;
  si_suf1 : suffix (s_lbuf st) A;
  si_suf2 : suffix (s_rbuf st) B;
  si_empty : A = [] \/ B = [] -> O = [] /\ s_lbuf st = A /\ s_rbuf st = B /\ s_prev st = bot;
  si_li : A <> [] -> B <> [] ->
          LI F1 F2 t0 (s_lbuf st) (s_rbuf st) (s_prev st) O /\
          (length (s_lbuf st) = 1 \/ length (s_rbuf st) = 1)%nat
}.

Lemma si_init : prefix [] s1 -> prefix [] s2 -> SI [] [] since_init [].
Proof.
  intros P1 P2. constructor; cbn [s_lbuf s_rbuf s_prev since_init]; try assumption; try apply suffix_refl.
  - intros _. auto.
  - congruence.
Qed.

Lemma prefix_start (A s : dsig) : prefix A s -> A <> [] -> start s = start A.
Proof. intros [q ->] Hne. apply start_app. exact Hne. Qed.

Lemma since_update_step A B st O b1 b2 :
  SI A B st O -> prefix (A ++ b1) s1 -> prefix (B ++ b2) s2 ->
  exists st' o, since_upd st (b1, b2) = Some (st', o) /\ SI (A ++ b1) (B ++ b2) st' (O ++ o).
Proof.
  intros R PA PB. unfold since_upd, since_update. cbn [fst snd].
  set (A' := A ++ b1) in *. set (B' := B ++ b2) in *.
  set (l := s_lbuf st ++ b1). set (r := s_rbuf st ++ b2).
  assert (SufL : suffix l A') by (destruct (si_suf1 _ _ _ _ R) as [pre E]; exists pre; unfold l, A'; rewrite E, app_assoc; reflexivity).
  assert (SufR : suffix r B') by (destruct (si_suf2 _ _ _ _ R) as [pre E]; exists pre; unfold r, B'; rewrite E, app_assoc; reflexivity).
  assert (Hdec : (A' = [] \/ B' = []) \/ (A' <> [] /\ B' <> [])).
  { destruct A'; [left; left; reflexivity|]. destruct B'; [left; right; reflexivity|]. right. split; discriminate. }
  destruct Hdec as [Hemp|[NA' NB']].
  - (* one of the inputs has not started yet: the loop is not entered *)
    assert (Hold : A = [] \/ B = []).
    { destruct Hemp as [H|H]; apply app_eq_nil in H; [left|right]; apply H. }
    destruct (si_empty _ _ _ _ R Hold) as (EO & ElA & ErB & Ep).
    assert (Hl : l = A') by (unfold l, A'; rewrite ElA; reflexivity).
    assert (Hr : r = B') by (unfold r, B'; rewrite ErB; reflexivity).
    rewrite since_loop_short by (rewrite Hl, Hr; destruct Hemp as [-> | ->]; cbn [length]; lia).
    eexists _, _. split; [reflexivity|]. rewrite app_nil_r.
    constructor; cbn [s_lbuf s_rbuf s_prev]; rewrite ?Hl, ?Hr; try assumption; try apply suffix_refl.
    + intros _. auto.
    + intros N1 N2. destruct Hemp; congruence.
  - (* both inputs have started *)
    destruct PA as [qa EA]. destruct PB as [qb EB].
    destruct SufL as [pl EL]. destruct SufR as [pr ER].
    assert (IL : s1 = pl ++ l ++ qa) by (rewrite EA, EL, <- app_assoc; reflexivity).
    assert (IR : s2 = pr ++ r ++ qb) by (rewrite EB, ER, <- app_assoc; reflexivity).
    assert (T0 : t0 = Z.max (start A') (start B')).
    { unfold TT0. rewrite (prefix_start A' s1) by (try (exists qa); assumption).
      rewrite (prefix_start B' s2) by (try (exists qb); assumption). reflexivity. }
    assert (Hli : LI F1 F2 t0 l r (s_prev st) O).
    { assert (Hd : (A = [] \/ B = []) \/ (A <> [] /\ B <> [])).
      { destruct A; [left; left; reflexivity|]. destruct B; [left; right; reflexivity|]. right. split; discriminate. }
      destruct Hd as [He|[NA NB]].
      - (* first call with both inputs present: the buffers are the inputs *)
        destruct (si_empty _ _ _ _ R He) as (EO & ElA & ErB & Ep).
        assert (Hl : l = A') by (unfold l, A'; rewrite ElA; reflexivity).
        assert (Hr : r = B') by (unfold r, B'; rewrite ErB; reflexivity).
        assert (Tm : tm l r = t0) by (unfold tm; rewrite Hl, Hr, T0; reflexivity).
        constructor.
        + apply (infix_sorted s1 pl l qa Hs1 IL).
        + apply (infix_sorted s2 pr r qb Hs2 IR).
        + rewrite Hl. exact NA'.
        + rewrite Hr. exact NB'.
        + apply (infix_agree s1 pl l qa Hs1 IL). rewrite Hl. exact NA'.
        + apply (infix_agree s2 pr r qb Hs2 IR). rewrite Hr. exact NB'.
        + lia.
        + rewrite Tm, Z.eqb_refl. exact Ep.
        + rewrite EO. exact I.
        + rewrite EO. intros a v [].
        + intros t Ht. lia.
      - (* the buffers of the previous call, extended by the new batches *)
        destruct (si_li _ _ _ _ R NA NB) as [[S1 S2 N1 N2 A1 A2 T0' Hp Hos Hin Hden] _].
        assert (Nl : l <> []) by (unfold l; destruct (s_lbuf st); [congruence|discriminate]).
        assert (Nr : r <> []) by (unfold r; destruct (s_rbuf st); [congruence|discriminate]).
        assert (SL : wsorted l) by (apply (infix_sorted s1 pl l qa Hs1 IL)).
        assert (SR : wsorted r) by (apply (infix_sorted s2 pr r qb Hs2 IR)).
        assert (Tm : tm l r = tm (s_lbuf st) (s_rbuf st)).
        { unfold tm, l, r. rewrite !start_app by assumption. reflexivity. }
        pose proof (lastT_app_ge_w _ _ SL N1) as G1. pose proof (lastT_app_ge_w _ _ SR N2) as G2. fold l in G1. fold r in G2.
        constructor; try assumption.
        + apply (infix_agree s1 pl l qa Hs1 IL Nl).
        + apply (infix_agree s2 pr r qb Hs2 IR Nr).
        + rewrite Tm. exact T0'.
        + rewrite Tm. exact Hp.
        + rewrite Tm. intros a v Hi. pose proof (Hin a v Hi). lia.
        + rewrite Tm. exact Hden. }
    destruct (since_loop_correct F1 F2 t0 (length l + length r) l r (s_prev st) (s_last st) O ltac:(lia) Hli)
      as (l' & r' & pf & laf & out & E & Hf & One & V1 & V2).
    rewrite E. eexists _, _. split; [reflexivity|].
    constructor; cbn [s_lbuf s_rbuf s_prev].
    + exists qa. exact EA.
    + exists qb. exact EB.
    + apply (suffix_trans _ _ _ V1). exists pl. exact EL.
    + apply (suffix_trans _ _ _ V2). exists pr. exact ER.
    + intros [H|H]; congruence.
    + intros _ _. split; [exact Hf|exact One].
Qed.

Lemma since_run_inv : forall bs A B st O,
  SI A B st O -> prefix (A ++ concat (map fst bs)) s1 -> prefix (B ++ concat (map snd bs)) s2 ->
  exists st' outs, since_run Z Z.ltb st bs = Some (st', outs) /\
                   SI (A ++ concat (map fst bs)) (B ++ concat (map snd bs)) st' (O ++ concat outs).
Proof.
  induction bs as [|[b1 b2] bs IH]; intros A B st O R PA PB.
  - exists st, []. split; [reflexivity|]. cbn [map concat]. rewrite !app_nil_r. exact R.
  - cbn [map concat fst snd] in *. rewrite app_assoc in PA, PB.
    assert (PA1 : prefix (A ++ b1) s1) by (destruct PA as [q E]; exists (concat (map fst bs) ++ q); rewrite E, <- app_assoc; reflexivity).
    assert (PB1 : prefix (B ++ b2) s2) by (destruct PB as [q E]; exists (concat (map snd bs) ++ q); rewrite E, <- app_assoc; reflexivity).
    destruct (since_update_step A B st O b1 b2 R PA1 PB1) as (st1 & o & E & R1).
    destruct (IH _ _ _ _ R1 PA PB) as (st2 & outs & E2 & R2).
    exists st2, (o :: outs). split.
    + unfold since_run in *. cbn [run_g]. unfold since_upd in E. rewrite E, E2. reflexivity.
    + cbn [concat]. rewrite !app_assoc. exact R2.
Qed.

End SinceRun.

Section SinceMain.
Context {VS : Val}.

(* feeding s1 and s2 in any two sequences of batches (one pair of batches per call): no call fails; the
   concatenated outputs have strictly increasing stamps, all in [t0, F), and denote the dense-time unbounded
   since of the two inputs at every tick of [t0, F) -- t0 the later of the two first stamps, F the earlier of
   the two last stamps, EXCLUDED: the value at F itself is only kept in self.last (see the note below) *)
Theorem since_run_correct_w (s1 s2 : dsig) (bs : list (dsig * dsig)) :
  wsorted s1 -> wsorted s2 -> s1 <> [] -> s2 <> [] ->
  concat (map fst bs) = s1 -> concat (map snd bs) = s2 ->
  let F := Z.min (lastT s1) (lastT s2) in
  let t0 := Z.max (start s1) (start s2) in
  exists st outs,
    since_run Z Z.ltb since_init bs = Some (st, outs) /\
    dsorted (concat outs) /\
    (forall a v, In (a, v) (concat outs) -> t0 <= a < F) /\
    (forall t, t0 <= t < F -> den_opt (concat outs) t = Some (Sv (den s1) (den s2) t0 t)) /\
    suffix (s_lbuf st) s1 /\ suffix (s_rbuf st) s2 /\
    (length (s_lbuf st) = 1 \/ length (s_rbuf st) = 1)%nat.
Proof.
  intros S1 S2 N1 N2 E1 E2. subst s1 s2. intros F t0.
  set (s1 := concat (map fst bs)) in *. set (s2 := concat (map snd bs)) in *.
  assert (P1 : prefix ([] ++ s1) s1) by (exists []; cbn [app]; rewrite app_nil_r; reflexivity).
  assert (P2 : prefix ([] ++ s2) s2) by (exists []; cbn [app]; rewrite app_nil_r; reflexivity).
  assert (R0 : SI s1 s2 [] [] since_init []) by (apply si_init; [exists s1|exists s2]; reflexivity).
  destruct (since_run_inv s1 s2 S1 S2 bs [] [] since_init [] R0 P1 P2) as (st & outs & E & R).
  change (SI s1 s2 s1 s2 st (concat outs)) in R. exists st, outs. split; [exact E|].
  destruct (si_li _ _ _ _ _ _ R N1 N2) as [[L1 L2 M1 M2 A1 A2 T0 Hp Hos Hin Hden] One].
  pose proof (si_suf1 _ _ _ _ _ _ R) as U1. pose proof (si_suf2 _ _ _ _ _ _ R) as U2.
  assert (LT1 : lastT (s_lbuf st) = lastT s1) by (destruct U1 as [pre ->]; symmetry; apply lastT_app; exact M1).
  assert (LT2 : lastT (s_rbuf st) = lastT s2) by (destruct U2 as [pre ->]; symmetry; apply lastT_app; exact M2).
  assert (Front : F <= tm (s_lbuf st) (s_rbuf st)).
  { unfold tm, F. destruct One as [Ho|Ho].
    - destruct (s_lbuf st) as [|[p v] [|? ?]]; cbn [length] in Ho; try lia. change (lastT [(p, v)]) with p in LT1. cbn [start]. lia.
    - destruct (s_rbuf st) as [|[p v] [|? ?]]; cbn [length] in Ho; try lia. change (lastT [(p, v)]) with p in LT2. cbn [start]. lia. }
  split; [exact Hos|]. split; [|split; [|split; [exact U1|split; [exact U2|exact One]]]].
  - intros a v Hi. pose proof (Hin a v Hi) as Hx. rewrite LT1, LT2 in Hx. unfold TT0 in Hx. unfold F, t0. lia.
  - intros t Ht. apply Hden. unfold TT0. unfold t0 in Ht. lia.
Qed.

(* the same for strictly increasing inputs (a special case) *)
Theorem since_run_correct (s1 s2 : dsig) (bs : list (dsig * dsig)) :
  dsorted s1 -> dsorted s2 -> s1 <> [] -> s2 <> [] ->
  concat (map fst bs) = s1 -> concat (map snd bs) = s2 ->
  let F := Z.min (lastT s1) (lastT s2) in
  let t0 := Z.max (start s1) (start s2) in
  exists st outs,
    since_run Z Z.ltb since_init bs = Some (st, outs) /\
    dsorted (concat outs) /\
    (forall a v, In (a, v) (concat outs) -> t0 <= a < F) /\
    (forall t, t0 <= t < F -> den_opt (concat outs) t = Some (Sv (den s1) (den s2) t0 t)) /\
    suffix (s_lbuf st) s1 /\ suffix (s_rbuf st) s2 /\
    (length (s_lbuf st) = 1 \/ length (s_rbuf st) = 1)%nat.
Proof.
  intros S1 S2. apply since_run_correct_w; apply dsorted_wsorted; assumption.
Qed.

(* two chunkings of the same inputs never disagree on [t0, F) *)
Corollary since_run_chunking (s1 s2 : dsig) (bs bs' : list (dsig * dsig)) :
  dsorted s1 -> dsorted s2 -> s1 <> [] -> s2 <> [] ->
  concat (map fst bs) = s1 -> concat (map snd bs) = s2 ->
  concat (map fst bs') = s1 -> concat (map snd bs') = s2 ->
  exists st outs st' outs',
    since_run Z Z.ltb since_init bs = Some (st, outs) /\ since_run Z Z.ltb since_init bs' = Some (st', outs') /\
    forall t, Z.max (start s1) (start s2) <= t < Z.min (lastT s1) (lastT s2) ->
              den_opt (concat outs) t = den_opt (concat outs') t.
Proof.
  intros S1 S2 N1 N2 E1 E2 E1' E2'.
  destruct (since_run_correct s1 s2 bs S1 S2 N1 N2 E1 E2) as (st & outs & E & _ & _ & Hv & _).
  destruct (since_run_correct s1 s2 bs' S1 S2 N1 N2 E1' E2') as (st' & outs' & E' & _ & _ & Hv' & _).
  exists st, outs, st', outs'. split; [exact E|]. split; [exact E'|].
  intros t Ht. rewrite (Hv t Ht), (Hv' t Ht). reflexivity.
Qed.

End SinceMain.

(* ================================================================== *)
(* NOTE: self.last of since (what update_final appends) is NOT the since value at F       *)
(* ================================================================== *)
(* [last = [hi, last_val]] is meant to be the value at the end F of the last emitted segment, but
   last_val is computed from self.prev as it is BEFORE the iteration stores the value of that segment
   in it (DenseOnlineFold.since_loop follows the code).  A concrete run, over the executable values ExtZ:
     left  = [[0,1],[5,1]]      right = [[0,0],[2,1],[5,0]]
   update returns [[0,0],[2,1]] (correct on [0,5)), self.last = [5,0], but the since value at 5 is 1:
   update_final returns [[0,0],[2,1],[5,0]]. *)
From RV Require Import ExtZ.
Example since_last_defect :
  let l : list (Z * extz) := [(0, Fin 1); (5, Fin 1)] in
  let r : list (Z * extz) := [(0, Fin 0); (2, Fin 1); (5, Fin 0)] in
  exists st,
    @since_run ExtZVal Z Z.ltb since_init [(l, r)] = Some (st, [[(0, Fin 0); (2, Fin 1)]]) /\
    s_last st = Some (5, Fin 0) /\
    @Sv ExtZVal (@den ExtZVal l) (@den ExtZVal r) 0 5 = Fin 1.
Proof. eexists. split; [vm_compute; reflexivity|]. split; vm_compute; reflexivity. Qed.

(* ================================================================== *)
(* the specifications above are the tick semantics rhoZ of DenseSem.v  *)
(* ================================================================== *)
Section AgainstRhoZ.
Context {VS : Val} (AR : Arith VS).
Variable pk : formula -> formula -> pkind.

Lemma rhoZ_once_var (s : dsig) tend t :
  rhoZ AR pk [s] tend (Once (Var 0)) t = zmax (den s) (start s) t.
Proof. reflexivity. Qed.
Lemma rhoZ_hist_var (s : dsig) tend t :
  rhoZ AR pk [s] tend (Hist (Var 0)) t = zmin (den s) (start s) t.
Proof. reflexivity. Qed.
Lemma rhoZ_not_var (s : dsig) tend t :
  rhoZ AR pk [s] tend (Not (Var 0)) t = neg (den s t).
Proof. reflexivity. Qed.
Lemma rhoZ_a1_var o (s : dsig) tend t :
  rhoZ AR pk [s] tend (A1 o (Var 0)) t = a1 AR o (den s t).
Proof. reflexivity. Qed.
Lemma rhoZ_since_vars (s1 s2 : dsig) tend t :
  rhoZ AR pk [s1; s2] tend (Since (Var 0) (Var 1)) t = Sv (den s1) (den s2) (Z.max (start s1) (start s2)) t.
Proof. reflexivity. Qed.

(* since, stated with rhoZ *)
Corollary since_run_rhoZ (s1 s2 : dsig) (bs : list (dsig * dsig)) tend :
  dsorted s1 -> dsorted s2 -> s1 <> [] -> s2 <> [] ->
  concat (map fst bs) = s1 -> concat (map snd bs) = s2 ->
  exists st outs,
    since_run Z Z.ltb since_init bs = Some (st, outs) /\
    forall t, Z.max (start s1) (start s2) <= t < Z.min (lastT s1) (lastT s2) ->
              den_opt (concat outs) t = Some (rhoZ AR pk [s1; s2] tend (Since (Var 0) (Var 1)) t).
Proof.
  intros S1 S2 N1 N2 E1 E2.
  destruct (since_run_correct s1 s2 bs S1 S2 N1 N2 E1 E2) as (st & outs & E & _ & _ & Hv & _).
  exists st, outs. split; [exact E|]. intros t Ht. rewrite rhoZ_since_vars. apply Hv. exact Ht.
Qed.

End AgainstRhoZ.

(* ================================================================== *)
(* constant, variable                                                  *)
(* ================================================================== *)
Section LeavesCorrect.
Context {VS : Val}.

Lemma const_run_later c : forall n,
  const_run {| c_val := c; c_first := false |} (repeat tt n) = Some ({| c_val := c; c_first := false |}, repeat [] n).
Proof.
  unfold const_run. induction n as [|n IH]; [reflexivity|].
  cbn [repeat run_g]. unfold const_update at 1. cbn [c_first]. rewrite IH. reflexivity.
Qed.
Lemma concat_repeat_nil {A} n : concat (repeat (@nil A) n) = [].
Proof. induction n as [|n IH]; [reflexivity|]. cbn [repeat concat app]. exact IH. Qed.

(* any positive number of calls: the whole constant signal [[0,c],[inf,c]] is returned by the first one, nothing after *)
Theorem const_run_correct c n :
  exists st, const_run (const_init c) (repeat tt (S n)) = Some (st, [(T 0, c); (TInf, c)] :: repeat [] n) /\
             concat ([(T 0, c); (TInf, c)] :: repeat [] n) = [(T 0, c); (TInf, c)] /\
             c_first st = false /\ c_val st = c.
Proof.
  exists {| c_val := c; c_first := false |}. split; [|split; [|split; reflexivity]].
  - unfold const_run. cbn [repeat run_g]. unfold const_update at 1, const_init. cbn [c_first c_val].
    pose proof (const_run_later c n) as H. unfold const_run in H. rewrite H. reflexivity.
  - cbn [concat]. rewrite concat_repeat_nil. reflexivity.
Qed.

(* update returns the attribute, whatever was written in it *)
Theorem var_update_correct st x : var_update (var_set st x) tt = Some (var_set st x, x).
Proof. reflexivity. Qed.
Theorem var_update_init : var_update var_init tt = Some (var_init, None).
Proof. reflexivity. Qed.

End LeavesCorrect.

(* ================================================================== *)
(* batches that repeat the last sample already sent                    *)
(* ================================================================== *)
(* The operations of this file do not filter a batch that starts by repeating the last sample of the
   previous one (and_operation & co do).  The raw stream (the plain concatenation of the batches) then
   has a sample written twice; [dedupx raw] is the stream without the repetitions.  Nothing changes:
   the outputs still denote the operation applied to [dedupx raw] (which denotes what raw denotes).
   - unary operations: unary_run_correct has no hypothesis on the stamps, it applies to raw as it is;
   - since: since_run_correct_w only needs non-decreasing stamps;
   - once / historically: below. *)
Section Repeats.
Context {VS : Val}.

Definition sample_eqb (x y : Z * V) : bool := (fst x =? fst y) && veq (snd x) (snd y).
Lemma sample_eqb_true x y : sample_eqb x y = true -> x = y.
Proof.
  destruct x as [a v], y as [b w]. unfold sample_eqb. cbn [fst snd]. intros H. apply andb_prop in H as [H1 H2].
  apply veq_true in H2. f_equal; [lia|exact H2].
Qed.

(* drop a sample identical (stamp and value) to the next one *)
Fixpoint dedupx (l : dsig) : dsig :=
  match l with
  | [] => []
  | x :: r => match r with
              | y :: _ => if sample_eqb x y then dedupx r else x :: dedupx r
              | [] => [x]
              end
  end.

Lemma dedupx_cons2 x y r : dedupx (x :: y :: r) = if sample_eqb x y then dedupx (y :: r) else x :: dedupx (y :: r).
Proof. reflexivity. Qed.

Lemma den_dedupx (l : dsig) t : den_opt (dedupx l) t = den_opt l t.
Proof.
  induction l as [|x r IH]; [reflexivity|]. destruct r as [|y r']; [reflexivity|].
  rewrite dedupx_cons2. destruct (sample_eqb x y) eqn:E.
  - apply sample_eqb_true in E. subst y. rewrite IH. symmetry. apply (den_opt_dup [] r' x t).
  - destruct x as [a v]. rewrite !(den_opt_cons a v), IH. reflexivity.
Qed.
Lemma den_dedupx' (l : dsig) t : den (dedupx l) t = den l t.
Proof. unfold den. rewrite den_dedupx. reflexivity. Qed.
Lemma dedupx_ne (l : dsig) : l <> [] -> dedupx l <> [].
Proof.
  induction l as [|x r IH]; intros H; [congruence|]. destruct r as [|y r']; [discriminate|].
  rewrite dedupx_cons2. destruct (sample_eqb x y); [apply IH; discriminate|discriminate].
Qed.
Lemma start_dedupx (l : dsig) : start (dedupx l) = start l.
Proof.
  induction l as [|x r IH]; [reflexivity|]. destruct r as [|y r']; [reflexivity|].
  rewrite dedupx_cons2. destruct (sample_eqb x y) eqn:E; [|destruct x; reflexivity].
  apply sample_eqb_true in E. subst y. rewrite IH. destruct x; reflexivity.
Qed.
Lemma lastT_dedupx (l : dsig) : lastT (dedupx l) = lastT l.
Proof.
  induction l as [|x r IH]; [reflexivity|]. destruct r as [|y r']; [reflexivity|].
  rewrite dedupx_cons2, lastT_cons. destruct (sample_eqb x y) eqn:E; [exact IH|].
  pose proof (dedupx_ne (y :: r') ltac:(discriminate)) as Hn.
  destruct (dedupx (y :: r')) as [|z q] eqn:Ed; [congruence|]. rewrite lastT_cons. exact IH.
Qed.

Lemma wsorted_same_stamps (s s' : dsig) : map fst s = map fst s' -> wsorted s' -> wsorted s.
Proof.
  revert s'. induction s as [|[a v] r IH]; intros [|[a' v'] r'] E H; try discriminate; [exact I|].
  cbn [map fst] in E. injection E as -> E. destruct H as [Hh Hs]. split; [|apply (IH r'); assumption].
  destruct r as [|[b w] q], r' as [|[b' w'] q']; try discriminate; [exact I|].
  cbn [map fst] in E. injection E as -> _. exact Hh.
Qed.

Lemma Sv_ext (F1 F2 G1 G2 : Z -> V) t0 t :
  (forall u, F1 u = G1 u) -> (forall u, F2 u = G2 u) -> Sv F1 F2 t0 t = Sv G1 G2 t0 t.
Proof.
  intros H1 H2. unfold Sv. apply zmax_ext. intros u _. rewrite H2. f_equal. apply zmin_ext. intros w _. apply H1.
Qed.

(* ---------------- since ---------------- *)
Theorem since_run_correct_rep (raw1 raw2 : dsig) (bs : list (dsig * dsig)) :
  wsorted raw1 -> wsorted raw2 -> raw1 <> [] -> raw2 <> [] ->
  concat (map fst bs) = raw1 -> concat (map snd bs) = raw2 ->
  let s1 := dedupx raw1 in let s2 := dedupx raw2 in
  let F := Z.min (lastT s1) (lastT s2) in
  let t0 := Z.max (start s1) (start s2) in
  exists st outs,
    since_run Z Z.ltb since_init bs = Some (st, outs) /\
    dsorted (concat outs) /\
    (forall a v, In (a, v) (concat outs) -> t0 <= a < F) /\
    (forall t, t0 <= t < F -> den_opt (concat outs) t = Some (Sv (den s1) (den s2) t0 t)).
Proof.
  intros S1 S2 N1 N2 E1 E2 s1 s2 F t0.
  destruct (since_run_correct_w raw1 raw2 bs S1 S2 N1 N2 E1 E2) as (st & outs & E & Hs & Hin & Hv & _).
  exists st, outs. unfold F, t0, s1, s2. rewrite !start_dedupx, !lastT_dedupx.
  split; [exact E|]. split; [exact Hs|]. split; [exact Hin|].
  intros t Ht. rewrite (Hv t Ht). f_equal. apply Sv_ext; intros u; symmetry; apply den_dedupx'.
Qed.

(* ---------------- once / historically ---------------- *)
Section FoldRep.
Variable g : V -> V -> V.
Hypothesis g_idem : forall v p, g v (g v p) = g v p.

Lemma fold_loop_stamps : forall (l : dsig) prev, map fst (snd (fold_loop Z g prev l)) = map fst l.
Proof.
  induction l as [|[a v] r IH]; intros prev; [reflexivity|]. cbn [fold_loop]. specialize (IH (g v prev)).
  destruct (fold_loop Z g (g v prev) r) as [pf out]. cbn [snd map fst] in *. rewrite IH. reflexivity.
Qed.

Lemma fold_loop_dedupx : forall (l : dsig) prev,
  fst (fold_loop Z g prev (dedupx l)) = fst (fold_loop Z g prev l) /\
  forall t, den_opt (snd (fold_loop Z g prev (dedupx l))) t = den_opt (snd (fold_loop Z g prev l)) t.
Proof.
  induction l as [|x r IH]; intros prev; [split; reflexivity|]. destruct r as [|y r']; [split; reflexivity|].
  rewrite dedupx_cons2. destruct (sample_eqb x y) eqn:E.
  - apply sample_eqb_true in E. subst y. destruct x as [a v].
    destruct (IH prev) as [I1 I2]. rewrite I1. split.
    + cbn [fold_loop]. rewrite g_idem.
      destruct (fold_loop Z g (g v prev) r') as [pf out]. reflexivity.
    + intros t. rewrite I2. cbn [fold_loop]. rewrite g_idem.
      destruct (fold_loop Z g (g v prev) r') as [pf out]. cbn [snd]. symmetry. apply (den_opt_dup [] out (a, g v prev) t).
  - destruct x as [a v]. remember (y :: r') as l' eqn:El. cbn [fold_loop]. destruct (IH (g v prev)) as [I1 I2].
    destruct (fold_loop Z g (g v prev) (dedupx l')) as [pf out].
    destruct (fold_loop Z g (g v prev) l') as [pf' out']. cbn [fst snd] in *. split; [exact I1|].
    intros t. rewrite !(den_opt_cons a), I2. reflexivity.
Qed.

Variable W : (Z -> V) -> Z -> Z -> V.
Hypothesis Wsnoc : forall G lo hi, lo <= hi -> W G lo hi = g (G hi) (W G lo (hi - 1)).
Hypothesis Wconst : forall G lo A B, lo <= A <= B -> (forall u, A <= u <= B -> G u = G A) -> W G lo B = W G lo A.

Lemma fold_run_spec_rep (raw : dsig) (bs : list dsig) init :
  wsorted raw -> dsorted (dedupx raw) -> raw <> [] -> concat bs = raw ->
  init = W (den (dedupx raw)) (start raw) (start raw - 1) ->
  exists st outs,
    run_g (fold_update Z g) {| fprev := init |} bs = Some (st, outs) /\
    map fst (concat outs) = map fst raw /\
    wsorted (concat outs) /\
    (forall t, start raw <= t -> den_opt (concat outs) t = Some (W (den (dedupx raw)) (start raw) t)) /\
    fprev st = W (den (dedupx raw)) (start raw) (lastT raw).
Proof.
  intros Hw Hs Hne E Hi. destruct (fold_run_concat g bs {| fprev := init |}) as (st & outs & Er & Ep & Eo).
  cbn [fprev] in *. rewrite E in *. set (s := dedupx raw) in *.
  assert (Ns : s <> []) by (apply dedupx_ne; exact Hne).
  assert (St0 : start s = start raw) by apply start_dedupx.
  destruct (fold_scan g W Wsnoc Wconst (den s) (start s) s init Hs Ns ltac:(lia)) as (D & Ef & _).
  { intros t Ht. unfold den. destruct s as [|[p v] r]; [congruence|]. cbn [start] in Ht.
    pose proof (den_from_start p v r t Ht) as Hn. destruct (den_opt ((p, v) :: r) t); [reflexivity|congruence]. }
  { rewrite St0. exact Hi. }
  destruct (fold_loop_dedupx raw init) as [I1 I2]. fold s in I1, I2.
  exists st, outs. rewrite Eo. split; [exact Er|]. split; [apply fold_loop_stamps|].
  split; [apply (wsorted_same_stamps _ raw (fold_loop_stamps raw init) Hw)|]. split.
  - intros t Ht. rewrite <- I2, <- St0. apply D. lia.
  - rewrite Ep, <- I1, Ef, St0. unfold s. rewrite lastT_dedupx. reflexivity.
Qed.

End FoldRep.

Theorem once_run_correct_rep (raw : dsig) (bs : list dsig) :
  wsorted raw -> dsorted (dedupx raw) -> raw <> [] -> concat bs = raw ->
  exists st outs,
    once_run Z once_init bs = Some (st, outs) /\
    map fst (concat outs) = map fst raw /\
    wsorted (concat outs) /\
    (forall t, start raw <= t -> den_opt (concat outs) t = Some (zmax (den (dedupx raw)) (start raw) t)) /\
    fprev st = zmax (den (dedupx raw)) (start raw) (lastT raw).
Proof.
  intros Hw Hs Hne E.
  apply (fold_run_spec_rep vmax ltac:(intros v p; ord) zmax zmax_snoc' zmax_tail_const raw bs bot Hw Hs Hne E).
  symmetry. apply zmax_empty.
Qed.

Theorem hist_run_correct_rep (raw : dsig) (bs : list dsig) :
  wsorted raw -> dsorted (dedupx raw) -> raw <> [] -> concat bs = raw ->
  exists st outs,
    hist_run Z hist_init bs = Some (st, outs) /\
    map fst (concat outs) = map fst raw /\
    wsorted (concat outs) /\
    (forall t, start raw <= t -> den_opt (concat outs) t = Some (zmin (den (dedupx raw)) (start raw) t)) /\
    fprev st = zmin (den (dedupx raw)) (start raw) (lastT raw).
Proof.
  intros Hw Hs Hne E.
  apply (fold_run_spec_rep vmin ltac:(intros v p; ord) zmin zmin_snoc' zmin_tail_const raw bs top Hw Hs Hne E).
  symmetry. apply zmin_empty.
Qed.

End Repeats.
