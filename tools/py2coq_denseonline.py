#!/usr/bin/env python3
# tools/py2coq_denseonline.py [REPO_ROOT] OUT.v [--print-digests]
# FAIL-CLOSED translator: the dense-time ONLINE operation classes
#     rtamt/semantics/{stl,arithmetic,iastl}/dense_time/online/*_operation.py      ->  coq/theories/DenseOnlineGen.v
# For every translated class X(AbstractDenseTimeOnlineOperation):
#   Record X_state         one field per `self.f = ..` of __init__
#   X_init                 the state __init__ builds
#   gen_X_update           update(self, batch [, batch]) : X_state -> psig [-> psig] -> option (X_state * psig)   (None = the code raises)
#   gen_X_reset            reset(self)                   : X_state -> option X_state
# built only from the primitives of PySem.v / PyDense.v, by the scheme of tools/py2coq_offline.py (continuation style, option monad,
# A-normal form, for = py_for over a state tuple, if = Coq if returning the tuple of assigned names), extended with
#   * attributes: `self.f` is a variable self_f, read from the record at the start and written back at `return`; an attribute that
#     __init__ does not create is local to one update (it has to be assigned before it is read);
#   * types: int (Z), val (V), stamp (T), bool, sample (T*V: `[t, v]`; x[0] = fst, x[1] = snd), osample (option: [] or a sample,
#     truthiness = is Some, o[k] = IndexError on []), sig (list of samples); the type of an attribute comes from FIELD_TYPES and every use is checked;
#   * `and`/`or` short-circuit also when an operand may raise; `while` = py_while with the fuel  sum of len(x) for the len(x) of its condition;
#   * `float("nan")` is an unusable value: a variable that may hold it cannot be read;
#   * in-place mutation (append, pop(0), del l[i]) only of a list object this update created and has not aliased.
# `intersect.intersection(a, b, intersect.M)` becomes a call of the HAND model DenseOnlineMerge.oisect_g (intersection() and _append() stay
# hand-modelled: they are pinned by digest) with gen_m_M, the translation of `def M(a, b): return E` at the end of intersection.py.
# NOT modelled (as in the hand models): exceptions of float arithmetic inside those functions (ZeroDivisionError, ValueError of log/power).
# Whatever is not supported: exit code 2 with file:line.  Every *_operation.py in the three directories has to be either translated
# or pinned by the digest of its syntax tree; update_final of a translated class is pinned too (one of the three known texts).
import ast, glob, hashlib, os, sys

D_STL, D_AR, D_IA = ('rtamt/semantics/stl/dense_time/online', 'rtamt/semantics/arithmetic/dense_time/online',
                     'rtamt/semantics/iastl/dense_time/online')
ISECT = D_STL + '/intersection.py'
BASE = 'AbstractDenseTimeOnlineOperation'
# (file, class) in the order of the generated text
TRANSLATED = [(D_STL + '/and_operation.py', 'AndOperation'), (D_STL + '/or_operation.py', 'OrOperation'),
              (D_STL + '/implies_operation.py', 'ImpliesOperation'), (D_STL + '/iff_operation.py', 'IffOperation'),
              (D_STL + '/xor_operation.py', 'XorOperation'), (D_AR + '/addition_operation.py', 'AdditionOperation'),
              (D_AR + '/subtraction_operation.py', 'SubtractionOperation'), (D_AR + '/multiplication_operation.py', 'MultiplicationOperation'),
              (D_AR + '/division_operation.py', 'DivisionOperation'), (D_AR + '/pow_operation.py', 'PowOperation'),
              (D_AR + '/log_operation.py', 'LogOperation'),
              (D_STL + '/not_operation.py', 'NotOperation'), (D_AR + '/abs_operation.py', 'AbsOperation'),
              (D_AR + '/negate_operation.py', 'NegateOperation'), (D_AR + '/sqrt_operation.py', 'SqrtOperation'),
              (D_AR + '/exp_operation.py', 'ExpOperation'), (D_AR + '/ln_operation.py', 'LnOperation'),
              (D_STL + '/once_operation.py', 'OnceOperation'), (D_STL + '/historically_operation.py', 'HistoricallyOperation'),
              (D_STL + '/always_operation.py', 'AlwaysOperation'), (D_STL + '/since_operation.py', 'SinceOperation')]
# classes that are not translated (hand models: DenseOnlineWin.v, DenseOnlineMon.v, DenseOnlineFold.v): digest of the whole file
PINNED = {D_STL + '/once_timed_operation.py': '41940b1c2192', D_STL + '/historically_timed_operation.py': 'bca79f391624',
          D_STL + '/since_timed_operation.py': '8ab6d7855e77', D_STL + '/predicate_operation.py': '2db97f3c19d1',
          D_STL + '/constant_operation.py': 'c33c4761e7b5', D_STL + '/variable_operation.py': '8782415663a3',
          D_IA + '/predicate_operation.py': '9b7958556220'}
# functions of intersection.py: hand-modelled or used by pinned classes only (digest) / translated (`def M(a, b): return E`)
ISECT_PINNED = {'interval_union': 'b6bbbc8df29d', 'union': '162262a61e97', 'intersects': '5f2df0eb1150', '_append': 'fd5220a5e155', 'intersection': 'dabeaa50aea0', 'ln': '50b1574b42b1', 'split': 'f5ba653bed95'}
ISECT_METHODS = ['disjunction', 'conjunction', 'implication', 'xor', 'iff', 'addition', 'subtraction', 'multiplication', 'power', 'log',
                 'division']
ISECT_IMPORTS = {('from', 'rtamt.semantics.arithmetic', 'saturating'), ('import', 'math', None), ('from', 'rtamt', 'RTAMTException')}
# update_final is not translated: the known texts (binary: update(..) + [self.last] or + [self.last_output]; unary: update(..))
FINAL_DIGESTS = {'595895ad9749', 'bb0355283bd8', '811810d9fc4e'}
OK_IMPORTS = {('from', 'rtamt.semantics.abstract_dense_time_online_operation', BASE),
              ('import', 'rtamt.semantics.stl.dense_time.online.intersection', 'intersect'), ('import', 'math', None),
              ('from', 'rtamt.semantics.arithmetic', 'saturating')}
FIELD_TYPES = {'sample_left_buf': 'sig', 'sample_right_buf': 'sig', 'sample_last_buf': 'sig', 'input': 'sig',
               'last_output': 'osample', 'last': 'osample', 'prev': 'val'}
COQTY = {'sig': 'psig T', 'osample': 'option (psample T)', 'val': 'V'}
RESERVED = set('''end match with fun let in if then else return as at cofix fix forall exists for using where Type Prop Set Some None
  top bot neg map combine rev fst snd app length repeat seq nth a1 a2 AR VS V Z T nat list option true false tt st
  Abs Sqrt Exp Ln Neg Add Sub Mul Div Pow Log vmin vmax orb andb negb bool prod pair S O nil cons tl hd firstn skipn concat
  tltb teqb ltb leb veq psig psample azero Arith Val left right inl inr eq_refl conj exist existT I Lt Gt Eq xH xI xO Z0 Zpos Zneg TInf
  Pop1 Pop2 Emit1 Emit2 Bad'''.split())

PATH = '?'
def fail(node, msg):
    sys.stderr.write('%s:%s: py2coq_denseonline: %s\n' % (PATH, getattr(node, 'lineno', '?'), msg))
    sys.exit(2)

def digest(node):
    return hashlib.sha256(ast.unparse(node).encode()).hexdigest()[:12]

def is_name(e, s): return isinstance(e, ast.Name) and e.id == s
def is_selfattr(e): return isinstance(e, ast.Attribute) and is_name(e.value, 'self')
def is_float(e, s):    # float("inf") / float("nan")
    return (isinstance(e, ast.Call) and is_name(e.func, 'float') and len(e.args) == 1 and not e.keywords
            and isinstance(e.args[0], ast.Constant) and e.args[0].value == s)
def key(e):            # the environment key of a variable expression: 'x' or 'self.f'
    if isinstance(e, ast.Name): return e.id
    if is_selfattr(e): return 'self.' + e.attr
    return None

def assigned(stmts):
    """environment keys a statement list (re)binds or mutates"""
    out = set()
    for s in stmts:
        if isinstance(s, ast.Assign):
            for t in s.targets:
                for n in (t.elts if isinstance(t, ast.Tuple) else [t]):
                    if key(n): out.add(key(n))
        elif isinstance(s, ast.AugAssign) and key(s.target): out.add(key(s.target))
        elif isinstance(s, ast.Expr) and isinstance(s.value, ast.Call) and isinstance(s.value.func, ast.Attribute) \
                and key(s.value.func.value): out.add(key(s.value.func.value))
        elif isinstance(s, ast.Delete):
            for t in s.targets:
                if isinstance(t, ast.Subscript) and key(t.value): out.add(key(t.value))
        elif isinstance(s, (ast.For, ast.While)): out |= assigned(s.body)
        elif isinstance(s, ast.If): out |= assigned(s.body) | assigned(s.orelse)
    return out

class Var:
    def __init__(self, ty, fresh=False): self.ty, self.fresh = ty, fresh

class Tr:
    """translation of expressions / statements of one function"""
    def __init__(self, fd):
        self.fd, self.ntmp = fd, 0
        self.pynames = {n.id for n in ast.walk(fd) if isinstance(n, ast.Name)} | {a.arg for a in ast.walk(fd) if isinstance(a, ast.arg)} \
                       | {'self_' + n.attr for n in ast.walk(fd) if is_selfattr(n)}

    def nm(self, k):
        s = 'self_' + k[5:] if k.startswith('self.') else k
        r = s + '_' if (s in RESERVED or s.startswith(('py_', 'os_', 'ts_', 'gen_', 'oisect', 'mk_'))) else s
        if not k.startswith('self.') and s.startswith('self_'): fail(self.fd, 'local name %s clashes with the attributes' % s)
        if r != s and r in self.pynames: fail(self.fd, 'cannot rename %s: %s is also used' % (s, r))
        return r
    def tmp(self):
        while True:
            self.ntmp += 1
            t = 't%d' % self.ntmp
            if t not in self.pynames: return t

    def look(self, e, env):
        k = key(e)
        if k not in env: fail(e, '%s is not certainly bound here' % k)
        if env[k].ty == 'nanval': fail(e, '%s may be float("nan") here' % k)
        return env[k]

    # ---------- expressions: (binds, term, type, fresh)
    def expr(self, e, env):
        if key(e) is not None and not (isinstance(e, ast.Name) and e.id == 'self'):
            v = self.look(e, env)
            return [], self.nm(key(e)), v.ty, False
        if isinstance(e, ast.Constant) and type(e.value) is int and e.value >= 0: return [], str(e.value), 'int', False
        if is_float(e, 'inf'): return [], 'top', 'val', False
        if is_float(e, 'nan'): return [], '?nan', 'nanval', False
        if isinstance(e, ast.UnaryOp) and isinstance(e.op, ast.USub):
            if is_float(e.operand, 'inf'): return [], 'bot', 'val', False
            b, t, ty, _ = self.expr(e.operand, env)
            if ty == 'int': return b, '(- %s)' % t, 'int', False
            if ty == 'val': return b, '(neg %s)' % t, 'val', False
            fail(e, 'unary minus on %s' % ty)
        if isinstance(e, ast.UnaryOp) and isinstance(e.op, ast.Not):
            b, t = self.cond(e.operand, env)
            return b, '(negb %s)' % t, 'bool', False
        if isinstance(e, ast.BinOp):
            b1, t1, y1, _ = self.expr(e.left, env); b2, t2, y2, _ = self.expr(e.right, env)
            k, b = type(e.op).__name__, b1 + b2
            if (y1, y2) == ('int', 'int') and k in ('Add', 'Sub'): return b, '(%s %s %s)' % (t1, '+' if k == 'Add' else '-', t2), 'int', False
            if (y1, y2) == ('val', 'val') and k in ('Add', 'Sub', 'Mult', 'Div'):
                return b, '(a2 AR %s %s %s)' % ({'Mult': 'Mul'}.get(k, k), t1, t2), 'val', False
            if (y1, y2) == ('sig', 'sig') and k == 'Add': return b, '(%s ++ %s)' % (t1, t2), 'sig', True
            fail(e, 'operator %s on %s, %s' % (k, y1, y2))
        if isinstance(e, ast.BoolOp):
            parts = [self.cond(v, env) for v in e.values]
            isand = isinstance(e.op, ast.And)
            if not any(p[0] for p in parts): return [], '(%s)' % (' && ' if isand else ' || ').join(p[1] for p in parts), 'bool', False
            def chain(ps):          # short circuit: a later operand is evaluated (and may raise) only when the earlier ones do not decide
                pre = ''.join('%s <- %s ;; ' % bt for bt in ps[0][0])
                if len(ps) == 1: return pre + 'Some %s' % ps[0][1]
                rest = chain(ps[1:])
                return pre + ('if %s then (%s) else Some false' % (ps[0][1], rest) if isand else 'if %s then Some true else (%s)' % (ps[0][1], rest))
            x = self.tmp()
            return [(x, '(%s)' % chain(parts))], x, 'bool', False
        if isinstance(e, ast.Compare):
            if len(e.ops) != 1: fail(e, 'chained comparison')
            b1, t1, y1, _ = self.expr(e.left, env); b2, t2, y2, _ = self.expr(e.comparators[0], env)
            k, b = type(e.ops[0]).__name__, b1 + b2
            if (y1, y2) == ('val', 'int') and t2 == '0': t2, y2 = '(azero AR)', 'val'
            if (y1, y2) == ('int', 'val') and t1 == '0': t1, y1 = '(azero AR)', 'val'
            if y1 != y2 or y1 not in ('int', 'val', 'stamp'): fail(e, 'comparison of %s and %s' % (y1, y2))
            if y1 == 'int':
                ops = {'LtE': '<=?', 'Lt': '<?', 'GtE': '>=?', 'Gt': '>?', 'Eq': '=?'}
                if k not in ops: fail(e, 'comparison %s on ints' % k)
                return b, '(%s %s %s)' % (t1, ops[k], t2), 'bool', False
            lt, eq = ('ltb %s %s', 'veq %s %s') if y1 == 'val' else ('tltb %s %s', 'teqb %s %s')
            form = {'Lt': '(' + lt % (t1, t2) + ')', 'Gt': '(' + lt % (t2, t1) + ')', 'Eq': '(' + eq % (t1, t2) + ')',
                    'NotEq': '(negb (' + eq % (t1, t2) + '))',
                    'LtE': '(negb (ltb %s %s))' % (t2, t1) if y1 == 'val' else '(tltb %s %s || teqb %s %s)' % (t1, t2, t1, t2),
                    'GtE': '(negb (ltb %s %s))' % (t1, t2) if y1 == 'val' else '(tltb %s %s || teqb %s %s)' % (t2, t1, t1, t2)}
            if k not in form: fail(e, 'comparison %s' % k)
            return b, form[k], 'bool', False
        if isinstance(e, ast.List):
            if not e.elts: return [], '?empty', 'empty', True
            if len(e.elts) != 2: fail(e, 'list display that is neither [] nor a sample [t, v]')
            b1, t1, y1, _ = self.expr(e.elts[0], env); b2, t2, y2, _ = self.expr(e.elts[1], env)
            if (y1, y2) != ('stamp', 'val'): fail(e, 'sample display [%s, %s]' % (y1, y2))
            return b1 + b2, '(%s, %s)' % (t1, t2), 'sample', True
        if isinstance(e, ast.Subscript):
            b, t, ty, _ = self.expr(e.value, env)
            if isinstance(e.slice, ast.Slice):
                if ty != 'sig' or e.slice.step is not None: fail(e, 'slice of %s / with a step' % ty)
                bs, ts = list(b), []
                for part in (e.slice.lower, e.slice.upper):
                    if part is None: ts.append('None')
                    else:
                        bp, tp, yp, _ = self.expr(part, env)
                        if yp != 'int': fail(e, 'slice bound of type %s' % yp)
                        bs += bp; ts.append('(Some %s)' % tp)
                return bs, '(py_slice %s %s %s)' % (t, ts[0], ts[1]), 'sig', True
            if ty == 'sig':
                bi, ti, yi, _ = self.expr(e.slice, env)
                if yi != 'int': fail(e, 'subscript sig[%s]' % yi)
                x = self.tmp()
                return b + bi + [(x, 'py_get %s %s' % (t, ti))], x, 'sample', False
            if ty in ('sample', 'osample'):
                if not (isinstance(e.slice, ast.Constant) and e.slice.value in (0, 1) and type(e.slice.value) is int):
                    fail(e, 'a sample is indexed by the literals 0 and 1 only')
                if ty == 'osample':
                    x = self.tmp(); b = b + [(x, 'os_get %s' % t)]; t = x
                return b, '(%s %s)' % ('fst' if e.slice.value == 0 else 'snd', t), 'stamp' if e.slice.value == 0 else 'val', False
            fail(e, 'subscript of %s' % ty)
        if isinstance(e, ast.Call): return self.call(e, env)
        fail(e, 'unsupported expression %s' % type(e).__name__)

    def call(self, e, env):
        f = e.func
        if e.keywords: fail(e, 'keyword arguments')
        if isinstance(f, ast.Attribute) and isinstance(f.value, ast.Name) and f.value.id not in env:
            k = (f.value.id, f.attr)
            args = [self.expr(a, env) for a in e.args]
            b, tys = sum((a[0] for a in args), []), [a[2] for a in args]
            if k == ('saturating', 'exp') and tys == ['val']: return b, '(a1 AR Exp %s)' % args[0][1], 'val', False
            if k == ('saturating', 'power') and tys == ['val', 'val']: return b, '(a2 AR Pow %s %s)' % (args[0][1], args[1][1]), 'val', False
            if k == ('math', 'log') and tys == ['val', 'val']: return b, '(a2 AR Log %s %s)' % (args[0][1], args[1][1]), 'val', False
            if k in (('math', 'log'), ('math', 'sqrt')) and tys == ['val']:
                x = self.tmp()
                return b + [(x, '%s AR %s' % ('py_ln' if f.attr == 'log' else 'py_sqrt', args[0][1]))], x, 'val', False
            fail(e, 'unknown function %s.%s(%s)' % (k[0], k[1], ', '.join(tys)))
        if not isinstance(f, ast.Name) or f.id in env: fail(e, 'unsupported call')
        args = [self.expr(a, env) for a in e.args]
        b, tys = sum((a[0] for a in args), []), [a[2] for a in args]
        if f.id == 'len' and tys == ['sig']: return b, '(py_len %s)' % args[0][1], 'int', False
        if f.id == 'abs' and tys == ['val']: return b, '(a1 AR Abs %s)' % args[0][1], 'val', False
        if f.id == 'float' and tys == ['val']: return b, args[0][1], 'val', False
        if f.id in ('min', 'max') and tys == ['val', 'val']: return b, '(py_%s2 %s %s)' % (f.id, args[0][1], args[1][1]), 'val', False
        if f.id in ('min', 'max') and tys == ['stamp', 'stamp']: return b, '(ts_%s tltb %s %s)' % (f.id, args[0][1], args[1][1]), 'stamp', False
        fail(e, 'unsupported call %s(%s)' % (f.id, ', '.join(tys)))

    def cond(self, e, env):
        """truth value of e: (binds, Boolean term)"""
        b, t, ty, _ = self.expr(e, env)
        if ty == 'bool': return b, t
        if ty == 'sig': return b, '(py_truthy %s)' % t
        if ty == 'osample': return b, '(os_truthy %s)' % t
        fail(e, 'truth value of %s' % ty)

    def coerce(self, e, t, ty, want):
        """the term t of type ty, stored in a variable of type `want`"""
        if ty == want: return t
        if ty == 'empty' and want == 'sig': return '[]'
        if ty == 'empty' and want == 'osample': return 'None'
        if ty == 'sample' and want == 'osample': return '(Some %s)' % t
        fail(e, 'a value of type %s is stored where %s is expected' % (ty, want))

    # ---------- statements
    def tup(self, names):
        if not names: return 'tt'
        return '(%s)' % ', '.join(self.nm(n) for n in names) if len(names) > 1 else self.nm(names[0])
    def pat(self, names):
        return "'" + self.tup(names) if len(names) != 1 else self.nm(names[0])
    def binds(self, b, ind): return [ind + '%s <- %s ;;' % bt for bt in b]

    def store(self, s, target, t, ty, fresh, env, ind):
        """lines of `target = <t : ty>`"""
        k = key(target)
        if k is None or k == 'self': fail(s, 'unsupported assignment target')
        if k in self.params: fail(s, 'assignment to a parameter')
        if ty == 'bool': fail(s, 'variable of type bool')
        if k.startswith('self.'):
            f = k[5:]
            if f not in FIELD_TYPES: fail(s, 'attribute %s: no type known to the translator' % f)
            want = FIELD_TYPES[f]
        elif k in env and env[k].ty != 'nanval': want = env[k].ty
        else: want = {'empty': 'sig', 'sample': 'sample'}.get(ty, ty)
        if ty == 'nanval':
            if k.startswith('self.'): fail(s, 'float("nan") stored in an attribute')
            env[k] = Var('nanval')
            return []
        t = self.coerce(s, t, ty, want)
        env[k] = Var(want, fresh)
        return [ind + 'let %s := %s in' % (self.nm(k), t)]

    def block(self, stmts, env, final, ind, top=False):
        if not stmts: return final(env, ind)
        s, rest = stmts[0], stmts[1:]
        env = dict(env)
        def cont(): return self.block(rest, env, final, ind, top)
        if isinstance(s, ast.Pass): return cont()
        if isinstance(s, ast.Return):
            # statements after the return of the method are dead; only further `return`s are tolerated there (xor_operation.py)
            if not top or s.value is None or not all(isinstance(r, ast.Return) for r in rest): fail(s, 'return must be the last statement of the method')
            b, t, ty, _ = self.expr(s.value, env)
            if ty != 'sig': fail(s, 'returns %s' % ty)
            return self.binds(b, ind) + final(env, ind, t)
        if isinstance(s, ast.Raise):
            if rest: fail(s, 'statements after raise')
            return [ind + 'None']
        if isinstance(s, ast.Assign):
            tg = s.targets
            if len(tg) == 1 and isinstance(tg[0], ast.Tuple):       # result, last, left, right = intersect.intersection(a, b, intersect.M)
                c = s.value
                if not (isinstance(c, ast.Call) and isinstance(c.func, ast.Attribute) and is_name(c.func.value, 'intersect')
                        and c.func.attr == 'intersection' and 'intersect' not in env and len(c.args) == 3 and not c.keywords
                        and isinstance(c.args[2], ast.Attribute) and is_name(c.args[2].value, 'intersect')):
                    fail(s, 'tuple assignment other than from intersect.intersection(a, b, intersect.M)')
                if not self.uses_isect: fail(s, 'the module does not import intersection as intersect')
                if c.args[2].attr not in ISECT_METHODS: fail(s, 'unknown method intersect.%s' % c.args[2].attr)
                names = [key(x) for x in tg[0].elts]
                if len(names) != 4 or None in names or len(set(names)) != 4 or any(isinstance(x, ast.Attribute) for x in tg[0].elts):
                    fail(s, 'intersection() returns 4 values, to be bound to 4 different local names')
                b1, t1, y1, _ = self.expr(c.args[0], env); b2, t2, y2, _ = self.expr(c.args[1], env)
                if (y1, y2) != ('sig', 'sig'): fail(s, 'intersection(%s, %s, _)' % (y1, y2))
                for n, ty in zip(names, ['sig', 'osample', 'sig', 'sig']):
                    if n in self.params or (n in env and env[n].ty != ty): fail(s, '%s changes type / is a parameter' % n)
                    env[n] = Var(ty, True)
                return self.binds(b1 + b2, ind) + [ind + "'(%s, %s, %s, %s) <- oisect_g T tltb teqb (gen_m_%s AR) %s %s ;;"
                                                   % tuple([self.nm(n) for n in names] + [c.args[2].attr, t1, t2])] + cont()
            if key(s.value) is not None and self.look(s.value, env).ty == 'sig':     # x = y: two names for one list object
                env[key(s.value)] = Var('sig', False)
            b, t, ty, fresh = self.expr(s.value, env)
            if key(s.value) is not None: fresh = False
            if len(tg) > 1 and (b or ty not in ('int', 'val', 'stamp')): fail(s, 'chained assignment of something else than a pure number')
            lines = self.binds(b, ind)
            for target in tg: lines += self.store(s, target, t, ty, fresh, env, ind)
            return lines + cont()
        if isinstance(s, ast.Expr) or isinstance(s, ast.Delete):
            if isinstance(s, ast.Delete):
                if len(s.targets) != 1 or not isinstance(s.targets[0], ast.Subscript) or isinstance(s.targets[0].slice, ast.Slice):
                    fail(s, 'del of something else than l[i]')
                obj, m, argn = s.targets[0].value, 'del', [s.targets[0].slice]
            else:
                c = s.value
                if not (isinstance(c, ast.Call) and isinstance(c.func, ast.Attribute) and not c.keywords): fail(s, 'unsupported expression statement')
                obj, m, argn = c.func.value, c.func.attr, c.args
            if key(obj) is None: fail(s, 'in-place %s on an expression' % m)
            v, x = self.look(obj, env), self.nm(key(obj))
            if not v.fresh or v.ty != 'sig': fail(s, 'in-place %s on %s that may be shared' % (m, v.ty))
            args = [self.expr(a, env) for a in argn]
            b, tys = sum((a[0] for a in args), []), [a[2] for a in args]
            if m == 'append' and tys in (['sample'], ['osample']):
                t = args[0][1]
                if tys == ['osample']:      # appending [] would leave a list that is not a list of samples: only where `if x:` holds
                    if key(argn[0]) not in env.get('?truthy', ()): fail(s, 'append of a value that may be []')
                    y = self.tmp(); b = b + [(y, 'os_get %s' % t)]; t = y
                return self.binds(b, ind) + [ind + 'let %s := %s ++ [%s] in' % (x, x, t)] + cont()
            if m == 'pop' and tys == ['int'] and args[0][1] == '0': return self.binds(b, ind) + [ind + '%s <- py_pop0 %s ;;' % (x, x)] + cont()
            if m == 'del' and tys == ['int']: return self.binds(b, ind) + [ind + '%s <- py_del %s %s ;;' % (x, x, args[0][1])] + cont()
            fail(s, 'unsupported in-place operation %s(%s)' % (m, ', '.join(tys)))
        if isinstance(s, (ast.For, ast.While)):
            if s.orelse: fail(s, 'loop with else')
            mut = assigned(s.body)
            for n in ast.walk(s):
                if isinstance(n, (ast.Break, ast.Continue, ast.Return)): fail(n, 'break / continue / return inside a loop')
            carried = sorted(n for n in mut if n in env and env[n].ty != 'nanval')
            env0 = dict(env); env0.pop('?truthy', None)
            for n in carried: env0[n] = Var(env0[n].ty, env0[n].fresh)
            if isinstance(s, ast.For):
                if not isinstance(s.target, ast.Name) or s.target.id in env or s.target.id in mut: fail(s, 'loop target must be a new name the body does not assign')
                if key(s.iter) is None or key(s.iter) in mut: fail(s, 'iteration over something else than a list variable the body leaves alone')
                if self.look(s.iter, env).ty != 'sig': fail(s, 'iteration over %s' % env[key(s.iter)].ty)
                env2 = dict(env0); env2[s.target.id] = Var('sample')
                head = ind + '%s <- py_for %s (fun %s %s =>' % (self.pat(carried), self.nm(key(s.iter)), self.nm(s.target.id), self.pat(carried))
            else:
                env2 = dict(env0)
                bc, tc = self.cond(s.test, env2)
                if bc: fail(s, 'the condition of a while loop must not raise')
                lens = [n.args[0] for n in ast.walk(s.test) if isinstance(n, ast.Call) and is_name(n.func, 'len') and len(n.args) == 1 and key(n.args[0])]
                if not lens: fail(s, 'while loop without a len(x) in its condition: no fuel')
                fuel = '(%s)%%nat' % ' + '.join('length %s' % self.nm(key(x)) for x in lens)
                head = ind + "%s <- py_while %s (fun %s => %s) (fun %s =>" % (self.pat(carried), fuel, self.pat(carried), tc, self.pat(carried))
            def fin(e2, i2, ret=None):
                for n in carried:
                    if e2[n].ty != env[n].ty: fail(s, '%s changes type in the loop' % n)
                return [i2 + 'Some %s' % self.tup(carried)]
            body = self.block(s.body, env2, fin, ind + '    ')
            for n in carried: env[n] = Var(env[n].ty, env[n].fresh)
            env.pop('?truthy', None)
            body[-1] += ') %s ;;' % self.tup(carried)
            return [head] + body + cont()
        if isinstance(s, ast.If):
            b, t = self.cond(s.test, env)
            # inside the body the variables whose truth the test establishes are known to be non-empty
            known = set(env.get('?truthy', ()))
            tests = s.test.values if isinstance(s.test, ast.BoolOp) and isinstance(s.test.op, ast.And) else [s.test]
            envt = dict(env); envt['?truthy'] = known | {key(x) for x in tests if key(x) and env[key(x)].ty == 'osample'}
            def raises(blk): return bool(blk) and isinstance(blk[-1], ast.Raise)
            live = [bl for bl in (s.body, s.orelse) if not raises(bl)]
            names = sorted(set().union(*[assigned(bl) for bl in live])) if live else []
            # a name that is float("nan") (or unbound) before and not assigned on every path stays unusable
            poison = [n for n in names if (n not in env or env[n].ty == 'nanval') and not all(n in assigned(bl) for bl in live)]
            names = [n for n in names if n not in poison]
            newenv = {}
            def fin(e2, i2, ret=None):
                for n in names:
                    if n not in e2: fail(s, '%s is not bound on every path' % n)
                    if e2[n].ty == 'nanval': fail(s, '%s may be float("nan") after the if' % n)
                    if n in newenv and newenv[n].ty != e2[n].ty: fail(s, '%s has two types' % n)
                    newenv[n] = Var(e2[n].ty, e2[n].fresh and newenv.get(n, e2[n]).fresh)
                return [i2 + 'Some %s' % self.tup(names)]
            th = self.block(s.body, envt, fin, ind + '    ')
            el = self.block(s.orelse, env, fin, ind + '    ')
            for n in names:
                if n in env and env[n].ty not in (newenv[n].ty, 'nanval'): fail(s, '%s changes type' % n)
            env.update(newenv)
            for n in poison: env[n] = Var('nanval')
            env['?truthy'] = {k for k in known if k not in names}
            out = self.binds(b, ind) + [ind + '%s <- (if %s then' % (self.pat(names), t)] + th + [ind + '  else'] + el
            out[-1] += ') ;;'
            return out + cont()
        fail(s, 'unsupported statement %s' % type(s).__name__)


def imports_of(mod, classes_ok=True):
    imports, rest = set(), []
    for s in mod.body:
        if isinstance(s, ast.Import):
            for al in s.names: imports.add(('import', al.name, al.asname))
        elif isinstance(s, ast.ImportFrom):
            for al in s.names:
                if al.asname or s.level: fail(s, 'from ... import ... as / relative import')
                imports.add(('from', s.module, al.name))
        else: rest.append(s)
    return imports, rest


def method_functions(root, printing):
    """gen_m_M for every `def M(a, b): return E` of intersection.py; the other functions are pinned"""
    global PATH
    PATH = root + '/' + ISECT
    mod = ast.parse(open(PATH).read(), PATH)
    imports, rest = imports_of(mod)
    if imports != ISECT_IMPORTS: fail(mod.body[0], 'the import list changed: %s' % sorted(imports ^ ISECT_IMPORTS, key=str))
    seen, out = [], {}
    for s in rest:
        if not isinstance(s, ast.FunctionDef) or s.decorator_list: fail(s, 'unexpected module-level statement')
        if s.name in seen: fail(s, 'function %s defined twice' % s.name)
        seen.append(s.name)
        if s.name in ISECT_PINNED:
            if printing: print('ISECT', s.name, digest(s))
            elif digest(s) != ISECT_PINNED[s.name]: fail(s, 'the hand-modelled / untranslated function %s changed (digest %s)' % (s.name, digest(s)))
        elif s.name in ISECT_METHODS:
            a = s.args
            if len(a.args) != 2 or a.vararg or a.kwarg or a.defaults or a.kwonlyargs or a.posonlyargs or len(s.body) != 1 \
                    or not isinstance(s.body[0], ast.Return) or s.body[0].value is None:
                fail(s, 'expected def %s(a, b): return E' % s.name)
            tr = Tr(s); tr.params = [x.arg for x in a.args]; tr.uses_isect = False
            env = {x.arg: Var('val') for x in a.args}
            b, t, ty, _ = tr.expr(s.body[0].value, env)
            if b or ty != 'val': fail(s, '%s: the expression may raise in the model / is not a number (%s)' % (s.name, ty))
            out[s.name] = ('(* intersection.py:%d *)\nDefinition gen_m_%s {VS : Val} (AR : Arith VS) : V -> V -> V :=\n  fun %s %s => %s.\n'
                           % (s.lineno, s.name, tr.nm(a.args[0].arg), tr.nm(a.args[1].arg), t))
        else: fail(s, 'new function %s: not known to the translator' % s.name)
    missing = [m for m in list(ISECT_PINNED) + ISECT_METHODS if m not in seen]
    if missing: fail(mod, 'functions removed: %s' % missing)
    return [out[m] for m in ISECT_METHODS]


def translate_class(root, rel, cname, printing):
    global PATH
    PATH = root + '/' + rel
    mod = ast.parse(open(PATH).read(), PATH)
    imports, rest = imports_of(mod)
    if not imports <= OK_IMPORTS: fail(mod.body[0], 'unknown import: %s' % sorted(imports - OK_IMPORTS, key=str))
    if ('from', 'rtamt.semantics.abstract_dense_time_online_operation', BASE) not in imports: fail(mod.body[0], 'the base class is not imported')
    if len(rest) != 1 or not isinstance(rest[0], ast.ClassDef): fail(rest[0] if rest else mod, 'expected exactly one class and nothing else')
    cl = rest[0]
    if cl.name != cname or [getattr(b, 'id', None) for b in cl.bases] != [BASE] or cl.keywords or cl.decorator_list:
        fail(cl, 'expected class %s(%s)' % (cname, BASE))
    X = cname[:-len('Operation')]
    meths = {}
    for s in cl.body:
        if not isinstance(s, ast.FunctionDef) or s.decorator_list or s.returns: fail(s, 'unexpected class-level statement %s' % type(s).__name__)
        if s.name in meths: fail(s, 'method %s defined twice' % s.name)
        if s.name not in ('__init__', 'reset', 'update', 'update_final'): fail(s, 'new method %s: not known to the translator' % s.name)
        meths[s.name] = s
    for m in ('__init__', 'update', 'update_final'):
        if m not in meths: fail(cl, 'method %s removed' % m)
    if printing: print('FINAL', cname, digest(meths['update_final']))
    elif digest(meths['update_final']) not in FINAL_DIGESTS: fail(meths['update_final'], 'update_final changed (digest %s)' % digest(meths['update_final']))
    # ---- __init__: the state record
    ini = meths['__init__']
    a = ini.args
    if [x.arg for x in a.args] != ['self'] or a.vararg or a.kwarg or a.defaults or a.kwonlyargs or a.posonlyargs: fail(ini, 'signature of __init__ changed')
    tr = Tr(ini); tr.params = []; tr.uses_isect = False
    fields = []
    for s in ini.body:
        if isinstance(s, ast.Pass): continue
        if not (isinstance(s, ast.Assign) and len(s.targets) == 1 and is_selfattr(s.targets[0])): fail(s, '__init__ may only contain self.f = E')
        f = s.targets[0].attr
        if f in [x[0] for x in fields]: fail(s, 'attribute %s is set twice' % f)
        if f not in FIELD_TYPES: fail(s, 'attribute %s: no type known to the translator' % f)
        b, t, ty, _ = tr.expr(s.value, {})
        if b: fail(s, 'initial value may raise')
        fields.append((f, FIELD_TYPES[f], tr.coerce(s, t, ty, FIELD_TYPES[f])))
    out = ['(* ---------------- %s : class %s ---------------- *)' % (rel, cname)]
    if fields:
        out.append('Record %s_state {VS : Val} (T : Type) : Type := mk_%s_state { %s }.'
                   % (X, X, '; '.join('%s_%s : %s' % (X, f, COQTY[ty]) for f, ty, _ in fields)))
        out.append('Arguments mk_%s_state {VS T}.' % X)
        out += ['Arguments %s_%s {VS T} _.' % (X, f) for f, _, _ in fields]
        out.append('Definition %s_init {VS : Val} (T : Type) : %s_state T := @mk_%s_state VS T %s.' % (X, X, X, ' '.join(v for _, _, v in fields)))
    else:
        out.append('Definition %s_state {VS : Val} (T : Type) : Type := unit.' % X)
        out.append('Definition %s_init {VS : Val} (T : Type) : %s_state T := tt.' % (X, X))
    mk = lambda tr: ('(@mk_%s_state VS T %s)' % (X, ' '.join(tr.nm('self.' + f) for f, _, _ in fields))) if fields else 'tt'
    PRE = 'Definition gen_%s_%s {VS : Val} (AR : Arith VS) (T : Type) (tltb teqb : T -> T -> bool) (st : %s_state T)'
    def prologue(tr):
        env = {'self.' + f: Var(ty, False) for f, ty, _ in fields}
        return env, ['  let %s := %s_%s st in' % (tr.nm('self.' + f), X, f) for f, _, _ in fields]
    # ---- reset
    if 'reset' in meths:
        rs = meths['reset']; a = rs.args
        if [x.arg for x in a.args] != ['self'] or a.vararg or a.kwarg or a.defaults or a.kwonlyargs or a.posonlyargs: fail(rs, 'signature of reset changed')
        tr = Tr(rs); tr.params = []; tr.uses_isect = False
        env, pre = prologue(tr)
        def fin_reset(e2, i2, ret=None):
            for f, ty, _ in fields:
                if e2['self.' + f].ty != ty: fail(rs, 'attribute %s changes type' % f)
            return [i2 + 'Some %s' % mk(tr)]
        lines = pre + tr.block(list(rs.body), env, fin_reset, '  ')
        out.append('(* %s:%d *)' % (rel.split('/')[-1], rs.lineno))
        out.append((PRE % (X, 'reset', X)) + ' : option (%s_state T) :=\n' % X + '\n'.join(lines) + '.')
    else:
        out.append((PRE % (X, 'reset', X)) + ' : option (%s_state T) :=\n  None.   (* no reset(): the inherited one raises NotImplementedError *)' % X)
    # ---- update
    up = meths['update']; a = up.args
    ps = [x.arg for x in a.args]
    if ps[:1] != ['self'] or len(ps) not in (2, 3) or a.defaults or a.kwonlyargs or a.posonlyargs or len(set(ps)) != len(ps): fail(up, 'signature of update changed')
    extra = [x.arg for x in (a.vararg, a.kwarg) if x is not None]
    tr = Tr(up); tr.params = ps[1:]
    tr.uses_isect = ('import', 'rtamt.semantics.stl.dense_time.online.intersection', 'intersect') in imports
    for n in ast.walk(ast.Module(body=up.body, type_ignores=[])):
        if isinstance(n, ast.Name) and n.id in extra: fail(n, 'use of %s in the body' % n.id)
    env, pre = prologue(tr)
    for p in ps[1:]: env[p] = Var('sig', False)
    def fin_update(e2, i2, ret=None):
        if ret is None: fail(up, 'update can end without return')
        for f, ty, _ in fields:
            if e2['self.' + f].ty != ty: fail(up, 'attribute %s changes type' % f)
        return [i2 + 'Some (%s, %s)' % (mk(tr), ret)]
    lines = pre + tr.block(list(up.body), env, fin_update, '  ', top=True)
    out.append('(* %s:%d *)' % (rel.split('/')[-1], up.lineno))
    out.append((PRE % (X, 'update', X)) + ' %s : option (%s_state T * psig T) :=\n' % (' '.join('(%s : psig T)' % tr.nm(p) for p in ps[1:]), X)
               + '\n'.join(lines) + '.')
    return X, len(ps) - 1, [f for f, _, _ in fields], '\n'.join(out) + '\n'


def main():
    global PATH
    printing = '--print-digests' in sys.argv
    argv = [a for a in sys.argv[1:] if not a.startswith('--')]
    if len(argv) == 1: root, outp = '/repo', argv[0]
    elif len(argv) == 2: root, outp = argv
    else: sys.exit('usage: py2coq_denseonline.py [REPO_ROOT] OUT.v')
    root = root.rstrip('/')
    # every operation file is either translated or pinned
    found = sorted(os.path.relpath(p, root) for d in (D_STL, D_AR, D_IA) for p in glob.glob('%s/%s/*_operation.py' % (root, d)))
    known = [r for r, _ in TRANSLATED] + list(PINNED)
    PATH = root
    for r in found:
        if r not in known:
            PATH = root + '/' + r; fail(None, 'new operation file: not known to the translator')
    for r in known:
        if r not in found:
            PATH = root + '/' + r; fail(None, 'operation file removed')
    for r, d in PINNED.items():
        PATH = root + '/' + r
        mod = ast.parse(open(PATH).read(), PATH)
        if printing: print('PINNED', r, digest(mod))
        elif digest(mod) != d: fail(mod.body[0], 'the untranslated class file changed (digest %s)' % digest(mod))
    meths = method_functions(root, printing)
    classes = [translate_class(root, r, c, printing) for r, c in TRANSLATED]
    text = ('(* GENERATED by tools/py2coq_denseonline.py from rtamt/semantics/{stl,arithmetic}/dense_time/online/*_operation.py and the\n'
            '   functions at the end of .../stl/dense_time/online/intersection.py — do not edit.\n'
            '   Per class: the state record of __init__, reset and update, built from the primitives of PySem.v / PyDense.v and the hand model\n'
            '   oisect_g of intersection(); None = the Python code raises. *)\n'
            'From Coq Require Import List Bool Arith ZArith.\nFrom RV Require Import Val Syntax Rho Online Dense PySem PyDense DenseOnlineMerge.\n'
            'Import ListNotations.\nLocal Open Scope Z_scope.\n\n')
    text += '\n'.join(meths) + '\n' + '\n'.join(c[3] for c in classes)
    text += '\nDefinition gen_online_class_count : nat := %d%%nat.\n' % len(classes)
    if not printing: open(outp, 'w').write(text)

if __name__ == '__main__':
    main()
